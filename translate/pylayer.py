#!/usr/bin/env python3
"""rust/src/*.rs, crates/order_book/src/types.rs, src/bourse/data_processing.py, base_agent.py
   -> Bourse/Generated/PyLayer.lean

Extracts the table-like parts of the Python-facing layer:
  * Status -> u8, Side <-> bool encodings (match arms);
  * cast_order / cast_trade tuple layouts (field order);
  * for each array-returning method: the element expressions in order (header + loop body + loop count)
    and the index table of its docstring;
  * market-data dictionary: key -> series expression;
  * data-frame helpers: column lists (via `ast`);
  * #[pymethods] bindings: Python method name -> the core expression it returns / calls.
A source shape outside this grammar raises: reported by the caller as a broken obligation."""
import ast
import re
import sys

from rust_lex import tokens, match_brace, lean_str_list


def q(s):
    return '"' + s.replace("\\", "\\\\").replace('"', '\\"') + '"'


def pairs(ps):
    return "[" + ", ".join(f"({q(a)}, {q(b)})" for a, b in ps) + "]"


def impl_match_arms(toks, impl_head):
    """arms of `impl From<A> for B { fn from(..) -> B { match x { P => V, … } } }` as (pattern, value)."""
    n = len(impl_head)
    for i in range(len(toks) - n):
        if toks[i:i + n] == impl_head:
            j = i
            while toks[j] != "match":
                j += 1
            while toks[j] != "{":
                j += 1
            e = match_brace(toks, j)
            body = toks[j + 1:e]
            arms, cur = [], []
            for t in body + [","]:
                if t == ",":
                    if cur:
                        k = cur.index("=>")
                        arms.append(("".join(cur[:k]), "".join(cur[k + 1:])))
                    cur = []
                else:
                    cur.append(t)
            return arms
    raise ValueError(f"impl {' '.join(impl_head)} not found")


def fn_span(toks, name, start=0):
    for i in range(start, len(toks) - 1):
        if toks[i] == "fn" and toks[i + 1] == name:
            j = i
            while toks[j] != "{":
                j += 1
            return i, j, match_brace(toks, j)
    raise ValueError(f"fn {name} not found")


def split_commas(ts):
    out, cur, d = [], [], 0
    for t in ts:
        if t in "([{":
            d += 1
        elif t in ")]}":
            d -= 1
        if t == "," and d == 0:
            if cur:
                out.append("".join(cur))
            cur = []
        else:
            cur.append(t)
    if cur:
        out.append("".join(cur))
    return out


def tuple_fields(toks, name):
    """the elements of the tuple expression that is the body of `fn name`."""
    _, s, e = fn_span(toks, name)
    body = toks[s + 1:e]
    if body[0] != "(" or match_brace(body, 0, "(", ")") != len(body) - 1:
        raise ValueError(f"{name}: body is not a single tuple")
    return split_commas(body[1:-1])


def array_layout(toks, s, e):
    """header element expressions, loop count, loop body element expressions of an array builder."""
    body = toks[s + 1:e]
    # header: `let data_vec = [ … ];` or `let mut data_vec = vec![ … ];`
    i = 0
    while i < len(body) and not (body[i] == "data_vec" and body[i + 1] == "="):
        i += 1
    if i >= len(body):
        raise ValueError("no data_vec")
    j = i + 2
    if body[j] == "vec!":
        j += 1
    if body[j] != "[":
        raise ValueError("data_vec is not a literal")
    k = match_brace(body, j, "[", "]")
    header = split_commas(body[j + 1:k])
    rest = body[k + 1:]
    loop_n, loop_body = "0", []
    if "for" in rest:
        f = rest.index("for")
        # for i in 0..N { data_vec.push(X); … }
        if rest[f + 2] != "in" or rest[f + 3] != "0" or rest[f + 4] != "..":
            raise ValueError("unexpected loop header")
        loop_n = rest[f + 5]
        lb = f + 6
        le = match_brace(rest, lb)
        inner = rest[lb + 1:le]
        p = 0
        while p < len(inner):
            if inner[p:p + 3] != ["data_vec", ".", "push"]:
                raise ValueError("loop body is not a sequence of pushes")
            a = p + 3
            b = match_brace(inner, a, "(", ")")
            loop_body.append("".join(inner[a + 1:b]))
            p = b + 2
        rest = rest[:f] + rest[le + 1:]
    tail = "".join(t for t in rest if t != ";")
    return header, loop_n, loop_body, tail


def doc_of(src, fn_name, occurrence=0):
    """the `///` doc block immediately above the `pub fn fn_name` (n-th occurrence)."""
    lines = src.split("\n")
    hits = [i for i, l in enumerate(lines) if re.search(r"\bfn\s+" + re.escape(fn_name) + r"\b", l)]
    i = hits[occurrence]
    j = i - 1
    while j >= 0 and (lines[j].strip().startswith("#[") or lines[j].strip() == ""):
        j -= 1
    doc = []
    while j >= 0 and lines[j].strip().startswith("///"):
        doc.append(lines[j].strip()[3:].rstrip())
        j -= 1
    return list(reversed(doc))


def doc_tables(doc):
    """rows `|k | text |` (indexed) and rows `| text |` (unindexed block) of a docstring."""
    indexed, block = [], []
    for l in doc:
        m = re.match(r"\s*\|\s*(\d+)\s*\|\s*(.*?)\s*\|\s*$", l)
        if m:
            indexed.append((m.group(1), m.group(2)))
            continue
        m = re.match(r"\s*\|\s*([^|]*?)\s*\|\s*$", l)
        if m and m.group(1):
            block.append(m.group(1))
    return indexed, block


def doc_bullets(doc):
    """items of `- text` bullet lists of a docstring."""
    return [m.group(1).strip() for l in doc for m in [re.match(r"\s*-\s+(.*)$", l)] if m]


def market_data_keys(toks, s, e):
    """(key expression, series expression) of every entry of the market-data dictionary."""
    body = toks[s + 1:e]
    out = []
    # arrays built with array::from_fn(|i| (format!("…{i}"), EXPR.to_pyarray(py)))
    i = 0
    while i < len(body):
        if body[i] == "format!":
            a = i + 1
            b = match_brace(body, a, "(", ")")
            key = "".join(body[a + 1:b])
            c = b + 1
            if body[c] != ",":
                raise ValueError("unexpected from_fn tuple")
            d = c + 1
            expr = []
            depth = 0
            while not (body[d] == ")" and depth == 0):
                if body[d] == "(":
                    depth += 1
                elif body[d] == ")":
                    depth -= 1
                expr.append(body[d])
                d += 1
            out.append((key, "".join(expr).rstrip(",")))
            i = d
        elif re.match(r'^".*"$', body[i]) and body[i + 1:i + 5] == [".", "to_string", "(", ")"]:
            key = body[i]
            c = i + 5
            if body[c] != ",":
                raise ValueError("unexpected dictionary entry")
            d = c + 1
            expr, depth = [], 0
            while not (body[d] == ")" and depth == 0):
                if body[d] == "(":
                    depth += 1
                elif body[d] == ")":
                    depth -= 1
                expr.append(body[d])
                d += 1
            out.append((key, "".join(expr).rstrip(",")))
            i = d
        else:
            i += 1
    return out


def pymethods(toks):
    """Python-visible method name -> body token string, for every fn inside the #[pymethods] impl."""
    i = 0
    while not (toks[i] == "#" and toks[i + 2] == "pymethods"):
        i += 1
    while toks[i] != "impl":
        i += 1
    while toks[i] != "{":
        i += 1
    e = match_brace(toks, i)
    out = []
    j = i + 1
    while j < e:
        if toks[j] == "fn":
            name = toks[j + 1]
            k = j
            while toks[k] != "{":
                k += 1
            ke = match_brace(toks, k)
            out.append((name, "".join(toks[k + 1:ke])))
            j = ke
        j += 1
    return out


def py_columns(path, fn):
    tree = ast.parse(open(path).read())
    for node in ast.walk(tree):
        if isinstance(node, ast.FunctionDef) and node.name == fn:
            cols, maps = None, []
            for st in ast.walk(node):
                if isinstance(st, ast.Assign) and isinstance(st.targets[0], ast.Name) and st.targets[0].id == "columns":
                    cols = [c.value for c in st.value.elts]
                if isinstance(st, ast.Call) and isinstance(st.func, ast.Attribute) and st.func.attr == "map" and st.args and isinstance(st.args[0], ast.Dict):
                    maps.append(",".join(f"{ast.literal_eval(k)}:{ast.literal_eval(v)}" for k, v in zip(st.args[0].keys, st.args[0].values)))
            doc = ast.get_docstring(node) or ""
            doc_cols = re.findall(r"^\s*- ``(\w+)``:", doc, re.M)
            if cols is None:
                raise ValueError(f"{fn}: no `columns = [...]`")
            return cols, doc_cols, maps
    raise ValueError(f"{fn} not found")


def main(repo, outdir):
    L = ["/- GENERATED by translate/pylayer.py — do not edit. -/", "namespace Bourse.Generated.Py", ""]
    core_types = tokens(open(f"{repo}/crates/order_book/src/types.rs").read())
    L.append(f"def statusToU8 : List (String × String) := {pairs(impl_match_arms(core_types, ['impl', 'From', '<', 'Status', '>', 'for', 'u8']))}")
    L.append(f"def sideToBool : List (String × String) := {pairs(impl_match_arms(core_types, ['impl', 'From', '<', 'Side', '>', 'for', 'bool']))}")
    L.append(f"def boolToSide : List (String × String) := {pairs(impl_match_arms(core_types, ['impl', 'From', '<', 'bool', '>', 'for', 'Side']))}")
    ty = tokens(open(f"{repo}/rust/src/types.rs").read())
    L.append(f"def castOrder : List String := {lean_str_list(tuple_fields(ty, 'cast_order'))}")
    L.append(f"def castTrade : List String := {lean_str_list(tuple_fields(ty, 'cast_trade'))}")
    L.append("")
    for fname, short, arrays in (("step_sim.rs", "stepEnv", (("level_1_data_array", "l1"), ("level_2_data_array", "l2"))),
                                 ("step_sim_numpy.rs", "stepEnvNumpy", (("level_1_data", "l1"), ("level_2_data", "l2")))):
        src = open(f"{repo}/rust/src/{fname}").read()
        toks = tokens(src)
        for fn, tag in arrays:
            _, s, e = fn_span(toks, fn)
            header, n, body, tail = array_layout(toks, s, e)
            idx, block = doc_tables(doc_of(src, fn))
            L.append(f"def {short}_{tag}_header : List String := {lean_str_list(header)}")
            L.append(f"def {short}_{tag}_loopCount : String := {q(n)}")
            L.append(f"def {short}_{tag}_loopBody : List String := {lean_str_list(body)}")
            L.append(f"def {short}_{tag}_tail : String := {q(tail)}")
            L.append(f"def {short}_{tag}_docIndexed : List (String × String) := {pairs(idx)}")
            L.append(f"def {short}_{tag}_docBlock : List String := {lean_str_list(block)}")
        _, s, e = fn_span(toks, "get_market_data")
        L.append(f"def {short}_marketData : List (String × String) := {pairs(market_data_keys(toks, s, e))}")
        L.append(f"def {short}_methods : List (String × String) := {pairs(pymethods(toks))}")
        # documented order-record fields (docstring table of get_orders / get_trades)
        for fn in ("get_orders", "get_trades"):
            _, block = doc_tables(doc_of(src, fn))
            L.append(f"def {short}_{fn}_doc : List String := {lean_str_list(block)}")
        L.append("")
    ob = tokens(open(f"{repo}/rust/src/order_book.rs").read())
    L.append(f"def orderBook_methods : List (String × String) := {pairs(pymethods(ob))}")
    obsrc = open(f"{repo}/rust/src/order_book.rs").read()
    for fn in ("get_orders", "get_trades"):
        L.append(f"def orderBook_{fn}_doc : List String := {lean_str_list(doc_bullets(doc_of(obsrc, fn)))}")
    L.append("")
    dpp = f"{repo}/src/bourse/data_processing.py"
    for fn, short in (("orders_to_dataframe", "ordersFrame"), ("trades_to_dataframe", "tradesFrame")):
        cols, doc_cols, maps = py_columns(dpp, fn)
        L.append(f"def {short}_columns : List String := {lean_str_list(cols)}")
        L.append(f"def {short}_docColumns : List String := {lean_str_list(doc_cols)}")
        L.append(f"def {short}_maps : List String := {lean_str_list(maps)}")
    # the Python base agent's documentation of the level-2 array
    ba = ast.parse(open(f"{repo}/src/bourse/step_sim/agents/base_agent.py").read())
    upd = [n for n in ast.walk(ba) if isinstance(n, ast.FunctionDef) and n.name == "update"]
    if not upd:
        raise ValueError("base_agent.py: no update method")
    docs = [ast.get_docstring(u) or "" for u in upd]
    docs = [d for d in docs if "positions" in d]
    if not docs:
        raise ValueError("base_agent.py: update docstring does not document the array positions")
    bdoc = re.split(r"\n\s*Returns\s*\n", docs[0])[0].split("\n")
    items = doc_bullets(bdoc)
    idx = [tuple(x.split(": ", 1)) for x in items if re.match(r"\d+: ", x)]
    block = [x for x in items if not re.match(r"\d+: ", x)]
    L.append(f"def baseAgent_docIndexed : List (String × String) := {pairs(idx)}")
    L.append(f"def baseAgent_docBlock : List String := {lean_str_list(block)}")
    L.append("")
    L.append("end Bourse.Generated.Py")
    import os
    out = outdir.rstrip("/") + "/PyLayer.lean" if os.path.isdir(outdir) else outdir
    open(out, "w").write("\n".join(L) + "\n")


if __name__ == "__main__":
    try:
        main(sys.argv[1], sys.argv[2])
    except Exception as ex:
        print(f"TRANSLATE-ERROR python layer: {type(ex).__name__}: {ex}")
        sys.exit(3)
