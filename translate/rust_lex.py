"""A tiny Rust tokenizer (enough for the table-like code the translators read)."""
import re

TOKEN = re.compile(r"""
    (?P<ws>\s+)
  | (?P<lc>//[^\n]*)
  | (?P<bc>/\*.*?\*/)
  | (?P<str>"(?:\\.|[^"\\])*")
  | (?P<chr>'(?:\\.|[^'\\])')
  | (?P<life>'[A-Za-z_]\w*)
  | (?P<num>\d[\d_]*(?:\.\d+)?(?:[a-z]\w*)?)
  | (?P<id>[A-Za-z_]\w*!?)
  | (?P<op>::|->|=>|\.\.=|\.\.|==|!=|<=|>=|&&|\|\||[-+*/%=<>!&|^~?@#$.,;:(){}\[\]])
""", re.X | re.S)


def tokens(src):
    out = []
    pos = 0
    while pos < len(src):
        m = TOKEN.match(src, pos)
        if not m:
            raise ValueError(f"cannot tokenize at {pos}: {src[pos:pos+30]!r}")
        pos = m.end()
        if m.lastgroup in ("ws", "lc", "bc"):
            continue
        out.append(m.group(0))
    return out


def match_brace(toks, i, open_="{", close="}"):
    """index of the token closing the bracket opened at toks[i]."""
    assert toks[i] == open_, (toks[i], open_)
    d = 0
    for j in range(i, len(toks)):
        if toks[j] == open_:
            d += 1
        elif toks[j] == close:
            d -= 1
            if d == 0:
                return j
    raise ValueError("unbalanced")


def find_fn(toks, name):
    """(start, end) token indexes of the body `{ … }` of `fn name`."""
    for i in range(len(toks) - 1):
        if toks[i] == "fn" and toks[i + 1] == name:
            j = i
            while toks[j] != "{":
                j += 1
            return j, match_brace(toks, j)
    raise ValueError(f"fn {name} not found")


def lean_str_list(xs):
    return "[" + ", ".join('"' + x.replace("\\", "\\\\").replace('"', '\\"') + '"' for x in xs) + "]"
