"""Which engine decides which property."""
from . import book, sim, py, common as C

BOOK_ASSUMPTIONS = [
    "theorems are about the hand-written Lean model (lean/Bourse/Model); the model is tied to /repo by running both on the same histories on every invocation",
    "std::collections::BTreeMap is modelled as a strictly sorted association list with overwrite-on-insert; Vec as List",
    "u32/u64 arithmetic is modelled on Nat with every overflow/underflow/unwrap site an explicit fault that must coincide with a Rust panic (debug build, overflow checks on)",
    "the trading flag has no getter: the harness reports the flag it requested",
]


class BookEngine:
    def build(self):
        ok, log = C.build_harness(("drive",))
        if not ok:
            return ok, log
        ok2, log2 = C.build_lean(["driver"])
        return ok2, log2

    def check(self, prop, tier, seed, verdict, workdir):
        spec = book.SPECS[prop]
        cov = book.check(prop, tier, seed, spec, verdict, workdir)
        extra = getattr(self, "extra_" + prop, None)
        if extra:
            extra(tier, seed, verdict, workdir, cov)
        return cov, BOOK_ASSUMPTIONS + spec.get("assumptions", [])

    def extra_C07(self, tier, seed, verdict, workdir, cov):
        """Truncation clause: every strict prefix of a written snapshot file must be rejected with an error."""
        import concurrent.futures as cf
        import subprocess
        shards = 8 if tier == "quick" else 16
        per = 2 if tier == "quick" else 14

        def one(i):
            env = C.env_offline()
            env["VERIF_SCRATCH"] = f"{workdir}/trunc{i}"
            p = subprocess.run([C.DRIVE, "trunc", "--seed", str(seed * 100 + i), "--hists", str(per), "--ops", "25"],
                               stdout=subprocess.PIPE, stderr=subprocess.PIPE, text=True, env=env)
            return p.returncode, p.stdout, i
        files = offsets = 0
        bad = []
        with cf.ThreadPoolExecutor(max_workers=16) as ex:
            for rc, out, i in ex.map(one, range(shards)):
                if rc != 0:
                    bad.append((i, "harness crashed"))
                for line in out.splitlines():
                    t = line.split()
                    if t and t[0] == "T":
                        files += 1
                        offsets += int(t[2].split("=")[1])
                        if t[4] != "ok":
                            bad.append((i, line))
        cov["truncation_files"] = files
        cov["truncation_offsets_tried"] = offsets
        cov["truncation_exhaustive_per_file"] = True
        for i, line in bad[:2]:
            verdict.violation({"kind": "impl-violates-property", "obligation": "A(C07): truncated snapshot must be rejected",
                               "how": f"drive trunc --seed {seed * 100 + i} --hists {per} --ops 25", "line": line},
                              f"a truncated snapshot file was loaded or aborted the process: {line}")

    def replay(self, prop, path):
        return book.replay(prop, path, book.SPECS[prop])


ENGINES = {}
_b = BookEngine()
for p in ("C01", "C02", "C03", "C04", "C05", "C06", "C07", "C08", "C10", "C11", "C12", "C13", "C14", "C15"):
    ENGINES[p] = _b


class SimEngine:
    def build(self):
        ok, log = C.build_harness(("drive",))
        if not ok:
            return ok, log
        return C.build_lean(["driver"])

    def check(self, prop, tier, seed, verdict, workdir):
        return getattr(sim, "check_" + prop.lower())(tier, seed, verdict, workdir)

    def replay(self, prop, path):
        import json
        obj = json.load(open(path))
        print(json.dumps(obj, indent=1)[:3000])
        cmd = obj.get("replay_cmd")
        if cmd:
            import subprocess
            print("$", cmd)
            return subprocess.call(cmd, shell=True, cwd=C.VERIF)
        return 0


_s = SimEngine()
for p in ("C09", "C16", "C17", "C20"):
    ENGINES[p] = _s


class PyEngine:
    def build(self):
        ok, log = C.build_harness(("drive",))
        if not ok:
            return ok, log
        return py.build_ext()

    def check(self, prop, tier, seed, verdict, workdir):
        return py.check(prop, tier, seed, verdict, workdir)

    def replay(self, prop, path):
        return py.replay(prop, path)


_p = PyEngine()
for p in ("C18", "C19"):
    ENGINES[p] = _p
