"""Which engine decides which property."""
from . import book, common as C

BOOK_ASSUMPTIONS = [
    "theorems are about the hand-written Lean model (lean/Bourse/Model); the model is tied to /repo by running both on the same histories on every invocation",
    "std::collections::BTreeMap is modelled as a strictly sorted association list with overwrite-on-insert; Vec as List",
    "u32/u64 arithmetic is modelled on Nat with every overflow/underflow/unwrap site an explicit fault that must coincide with a Rust panic (debug build, overflow checks on)",
    "the trading flag has no getter: the harness reports the flag it requested",
]


class BookEngine:
    def build(self):
        ok, log = C.build_harness(("drive",))
        if not ok:
            return ok, log
        ok2, log2 = C.build_lean(["driver"])
        return ok2, log2

    def check(self, prop, tier, seed, verdict, workdir):
        spec = book.SPECS[prop]
        cov = book.check(prop, tier, seed, spec, verdict, workdir)
        extra = getattr(self, "extra_" + prop, None)
        if extra:
            extra(tier, seed, verdict, workdir, cov)
        return cov, BOOK_ASSUMPTIONS + spec.get("assumptions", [])

    def replay(self, prop, path):
        return book.replay(prop, path, book.SPECS[prop])


ENGINES = {}
_b = BookEngine()
for p in ("C01", "C02", "C03", "C04", "C05", "C06", "C07", "C12", "C13"):
    ENGINES[p] = _b
