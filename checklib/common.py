"""Shared machinery of bin/check: builds, Lean proof obligations, evidence, verdicts."""
import fcntl
import json
import os
import re
import subprocess
import sys
import time

VERIF = "/verif"
REPO = "/repo"
BUILD = os.path.join(VERIF, ".build")
LEAN = os.path.join(VERIF, "lean")
HARNESS = os.path.join(VERIF, "harness")
DRIVE = os.path.join(BUILD, "harness", "debug", "drive")
DRIVER = os.path.join(LEAN, ".lake", "build", "bin", "driver")
EVID = os.path.join(VERIF, "evidence")
REPLAYS = os.path.join(EVID, "replays")
ALLOWED_AXIOMS = {"propext", "Classical.choice", "Quot.sound"}
FORBIDDEN = re.compile(r"sorry|\badmit\b|^axiom |native_decide|bv_decide|implemented_by|unsafe |maxHeartbeats 0")

TRUSTED_BASE = [
    "Lean 4.33.0 kernel and elaborator (theorems re-checked by `lake build`; leanchecker in the thorough tier)",
    "axioms allowed in property theorems: propext, Classical.choice, Quot.sound (audited by #print axioms on every run)",
    "hand-written Lean model of the Rust code, tied to /repo by the correspondence check run on every invocation (differential testing: not a proof)",
    "Rust harness (/verif/harness), Lean line-protocol driver, bin/check diffing and generators",
    "std BTreeMap/Vec, serde_json, rand 0.8.5, rand_xoshiro 0.6.0 modelled (transcribed), not verified",
    "rustc, cargo, CPython, PyO3, numpy",
]


def env_offline():
    e = dict(os.environ)
    e["CARGO_NET_OFFLINE"] = "true"
    e.setdefault("CARGO_TERM_COLOR", "never")
    return e


class Lock:
    def __init__(self, name):
        os.makedirs(os.path.join(BUILD, "locks"), exist_ok=True)
        self.path = os.path.join(BUILD, "locks", name)

    def __enter__(self):
        self.f = open(self.path, "w")
        fcntl.flock(self.f, fcntl.LOCK_EX)
        return self

    def __exit__(self, *a):
        fcntl.flock(self.f, fcntl.LOCK_UN)
        self.f.close()


def run(cmd, cwd=None, timeout=None, env=None, input=None):
    p = subprocess.run(cmd, cwd=cwd, timeout=timeout, env=env or env_offline(), input=input,
                       stdout=subprocess.PIPE, stderr=subprocess.STDOUT, text=True)
    return p.returncode, p.stdout


def build_harness(bins=("drive",)):
    """Rebuild the harness against /repo's current working tree. Returns (ok, log)."""
    with Lock("harness.lock"):
        lock_src = os.path.join(REPO, "Cargo.lock")
        cmd = ["cargo", "build", "--offline"]
        for b in bins:
            cmd += ["--bin", b]
        rc, out = run(cmd, cwd=HARNESS, timeout=1800)
        return rc == 0, out


def shapes_not_compiling(log):
    """From a failed harness build: the derived struct shapes of harness/src/shapes_gen.rs whose `#[derive(..)]`
    (or `declare_set!`) is where the compiler reports an error. [] when the failure is elsewhere."""
    src = os.path.join(HARNESS, "src", "shapes_gen.rs")
    try:
        lines = open(src).read().split("\n")
    except OSError:
        return []
    out, seen = [], set()
    for m in re.finditer(r"(error(?:\[E\d+\])?: [^\n]*)\n\s*--> src/shapes_gen\.rs:(\d+):\d+", log):
        ln = int(m.group(2))
        if not (1 <= ln <= len(lines)):
            continue
        here = lines[ln - 1]
        if "derive(" not in here and "declare_set!" not in here:
            continue
        name = None
        for l in lines[ln - 1: ln + 4]:
            mm = re.search(r"pub struct (\w+)|declare_set!\(\w+, (\w+)", l)
            if mm:
                name = mm.group(1) or mm.group(2)
                break
        if name and name not in seen:
            seen.add(name)
            body = [l for l in lines[ln - 1: ln + 12]]
            end = next((i for i, l in enumerate(body) if l.strip().endswith("}") or l.strip().endswith("});")), len(body) - 1)
            out.append({"struct": name, "error": m.group(1), "declaration": "\n".join(body[:end + 1])})
    return out


def build_lean(targets):
    with Lock("lean.lock"):
        rc, out = run(["lake", "build"] + list(targets), cwd=LEAN, timeout=3600)
        return rc == 0, out


def theorems_of(module_file):
    """Names of the theorems stated in a Props file (the proof obligations counted in evidence)."""
    ns = None
    names = []
    with open(module_file) as f:
        for line in f:
            m = re.match(r"namespace\s+(\S+)", line)
            if m and ns is None:
                ns = m.group(1)
            m = re.match(r"(?:private\s+)?theorem\s+([A-Za-z0-9_'.]+)", line)
            if m:
                names.append((ns + "." if ns else "") + m.group(1))
    return names


def grep_forbidden(paths):
    hits = []
    for root in paths:
        for dp, _, fs in os.walk(root):
            if ".lake" in dp:
                continue
            for fn in fs:
                if not fn.endswith(".lean"):
                    continue
                p = os.path.join(dp, fn)
                in_block = False
                for i, line in enumerate(open(p), 1):
                    s = line
                    # strip block comments (coarse) and line comments
                    if in_block:
                        if "-/" in s:
                            in_block = False
                            s = s.split("-/", 1)[1]
                        else:
                            continue
                    if "/-" in s:
                        before, rest = s.split("/-", 1)
                        if "-/" in rest:
                            s = before + rest.split("-/", 1)[1]
                        else:
                            in_block = True
                            s = before
                    s = s.split("--", 1)[0]
                    if FORBIDDEN.search(s):
                        hits.append(f"{p}:{i}: {line.strip()}")
    return hits


def prove(prop, modules, clean=False):
    """Build the property's theorem modules and audit the axioms of every theorem in them.

    Returns dict(obligations=[names], discharged=[names], failed=[(name, why)], log=str)."""
    res = {"obligations": [], "discharged": [], "failed": [], "log": "", "modules": list(modules)}
    files = [os.path.join(LEAN, *m.split(".")) + ".lean" for m in modules]
    for m, f in zip(modules, files):
        if not os.path.exists(f):
            res["failed"].append((m, "module file missing"))
            continue
        res["obligations"] += theorems_of(f)
    if clean:
        with Lock("lean.lock"):
            for m in modules:
                base = os.path.join(LEAN, ".lake", "build", "lib", "lean", *m.split("."))
                for ext in (".olean", ".ilean", ".olean.hash", ".trace", ".olean.private", ".olean.server"):
                    try:
                        os.remove(base + ext)
                    except OSError:
                        pass
    ok, out = build_lean(list(modules))
    res["log"] = out[-4000:]
    if not ok:
        # which theorems broke: lean reports "file:line:col: error" — map to the enclosing theorem
        broken = set()
        for m, f in zip(modules, files):
            if not os.path.exists(f):
                continue
            lines = open(f).read().split("\n")
            for em in re.finditer(re.escape(f) + r":(\d+):\d+: error", out):
                ln = int(em.group(1))
                name = None
                for i in range(min(ln, len(lines)) - 1, -1, -1):
                    mm = re.match(r"(?:private\s+)?theorem\s+([A-Za-z0-9_'.]+)", lines[i])
                    if mm:
                        name = mm.group(1)
                        break
                broken.add(name or f"{m}:{ln}")
        if not broken:
            broken.add("build of " + ",".join(modules))
        for b in sorted(broken):
            res["failed"].append((b, "does not build"))
        return res
    # axiom audit
    os.makedirs(os.path.join(BUILD, "audit"), exist_ok=True)
    af = os.path.join(BUILD, "audit", f"Audit{prop}_{os.getpid()}.lean")
    with open(af, "w") as f:
        for m in modules:
            f.write(f"import {m}\n")
        for n in res["obligations"]:
            f.write(f"#print axioms {n}\n")
    with Lock("lean.lock"):
        rc, out = run(["lake", "env", "lean", af], cwd=LEAN, timeout=1800)
    try:
        os.remove(af)
    except OSError:
        pass
    # parse: "'name' depends on axioms: [a, b]" / "'name' does not depend on any axioms"
    txt = out.replace("\n  ", " ").replace("\n ", " ")
    seen = {}
    for m in re.finditer(r"'([^']+)' depends on axioms: \[([^\]]*)\]", txt):
        seen[m.group(1)] = {a.strip() for a in m.group(2).split(",") if a.strip()}
    for m in re.finditer(r"'([^']+)' does not depend on any axioms", txt):
        seen[m.group(1)] = set()
    for n in res["obligations"]:
        if n not in seen:
            res["failed"].append((n, "not found by #print axioms: " + out[-300:]))
        elif seen[n] - ALLOWED_AXIOMS:
            res["failed"].append((n, "depends on axioms " + ",".join(sorted(seen[n] - ALLOWED_AXIOMS))))
        else:
            res["discharged"].append(n)
    hits = grep_forbidden([os.path.join(LEAN, "Bourse"), os.path.join(LEAN, "Driver")])
    for h in hits:
        res["failed"].append(("forbidden-construct", h))
    return res


def leancheck(modules):
    with Lock("lean.lock"):
        rc, out = run(["lake", "env", "leanchecker"] + list(modules), cwd=LEAN, timeout=3600)
    return rc == 0, out[-2000:]


def load_known():
    p = os.path.join(VERIF, "known_findings.json")
    if not os.path.exists(p):
        return []
    return json.load(open(p)).get("findings", [])


def write_replay(prop, seed, n, obj):
    os.makedirs(REPLAYS, exist_ok=True)
    p = os.path.join(REPLAYS, f"{prop}-{seed}-{n}.json")
    with open(p, "w") as f:
        json.dump(obj, f, indent=1)
    return p


def write_evidence(prop, tier, seed, coverage, wall, violations, assumptions):
    os.makedirs(EVID, exist_ok=True)
    ev = {"property_id": prop, "tier": tier, "seed": seed, "level": "proof",
          "coverage": coverage, "assumptions": assumptions, "wall_s": round(wall, 2),
          "violations": violations}
    tmp = os.path.join(EVID, f".{prop}.json.tmp{os.getpid()}")
    with open(tmp, "w") as f:
        json.dump(ev, f, indent=1)
    os.replace(tmp, os.path.join(EVID, f"{prop}.json"))


class Verdict:
    """Collects the outcome of one check run and prints the interface lines."""

    def __init__(self, prop, tier, seed):
        self.prop, self.tier, self.seed = prop, tier, seed
        self.t0 = time.time()
        self.violations = []   # (replay_path, nfi: bool, what)
        self.known = []        # what
        self.cov = {}
        self.assumptions = []
        self.n_replay = 0

    def violation(self, obj, what, nfi=False):
        self.n_replay += 1
        obj = dict(obj)
        obj.update({"property": self.prop, "no_failing_input_found": nfi, "what": what, "seed": self.seed})
        p = write_replay(self.prop, self.seed, self.n_replay, obj)
        self.violations.append((p, nfi, what))

    def known_finding(self, what):
        self.known.append(what)

    def finish(self, coverage, assumptions):
        wall = time.time() - self.t0
        coverage = dict(coverage)
        coverage.setdefault("trusted_base", TRUSTED_BASE)
        write_evidence(self.prop, self.tier, self.seed, coverage, wall, len(self.violations), assumptions)
        for w in self.known:
            print(f"KNOWN-FINDING: property={self.prop} {w}")
        for p, nfi, what in self.violations:
            print(f"# {what}")
            print(f"VIOLATION property={self.prop} replay={p}" + (" no-failing-input-found" if nfi else ""))
        sys.stdout.flush()
        if self.violations:
            return 1
        print(f"OK property={self.prop} tier={self.tier} seed={self.seed} wall={wall:.1f}s "
              f"obligations={coverage.get('obligations')} discharged={coverage.get('discharged')} "
              f"evaluations={coverage.get('evaluations')}")
        return 0
