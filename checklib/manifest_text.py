"""Texts of MANIFEST.json entries (kept beside the registry so both stay in step)."""

BOOK_NOTE = ("Trusted: Lean 4.33 kernel; axioms propext/Classical.choice/Quot.sound only (audited each run); the hand-written "
             "Lean model of orderbook.rs/side.rs/types.rs is tied to the code by differential execution on every run (testing, "
             "not proof); BTreeMap/Vec/serde_json modelled or opaque; Rust harness, Lean driver and bin/check are trusted glue.")

ENGINES = [
    {"name": "book", "path": "checklib/book.py + harness/src/bin/drive.rs + lean/Driver", "serves_properties":
        ["C01", "C02", "C03", "C04", "C05", "C06", "C07", "C12", "C13"],
     "kind_free_text": "Lean 4 theorems about a hand-written model of the order book; per-run correspondence check: the real "
                       "OrderBook<L> and the Lean model + reference engine + audit predicates run on the same seeded histories "
                       "through a line protocol and complete observations are compared after every operation"},
]

NOTES = ("Technique family: machine-checked proof in Lean 4 (model + theorems) with a checked tie to /repo. "
         "See DESIGN.md. known_findings.json lists nine defects of the pinned tree, all repaired by `fix:` commits in /repo.")

LEVEL = {
    "C01": dict(engine="book", design_ref="DESIGN.md 6/C01",
                technique="Lean 4 theorems (fill rule, head-of-queue matching, remainder handling, reference-engine queue position) + differential correspondence against a reference matching engine",
                text="Theorems over all inputs about the Lean model of the matching loop (each fill at the passive price for the min volume, the loop trades only with the head of the priority queue, stops exactly when exhausted or uncrossed, limit remainder queued with a fresh larger stamp, market remainder never rests) and about the reference engine's queue position; the model and the reference engine are compared with the real OrderBook after every operation of seeded histories. Full refinement theorem Layer I -> Ref is in progress (stated in DESIGN.md 3.3).",
                note=BOOK_NOTE),
    "C02": dict(engine="book", design_ref="DESIGN.md 6/C02",
                technique="Lean 4 theorems (views agree, sentinels, initial views) + model-free audit recomputing every view from get_orders() after every operation",
                text="Theorems: level-1/level-2 records are built from the scalar getters, sentinels on empty sides, a new book publishes the recomputation for every level count; decisive per-run part: the Lean audit predicate recomputes all views from the implementation's own order list after every op (no model involved) and checks uncrossedness while trading was never disabled.",
                note=BOOK_NOTE),
    "C03": dict(engine="book", design_ref="DESIGN.md 6/C03",
                technique="Lean 4 proof by induction over operations (ledger append-only, counter = sum of new records, stamps) + ledger audit on real output",
                text="ledger_step / ledger_run_prefix: for every operation and every history the trade log only grows by a suffix, each new record is stamped with the book time and the counter grows by the sum of new volumes (proved for the model for all states, no bound); per-run ledger audit (conservation per order, sides, limits admit price) on the real implementation's output.",
                note=BOOK_NOTE),
    "C04": dict(engine="book", design_ref="DESIGN.md 6/C04",
                technique="Lean 4 theorems (redundant requests leave the whole model state equal) + lifecycle monitor on real output",
                text="No-op theorems with full model-state equality for re-placing, cancelling/modifying a non-active order and clock changes, for all states; status-edge/identity/arrival/end-time monitor evaluated on every transition of every order on the real implementation.",
                note=BOOK_NOTE),
    "C05": dict(engine="book", design_ref="DESIGN.md 6/C05",
                technique="Lean 4 theorems (queue keys are clock-free, stamps strictly increase, survive reload) + tie-heavy differential correspondence",
                text="Theorems: the key an order is queued under never depends on the clock, successive insertions get strictly increasing stamps, the stamp counter is monotone through every operation and kept above stored stamps by a reload; the former counterexample is now a proved theorem. Tie-heavy histories are compared with the reference engine (which has no timestamps in its ordering) and all audits.",
                note=BOOK_NOTE + " The env batch > step size clause is exercised by the env engine when built."),
    "C06": dict(engine="book", design_ref="DESIGN.md 6/C06",
                technique="Lean 4 theorems (dispatch table, reduce keeps queues, replace = dequeue + match + enqueue with next stamp, identity kept) + differential correspondence with drain probes",
                text="modify_dispatch, reduce_keeps_position (both queue maps literally unchanged), replace_is_reenter, replace_keeps_identity for all states; modify-heavy histories with drain probes are compared against the reference engine and a C06 audit predicate on the real output.",
                note=BOOK_NOTE),
    "C07": dict(engine="book", design_ref="DESIGN.md 6/C07",
                technique="Lean 4 theorems about load(save s) + lock-step comparison of original and reloaded real books",
                text="Theorems: serialised fields come back verbatim, rebuild-loop specification, reload_indistinguishable; concrete round trip by kernel evaluation. Per run: real serde_json round trips (memory, compact file, pretty file) at random points, original and reloaded book driven in lock-step. PARTIAL: load(save s) = s for all reachable s (needs the full invariant) and the truncation clause are not yet proved.",
                note=BOOK_NOTE + " serde_json and the file system are opaque."),
    "C12": dict(engine="book", design_ref="DESIGN.md 6/C12",
                technique="Lean 4 theorems (create_ok_iff, rejected creation leaves state identical, off-grid modify ignored) + grid audit on real output",
                text="create_ok_iff, create_err_unchanged (whole state equal, no id consumed), modify_offgrid_ignored for all states, tick sizes and prices; per run: malformed-price histories, grid membership of every order and level accounting audited after every op.",
                note=BOOK_NOTE),
    "C13": dict(engine="book", design_ref="DESIGN.md 6/C13",
                technique="Lean 4 proof by induction over operations (no trade while disabled), rejection/resting lemmas + audit on real output",
                text="no_trading_no_trades / no_trading_run: for every operation and history with the flag off the trade log is unchanged; market orders rejected without touching the book; limit orders rest; toggles change only the flag. Toggle-heavy histories checked against the model, reference engine and the C13 audit.",
                note=BOOK_NOTE),
}

NOT_YET = {}
