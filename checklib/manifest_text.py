"""Texts of MANIFEST.json entries (kept beside the registry so both stay in step)."""

BOOK_NOTE = ("Trusted: Lean 4.33 kernel; axioms propext/Classical.choice/Quot.sound only (audited each run); the hand-written "
             "Lean model of orderbook.rs/side.rs/types.rs is tied to the code by differential execution on every run (testing, "
             "not proof); BTreeMap/Vec modelled (sorted association list / List), serde_json modelled for the snapshot types (C07); Rust harness, Lean driver and bin/check are trusted glue.")

ENGINES = [
    {"name": "book", "path": "checklib/book.py + harness/src/bin/drive.rs + lean/Driver", "serves_properties":
        ["C01", "C02", "C03", "C04", "C05", "C06", "C07", "C12", "C13"],
     "kind_free_text": "Lean 4 theorems about a hand-written model of the order book; per-run correspondence check: the real "
                       "OrderBook<L> and the Lean model + reference engine + audit predicates run on the same seeded histories "
                       "through a line protocol and complete observations are compared after every operation"},
]

NOTES = ("Technique family: machine-checked proof in Lean 4 (model + theorems) with a checked tie to /repo. "
         "See DESIGN.md. known_findings.json lists nine defects of the pinned tree, all repaired by `fix:` commits in /repo. "
         "Every registered check explores only histories inside its property's own quantifier (properties.jsonl: volumes >= 1, limit prices "
         "strictly between 0 and 2^32-1, clock never moved backwards, C08 batches up to the step size, ...); inputs outside it are available in a "
         "development mode (bin/check Cxx --extended) that is not registered and writes no evidence.")

LEVEL = {
    "C01": dict(engine="book", design_ref="DESIGN.md 6/C01",
                technique="Lean 4 refinement proof (implementation model -> reference matching engine, every operation, every history, every observation; no bound) + queue-sortedness invariant + differential correspondence of model and reference engine against the real OrderBook",
                text="implementation_is_reference_engine: for every valid fault-free operation sequence from a new book the result of every operation and the complete observation after it (orders, trades, all views) equal those of the reference engine Ref (proved by an abstraction map that forgets keys, stamps and aggregates; match loop by induction on fuel); queues_sorted_by_price and ref_match_consumes_prefix give best-price-first / earliest-first for every reachable state; fill rule and remainder handling. valid_histories_are_exactly_the_fault_free_ones (noFault_iff_feasible): the theorems' NoFault hypothesis holds exactly when ids refer to existing orders and per-side resting volume and cumulative traded volume stay below 2^32 after every operation - the property's own validity conditions - so the match loop never runs out of fuel, meets an unknown id or underflows; *_valid corollaries restate the headline theorems of C01-C07 and C13 for ValidHistory. The model and Ref are compared with the real OrderBook after every operation of seeded histories (testing; this is the tie).",
                note=BOOK_NOTE),
    "C02": dict(engine="book", design_ref="DESIGN.md 6/C02",
                technique="Lean 4 invariant proof over all operation histories (every published view = recomputation from the order list, incl. wrapping level probes) + model-free audit recomputing every view from get_orders() after every operation",
                text="published_data_equals_resting_orders / published_data_equals_resting_orders_in_simulations (the same for every book of every environment state reachable under any agents and any permutation) / audit_c02_passes: in every state reachable by any valid fault-free history (any tick, any level count whose probes stay below 2^32: ticks <= 10, n <= 24 by probe_range_ok) touch prices with sentinels, totals, touch volume/count, every level pair, level-1/2 and the mid equal Spec.Views of the order list; aggregates_exact, queue_empty_iff. never_crossed / audit_uncrossed_passes: on a book created with trading enabled and never disabled the best bid is strictly below the best ask whenever both sides are non-empty (every history). Per run the same two audit predicates are evaluated on the real implementation's own order list after every op.",
                note=BOOK_NOTE),
    "C03": dict(engine="book", design_ref="DESIGN.md 6/C03",
                technique="Lean 4 proofs by induction over operations and histories (log append-only, new records well formed against the table, per-order volume conservation, counter = sum of new records), transferred from the reference engine through the refinement + ledger audit on real output",
                text="new_records_wellformed, volume_conserved_step, volume_conserved_history, ledger_step, ledger_run_prefix: for every reachable state and valid operation every new record has the book time, a positive volume, two different existing orders on opposite sides, the passive order's price and a limit of the aggressor that admits it; every order's remaining volume plus the volume of the new records it takes part in equals the volume the operation explicitly gives it; over histories without explicit volume modification remaining + logged = starting volume. Per-run ledger audit on the real implementation's output.",
                note=BOOK_NOTE),
    "C04": dict(engine="book", design_ref="DESIGN.md 6/C04",
                technique="Lean 4 invariant proof (every status change of every order over every step of every valid history is an edge of the one-way relation) + no-op theorems with whole-state equality + lifecycle monitor on real output",
                text="lifecycle_one_way (terminal statuses never change; only the documented edges occur), times_one_operation (arrival time = book time at placement, never changed afterwards; end time set exactly when the order becomes terminal, to the book time), open_orders_have_no_end_time, ids_dense, no-op theorems with full model-state equality for re-placing, cancelling/modifying a non-active order and clock changes; status-edge/identity/arrival/end-time monitor evaluated on every transition of every order on the real implementation.",
                note=BOOK_NOTE),
    "C05": dict(engine="book", design_ref="DESIGN.md 6/C05",
                technique="Lean 4 theorems (for every history the keyed queue read in key order is the reference engine's clock-free FIFO list; keys are clock-free, stamps strictly increase, survive reload) + tie-heavy differential correspondence",
                text="Theorems: the key an order is queued under never depends on the clock, successive insertions get strictly increasing stamps, the stamp counter is monotone through every operation and kept above stored stamps by a reload; the former counterexample is now a proved theorem. Tie-heavy histories are compared with the reference engine (which has no timestamps in its ordering) and all audits.",
                note=BOOK_NOTE + " The env batch > step size clause is exercised on Env/MarketEnv with shadow replay."),
    "C06": dict(engine="book", design_ref="DESIGN.md 6/C06",
                technique="Lean 4 refinement (modify on every reachable state acts as the reference modify; reduction changes one volume only; re-entry is literally the function that places a new limit order; identity kept) + differential correspondence with drain probes",
                text="modify_is_reference_modify, ref_reduce_keeps_place, ref_replace_is_arrival, ref_place_limit_is_enter, ref_enter_keeps_identity, modify_dispatch, modify_none_none_noop for all states; modify-heavy histories with drain probes are compared against the reference engine and a C06 audit predicate on the real output.",
                note=BOOK_NOTE),
    "C07": dict(engine="book", design_ref="DESIGN.md 6/C07",
                technique="Lean 4 theorems down to the bytes: load(save b) = b under the invariant; a model of both serde_json writers, the reader and the field decoding with parse(render j) = some j (both layouts), loadText(saveText b) = some b, and every strict prefix of a written snapshot rejected (bracket-depth argument, by induction on the reader's fuel) + character-by-character comparison of the model's text with serde_json's on every reload, differential test of the reader on cut / padded / corrupted texts, lock-step comparison of original and reloaded real books",
                text="load_save: Inv b -> load (save b) = b (the rebuild restores both keyed maps, aggregates and the stamp counter literally); reload_reachable_indistinguishable (every continuation of every reachable state). text_round_trip: parse (renderCompact j) = parse (renderPretty 0 j) = some j for every JSON value without escapes; loadText_saveText: for every state satisfying the invariant whose numbers fit their Rust field types the text save_json writes loads back to exactly that book. truncated_snapshot_rejected / truncated_market_snapshot_rejected: for ANY book (market) state, either writer and ANY cut offset the reader returns an error. Per run: the model's compact and pretty texts must equal serde_json's character by character for the same history; the real loader and the model reader must agree (accept/reject and what is loaded) on cut, whitespace-padded, one-character-corrupted, extra-member, duplicate-member, trailing-garbage and missing-queue_stamp variants; real round trips (memory, compact file, pretty file; files kept so later saves overwrite) with original and reloaded book driven in lock-step, Market likewise; every strict prefix of sampled snapshot files is also given to the real loader.",
                note=BOOK_NOTE + " The reader model covers the JSON subset snapshots use (no escapes, null, negatives, fractions: it rejects them); that serde_json accepts nothing the model reader rejects on other inputs is tested on the variants above, not proved. File-system behaviour is opaque."),
    "C12": dict(engine="book", design_ref="DESIGN.md 6/C12",
                technique="Lean 4 theorems (create_ok_iff, rejected creation leaves state identical, off-grid modify ignored) and invariant proof (every price on the grid in every reachable state) + grid audit on real output incl. both ends of the price range",
                text="create_ok_iff, create_err_unchanged (whole state equal, no id consumed), modify_offgrid_ignored, prices_on_grid_always for all states, tick sizes and prices; per run: malformed-price and edge-price histories (0, tick, .. and .., floor(MAX/tick)*tick), grid membership of every order and level accounting audited after every op through book, market and environments.",
                note=BOOK_NOTE),
    "C13": dict(engine="book", design_ref="DESIGN.md 6/C13",
                technique="Lean 4 proof by induction over operations (no trade while disabled), rejection/resting lemmas + audit on real output",
                text="no_trading_no_trades / no_trading_run: for every operation and history with the flag off the trade log is unchanged; market orders rejected without touching the book; limit orders rest; toggles change only the flag. Toggle-heavy histories checked against the model, reference engine and the C13 audit.",
                note=BOOK_NOTE),
}

ENV_NOTE = (BOOK_NOTE + " Env/MarketEnv/Market are modelled over the book model; the generator model (SplitMix64 + Xoroshiro128** + "
            "rand 0.8.5 gen_range/shuffle) is a transcription validated bit-for-bit on every run (the predicted schedule must equal the "
            "schedule of the real shuffle). Stand-alone real OrderBook shadows give a model-free oracle.")

LEVEL.update({
    "C08": dict(engine="book", design_ref="DESIGN.md 6/C08",
                technique="Lean 4 theorems (step = replay of a permutation of the queue at start+i; per-asset plain-book replay via the projection law; whole simulation histories project to plain book histories and to the reference engine; the book invariant holds in every reachable environment state) + exact schedule prediction and real plain-book shadow replay, incl. long runs",
                text="step_is_replay, step_is_plain_book_replay, step_processes_queue_once (List.Perm), batch_times, step_post for all environments, batches and generator states; for whole histories env_history_is_market_history / env_history_is_book_history (after any sequence of environment operations each asset's book is a stand-alone book run on its share of the plain operations), simulation_asset_is_reference_engine (it is the reference engine's state) and env_books_invariant (every book of every reachable environment state satisfies the book invariant). Per run: long runs (hundreds of steps, more than 1024 instructions) judged by shadow replay and one-shuffle-per-step; the Lean generator model predicts the real schedule exactly; real stand-alone OrderBooks replay the batch in that order at those times and must equal the environment's books; clock/counter audits.",
                note=ENV_NOTE),
    "C10": dict(engine="book", design_ref="DESIGN.md 6/C10",
                technique="Lean 4 theorems (frame lemmas for submissions, cache invariant) + before/after observation audit on the real environments",
                text="env_place_invisible, env_cancel_modify_invisible, views_depend_on_sides, cache_inv (invariant over every operation) for all states; per run every submission is audited on the real Env/MarketEnv: nothing but one New order may appear, cache equals live level-2 after each step.",
                note=ENV_NOTE),
    "C11": dict(engine="book", design_ref="DESIGN.md 6/C11",
                technique="Lean 4 proof by induction over steps and over whole operation histories (record well-formedness, entry lemmas, series = per-step snapshots of the live book) + audit of every series against the live book on real runs",
                text="append_wf / step_allwf (after k steps every series has k entries), append_entries (entry = the matching field, bid from bid, level i from level i), step_records; whole histories: records_are_step_snapshots + appendSnaps_series + stepSnaps_length (after ANY sequence of environment operations the series of an asset are its starting series followed by exactly one entry per step, entry j being the live book's value at the end of step j); per run: lengths, append-only, last entries vs live book values, per-step traded volume vs trade log (by log delta and by timestamp) on the real environments for several level counts.",
                note=ENV_NOTE),
    "C14": dict(engine="book", design_ref="DESIGN.md 6/C14",
                technique="Lean 4 theorems (locality, fan-out, projection law over all operation sequences) + real stand-alone shadow books in lock-step",
                text="market_op_local, market_fanout, market_queries_pointwise, market_projection: for every operation sequence each asset's book equals a stand-alone book run on the projected operations (proved, unbounded). Per run: Market<A,L> and MarketEnv<A,L> (A=1..4, per-asset ticks) vs real stand-alone OrderBooks and all-asset query cross-checks.",
                note=ENV_NOTE),
    "C15": dict(engine="book", design_ref="DESIGN.md 6/C15",
                technique="Lean 4 theorems (shuffle is a permutation, natural in the items, function of the generator state; all n! draw vectors give all n! orders once, hence every instruction at every position in (n-1)! of them and each relative order in n!/2; each bounded draw exactly uniform over the 2^32 raw values) + exact per-seed permutation prediction against the real shuffle",
                text="shuffle_perm, shuffle_natural (the position permutation does not depend on what the instructions are), shuffle_by_positions, step_deterministic for all lists and generator states. shuffle_is_draws + shuffle_outcomes_are_all_permutations_once: the real shuffle is the explicit-draw loop on bounded draws, and over all n! valid draw vectors that loop yields every permutation of a duplicate-free batch exactly once (so uniform independent draws give probability 1/n! per order); every_instruction_equally_likely_at_every_position ((n-1)! of the n! draw vectors put a given instruction at a given position) and every_relative_order_equally_likely (x before y in exactly half), by the relabelling symmetry of permutations. Per run the model's predicted permutation equals the real one for every seed and batch size and the generator must have advanced by exactly one shuffle. bounded_draw_exactly_uniform: rand's widening-multiply rejection (gen_range / gen_index) accepts exactly 2^lz of the 2^32 u32 values for every result r < range - no modulo bias - and bounded_draw_accepts_at_least_half. PARTIAL: that the generator's raw 32-bit outputs are uniform and independent (PRNG quality) is trusted. Props/C15 and Lemmas/Lemire import a few Mathlib modules.",
                note=ENV_NOTE),
})

SIM_NOTE = (ENV_NOTE + " Translated parts (runner.rs loop bodies, derive-macro template) are regenerated from /repo on every run by "
            "translate/*.py (a narrow tokenizer-based translator: trusted); a source shape outside its grammar is reported as a broken obligation.")

ENGINES.append({"name": "sim", "path": "checklib/sim.py + harness/src/{sim,agents,shapes}.rs + translate/", "serves_properties": ["C09", "C16", "C17", "C20"],
                "kind_free_text": "Lean 4 theorems about the runner fold, RandomAgents (exact integer model), the momentum decision skeleton over "
                                  "exact rationals and the derive-macro template (translated from source each run); real simulations compared with the "
                                  "Lean model run, cross-run/cross-process digests, per-instruction audits of the real agents"})

LEVEL.update({
    "C09": dict(engine="sim", design_ref="DESIGN.md 6/C09",
                technique="Lean 4 theorems (runner is a fold threading one generator; both progress-bar branches, translated from runner.rs each run, are the same loop) + bit-exact prediction of real RandomAgents simulations by the Lean model + cross-run / cross-process digests",
                text="runner_branches_equal (by decide on the translated source), simLoop_add (a run is a fold: n+m steps = n then m from the state left), run_deterministic. Per run the Lean model (generator, agents, environment, book) predicts complete real simulations of RandomAgents compositions bit-for-bit; all agent types are run twice, with/without progress bar, derived vs hand-written, as the documented loop, as the documented loop with environment and agents moved in memory between steps, and in a separate OS process, and must agree (step sizes 1..1000, so some steps are over-full); noise/momentum agent updates are predicted exactly by the Lean model in the agent-exact histories of C16/C17. PARTIAL: runtime nondeterminism cannot be exhibited by a model.",
                note=SIM_NOTE),
    "C16": dict(engine="sim", design_ref="DESIGN.md 6/C16",
                technique="Lean 4 theorems (RandomAgents instructions valid for all generator states; whole-update models of the noise and momentum agents over a binary64 model: only valid submissions, never abort, for every sampler and every tanh; quoted limit prices valid for every sample in exact AND in correctly rounded f64 arithmetic) + exact prediction of real noise/momentum agent updates by the Lean model (generator state, every order, post-step observation) + instruction-level audit of the real agents",
                text="random_update_valid (every instruction of a random agent is a no-op, a cancel of its own Active order or one on-grid in-range order), genRange_lt, act_p0_never, act_p1_always, sell_price_repair for all inputs; buy_price_valid / sell_price_valid / quoted_prices_accepted: in exact arithmetic the limit prices of place_buy/sell_limit_order are on the tick grid and on the right side of the observed mid for EVERY sample of the price distribution (any finite value, or +inf) and every tick, so the placement cannot be rejected; f64 (Model/F64: rnd = round-to-nearest-even over exact rationals, compared with the hardware on every run): f64_rounding_monotone, f64_half_integers_exact, f64_rounding_error (2^-53), buy_price_valid_f64 / sell_price_valid_f64 / sell_price_on_grid_f64: the prices the Rust code computes in binary64 are on the grid and on the right side of the mid for every sample (the rounded quotient mid/tick never crosses an integer). Whole updates (Model/FloatAgents, LogNormal::sample and tanh as arbitrary functions): noise_update_valid / momentum_update_valid (Reach: cancels of tracked Active orders, own traders, configured volume, grid prices on the right side of the observed mid; momentum buys only if M>0, sells only if M<0), noise/momentum_update_never_aborts, float_draws_in_unit_interval, probability_0_never_acts, probability_1_always_acts. Per run: the Lean model predicts real NoiseAgent/MomentumAgent (single and multi-asset) updates exactly (generator state after, every order, and through the next step every queued instruction), the C16 clauses are evaluated on the implementation's observations around every update, every instruction of the real random/noise/momentum agents is audited and aborts are caught. Trusted: LogNormal::sample / libm tanh values (recorded as tables for the tie; parameters of the theorems).",
                note=SIM_NOTE),
    "C17": dict(engine="sim", design_ref="DESIGN.md 6/C17",
                technique="Lean 4 theorems over exact rationals AND over a binary64 model (mirroring a path negates every momentum signal bit for bit and keeps both probabilities; direction = sign of M for the whole update; any odd tanh) + exact prediction of the real momentum agents' updates by the f64 Lean model + exact evaluation of the documented rule on real saturated runs and mirrored-run comparison",
                text="momentum_mirror, pMarket_even, decide_mirror, direction_follows_sign, saturated_always_acts for all paths/decays/draws, over an abstract odd tanh. In f64 (the arithmetic the agent performs): f64_round_odd, probability_depends_on_magnitude_f64, momentum_mirror_f64 (along every mid-price path the mirrored run's M is the exact negative and both probabilities are the same f64 values), direction_mirror_f64, update_direction_follows_signal (whole update: buys only while 0<M, sells only while M<0, next state carries exactly the signal), zero_signal_does_nothing. Per run the f64 model predicts every decision of the real MomentumAgent / MomentumMarketAgent exactly for arbitrary parameters (tanh from a recorded table); the real agents are also driven on harness-quoted paths, the rule evaluated exactly on the mids they observed, and the mirrored path must give the mirrored flow. Trusted: libm tanh is odd.",
                note=SIM_NOTE + " Props/C17 and the f64 lemma files import a few Mathlib modules (ordered field Rat, floor, ring/linarith/positivity)."),
    "C20": dict(engine="sim", design_ref="DESIGN.md 6/C20",
                technique="Lean 4 theorems on the macro template translated from source each run (one update per named field in declaration order; derived = fold over leaves in preorder, nested sets included) + compiled struct shapes with probe agents vs hand-written sequence vs model prediction",
                text="template_is_model (decide on the translated macro source), derive_calls, derived_eq_handwritten (mutual induction over nested sets), probeDraws_log. Per run 54 struct shapes (both macros, 1-8 fields, nested, non-alphabetical names, with/without trailing comma, doc comments and attributes on fields, same-named structs in sibling modules, declared literally or through a macro_rules! helper) compiled with the real macros are compared call-by-call and draw-by-draw with the hand-written sequence and with the Lean prediction.",
                note=SIM_NOTE),
})

PY_NOTE = ("Trusted: Lean kernel; translate/pylayer.py (tokenizer-based extraction of match arms, tuple expressions, array builders, docstring "
           "tables, #[pymethods] bodies, Python column lists via ast); pydrive (CPython driver) and the Rust harness; PyO3, numpy, CPython exercised "
           "not modelled; a stand-in for three pandas calls.")

ENGINES.append({"name": "py", "path": "checklib/py.py + pydrive/ + translate/pylayer.py", "serves_properties": ["C18", "C19"],
                "kind_free_text": "Lean 4 theorems over binding/encoding/layout tables translated from the binding sources on every run; the real "
                                  "compiled extension driven under CPython against the Rust core on the same call sequences"})

LEVEL.update({
    "C18": dict(engine="py", design_ref="DESIGN.md 6/C18",
                technique="Lean 4 theorems on tables translated from rust/src each run (status/side encodings, record tuple layouts, every #[pymethods] binding equals the transparent one) + lifting lemmas + the real extension under CPython compared call by call with the Rust core",
                text="status_encoding_documented, side_bool_roundtrip, tuple_layouts_documented, bindings_transparent (exact equality of every OrderBook/StepEnv binding with the transparent table), py_run_eq_core_run, py_error_unchanged. Per run: the compiled module is driven through OrderBook and StepEnv call sequences (off-grid prices -> ValueError, injected out-of-range integers -> OverflowError, both leaving the object unchanged; seed determinism; JSON snapshots cross-loaded Python<->Rust) and every value is compared with the Rust core's.",
                note=PY_NOTE),
    "C19": dict(engine="py", design_ref="DESIGN.md 6/C19",
                technique="Lean 4 theorems: implemented layout = documented layout as field lists for all four array builders (translated each run), render_congr (equal field lists <=> equal arrays on every state), dictionary keys, frame columns + element-wise dynamic check through the compiled module",
                text="stepEnv_l1_layout, stepEnv_l2_layout, stepEnvNumpy_l1_layout, stepEnvNumpy_l2_layout (incl. base_agent.py's documentation), array_lengths (9 and 45), render_congr, market_data_keys_bound, frame_columns_named. Per run: every element of the four arrays, every dictionary series and every data-frame column is compared with the documented quantity taken from the Rust core on asymmetric states.",
                note=PY_NOTE),
})

NOT_YET = {}
