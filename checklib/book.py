"""Book-core engine: C01-C07, C12, C13 — Lean theorems + correspondence of the Layer-I model,
the reference engine and the audit predicates against the real `bourse_book::OrderBook`."""
import concurrent.futures as cf
import os
import re
import shutil
import subprocess

from . import common as C

VIEWS = {"bid_ask", "vols", "bid_best", "ask_best", "best_vols", "bid_levels", "ask_levels",
         "level1", "level2", "mid"}
CORE = {"orders", "orders.status", "orders.vol", "orders.price", "orders.times", "orders.ident",
        "trades", "trade_vol", "result"}

# profile plans: (profile, histories, ops per history, extra drive args)
PLANS = {
    "C01": {"quick": [("enum", "d3", 4, 3, []), ("book", "disciplined", 2400, 60, []), ("book", "modify", 600, 50, []), ("book", "wide", 300, 60, []), ("book", "mixed", 600, 80, ["--levels", "1,3,10"])],
            "thorough": [("enum", "d4", 16, 4, []), ("book", "disciplined", 12000, 120, ["--levels", "1,3,10,24"]), ("book", "modify", 3000, 100, []),
                         ("book", "wide", 2000, 100, []), ("book", "toggle", 2000, 100, []), ("book", "mixed", 3000, 120, ["--levels", "1,3,10"])]},
    "C02": {"quick": [("enum", "d3", 4, 3, []), ("book", "disciplined", 900, 60, ["--levels", "1,2,3,5,10,24"]), ("book", "toggle", 900, 60, ["--levels", "1,2,3,5,10,24"]),
                      ("book", "modify", 600, 60, ["--levels", "1,3,10"]), ("book", "reload", 300, 60, ["--levels", "1,5,24"]),
                      ("market", "plain", 180, 80, []), ("book", "mixed", 600, 80, ["--levels", "1,3,10"])],
            "thorough": [("enum", "d4", 16, 4, []), ("book", "disciplined", 8000, 120, ["--levels", "1,2,3,5,10,24"]), ("book", "toggle", 5000, 120, ["--levels", "1,2,3,5,10,24"]),
                         ("book", "modify", 3000, 120, ["--levels", "1,3,10"]), ("book", "reload", 2000, 100, ["--levels", "1,5,24"]),
                         ("book", "wide", 2000, 100, []), ("market", "plain", 1000, 100, []), ("menv", "plain", 1000, 10, []), ("book", "mixed", 3000, 120, ["--levels", "1,3,10"])]},
    "C03": {"quick": [("enum", "d3", 4, 3, []), ("book", "disciplined", 1200, 60, []), ("book", "toggle", 600, 60, []), ("book", "modify", 900, 60, []), ("book", "mixed", 600, 80, ["--levels", "1,3,10"])],
            "thorough": [("enum", "d4", 16, 4, []), ("book", "disciplined", 10000, 120, []), ("book", "toggle", 4000, 120, []), ("book", "modify", 4000, 120, []),
                         ("book", "wide", 2000, 100, []), ("market", "plain", 1000, 100, []), ("book", "mixed", 3000, 120, ["--levels", "1,3,10"])]},
    "C04": {"quick": [("enum", "d3", 4, 3, []), ("book", "redundant", 1500, 80, []), ("book", "toggle", 600, 60, []), ("book", "modify", 450, 60, []), ("book", "mixed", 600, 80, ["--levels", "1,3,10"]),
                      ("book", "wide", 300, 60, []), ("market", "plain", 180, 80, [])],
            "thorough": [("enum", "d3", 4, 3, []), ("enum", "d3tick1", 4, 3, ["--tick", "1"]), ("book", "redundant", 8000, 150, []), ("book", "toggle", 3000, 120, []), ("book", "disciplined", 3000, 120, []),
                         ("book", "modify", 3000, 120, []), ("book", "mixed", 3000, 120, ["--levels", "1,3,10"])]},
    "C05": {"quick": [("enum", "d3ties", 4, 3, ["--ties", "1"]), ("book", "ties", 1500, 60, []), ("book", "ties", 600, 60, ["--prices", "2"]),
                      ("env", "overfull", 300, 8, []), ("menv", "overfull", 300, 8, [])],
            "thorough": [("enum", "d4ties", 16, 4, ["--ties", "1"]), ("book", "ties", 12000, 120, []), ("book", "ties", 4000, 100, ["--prices", "2"]),
                         ("book", "ties", 2000, 100, ["--levels", "1,10,24"]),
                         ("env", "overfull", 2000, 12, []), ("menv", "overfull", 2000, 12, [])]},
    "C06": {"quick": [("enum", "d3", 4, 3, []), ("book", "modify", 1500, 40, ["--levels", "5"]), ("book", "modify", 600, 60, ["--prices", "2"]),
                      ("book", "toggle", 900, 60, []), ("book", "mixed", 600, 80, ["--levels", "1,3,10"])],
            "thorough": [("enum", "d4", 16, 4, []), ("book", "modify", 10000, 80, ["--levels", "5"]), ("book", "modify", 4000, 120, ["--prices", "2"]),
                         ("book", "toggle", 2000, 100, []), ("book", "mixed", 3000, 120, ["--levels", "1,3,10"])]},
    "C07": {"quick": [("book", "wide", 300, 60, []), ("book", "reload", 900, 60, ["--levels", "1,10"]), ("market", "reload", 300, 80, ["--levels", "1,10"]), ("market", "reload", 60, 80, ["--assets", "12"]), ("book", "mixed", 600, 80, ["--levels", "1,3,10"])],
            "thorough": [("book", "wide", 2000, 100, []), ("book", "reload", 6000, 120, ["--levels", "1,3,10,24"]), ("market", "reload", 2000, 120, ["--levels", "1,3,10"]), ("market", "reload", 300, 120, ["--assets", "12"]), ("book", "mixed", 3000, 120, ["--levels", "1,3,10"])]},
    "C08": {"quick": [("env", "plain", 900, 8, ["--levels", "3"]), ("menv", "plain", 600, 8, ["--levels", "3"]),
                      ("env", "toggle", 300, 8, []), ("menv", "toggle", 300, 8, []), ("env", "long", 16, 250, []), ("menv", "long", 16, 250, [])],
            "thorough": [("env", "long", 24, 1000, []), ("menv", "long", 24, 1000, []), ("env", "plain", 5000, 12, ["--levels", "1,3,10"]), ("menv", "plain", 4000, 12, ["--levels", "1,3,10"]),
                         ("env", "toggle", 2000, 12, []), ("menv", "toggle", 2000, 12, [])]},
    # (C10's quantifier - "all interleavings of instruction submissions and steps" - has no batch-size clause: over-full batches belong to it)
    "C10": {"quick": [("env", "plain", 600, 8, []), ("menv", "plain", 600, 8, []), ("menv", "toggle", 300, 8, []), ("env", "toggle", 300, 8, []),
                      ("env", "overfull", 300, 8, []), ("menv", "overfull", 300, 8, [])],
            "thorough": [("env", "plain", 4000, 12, ["--levels", "1,3,10"]), ("menv", "plain", 4000, 12, ["--levels", "1,3,10"]),
                         ("menv", "toggle", 2000, 12, []), ("env", "toggle", 2000, 12, [])]},
    "C11": {"quick": [("env", "plain", 600, 10, ["--levels", "1,2,5,10,24"]), ("menv", "plain", 600, 10, ["--levels", "1,3,10"]),
                      ("menv", "plain", 300, 8, ["--assets", "2,3,4", "--levels", "1,2,3"]),
                      # one crowded level per side (more than 2^16 resting orders), judged in the harness
                      ("env", "crowd", 1, 1, ["--levels", "3"]), ("menv", "crowd", 1, 1, ["--levels", "3"])],
            "thorough": [("env", "plain", 5000, 30, ["--levels", "1,2,5,10,24"]), ("menv", "plain", 4000, 30, ["--levels", "1,3,10"]),
                         ("menv", "toggle", 1000, 20, [])]},
    "C12": {"quick": [("book", "malformed", 1200, 50, []), ("book", "disciplined", 300, 50, []), ("book", "edge", 900, 50, ["--levels", "3,10"]),
                      ("market", "malformed", 300, 60, []), ("env", "malformed", 300, 6, []), ("menv", "malformed", 300, 6, [])],
            "thorough": [("book", "malformed", 10000, 100, []), ("book", "disciplined", 2000, 100, []), ("book", "wide", 1000, 100, []),
                         ("book", "edge", 5000, 80, ["--levels", "1,3,10,24"]),
                         ("market", "malformed", 2000, 100, []), ("env", "malformed", 2000, 10, []), ("menv", "malformed", 2000, 10, [])]},
    "C13": {"quick": [("enum", "d3toggle", 4, 3, ["--toggle", "1"]), ("book", "toggle", 1500, 60, []), ("market", "plain", 300, 80, []), ("env", "toggle", 300, 8, []),
                      ("menv", "toggle", 300, 8, []), ("book", "mixed", 600, 80, ["--levels", "1,3,10"])],
            "thorough": [("enum", "d3toggleties", 4, 3, ["--toggle", "1", "--ties", "1", "--profile", "toggle"]), ("enum", "d3toggle", 4, 3, ["--toggle", "1"]), ("book", "toggle", 12000, 120, []), ("book", "toggle", 2000, 100, ["--prices", "2"]),
                         ("market", "plain", 2000, 100, []), ("env", "toggle", 2000, 12, []), ("menv", "toggle", 2000, 12, []), ("book", "mixed", 3000, 120, ["--levels", "1,3,10"])]},
    "C14": {"quick": [("market", "plain", 900, 80, ["--levels", "1,3,10"]), ("market", "malformed", 450, 60, []), ("menv", "plain", 600, 8, ["--assets", "1,2,3,4"]),
                      ("menv", "unusual", 300, 8, ["--assets", "2,3,4"]),
                      ("menv", "toggle", 300, 8, ["--assets", "2,3,4"]), ("market", "reload", 60, 80, ["--assets", "12"])],
            "thorough": [("market", "plain", 5000, 200, ["--levels", "1,3,10"]), ("menv", "plain", 4000, 12, ["--assets", "1,2,3,4"]),
                         ("menv", "toggle", 2000, 12, ["--assets", "2,3,4"]), ("market", "reload", 1000, 100, []), ("market", "malformed", 2000, 100, [])]},
    "C15": {"quick": [("env", "plain", 1200, 8, []), ("menv", "plain", 900, 8, []), ("env", "overfull", 300, 6, []),
                      ("env", "long", 16, 250, []), ("menv", "long", 16, 250, [])],
            "thorough": [("env", "long", 24, 1000, []), ("menv", "long", 24, 1000, []), ("env", "plain", 20000, 10, []), ("menv", "plain", 10000, 10, []), ("env", "overfull", 3000, 8, [])]},
}


# Profiles OUTSIDE the properties' own quantifiers ("Valid histories: ... order and modify volumes >= 1, limit prices ...
# strictly between 0 and 2^32-1 ... the clock is never moved backwards"; C08: "Batch sizes up to the step size"). A change that
# only alters behaviour there does not break the property as quantified, so the registered checks do not run them. They are
# kept for development (`bin/check Cxx --extended`, `tools/seedsweep.sh` records the outcome separately): the model, the
# reference engine and the implementation agree on them too.
EXTENDED = {
    "C01": [("book", "edge", 450, 50, ["--levels", "3,10"]), ("book", "unusual", 600, 60, []), ("book", "toggle", 600, 60, [])],
    "C02": [("book", "unusual", 600, 60, ["--levels", "1,3,10"])],
    "C03": [("book", "unusual", 600, 60, [])],
    "C04": [("book", "unusual", 900, 60, [])],
    "C06": [("book", "unusual", 600, 60, [])],
    "C07": [("book", "unusual", 600, 60, ["--levels", "1,10"])],
    "C08": [("env", "overfull", 300, 8, []), ("menv", "overfull", 300, 8, []), ("env", "unusual", 300, 8, []), ("menv", "unusual", 300, 8, [])],
    "C10": [("env", "malformed", 300, 6, []), ("menv", "malformed", 300, 6, []), ("env", "unusual", 450, 8, []), ("menv", "unusual", 450, 8, [])],
    "C11": [("env", "unusual", 300, 8, []), ("menv", "unusual", 300, 8, ["--assets", "2,3,4"])],
    "C13": [("book", "unusual", 600, 60, [])],
}


def plans_for(prop, tier):
    plans = list(PLANS[prop][tier])
    if os.environ.get("VERIF_EXTENDED") == "1":
        plans += EXTENDED.get(prop, [])
    return plans


class Finding:
    def __init__(self, kind, audit, hid, idx, fields, tr, op, run):
        self.kind, self.audit, self.hid, self.idx = kind, audit, hid, idx
        self.fields, self.tr, self.op, self.run = fields, tr, op, run

    @property
    def hkind(self):
        h = self.hid
        for k in ("menv", "env", "market"):
            if h.startswith(k):
                return k
        return "book"

    @property
    def profile(self):
        h = self.hid.split("-")[0]
        k = self.hkind
        return h[len(k):] if k != "book" else h

    def __repr__(self):
        a = f" {self.audit}" if self.audit else ""
        return f"{self.kind}{a} {self.hid} op#{self.idx} [{','.join(sorted(self.fields))}] tr={self.tr} op={self.op}"


def parse_driver(out, run):
    finds, stats, done = [], {}, {}
    for line in out.split("\n"):
        if not line:
            continue
        t = line.split(" ")
        try:
            if t[0] in ("K", "R"):
                # K hid idx fields tr=.. op=..
                if t[2] == "init":
                    finds.append(Finding(t[0], None, t[1], -1, set(t[3].split(",")), "1", "init", run))
                else:
                    finds.append(Finding(t[0], None, t[1], int(t[2]), set(t[3].split(",")),
                                         t[4].split("=")[1], t[5].split("=", 1)[1], run))
            elif t[0] == "A":
                finds.append(Finding("A", t[1], t[2], int(t[3]), set(t[4].split(",")),
                                     t[5].split("=")[1], t[6].split("=", 1)[1], run))
            elif t[0] == "STAT":
                stats[t[1]] = stats.get(t[1], 0) + int(t[2])
            elif t[0] == "DONE":
                for kv in t[1:]:
                    k, v = kv.split("=")
                    done[k] = int(v)
            elif t[0] == "BAD":
                finds.append(Finding("K", None, "protocol", -1, {"bad-line:" + "_".join(t[1:4])}, "1", "-", run))
        except (IndexError, ValueError):
            finds.append(Finding("K", None, "protocol", -1, {"unparsable:" + line[:80]}, "1", "-", run))
    return finds, stats, done


def gen_cmd(kind, profile, seed, hists, size, extra):
    if kind == "book":
        return [C.DRIVE, "book-gen", "--profile", profile, "--seed", str(seed), "--hists", str(hists), "--ops", str(size)] + extra
    if kind in ("env", "menv"):
        return [C.DRIVE, "env-gen", "--kind", kind, "--profile", profile, "--seed", str(seed), "--hists", str(hists),
                "--rounds", str(size)] + extra
    if kind == "enum":
        # bounded-exhaustive: `seed` is the shard index, `hists` the number of shards, `size` the depth
        return [C.DRIVE, "book-enum", "--depth", str(size), "--shard", f"{seed}/{hists}"] + extra
    if kind == "market":
        return [C.DRIVE, "market-gen", "--profile", profile, "--seed", str(seed), "--hists", str(hists), "--ops", str(size)] + extra
    raise ValueError(kind)


def run_profile(tag, kind, profile, seed, hists, ops, extra, workdir):
    """drive (real code) -> stream file -> Lean driver. Returns (finds, stats, done, stream_path)."""
    os.makedirs(workdir, exist_ok=True)
    stream = os.path.join(workdir, f"{tag}.stream")
    env = C.env_offline()
    env["VERIF_SCRATCH"] = os.path.join(workdir, "scratch")
    with open(stream, "w") as f:
        p = subprocess.run(gen_cmd(kind, profile, seed, hists, ops, extra), stdout=f, stderr=subprocess.PIPE, env=env, text=True)
    if p.returncode != 0:
        f = Finding("K", None, "harness", -1, {"harness-crashed:" + p.stderr[-200:].replace(" ", "_").replace("\n", "|")}, "1", "-", tag)
        return [f], {}, {}, stream
    with open(stream) as f:
        q = subprocess.run([C.DRIVER], stdin=f, stdout=subprocess.PIPE, stderr=subprocess.PIPE, text=True)
    finds, stats, done = parse_driver(q.stdout, tag)
    if q.returncode != 0 or not done:
        finds.append(Finding("K", None, "driver", -1, {"driver-crashed"}, "1", "-", tag))
    return finds, stats, done, stream


def extract_history(stream, hid):
    """Lines (H, O and I) of one history of a stream file."""
    lines, on = [], False
    with open(stream) as f:
        for line in f:
            if line.startswith("H "):
                if on:
                    break
                on = line.split(" ")[1] == hid
            if on:
                lines.append(line.rstrip("\n"))
    return lines


def replay_lines(lines, workdir):
    """Run H/O lines through the real code and the Lean driver; returns findings."""
    os.makedirs(workdir, exist_ok=True)
    f = os.path.join(workdir, f"replay_{os.getpid()}.txt")
    with open(f, "w") as fh:
        fh.write("\n".join(l for l in lines if l[:2] in ("H ", "O ")) + "\n")
    env = C.env_offline()
    env["VERIF_SCRATCH"] = os.path.join(workdir, "scratch")
    p = subprocess.run([C.DRIVE, "replay", f], stdout=subprocess.PIPE, stderr=subprocess.PIPE, env=env, text=True)
    q = subprocess.run([C.DRIVER], input=p.stdout, stdout=subprocess.PIPE, stderr=subprocess.PIPE, text=True)
    os.remove(f)
    finds, _, _ = parse_driver(q.stdout, "replay")
    return finds, p.stdout, q.stdout


def shrink(lines, pred, workdir, budget=400, keep=None):
    """Delta-debug the O lines of a history while `pred(findings)` stays true. Time ops are kept
    (so a disciplined history stays disciplined); removing a creation renumbers later ids."""
    head = [l for l in lines if l.startswith("H ")][0]
    # pair ops with the id they created (from the I line that follows)
    ops = []
    cur = None
    for l in lines:
        if l.startswith("O "):
            cur = [l[2:], None]
            ops.append(cur)
        elif l.startswith("I ") and cur is not None:
            m = re.match(r"I r=ok:(\d+) ", l)
            if m:
                cur[1] = int(m.group(1))
            cur = None

    def render(ops):
        return [head] + ["O " + o[0] for o in ops]

    def refs(t):
        """(asset, position of the order id in the token list) of an op that refers to an order."""
        if t[0] in ("place", "cancel", "modify"):
            return None, 1
        if t[0] == "ev":
            return None, 2
        if t[0] in ("qcancel", "qmodify"):
            return t[1], 2
        if t[0] == "on":
            _, pos = refs(t[2:])
            return (t[1], pos + 2) if pos is not None else (None, None)
        return None, None

    def creator_asset(t):
        if t[0] == "submit":
            return t[1]
        if t[0] == "on":
            return t[1]
        return None

    def remove(ops, k):
        """ops without op k; if it created order id c: drop ops on c, renumber ids > c (same asset)."""
        c = ops[k][1]
        ca = creator_asset(ops[k][0].split(" "))
        out = []
        for j, (txt, cid) in enumerate(ops):
            if j == k:
                continue
            if c is None:
                out.append([txt, cid])
                continue
            t = txt.split(" ")
            asset, idpos = refs(t)
            if idpos is not None and asset == ca:
                i = int(t[idpos])
                if i == c:
                    continue
                if i > c:
                    t[idpos] = str(i - 1)
            same_asset = creator_asset(t) == ca
            out.append([" ".join(t), (cid - 1) if (cid is not None and cid > c and same_asset) else cid])
        return out

    def holds(ops):
        if keep is not None and not keep(render(ops)):
            # the history must stay inside what the property is about (e.g. keep its disabled period)
            return False
        finds, _, _ = replay_lines(render(ops), workdir)
        return pred(finds)

    if not holds(ops):
        return render(ops), False
    # drop the suffix after the first failing op
    finds, _, _ = replay_lines(render(ops), workdir)
    bad = [f.idx for f in finds if pred([f]) and f.idx >= 0]
    if bad:
        cut = ops[: min(bad) + 1]
        if holds(cut):
            ops = cut
    n = 0
    changed = True
    while changed and n < budget:
        changed = False
        k = len(ops) - 1
        while k >= 0 and n < budget:
            if ops[k][0].startswith("time "):
                k -= 1
                continue
            cand = remove(ops, k)
            n += 1
            if holds(cand):
                ops = cand
                changed = True
            k -= 1
    # a clock change directly followed by another clock change is dead: keep the later one
    k = 0
    while k + 1 < len(ops):
        if ops[k][0].startswith("time ") and ops[k + 1][0].startswith("time "):
            cand = ops[:k] + ops[k + 1:]
            if holds(cand):
                ops = cand
                continue
        k += 1
    return render(ops), True


def check(prop, tier, seed, spec, verdict, workdir):
    """spec: dict(modules=[...], a=pred(Finding)->bool, k=pred(Finding)->bool, known=[...])
    Fills verdict; returns coverage dict."""
    plans = plans_for(prop, tier)
    # --- T: theorems ---
    pr = C.prove(prop, spec["modules"], clean=(tier == "thorough"))
    if tier == "thorough":
        ok, out = C.leancheck(spec["modules"])
        if not ok:
            pr["failed"].append(("leanchecker", out[-300:]))
    # --- K, A: correspondence and audits on the real code ---
    results = []
    with cf.ThreadPoolExecutor(max_workers=16) as ex:
        futs = []
        for pi, (kind, profile, hists, ops, extra) in enumerate(plans):
            if kind == "enum":
                for sh in range(hists):
                    futs.append(ex.submit(run_profile, f"enum{profile}{pi}_{sh}", kind, profile, sh, hists, ops, extra, workdir))
                continue
            # split into shards so that all cores are used
            shards = max(1, min(16, hists // 50)) if profile != "long" else min(16, hists)
            per = (hists + shards - 1) // shards
            for s in range(shards):
                tag = f"{kind}{profile}{pi}_{s}"
                futs.append(ex.submit(run_profile, tag, kind, profile, seed * 1000 + pi * 37 + s, per, ops, extra, workdir))
        for f in futs:
            results.append(f.result())
    finds, stats, totals, streams = [], {}, {}, {}
    for fs, st, dn, stream in results:
        finds += fs
        for k, v in st.items():
            stats[k] = stats.get(k, 0) + v
        for k, v in dn.items():
            totals[k] = totals.get(k, 0) + v
        for f in fs:
            streams[f.run] = stream
    return decide(prop, tier, seed, spec, verdict, workdir, pr, finds, stats, totals, streams, plans)


def sample_histories(workdir, n=2, max_ops=14):
    out = []
    for fn in sorted(os.listdir(workdir)):
        if not fn.endswith(".stream"):
            continue
        with open(os.path.join(workdir, fn)) as f:
            cur = None
            for line in f:
                if line.startswith("H "):
                    if cur:
                        break
                    cur = {"setup": line.strip()[2:], "ops": []}
                elif line.startswith("O ") and cur is not None and len(cur["ops"]) < max_ops:
                    cur["ops"].append(line.strip()[2:])
            if cur:
                out.append(cur)
        if len(out) >= n:
            break
    return out


def decide(prop, tier, seed, spec, verdict, workdir, pr, finds, stats, totals, streams, plans):
    a_finds = [f for f in finds if spec["a"](f)]
    # a crash of the harness or the driver is never ignored: whatever its cause, the histories behind it
    # were not checked, so the correspondence is not established
    infra = [f for f in finds if f.hid in ("harness", "driver", "protocol")]
    k_finds = infra + [f for f in finds if spec["k"](f) and not spec["a"](f) and f not in infra]
    samples = sample_histories(workdir)
    reported = set()
    unattributed = []
    n_impl, n_model = 0, 0

    def hist_of(f):
        if f.run in streams and f.hid not in ("harness", "driver", "protocol"):
            return extract_history(streams[f.run], f.hid)
        return []

    # case 2: the implementation breaks the property on a concrete history
    needs = spec.get("needs")
    tries = 0
    for f in a_finds:
        key = (f.kind, f.audit, tuple(sorted(f.fields)))
        if key in reported or len(reported) >= 3 or tries >= 8:
            continue
        lines = hist_of(f)
        if needs and lines and not needs(lines):
            # the history itself lies outside what this property is about (costs no try)
            unattributed.append(f)
            continue
        tries += 1
        target = (f.kind, f.audit)
        small, ok = (lines, False)
        if lines:
            small, ok = shrink(lines, lambda fs: any(spec["a"](g) and (g.kind, g.audit) == target and (g.fields & f.fields) for g in fs), workdir,
                               keep=spec.get("shrink_keep"))
        if needs and small and not needs(small):
            # the minimal failing history does not involve what this property is about
            unattributed.append(f)
            continue
        reported.add(key)
        n_impl += 1
        what = f"implementation violates {prop}: {f.kind}{' ' + f.audit if f.audit else ''} clause(s) {','.join(sorted(f.fields))} at op `{f.op.replace('_', ' ')}`"
        kf = match_known(prop, f, small)
        if kf:
            verdict.known_finding(kf)
            continue
        extra = {}
        if f.profile == "long":
            # long runs are judged inside the harness (no operation stream is printed): reproduce with the generator command
            k, sd, hi = f.hkind, f.hid.split("-")[1], f.hid.split("-")[2]
            extra = {"how_to_reproduce": f".build/harness/debug/drive env-gen --kind {k} --profile long --seed {sd} --hists {int(hi) + 1} --rounds <as in the plan> | tail -1"}
        verdict.violation({"kind": "impl-violates-property", "obligation": f"A({prop}): {','.join(sorted(f.fields))}", **extra,
                           "stream": [l for l in small if l[:2] in ("H ", "O ")], "shrunk": ok,
                           "first_bad_op": f.op, "original_history": f.hid,
                           "replay_cmd": f"bin/check {prop} --replay <this file>"}, what)
    if a_finds and not reported:
        a_finds = []
    # case 3: a proof obligation or the correspondence broke, the audit held on everything explored
    if not a_finds and (pr["failed"] or k_finds):
        # search harder with the property's own audit as oracle
        found = search(prop, seed, spec, workdir)
        if found:
            f, lines = found
            small, ok = shrink(lines, lambda fs: any(spec["a"](g) for g in fs), workdir)
            verdict.violation({"kind": "impl-violates-property", "obligation": f"A({prop}) found by search after broken "
                               + ("proof" if pr["failed"] else "correspondence"),
                               "stream": [l for l in small if l[:2] in ("H ", "O ")], "shrunk": ok, "first_bad_op": f.op},
                              f"implementation violates {prop}: {f}")
        else:
            if pr["failed"]:
                verdict.violation({"kind": "proof-broken", "obligation": [n for n, _ in pr["failed"]],
                                   "why": [w for _, w in pr["failed"]][:5], "log": pr["log"][-1500:]},
                                  f"proof obligation(s) of {prop} no longer check: {', '.join(n for n, _ in pr['failed'][:6])}", nfi=True)
            for f in k_finds[:1]:
                n_model += 1
                lines = hist_of(f)
                small, ok = (lines, False)
                if lines:
                    small, ok = shrink(lines, lambda fs: any(spec["k"](g) and g.kind == f.kind for g in fs), workdir, budget=150)
                verdict.violation({"kind": "model-impl-disagreement", "obligation": f"K({prop}): {f}",
                                   "stream": [l for l in small if l[:2] in ("H ", "O ")], "shrunk": ok,
                                   "first_bad_op": f.op, "original_history": f.hid},
                                  f"correspondence K({prop}) broke (model vs implementation differ on {','.join(sorted(f.fields))} at `{f.op}`), "
                                  f"audit A({prop}) held on every explored history", nfi=True)
    cov = {
        "obligations": len(pr["obligations"]),
        "discharged": len(pr["discharged"]),
        "checker_cmd": f"cd /verif/lean && lake build {' '.join(spec['modules'])} && lake env lean <#print axioms of every theorem>"
                       + (" && lake env leanchecker " + " ".join(spec["modules"]) if tier == "thorough" else ""),
        "theorems": pr["obligations"],
        "failed_obligations": [list(x) for x in pr["failed"]],
        "evaluations": totals.get("ops", 0),
        "histories": totals.get("histories", 0),
        "distinct_nontrivial": totals.get("nontrivial_distinct", 0),
        "traces_validated_against_impl": totals.get("histories", 0),
        "rule": "seeded random histories from the profiles listed in `plans` (kind `enum`: bounded-exhaustive, EVERY operation sequence of the given depth over a small alphabet - limit orders at 2 prices x 2 volumes per side, 2 market sizes per side, cancel and the full modify grid on every order created so far, optionally the trading switch / no clock advance - each followed by drain probes) run on the real OrderBook; after every op the "
                "complete observation is compared with the Lean model and the reference engine and the audit predicates are "
                "evaluated on the implementation's own output; a history is non-trivial if it contains at least one trade and "
                "one effective cancel or modify; distinct by hash of its op sequence",
        "plans": [list(p[:4]) + [" ".join(p[4])] for p in plans],
        "samples": samples,
        "op_and_branch_distribution": dict(sorted(stats.items())),
        "impl_vs_property_failures": n_impl,
        "model_vs_impl_disagreements": len(k_finds),
        "disagreements_checked": len(k_finds),
        "known_findings_matched": len(verdict.known),
        "failures_not_attributable_to_this_property": len(unattributed),
    }
    return cov


def search(prop, seed, spec, workdir):
    """Case-3 search: more and longer histories, the property's audit as oracle."""
    plans = plans_for(prop, "quick")
    sd = os.path.join(workdir, "search")
    with cf.ThreadPoolExecutor(max_workers=16) as ex:
        futs = []
        for r in range(4):
            for pi, (kind, profile, hists, ops, extra) in enumerate(plans):
                if kind == "enum":
                    # bounded-exhaustive plans: one level deeper, all shards, once
                    if r == 0:
                        for s in range(16):
                            futs.append(ex.submit(run_profile, f"s{r}_enum{profile}{pi}_{s}", kind, profile, s, 16, ops + 1, extra, sd))
                    continue
                for s in range(4):
                    tag = f"s{r}_{kind}{profile}{pi}_{s}"
                    futs.append(ex.submit(run_profile, tag, kind, profile, (seed + 7919 * (r + 1)) * 1000 + pi * 37 + s,
                                          max(50, hists // 2), ops * 2 if kind in ("book", "market") else ops + 4, extra, sd))
        for fu in futs:
            fs, _, _, stream = fu.result()
            for f in fs:
                if spec["a"](f):
                    lines = extract_history(stream, f.hid)
                    for g in futs:
                        g.cancel()
                    return f, lines
    return None


def match_known(prop, f, lines):
    for k in C.load_known():
        if k.get("property") != prop or k.get("status") != "known":
            continue
        m = k.get("match", {})
        if m.get("kind") and m["kind"] != f.kind:
            continue
        if m.get("audit") and m["audit"] != f.audit:
            continue
        if m.get("clauses") and not (set(m["clauses"]) & f.fields):
            continue
        if m.get("op_prefix") and not f.op.startswith(m["op_prefix"]):
            continue
        return k.get("what_fails", k.get("id", "known finding"))
    return None


def replay(prop, path, spec):
    import json
    obj = json.load(open(path))
    lines = obj.get("stream", [])
    if not lines:
        print("replay file carries no operation stream:", obj.get("obligation"))
        return 0
    wd = os.path.join(C.BUILD, "run", f"{prop}_replay_{os.getpid()}")
    finds, impl, model = replay_lines(lines, wd)
    shutil.rmtree(wd, ignore_errors=True)
    for l in lines:
        print(l)
    print("--- findings on the current tree ---")
    for f in finds:
        print(("A* " if spec["a"](f) else ("K* " if spec["k"](f) else "   ")) + repr(f))
    return 1 if any(spec["a"](f) or spec["k"](f) for f in finds) else 0


def cfields(f):
    return f.fields & CORE


def is_env(f):
    return f.hkind in ("env", "menv")


SPECS = {
    "C01": dict(modules=["Bourse.Props.C01"],
                a=lambda f: f.kind == "R" and f.profile != "ties" and bool(cfields(f)),
                # C01 quantifies over create / place / cancel / process-event / set-time: a failure whose minimal history needs a
                # snapshot reload or a disabled period belongs to C07 / C13 (their quantifiers name those operations)
                needs=lambda lines: not any(l.startswith(("O reload", "O trading 0")) or (l.startswith("H ") and " book " in l and l.split()[6] == "0") for l in lines),
                k=lambda f: f.kind == "K" and (bool(cfields(f)) or any(x.startswith(("fault", "harness", "driver", "bad", "unpars")) for x in f.fields))),
    "C02": dict(modules=["Bourse.Props.C02"],
                a=lambda f: (f.kind == "A" and f.audit == "C02") or (f.kind == "R" and not cfields(f) and bool(f.fields & VIEWS)),
                k=lambda f: f.kind == "K" and not (f.fields & {"orders", "trades"}) and bool(f.fields & VIEWS)),
    "C03": dict(modules=["Bourse.Props.C03"],
                a=lambda f: f.kind == "A" and f.audit == "C03",
                k=lambda f: f.kind == "K" and bool(f.fields & {"trades", "trade_vol", "orders.vol"})),
    "C04": dict(modules=["Bourse.Props.C04"],
                a=lambda f: f.kind == "A" and f.audit == "C04",
                k=lambda f: f.kind == "K" and bool(f.fields & {"orders.status", "orders.times", "orders.ident", "t"})),
    "C05": dict(modules=["Bourse.Props.C05"],
                a=lambda f: (f.profile == "ties" and ((f.kind == "R" and bool(f.fields)) or (f.kind == "A" and f.audit in ("C02", "C03", "C04", "C06", "C07"))))
                            # over-full batches: what the step did to the queues (shadow replay, arrival order, the views and the
                            # ledger after it); what a submission shows between steps is C10's
                            or (f.profile == "overfull" and f.op == "step" and (f.kind == "R" or (f.kind == "A" and f.audit in ("SH", "ORD", "C02", "C08")))),
                k=lambda f: f.profile in ("ties", "overfull") and f.kind == "K"),
    "C06": dict(modules=["Bourse.Props.C06"],
                a=lambda f: (f.kind == "A" and f.audit == "C06") or (f.kind == "R" and bool(cfields(f)) and f.profile in ("modify", "toggle", "mixed", "unusual"))
                            # published volumes after a modification (reduced in place or re-entered "as if newly arrived")
                            or (f.kind in ("R", "A") and (f.kind == "R" or f.audit == "C02") and "modify" in f.op and bool(f.fields & VIEWS)),
                # C06 quantifies over books reachable under C01's operations: a failure whose minimal history needs a disabled
                # period or a snapshot reload belongs to C13 / C07
                needs=lambda lines: any(l.startswith(("O modify", "O ev modify")) for l in lines)
                                    and not any(l.startswith(("O reload", "O trading 0")) or (l.startswith("H ") and " book " in l and l.split()[6] == "0") for l in lines),
                k=lambda f: f.kind == "K" and (bool(cfields(f)) or "hidden_state" in f.fields) and "modify" in f.op),
    "C07": dict(modules=["Bourse.Props.C07"],
                a=lambda f: f.kind == "A" and f.audit == "C07",
                k=lambda f: f.kind == "K" and f.op.startswith("reload")),
    "C08": dict(modules=["Bourse.Props.C08"],
                a=lambda f: is_env(f) and ((f.kind == "A" and (f.audit in ("C08", "ORD") or (f.audit == "SH" and f.op == "step")))
                                           or (f.kind == "R" and f.op == "step")),
                k=lambda f: is_env(f) and f.kind == "K" and f.op == "step"),
    "C10": dict(modules=["Bourse.Props.C10"],
                a=lambda f: is_env(f) and f.kind == "A" and (f.audit == "C10" or (f.audit == "SH" and f.op != "step")),
                k=lambda f: is_env(f) and f.kind == "K" and (f.op != "step" or "cached_l2" in f.fields)),
    "C11": dict(modules=["Bourse.Props.C11"],
                a=lambda f: is_env(f) and f.kind == "A" and f.audit == "C11",
                k=lambda f: is_env(f) and f.kind == "K" and any(x.startswith("rec.") for x in f.fields)),
    "C12": dict(modules=["Bourse.Props.C12"],
                a=lambda f: f.kind == "A" and f.audit == "C12",
                k=lambda f: f.kind == "K" and bool(f.fields & {"result", "orders.price"})),
    "C13": dict(modules=["Bourse.Props.C13"],
                a=lambda f: (f.kind == "A" and (f.audit == "C13" or (f.audit == "C08" and "no_trades_while_disabled" in f.fields)))
                            or (f.kind == "R" and f.profile in ("toggle", "mixed") and bool(cfields(f)))
                            # a market whose book stops behaving like a stand-alone book in a history with a disabled period
                            or (f.hkind == "market" and f.kind == "A" and f.audit == "SH")
                            # what the book publishes about an operation executed WHILE trading is disabled ("limit orders and re-priced
                            # orders simply rest at their price")
                            or (f.tr == "0" and f.hkind == "book" and (f.kind == "R" or (f.kind == "A" and f.audit == "C02")) and bool(f.fields & VIEWS)),
                needs=lambda lines: any(l.startswith("O trading 0") or l.split()[3:5] == ["trading", "0"] or (l.startswith("H ") and " book " in l and l.split()[6] == "0")
                                        or (l.startswith("H ") and " market " in l and l.split()[6] == "0") for l in lines),
                # C13's third sentence ("once trading is enabled again every subsequently arriving or re-priced order matches
                # against the resting book by the usual rules") speaks about histories WITH a disabled period: the failing history is
                # minimised within those (the disabled period is kept), not discarded when a shorter one without it also fails
                shrink_keep=lambda lines: any(l.startswith("O trading 0") or l.split()[3:5] == ["trading", "0"] or (l.startswith("H ") and " book " in l and l.split()[6] == "0")
                                              or (l.startswith("H ") and " market " in l and l.split()[6] == "0") for l in lines),
                k=lambda f: f.kind == "K" and ((f.tr == "0" and bool(cfields(f))) or f.op.startswith("trading"))),
    "C14": dict(modules=["Bourse.Props.C14"],
                # ... and, in a multi-asset environment, every per-asset clause of the single-asset environment properties
                # (an asset's cache, records, clock and batch must be those of a stand-alone environment)
                a=lambda f: (f.hkind in ("menv", "market") and f.kind == "A" and f.audit in ("C14", "SH"))
                            or (f.hkind == "menv" and f.kind == "A" and f.audit in ("C08", "C10", "C11", "C02")),
                k=lambda f: f.hkind in ("menv", "market") and f.kind == "K"),
    "C15": dict(modules=["Bourse.Props.C15"],
                a=lambda f: is_env(f) and f.kind == "A" and f.audit in ("RNG", "ORD"),
                k=lambda f: is_env(f) and f.kind == "K" and "schedule" in f.fields),
}
