"""Simulation-level engine: C09 (determinism), C16 (agents valid), C17 (momentum symmetry), C20 (derive)."""
import concurrent.futures as cf
import os
import subprocess

from . import book, common as C

TRANSLATE = os.path.join(C.VERIF, "translate")
GENERATED = os.path.join(C.LEAN, "Bourse", "Generated")


def translate(script, out_name):
    """Regenerate a Lean module from /repo's current source. Returns (ok, message)."""
    os.makedirs(GENERATED, exist_ok=True)
    out = os.path.join(GENERATED, out_name)
    tmp = out + f".tmp{os.getpid()}"
    with C.Lock("lean.lock"):
        rc, msg = C.run(["python3", os.path.join(TRANSLATE, script), C.REPO, tmp], cwd=TRANSLATE)
        if rc != 0:
            try:
                os.remove(tmp)
            except OSError:
                pass
            return False, msg.strip()
        # only touch the file when its content changes (keeps lake's incremental build quiet)
        new = open(tmp).read()
        old = open(out).read() if os.path.exists(out) else None
        if new != old:
            os.replace(tmp, out)
        else:
            os.remove(tmp)
    return True, ""


def drive_lines(args, workdir, tag):
    env = C.env_offline()
    env["VERIF_SCRATCH"] = os.path.join(workdir, "scratch_" + tag)
    p = subprocess.run([C.DRIVE] + args, stdout=subprocess.PIPE, stderr=subprocess.DEVNULL, env=env, text=True)
    return p.returncode, p.stdout.split("\n")


def shard_map(fn, n):
    with cf.ThreadPoolExecutor(max_workers=16) as ex:
        return list(ex.map(fn, range(n)))


def finish_proofs(prop, verdict, pr, terr, a_found):
    """Case 3 for broken proof obligations / translations when no failing input was found."""
    failed = list(pr["failed"]) + [("translation", m) for m in terr]
    if failed and not a_found:
        verdict.violation({"kind": "proof-broken", "obligation": [n for n, _ in failed], "why": [w for _, w in failed][:6],
                           "log": pr.get("log", "")[-1500:]},
                          f"proof obligation(s) of {prop} no longer check: {', '.join(n for n, _ in failed[:6])}", nfi=True)
    return failed


def base_cov(prop, tier, pr, modules, extra_cmd=""):
    return {
        "obligations": len(pr["obligations"]) + (1 if extra_cmd else 0),
        "discharged": len(pr["discharged"]) + (1 if extra_cmd and not any(n == "translation" for n, _ in pr["failed"]) else 0),
        "checker_cmd": (extra_cmd + " && " if extra_cmd else "") + f"cd /verif/lean && lake build {' '.join(modules)} && lake env lean <#print axioms of every theorem>",
        "theorems": pr["obligations"],
        "failed_obligations": [list(x) for x in pr["failed"]],
    }


# ------------------------------------------------------------------------------------------ C09

AMBIENT = [r"\benv\s*::\s*(var|var_os|vars|vars_os|args|args_os|current_dir|temp_dir)\b", r"\bSystemTime\b", r"\bInstant\s*::\s*now\b",
           r"\bthread_rng\b", r"\bfrom_entropy\b", r"\bOsRng\b", r"\bgetrandom\b", r"\bprocess\s*::\s*id\b",
           r"\bthread\s*::\s*current\b", r"\bRandomState\b", r"\bis_terminal\b"]


def ambient_inputs():
    """Source obligation of C09's second sentence ("nothing else - time, addresses, hash order - influences the outcome"):
    the simulation crates read nothing from the process environment, the clock, OS randomness or thread / process identity.
    Returns (list of (file, line, text), set of environment-variable names read with a literal name)."""
    import glob
    import re
    hits, names = [], set()
    for f in sorted(glob.glob(os.path.join(C.REPO, "crates", "*", "src", "**", "*.rs"), recursive=True)):
        try:
            lines = open(f).read().split("\n")
        except OSError:
            continue
        in_tests = False
        for i, ln in enumerate(lines):
            if re.match(r"\s*#\[cfg\(test\)\]", ln):
                in_tests = True          # test modules sit at the end of the files of this repository
            code = ln.split("//")[0]
            if in_tests:
                continue
            for pat in AMBIENT:
                if re.search(pat, code):
                    hits.append((os.path.relpath(f, C.REPO), i + 1, ln.strip()[:160]))
                    for m in re.finditer(r"var(?:_os)?\s*\(\s*\"([A-Za-z0-9_]+)\"", code):
                        names.add(m.group(1))
                    break
    # names may be held in constants: any ALL_CAPS string literal next to an env read in the same file
    for f, _, _ in hits:
        src = open(os.path.join(C.REPO, f)).read()
        for m in re.finditer(r"\"([A-Z][A-Z0-9_]{2,})\"", src):
            names.add(m.group(1))
    return hits, names


def check_c09(tier, seed, verdict, workdir):
    prop = "C09"
    terr = []
    ok, msg = translate("runner.py", "RunnerBranches.lean")
    if not ok:
        terr.append(msg)
    amb_hits, amb_names = ambient_inputs()
    if amb_hits:
        terr.append("the simulation crates read ambient process state: " + "; ".join(f"{f}:{n}: {t}" for f, n, t in amb_hits[:4]))
    modules = ["Bourse.Props.C09"]
    pr = C.prove(prop, modules, clean=(tier == "thorough"))
    shards = 16
    n_rand = 60 if tier == "quick" else 400
    n_mix = 25 if tier == "quick" else 150

    def one(i):
        rc1, rand_lines = drive_lines(["sim-gen", "--seed", str(seed * 100 + i), "--n", str(n_rand), "--mix", "0"], workdir, f"r{i}")
        rc2, mix_lines = drive_lines(["sim-gen", "--seed", str(seed * 100 + 50 + i), "--n", str(n_mix), "--mix", "1"], workdir, f"m{i}")
        stream = "\n".join(l for l in rand_lines if l[:2] in ("H ", "O ", "I "))
        q = subprocess.run([C.DRIVER], input=stream + "\n", stdout=subprocess.PIPE, stderr=subprocess.PIPE, text=True)
        finds, stats, done = book.parse_driver(q.stdout, f"sim{i}")
        dl = [l for l in rand_lines + mix_lines if l.startswith("D ")]
        # separate OS process for the first few specs of each shard
        sep = []
        for l in dl[:3] + dl[-3:]:
            t = l.split(" ")
            spec = t[9:]
            rc3, out = drive_lines(["sim-run"] + spec, workdir, f"p{i}")
            got = [x for x in out if x.startswith("D ")]
            sep.append((t[1], got[0].split(" ")[1] if got else "CRASH", " ".join(spec)))
        return rc1 or rc2, finds, stats, done, dl, sep, stream

    res = shard_map(one, shards)
    a_found = []
    k_found = []
    n_runs = n_differ_seed = n_sep = n_panic = 0
    samples = []
    stats_all, totals = {}, {}
    for rc, finds, stats, done, dl, sep, stream in res:
        if rc:
            k_found.append(("harness crashed", ""))
        for k, v in stats.items():
            stats_all[k] = stats_all.get(k, 0) + v
        for k, v in done.items():
            totals[k] = totals.get(k, 0) + v
        for f in finds:
            if f.kind == "K":
                k_found.append((repr(f), f.hid, stream))
        for l in dl:
            t = l.split(" ")
            base = t[1]
            spec = " ".join(t[9:])
            n_runs += 1
            if len(samples) < 3:
                samples.append(spec)
            kv = dict(x.split("=") for x in t[2:9])
            if kv["panic"] == "1":
                n_panic += 1
            for key, what in (("progress", "progress-bar branch gives a different run"), ("again", "repeated run in the same process differs"),
                              ("manual", "the runner differs from the documented loop `agents.update(env, rng); env.step(rng)` driven by seed_from_u64(seed)"),
                              ("moved", "moving the environment and the agents in memory between steps (Box, reallocating Vec) changes the run"),
                              ("hand", "derived agent set differs from the hand-written sequence")):
                if kv[key] != base:
                    a_found.append((what, spec))
            if kv["otherseed"] != base:
                n_differ_seed += 1
        for base, got, spec in sep:
            n_sep += 1
            if base != got:
                a_found.append(("run in a separate OS process differs", spec))
    # an environment variable the crates read: the same simulation in a process where it is set
    if amb_names:
        specs = [" ".join(l.split(" ")[9:]) for r in res for l in r[4][:4]]
        for name in sorted(amb_names)[:6]:
            for spec in specs[:24]:
                base = [x for x in drive_lines(["sim-run"] + spec.split(" "), workdir, "amb0")[1] if x.startswith("D ")]
                env = C.env_offline()
                env[name] = "1"
                env["VERIF_SCRATCH"] = os.path.join(workdir, "scratch_amb1")
                p = subprocess.run([C.DRIVE, "sim-run"] + spec.split(" "), stdout=subprocess.PIPE, stderr=subprocess.DEVNULL, env=env, text=True)
                got = [x for x in p.stdout.split("\n") if x.startswith("D ")]
                if base and got and base[0].split(" ")[1] != got[0].split(" ")[1]:
                    a_found.append((f"the run changes when the environment variable {name} is set", spec))
                    break
            if any(a[0].startswith("the run changes") for a in a_found):
                break
    for what, spec in a_found[:3]:
        if what.startswith("derived"):
            continue
        verdict.violation({"kind": "impl-violates-property", "obligation": "A(C09): " + what, "spec": spec,
                           "replay_cmd": f".build/harness/debug/drive sim-run {spec}"},
                          f"implementation violates C09: {what} for `{spec}`")
    real_a = [a for a in a_found if not a[0].startswith("derived")]
    failed = finish_proofs(prop, verdict, pr, terr, real_a)
    if k_found and not real_a:
        f = k_found[0]
        verdict.violation({"kind": "model-impl-disagreement", "obligation": f"K(C09): {f[0]}",
                           "stream": [l for l in (f[2] if len(f) > 2 else "").split("\n") if f[1] and (" " + f[1] + " ") in l][:1]},
                          f"correspondence K(C09) broke: the Lean model of runner + RandomAgents + environment no longer predicts the real run ({f[0]}); "
                          "repeated / cross-process / progress-branch runs still agree with each other", nfi=True)
    cov = base_cov(prop, tier, pr, modules, "python3 translate/runner.py /repo <Generated/RunnerBranches.lean>")
    cov.update({
        "evaluations": n_runs * 5 + n_sep,
        "distinct_nontrivial": stats_all.get("sim:with_trades", 0),
        "rule": "generated simulation specifications (single/multi-asset, 1-4 agents of the built-in types combined through the derive macros, "
                "1-39 steps, step sizes 1..1000 so that some steps are over-full); each is run with the real runner 5 times in-process (plain, progress bar, hand-written set, repeat, seed+1), "
                "as the documented loop, as the documented loop with the environment and agents moved in memory between steps, and a "
                "subset again in a separate OS process; RandomAgents-only runs are compared bit-for-bit with the Lean model run; non-trivial = "
                "model-compared runs that contain trades",
        "samples": samples,
        "runs_compared_with_lean_model": totals.get("histories", 0),
        "model_vs_impl_disagreements": len(k_found), "disagreements_checked": len(k_found),
        "separate_process_runs": n_sep, "runs_where_seed_plus_one_differs": n_differ_seed, "runs": n_runs,
        "runs_that_abort": n_panic,
        "op_and_branch_distribution": stats_all,
        "impl_vs_property_failures": len(real_a),
    })
    cov["ambient_input_scan"] = {"patterns": AMBIENT, "hits": [list(h) for h in amb_hits], "files": "crates/*/src/**/*.rs outside #[cfg(test)]"}
    return cov, ["runtime nondeterminism (addresses, hash order, time) cannot be exhibited by a model: the claim is that the model has no input but "
                 "(seed, parameters) and the implementation equals it on every explored configuration in every execution context tried",
                 "noise/momentum agents sample floats (ziggurat, exp): compared run-to-run by digest, not against the Lean model"]


# ------------------------------------------------------------------------------------------ C20

def check_c20(tier, seed, verdict, workdir):
    prop = "C20"
    terr = []
    ok, msg = translate("derive.py", "DeriveTemplate.lean")
    if not ok:
        terr.append(msg)
    modules = ["Bourse.Props.C20"]
    pr = C.prove(prop, modules, clean=(tier == "thorough"))
    n_seeds = 5 if tier == "quick" else 50

    def one(i):
        rc, lines = drive_lines(["shapes", "--seed", str(seed * 1000 + i)], workdir, f"s{i}")
        stream = "\n".join(l for l in lines if l.startswith("S "))
        q = subprocess.run([C.DRIVER], input=stream + "\n", stdout=subprocess.PIPE, stderr=subprocess.PIPE, text=True)
        finds, stats, done = book.parse_driver(q.stdout, f"shape{i}")
        return rc, finds, stats, done, lines

    res = shard_map(one, n_seeds)
    a_found, k_found, stats_all, totals, samples = [], [], {}, {}, []
    for rc, finds, stats, done, lines in res:
        if rc:
            k_found.append(("harness crashed", None))
        for k, v in stats.items():
            stats_all[k] = stats_all.get(k, 0) + v
        for k, v in done.items():
            totals[k] = totals.get(k, 0) + v
        by_name = {l.split(" ")[1]: l for l in lines if l.startswith("S ")}
        if not samples:
            samples = [l[:400] for l in list(by_name.values())[:2]]
        for f in finds:
            line = by_name.get(f.hid, "")
            (a_found if f.kind == "A" else k_found).append((repr(f), line))
    for what, line in a_found[:3]:
        verdict.violation({"kind": "impl-violates-property", "obligation": "A(C20): derived set differs from the hand-written sequence",
                           "shape_line": line, "replay_cmd": ".build/harness/debug/drive shapes --seed <seed in the line> (struct in harness/src/shapes_gen.rs)"},
                          f"implementation violates C20: {what}")
    failed = finish_proofs(prop, verdict, pr, terr, a_found)
    if k_found and not a_found:
        what, line = k_found[0]
        verdict.violation({"kind": "model-impl-disagreement", "obligation": f"K(C20): {what}", "shape_line": line},
                          f"correspondence K(C20) broke ({what}); derived and hand-written runs still agree", nfi=True)
    cov = base_cov(prop, tier, pr, modules, "python3 translate/derive.py /repo <Generated/DeriveTemplate.lean>")
    cov.update({
        "evaluations": totals.get("histories", 0),
        "distinct_nontrivial": 48 if totals.get("histories", 0) >= 48 else totals.get("histories", 0),
        "rule": "48 generated struct shapes (24 per derive macro, 4 of them declared through a macro_rules! helper; 1-8 fields, mixed and repeated probe types, nested derived sets, "
                "field names not in alphabetical order, single-line bodies without trailing comma and multi-line bodies) compiled with "
                "the real macros; each shape runs 2 updates+steps per seed with the derived update and with the hand-written sequence; "
                "logs (tag, generator output, orders seen) are compared with each other and with the Lean model's prediction; distinct = shapes",
        "samples": samples,
        "seeds": n_seeds,
        "model_vs_impl_disagreements": len(k_found), "disagreements_checked": len(k_found),
        "impl_vs_property_failures": len(a_found),
        "op_and_branch_distribution": stats_all,
    })
    return cov, ["the derive macros run at harness build time: a macro change that no longer compiles the shapes is reported as a harness build failure",
                 "probe agents stand in for arbitrary member agents (they observe call order through the shared generator and the shared environment)"]


# ------------------------------------------------------------------------------------------ C16

def check_c16(tier, seed, verdict, workdir):
    prop = "C16"
    modules = ["Bourse.Props.C16"]
    pr = C.prove(prop, modules, clean=(tier == "thorough"))
    shards = 16
    n_audit = 100 if tier == "quick" else 1500
    n_rand = 30 if tier == "quick" else 300
    n_ph = 2000 if tier == "quick" else 60000
    n_ax = 40 if tier == "quick" else 600
    n_fo = 6000 if tier == "quick" else 200000

    def one(i):
        rc1, aud = drive_lines(["agent-audit", "--seed", str(seed * 100 + i), "--n", str(n_audit)], workdir, f"a{i}")
        rc2, rand_lines = drive_lines(["sim-gen", "--seed", str(seed * 100 + 70 + i), "--n", str(n_rand), "--mix", "0"], workdir, f"r{i}")
        rc3, ph_lines = drive_lines(["price-helpers", "--seed", str(seed * 100 + i), "--n", str(n_ph)], workdir, f"h{i}")
        rc4, ax_lines = drive_lines(["agent-exact", "--seed", str(seed * 100 + i), "--n", str(n_ax)], workdir, f"x{i}")
        rc5, fo_lines = drive_lines(["f64-ops", "--seed", str(seed * 100 + i), "--n", str(n_fo)], workdir, f"f{i}")
        stream = "\n".join([l for l in rand_lines if l[:2] in ("H ", "O ", "I ")] + [l for l in ph_lines if l.startswith("PH ")]
                           + [l for l in ax_lines if l[:2] in ("H ", "O ", "I ")] + [l for l in fo_lines if l.startswith("FO ")])
        q = subprocess.run([C.DRIVER], input=stream + "\n", stdout=subprocess.PIPE, stderr=subprocess.PIPE, text=True)
        finds, stats, done = book.parse_driver(q.stdout, f"sim{i}")
        if q.returncode != 0 or not done:
            rc3 = 1
        return rc1 or rc2 or rc3 or rc4 or rc5, [l for l in aud if l.startswith("AA ")], finds, stats, done

    res = shard_map(one, shards)
    bad, k_found, samples = [], [], []
    stats_all = {}
    n_cfg = n_orders = n_cancels = n_nontrivial = 0
    kinds = {}
    totals = {}
    for rc, aud, finds, stats, done in res:
        if rc:
            k_found.append("harness crashed")
        for k, v in done.items():
            totals[k] = totals.get(k, 0) + v
        k_found += [repr(f) for f in finds if f.kind == "K"]
        for k, v in stats.items():
            stats_all[k] = stats_all.get(k, 0) + v
        for f in finds:
            if f.kind == "A" and f.audit == "C16":
                where = "agent_update:" if f.hid.startswith("ax") else "price_helpers:"
                bad.append((where + ",".join(sorted(f.fields)), f.op, f.hid))
        for l in aud:
            t = l.split(" ")
            n_cfg += 1
            kv = dict(x.split("=") for x in t[3:7])
            n_orders += int(kv["orders"])
            n_cancels += int(kv["cancels"])
            if int(kv["orders"]) > 0 and int(kv["cancels"]) > 0:
                n_nontrivial += 1
            kinds[t[-1][0]] = kinds.get(t[-1][0], 0) + 1
            if len(samples) < 3:
                samples.append(" ".join(t[7:]))
            if t[2] != "ok":
                bad.append((t[2], " ".join(t[7:]), t[1]))
    seen = set()
    for what, cfg, hid in bad:
        key = what.split("@")[0]
        if key in seen or len(seen) >= 3:
            continue
        seen.add(key)
        sub = "price-helpers" if hid.startswith("ph-") else ("agent-exact" if hid.startswith("ax") else "agent-audit")
        verdict.violation({"kind": "impl-violates-property", "obligation": "A(C16): " + what, "config": cfg, "run": hid,
                           "replay_cmd": f".build/harness/debug/drive {sub} --seed {hid.split('-')[1]} --n {int(hid.split('-')[2]) + 1} | tail -1"},
                          f"implementation violates C16: {what} for `{cfg}`")
    failed = finish_proofs(prop, verdict, pr, [], bad)
    if k_found and not bad:
        verdict.violation({"kind": "model-impl-disagreement", "obligation": f"K(C16): {k_found[0]}"},
                          f"correspondence K(C16) broke: the Lean model of the agents / of f64 arithmetic no longer predicts the real run ({k_found[0]}); "
                          "the instruction audit held on every explored run", nfi=True)
    cov = base_cov(prop, tier, pr, modules)
    cov.update({
        "evaluations": n_cfg + totals.get("histories", 0),
        "distinct_nontrivial": n_nontrivial,
        "rule": "generated agent configurations (random/noise/momentum, single and multi-asset, tick 1..10, probabilities in {0, (0,1), >=1}, "
                "sigma up to 10, empty/one-sided/two-sided starting books, 1..200 steps) driven step by step on the real environment; every "
                "instruction emitted is audited (grid, tick and volume range, side vs observed mid, trader id, once per trader, probability 0 / >=1 "
                "corners, cancels only of own active orders, at most one live order per random agent, no abort); RandomAgents-only simulations are "
                "also compared bit-for-bit with the Lean model; the real f64 price helpers (round_price_down/up, place_buy/sell_limit_order and "
                "their multi-asset twins, driven with a fixed-value distribution) are compared with the exact-rational model on dyadic inputs "
                "(mids at the bottom, in the middle and at the top of the price range, samples of either sign up to 2^47, +inf) and the grid / "
                "side-of-mid clauses are evaluated on their output; float-exact agent histories (`agent-exact`): the real NoiseAgent / MomentumAgent "
                "(single- and multi-asset; p in {0, 1/8, 1/3, 1/2, 9/10, 1, 3/2}; sigma up to 10; negative demand / scale / mu; step size 1..1000; trading "
                "toggles with crossed books) update a real environment the harness keeps moving, and the Lean model of the whole update "
                "(Model/FloatAgents.lean over the f64 model, exact generator, LogNormal::sample and tanh as recorded tables) must predict the generator "
                "state after the update, every order created and - through the complete observation after the following step - every instruction "
                "queued; the C16 clauses are evaluated on the implementation's observations around every update; the f64 model itself is compared "
                "with the hardware on seeded operand pairs (`f64-ops`); non-trivial = configurations with both orders and cancellations",
        "samples": samples,
        "agent_kinds": kinds, "orders_audited": n_orders, "cancellations_audited": n_cancels,
        "runs_compared_with_lean_model": totals.get("histories", 0),
        "float_exact_agent_updates": {k: v for k, v in sorted(stats_all.items()) if k.startswith("ax:")},
        "f64_operations_compared_with_hardware": {k: v for k, v in sorted(stats_all.items()) if k.startswith("fo:")},
        "price_helper_inputs_compared": {k: v for k, v in sorted(stats_all.items()) if k.startswith("ph:")},
        "model_vs_impl_disagreements": len(k_found), "disagreements_checked": len(k_found),
        "impl_vs_property_failures": len(bad),
    })
    return cov, ["floats: the quoted prices are proved valid for every sample both in exact arithmetic and in correctly rounded binary64 "
                 "(Lemmas/F64Round, F64Prices: rnd monotone, exact on representable values, relative error 2^-53; the rounded quotient mid/tick never "
                 "crosses an integer); LogNormal::sample and libm tanh are parameters of the agent models (any function), recorded as tables for the tie",
                 "cancellations of non-active orders are invisible through the public API (a no-op in the book) and are not audited for noise/momentum agents",
                 "mid-prices are assumed far below 2^32 (a sell clamped to the top of the price range can land below a mid that is itself within one tick of Price::MAX)"]


# ------------------------------------------------------------------------------------------ C17

def check_c17(tier, seed, verdict, workdir):
    prop = "C17"
    modules = ["Bourse.Props.C17"]
    pr = C.prove(prop, modules, clean=False)
    shards = 16
    n = 120 if tier == "quick" else 1500
    n_ax = 60 if tier == "quick" else 900

    def one(i):
        rc, lines = drive_lines(["momentum", "--seed", str(seed * 100 + i), "--n", str(n)], workdir, f"m{i}")
        mm = [l for l in lines if l.startswith("MM ")]
        rc2, ax_lines = drive_lines(["agent-exact", "--seed", str(seed * 100 + 50 + i), "--n", str(n_ax), "--kind", "M"], workdir, f"x{i}")
        ax = [l for l in ax_lines if l[:2] in ("H ", "O ", "I ")]
        q = subprocess.run([C.DRIVER], input="\n".join(mm + ax) + "\n", stdout=subprocess.PIPE, stderr=subprocess.PIPE, text=True)
        finds, stats, done = book.parse_driver(q.stdout, f"mom{i}")
        if q.returncode != 0 or not done:
            rc2 = 1
        return rc or rc2, mm, finds, stats, done

    res = shard_map(one, shards)
    bad, samples, stats_all, totals = [], [], {}, {}
    k_found = []
    for rc, mm, finds, stats, done in res:
        if rc:
            bad.append(("harness crashed", ""))
        for k, v in stats.items():
            stats_all[k] = stats_all.get(k, 0) + v
        for k, v in done.items():
            totals[k] = totals.get(k, 0) + v
        by = {l.split(" ")[1]: l for l in mm}
        if not samples:
            samples = [l[:300] for l in mm[:2]]
        for f in finds:
            if f.hid.startswith("ax"):
                # float-exact momentum histories: C17's own clauses are violations, a model disagreement is a broken correspondence
                if f.kind == "A" and f.audit == "C17":
                    bad.append((repr(f), f"drive agent-exact --kind M --seed {f.hid.split('-')[1]} --n {int(f.hid.split('-')[2]) + 1}"))
                elif f.kind == "K":
                    k_found.append(repr(f))
                continue
            bad.append((repr(f), by.get(f.hid, "")))
    seen = set()
    for what, line in bad:
        key = what.split("[")[-1].split("@")[0]
        if key in seen or len(seen) >= 3:
            continue
        seen.add(key)
        verdict.violation({"kind": "impl-violates-property", "obligation": "A(C17): " + what, "run_line": line,
                           "replay_cmd": ".build/harness/debug/drive momentum --seed <s> --n <k> (ids in the line are mom-<s>-<k>)"},
                          f"implementation violates C17: {what}")
    finish_proofs(prop, verdict, pr, [], bad)
    if k_found and not bad:
        verdict.violation({"kind": "model-impl-disagreement", "obligation": f"K(C17): {k_found[0]}"},
                          f"correspondence K(C17) broke: the Lean model of the momentum agent no longer predicts the real update ({k_found[0]}); "
                          "the direction / probability clauses held on every explored update", nfi=True)
    cov = base_cov(prop, tier, pr, modules)
    cov.update({
        "model_vs_impl_disagreements": len(k_found),
        "evaluations": totals.get("histories", 0) * 2,
        "distinct_nontrivial": totals.get("nontrivial_distinct", 0),
        "rule": "generated momentum configurations (rising/falling/mixed/flat harness-quoted mid paths, decay in {1,1/2,1/4,3/4}, order ratio 0/1 (and 1/2 at saturated demand 4n), mids around 500 ticks or around 10^8, "
                "1-6 traders, single and multi-asset; two thirds at saturated demand) run on the real agent together with the path mirrored about a "
                "fixed level; the documented rule is evaluated in exact rational arithmetic on the mids the agent observed (direction always, exact "
                "counts when saturated) and the mirrored run must show the mirrored flow; float-exact histories (`agent-exact --kind M`): the real "
                "MomentumAgent / MomentumMarketAgent on a moving market (also crossed, trading off) with arbitrary non-saturated parameters (decay 1/3, 7/10, "
                "negative demand or scale, ratio 1/3, ...): the Lean model of the whole update in f64 arithmetic predicts the signal M, both "
                "probabilities, every uniform draw, every order and the generator state exactly; on the implementation's observation every order's "
                "side is the sign of M, probability 0 never acts and probability >= 1 acts once per trader; "
                "non-trivial = runs in which the agent submitted orders",
        "samples": samples, "op_and_branch_distribution": stats_all,
        "impl_vs_property_failures": len(bad), "disagreements_checked": 0,
    })
    return cov, ["PARTIAL on floats: tanh is idealised as an odd function in the theorems; the real agent's use of libm tanh is exercised at "
                 "saturation (|demand*tanh(scale*M)/n| >= 1 for every M != 0) and through mirrored runs",
                 "Props/C17 imports three Mathlib modules (ring, linarith, ordered-field instance for Rat)"]
