"""Python-layer engine: C18 (transparent views) and C19 (documented layouts).
The real compiled extension (cargo build -p bourse) is driven under CPython (python3-vt) on streams
written by the Rust harness; every Python-visible value is compared with the Rust core's."""
import os
import subprocess

from . import book, sim, common as C

PYEXT = os.path.join(C.BUILD, "pyext")
SO = os.path.join(PYEXT, "debug", "libbourse.so")
PYDRIVE = os.path.join(C.VERIF, "pydrive", "drive.py")


def build_ext():
    with C.Lock("pyext.lock"):
        rc, out = C.run(["cargo", "build", "-p", "bourse", "--offline", "--target-dir", PYEXT], cwd=C.REPO, timeout=3600)
    return rc == 0 and os.path.exists(SO), out


PLANS = {
    "quick": [("book", "py", 120, 50, ["--levels", "10"]), ("env", "plain", 60, 8, ["--levels", "10"]),
              ("env", "npy", 60, 8, ["--levels", "10"]), ("env", "toggle", 30, 8, ["--levels", "10"]),
              ("env", "malformed", 30, 6, ["--levels", "10"]), ("env", "unusual", 60, 8, ["--levels", "10"])],
    "thorough": [("book", "py", 3000, 80, ["--levels", "10"]), ("env", "plain", 1500, 12, ["--levels", "10"]),
                 ("env", "npy", 1500, 12, ["--levels", "10"]), ("env", "toggle", 600, 10, ["--levels", "10"]),
                 ("env", "malformed", 600, 8, ["--levels", "10"]), ("env", "overfull", 300, 6, ["--levels", "10"]),
                 ("env", "unusual", 1500, 12, ["--levels", "10"])],
}


def run_stream(tag, kind, profile, seed, hists, size, extra, workdir):
    os.makedirs(workdir, exist_ok=True)
    stream = os.path.join(workdir, f"{tag}.stream")
    env = C.env_offline()
    env["VERIF_SCRATCH"] = os.path.join(workdir, "scratch_" + tag)
    with open(stream, "w") as f:
        p = subprocess.run(book.gen_cmd(kind, profile, seed, hists, size, extra), stdout=f, stderr=subprocess.PIPE, env=env, text=True)
    if p.returncode != 0:
        return stream, [("harness", "harness crashed: " + p.stderr[-200:])], {}, 0
    snapdir = os.path.join(workdir, "snaps_" + tag)
    if kind == "book":
        subprocess.run([C.DRIVE, "snap-dump", stream, snapdir], env=env, stdout=subprocess.DEVNULL, stderr=subprocess.DEVNULL)
    penv = dict(env)
    penv["BOURSE_SO"] = SO
    # one shard also runs the crowded-level probe (more than 2^16 resting orders at one price)
    crowd = ["--crowd"] if profile == "npy" and tag.endswith("_0") else []
    q = subprocess.run(["python3-vt", PYDRIVE, stream, "--seed", str(seed), "--snapdir", snapdir] + crowd, stdout=subprocess.PIPE,
                       stderr=subprocess.PIPE, env=penv, text=True)
    finds, stats, done = book.parse_driver(q.stdout, tag)
    extra_f = []
    if q.returncode != 0 or not done:
        extra_f.append(("pydrive", "python driver crashed: " + q.stderr[-300:].replace("\n", " | ")))
    n_cross = 0
    if kind == "book":
        # Python-written snapshots loaded by the Rust core must show the Rust core's own final state
        r = subprocess.run([C.DRIVE, "snap-load", snapdir], env=env, stdout=subprocess.PIPE, stderr=subprocess.DEVNULL, text=True)
        last = {}
        with open(stream) as f:
            hid = None
            for line in f:
                if line.startswith("H "):
                    hid = line.split(" ")[1]
                elif line.startswith("I ") and hid:
                    last[hid] = line
        failed = {f.hid for f in finds}
        for line in r.stdout.split("\n"):
            t = line.split(" ")
            if len(t) < 3 or t[0] != "X" or t[1] in failed:
                continue
            n_cross += 1
            want = last.get(t[1], "").split(" ")
            strip = lambda toks: [x for x in toks if not x.startswith(("tr=", "r=", "sh=", "I"))]  # noqa: E731
            if strip(t[2:]) != strip(want[1:]):
                finds.append(book.Finding("A", "C18", t[1], -1, {"python_snapshot_loaded_in_rust_differs" if not t[2].startswith(("ERR", "PANIC"))
                                                                else "python_snapshot_rejected_by_rust"}, "1", "snapshot", tag))
    return stream, extra_f, (finds, stats, done), n_cross


def history_upto(stream, hid, idx):
    lines = book.extract_history(stream, hid)
    out, n = [], -1
    for l in lines:
        if l.startswith("O "):
            n += 1
            if idx >= 0 and n > idx:
                break
        if l[:2] in ("H ", "O "):
            out.append(l)
    return out


def check(prop, tier, seed, verdict, workdir):
    terr = []
    ok, msg = sim.translate("pylayer.py", "PyLayer.lean")
    if not ok:
        terr.append(msg)
    modules = [f"Bourse.Props.{prop}"]
    pr = C.prove(prop, modules, clean=(tier == "thorough"))
    results = []
    import concurrent.futures as cf
    with cf.ThreadPoolExecutor(max_workers=16) as ex:
        futs = []
        for pi, (kind, profile, hists, size, extra) in enumerate(PLANS[tier]):
            shards = max(1, min(8, hists // 30))
            per = (hists + shards - 1) // shards
            for s in range(shards):
                futs.append(ex.submit(run_stream, f"{kind}{profile}{pi}_{s}", kind, profile, seed * 1000 + pi * 41 + s, per, size, extra, workdir))
        results = [f.result() for f in futs]
    a_found, crashes, stats_all, n_hist, n_cross = [], [], {}, 0, 0
    for stream, extra_f, res, nc in results:
        crashes += extra_f
        n_cross += nc
        if not res:
            continue
        finds, stats, done = res
        n_hist += done.get("histories", 0)
        for k, v in stats.items():
            stats_all[k] = stats_all.get(k, 0) + v
        for f in finds:
            if f.kind == "A" and f.audit == prop:
                a_found.append((f, stream))
    seen = set()
    for f, stream in a_found:
        key = tuple(sorted(x.split(":")[0] for x in f.fields))
        if key in seen or len(seen) >= 3:
            continue
        seen.add(key)
        verdict.violation({"kind": "impl-violates-property", "obligation": f"A({prop}): {','.join(sorted(f.fields))}",
                           "stream": history_upto(stream, f.hid, f.idx), "first_bad_op": f.op,
                           "replay_cmd": f"bin/check {prop} --replay <this file>"},
                          f"Python layer violates {prop}: {','.join(sorted(f.fields))} at `{f.op.replace('_', ' ')}` (history {f.hid})")
    for who, what in crashes[:1]:
        if not a_found:
            verdict.violation({"kind": "harness-failure", "obligation": who, "detail": what}, f"{who}: {what}", nfi=True)
    sim.finish_proofs(prop, verdict, pr, terr, a_found)
    cov = sim.base_cov(prop, tier, pr, modules, "python3 translate/pylayer.py /repo <Generated/PyLayer.lean>")
    cov.update({
        "evaluations": sum(v for k, v in stats_all.items() if k.startswith(("book_op:", "env_op:"))),
        "distinct_nontrivial": n_hist,
        "rule": "histories generated by the Rust harness (OrderBook API profile with off-grid prices, crossing modifies, trading toggles and snapshot "
                "reloads; StepEnv profiles plain/toggle/malformed; a limit+cancel-only profile mirrored through StepEnvNumpy's array submission API) are "
                "executed through the real compiled extension under CPython; after every call every Python-visible value is compared with the Rust "
                "core's observation of the same sequence; out-of-range integers are injected (OverflowError, object unchanged); snapshots are "
                "cross-loaded Python<->Rust; arrays, dictionaries and data frames are checked element by element against the documented quantity; "
                "distinct = histories",
        "samples": [" | ".join(history_upto(results[0][0], book.extract_history(results[0][0], "")[0].split(" ")[1] if False else open(results[0][0]).readline().split(" ")[1], 6))[:600]] if results else [],
        "op_and_branch_distribution": stats_all,
        "snapshots_cross_loaded_python_to_rust": n_cross,
        "impl_vs_property_failures": len(a_found), "disagreements_checked": len(a_found),
    })
    return cov, ["PyO3 argument conversion, numpy array construction and CPython are exercised, not modelled",
                 "pandas is not installed: a 30-line stand-in for DataFrame.from_records / column access / Series.map lets the real helper bodies run",
                 "the Lean theorems are about tables translated from the binding sources on every run (translator trusted)"]


def replay(prop, path):
    import json
    import tempfile
    obj = json.load(open(path))
    lines = obj.get("stream", [])
    if not lines:
        print(json.dumps(obj, indent=1)[:2000])
        return 0
    d = tempfile.mkdtemp(dir=C.BUILD)
    f = os.path.join(d, "replay.txt")
    open(f, "w").write("\n".join(lines) + "\n")
    s = os.path.join(d, "replay.stream")
    with open(s, "w") as out:
        subprocess.run([C.DRIVE, "replay", f], stdout=out, env=C.env_offline())
    env = C.env_offline()
    env["BOURSE_SO"] = SO
    q = subprocess.run(["python3-vt", PYDRIVE, s, "--snapdir", os.path.join(d, "snaps")], stdout=subprocess.PIPE, env=env, text=True)
    print("\n".join(lines))
    print("--- findings on the current tree ---")
    print(q.stdout)
    import shutil
    shutil.rmtree(d, ignore_errors=True)
    return 1 if f"A {prop} " in q.stdout else 0
