import Bourse.Model.Types
import Bourse.Model.SMap
import Bourse.Model.Side
import Bourse.Model.Book
import Bourse.Model.Ops
import Bourse.Spec.Views
import Bourse.Spec.Audit
import Bourse.Spec.Ref
