/-
Layer S — every market-data view recomputed from the list of orders alone
(filter Active, group by price). This is the oracle of C02: it never looks at
the side maps or the separately maintained aggregates.
-/
import Bourse.Model.Types

namespace Bourse
namespace Views

/-- Active orders resting on side `sd`. -/
def resting (os : List Order) (sd : Side) : List Order :=
  os.filter fun o => o.status = .active && o.side = sd

/-- Best bid: highest resting bid price, sentinel `0` when there is none. -/
def bestBid (os : List Order) : Nat :=
  (resting os .bid).foldl (fun m o => max m o.price) 0

/-- Best ask: lowest resting ask price, sentinel `MAXP` when there is none. -/
def bestAsk (os : List Order) : Nat :=
  (resting os .ask).foldl (fun m o => min m o.price) MAXP

def best (os : List Order) : Side → Nat
  | .bid => bestBid os
  | .ask => bestAsk os

def sideVol (os : List Order) (sd : Side) : Nat :=
  ((resting os sd).map (·.vol)).sum

/-- (volume, count) of the resting orders of side `sd` at exactly price `p`. -/
def atPrice (os : List Order) (sd : Side) (p : Nat) : Nat × Nat :=
  let l := (resting os sd).filter fun o => o.price = p
  ((l.map (·.vol)).sum, l.length)

def touch (os : List Order) (sd : Side) : Nat × Nat := atPrice os sd (best os sd)

/-- Level `i` of side `sd`: `i` ticks away from the touch, `(0, 0)` outside the price range. -/
def level (os : List Order) (tick : Nat) (sd : Side) (i : Nat) : Nat × Nat :=
  match sd with
  | .ask => if bestAsk os + i * tick ≤ MAXP then atPrice os .ask (bestAsk os + i * tick) else (0, 0)
  | .bid => if i * tick ≤ bestBid os then atPrice os .bid (bestBid os - i * tick) else (0, 0)

def levels (os : List Order) (tick : Nat) (sd : Side) (n : Nat) : List (Nat × Nat) :=
  (List.range n).map (level os tick sd)

def level1 (os : List Order) : Level1 :=
  { bidPrice := bestBid os, askPrice := bestAsk os,
    bidVol := sideVol os .bid, askVol := sideVol os .ask,
    bidTouchVol := (touch os .bid).1, askTouchVol := (touch os .ask).1,
    bidTouchOrders := (touch os .bid).2, askTouchOrders := (touch os .ask).2 }

def level2 (os : List Order) (tick n : Nat) : Level2 :=
  { bidPrice := bestBid os, askPrice := bestAsk os,
    bidVol := sideVol os .bid, askVol := sideVol os .ask,
    bidLevels := levels os tick .bid n, askLevels := levels os tick .ask n }

def mid2 (os : List Order) : Nat := bestBid os + bestAsk os

/-- Resting volume of side `sd` whose price lies within `n` ticks of the touch. -/
def volWithin (os : List Order) (tick : Nat) (sd : Side) (n : Nat) : Nat :=
  (((resting os sd).filter fun o =>
      match sd with
      | .ask => o.price < bestAsk os + n * tick
      | .bid => bestBid os < o.price + n * tick).map (·.vol)).sum

end Views
end Bourse
