/-
Layer S — the "straightforward reference matching engine" of C01.

State: the order table, one explicit FIFO list of resting order ids per side in
priority order, and the trade log. No keys, no timestamps or stamps take part
in ordering, no aggregates: a queue position is decided by walking the list.
Matching is structural recursion down the opposite queue. `enter` is the single
function used by placement *and* by re-pricing modifications ("as if newly
arrived"). Every market-data view is `Spec.Views` of the order table.
-/
import Bourse.Model.Ops
import Bourse.Spec.Views

namespace Bourse
namespace Ref

structure RState where
  t        : Nat
  tick     : Nat
  tradeVol : Nat
  trading  : Bool
  orders   : List Order
  bidQ     : List Nat
  askQ     : List Nat
  trades   : List Trade
  deriving DecidableEq, Repr, Inhabited

def init (t0 tick : Nat) (trading : Bool) : RState :=
  { t := t0, tick := tick, tradeVol := 0, trading := trading, orders := [], bidQ := [], askQ := [],
    trades := [] }

def RState.queue (s : RState) : Side → List Nat
  | .bid => s.bidQ
  | .ask => s.askQ

def RState.setQueue (s : RState) (sd : Side) (q : List Nat) : RState :=
  match sd with
  | .bid => { s with bidQ := q }
  | .ask => { s with askQ := q }

def priceOf (os : List Order) (id : Nat) : Nat := (os[id]?.map (·.price)).getD 0

/-- A resting order at price `p` keeps its place ahead of a newcomer at price `q`
(better or equal price; equal price ⇒ earlier queued first). -/
def ahead : Side → Nat → Nat → Bool
  | .bid, p, q => decide (p ≥ q)
  | .ask, p, q => decide (p ≤ q)

/-- Queue `id` at `price` behind every resting order with a better or equal price. -/
def enqueue (os : List Order) (sd : Side) (q : List Nat) (id price : Nat) : List Nat :=
  q.takeWhile (fun j => ahead sd (priceOf os j) price) ++ id ::
    q.dropWhile (fun j => ahead sd (priceOf os j) price)

/-- An aggressor on side `sd` with limit `limit` may trade at resting price `p`. -/
def admits : Side → Nat → Nat → Bool
  | .bid, limit, p => decide (p ≤ limit)
  | .ask, limit, p => decide (limit ≤ p)

structure MatchSt where
  orders   : List Order
  trades   : List Trade
  tradeVol : Nat
  agg      : Order

/-- Walk the opposite queue from its head: fill `min` of the two remaining volumes at the
resting order's price while the aggressor has volume left and the head satisfies its limit. -/
def matchQ (t : Nat) : List Nat → MatchSt → List Nat × MatchSt
  | [], st => ([], st)
  | j :: q, st =>
    match st.orders[j]? with
    | none => (j :: q, st)
    | some pass =>
      if st.agg.vol > 0 && admits st.agg.side st.agg.price pass.price then
        let fill := min st.agg.vol pass.vol
        let pass1 : Order := { pass with vol := pass.vol - fill }
        let pass' : Order := if pass1.vol = 0 then { pass1 with status := .filled, endt := t } else pass1
        let agg1 : Order := { st.agg with vol := st.agg.vol - fill }
        let agg' : Order := if agg1.vol = 0 then { agg1 with status := .filled, endt := t } else agg1
        let tr : Trade := { t := t, side := pass.side, price := pass.price, vol := fill,
                            active := st.agg.id, passive := pass.id }
        let st' : MatchSt := { orders := st.orders.set j pass', trades := st.trades ++ [tr],
                               tradeVol := st.tradeVol + fill, agg := agg' }
        if pass'.vol = 0 then matchQ t q st' else (j :: q, st')
      else (j :: q, st)

/-- An order (already marked Active, not in any queue) arrives: execute, then rest or discard.
`market = true`: the remainder is discarded (or the order rejected while trading is disabled). -/
def enter (s : RState) (agg : Order) (market : Bool) : RState × Order :=
  let sd := agg.side
  if market && !s.trading then
    (s, { agg with status := .rejected, endt := s.t })
  else
    let (s, agg) :=
      if s.trading then
        let st0 : MatchSt :=
          { orders := s.orders, trades := s.trades, tradeVol := s.tradeVol, agg := agg }
        let r := matchQ s.t (s.queue sd.opp) st0
        let s1 := s.setQueue sd.opp r.1
        ({ s1 with orders := r.2.orders, trades := r.2.trades, tradeVol := r.2.tradeVol }, r.2.agg)
      else (s, agg)
    if agg.status = .filled then (s, agg)
    else if market then (s, { agg with status := .cancelled, endt := s.t })
    else (s.setQueue sd (enqueue s.orders sd (s.queue sd) agg.id agg.price), agg)

def create (s : RState) (sd : Side) (vol trader : Nat) (price : Option Nat) : RState × Res :=
  match price with
  | some p =>
    if p % s.tick != 0 then (s, .err p s.tick)
    else ({ s with orders := s.orders ++ [Book.mkOrder s.t sd vol trader price s.orders.length] },
          .ok s.orders.length)
  | none => ({ s with orders := s.orders ++ [Book.mkOrder s.t sd vol trader price s.orders.length] },
             .ok s.orders.length)

def place (s : RState) (id : Nat) : RState :=
  match s.orders[id]? with
  | none => s
  | some o =>
    if o.status ≠ .new then s
    else
      let (s, o) := enter s { o with status := .active, arr := s.t } (Book.isMarket o)
      { s with orders := s.orders.set id o }

def cancel (s : RState) (id : Nat) : RState :=
  match s.orders[id]? with
  | none => s
  | some o =>
    if o.status = .active then
      { (s.setQueue o.side ((s.queue o.side).erase id)) with
          orders := s.orders.set id { o with status := .cancelled, endt := s.t } }
    else s

def modify (s : RState) (id : Nat) (newPrice newVol : Option Nat) : RState :=
  match s.orders[id]? with
  | none => s
  | some o =>
    if Book.offGrid s.tick newPrice then s
    else if o.status ≠ .active then s
    else
      match newPrice, newVol with
      | none, none => s
      | p, v =>
        if p.isNone && (v.getD o.vol) < o.vol then
          -- pure volume reduction: keeps its place
          { s with orders := s.orders.set id { o with vol := v.getD o.vol } }
        else
          -- taken out and re-entered as if newly arrived
          let s := s.setQueue o.side ((s.queue o.side).erase id)
          let (s, o) := enter s { o with vol := v.getD o.vol, price := p.getD o.price } false
          { s with orders := s.orders.set id o }

def step (s : RState) : Op → RState × Res
  | .create sd vol tr p => create s sd vol tr p
  | .place id => (place s id, .unit)
  | .cap sd vol tr p =>
    match create s sd vol tr p with
    | (s, .ok id) => (place s id, .ok id)
    | r => r
  | .cancel id => (cancel s id, .unit)
  | .modify id p v => (modify s id p v, .unit)
  | .ev (.new id) => (place s id, .unit)
  | .ev (.cancel id) => (cancel s id, .unit)
  | .ev (.modify id p v) => (modify s id p v, .unit)
  | .time t => ({ s with t := t }, .unit)
  | .trading on => ({ s with trading := on }, .unit)
  | .resetVol => ({ s with tradeVol := 0 }, .unit)
  | .reload => (s, .unit)

/-- The reference engine's complete observation: every view recomputed from the order table. -/
def observe (s : RState) (nLevels : Nat) : Obs :=
  let os := s.orders
  { t := s.t, trading := s.trading, tradeVol := s.tradeVol,
    bidAsk := (Views.bestBid os, Views.bestAsk os),
    vols := (Views.sideVol os .bid, Views.sideVol os .ask),
    bidBest := Views.touch os .bid, askBest := Views.touch os .ask,
    bestVols := ((Views.touch os .bid).1, (Views.touch os .ask).1),
    bidLevels := Views.levels os s.tick .bid nLevels,
    askLevels := Views.levels os s.tick .ask nLevels,
    l1 := Views.level1 os, l2 := Views.level2 os s.tick nLevels, mid2 := some (Views.mid2 os),
    orders := os, trades := s.trades }

end Ref
end Bourse
