/-
Layer S — decidable audit predicates, one per property clause. The same
definitions are used in the theorem statements (`Props/`) and are executed by
the driver on the observations printed by the real implementation.

Each audit returns the list of clause names that FAIL (empty = all hold).
-/
import Bourse.Model.Ops
import Bourse.Spec.Views

namespace Bourse
namespace Audit

def chk (name : String) (ok : Bool) : List String := if ok then [] else [name]

/-! ### C02 — published data equals the resting orders -/

def c02Views (tick nLevels : Nat) (o : Obs) : List String :=
  let os := o.orders
  chk "bid_ask" (o.bidAsk == (Views.bestBid os, Views.bestAsk os)) ++
  chk "side_vols" (o.vols == (Views.sideVol os .bid, Views.sideVol os .ask)) ++
  chk "bid_touch" (o.bidBest == Views.touch os .bid) ++
  chk "ask_touch" (o.askBest == Views.touch os .ask) ++
  chk "best_vols" (o.bestVols == ((Views.touch os .bid).1, (Views.touch os .ask).1)) ++
  chk "bid_levels" (o.bidLevels == Views.levels os tick .bid nLevels) ++
  chk "ask_levels" (o.askLevels == Views.levels os tick .ask nLevels) ++
  chk "level1" (o.l1 == Views.level1 os) ++
  chk "level2" (o.l2 == Views.level2 os tick nLevels) ++
  chk "mid_price" (o.mid2 == some (Views.mid2 os))

/-- Never crossed as long as trading has never been disabled. -/
def c02Uncrossed (neverDisabled : Bool) (o : Obs) : List String :=
  let os := o.orders
  chk "uncrossed"
    (!neverDisabled || (Views.resting os .bid).isEmpty || (Views.resting os .ask).isEmpty
      || decide (Views.bestBid os < Views.bestAsk os))

/-! ### C03 — trade ledger -/

def tradedVolOf (trs : List Trade) (id : Nat) : Nat :=
  ((trs.filter fun tr => tr.active = id || tr.passive = id).map (·.vol)).sum

/-- The limit of order `o` admits trade price `p`. -/
def admits (o : Order) (p : Nat) : Bool :=
  match o.side with
  | .bid => decide (p ≤ o.price)
  | .ask => decide (o.price ≤ p)

/-- Volume the order with id `i` is expected to have *before fills* in this operation:
its previous volume, the volume a modification sets, or its starting volume if just created. -/
def volBase (prev next : Obs) (op : Op) (i : Nat) : Option Nat :=
  match next.orders[i]? with
  | none => none
  | some no =>
    match prev.orders[i]? with
    | none => some no.svol
    | some po =>
      let modv : Option Nat :=
        match op with
        | .modify j _ (some v) => if j = i then some v else none
        | .ev (.modify j _ (some v)) => if j = i then some v else none
        | _ => none
      match modv with
      | some v => if po.status = .active then some v else some po.vol
      | none => some po.vol

def c03Ledger (prev next : Obs) (op : Op) : List String :=
  let n := prev.trades.length
  let newT := next.trades.drop n
  chk "append_only" (next.trades.take n == prev.trades && decide (n ≤ next.trades.length)) ++
  chk "trade_time" (newT.all fun tr => tr.t = prev.t) ++
  chk "trade_positive" (newT.all fun tr => decide (tr.vol > 0)) ++
  chk "trade_passive_side_price" (newT.all fun tr =>
    match next.orders[tr.passive]? with
    | some po => po.price = tr.price && po.side = tr.side
    | none => false) ++
  chk "trade_opposite_sides" (newT.all fun tr =>
    match next.orders[tr.active]?, next.orders[tr.passive]? with
    | some a, some p => a.side = p.side.opp && tr.active ≠ tr.passive
    | _, _ => false) ++
  chk "trade_limits_admit" (newT.all fun tr =>
    match next.orders[tr.active]?, next.orders[tr.passive]? with
    | some a, some p => admits a tr.price && admits p tr.price
    | _, _ => false) ++
  -- "the ids of the aggressive and the passive order": the aggressor of every new record is the order this operation
  -- placed or re-priced, the passive one was resting (Active) before the operation
  chk "trade_roles" (newT.all fun tr =>
    let subject : Option Nat := match op with
      | .place i | .ev (.new i) | .modify i _ _ | .ev (.modify i _ _) => some i
      | .cap .. => some prev.orders.length
      | _ => none
    subject == some tr.active &&
      (match prev.orders[tr.passive]? with | some po => po.status = .active | none => false)) ++
  chk "volume_conserved" ((List.range next.orders.length).all fun i =>
    match volBase prev next op i, next.orders[i]? with
    | some base, some no => decide (base = no.vol + tradedVolOf newT i)
    | _, _ => false) ++
  chk "trade_vol_counter"
    (match op with
     | .resetVol => next.tradeVol = 0
     | _ => next.tradeVol = prev.tradeVol + (newT.map (·.vol)).sum)

/-! ### C04 — lifecycle -/

/-- Allowed status edges in one operation (including staying put). -/
def edgeOk (isMkt trading : Bool) : Status → Status → Bool
  | .new, .new => true
  | .new, .active => !isMkt
  | .new, .filled => trading
  | .new, .cancelled => isMkt && trading
  | .new, .rejected => isMkt && !trading
  | .active, .active => true
  | .active, .filled => trading
  | .active, .cancelled => true
  | .filled, .filled => true
  | .cancelled, .cancelled => true
  | .rejected, .rejected => true
  | _, _ => false

def isTerminal : Status → Bool
  | .filled | .cancelled | .rejected => true
  | _ => false

def c04Lifecycle (prev next : Obs) : List String :=
  let n := prev.orders.length
  chk "ids_dense" ((List.range next.orders.length).all fun i =>
    match next.orders[i]? with | some o => o.id = i | none => false) ++
  chk "table_grows" (decide (n ≤ next.orders.length ∧ next.orders.length ≤ n + 1)) ++
  chk "created_is_new" ((next.orders.drop n).all fun o =>
    o.status = .new || decide (o.arr = prev.t)) ++
  chk "status_edges" ((List.range n).all fun i =>
    match prev.orders[i]?, next.orders[i]? with
    | some po, some no => edgeOk (Book.isMarket po) prev.trading po.status no.status
    | _, _ => false) ++
  chk "identity_immutable" ((List.range n).all fun i =>
    match prev.orders[i]?, next.orders[i]? with
    | some po, some no => po.id = no.id && po.side = no.side && po.trader = no.trader
                          && po.svol = no.svol
    | _, _ => false) ++
  chk "arrival_is_placement_time" ((List.range n).all fun i =>
    match prev.orders[i]?, next.orders[i]? with
    | some po, some no =>
      if po.status = .new && no.status ≠ .new then no.arr = prev.t
      else if po.status ≠ .new then no.arr = po.arr else true
    | _, _ => false) ++
  chk "end_time" ((List.range next.orders.length).all fun i =>
    match next.orders[i]? with
    | none => false
    | some no =>
      if isTerminal no.status then
        match prev.orders[i]? with
        | some po => if isTerminal po.status then no.endt = po.endt else no.endt = prev.t
        | none => no.endt = prev.t
      else no.endt = MAXT)

/-- Redundant requests leave every observable unchanged. -/
def c04Noop (prev next : Obs) (op : Op) : List String :=
  let st (i : Nat) : Option Status := (prev.orders[i]?).map (·.status)
  let same := chk "noop_unchanged" (next == prev)
  match op with
  | .place i => if st i ≠ some .new && (st i).isSome then same else []
  | .ev (.new i) => if st i ≠ some .new && (st i).isSome then same else []
  | .cancel i => if st i ≠ some .active && (st i).isSome then same else []
  | .ev (.cancel i) => if st i ≠ some .active && (st i).isSome then same else []
  | .modify i _ _ => if st i ≠ some .active && (st i).isSome then same else []
  | .ev (.modify i _ _) => if st i ≠ some .active && (st i).isSome then same else []
  | .time t => chk "time_only_time" (next == { prev with t := t })
  -- creating (without placing) yields an order that is New and open-ended, whatever the state of the book
  | .create .. => chk "created_order_is_new" ((next.orders.drop prev.orders.length).all fun o =>
      o.status = .new && o.endt = MAXT)
  | _ => []

/-! ### C06 — modification -/

def setVol (os : List Order) (i v : Nat) : List Order :=
  match os[i]? with
  | some o => os.set i { o with vol := v }
  | none => os

def c06Modify (tick : Nat) (prev next : Obs) (op : Op) : List String :=
  let go (i : Nat) (p v : Option Nat) : List String :=
    match prev.orders[i]? with
    | none => []
    | some po =>
      if po.status ≠ .active then []
      else if Book.offGrid tick p then []
      else
        match p, v with
        | none, none => chk "modify_nothing_noop" (next == prev)
        | none, some nv =>
          if nv < po.vol then
            -- pure reduction: nothing but its volume and the published volumes change
            chk "reduce_only_volume" (next.orders == setVol prev.orders i nv && next.trades == prev.trades
              && next.tradeVol == prev.tradeVol && next.bidAsk == prev.bidAsk && next.t == prev.t) ++
            chk "reduce_published_volumes"
              (match po.side with
               | .bid => next.vols == (prev.vols.1 - (po.vol - nv), prev.vols.2)
               | .ask => next.vols == (prev.vols.1, prev.vols.2 - (po.vol - nv)))
          else
            chk "replace_keeps_identity" (match next.orders[i]? with
              | some no => no.id = po.id && no.side = po.side && no.trader = po.trader && no.arr = po.arr
                           && no.svol = po.svol && no.price = po.price
              | none => false)
        | some np, nv =>
          chk "replace_keeps_identity" (match next.orders[i]? with
            | some no => no.id = po.id && no.side = po.side && no.trader = po.trader && no.arr = po.arr
                         && no.svol = po.svol && no.price = np
            | none => false) ++
          chk "replace_rests_with_new_values" (match next.orders[i]? with
            | some no =>
              if next.trades.length = prev.trades.length && no.status = .active && no.price = np then
                no.vol = nv.getD po.vol
              else true
            | none => false)
  match op with
  | .modify i p v => go i p v
  | .ev (.modify i p v) => go i p v
  | _ => []

/-! ### C12 — tick grid -/

def onGrid (tick : Nat) (o : Order) : Bool := Book.isMarket o || o.price % tick = 0

def c12Grid (tick nLevels : Nat) (prev next : Obs) (op : Op) (res : Res) : List String :=
  chk "prices_on_grid" (next.orders.all (onGrid tick)) ++
  (match op, res with
   | .create _ _ _ (some p), r =>
     chk "create_ok_iff_on_grid" ((r matches .ok _) == (p % tick == 0)) ++
     (if r matches .err _ _ then chk "rejected_creation_no_trace" (next == prev) else [])
   | .cap _ _ _ (some p), r =>
     chk "create_ok_iff_on_grid" ((r matches .ok _) == (p % tick == 0)) ++
     (if r matches .err _ _ then chk "rejected_creation_no_trace" (next == prev) else [])
   | .create _ _ _ none, r => chk "market_always_created" (r matches .ok _)
   | .cap _ _ _ none, r => chk "market_always_created" (r matches .ok _)
   | _, _ => []) ++
  -- an accepted creation gets the next dense id (a rejected one consumed none)
  (match op, res with
   | .create .., .ok id => chk "created_id_is_next" (id == prev.orders.length && next.orders.length == prev.orders.length + 1)
   | .cap .., .ok id => chk "created_id_is_next" (id == prev.orders.length && next.orders.length == prev.orders.length + 1)
   | _, _ => []) ++
  chk "levels_account_bid"
    (((next.bidLevels.map (·.1)).sum) == Views.volWithin next.orders tick .bid nLevels) ++
  chk "levels_account_ask"
    (((next.askLevels.map (·.1)).sum) == Views.volWithin next.orders tick .ask nLevels)

/-! ### C13 — trading disabled -/

def c13NoTrading (prev next : Obs) (op : Op) : List String :=
  let toggles :=
    match op with
    | .trading on => chk "toggle_only_flag" (next == { prev with trading := on })
    | _ => []
  if prev.trading then toggles
  else
    toggles ++
    chk "no_trades_while_disabled" (next.trades == prev.trades && next.tradeVol ==
      (match op with | .resetVol => 0 | _ => prev.tradeVol)) ++
    chk "placed_while_disabled" ((List.range next.orders.length).all fun i =>
      match next.orders[i]? with
      | none => false
      | some no =>
        let wasNew := match prev.orders[i]? with
          | some po => po.status = .new
          | none => true
        if wasNew && no.status ≠ .new then
          if Book.isMarket no then no.status = .rejected && no.vol = no.svol
          else no.status = .active && no.vol = no.svol
        else true)

end Audit
end Bourse
