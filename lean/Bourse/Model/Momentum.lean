/-
The decision skeleton of `MomentumAgent` / `MomentumMarketAgent` (`agents/momentum_agent.rs`) over
exact rationals. The float part (`tanh`) is a parameter `th`; theorems quantify over every odd,
sign-preserving `th`.
-/
namespace Bourse
namespace Momentum

/-- `M' = m (1 - decay) + decay (P - p)`. -/
def nextM (decay m p P : Rat) : Rat := m * (1 - decay) + decay * (P - p)

/-- The momentum signal at every update of a mid-price path: the first update has no previous
price (`M = 0`), afterwards the recurrence. -/
def signalsFrom (decay : Rat) : Rat → Rat → List Rat → List Rat
  | _, _, [] => []
  | m, p, P :: rest => nextM decay m p P :: signalsFrom decay (nextM decay m p P) P rest

def signals (decay : Rat) : List Rat → List Rat
  | [] => []
  | P :: rest => 0 :: signalsFrom decay 0 P rest

/-- The trade probability `|demand · th(scale · M) / n|`. -/
def absR (x : Rat) : Rat := if x < 0 then -x else x

def pMarket (th : Rat → Rat) (demand scale n m : Rat) : Rat := absR (demand * th (scale * m) / n)

inductive Action where
  | buy | sell | nothing
  deriving DecidableEq, Repr

/-- One trader's market-order decision given the uniform draw `u ∈ [0, 1)`. -/
def decide (p m u : Rat) : Action :=
  if u < p then (if m > 0 then .buy else if m < 0 then .sell else .nothing) else .nothing

/-- In the saturated regime (market-order probability `pm ≥ 1` whenever `M ≠ 0`) the per-step counts
`(market buys, market sells, limit buys, limit sells)` of `n` traders are determined, provided the
limit-order probability `ratio · pm` is 0 or at least 1 too. -/
def expected (saturated : Bool) (n : Nat) (ratio pm m : Rat) : Option (Nat × Nat × Nat × Nat) :=
  if !saturated then none
  else if ratio != 0 && ratio * pm < 1 then none
  else
    let l := if ratio == 0 then 0 else n
    if m > 0 then some (n, 0, l, 0) else if m < 0 then some (0, n, 0, l) else some (0, 0, 0, 0)

end Momentum
end Bourse
