/-
Layer I — JSON snapshots (`orderbook.rs`: `#[serde(skip_serializing)]` on both sides,
`TryFrom<OrderBookState>`). The JSON text itself is opaque: `save` is the record of the fields
that are serialised, `load` rebuilds both side indexes from the order table.
-/
import Bourse.Model.Book

namespace Bourse

/-- The serialised fields (`OrderBookState`). -/
structure Snap where
  t        : Nat
  tick     : Nat
  tradeVol : Nat
  stamp    : Nat
  orders   : List Entry
  trades   : List Trade
  trading  : Bool
  deriving DecidableEq, Repr, Inhabited

namespace Book

def save (b : Book) : Snap :=
  { t := b.t, tick := b.tick, tradeVol := b.tradeVol, stamp := b.stamp, orders := b.orders,
    trades := b.trades, trading := b.trading }

/-- One iteration of the rebuild loop of `try_from`: an Active entry is re-inserted on the side
of its order under its stored key with its *remaining* volume; the stamp counter is kept above
every stored stamp. -/
def loadStep (acc : SideS × SideS × Nat) (e : Entry) : SideS × SideS × Nat :=
  if e.order.status = .active then
    let st := max acc.2.2 (e.key.st + 1)
    match e.order.side with
    | .bid => (acc.1.insertOrder e.key.pk e.key.st e.order.id e.order.vol, acc.2.1, st)
    | .ask => (acc.1, acc.2.1.insertOrder e.key.pk e.key.st e.order.id e.order.vol, st)
  else acc

def load (s : Snap) : Book :=
  let r := s.orders.foldl loadStep (SideS.empty, SideS.empty, s.stamp)
  { t := s.t, tick := s.tick, tradeVol := s.tradeVol, stamp := r.2.2, ask := r.2.1, bid := r.1,
    orders := s.orders, trades := s.trades, trading := s.trading, fault := false }

def reload (b : Book) : Book := load (save b)

/-! ### Stamp shift

A snapshot in which `k` has been added to the stamp counter and to the stamp of every stored key:
the snapshot of the state that `k` further queue insertions — by orders that have since left the
book — would have produced (up to their dead records). `Lemmas/StampShift` proves that loading it
yields a book that satisfies the invariant, has the same abstraction (queues read in key order) and is
therefore observationally the original under every continuation. -/

def _root_.Bourse.Entry.shift (k : Nat) (e : Entry) : Entry := { e with key := { e.key with st := e.key.st + k } }

def _root_.Bourse.Snap.shift (k : Nat) (s : Snap) : Snap :=
  { s with stamp := s.stamp + k, orders := s.orders.map (Entry.shift k) }

def _root_.Bourse.SideS.shift (k : Nat) (s : SideS) : SideS :=
  { s with orders := s.orders.map (fun e => ((e.1.1, e.1.2 + k), e.2)) }

/-- Every stamp of the live state moved up by `k`. -/
def shift (k : Nat) (b : Book) : Book :=
  { b with stamp := b.stamp + k, orders := b.orders.map (Entry.shift k), bid := b.bid.shift k, ask := b.ask.shift k }

/-- The harness's `jump k`: save, add `k` to every stamp of the snapshot, load. -/
def reloadShift (k : Nat) (b : Book) : Book := load ((save b).shift k)

end Book
end Bourse
