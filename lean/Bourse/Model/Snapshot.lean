/-
Layer I — JSON snapshots (`orderbook.rs`: `#[serde(skip_serializing)]` on both sides,
`TryFrom<OrderBookState>`). The JSON text itself is opaque: `save` is the record of the fields
that are serialised, `load` rebuilds both side indexes from the order table.
-/
import Bourse.Model.Book

namespace Bourse

/-- The serialised fields (`OrderBookState`). -/
structure Snap where
  t        : Nat
  tick     : Nat
  tradeVol : Nat
  stamp    : Nat
  orders   : List Entry
  trades   : List Trade
  trading  : Bool
  deriving DecidableEq, Repr, Inhabited

namespace Book

def save (b : Book) : Snap :=
  { t := b.t, tick := b.tick, tradeVol := b.tradeVol, stamp := b.stamp, orders := b.orders,
    trades := b.trades, trading := b.trading }

/-- One iteration of the rebuild loop of `try_from`: an Active entry is re-inserted on the side
of its order under its stored key with its *remaining* volume; the stamp counter is kept above
every stored stamp. -/
def loadStep (acc : SideS × SideS × Nat) (e : Entry) : SideS × SideS × Nat :=
  if e.order.status = .active then
    let st := max acc.2.2 (e.key.st + 1)
    match e.order.side with
    | .bid => (acc.1.insertOrder e.key.pk e.key.st e.order.id e.order.vol, acc.2.1, st)
    | .ask => (acc.1, acc.2.1.insertOrder e.key.pk e.key.st e.order.id e.order.vol, st)
  else acc

def load (s : Snap) : Book :=
  let r := s.orders.foldl loadStep (SideS.empty, SideS.empty, s.stamp)
  { t := s.t, tick := s.tick, tradeVol := s.tradeVol, stamp := r.2.2, ask := r.2.1, bid := r.1,
    orders := s.orders, trades := s.trades, trading := s.trading, fault := false }

def reload (b : Book) : Book := load (save b)

end Book
end Bourse
