/-
`std::collections::BTreeMap` modelled as an association list kept strictly
sorted by key. `insert` overwrites on an equal key (that is what `BTreeMap`
does, and what made the tie defect of C05 visible).
-/
namespace Bourse

/-- Keys: a type with a decidable strict order given as a Boolean function. -/
class KeyOrd (K : Type) where
  lt : K → K → Bool

instance : KeyOrd Nat := ⟨fun a b => decide (a < b)⟩

/-- Lexicographic order on `(price key, stamp)`. -/
instance : KeyOrd (Nat × Nat) :=
  ⟨fun a b => decide (a.1 < b.1) || (decide (a.1 = b.1) && decide (a.2 < b.2))⟩

abbrev SMap (K V : Type) := List (K × V)

namespace SMap
variable {K V : Type} [KeyOrd K]

def insert (k : K) (v : V) : SMap K V → SMap K V
  | [] => [(k, v)]
  | (k', v') :: r =>
    if KeyOrd.lt k k' then (k, v) :: (k', v') :: r
    else if KeyOrd.lt k' k then (k', v') :: insert k v r
    else (k, v) :: r

def erase (k : K) : SMap K V → SMap K V
  | [] => []
  | (k', v') :: r =>
    if KeyOrd.lt k k' then (k', v') :: r
    else if KeyOrd.lt k' k then (k', v') :: erase k r
    else r

def find? (k : K) : SMap K V → Option V
  | [] => none
  | (k', v') :: r =>
    if KeyOrd.lt k k' then none
    else if KeyOrd.lt k' k then find? k r
    else some v'

/-- `first_key_value`. -/
def first? : SMap K V → Option (K × V)
  | [] => none
  | e :: _ => some e

end SMap
end Bourse
