/-
`rand_xoshiro 0.6.0` `Xoroshiro128StarStar` (with the `SplitMix64` seeding of `seed_from_u64`)
and the parts of `rand 0.8.5` bourse uses, transcribed from the vendored sources:
`next_u32` = low half of `next_u64`; `gen_range(0..n)` for `u32` = widening-multiply rejection
with `zone = (range << range.leading_zeros()) - 1`; `slice.shuffle` = Durstenfeld
`for i in (1..len).rev() { swap(i, gen_index(i + 1)) }`.
-/
namespace Bourse

structure Xoro where
  s0 : UInt64
  s1 : UInt64
  deriving DecidableEq, Repr, Inhabited

namespace Xoro

def rotl (x : UInt64) (k : UInt64) : UInt64 := (x <<< k) ||| (x >>> (64 - k))

/-- One `SplitMix64::next_u64`: returns (new state, output). -/
def splitmix (x : UInt64) : UInt64 × UInt64 :=
  let x := x + 0x9e3779b97f4a7c15
  let z := x
  let z := (z ^^^ (z >>> 30)) * 0xbf58476d1ce4e5b9
  let z := (z ^^^ (z >>> 27)) * 0x94d049bb133111eb
  (x, z ^^^ (z >>> 31))

/-- `Xoroshiro128StarStar::seed_from_u64`. -/
def seed (s : UInt64) : Xoro :=
  let (x1, a) := splitmix s
  let (_, b) := splitmix x1
  { s0 := a, s1 := b }

/-- `next_u64`: (output, new state). -/
def next (g : Xoro) : UInt64 × Xoro :=
  let r := rotl (g.s0 * 5) 7 * 9
  let s1 := g.s1 ^^^ g.s0
  let s0 := rotl g.s0 24 ^^^ s1 ^^^ (s1 <<< 16)
  (r, { s0 := s0, s1 := rotl s1 37 })

/-- `next_u32` = `next_u64() as u32`. -/
def next32 (g : Xoro) : Nat × Xoro :=
  let (r, g) := g.next
  (r.toNat % 4294967296, g)

/-- `u32::leading_zeros` of a non-zero value below 2^32. -/
def lz32 (n : Nat) : Nat := 32 - Nat.log2 n - 1

/-- The acceptance zone of `UniformInt::<u32>::sample_single_inclusive` for `range`. -/
def zone (range : Nat) : Nat := (range * 2 ^ lz32 range) % 4294967296 - 1

/-- Given one `u32` draw `v`: the widening multiply `(hi, lo)` and whether it is accepted. -/
def accept (range v : Nat) : Option Nat :=
  let m := v * range
  if m % 4294967296 ≤ zone range then some (m / 4294967296) else none

/-- `rng.gen_range(0..range)` for `u32`, `0 < range < 2^32`. The rejection loop takes fuel;
the probability of a rejection is < 1/2 per draw. Returns `none` only if fuel runs out. -/
def genRange (range : Nat) : Nat → Xoro → Option (Nat × Xoro)
  | 0, _ => none
  | fuel + 1, g =>
    let (v, g') := g.next32
    match accept range v with
    | some k => some (k, g')
    | none => genRange range fuel g'

def FUEL : Nat := 256

/-- swap positions `i` and `j` of a list. -/
def swap {α} (l : List α) (i j : Nat) : List α :=
  match l[i]?, l[j]? with
  | some a, some b => (l.set i b).set j a
  | _, _ => l

/-- `shuffle`: `for i in (1..len).rev() { swap(i, gen_index(rng, i + 1)) }`. `i` counts down
from `len - 1` to `1`. -/
def shuffleFrom {α} : (i : Nat) → List α → Xoro → Option (List α × Xoro)
  | 0, l, g => some (l, g)
  | i + 1, l, g =>
    match genRange (i + 2) FUEL g with
    | none => none
    | some (j, g') => shuffleFrom i (swap l (i + 1) j) g'

def shuffle {α} (l : List α) (g : Xoro) : Option (List α × Xoro) :=
  shuffleFrom (l.length - 1) l g

end Xoro
end Bourse
