/-
Layer I — the noise and momentum agents of `crates/step_sim/src/agents/{noise_agent,momentum_agent,
common}.rs`, whole `update` calls, with the floating-point arithmetic of `Model/F64.lean`
(correctly rounded `f64`, exact `f32` constants) and the exact generator `Xoro`.

Two library functions are *parameters* of the model, because their value is not an arithmetic fact
the model could compute:

* `smp : Xoro → F × Xoro` — `LogNormal::<f64>::sample(rng)`: a deterministic function of the
  generator state returning a value and the generator state after its draws;
* `th : F → F` — libm's `f64::tanh`.

Every theorem about these agents quantifies over all such functions; the correspondence check
instantiates them with tables recorded from the real library calls during the real `update`.

The single-asset agents (`NoiseAgent`, `MomentumAgent` on `Env`) and the multi-asset ones
(`NoiseMarketAgent`, `MomentumMarketAgent` on `MarketEnv`) are the same code up to the asset index
(`Env` is modelled as a one-book `MEnv`), so one definition with an `asset` field covers both.
`none` = the Rust code panics (`unwrap()` of a `PriceError`, unknown order id).
-/
import Bourse.Model.Agents
import Bourse.Model.F64

namespace Bourse
namespace FAgents

abbrev Sampler := Xoro → F × Xoro

/-- `a ≥ b` on `f64`/`f32` values (false if either is NaN). -/
def ge (a b : F) : Bool := F64.lt b a || (a == b && a != .nan)

/-- `rng.gen::<f32>()` as an exact value: `(next_u32 >> 8) · 2^-24`. -/
def genF32 (g : Xoro) : F × Xoro :=
  let (k, g) := g.genF32
  (.fin ((k : Rat) / 16777216), g)

/-- `rng.gen::<f64>()`: `(next_u64 >> 11) · 2^-53`. -/
def genF64 (g : Xoro) : F × Xoro :=
  let (v, g) := g.next
  (.fin (((v.toNat / 2048 : Nat) : Rat) / 9007199254740992), g)

/-- `rng.gen_bool(0.5)`: `Bernoulli::new(0.5)` has `p_int = 2^63`; the sample is `next_u64 < p_int`. -/
def genBoolHalf (g : Xoro) : Bool × Xoro :=
  let (v, g) := g.next
  (decide (v.toNat < 9223372036854775808), g)

/-! ### `common.rs` in `f64` -/

def MAXPF : Rat := 4294967295

/-- `round_price_down(p, tick_size)`. -/
def roundDown (p tick : F) : Nat :=
  F64.toU32 (F64.clamp (F64.mul (F64.floor (F64.div p tick)) tick) 0 MAXPF)

/-- `round_price_up(p, tick_size)`. -/
def roundUp (p tick : F) : Nat :=
  F64.toU32 (F64.clamp (F64.mul (F64.ceil (F64.div p tick)) tick) 0 MAXPF)

/-- The limit price of `place_buy_limit_order`: `round_price_down(mid − |dist|, tick)`. -/
def buyPrice (mid dist : F) (tick : Nat) : Nat :=
  roundDown (F64.sub mid (F64.abs dist)) (F64.ofNat tick)

/-- The limit price of `place_sell_limit_order`: `round_price_up(mid + |dist|, tick)`, then
`price − price % (tick as Price)`. -/
def sellPrice (mid dist : F) (tick : Nat) : Nat :=
  let p := roundUp (F64.add mid (F64.abs dist)) (F64.ofNat tick)
  p - p % tick

/-- The mid-price an agent reads: `bid + 0.5·(ask − bid)`, exact in `f64` for `u32` touch prices. -/
def midOf (e : MEnv) (a : Nat) : Option F :=
  (e.market.books[a]?).map fun b => .fin ((b.mid2 : Rat) / 2)

/-- `cancel_live_orders(_market)`: keep the orders that are Active as the agent looks; draw one
`f32` per such order, in order; those with `draw ≥ p_cancel` stay, the others are cancelled
(cancellations are queued after all draws). Returns the surviving orders. -/
def partitionLive (e : MEnv) (a : Nat) (pCancel : F) :
    List Nat → Xoro → Option (List Nat × List Nat × Xoro)
  | [], g => some ([], [], g)
  | id :: rest, g =>
    match RandomAgents.orderStatus e a id with
    | none => none                     -- `env.order_status` of an unknown id
    | some st =>
      if st == .active then
        let (u, g1) := genF32 g
        match partitionLive e a pCancel rest g1 with
        | none => none
        | some (live, canc, g2) => if ge u pCancel then some (id :: live, canc, g2) else some (live, id :: canc, g2)
      else partitionLive e a pCancel rest g

def cancelAll (e : MEnv) (a : Nat) : List Nat → MEnv
  | [] => e
  | id :: rest => cancelAll (e.cancelOrder a id) a rest

def cancelLive (e : MEnv) (a : Nat) (pCancel : F) (orders : List Nat) (g : Xoro) :
    Option (List Nat × MEnv × Xoro) :=
  (partitionLive e a pCancel orders g).map fun (live, canc, g) => (live, cancelAll e a canc, g)

/-- Submit a limit order and `unwrap()` the result. -/
def submitLimit (e : MEnv) (a : Nat) (sd : Side) (vol tr price : Nat) : Option (Nat × MEnv) :=
  match (e.placeOrder a sd vol tr (some price)).2 with
  | .ok id => some (id, (e.placeOrder a sd vol tr (some price)).1)
  | _ => none

/-- Submit a market order and `unwrap()` the result. -/
def submitMarket (e : MEnv) (a : Nat) (sd : Side) (vol tr : Nat) : Option MEnv :=
  match (e.placeOrder a sd vol tr none).2 with
  | .ok _ => some (e.placeOrder a sd vol tr none).1
  | _ => none

/-! ### `NoiseAgent` / `NoiseMarketAgent` -/

structure NoiseP where
  asset   : Nat
  tick    : Nat
  vol     : Nat
  traders : List Nat
  pLimit  : F
  pMarket : F
  pCancel : F
  deriving Repr, Inhabited

/-- The body of the trader loop. -/
def noiseTrader (c : NoiseP) (smp : Sampler) (mid : F) (tr : Nat) (live : List Nat) (e : MEnv) (g : Xoro) :
    Option (List Nat × MEnv × Xoro) :=
  let (u1, g) := genF32 g
  let afterLimit : Option (List Nat × MEnv × Xoro) :=
    if F64.lt u1 c.pLimit then
      let (isBuy, g) := genBoolHalf g
      let (d, g) := smp g
      let r := if isBuy then submitLimit e c.asset .bid c.vol tr (buyPrice mid d c.tick)
               else submitLimit e c.asset .ask c.vol tr (sellPrice mid d c.tick)
      r.map fun (id, e) => (live ++ [id], e, g)
    else some (live, e, g)
  match afterLimit with
  | none => none
  | some (live, e, g) =>
    let (u2, g) := genF32 g
    if F64.lt u2 c.pMarket then
      let (isBuy, g) := genBoolHalf g
      (submitMarket e c.asset (if isBuy then .bid else .ask) c.vol tr).map fun e => (live, e, g)
    else some (live, e, g)

def noiseLoop (c : NoiseP) (smp : Sampler) (mid : F) :
    List Nat → List Nat → MEnv → Xoro → Option (List Nat × MEnv × Xoro)
  | [], live, e, g => some (live, e, g)
  | tr :: rest, live, e, g =>
    match noiseTrader c smp mid tr live e g with
    | none => none
    | some (live, e, g) => noiseLoop c smp mid rest live e g

/-- `NoiseAgent::update`: the agent state is the list of orders it tracks. -/
def noiseUpdate (c : NoiseP) (smp : Sampler) (orders : List Nat) (e : MEnv) (g : Xoro) :
    Option (List Nat × MEnv × Xoro) :=
  match cancelLive e c.asset c.pCancel orders g with
  | none => none
  | some (live, e1, g1) =>
    match midOf e1 c.asset with
    | none => none
    | some mid => noiseLoop c smp mid c.traders live e1 g1

/-! ### `MomentumAgent` / `MomentumMarketAgent` -/

structure MomP where
  asset   : Nat
  tick    : Nat
  vol     : Nat
  traders : List Nat
  pCancel : F
  decay   : F
  demand  : F
  scale   : F
  ratio   : F
  /-- `n_agents as f64` -/
  n       : Nat
  deriving Repr, Inhabited

structure MomState where
  orders : List Nat
  last   : Option F
  m      : F
  deriving Repr, Inhabited

def MomState.init : MomState := { orders := [], last := none, m := .fin 0 }

/-- `momentum·(1 − decay) + decay·(mid − p)`, each operation rounded. -/
def nextM (c : MomP) (m p mid : F) : F :=
  F64.add (F64.mul m (F64.sub (.fin 1) c.decay)) (F64.mul c.decay (F64.sub mid p))

/-- `(demand · tanh(scale · m) / n).abs()`. -/
def pMarket (c : MomP) (th : F → F) (m : F) : F :=
  F64.abs (F64.div (F64.mul c.demand (th (F64.mul c.scale m))) (F64.ofNat c.n))

/-- The signal and the two probabilities of this update. -/
def signal (c : MomP) (th : F → F) (s : MomState) (mid : F) : F × F × F :=
  match s.last with
  | some p =>
    let m := nextM c s.m p mid
    let pm := pMarket c th m
    (m, pm, F64.mul c.ratio pm)
  | none => (.fin 0, .fin 0, F64.mul c.ratio (.fin 0))

def momTrader (c : MomP) (smp : Sampler) (mid m pLimit pMarket : F) (tr : Nat) (live : List Nat) (e : MEnv) (g : Xoro) :
    Option (List Nat × MEnv × Xoro) :=
  let (u1, g) := genF64 g
  let afterLimit : Option (List Nat × MEnv × Xoro) :=
    if F64.lt u1 pLimit then
      if F64.lt (.fin 0) m then
        let (d, g) := smp g
        (submitLimit e c.asset .bid c.vol tr (buyPrice mid d c.tick)).map fun (id, e) => (live ++ [id], e, g)
      else if F64.lt m (.fin 0) then
        let (d, g) := smp g
        (submitLimit e c.asset .ask c.vol tr (sellPrice mid d c.tick)).map fun (id, e) => (live ++ [id], e, g)
      else some (live, e, g)
    else some (live, e, g)
  match afterLimit with
  | none => none
  | some (live, e, g) =>
    let (u2, g) := genF64 g
    if F64.lt u2 pMarket then
      if F64.lt (.fin 0) m then (submitMarket e c.asset .bid c.vol tr).map fun e => (live, e, g)
      else if F64.lt m (.fin 0) then (submitMarket e c.asset .ask c.vol tr).map fun e => (live, e, g)
      else some (live, e, g)
    else some (live, e, g)

def momLoop (c : MomP) (smp : Sampler) (mid m pLimit pMarket : F) :
    List Nat → List Nat → MEnv → Xoro → Option (List Nat × MEnv × Xoro)
  | [], live, e, g => some (live, e, g)
  | tr :: rest, live, e, g =>
    match momTrader c smp mid m pLimit pMarket tr live e g with
    | none => none
    | some (live, e, g) => momLoop c smp mid m pLimit pMarket rest live e g

/-- `MomentumAgent::update`. -/
def momUpdate (c : MomP) (smp : Sampler) (th : F → F) (s : MomState) (e : MEnv) (g : Xoro) :
    Option (MomState × MEnv × Xoro) :=
  match cancelLive e c.asset c.pCancel s.orders g with
  | none => none
  | some (live, e1, g1) =>
    match midOf e1 c.asset with
    | none => none
    | some mid =>
      let (m, pm, pl) := signal c th s mid
      (momLoop c smp mid m pl pm c.traders live e1 g1).map fun (live, e, g) =>
        ({ orders := live, last := some mid, m := m }, e, g)

end FAgents
end Bourse
