/-
Layer I — `crates/step_sim/src/agents/random_agent.rs` (integer-exact) and
`crates/step_sim/src/runner.rs`: a simulation is a fold that threads ONE generator through
`agents.update` and `env.step`.
-/
import Bourse.Model.Env

namespace Bourse

/-- `RandomAgents` / `RandomMarketAgents` (the latter carries the asset index).
`activity_rate` is the fraction `rateNum / rateDen`. -/
structure RandomAgents where
  asset    : Nat
  orders   : List (Option Nat)
  tickLo   : Nat
  tickHi   : Nat
  volLo    : Nat
  volHi    : Nat
  tickSize : Nat
  rateNum  : Nat
  rateDen  : Nat
  deriving DecidableEq, Repr, Inhabited

namespace Xoro

/-- `rng.gen::<f32>()` = `(next_u32() >> 8) · 2^-24`: the numerator. -/
def genF32 (g : Xoro) : Nat × Xoro :=
  let (v, g) := g.next32
  (v / 256, g)

/-- `rng.gen_range(lo..hi)` for `u32`. -/
def genRangeLoHi (lo hi : Nat) (g : Xoro) : Option (Nat × Xoro) :=
  if hi ≤ lo then none else (genRange (hi - lo) FUEL g).map fun r => (lo + r.1, r.2)

end Xoro

namespace RandomAgents

def orderStatus (e : MEnv) (a id : Nat) : Option Status :=
  (e.market.books[a]?).bind fun b => (b.orders[id]?).map (·.order.status)

/-- Does the trader hold an order that is Active as it looks? -/
def holdsActive (e : MEnv) (a : Nat) : Option Nat → Bool
  | some id => orderStatus e a id == some .active
  | none => false

/-- The placement branch: side, tick and volume drawn in this order; the order is submitted with
price `tick * tick_size` and the trader's index as trader id. `none` = the Rust code panics. -/
def placeRandom (c : RandomAgents) (n : Nat) (e : MEnv) (g : Xoro) : Option (Option Nat × MEnv × Xoro) :=
  -- `[Side::Ask, Side::Bid].choose(rng)`
  match Xoro.genRange 2 Xoro.FUEL g with
  | none => none
  | some (si, g) =>
    match Xoro.genRangeLoHi c.tickLo c.tickHi g with
    | none => none
    | some (tick, g) =>
      match Xoro.genRangeLoHi c.volLo c.volHi g with
      | none => none
      | some (vol, g) =>
        match (e.placeOrder c.asset (if si = 0 then .ask else .bid) vol n (some (tick * c.tickSize))).2 with
        | .ok id => some (some id, (e.placeOrder c.asset (if si = 0 then .ask else .bid) vol n (some (tick * c.tickSize))).1, g)
        | _ => none            -- `.unwrap()` of a `PriceError`

/-- The closure of `update` for trader `n` holding `cur`. `none` = the Rust code panics. -/
def updateOne (c : RandomAgents) (n : Nat) (cur : Option Nat) (e : MEnv) (g : Xoro) :
    Option (Option Nat × MEnv × Xoro) :=
  -- `p < activity_rate`
  if g.genF32.1 * c.rateDen < c.rateNum * 16777216 then
    if holdsActive e c.asset cur then some (none, e.cancelOrder c.asset (cur.getD 0), g.genF32.2)
    else placeRandom c n e g.genF32.2
  else some (cur, e, g.genF32.2)

/-- The trader loop, with the per-trader closure as a parameter (so that its unfolding lemmas do not
depend on the closure's body). -/
def updateFromWith (f : Nat → Option Nat → MEnv → Xoro → Option (Option Nat × MEnv × Xoro)) :
    Nat → List (Option Nat) → MEnv → Xoro → Option (List (Option Nat) × MEnv × Xoro)
  | _, [], e, g => some ([], e, g)
  | n, cur :: rest, e, g =>
    match f n cur e g with
    | none => none
    | some (o, e, g) =>
      match updateFromWith f (n + 1) rest e g with
      | none => none
      | some (os, e, g) => some (o :: os, e, g)

def updateFrom (c : RandomAgents) : Nat → List (Option Nat) → MEnv → Xoro → Option (List (Option Nat) × MEnv × Xoro) :=
  updateFromWith (updateOne c)

/-- `Agent::update`. -/
def update (c : RandomAgents) (e : MEnv) (g : Xoro) : Option (RandomAgents × MEnv × Xoro) :=
  (updateFrom c 0 c.orders e g).map fun r => ({ c with orders := r.1 }, r.2.1, r.2.2)

end RandomAgents

/-- A derived agent set: every member is updated once, in declaration order, on the shared
environment and generator. -/
def updateAll : List RandomAgents → MEnv → Xoro → Option (List RandomAgents × MEnv × Xoro)
  | [], e, g => some ([], e, g)
  | a :: rest, e, g =>
    match a.update e g with
    | none => none
    | some (a, e, g) =>
      match updateAll rest e g with
      | none => none
      | some (as, e, g) => some (a :: as, e, g)

/-- `sim_runner` / `market_sim_runner`: `for _ in 0..n_steps { agents.update(env, rng); env.step(rng) }`. -/
def simLoop : Nat → List RandomAgents → MEnv → Xoro → Option (List RandomAgents × MEnv × Xoro)
  | 0, as, e, g => some (as, e, g)
  | n + 1, as, e, g =>
    match updateAll as e g with
    | none => none
    | some (as, e, g) =>
      let (e, g) := e.step g
      simLoop n as e g

def simRunner (e : MEnv) (as : List RandomAgents) (seed : Nat) (steps : Nat) :
    Option (List RandomAgents × MEnv × Xoro) :=
  simLoop steps as e (Xoro.seed (UInt64.ofNat seed))

end Bourse
