/-
The operation alphabet of the book-level line protocol, the model's `step`
and the complete observation both sides print after every operation.
-/
import Bourse.Model.Book
import Bourse.Model.Snapshot

namespace Bourse

inductive Op where
  | create (sd : Side) (vol trader : Nat) (price : Option Nat)
  | place (id : Nat)
  | cap (sd : Side) (vol trader : Nat) (price : Option Nat)
  | cancel (id : Nat)
  | modify (id : Nat) (price vol : Option Nat)
  | ev (e : Event)
  | time (t : Nat)
  | trading (on : Bool)
  | resetVol
  /-- snapshot round trip: `load (save s)` -/
  | reload
  deriving DecidableEq, Repr, Inhabited

inductive Res where
  | unit
  | ok (id : Nat)
  | err (price tick : Nat)
  | panic
  deriving DecidableEq, Repr, Inhabited

def Res.ofCreate : Book.CreateResult → Res
  | .ok id => .ok id
  | .priceError p t => .err p t

namespace Book

def step (b : Book) : Op → Book × Res
  | .create sd vol tr p => let (b, r) := b.createOrder sd vol tr p; (b, .ofCreate r)
  | .place id => (b.placeOrder id, .unit)
  | .cap sd vol tr p => let (b, r) := b.createAndPlace sd vol tr p; (b, .ofCreate r)
  | .cancel id => (b.cancelOrder id, .unit)
  | .modify id p v => (b.modifyOrder id p v, .unit)
  | .ev e => (b.processEvent e, .unit)
  | .time t => (b.setTime t, .unit)
  | .trading true => (b.enableTrading, .unit)
  | .trading false => (b.disableTrading, .unit)
  | .resetVol => (b.resetTradeVol, .unit)
  | .reload => (if b.faulted then b else b.reload, .unit)

def run (b : Book) (ops : List Op) : Book := ops.foldl (fun b op => (b.step op).1) b

end Book

/-- Everything observable through the public API after an operation. -/
structure Obs where
  t          : Nat
  trading    : Bool
  tradeVol   : Nat
  bidAsk     : Nat × Nat
  vols       : Nat × Nat
  bidBest    : Nat × Nat
  askBest    : Nat × Nat
  bestVols   : Nat × Nat
  bidLevels  : List (Nat × Nat)
  askLevels  : List (Nat × Nat)
  l1         : Level1
  l2         : Level2
  mid2       : Option Nat
  orders     : List Order
  trades     : List Trade
  deriving DecidableEq, Repr, Inhabited

def Book.observe (b : Book) (nLevels : Nat) : Obs :=
  { t := b.t, trading := b.trading, tradeVol := b.tradeVol, bidAsk := b.bidAsk,
    vols := (b.bidVol, b.askVol), bidBest := b.bidBestVolAndOrders, askBest := b.askBestVolAndOrders,
    bestVols := (b.bidBestVol, b.askBestVol),
    bidLevels := b.bidLevels nLevels, askLevels := b.askLevels nLevels,
    l1 := b.level1, l2 := b.level2 nLevels, mid2 := some b.mid2,
    orders := b.orders.map (·.order), trades := b.trades }

end Bourse
