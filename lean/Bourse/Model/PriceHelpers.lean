/-
Layer I — the price helpers of `crates/step_sim/src/agents/common.rs` in exact rational
arithmetic: `round_price_down`, `round_price_up` (floor / ceil to the tick, clamp to
`[0, Price::MAX]`, saturating cast) and the limit prices of `place_buy_limit_order` /
`place_sell_limit_order` (and their multi-asset twins, which compute the same prices).

The Rust computes in `f64`. On dyadic inputs with few fractional bits and magnitude below 2^52 —
mid-prices are half-integers — every intermediate value is exactly representable or, for the
division by the tick size, rounds to a value with the same floor / ceiling, so the two agree
exactly; the correspondence check compares them on such inputs (and on `+∞`, `none` here).
-/
import Bourse.Model.Types

namespace Bourse
namespace Helpers

/-- `p.clamp(0.0, Price::MAX.into()) as Price` of an integral value. -/
def clampPrice (x : Int) : Nat :=
  if x < 0 then 0 else if x > (MAXP : Int) then MAXP else x.toNat

/-- `round_price_down(p, tick_size)`; `none` is `+∞`. -/
def roundPriceDown (p : Option Rat) (tick : Nat) : Nat :=
  match p with
  | none => MAXP
  | some p => clampPrice ((p / (tick : Rat)).floor * (tick : Int))

/-- `round_price_up(p, tick_size)`; `none` is `+∞`. -/
def roundPriceUp (p : Option Rat) (tick : Nat) : Nat :=
  match p with
  | none => MAXP
  | some p => clampPrice ((p / (tick : Rat)).ceil * (tick : Int))

def absR (x : Rat) : Rat := if x < 0 then -x else x

/-- The limit price of `place_buy_limit_order`: `round_price_down(mid - |dist|)`. A sample of `+∞`
(`none`) gives `-∞`, clamped to 0. -/
def buyPrice (mid : Rat) (dist : Option Rat) (tick : Nat) : Nat :=
  match dist with
  | none => 0
  | some d => roundPriceDown (some (mid - absR d)) tick

/-- The limit price of `place_sell_limit_order`: `round_price_up(mid + |dist|)`, then brought back
onto the grid (`price - price % tick`) in case the clamp to `Price::MAX` left it. -/
def sellPrice (mid : Rat) (dist : Option Rat) (tick : Nat) : Nat :=
  let p := roundPriceUp (dist.map fun d => mid + absR d) tick
  p - p % tick

end Helpers
end Bourse
