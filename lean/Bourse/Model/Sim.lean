/-
Layer I — a whole simulation with ANY composition of the built-in agents: `sim_runner` /
`market_sim_runner` (`crates/step_sim/src/runner.rs`) over random, noise and momentum agents
(`agents/*.rs`) combined through the derive macros (`crates/macros`), nested sets included.

`Model/Agents.simLoop` is the same loop for random agents only (it is the one the bit-exact
prediction of real runs uses); `simLoopG` here covers every agent kind. The samplers and `tanh` are
parameters, as in `Model/FloatAgents`.
-/
import Bourse.Model.FloatAgents

namespace Bourse

mutual
/-- One built-in agent with its parameters, its price sampler and its private state — or a derived
set of agents (a struct deriving `AgentSet` / `MarketAgentSet`). -/
inductive SimAgent where
  | random (c : RandomAgents)
  | noise (c : FAgents.NoiseP) (smp : FAgents.Sampler) (orders : List Nat)
  | momentum (c : FAgents.MomP) (smp : FAgents.Sampler) (s : FAgents.MomState)
  | set (ms : SimAgents)
inductive SimAgents where
  | nil
  | cons (a : SimAgent) (rest : SimAgents)
end

mutual
/-- `Agent::update` / `MarketAgent::update`. `none` = the Rust code panics. -/
def SimAgent.update (th : F → F) : SimAgent → MEnv → Xoro → Option (SimAgent × MEnv × Xoro)
  | .random c, e, g => (c.update e g).map fun r => (.random r.1, r.2.1, r.2.2)
  | .noise c smp os, e, g => (FAgents.noiseUpdate c smp os e g).map fun r => (.noise c smp r.1, r.2.1, r.2.2)
  | .momentum c smp s, e, g => (FAgents.momUpdate c smp th s e g).map fun r => (.momentum c smp r.1, r.2.1, r.2.2)
  | .set ms, e, g => (ms.updateAll th e g).map fun r => (.set r.1, r.2.1, r.2.2)
/-- The derived `update`: every member once, in declaration order, on the shared environment and generator. -/
def SimAgents.updateAll (th : F → F) : SimAgents → MEnv → Xoro → Option (SimAgents × MEnv × Xoro)
  | .nil, e, g => some (.nil, e, g)
  | .cons a rest, e, g =>
    match a.update th e g with
    | none => none
    | some (a', e, g) =>
      match rest.updateAll th e g with
      | none => none
      | some (r', e, g) => some (.cons a' r', e, g)
end

/-- `for _ in 0..n_steps { agents.update(env, rng); env.step(rng) }`. -/
def simLoopG (th : F → F) : Nat → SimAgents → MEnv → Xoro → Option (SimAgents × MEnv × Xoro)
  | 0, as, e, g => some (as, e, g)
  | n + 1, as, e, g =>
    match as.updateAll th e g with
    | none => none
    | some (as, e, g) => simLoopG th n as (e.step g).1 (e.step g).2

def simRunnerG (th : F → F) (e : MEnv) (as : SimAgents) (seed : Nat) (steps : Nat) :
    Option (SimAgents × MEnv × Xoro) :=
  simLoopG th steps as e (Xoro.seed (UInt64.ofNat seed))

end Bourse
