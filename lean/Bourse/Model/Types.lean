/-
Layer I — basic types of `crates/order_book/src/types.rs`.
Core Lean only (no Mathlib) so that the driver links as an executable.
-/
namespace Bourse

/-- `Price::MAX` (`u32::MAX`). -/
def MAXP : Nat := 4294967295
/-- `Nanos::MAX` (`u64::MAX`). -/
def MAXT : Nat := 18446744073709551615
/-- `2^32`, the modulus of `wrapping_add` / `wrapping_sub` on prices. -/
def P32 : Nat := 4294967296

inductive Side where
  | bid | ask
  deriving DecidableEq, Repr, Inhabited

def Side.opp : Side → Side
  | .bid => .ask
  | .ask => .bid

inductive Status where
  | new | active | filled | cancelled | rejected
  deriving DecidableEq, Repr, Inhabited

/-- `From<Status> for u8`. -/
def Status.toU8 : Status → Nat
  | .new => 0 | .active => 1 | .filled => 2 | .cancelled => 3 | .rejected => 4

structure Order where
  side    : Side
  status  : Status
  arr     : Nat
  endt    : Nat
  vol     : Nat
  svol    : Nat
  price   : Nat
  trader  : Nat
  id      : Nat
  deriving DecidableEq, Repr, Inhabited

/-- `OrderKey = (Side, u32, u64)`: side, price key, queue stamp. -/
structure Key where
  side : Side
  pk   : Nat
  st   : Nat
  deriving DecidableEq, Repr, Inhabited

/-- `OrderEntry`. -/
structure Entry where
  order : Order
  key   : Key
  deriving DecidableEq, Repr, Inhabited

structure Trade where
  t       : Nat
  side    : Side
  price   : Nat
  vol     : Nat
  active  : Nat
  passive : Nat
  deriving DecidableEq, Repr, Inhabited

/-- `Event<OrderId>`. -/
inductive Event where
  | new (id : Nat)
  | cancel (id : Nat)
  | modify (id : Nat) (price : Option Nat) (vol : Option Nat)
  deriving DecidableEq, Repr, Inhabited

structure Level1 where
  bidPrice : Nat
  askPrice : Nat
  bidVol : Nat
  askVol : Nat
  bidTouchVol : Nat
  askTouchVol : Nat
  bidTouchOrders : Nat
  askTouchOrders : Nat
  deriving DecidableEq, Repr, Inhabited

structure Level2 where
  bidPrice : Nat
  askPrice : Nat
  bidVol : Nat
  askVol : Nat
  bidLevels : List (Nat × Nat)
  askLevels : List (Nat × Nat)
  deriving DecidableEq, Repr, Inhabited

/-- `get_bid_key` / `get_ask_key`: price key of a price on a side. -/
def priceKey : Side → Nat → Nat
  | .bid, p => MAXP - p
  | .ask, p => p

end Bourse
