/-
`crates/macros/src/lib.rs`: `#[derive(AgentSet)]` / `#[derive(MarketAgentSet)]` emit, for a struct
with named fields `f₁ … fₙ`, an `update` whose body is `self.f₁.update(env, rng); … self.fₙ.update(env, rng);`.
Members are probe agents (log the generator output and submit one order) or derived sets again.
-/
import Bourse.Model.Env

namespace Bourse

/-- The statement list a derive emits for a list of field names. -/
inductive Stmt where
  | update (field : String)
  deriving DecidableEq, Repr

/-- `for field in fields { if field.ident.is_some() { emit self.<ident>.update(env, rng); } }`. -/
def derive (fields : List (Option String)) : List Stmt :=
  fields.filterMap fun f => f.map Stmt.update

def callLog (stmts : List Stmt) : List String := stmts.map fun | .update f => f

/-- Shared state threaded through every member: the probes' log, the environment, the generator. -/
structure SetSt where
  log : List (Nat × UInt64 × Nat)
  env : MEnv
  g   : Xoro

mutual
inductive Member where
  | probe (tag draws : Nat)
  | set (ms : Members)
inductive Members where
  | nil
  | cons (m : Member) (ms : Members)
end

/-- A probe: `draws` times log (tag, next output, number of orders of asset 0); then submit one bid. -/
def probeDraws (tag : Nat) : Nat → SetSt → SetSt
  | 0, s => s
  | n + 1, s =>
    let (d, g) := s.g.next
    let nOrd := ((s.env.market.books[0]?).map (·.orders.length)).getD 0
    probeDraws tag n { s with log := s.log ++ [(tag, d, nOrd)], g := g }

def probeUpdate (tag draws : Nat) (s : SetSt) : SetSt :=
  let s := probeDraws tag draws s
  { s with env := (s.env.placeOrder 0 .bid 1 tag (some 10)).1 }

mutual
/-- `update` of a member; for a derived set this is the emitted body: every field, once, in
declaration order, on the same environment and generator. -/
def Member.update : Member → SetSt → SetSt
  | .probe tag draws, s => probeUpdate tag draws s
  | .set ms, s => ms.updateAll s
def Members.updateAll : Members → SetSt → SetSt
  | .nil, s => s
  | .cons m ms, s => ms.updateAll (m.update s)
end

mutual
/-- The probes of a member in preorder (declaration order, nested sets expanded in place). -/
def Member.leaves : Member → List (Nat × Nat)
  | .probe tag draws => [(tag, draws)]
  | .set ms => ms.leaves
def Members.leaves : Members → List (Nat × Nat)
  | .nil => []
  | .cons m ms => m.leaves ++ ms.leaves
end

/-- `steps` rounds of `set.update(env, rng); env.step(rng)`. -/
def runShape (top : Members) : Nat → SetSt → SetSt
  | 0, s => s
  | n + 1, s =>
    let s := top.updateAll s
    let (e, g) := s.env.step s.g
    runShape top n { s with env := e, g := g }

end Bourse
