/-
Layer I — IEEE-754 binary64 (`f64`) arithmetic as the Rust agents use it, over exact rationals.

A value is a finite rational, `+∞`, `−∞` or NaN. The basic operations `+ − × ÷` are *correctly
rounded* (round to nearest, ties to even: what IEEE-754 prescribes and what Rust's `f64` operators
do on every supported target), so each is "compute exactly, then `rnd`". `floor`, `ceil`, `abs`,
negation, comparison, `clamp` and the saturating cast `as u32` are exact. Signed zeros are not
distinguished (no operation bourse performs can tell them apart: there is no division by zero and
no `copysign`).

`rnd` covers the whole format: normal numbers (53-bit significand), subnormals (fixed exponent
−1074) and overflow to infinity. The correspondence check compares it with the hardware on random
bit patterns on every run (`drive f64-ops`).
-/
namespace Bourse

inductive F where
  | fin (r : Rat)
  | pinf
  | ninf
  | nan
  deriving DecidableEq, Repr, Inhabited

namespace F64

/-- `2^e` for an integer exponent. -/
def pow2 (e : Int) : Rat :=
  if e ≥ 0 then ((2 ^ e.toNat : Nat) : Rat) else 1 / ((2 ^ (-e).toNat : Nat) : Rat)

/-- For `x > 0`: the integer `e` with `2^e ≤ x < 2^(e+1)`. -/
def ilog2 (x : Rat) : Int :=
  let e0 : Int := (Nat.log2 x.num.toNat : Int) - (Nat.log2 x.den : Int)
  if pow2 e0 ≤ x then e0 else e0 - 1

/-- Round to the nearest integer, ties to even. -/
def rne (q : Rat) : Int :=
  let f := q.floor
  let r := q - (f : Rat)
  if r < 1 / 2 then f else if 1 / 2 < r then f + 1 else if f % 2 = 0 then f else f + 1

/-- The unit in the last place of the binade of `a > 0` (subnormals share the exponent −1022). -/
def ulp (a : Rat) : Rat := pow2 (max (ilog2 a) (-1022) - 52)

/-- Round a positive rational to the nearest `f64` magnitude (may reach `2^1024` = overflow). -/
def rndPos (a : Rat) : Rat := (rne (a / ulp a) : Rat) * ulp a

/-- Correct rounding of an exact result to `f64`. -/
def rnd (x : Rat) : F :=
  if x = 0 then .fin 0
  else if 0 < x then (if pow2 1024 ≤ rndPos x then .pinf else .fin (rndPos x))
  else (if pow2 1024 ≤ rndPos (-x) then .ninf else .fin (-(rndPos (-x))))

def neg : F → F
  | .fin r => .fin (-r)
  | .pinf => .ninf
  | .ninf => .pinf
  | .nan => .nan

def abs : F → F
  | .fin r => .fin (if r < 0 then -r else r)
  | .pinf => .pinf
  | .ninf => .pinf
  | .nan => .nan

def add : F → F → F
  | .fin a, .fin b => rnd (a + b)
  | .nan, _ => .nan
  | _, .nan => .nan
  | .pinf, .ninf => .nan
  | .ninf, .pinf => .nan
  | .pinf, _ => .pinf
  | _, .pinf => .pinf
  | .ninf, _ => .ninf
  | _, .ninf => .ninf

def sub (a b : F) : F := add a (neg b)

/-- sign of a non-NaN value: −1, 0, 1 -/
def sgn : F → Int
  | .fin r => if r < 0 then -1 else if r = 0 then 0 else 1
  | .pinf => 1
  | .ninf => -1
  | .nan => 0

def mul : F → F → F
  | .fin a, .fin b => rnd (a * b)
  | .nan, _ => .nan
  | _, .nan => .nan
  | a, b =>            -- at least one infinity
    if sgn a * sgn b = 0 then .nan else if sgn a * sgn b > 0 then .pinf else .ninf

def div : F → F → F
  | .nan, _ => .nan
  | _, .nan => .nan
  | .fin a, .fin b =>
    if b = 0 then (if a = 0 then .nan else if 0 < a then .pinf else .ninf)   -- `x / +0.0`
    else rnd (a / b)
  | .fin _, _ => .fin 0
  | a, .fin b => if sgn a * (if b < 0 then -1 else 1) > 0 then .pinf else .ninf
  | _, _ => .nan

def floor : F → F
  | .fin r => .fin (r.floor : Rat)
  | x => x

def ceil : F → F
  | .fin r => .fin (r.ceil : Rat)
  | x => x

/-- `a < b` (false when either is NaN). -/
def lt : F → F → Bool
  | .nan, _ => false
  | _, .nan => false
  | .fin a, .fin b => a < b
  | .ninf, .ninf => false
  | .ninf, _ => true
  | _, .ninf => false
  | .pinf, _ => false
  | _, .pinf => true

/-- `x.clamp(lo, hi)` for finite bounds: NaN stays NaN. -/
def clamp (x : F) (lo hi : Rat) : F :=
  if lt x (.fin lo) then .fin lo else if lt (.fin hi) x then .fin hi else x

/-- The saturating cast `as u32`: NaN gives 0. -/
def toU32 : F → Nat
  | .fin r => if r < 0 then 0 else if r.floor > 4294967295 then 4294967295 else r.floor.toNat
  | .pinf => 4294967295
  | _ => 0

/-- Decode the 64 bits of an `f64`. -/
def ofBits (b : Nat) : F :=
  let sign : Nat := b / 2 ^ 63 % 2
  let ex : Nat := b / 2 ^ 52 % 2048
  let man : Nat := b % 2 ^ 52
  if ex = 2047 then (if man = 0 then (if sign = 0 then .pinf else .ninf) else .nan)
  else
    let mag : Rat := if ex = 0 then (man : Rat) * pow2 (-1074) else (((2 ^ 52 + man : Nat) : Rat)) * pow2 (Int.ofNat ex - 1075)
    .fin (if sign = 0 then mag else -mag)

/-- Decode the 32 bits of an `f32` (exactly: every `f32` is a rational). -/
def ofBits32 (b : Nat) : F :=
  let sign : Nat := b / 2 ^ 31 % 2
  let ex : Nat := b / 2 ^ 23 % 256
  let man : Nat := b % 2 ^ 23
  if ex = 255 then (if man = 0 then (if sign = 0 then .pinf else .ninf) else .nan)
  else
    let mag : Rat := if ex = 0 then (man : Rat) * pow2 (-149) else (((2 ^ 23 + man : Nat) : Rat)) * pow2 (Int.ofNat ex - 150)
    .fin (if sign = 0 then mag else -mag)

def ofNat (n : Nat) : F := .fin (n : Rat)

end F64
end Bourse
