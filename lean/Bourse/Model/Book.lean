/-
Layer I — `crates/order_book/src/orderbook.rs`: the order book.

Written function by function from the Rust. The Rust has mirrored code paths
(`match_bid`/`match_ask`, `place_bid_*`/`place_ask_*`, both arms of
`replace_order`/`reduce_order_vol`/`cancel_order`); the model is parametric in
the aggressor's side `sd`, the correspondence check drives both sides.

Mutation through `&mut` becomes returning the new value. The aggressor is a
*copy* of its table entry (`OrderEntry: Copy`), threaded through the match loop
and written back by the caller, exactly as in the Rust.
-/
import Bourse.Model.Side

namespace Bourse

structure Book where
  t        : Nat
  tick     : Nat
  tradeVol : Nat
  /-- `queue_stamp`: next queue-priority stamp -/
  stamp    : Nat
  ask      : SideS
  bid      : SideS
  orders   : List Entry
  trades   : List Trade
  trading  : Bool
  /-- sticky: an arithmetic overflow / failed `unwrap` / bad index happened -/
  fault    : Bool
  deriving DecidableEq, Repr, Inhabited

namespace Book

def new (t0 tick : Nat) (trading : Bool) : Book :=
  { t := t0, tick := tick, tradeVol := 0, stamp := 0, ask := SideS.empty, bid := SideS.empty,
    orders := [], trades := [], trading := trading, fault := decide (tick = 0) }

def side (b : Book) : Side → SideS
  | .bid => b.bid
  | .ask => b.ask

def setSide (b : Book) (sd : Side) (s : SideS) : Book :=
  match sd with
  | .bid => { b with bid := s }
  | .ask => { b with ask := s }

def faulted (b : Book) : Bool := b.fault || b.ask.fault || b.bid.fault

def setTime (b : Book) (t : Nat) : Book := { b with t := t }
def enableTrading (b : Book) : Book := { b with trading := true }
def disableTrading (b : Book) : Book := { b with trading := false }
def resetTradeVol (b : Book) : Book := { b with tradeVol := 0 }

/-! ### Views -/

def bidAsk (b : Book) : Nat × Nat := (bestPrice .bid b.bid, bestPrice .ask b.ask)
def askVol (b : Book) : Nat := b.ask.vol
def bidVol (b : Book) : Nat := b.bid.vol
def askBestVol (b : Book) : Nat := b.ask.bestVol
def bidBestVol (b : Book) : Nat := b.bid.bestVol
def askBestVolAndOrders (b : Book) : Nat × Nat := b.ask.bestVolAndOrders
def bidBestVolAndOrders (b : Book) : Nat × Nat := b.bid.bestVolAndOrders

/-- `ask_levels`: level `i` is looked up at price `start.wrapping_add(i * tick)`. -/
def askLevels (b : Book) (n : Nat) : List (Nat × Nat) :=
  (List.range n).map fun i => b.ask.volAndOrdersAtKey (priceKey .ask ((b.bidAsk.2 + i * b.tick) % P32))

/-- `bid_levels`: level `i` is looked up at price `start.wrapping_sub(i * tick)`. -/
def bidLevels (b : Book) (n : Nat) : List (Nat × Nat) :=
  (List.range n).map fun i =>
    b.bid.volAndOrdersAtKey (priceKey .bid ((b.bidAsk.1 + P32 - (i * b.tick) % P32) % P32))

/-- Twice the mid price, as an integer (the Rust returns `bid + 0.5 * (ask - bid)` in `f64`,
exact for 32-bit prices). -/
def mid2 (b : Book) : Nat := b.bidAsk.1 + b.bidAsk.2

def level1 (b : Book) : Level1 :=
  { bidPrice := b.bidAsk.1, askPrice := b.bidAsk.2, bidVol := b.bidVol, askVol := b.askVol,
    bidTouchVol := b.bidBestVolAndOrders.1, askTouchVol := b.askBestVolAndOrders.1,
    bidTouchOrders := b.bidBestVolAndOrders.2, askTouchOrders := b.askBestVolAndOrders.2 }

def level2 (b : Book) (n : Nat) : Level2 :=
  { bidPrice := b.bidAsk.1, askPrice := b.bidAsk.2, bidVol := b.bidVol, askVol := b.askVol,
    bidLevels := b.bidLevels n, askLevels := b.askLevels n }

/-! ### Order creation -/

inductive CreateResult where
  | ok (id : Nat)
  | priceError (price tick : Nat)
  deriving DecidableEq, Repr

/-- `Order::buy_limit` … `Order::sell_market`. -/
def mkOrder (t : Nat) (sd : Side) (vol trader : Nat) (price : Option Nat) (id : Nat) : Order :=
  let p := match sd, price with
    | _, some p => p
    | .bid, none => MAXP
    | .ask, none => 0
  { side := sd, status := .new, arr := t, endt := MAXT, vol := vol, svol := vol,
    price := p, trader := trader, id := id }

/-- `create_order`. -/
def createOrder (b : Book) (sd : Side) (vol trader : Nat) (price : Option Nat) : Book × CreateResult :=
  let id := b.orders.length
  match price with
  | some p =>
    if p % b.tick != 0 then (b, .priceError p b.tick)
    else
      let o := mkOrder b.t sd vol trader price id
      ({ b with orders := b.orders ++ [{ order := o, key := ⟨sd, priceKey sd o.price, 0⟩ }] }, .ok id)
  | none =>
    let o := mkOrder b.t sd vol trader price id
    ({ b with orders := b.orders ++ [{ order := o, key := ⟨sd, priceKey sd o.price, 0⟩ }] }, .ok id)

/-! ### Matching -/

/-- `match_orders`: one fill between the aggressor and the passive order.
Returns the updated aggressor, passive order, the trade and the traded volume. -/
def matchOrders (t : Nat) (agg pass : Order) : Order × Order × Trade × Nat :=
  let tv := min agg.vol pass.vol
  let agg1 := { agg with vol := agg.vol - tv }
  let pass1 := { pass with vol := pass.vol - tv }
  let tr : Trade := { t := t, side := pass.side, price := pass.price, vol := tv,
                      active := agg.id, passive := pass.id }
  let pass2 := if pass1.vol = 0 then { pass1 with endt := t, status := .filled } else pass1
  let agg2 := if agg1.vol = 0 then { agg1 with endt := t, status := .filled } else agg1
  (agg2, pass2, tr, tv)

/-- Does an aggressor on side `sd` with limit `price` cross the opposite touch `best`?
(`price >= ask_best` for a bid, `price <= bid_best` for an ask.) -/
def crosses : Side → Nat → Nat → Bool
  | .bid, price, best => decide (price ≥ best)
  | .ask, price, best => decide (price ≤ best)

/-- One iteration of the match loop against the passive entry `m` with id `id`:
the book after the fill and the updated aggressor. -/
def fillStep (sd : Side) (b : Book) (e : Entry) (id : Nat) (m : Entry) : Book × Entry :=
  let r := matchOrders b.t e.order m.order
  let tv := r.2.2.2
  let m' : Entry := { m with order := r.2.1 }
  let opp := b.side sd.opp
  let opp' :=
    if r.2.1.status = .filled then opp.removeOrder m'.key.pk m'.key.st tv
    else opp.removeVol m'.key.pk tv
  ({ (b.setSide sd.opp opp') with
        orders := b.orders.set id m',
        trades := b.trades ++ [r.2.2.1],
        tradeVol := b.tradeVol + tv,
        fault := b.fault || decide (b.tradeVol + tv ≥ P32) },
   { e with order := r.1 })

/-- `match_bid` (`sd = .bid`, walks the ask side) / `match_ask` (`sd = .ask`).
`fuel` bounds the loop; running out of fuel is reported as a fault. -/
def matchLoop (sd : Side) : Nat → Book → Entry → Book × Entry
  | 0, b, e => ({ b with fault := true }, e)
  | fuel + 1, b, e =>
    if e.order.vol > 0 && crosses sd e.order.price (bestPrice sd.opp (b.side sd.opp)) then
      match (b.side sd.opp).bestOrderIdx with
      | none => (b, e)
      | some id =>
        match b.orders[id]? with
        | none => ({ b with fault := true }, e)
        | some m => matchLoop sd fuel (fillStep sd b e id m).1 (fillStep sd b e id m).2
    else (b, e)

/-- Fuel that always suffices: every iteration that continues fills one resting order. -/
def matchFuel (b : Book) (sd : Side) : Nat := (b.side sd.opp).orders.length + 2

def matchSide (sd : Side) (b : Book) (e : Entry) : Book × Entry :=
  matchLoop sd (matchFuel b sd) b e

/-- Match only while trading is enabled. -/
def matchIfTrading (sd : Side) (b : Book) (e : Entry) : Book × Entry :=
  if b.trading then matchSide sd b e else (b, e)

/-- Queue the (unfilled) entry on its own side under price key `pk` with the next stamp
(`next_queue_stamp` + `insert_order`), recording the key in the entry. -/
def enqueue (sd : Side) (b : Book) (e : Entry) (pk : Nat) : Book × Entry :=
  let b1 : Book := { b with stamp := b.stamp + 1 }
  (b1.setSide sd ((b1.side sd).insertOrder pk b.stamp e.order.id e.order.vol),
   { e with key := ⟨sd, pk, b.stamp⟩ })

/-- Queue unless filled. -/
def restUnlessFilled (sd : Side) (r : Book × Entry) (pk : Nat) : Book × Entry :=
  if r.2.order.status ≠ .filled then enqueue sd r.1 r.2 pk else r

/-- `place_bid_limit` / `place_ask_limit`. -/
def placeLimit (sd : Side) (b : Book) (e : Entry) : Book × Entry :=
  restUnlessFilled sd (matchIfTrading sd b e) e.key.pk

/-- Mark the remainder of a market order Cancelled. -/
def cancelRemainder (r : Book × Entry) : Book × Entry :=
  if r.2.order.status ≠ .filled then
    (r.1, { r.2 with order := { r.2.order with status := .cancelled, endt := r.1.t } })
  else r

/-- `place_bid_market` / `place_ask_market`. -/
def placeMarket (sd : Side) (b : Book) (e : Entry) : Book × Entry :=
  if b.trading then cancelRemainder (matchSide sd b e)
  else (b, { e with order := { e.order with status := .rejected, endt := b.t } })

/-- Is this entry a market order (`price == Price::MAX` for a bid, `== 0` for an ask)? -/
def isMarket (o : Order) : Bool :=
  match o.side with
  | .bid => o.price = MAXP
  | .ask => o.price = 0

/-- The entry as `place_order` marks it before dispatching. -/
def activate (b : Book) (e : Entry) : Entry :=
  { e with order := { e.order with status := .active, arr := b.t } }

/-- Dispatch of `place_order` on side and market/limit. -/
def placeEntry (b : Book) (e : Entry) : Book × Entry :=
  if isMarket e.order then placeMarket e.order.side b e else placeLimit e.order.side b e

/-- Write the aggressor's copy back into the table (`self.orders[order_id] = order_entry`). -/
def writeBack (r : Book × Entry) (id : Nat) : Book :=
  { r.1 with orders := r.1.orders.set id r.2 }

/-- `place_order`. -/
def placeOrder (b : Book) (id : Nat) : Book :=
  match b.orders[id]? with
  | none => { b with fault := true }
  | some e =>
    if e.order.status ≠ .new then b
    else writeBack (placeEntry b (activate b e)) id

/-- `create_and_place_order`. -/
def createAndPlace (b : Book) (sd : Side) (vol trader : Nat) (price : Option Nat) :
    Book × CreateResult :=
  match (b.createOrder sd vol trader price).2 with
  | .ok id => ((b.createOrder sd vol trader price).1.placeOrder id, .ok id)
  | .priceError p t => ((b.createOrder sd vol trader price).1, .priceError p t)

/-- `cancel_order`. -/
def cancelOrder (b : Book) (id : Nat) : Book :=
  match b.orders[id]? with
  | none => { b with fault := true }
  | some e =>
    if e.order.status = .active then
      let e' : Entry := { e with order := { e.order with status := .cancelled, endt := b.t } }
      let b' : Book := { b with orders := b.orders.set id e' }
      b'.setSide e.key.side ((b.side e.key.side).removeOrder e.key.pk e.key.st e.order.vol)
    else b

/-- `reduce_order_vol`. -/
def reduceOrderVol (b : Book) (e : Entry) (red : Nat) : Book × Entry :=
  (b.setSide e.key.side ((b.side e.key.side).removeVol e.key.pk red),
   { e with order := { e.order with vol := e.order.vol - red } })

/-- The book with `e` taken out of its side's queue (`remove_order` with its current volume). -/
def dequeue (b : Book) (e : Entry) : Book :=
  b.setSide e.key.side ((b.side e.key.side).removeOrder e.key.pk e.key.st e.order.vol)

/-- `replace_order`. -/
def replaceOrder (b : Book) (e : Entry) (newPrice newVol : Nat) : Book × Entry :=
  restUnlessFilled e.key.side
    (matchIfTrading e.key.side (b.dequeue e)
      { e with order := { e.order with vol := newVol, price := newPrice } })
    (priceKey e.key.side newPrice)

/-- A requested new price that is not a multiple of the tick size. -/
def offGrid (tick : Nat) : Option Nat → Bool
  | some p => p % tick != 0
  | none => false

/-- The dispatch of `modify_order` on `(new_price, new_vol)` for an Active order. -/
def modifyEntry (b : Book) (e : Entry) : Option Nat → Option Nat → Book × Entry
  | none, none => (b, e)
  | none, some v =>
    if v < e.order.vol then reduceOrderVol b e (e.order.vol - v)
    else replaceOrder b e e.order.price v
  | some p, none => replaceOrder b e p e.order.vol
  | some p, some v => replaceOrder b e p v

/-- `modify_order`. -/
def modifyOrder (b : Book) (id : Nat) (newPrice newVol : Option Nat) : Book :=
  match b.orders[id]? with
  | none => { b with fault := true }
  | some e =>
    if offGrid b.tick newPrice then b
    else if e.order.status = .active then writeBack (modifyEntry b e newPrice newVol) id
    else b

/-- `process_event`. -/
def processEvent (b : Book) : Event → Book
  | .new id => b.placeOrder id
  | .cancel id => b.cancelOrder id
  | .modify id p v => b.modifyOrder id p v

end Book
end Bourse
