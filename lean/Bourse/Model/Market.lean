/-
Layer I — `crates/order_book/src/market.rs`: a multi-asset market is an array of order books;
every operation is forwarded to `order_books[asset]`, clock / trading flag / counter reset fan out.
An out-of-range asset index is a Rust panic: the model sets `fault`.
-/
import Bourse.Model.Ops

namespace Bourse

structure Market where
  books : List Book
  fault : Bool
  deriving DecidableEq, Repr, Inhabited

namespace Market

def new (t0 : Nat) (ticks : List Nat) (trading : Bool) : Market :=
  { books := ticks.map fun tk => Book.new t0 tk trading, fault := false }

def faulted (m : Market) : Bool := m.fault || m.books.any Book.faulted

/-- Apply `f` to `order_books[a]`. -/
def onBook (m : Market) (a : Nat) (f : Book → Book) : Market :=
  match m.books[a]? with
  | some b => { m with books := m.books.set a (f b) }
  | none => { m with fault := true }

/-- `get_time`: the clock of book 0. -/
def time (m : Market) : Nat := (m.books[0]?.map (·.t)).getD 0

def setTime (m : Market) (t : Nat) : Market := { m with books := m.books.map (·.setTime t) }
def enableTrading (m : Market) : Market := { m with books := m.books.map Book.enableTrading }
def disableTrading (m : Market) : Market := { m with books := m.books.map Book.disableTrading }
def resetTradeVols (m : Market) : Market := { m with books := m.books.map Book.resetTradeVol }
def tradeVols (m : Market) : List Nat := m.books.map (·.tradeVol)
def level2 (m : Market) (n : Nat) : List Level2 := m.books.map (·.level2 n)

/-- Forward a book operation to `order_books[a]` (`create_order`, `create_and_place_order`,
`place_order`, `cancel_order`, `modify_order`, `process_event` all have this shape). -/
def stepOn (m : Market) (a : Nat) (op : Op) : Market × Res :=
  match m.books[a]? with
  | some b => ({ m with books := m.books.set a (b.step op).1 }, (b.step op).2)
  | none => ({ m with fault := true }, .panic)

def createOrder (m : Market) (a : Nat) (sd : Side) (vol tr : Nat) (p : Option Nat) : Market × Res :=
  m.stepOn a (.create sd vol tr p)

/-- `process_event` on `Event<MarketOrderId>`. -/
def processEvent (m : Market) (a : Nat) (e : Event) : Market := (m.stepOn a (.ev e)).1

/-- Snapshot round trip: every book is serialised and rebuilt. -/
def reload (m : Market) : Market := { m with books := m.books.map fun b => (b.step .reload).1 }

/-- Market-level operation: a book operation addressed to an asset, or a fan-out operation. -/
inductive MOp where
  | on (a : Nat) (op : Op)     -- create / place / cap / cancel / modify / ev on asset `a`
  | time (t : Nat)
  | trading (on : Bool)
  | resetVol
  | reload
  deriving DecidableEq, Repr, Inhabited

def step (m : Market) : MOp → Market × Res
  | .on a op => m.stepOn a op
  | .time t => (m.setTime t, .unit)
  | .trading true => (m.enableTrading, .unit)
  | .trading false => (m.disableTrading, .unit)
  | .resetVol => (m.resetTradeVols, .unit)
  | .reload => (m.reload, .unit)

def run (m : Market) (ops : List MOp) : Market := ops.foldl (fun m op => (m.step op).1) m

end Market
end Bourse
