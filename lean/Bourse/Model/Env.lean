/-
Layer I — `crates/step_sim/src/{data,env,market_env}.rs`: the discrete-event environments.
`MEnv` models `MarketEnv<A, L>`; `Env<L>` is the same code with one book and is modelled as
`MEnv` over a one-book market (the correspondence check drives both real types).
-/
import Bourse.Model.Market
import Bourse.Model.Rng

namespace Bourse

/-- `Level2DataRecords<N>`: one growing series per quantity. -/
structure Records where
  bidPrices : List Nat
  askPrices : List Nat
  bidVols   : List Nat
  askVols   : List Nat
  /-- per level: the series of volumes / order counts at that level -/
  bidVolAt  : List (List Nat)
  bidOrdAt  : List (List Nat)
  askVolAt  : List (List Nat)
  askOrdAt  : List (List Nat)
  deriving DecidableEq, Repr, Inhabited

namespace Records

def new (n : Nat) : Records :=
  { bidPrices := [], askPrices := [], bidVols := [], askVols := [],
    bidVolAt := List.replicate n [], bidOrdAt := List.replicate n [],
    askVolAt := List.replicate n [], askOrdAt := List.replicate n [] }

/-- push `f (levels[i])` onto series `i`, for every level `i`. -/
def pushAt (series : List (List Nat)) (levels : List (Nat × Nat)) (f : Nat × Nat → Nat) : List (List Nat) :=
  series.zipIdx.map fun (s, i) => s ++ [f (levels[i]?.getD (0, 0))]

/-- `append_record`. -/
def append (r : Records) (l2 : Level2) : Records :=
  { bidPrices := r.bidPrices ++ [l2.bidPrice], askPrices := r.askPrices ++ [l2.askPrice],
    bidVols := r.bidVols ++ [l2.bidVol], askVols := r.askVols ++ [l2.askVol],
    bidVolAt := pushAt r.bidVolAt l2.bidLevels (·.1), bidOrdAt := pushAt r.bidOrdAt l2.bidLevels (·.2),
    askVolAt := pushAt r.askVolAt l2.askLevels (·.1), askOrdAt := pushAt r.askOrdAt l2.askLevels (·.2) }

end Records

/-- A queued instruction: asset index and event. -/
abbrev Instr := Nat × Event

structure MEnv where
  stepSize  : Nat
  nLevels   : Nat
  market    : Market
  tradeVols : List (List Nat)
  queue     : List Instr
  l2        : List Level2
  records   : List Records
  fault     : Bool
  deriving DecidableEq, Repr, Inhabited

namespace MEnv

def new (t0 : Nat) (ticks : List Nat) (stepSize : Nat) (trading : Bool) (n : Nat) : MEnv :=
  let m := Market.new t0 ticks trading
  { stepSize := stepSize, nLevels := n, market := m, tradeVols := ticks.map fun _ => [],
    queue := [], l2 := m.level2 n, records := ticks.map fun _ => Records.new n, fault := false }

def faulted (e : MEnv) : Bool := e.fault || e.market.faulted

/-- `place_order`: create the order now, queue its placement. -/
def placeOrder (e : MEnv) (a : Nat) (sd : Side) (vol tr : Nat) (p : Option Nat) : MEnv × Res :=
  match (e.market.createOrder a sd vol tr p).2 with
  | .ok id => ({ e with market := (e.market.createOrder a sd vol tr p).1, queue := e.queue ++ [(a, .new id)] }, .ok id)
  | r => ({ e with market := (e.market.createOrder a sd vol tr p).1 }, r)

def cancelOrder (e : MEnv) (a id : Nat) : MEnv := { e with queue := e.queue ++ [(a, .cancel id)] }
def modifyOrder (e : MEnv) (a id : Nat) (p v : Option Nat) : MEnv :=
  { e with queue := e.queue ++ [(a, .modify id p v)] }
def enableTrading (e : MEnv) : MEnv := { e with market := e.market.enableTrading }
def disableTrading (e : MEnv) : MEnv := { e with market := e.market.disableTrading }

/-- The processing loop: the `i`-th instruction of the (already shuffled) batch runs at `start + i`. -/
def processBatch (m : Market) (start : Nat) : Nat → List Instr → Market
  | _, [] => m
  | i, (a, ev) :: rest => processBatch ((m.setTime (start + i)).processEvent a ev) start (i + 1) rest

/-- `step` given the already shuffled batch. -/
def stepWith (e : MEnv) (batch : List Instr) : MEnv :=
  let start := e.market.time
  let m := processBatch e.market.resetTradeVols start 0 batch
  let m := m.setTime (start + e.stepSize)
  let l2 := m.level2 e.nLevels
  { e with market := m, queue := [], l2 := l2,
           records := (e.records.zip l2).map fun (r, l) => r.append l,
           tradeVols := (e.tradeVols.zip m.tradeVols).map fun (s, v) => s ++ [v],
           fault := e.fault || decide (start + e.stepSize > MAXT) }

/-- `step`: shuffle the queue with the supplied generator, then process. -/
def step (e : MEnv) (g : Xoro) : MEnv × Xoro :=
  match Xoro.shuffle e.queue g with
  | some (batch, g') => (e.stepWith batch, g')
  | none => ({ e with fault := true }, g)

inductive EOp where
  | submit (a : Nat) (sd : Side) (vol tr : Nat) (p : Option Nat)
  | qcancel (a id : Nat)
  | qmodify (a id : Nat) (p v : Option Nat)
  | step
  | trading (on : Bool)
  deriving DecidableEq, Repr, Inhabited

def apply (e : MEnv) (g : Xoro) : EOp → (MEnv × Xoro) × Res
  | .submit a sd vol tr p => let r := e.placeOrder a sd vol tr p; ((r.1, g), r.2)
  | .qcancel a id => ((e.cancelOrder a id, g), .unit)
  | .qmodify a id p v => ((e.modifyOrder a id p v, g), .unit)
  | .step => (e.step g, .unit)
  | .trading true => ((e.enableTrading, g), .unit)
  | .trading false => ((e.disableTrading, g), .unit)

end MEnv
end Bourse
