/-
Layer I — the JSON text of a snapshot (`serde_json::to_writer`, `to_writer_pretty`,
`from_reader` on `OrderBook` / `Market`): the JSON values bourse writes, both renderings, a
recursive-descent reader for that JSON subset, and the field-level encoding of `OrderBookState`.

Core Lean only. The tie: on every `reload` operation of the correspondence check the harness
prints the text the real `serde_json` wrote (compact and pretty) and the driver compares it with
`renderCompact` / `renderPretty` of the model's snapshot character by character; truncated,
whitespace-padded and corrupted texts are given to the real loader and to `Json.load`, and
accept / reject (and the loaded book) must agree.

Deliberately not modelled (the reader rejects them, the correspondence check does not generate
them): string escapes, `null`, negative numbers, fractions and exponents — no field of a snapshot
can hold any of those.
-/
import Bourse.Model.Snapshot

namespace Bourse
namespace Json

inductive J where
  | num (n : Nat)
  | str (s : List Char)
  | bool (b : Bool)
  | arr (l : List J)
  | obj (l : List (List Char × J))
  deriving Repr, Inhabited

/-! ### Writing -/

def digitChar (d : Nat) : Char := Char.ofNat (48 + d)

def natDigitsAux : Nat → Nat → List Char → List Char
  | 0, _, acc => acc
  | fuel + 1, n, acc =>
    if n < 10 then digitChar n :: acc else natDigitsAux fuel (n / 10) (digitChar (n % 10) :: acc)

/-- Decimal digits of `n`, most significant first (`itoa`). -/
def natDigits (n : Nat) : List Char := natDigitsAux (n + 1) n []

def quote (s : List Char) : List Char := '"' :: s ++ ['"']

def lit (s : String) : List Char := s.toList

mutual
/-- `serde_json::to_writer` (`CompactFormatter`). -/
def renderCompact : J → List Char
  | .num n => natDigits n
  | .str s => quote s
  | .bool true => lit "true"
  | .bool false => lit "false"
  | .arr l => '[' :: renderElemsC l ++ [']']
  | .obj l => '{' :: renderMembersC l ++ ['}']
def renderElemsC : List J → List Char
  | [] => []
  | [x] => renderCompact x
  | x :: y :: r => renderCompact x ++ ',' :: renderElemsC (y :: r)
def renderMembersC : List (List Char × J) → List Char
  | [] => []
  | [(k, v)] => quote k ++ ':' :: renderCompact v
  | (k, v) :: y :: r => quote k ++ ':' :: renderCompact v ++ ',' :: renderMembersC (y :: r)
end

def indent (lvl : Nat) : List Char := List.replicate (2 * lvl) ' '

mutual
/-- `serde_json::to_writer_pretty` (`PrettyFormatter` with two-space indent) at nesting `lvl`. -/
def renderPretty (lvl : Nat) : J → List Char
  | .num n => natDigits n
  | .str s => quote s
  | .bool true => lit "true"
  | .bool false => lit "false"
  | .arr [] => lit "[]"
  | .arr (x :: r) => '[' :: '\n' :: renderElemsP (lvl + 1) (x :: r) ++ '\n' :: indent lvl ++ [']']
  | .obj [] => lit "{}"
  | .obj (x :: r) => '{' :: '\n' :: renderMembersP (lvl + 1) (x :: r) ++ '\n' :: indent lvl ++ ['}']
def renderElemsP (lvl : Nat) : List J → List Char
  | [] => []
  | [x] => indent lvl ++ renderPretty lvl x
  | x :: y :: r => indent lvl ++ renderPretty lvl x ++ ',' :: '\n' :: renderElemsP lvl (y :: r)
def renderMembersP (lvl : Nat) : List (List Char × J) → List Char
  | [] => []
  | [(k, v)] => indent lvl ++ quote k ++ ':' :: ' ' :: renderPretty lvl v
  | (k, v) :: y :: r =>
    indent lvl ++ quote k ++ ':' :: ' ' :: renderPretty lvl v ++ ',' :: '\n' :: renderMembersP lvl (y :: r)
end

/-! ### Reading -/

def isWs (c : Char) : Bool := c == ' ' || c == '\n' || c == '\t' || c == '\r'

def skipWs : List Char → List Char
  | [] => []
  | c :: cs => if isWs c then skipWs cs else c :: cs

def isDigit (c : Char) : Bool := decide (48 ≤ c.toNat) && decide (c.toNat ≤ 57)

def spanDigits : List Char → List Char × List Char
  | [] => ([], [])
  | c :: cs => if isDigit c then (c :: (spanDigits cs).1, (spanDigits cs).2) else ([], c :: cs)

def digitsToNat (ds : List Char) : Nat := ds.foldl (fun acc c => acc * 10 + (c.toNat - 48)) 0

/-- What may not follow the digits of an unsigned integer: a fraction or an exponent. -/
def numEnd : List Char → Bool
  | '.' :: _ => false
  | 'e' :: _ => false
  | 'E' :: _ => false
  | _ => true

/-- A JSON number that is an unsigned integer: digits without a leading zero, not followed by a
fraction or exponent. -/
def parseNum (s : List Char) : Option (Nat × List Char) :=
  match (spanDigits s).1 with
  | [] => none
  | ['0'] => if numEnd (spanDigits s).2 then some (0, (spanDigits s).2) else none
  | '0' :: _ => none
  | ds => if numEnd (spanDigits s).2 then some (digitsToNat ds, (spanDigits s).2) else none

/-- The rest of a string after its opening quote: characters up to the closing quote. Escapes and
control characters are rejected. -/
def parseStr : List Char → Option (List Char × List Char)
  | [] => none
  | c :: r =>
    if c = '"' then some ([], r)
    else if c = '\\' then none
    else if c.toNat < 32 then none
    else match parseStr r with
      | some (x, r') => some (c :: x, r')
      | none => none

def dropLit (l : List Char) (s : List Char) : Option (List Char) :=
  if l.isPrefixOf s then some (s.drop l.length) else none

mutual
def parseValue : Nat → List Char → Option (J × List Char)
  | 0, _ => none
  | fuel + 1, s =>
    match skipWs s with
    | [] => none
    | c :: r =>
      if c = '"' then
        match parseStr r with
        | some (x, r') => some (.str x, r')
        | none => none
      else if c = 't' then
        match dropLit (lit "rue") r with
        | some r' => some (.bool true, r')
        | none => none
      else if c = 'f' then
        match dropLit (lit "alse") r with
        | some r' => some (.bool false, r')
        | none => none
      else if c = '[' then
        match skipWs r with
        | ']' :: r' => some (.arr [], r')
        | _ =>
          match parseElems fuel r with
          | some (vs, r') => some (.arr vs, r')
          | none => none
      else if c = '{' then
        match skipWs r with
        | '}' :: r' => some (.obj [], r')
        | _ =>
          match parseMembers fuel r with
          | some (ms, r') => some (.obj ms, r')
          | none => none
      else if isDigit c then
        match parseNum (c :: r) with
        | some (n, r') => some (.num n, r')
        | none => none
      else none
/-- Elements of a non-empty array up to and including the closing bracket. -/
def parseElems : Nat → List Char → Option (List J × List Char)
  | 0, _ => none
  | fuel + 1, s =>
    match parseValue fuel s with
    | none => none
    | some (v, r) =>
      match skipWs r with
      | c :: r' =>
        if c = ',' then
          match parseElems fuel r' with
          | some (vs, r'') => some (v :: vs, r'')
          | none => none
        else if c = ']' then some ([v], r')
        else none
      | [] => none
/-- Members of a non-empty object up to and including the closing brace. -/
def parseMembers : Nat → List Char → Option (List (List Char × J) × List Char)
  | 0, _ => none
  | fuel + 1, s =>
    match skipWs s with
    | c :: r =>
      if c = '"' then
        match parseStr r with
        | none => none
        | some (k, r1) =>
          match skipWs r1 with
          | c2 :: r2 =>
            if c2 = ':' then
              match parseValue fuel r2 with
              | none => none
              | some (v, r3) =>
                match skipWs r3 with
                | c4 :: r4 =>
                  if c4 = ',' then
                    match parseMembers fuel r4 with
                    | some (ms, r5) => some ((k, v) :: ms, r5)
                    | none => none
                  else if c4 = '}' then some ([(k, v)], r4)
                  else none
                | [] => none
            else none
          | [] => none
      else none
    | [] => none
end

/-- `serde_json::from_str` / `from_reader`: one value, then only whitespace. -/
def parse (s : List Char) : Option J :=
  match parseValue (s.length + 1) s with
  | some (v, r) => if skipWs r = [] then some v else none
  | none => none

/-! ### The snapshot as JSON (`#[derive(Serialize, Deserialize)]` on the structs of `types.rs`,
`OrderEntry`, `OrderBook` / `OrderBookState`, `Market`) -/

def sideJ : Side → J
  | .bid => .str (lit "Bid")
  | .ask => .str (lit "Ask")

def statusJ : Status → J
  | .new => .str (lit "New")
  | .active => .str (lit "Active")
  | .filled => .str (lit "Filled")
  | .cancelled => .str (lit "Cancelled")
  | .rejected => .str (lit "Rejected")

def orderJ (o : Order) : J :=
  .obj [(lit "side", sideJ o.side), (lit "status", statusJ o.status), (lit "arr_time", .num o.arr),
        (lit "end_time", .num o.endt), (lit "vol", .num o.vol), (lit "start_vol", .num o.svol),
        (lit "price", .num o.price), (lit "trader_id", .num o.trader), (lit "order_id", .num o.id)]

def keyJ (k : Key) : J := .arr [sideJ k.side, .num k.pk, .num k.st]

def entryJ (e : Entry) : J := .obj [(lit "order", orderJ e.order), (lit "key", keyJ e.key)]

def tradeJ (t : Trade) : J :=
  .obj [(lit "t", .num t.t), (lit "side", sideJ t.side), (lit "price", .num t.price), (lit "vol", .num t.vol),
        (lit "active_order_id", .num t.active), (lit "passive_order_id", .num t.passive)]

def snapJ (s : Snap) : J :=
  .obj [(lit "t", .num s.t), (lit "tick_size", .num s.tick), (lit "trade_vol", .num s.tradeVol),
        (lit "queue_stamp", .num s.stamp), (lit "orders", .arr (s.orders.map entryJ)),
        (lit "trades", .arr (s.trades.map tradeJ)), (lit "trading", .bool s.trading)]

def marketJ (books : List Snap) : J := .obj [(lit "order_books", .arr (books.map snapJ))]

/-- The text `save_json(path, pretty)` writes for a book. -/
def saveText (b : Book) (pretty : Bool) : List Char :=
  if pretty then renderPretty 0 (snapJ b.save) else renderCompact (snapJ b.save)

/-! #### Decoding (derive(Deserialize): fields by name in any order, unknown fields ignored,
a duplicate or missing field is an error; integers are range-checked against their Rust type) -/

def U32 : Nat := 4294967295
def U64 : Nat := 18446744073709551615

def field (ms : List (List Char × J)) (name : String) : Option J :=
  match ms.filter (fun m => m.1 == lit name) with
  | [m] => some m.2
  | _ => none

def numLe (bound : Nat) : J → Option Nat
  | .num n => if n ≤ bound then some n else none
  | _ => none

def sideOf : J → Option Side
  | .str s => if s == lit "Bid" then some .bid else if s == lit "Ask" then some .ask else none
  | _ => none

def statusOf : J → Option Status
  | .str s =>
    if s == lit "New" then some .new else if s == lit "Active" then some .active
    else if s == lit "Filled" then some .filled else if s == lit "Cancelled" then some .cancelled
    else if s == lit "Rejected" then some .rejected else none
  | _ => none

def boolOf : J → Option Bool
  | .bool b => some b
  | _ => none

def orderOf : J → Option Order
  | .obj ms => do
    let side ← (field ms "side").bind sideOf
    let status ← (field ms "status").bind statusOf
    let arr ← (field ms "arr_time").bind (numLe U64)
    let endt ← (field ms "end_time").bind (numLe U64)
    let vol ← (field ms "vol").bind (numLe U32)
    let svol ← (field ms "start_vol").bind (numLe U32)
    let price ← (field ms "price").bind (numLe U32)
    let trader ← (field ms "trader_id").bind (numLe U32)
    let id ← (field ms "order_id").bind (numLe U64)
    pure { side, status, arr, endt, vol, svol, price, trader, id }
  | _ => none

def keyOf : J → Option Key
  | .arr [a, b, c] => do
    let side ← sideOf a
    let pk ← numLe U32 b
    let st ← numLe U64 c
    pure ⟨side, pk, st⟩
  | _ => none

def entryOf : J → Option Entry
  | .obj ms => do
    let order ← (field ms "order").bind orderOf
    let key ← (field ms "key").bind keyOf
    pure { order, key }
  | _ => none

def tradeOf : J → Option Trade
  | .obj ms => do
    let t ← (field ms "t").bind (numLe U64)
    let side ← (field ms "side").bind sideOf
    let price ← (field ms "price").bind (numLe U32)
    let vol ← (field ms "vol").bind (numLe U32)
    let active ← (field ms "active_order_id").bind (numLe U64)
    let passive ← (field ms "passive_order_id").bind (numLe U64)
    pure { t, side, price, vol, active, passive }
  | _ => none

def listOf {α} (f : J → Option α) : J → Option (List α)
  | .arr l => l.mapM f
  | _ => none

/-- `OrderBookState`: `queue_stamp` is `#[serde(default)]`. -/
def snapOf : J → Option Snap
  | .obj ms => do
    let t ← (field ms "t").bind (numLe U64)
    let tick ← (field ms "tick_size").bind (numLe U32)
    let tradeVol ← (field ms "trade_vol").bind (numLe U32)
    let stamp ← match ms.filter (fun m => m.1 == lit "queue_stamp") with
      | [] => some 0
      | [m] => numLe U64 m.2
      | _ => none
    let orders ← (field ms "orders").bind (listOf entryOf)
    let trades ← (field ms "trades").bind (listOf tradeOf)
    let trading ← (field ms "trading").bind boolOf
    pure { t, tick, tradeVol, stamp, orders, trades, trading }
  | _ => none

/-- `OrderBook::load_json` on a text: parse, decode, rebuild. -/
def loadText (s : List Char) : Option Book := ((parse s).bind snapOf).map Book.load

/-- `Market<ASSETS, _>`: `#[serde_as(as = "[_; ASSETS]")] order_books` — exactly `n` books. -/
def marketOf (n : Nat) : J → Option (List Snap)
  | .obj ms => do
    let books ← (field ms "order_books").bind (listOf snapOf)
    if books.length = n then pure books else none
  | _ => none

/-- The text `Market::save_json(path, pretty)` writes. -/
def saveMarketText (books : List Book) (pretty : Bool) : List Char :=
  if pretty then renderPretty 0 (marketJ (books.map Book.save)) else renderCompact (marketJ (books.map Book.save))

/-- `Market::<n, _>::load_json` on a text. -/
def loadMarketText (n : Nat) (s : List Char) : Option (List Book) :=
  ((parse s).bind (marketOf n)).map fun snaps => snaps.map Book.load

end Json
end Bourse
