/-
Layer I — `crates/order_book/src/side.rs`: one side of the book.
`OrderBookSide { vol, volumes, orders }` with the separately maintained
aggregates. The bid/ask wrappers differ only in the price-key flip, which is
`priceKey` in `Types`.

Arithmetic that can underflow in Rust (`-=` on `u32`) or `unwrap()` a missing
level is an explicit fault site: the operation sets the sticky `fault` flag
(and continues with truncated subtraction so that the function stays total).
-/
import Bourse.Model.Types
import Bourse.Model.SMap

namespace Bourse

structure SideS where
  vol     : Nat
  /-- price key ↦ (volume, order count) -/
  volumes : SMap Nat (Nat × Nat)
  /-- (price key, stamp) ↦ order id -/
  orders  : SMap (Nat × Nat) Nat
  fault   : Bool
  deriving DecidableEq, Repr, Inhabited

namespace SideS

def empty : SideS := { vol := 0, volumes := [], orders := [], fault := false }

/-- `insert_order`. `+=` overflow (≥ 2^32) is a fault. -/
def insertOrder (s : SideS) (pk st id vol : Nat) : SideS :=
  let orders := SMap.insert (pk, st) id s.orders
  let (volumes, ovf) :=
    match SMap.find? pk s.volumes with
    | some (v, n) => (SMap.insert pk (v + vol, n + 1) s.volumes, decide (v + vol ≥ P32 ∨ n + 1 ≥ P32))
    | none => (SMap.insert pk (vol, 1) s.volumes, false)
  { vol := s.vol + vol, volumes := volumes, orders := orders,
    fault := s.fault || ovf || decide (s.vol + vol ≥ P32) }

/-- `remove_order`. -/
def removeOrder (s : SideS) (pk st vol : Nat) : SideS :=
  let orders := SMap.erase (pk, st) s.orders
  match SMap.find? pk s.volumes with
  | none => { s with orders := orders, fault := true }
  | some (v, n) =>
    let bad := decide (v < vol ∨ n < 1 ∨ s.vol < vol)
    let volumes :=
      if n - 1 = 0 then SMap.erase pk s.volumes
      else SMap.insert pk (v - vol, n - 1) s.volumes
    { vol := s.vol - vol, volumes := volumes, orders := orders, fault := s.fault || bad }

/-- `remove_vol`. -/
def removeVol (s : SideS) (pk vol : Nat) : SideS :=
  match SMap.find? pk s.volumes with
  | none => { s with fault := true }
  | some (v, n) =>
    { s with vol := s.vol - vol, volumes := SMap.insert pk (v - vol, n) s.volumes,
             fault := s.fault || decide (v < vol ∨ s.vol < vol) }

/-- `OrderBookSide::best_price` (a price *key*; `MAXP` when empty). -/
def bestKey (s : SideS) : Nat :=
  match SMap.first? s.orders with
  | some (k, _) => k.1
  | none => MAXP

def bestVolAndOrders (s : SideS) : Nat × Nat :=
  match SMap.first? s.volumes with
  | some (_, v) => v
  | none => (0, 0)

def bestVol (s : SideS) : Nat := (s.bestVolAndOrders).1

def bestOrderIdx (s : SideS) : Option Nat :=
  (SMap.first? s.orders).map (·.2)

def volAndOrdersAtKey (s : SideS) (pk : Nat) : Nat × Nat :=
  match SMap.find? pk s.volumes with
  | some x => x
  | none => (0, 0)

end SideS

/-- `BidSide::best_price` / `AskSide::best_price`: the touch *price* of a side. -/
def bestPrice : Side → SideS → Nat
  | .bid, s => MAXP - s.bestKey
  | .ask, s => s.bestKey

end Bourse
