/-
Who is the aggressor of a logged trade: every record an operation appends names, as its ACTIVE order,
the order that operation placed or re-priced. Proved on the reference engine (the match loop only
ever writes the id of the aggressor it was given) and transferred through the refinement.
-/
import Bourse.Lemmas.RefLedgerStep
import Bourse.Lemmas.RestGrid

namespace Bourse
namespace Ref

/-- The match loop appends records whose `active` field is the aggressor's id. -/
theorem matchQ_active (t : Nat) (q : List Nat) (st : MatchSt) :
    ∃ new, (matchQ t q st).2.trades = st.trades ++ new ∧ (∀ tr ∈ new, tr.active = st.agg.id) ∧
      (matchQ t q st).2.agg.id = st.agg.id := by
  induction q generalizing st with
  | nil => exact ⟨[], by simp [matchQ], by simp, by simp [matchQ]⟩
  | cons j q ih =>
    have stop : matchQ t (j :: q) st = (j :: q, st) →
        ∃ new, (matchQ t (j :: q) st).2.trades = st.trades ++ new ∧ (∀ tr ∈ new, tr.active = st.agg.id) ∧
          (matchQ t (j :: q) st).2.agg.id = st.agg.id := by
      intro heq; rw [heq]; exact ⟨[], by simp, by simp, rfl⟩
    cases hpass : st.orders[j]? with
    | none => exact stop (by simp [matchQ, hpass])
    | some pass =>
      by_cases hcond : (decide (st.agg.vol > 0) && admits st.agg.side st.agg.price pass.price) = true
      · let fill := min st.agg.vol pass.vol
        let pass1 : Order := { pass with vol := pass.vol - fill }
        let pass' : Order := if pass1.vol = 0 then { pass1 with status := .filled, endt := t } else pass1
        let agg1 : Order := { st.agg with vol := st.agg.vol - fill }
        let agg' : Order := if agg1.vol = 0 then { agg1 with status := .filled, endt := t } else agg1
        let tr : Trade := { t := t, side := pass.side, price := pass.price, vol := fill, active := st.agg.id, passive := pass.id }
        let st' : MatchSt := { orders := st.orders.set j pass', trades := st.trades ++ [tr],
                               tradeVol := st.tradeVol + fill, agg := agg' }
        have hunf : matchQ t (j :: q) st = if pass'.vol = 0 then matchQ t q st' else (j :: q, st') := by
          simp only [matchQ, hpass, hcond, if_true]
          rfl
        have hid : agg'.id = st.agg.id := by
          simp only [agg', agg1]; split <;> rfl
        by_cases hz : pass'.vol = 0
        · rw [hunf, if_pos hz]
          obtain ⟨new, h1, h2, h3⟩ := ih st'
          refine ⟨tr :: new, ?_, ?_, h3.trans hid⟩
          · rw [h1]; simp [st']
          · intro x hx
            rcases List.mem_cons.mp hx with rfl | hx
            · rfl
            · rw [h2 x hx]; exact hid
        · rw [hunf, if_neg hz]
          exact ⟨[tr], by simp [st'], by simp [tr], hid⟩
      · apply stop
        simp only [matchQ, hpass]
        simp only [hcond, Bool.false_eq_true, if_false]

theorem matchPhase_active (s : RState) (agg : Order) :
    ∃ new, (matchPhase s agg).1.trades = s.trades ++ new ∧ ∀ tr ∈ new, tr.active = agg.id := by
  unfold matchPhase
  split
  · obtain ⟨new, h1, h2, _⟩ := matchQ_active s.t (s.queue agg.side.opp)
      { orders := s.orders, trades := s.trades, tradeVol := s.tradeVol, agg := agg }
    exact ⟨new, h1, h2⟩
  · exact ⟨[], by simp, by simp⟩

/-- An arriving order: every record appended names it as the active order. -/
theorem enter_active (s : RState) (agg : Order) (market : Bool) :
    ∃ new, (enter s agg market).1.trades = s.trades ++ new ∧ ∀ tr ∈ new, tr.active = agg.id := by
  obtain ⟨new, h1, h2⟩ := matchPhase_active s agg
  rw [enter_eq]
  split
  · exact ⟨[], by simp, by simp⟩
  · split
    · exact ⟨new, h1, h2⟩
    · split
      · exact ⟨new, h1, h2⟩
      · exact ⟨new, by rw [setQueue_trades]; exact h1, h2⟩

/-- The order an operation places or re-prices (`none`: the operation cannot trade). -/
def subject (s : RState) : Op → Option Nat
  | .place i | .ev (.new i) | .modify i _ _ | .ev (.modify i _ _) => some i
  | .cap .. => some s.orders.length
  | _ => none

theorem place_active (s : RState) (hw : ∀ (id : Nat) (o : Order), s.orders[id]? = some o → o.id = id) (id : Nat) :
    ∃ new, (place s id).trades = s.trades ++ new ∧ ∀ tr ∈ new, tr.active = id := by
  unfold place
  cases ho : s.orders[id]? with
  | none => exact ⟨[], by simp, by simp⟩
  | some o =>
    simp only
    split
    · exact ⟨[], by simp, by simp⟩
    · obtain ⟨new, h1, h2⟩ := enter_active s { o with status := .active, arr := s.t } (Book.isMarket o)
      refine ⟨new, h1, ?_⟩
      intro tr htr
      rw [h2 tr htr]
      exact hw id o ho

theorem modify_active (s : RState) (hw : ∀ (id : Nat) (o : Order), s.orders[id]? = some o → o.id = id) (id : Nat)
    (np nv : Option Nat) :
    ∃ new, (modify s id np nv).trades = s.trades ++ new ∧ ∀ tr ∈ new, tr.active = id := by
  have same : modify s id np nv = s → ∃ new, (modify s id np nv).trades = s.trades ++ new ∧ ∀ tr ∈ new, tr.active = id := by
    intro heq; rw [heq]; exact ⟨[], by simp, by simp⟩
  cases h0 : s.orders[id]? with
  | none => exact same (by simp [modify, h0])
  | some o =>
    by_cases hg : Book.offGrid s.tick np = true
    · exact same (by simp [modify, h0, hg])
    · have hgf : Book.offGrid s.tick np = false := by simpa using hg
      by_cases ha : o.status = .active
      · by_cases hnn : np = none ∧ nv = none
        · obtain ⟨rfl, rfl⟩ := hnn
          exact same (by simp [modify, h0, hgf, ha])
        · by_cases hred : (np.isNone && decide (nv.getD o.vol < o.vol)) = true
          · have heq : modify s id np nv = { s with orders := s.orders.set id { o with vol := nv.getD o.vol } } := by
              unfold modify
              simp only [h0, hgf, Bool.false_eq_true, ↓reduceIte, ha, ne_eq, not_true_eq_false]
              split
              · exact absurd ⟨rfl, rfl⟩ hnn
              · rw [if_pos hred]
            rw [heq]; exact ⟨[], by simp, by simp⟩
          · have heq : modify s id np nv =
                { (enter (s.setQueue o.side ((s.queue o.side).erase id))
                      { o with vol := nv.getD o.vol, price := np.getD o.price } false).1 with
                  orders := (enter (s.setQueue o.side ((s.queue o.side).erase id))
                      { o with vol := nv.getD o.vol, price := np.getD o.price } false).1.orders.set id
                    (enter (s.setQueue o.side ((s.queue o.side).erase id))
                      { o with vol := nv.getD o.vol, price := np.getD o.price } false).2 } := by
              unfold modify
              simp only [h0, hgf, Bool.false_eq_true, ↓reduceIte, ha, ne_eq, not_true_eq_false]
              split
              · exact absurd ⟨rfl, rfl⟩ hnn
              · rw [if_neg hred]
            obtain ⟨new, h1, h2⟩ := enter_active (s.setQueue o.side ((s.queue o.side).erase id))
              { o with vol := nv.getD o.vol, price := np.getD o.price } false
            rw [heq]
            refine ⟨new, by simpa using h1, ?_⟩
            intro tr htr
            rw [h2 tr htr]
            exact hw id o h0
      · exact same (by simp [modify, h0, hgf, ha])

end Ref
end Bourse

namespace Bourse
namespace Ref

theorem create_trades (s : RState) (sd : Side) (vol tr : Nat) (p : Option Nat) :
    (create s sd vol tr p).1.trades = s.trades := by
  unfold create
  cases p with
  | none => rfl
  | some q => simp only; split <;> rfl

theorem create_ids (s : RState) (hw : ∀ (id : Nat) (o : Order), s.orders[id]? = some o → o.id = id)
    (sd : Side) (vol tr : Nat) (p : Option Nat) :
    ∀ (id : Nat) (o : Order), (create s sd vol tr p).1.orders[id]? = some o → o.id = id := by
  have happ : ∀ (id : Nat) (o : Order),
      (s.orders ++ [Book.mkOrder s.t sd vol tr p s.orders.length])[id]? = some o → o.id = id := by
    intro id o ho
    rcases Nat.lt_or_ge id s.orders.length with hlt | hge
    · rw [List.getElem?_append_left hlt] at ho; exact hw id o ho
    · rw [List.getElem?_append_right hge] at ho
      cases hk : id - s.orders.length with
      | zero =>
        rw [hk] at ho
        simp only [List.getElem?_cons_zero, Option.some.injEq] at ho
        rw [← ho]; simp only [Book.mkOrder]; omega
      | succ k => rw [hk] at ho; simp at ho
  unfold create
  cases p with
  | none => exact happ
  | some q =>
    simp only
    split
    · exact hw
    · exact happ

theorem cancel_trades (s : RState) (id : Nat) : (cancel s id).trades = s.trades := by
  unfold cancel
  split
  · rfl
  · split
    · simp
    · rfl

/-- **Every record an operation appends names, as its active order, the order that operation placed
or re-priced**; operations that place or re-price nothing append nothing. -/
theorem step_active (s : RState) (hw : ∀ (id : Nat) (o : Order), s.orders[id]? = some o → o.id = id) (op : Op) :
    ∃ new, (step s op).1.trades = s.trades ++ new ∧ ∀ tr ∈ new, subject s op = some tr.active := by
  have none_case : ∀ (s' : RState), s'.trades = s.trades → ∃ new, s'.trades = s.trades ++ new ∧
      ∀ tr ∈ new, subject s op = some tr.active := fun s' h => ⟨[], by simp [h], by simp⟩
  have sub_case : ∀ (s' : RState) (i : Nat), subject s op = some i →
      (∃ new, s'.trades = s.trades ++ new ∧ ∀ tr ∈ new, tr.active = i) →
      ∃ new, s'.trades = s.trades ++ new ∧ ∀ tr ∈ new, subject s op = some tr.active := by
    intro s' i hs ⟨new, h1, h2⟩
    exact ⟨new, h1, fun tr htr => by rw [hs, h2 tr htr]⟩
  cases op with
  | create sd vol tr p => exact none_case _ (create_trades s sd vol tr p)
  | place id => exact sub_case _ id rfl (place_active s hw id)
  | cap sd vol tr p =>
    simp only [step]
    split
    · rename_i s' id' heq
      have h1 : (create s sd vol tr p).1 = s' := by rw [heq]
      have h2 : (create s sd vol tr p).2 = .ok id' := by rw [heq]
      have hid : id' = s.orders.length := by
        unfold create at h2
        cases p with
        | none => simp at h2; exact h2.symm
        | some q =>
          simp only at h2
          split at h2
          · cases h2
          · simp at h2; exact h2.symm
      have hw' := create_ids s hw sd vol tr p
      rw [h1] at hw'
      obtain ⟨new, e1, e2⟩ := place_active s' hw' id'
      have ht : s'.trades = s.trades := by rw [← h1]; exact create_trades s sd vol tr p
      refine sub_case _ s.orders.length rfl ⟨new, by rw [e1, ht], ?_⟩
      intro x hx; rw [e2 x hx, hid]
    · rename_i r hne
      exact none_case _ (by
        have := create_trades s sd vol tr p
        exact this)
  | cancel id => exact none_case _ (cancel_trades s id)
  | modify id p v => exact sub_case _ id rfl (modify_active s hw id p v)
  | ev e =>
    cases e with
    | new id => exact sub_case _ id rfl (place_active s hw id)
    | cancel id => exact none_case _ (cancel_trades s id)
    | modify id p v => exact sub_case _ id rfl (modify_active s hw id p v)
  | time t => exact none_case _ rfl
  | trading on => exact none_case _ rfl
  | resetVol => exact none_case _ rfl
  | reload => exact none_case _ rfl

end Ref

/-- The same for the implementation model, in every state satisfying the invariant (every reachable
state), through the refinement. -/
theorem book_step_active {b : Book} (h : Inv b) (op : Op) (hv : ValidOp op) (hnf : (b.step op).1.faulted = false) :
    ∃ new, (b.step op).1.trades = b.trades ++ new ∧ ∀ tr ∈ new, Ref.subject (abs b) op = some tr.active := by
  have hs := step_refines h op hv hnf
  have ht : (b.step op).1.trades = (Ref.step (abs b) op).1.trades := by
    rw [← hs.1]; rfl
  obtain ⟨new, h1, h2⟩ := Ref.step_active (abs b) (qwf_abs h).ids op
  exact ⟨new, by rw [ht, h1]; rfl, h2⟩

end Bourse

namespace Bourse
namespace Ref

/-- The match loop appends records whose `passive` field is a member of the queue it walks (given
that table indices are the orders' ids). -/
theorem matchQ_passive (t : Nat) (q : List Nat) (st : MatchSt)
    (hw : ∀ (id : Nat) (o : Order), st.orders[id]? = some o → o.id = id) :
    ∃ new, (matchQ t q st).2.trades = st.trades ++ new ∧ ∀ tr ∈ new, tr.passive ∈ q := by
  induction q generalizing st with
  | nil => exact ⟨[], by simp [matchQ], by simp⟩
  | cons j q ih =>
    have stop : matchQ t (j :: q) st = (j :: q, st) →
        ∃ new, (matchQ t (j :: q) st).2.trades = st.trades ++ new ∧ ∀ tr ∈ new, tr.passive ∈ j :: q := by
      intro heq; rw [heq]; exact ⟨[], by simp, by simp⟩
    cases hpass : st.orders[j]? with
    | none => exact stop (by simp [matchQ, hpass])
    | some pass =>
      by_cases hcond : (decide (st.agg.vol > 0) && admits st.agg.side st.agg.price pass.price) = true
      · let fill := min st.agg.vol pass.vol
        let pass1 : Order := { pass with vol := pass.vol - fill }
        let pass' : Order := if pass1.vol = 0 then { pass1 with status := .filled, endt := t } else pass1
        let agg1 : Order := { st.agg with vol := st.agg.vol - fill }
        let agg' : Order := if agg1.vol = 0 then { agg1 with status := .filled, endt := t } else agg1
        let tr : Trade := { t := t, side := pass.side, price := pass.price, vol := fill, active := st.agg.id, passive := pass.id }
        let st' : MatchSt := { orders := st.orders.set j pass', trades := st.trades ++ [tr],
                               tradeVol := st.tradeVol + fill, agg := agg' }
        have hunf : matchQ t (j :: q) st = if pass'.vol = 0 then matchQ t q st' else (j :: q, st') := by
          simp only [matchQ, hpass, hcond, if_true]
          rfl
        have hpid : pass.id = j := hw j pass hpass
        have hpid' : pass'.id = pass.id := by simp only [pass', pass1]; split <;> rfl
        have hw' : ∀ (id : Nat) (o : Order), st'.orders[id]? = some o → o.id = id := by
          intro id o ho
          simp only [st'] at ho
          by_cases hij : id = j
          · subst hij
            have hlt : id < st.orders.length := (List.getElem?_eq_some_iff.mp hpass).1
            simp [hlt] at ho
            rw [← ho, hpid', hpid]
          · rw [List.getElem?_set_ne (Ne.symm hij)] at ho
            exact hw id o ho
        by_cases hz : pass'.vol = 0
        · rw [hunf, if_pos hz]
          obtain ⟨new, h1, h2⟩ := ih st' hw'
          refine ⟨tr :: new, by rw [h1]; simp [st'], ?_⟩
          intro x hx
          rcases List.mem_cons.mp hx with rfl | hx
          · simp [tr, hpid]
          · exact List.mem_cons_of_mem _ (h2 x hx)
        · rw [hunf, if_neg hz]
          exact ⟨[tr], by simp [st'], by simp [tr, hpid]⟩
      · apply stop
        simp only [matchQ, hpass]
        simp only [hcond, Bool.false_eq_true, if_false]

/-- An arriving order trades only with members of the opposite queue. -/
theorem enter_passive (s : RState) (hw : ∀ (id : Nat) (o : Order), s.orders[id]? = some o → o.id = id)
    (agg : Order) (market : Bool) :
    ∃ new, (enter s agg market).1.trades = s.trades ++ new ∧ ∀ tr ∈ new, tr.passive ∈ s.queue agg.side.opp := by
  have hmp : ∃ new, (matchPhase s agg).1.trades = s.trades ++ new ∧ ∀ tr ∈ new, tr.passive ∈ s.queue agg.side.opp := by
    unfold matchPhase
    split
    · exact matchQ_passive s.t (s.queue agg.side.opp)
        { orders := s.orders, trades := s.trades, tradeVol := s.tradeVol, agg := agg } hw
    · exact ⟨[], by simp, by simp⟩
  obtain ⟨new, h1, h2⟩ := hmp
  rw [enter_eq]
  split
  · exact ⟨[], by simp, by simp⟩
  · split
    · exact ⟨new, h1, h2⟩
    · split
      · exact ⟨new, h1, h2⟩
      · exact ⟨new, by rw [setQueue_trades]; exact h1, h2⟩

end Ref
end Bourse

namespace Bourse
namespace Ref

/-- The passive order of every record appended by a placement or a re-pricing was RESTING (queued,
Active) before the operation. -/
theorem place_passive (s : RState) (hq : QWf s) (id : Nat) :
    ∃ new, (place s id).trades = s.trades ++ new ∧
      ∀ tr ∈ new, ∃ o, s.orders[tr.passive]? = some o ∧ o.status = .active := by
  unfold place
  cases ho : s.orders[id]? with
  | none => exact ⟨[], by simp, by simp⟩
  | some o =>
    simp only
    split
    · exact ⟨[], by simp, by simp⟩
    · obtain ⟨new, h1, h2⟩ := enter_passive s hq.ids { o with status := .active, arr := s.t } (Book.isMarket o)
      refine ⟨new, h1, ?_⟩
      intro tr htr
      obtain ⟨p, hp, hact, _⟩ := hq.qok _ _ (h2 tr htr)
      exact ⟨p, hp, hact⟩

theorem modify_passive (s : RState) (hq : QWf s) (id : Nat) (np nv : Option Nat) :
    ∃ new, (modify s id np nv).trades = s.trades ++ new ∧
      ∀ tr ∈ new, ∃ o, s.orders[tr.passive]? = some o ∧ o.status = .active := by
  have same : modify s id np nv = s → ∃ new, (modify s id np nv).trades = s.trades ++ new ∧
      ∀ tr ∈ new, ∃ o, s.orders[tr.passive]? = some o ∧ o.status = .active := by
    intro heq; rw [heq]; exact ⟨[], by simp, by simp⟩
  cases h0 : s.orders[id]? with
  | none => exact same (by simp [modify, h0])
  | some o =>
    by_cases hg : Book.offGrid s.tick np = true
    · exact same (by simp [modify, h0, hg])
    · have hgf : Book.offGrid s.tick np = false := by simpa using hg
      by_cases ha : o.status = .active
      · by_cases hnn : np = none ∧ nv = none
        · obtain ⟨rfl, rfl⟩ := hnn
          exact same (by simp [modify, h0, hgf, ha])
        · by_cases hred : (np.isNone && decide (nv.getD o.vol < o.vol)) = true
          · have heq : modify s id np nv = { s with orders := s.orders.set id { o with vol := nv.getD o.vol } } := by
              unfold modify
              simp only [h0, hgf, Bool.false_eq_true, ↓reduceIte, ha, ne_eq, not_true_eq_false]
              split
              · exact absurd ⟨rfl, rfl⟩ hnn
              · rw [if_pos hred]
            rw [heq]; exact ⟨[], by simp, by simp⟩
          · have heq : modify s id np nv =
                { (enter (s.setQueue o.side ((s.queue o.side).erase id))
                      { o with vol := nv.getD o.vol, price := np.getD o.price } false).1 with
                  orders := (enter (s.setQueue o.side ((s.queue o.side).erase id))
                      { o with vol := nv.getD o.vol, price := np.getD o.price } false).1.orders.set id
                    (enter (s.setQueue o.side ((s.queue o.side).erase id))
                      { o with vol := nv.getD o.vol, price := np.getD o.price } false).2 } := by
              unfold modify
              simp only [h0, hgf, Bool.false_eq_true, ↓reduceIte, ha, ne_eq, not_true_eq_false]
              split
              · exact absurd ⟨rfl, rfl⟩ hnn
              · rw [if_neg hred]
            have hids1 : ∀ (i : Nat) (x : Order), (s.setQueue o.side ((s.queue o.side).erase id)).orders[i]? = some x → x.id = i := by
              intro i x hx; rw [setQueue_orders'] at hx; exact hq.ids i x hx
            obtain ⟨new, h1, h2⟩ := enter_passive (s.setQueue o.side ((s.queue o.side).erase id)) hids1
              { o with vol := nv.getD o.vol, price := np.getD o.price } false
            rw [heq]
            refine ⟨new, by simpa using h1, ?_⟩
            intro tr htr
            have hm := h2 tr htr
            have hqo : (s.setQueue o.side ((s.queue o.side).erase id)).queue o.side.opp = s.queue o.side.opp := by
              cases o.side <;> rfl
            simp only at hm
            rw [hqo] at hm
            obtain ⟨p, hp, hact, _⟩ := hq.qok _ _ hm
            exact ⟨p, hp, hact⟩
      · exact same (by simp [modify, h0, hgf, ha])

end Ref
end Bourse



namespace Bourse
namespace Ref

theorem create_orders (s : RState) (sd : Side) (vol tr : Nat) (p : Option Nat) :
    (create s sd vol tr p).1.orders = s.orders ∨
    (create s sd vol tr p).1.orders = s.orders ++ [Book.mkOrder s.t sd vol tr p s.orders.length] := by
  unfold create
  cases p with
  | none => exact Or.inr rfl
  | some q => simp only; split
              · exact Or.inl rfl
              · exact Or.inr rfl

/-- `create_and_place_order`: the passive order of every appended record was resting before the call. -/
theorem cap_passive (s : RState) (hq : QWf s) (sd : Side) (vol tr : Nat) (p : Option Nat) :
    ∃ new, (step s (.cap sd vol tr p)).1.trades = s.trades ++ new ∧
      ∀ x ∈ new, ∃ o, s.orders[x.passive]? = some o ∧ o.status = .active := by
  simp only [step]
  split
  · rename_i s' id' heq
    have h1 : (create s sd vol tr p).1 = s' := by rw [heq]
    have hq' : QWf s' := by rw [← h1]; exact qwf_create s hq sd vol tr p
    have ht : s'.trades = s.trades := by rw [← h1]; exact create_trades s sd vol tr p
    obtain ⟨new, e1, e2⟩ := place_passive s' hq' id'
    refine ⟨new, by rw [e1, ht], ?_⟩
    intro x hx
    obtain ⟨o, ho, hact⟩ := e2 x hx
    rcases create_orders s sd vol tr p with hsame | happ
    · rw [← h1, hsame] at ho; exact ⟨o, ho, hact⟩
    · rw [← h1, happ] at ho
      rcases Nat.lt_or_ge x.passive s.orders.length with hlt | hge
      · rw [List.getElem?_append_left hlt] at ho; exact ⟨o, ho, hact⟩
      · rw [List.getElem?_append_right hge] at ho
        cases hk : x.passive - s.orders.length with
        | zero =>
          rw [hk] at ho
          simp only [List.getElem?_cons_zero, Option.some.injEq] at ho
          rw [← ho] at hact
          simp [Book.mkOrder] at hact
        | succ k => rw [hk] at ho; simp at ho
  · rename_i r hne
    exact ⟨[], by simp [create_trades], by simp⟩

end Ref
end Bourse

namespace Bourse

/-- Implementation model, every state satisfying the invariant: the passive order of every record
appended by a placement (of an existing order, or create-and-place) or by a modification was resting (Active) before the operation. -/
theorem book_passive_was_resting {b : Book} (h : Inv b) (op : Op) (hv : ValidOp op) (hnf : (b.step op).1.faulted = false)
    (hop : (∃ i, op = .place i) ∨ (∃ i, op = .ev (.new i)) ∨ (∃ i p v, op = .modify i p v) ∨ (∃ i p v, op = .ev (.modify i p v)) ∨
      (∃ sd vol tr p, op = .cap sd vol tr p)) :
    ∃ new, (b.step op).1.trades = b.trades ++ new ∧
      ∀ tr ∈ new, ∃ e, b.orders[tr.passive]? = some e ∧ e.order.status = .active := by
  have hs := step_refines h op hv hnf
  have ht : (b.step op).1.trades = (Ref.step (abs b) op).1.trades := by
    rw [← hs.1]; rfl
  have hq := qwf_abs h
  have key : ∃ new, (Ref.step (abs b) op).1.trades = (abs b).trades ++ new ∧
      ∀ tr ∈ new, ∃ o, (abs b).orders[tr.passive]? = some o ∧ o.status = .active := by
    rcases hop with ⟨i, rfl⟩ | ⟨i, rfl⟩ | ⟨i, p, v, rfl⟩ | ⟨i, p, v, rfl⟩ | ⟨sd, vol, tr, p, rfl⟩
    · exact Ref.place_passive (abs b) hq i
    · exact Ref.place_passive (abs b) hq i
    · exact Ref.modify_passive (abs b) hq i p v
    · exact Ref.modify_passive (abs b) hq i p v
    · exact Ref.cap_passive (abs b) hq sd vol tr p
  obtain ⟨new, h1, h2⟩ := key
  refine ⟨new, by rw [ht, h1]; rfl, ?_⟩
  intro tr htr
  obtain ⟨o, ho, hact⟩ := h2 tr htr
  rw [abs_get] at ho
  cases he : b.orders[tr.passive]? with
  | none => rw [he] at ho; cases ho
  | some e =>
    rw [he] at ho
    simp only [Option.map_some, Option.some.injEq] at ho
    exact ⟨e, rfl, by rw [ho]; exact hact⟩

end Bourse
