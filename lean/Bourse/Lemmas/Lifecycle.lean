/-
The order lifecycle is a one-way state machine (C04): through every valid, fault-free operation
each order's status only advances, a terminal order's record never changes again, and id, side,
trader and starting volume are immutable.
-/
import Bourse.Lemmas.Reach

namespace Bourse

/-- Allowed status moves (including staying put). -/
def Adv : Status → Status → Bool
  | .new, _ => true
  | .active, .active | .active, .filled | .active, .cancelled => true
  | .filled, .filled | .cancelled, .cancelled | .rejected, .rejected => true
  | _, _ => false

def isTerminal : Status → Bool
  | .filled | .cancelled | .rejected => true
  | _ => false

/-- `e'` is a legal successor of table entry `e`. -/
def EntryAdv (e e' : Entry) : Prop :=
  Adv e.order.status e'.order.status = true ∧ e'.order.id = e.order.id ∧ e'.order.side = e.order.side ∧
  e'.order.trader = e.order.trader ∧ e'.order.svol = e.order.svol ∧
  (isTerminal e.order.status = true → e'.order = e.order)

theorem EntryAdv.refl (e : Entry) : EntryAdv e e := by
  refine ⟨?_, rfl, rfl, rfl, rfl, fun _ => rfl⟩
  cases e.order.status <;> rfl

theorem Adv_trans {a b c : Status} (h1 : Adv a b = true) (h2 : Adv b c = true) : Adv a c = true := by
  cases a <;> cases b <;> cases c <;> simp_all [Adv]

theorem Adv_terminal {a b : Status} (h : Adv a b = true) (ht : isTerminal a = true) : b = a := by
  cases a <;> cases b <;> simp_all [Adv, isTerminal]

theorem EntryAdv.trans {a b c : Entry} (h1 : EntryAdv a b) (h2 : EntryAdv b c) : EntryAdv a c := by
  obtain ⟨s1, i1, d1, t1, v1, f1⟩ := h1
  obtain ⟨s2, i2, d2, t2, v2, f2⟩ := h2
  refine ⟨Adv_trans s1 s2, i2.trans i1, d2.trans d1, t2.trans t1, v2.trans v1, ?_⟩
  intro ht
  have hb := f1 ht
  have : isTerminal b.order.status = true := by rw [hb]; exact ht
  rw [f2 this, hb]

/-- Every entry of `os` has a legal successor at the same index of `os'` (the table may grow). -/
def TableAdv (os os' : List Entry) : Prop := ∀ (i : Nat) (e : Entry), os[i]? = some e → ∃ e', os'[i]? = some e' ∧ EntryAdv e e'

theorem TableAdv.refl (os : List Entry) : TableAdv os os := fun _ e h => ⟨e, h, EntryAdv.refl e⟩

theorem TableAdv.trans {a b c : List Entry} (h1 : TableAdv a b) (h2 : TableAdv b c) : TableAdv a c := by
  intro i e he
  obtain ⟨e1, he1, r1⟩ := h1 i e he
  obtain ⟨e2, he2, r2⟩ := h2 i e1 he1
  exact ⟨e2, he2, r1.trans r2⟩

theorem TableAdv.set {os : List Entry} {i : Nat} {e e' : Entry} (he : os[i]? = some e) (h : EntryAdv e e') :
    TableAdv os (os.set i e') := by
  intro j x hx
  by_cases hji : j = i
  · subst hji
    rw [he] at hx; injection hx with hx; subst hx
    have hlt := (List.getElem?_eq_some_iff.mp he).1
    exact ⟨e', by simp [hlt], h⟩
  · exact ⟨x, by simp [List.getElem?_set, Ne.symm hji, hx], EntryAdv.refl x⟩

theorem TableAdv.append (os : List Entry) (x : Entry) : TableAdv os (os ++ [x]) := by
  intro i e he
  have hlt := (List.getElem?_eq_some_iff.mp he).1
  exact ⟨e, by rw [List.getElem?_append_left hlt]; exact he, EntryAdv.refl e⟩

/-- One fill only moves the passive order Active → Active/Filled; the aggressor's table entry is
untouched. -/
theorem fillStep_tableAdv {b : Book} {a : Nat} (h : LoopInv b a) (sd : Side) (e : Entry) (id : Nat) (m : Entry)
    (hh : (b.side sd.opp).bestOrderIdx = some id) (hm : b.orders[id]? = some m) :
    TableAdv b.orders (Book.fillStep sd b e id m).1.orders ∧ id ≠ a := by
  obtain ⟨k, hmem⟩ := bestOrderIdx_mem hh
  obtain ⟨m0, hm0, hact, _⟩ := (h.side sd.opp).ent k id hmem
  rw [hm] at hm0; injection hm0 with hm0; subst hm0
  have hida : id ≠ a := fun hc => h.out sd.opp k (hc ▸ hmem)
  have hords : (Book.fillStep sd b e id m).1.orders = b.orders.set id { m with order := (Book.matchOrders b.t e.order m.order).2.1 } := by
    simp [Book.fillStep]
  rw [hords]
  refine ⟨TableAdv.set hm ?_, hida⟩
  have hi := Book.matchOrders_ident b.t e.order m.order
  have hp := matchOrders_passive b.t e.order m.order
  refine ⟨?_, hi.2.2.2.2.2.2.1, hi.2.2.2.2.2.2.2.1, hi.2.2.2.2.2.2.2.2.1, hi.2.2.2.2.2.2.2.2.2.2.1, ?_⟩
  · simp only
    by_cases hz : m.order.vol - min e.order.vol m.order.vol = 0
    · rw [hp.2.2.2.2.2.1 hz, hact]; rfl
    · rw [hp.2.2.2.2.2.2 hz, hact]; rfl
  · intro ht; rw [hact] at ht; cases ht

theorem matchLoop_tableAdv {b : Book} {a : Nat} (h : LoopInv b a) (sd : Side) (fuel : Nat) (e : Entry)
    (hnf : (Book.matchLoop sd fuel b e).1.faulted = false) :
    TableAdv b.orders (Book.matchLoop sd fuel b e).1.orders ∧
    (Book.matchLoop sd fuel b e).1.orders[a]? = b.orders[a]? := by
  induction fuel generalizing b e with
  | zero => simp [Book.matchLoop, Book.faulted] at hnf
  | succ fuel ih =>
    by_cases hcond : (decide (e.order.vol > 0) && Book.crosses sd e.order.price (bestPrice sd.opp (b.side sd.opp))) = true
    · cases hsome : (b.side sd.opp).bestOrderIdx with
      | none =>
        have : Book.matchLoop sd (fuel + 1) b e = (b, e) := by simp [Book.matchLoop, hcond, hsome]
        rw [this]; exact ⟨TableAdv.refl _, rfl⟩
      | some id =>
        cases hm : b.orders[id]? with
        | none =>
          have : Book.matchLoop sd (fuel + 1) b e = ({ b with fault := true }, e) := by
            simp [Book.matchLoop, hcond, hsome, hm]
          rw [this] at hnf; simp [Book.faulted] at hnf
        | some m =>
          have heq : Book.matchLoop sd (fuel + 1) b e =
              Book.matchLoop sd fuel (Book.fillStep sd b e id m).1 (Book.fillStep sd b e id m).2 := by
            simp [Book.matchLoop, hcond, hsome, hm]
          rw [heq] at hnf ⊢
          have hv : 0 < e.order.vol := by
            simp only [Bool.and_eq_true, decide_eq_true_eq] at hcond; exact hcond.1
          have hstep : (Book.fillStep sd b e id m).1.faulted = false := by
            cases hf : (Book.fillStep sd b e id m).1.faulted with
            | false => rfl
            | true => rw [matchLoop_faulted_mono _ _ _ _ hf] at hnf; cases hnf
          have hl := h.fillStep sd e id m hsome hm hv hstep
          have hfs := fillStep_tableAdv h sd e id m hsome hm
          have hrec := ih hl _ hnf
          refine ⟨hfs.1.trans hrec.1, ?_⟩
          rw [hrec.2]
          simp [Book.fillStep, List.getElem?_set, hfs.2]
    · have : Book.matchLoop sd (fuel + 1) b e = (b, e) := by simp [Book.matchLoop, hcond]
      rw [this]; exact ⟨TableAdv.refl _, rfl⟩

theorem matchIfTrading_tableAdv {b : Book} {a : Nat} (h : LoopInv b a) (sd : Side) (e : Entry)
    (hnf : (Book.matchIfTrading sd b e).1.faulted = false) :
    TableAdv b.orders (Book.matchIfTrading sd b e).1.orders ∧
    (Book.matchIfTrading sd b e).1.orders[a]? = b.orders[a]? := by
  unfold Book.matchIfTrading Book.matchSide at hnf ⊢
  split
  · rename_i ht; simp only [ht, if_true] at hnf; exact matchLoop_tableAdv h sd _ e hnf
  · exact ⟨TableAdv.refl _, rfl⟩

/-- Writing the aggressor back: the old table entry `e0` of `a` moves to `e'`. -/
theorem tableAdv_writeBack {os os' : List Entry} {a : Nat} {e0 e' : Entry} (h : TableAdv os os')
    (ha : os[a]? = some e0) (hsame : os'[a]? = os[a]?) (hadv : EntryAdv e0 e') : TableAdv os (os'.set a e') := by
  intro i x hx
  by_cases hia : i = a
  · subst hia
    rw [ha] at hx; injection hx with hx; subst hx
    have hlt : i < os'.length := by
      rw [ha] at hsame; exact (List.getElem?_eq_some_iff.mp hsame).1
    exact ⟨e', by simp [hlt], hadv⟩
  · obtain ⟨x', hx', r⟩ := h i x hx
    exact ⟨x', by simp [List.getElem?_set, Ne.symm hia, hx'], r⟩

theorem Adv_from_live {s t : Status} (hs : s = .new ∨ s = .active) (ht : t = .active ∨ t = .filled ∨ t = .cancelled) :
    Adv s t = true := by
  rcases hs with rfl | rfl <;> rcases ht with rfl | rfl | rfl <;> rfl

/-- The limit flow (placement or re-entering modification) advances the table legally. -/
theorem limit_flow_tableAdv {b : Book} {a : Nat} (h : LoopInv b a) (sd : Side) (e e0 : Entry) (pk : Nat)
    (ha : b.orders[a]? = some e0) (hlive : e0.order.status = .new ∨ e0.order.status = .active)
    (hident : e.order.id = e0.order.id ∧ e.order.side = e0.order.side ∧ e.order.trader = e0.order.trader ∧
              e.order.svol = e0.order.svol)
    (hs : e.order.status = .active) (hv : 0 < e.order.vol)
    (hnf : (Book.writeBack (Book.restUnlessFilled sd (Book.matchIfTrading sd b e) pk) a).faulted = false) :
    TableAdv b.orders (Book.writeBack (Book.restUnlessFilled sd (Book.matchIfTrading sd b e) pk) a).orders := by
  have hr := Book.restUnlessFilled_trades sd (Book.matchIfTrading sd b e) pk
  have hmnf : (Book.matchIfTrading sd b e).1.faulted = false := by
    cases hc : (Book.matchIfTrading sd b e).1.faulted with
    | false => rfl
    | true =>
      rw [writeBack_faulted] at hnf
      unfold Book.restUnlessFilled at hnf
      split at hnf
      · rw [enqueue_faulted_mono _ _ _ _ hc] at hnf; cases hnf
      · rw [hc] at hnf; cases hnf
  have hm := matchIfTrading_tableAdv h sd e hmnf
  have hi := Book.matchIfTrading_ident sd b e
  have hst := matchIfTrading_agg_status sd b e hs hv
  simp only [Book.writeBack_orders, hr.2.2.2.2.2.1]
  refine tableAdv_writeBack hm.1 ha hm.2 ⟨?_, ?_, ?_, ?_, ?_, ?_⟩
  · rw [hr.2.2.2.2.2.2]
    rcases hst with hst | hst
    · exact Adv_from_live hlive (Or.inl hst.1)
    · exact Adv_from_live hlive (Or.inr (Or.inl hst))
  · rw [hr.2.2.2.2.2.2, hi.1]; exact hident.1
  · rw [hr.2.2.2.2.2.2, hi.2.1]; exact hident.2.1
  · rw [hr.2.2.2.2.2.2, hi.2.2.1]; exact hident.2.2.1
  · rw [hr.2.2.2.2.2.2, hi.2.2.2.2.1]; exact hident.2.2.2
  · intro ht; rcases hlive with hl | hl <;> rw [hl] at ht <;> cases ht

/-- **Lifecycle step.** Through every valid, fault-free operation, every order's status advances
only along New → Active → Filled/Cancelled (or New → Filled/Cancelled/Rejected), a terminal
order's record never changes, and id, side, trader and starting volume never change. -/
theorem lifecycle_step {b : Book} (h : Inv b) (op : Op) (hv : ValidOp op) (hnf : (b.step op).1.faulted = false) :
    TableAdv b.orders (b.step op).1.orders := by
  have hplace : ∀ (b : Book), Inv b → ∀ id, (b.placeOrder id).faulted = false → TableAdv b.orders (b.placeOrder id).orders := by
    intro b h id hnf
    cases he : b.orders[id]? with
    | none => simp [Book.placeOrder, he, Book.faulted] at hnf
    | some e =>
      by_cases hnew : e.order.status = .new
      · have hl := h.toLoop he (by rw [hnew]; simp)
        have hnk := h.newok id e he hnew
        by_cases hm : Book.isMarket (b.activate e).order = true
        · have heq : b.placeOrder id = Book.writeBack (Book.placeMarket (b.activate e).order.side b (b.activate e)) id := by
            simp [Book.placeOrder, he, hnew, Book.placeEntry, hm]
          rw [heq] at hnf ⊢
          by_cases ht : b.trading = true
          · have hident := Book.matchLoop_ident (b.activate e).order.side (Book.matchFuel b (b.activate e).order.side) b (b.activate e)
            have hfin : ∀ (x : Entry), Book.placeMarket (b.activate e).order.side b (b.activate e) =
                ((Book.matchSide (b.activate e).order.side b (b.activate e)).1, x) →
                x.order.id = e.order.id ∧ x.order.side = e.order.side ∧ x.order.trader = e.order.trader ∧
                x.order.svol = e.order.svol →
                TableAdv b.orders (Book.writeBack (Book.placeMarket (b.activate e).order.side b (b.activate e)) id).orders := by
              intro x hx hxi
              rw [hx] at hnf ⊢
              rw [writeBack_faulted] at hnf
              have hm2 := matchLoop_tableAdv hl (b.activate e).order.side _ (b.activate e) hnf
              simp only [Book.writeBack_orders]
              refine tableAdv_writeBack hm2.1 he hm2.2 ⟨by rw [hnew]; rfl, hxi.1, hxi.2.1, hxi.2.2.1, hxi.2.2.2, ?_⟩
              intro htm; rw [hnew] at htm; cases htm
            by_cases hfl : (Book.matchSide (b.activate e).order.side b (b.activate e)).2.order.status = .filled
            · refine hfin (Book.matchSide (b.activate e).order.side b (b.activate e)).2 (by simp [Book.placeMarket, ht, Book.cancelRemainder, hfl]) ?_
              simp only [Book.matchSide]
              exact ⟨hident.1, hident.2.1, hident.2.2.1, hident.2.2.2.2.1⟩
            · refine hfin { (Book.matchSide (b.activate e).order.side b (b.activate e)).2 with
                  order := { (Book.matchSide (b.activate e).order.side b (b.activate e)).2.order with
                    status := .cancelled, endt := (Book.matchSide (b.activate e).order.side b (b.activate e)).1.t } }
                (by simp [Book.placeMarket, ht, Book.cancelRemainder, hfl]) ?_
              simp only [Book.matchSide]
              exact ⟨hident.1, hident.2.1, hident.2.2.1, hident.2.2.2.2.1⟩
          · have heq2 : Book.placeMarket (b.activate e).order.side b (b.activate e) =
                (b, { (b.activate e) with order := { (b.activate e).order with status := .rejected, endt := b.t } }) := by
              simp [Book.placeMarket, ht]
            rw [heq2]
            simp only [Book.writeBack_orders]
            refine TableAdv.set he ⟨by rw [hnew]; rfl, rfl, rfl, rfl, rfl, ?_⟩
            intro htm; rw [hnew] at htm; cases htm
        · have heq : b.placeOrder id = Book.writeBack (Book.restUnlessFilled (b.activate e).order.side
              (Book.matchIfTrading (b.activate e).order.side b (b.activate e)) (b.activate e).key.pk) id := by
            simp [Book.placeOrder, he, hnew, Book.placeEntry, hm, Book.placeLimit]
          rw [heq] at hnf ⊢
          exact limit_flow_tableAdv hl _ (b.activate e) e _ he (Or.inl hnew) ⟨rfl, rfl, rfl, rfl⟩
            (by simp [Book.activate]) (by simpa [Book.activate] using hnk.2.1) hnf
      · have heq : b.placeOrder id = b := by simp [Book.placeOrder, he, hnew]
        rw [heq]; exact TableAdv.refl _
  have hcancel : ∀ id, TableAdv b.orders (b.cancelOrder id).orders := by
    intro id
    cases he : b.orders[id]? with
    | none => simp only [Book.cancelOrder, he]; exact TableAdv.refl _
    | some e =>
      by_cases hact : e.order.status = .active
      · simp only [Book.cancelOrder, he, hact, if_true, Book.setSide_orders]
        refine TableAdv.set he ⟨by rw [hact]; rfl, rfl, rfl, rfl, rfl, ?_⟩
        intro htm; rw [hact] at htm; cases htm
      · simp only [Book.cancelOrder, he, hact, if_false]; exact TableAdv.refl _
  have hmodify : ∀ id np nv, (∀ v, nv = some v → 0 < v) → (b.modifyOrder id np nv).faulted = false → TableAdv b.orders (b.modifyOrder id np nv).orders := by
    intro id np nv hvalid hnf
    cases he : b.orders[id]? with
    | none => simp [Book.modifyOrder, he, Book.faulted] at hnf
    | some e =>
      by_cases hg : Book.offGrid b.tick np = true
      · have : b.modifyOrder id np nv = b := by simp [Book.modifyOrder, he, hg]
        rw [this]; exact TableAdv.refl _
      · by_cases hact : e.order.status = .active
        · have heq : b.modifyOrder id np nv = Book.writeBack (b.modifyEntry e np nv) id := by
            simp [Book.modifyOrder, he, hg, hact]
          rw [heq] at hnf ⊢
          have hrep : ∀ p v, 0 < v → (Book.writeBack (b.replaceOrder e p v) id).faulted = false →
              TableAdv b.orders (Book.writeBack (b.replaceOrder e p v) id).orders := by
            intro p v hv hnf
            have hl := h.dequeue_loop he hact
            unfold Book.replaceOrder at hnf ⊢
            have := limit_flow_tableAdv hl e.key.side { e with order := { e.order with vol := v, price := p } } e
              (priceKey e.key.side p) (by simpa using he) (Or.inr hact) ⟨rfl, rfl, rfl, rfl⟩ (by simpa using hact) (by simpa using hv) hnf
            simpa using this
          have hepos : 0 < e.order.vol := by
            obtain ⟨e0, he0, _, _, _, _, hp, _, _⟩ := (h.side e.order.side).ent _ _ (h.act id e he hact)
            rw [he] at he0; injection he0 with he0; subst he0; exact hp
          cases np with
          | none =>
            cases nv with
            | none =>
              have : Book.writeBack (b.modifyEntry e none none) id = b := by
                simp [Book.modifyEntry, Book.writeBack, set_of_getElem? he]
              rw [this]; exact TableAdv.refl _
            | some v =>
              by_cases hlt : v < e.order.vol
              · have : b.modifyEntry e none (some v) = b.reduceOrderVol e (e.order.vol - v) := by
                  simp [Book.modifyEntry, hlt]
                rw [this]
                simp only [Book.writeBack_orders, Book.reduceOrderVol, Book.setSide_orders]
                refine TableAdv.set he ⟨by simp only; rw [hact]; rfl, rfl, rfl, rfl, rfl, ?_⟩
                intro htm; rw [hact] at htm; cases htm
              · have : b.modifyEntry e none (some v) = b.replaceOrder e e.order.price v := by
                  simp [Book.modifyEntry, hlt]
                rw [this] at hnf ⊢
                exact hrep _ _ (hvalid v rfl) hnf
          | some p =>
            cases nv with
            | none =>
              have : b.modifyEntry e (some p) none = b.replaceOrder e p e.order.vol := rfl
              rw [this] at hnf ⊢
              exact hrep _ _ hepos hnf
            | some v =>
              have : b.modifyEntry e (some p) (some v) = b.replaceOrder e p v := rfl
              rw [this] at hnf ⊢
              exact hrep _ _ (hvalid v rfl) hnf
        · have : b.modifyOrder id np nv = b := by simp [Book.modifyOrder, he, hg, hact]
          rw [this]; exact TableAdv.refl _
  cases op with
  | create sd vol tr p =>
    simp only [Book.step, Book.createOrder]
    split
    · split
      · exact TableAdv.refl _
      · exact TableAdv.append _ _
    · exact TableAdv.append _ _
  | place id => exact hplace b h id hnf
  | cap sd vol tr p =>
    have hc := h.create sd vol tr p hv.1 hv.2
    have hcr : TableAdv b.orders (b.createOrder sd vol tr p).1.orders := by
      simp only [Book.createOrder]
      split
      · split
        · exact TableAdv.refl _
        · exact TableAdv.append _ _
      · exact TableAdv.append _ _
    simp only [Book.step, Book.createAndPlace] at hnf ⊢
    split
    · rename_i id hid
      simp only [hid] at hnf
      exact hcr.trans (hplace _ hc id hnf)
    · exact hcr
  | cancel id => exact hcancel id
  | modify id p v => exact hmodify id p v hv.1 hnf
  | ev e =>
    cases e with
    | new id => exact hplace b h id hnf
    | cancel id => exact hcancel id
    | modify id p v => exact hmodify id p v hv.1 hnf
  | time t => exact TableAdv.refl _
  | trading on => cases on <;> exact TableAdv.refl _
  | resetVol => exact TableAdv.refl _
  | reload =>
    simp only [Book.step]
    split
    · exact TableAdv.refl _
    · rw [reload_eq h]; exact TableAdv.refl _

/-- Lifted over histories: from any state satisfying the invariant, after any valid fault-free
history every order that existed has a legal successor at the same index. -/
theorem lifecycle_run {b : Book} (h : Inv b) (ops : List Op) (hv : ∀ op ∈ ops, ValidOp op) (hnf : NoFault b ops) :
    TableAdv b.orders (b.run ops).orders := by
  induction ops generalizing b with
  | nil => exact TableAdv.refl _
  | cons op rest ih =>
    simp only [Book.run, List.foldl_cons]
    have h1 := lifecycle_step h op (hv op List.mem_cons_self) hnf.1
    have h2 := ih (inv_step h op (hv op List.mem_cons_self) hnf.1) (fun o ho => hv o (List.mem_cons_of_mem _ ho)) hnf.2
    exact h1.trans h2

end Bourse
