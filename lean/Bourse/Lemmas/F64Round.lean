/-
Correctly rounded binary64 arithmetic (`Model/F64.lean`): the rounding function `rnd` is monotone,
fixes every representable value (integers below 2^52 and half-integers below 2^53 in particular),
preserves sign, and in the normal range is within relative distance 2^-53 of the exact value.
Proved for the executable definition the driver runs against the hardware on every check.
-/
import Bourse.Model.F64
import Mathlib.Algebra.Order.Field.Rat
import Mathlib.Algebra.Order.Floor.Ring
import Mathlib.Data.Rat.Floor
import Mathlib.Tactic.Linarith
import Mathlib.Tactic.Positivity
import Mathlib.Tactic.Ring
import Mathlib.Tactic.FieldSimp
import Mathlib.Tactic.NormNum

namespace Bourse
namespace F64

theorem pow2_eq (e : Int) : pow2 e = (2 : ℚ) ^ e := by
  unfold pow2
  split
  · rename_i h
    obtain ⟨n, rfl⟩ := Int.eq_ofNat_of_zero_le h
    simp
  · rename_i h
    have h' : e < 0 := by omega
    obtain ⟨n, hn⟩ := Int.exists_eq_neg_ofNat (le_of_lt h')
    subst hn
    simp

theorem pow2_pos (e : Int) : 0 < pow2 e := by rw [pow2_eq]; exact zpow_pos (by norm_num) _

theorem pow2_add (a b : Int) : pow2 (a + b) = pow2 a * pow2 b := by
  simp only [pow2_eq]; exact zpow_add₀ (by norm_num) a b

theorem pow2_le {a b : Int} (h : a ≤ b) : pow2 a ≤ pow2 b := by
  simp only [pow2_eq]; exact zpow_le_zpow_right₀ (by norm_num) h

theorem pow2_lt {a b : Int} (h : a < b) : pow2 a < pow2 b := by
  simp only [pow2_eq]; exact zpow_lt_zpow_right₀ (by norm_num) h

theorem pow2_lt_iff {a b : Int} : pow2 a < pow2 b ↔ a < b := by
  constructor
  · intro h
    by_contra hn
    exact absurd (pow2_le (not_lt.mp hn)) (not_le.mpr h)
  · exact pow2_lt

theorem pow2_succ (a : Int) : pow2 (a + 1) = 2 * pow2 a := by
  rw [pow2_add]; simp [pow2_eq]; ring

/-- The specification of `ilog2`. -/
theorem ilog2_spec (x : ℚ) (hx : 0 < x) : pow2 (ilog2 x) ≤ x ∧ x < pow2 (ilog2 x + 1) := by
  have hnum : 0 < x.num := Rat.num_pos.mpr hx
  have hn0 : x.num.toNat ≠ 0 := by omega
  have hd0 : x.den ≠ 0 := x.den_nz
  have hn1 := Nat.log2_self_le hn0
  have hn2 := @Nat.lt_log2_self x.num.toNat
  have hd1 := Nat.log2_self_le hd0
  have hd2 := @Nat.lt_log2_self x.den
  set ln := Nat.log2 x.num.toNat
  set ld := Nat.log2 x.den
  have hx_eq : x = (x.num.toNat : ℚ) / (x.den : ℚ) := by
    have : ((x.num.toNat : ℤ) : ℚ) = (x.num : ℚ) := by
      rw [Int.toNat_of_nonneg (le_of_lt hnum)]
    rw [← Int.cast_natCast, this]
    exact (Rat.num_div_den x).symm
  have hdpos : (0 : ℚ) < (x.den : ℚ) := by exact_mod_cast Nat.pos_of_ne_zero hd0
  -- the bounds in ℚ
  have b1 : (2 : ℚ) ^ (ln : ℤ) ≤ (x.num.toNat : ℚ) := by
    rw [zpow_natCast]; exact_mod_cast hn1
  have b2 : (x.num.toNat : ℚ) < (2 : ℚ) ^ ((ln : ℤ) + 1) := by
    rw [show ((ln : ℤ) + 1) = ((ln + 1 : ℕ) : ℤ) by push_cast; rfl, zpow_natCast]; exact_mod_cast hn2
  have b3 : (2 : ℚ) ^ (ld : ℤ) ≤ (x.den : ℚ) := by
    rw [zpow_natCast]; exact_mod_cast hd1
  have b4 : (x.den : ℚ) < (2 : ℚ) ^ ((ld : ℤ) + 1) := by
    rw [show ((ld : ℤ) + 1) = ((ld + 1 : ℕ) : ℤ) by push_cast; rfl, zpow_natCast]; exact_mod_cast hd2
  -- x < 2^(e0+1) and 2^(e0-1) < x  where e0 = ln - ld
  have two_ne : (2 : ℚ) ≠ 0 := by norm_num
  have up : x < (2 : ℚ) ^ ((ln : ℤ) - (ld : ℤ) + 1) := by
    rw [hx_eq, div_lt_iff₀ hdpos]
    calc (x.num.toNat : ℚ) < (2 : ℚ) ^ ((ln : ℤ) + 1) := b2
      _ = (2 : ℚ) ^ ((ln : ℤ) - (ld : ℤ) + 1) * (2 : ℚ) ^ (ld : ℤ) := by
            rw [← zpow_add₀ two_ne]; congr 1; ring
      _ ≤ (2 : ℚ) ^ ((ln : ℤ) - (ld : ℤ) + 1) * (x.den : ℚ) :=
            mul_le_mul_of_nonneg_left b3 (le_of_lt (zpow_pos (by norm_num) _))
  have lo : (2 : ℚ) ^ ((ln : ℤ) - (ld : ℤ) - 1) < x := by
    rw [hx_eq, lt_div_iff₀ hdpos]
    calc (2 : ℚ) ^ ((ln : ℤ) - (ld : ℤ) - 1) * (x.den : ℚ)
          < (2 : ℚ) ^ ((ln : ℤ) - (ld : ℤ) - 1) * (2 : ℚ) ^ ((ld : ℤ) + 1) :=
            mul_lt_mul_of_pos_left b4 (zpow_pos (by norm_num) _)
      _ = (2 : ℚ) ^ (ln : ℤ) := by rw [← zpow_add₀ two_ne]; congr 1; ring
      _ ≤ (x.num.toNat : ℚ) := b1
  unfold ilog2
  simp only []
  split
  · rename_i h
    refine ⟨h, ?_⟩
    rw [pow2_eq]; exact up
  · rename_i h
    rw [pow2_eq] at h
    constructor
    · rw [pow2_eq]; exact le_of_lt lo
    · rw [pow2_eq]
      have : (ln : ℤ) - (ld : ℤ) - 1 + 1 = (ln : ℤ) - (ld : ℤ) := by ring
      rw [this]; exact not_le.mp h

/-- `ilog2` is characterised by its specification. -/
theorem ilog2_unique (x : ℚ) (e : Int) (h1 : pow2 e ≤ x) (h2 : x < pow2 (e + 1)) : ilog2 x = e := by
  have hx : 0 < x := lt_of_lt_of_le (pow2_pos e) h1
  obtain ⟨s1, s2⟩ := ilog2_spec x hx
  have a : ilog2 x < e + 1 := pow2_lt_iff.mp (lt_of_le_of_lt s1 h2)
  have b : e < ilog2 x + 1 := pow2_lt_iff.mp (lt_of_le_of_lt h1 s2)
  omega

theorem ilog2_mono {x y : ℚ} (hx : 0 < x) (h : x ≤ y) : ilog2 x ≤ ilog2 y := by
  have hy : 0 < y := lt_of_lt_of_le hx h
  obtain ⟨s1, _⟩ := ilog2_spec x hx
  obtain ⟨_, t2⟩ := ilog2_spec y hy
  have : ilog2 x < ilog2 y + 1 := pow2_lt_iff.mp (lt_of_le_of_lt (le_trans s1 h) t2)
  omega

theorem rne_bounds (q : ℚ) : q.floor ≤ rne q ∧ rne q ≤ q.floor + 1 := by
  unfold rne
  simp only []
  split
  · omega
  · split
    · omega
    · split <;> omega

theorem rne_int (z : ℤ) : rne (z : ℚ) = z := by
  unfold rne
  simp only [Rat.floor_intCast, sub_self]
  norm_num

theorem rne_err (q : ℚ) : |(rne q : ℚ) - q| ≤ 1 / 2 := by
  have h1 := Rat.floor_le q
  have h2 := Rat.lt_floor_add_one q
  push_cast at h2
  unfold rne
  simp only []
  split
  · rename_i h
    rw [abs_le]; constructor <;> linarith
  · split
    · rename_i h
      push_cast
      rw [abs_le]; constructor <;> linarith
    · rename_i h h'
      have heq : q - (q.floor : ℚ) = 1 / 2 := le_antisymm (not_lt.mp h') (not_lt.mp h)
      split
      · rw [abs_le]; constructor <;> linarith
      · push_cast
        rw [abs_le]; constructor <;> linarith

theorem floor_mono' {a b : ℚ} (h : a ≤ b) : a.floor ≤ b.floor := by
  have : ⌊a⌋ ≤ ⌊b⌋ := Int.floor_mono h
  exact this

theorem rne_mono {a b : ℚ} (h : a ≤ b) : rne a ≤ rne b := by
  have hf := floor_mono' h
  rcases lt_or_eq_of_le hf with hlt | heq
  · have := (rne_bounds a).2
    have := (rne_bounds b).1
    omega
  · have hb := (rne_bounds b)
    unfold rne
    simp only []
    rw [heq]
    have hr : a - (b.floor : ℚ) ≤ b - (b.floor : ℚ) := by linarith
    by_cases c1 : a - (b.floor : ℚ) < 1 / 2
    · rw [if_pos c1]
      split
      · exact le_refl _
      · split
        · omega
        · split <;> omega
    · rw [if_neg c1]
      by_cases c2 : 1 / 2 < a - (b.floor : ℚ)
      · rw [if_pos c2]
        have : ¬ (b - (b.floor : ℚ) < 1 / 2) := by linarith
        rw [if_neg this]
        have : 1 / 2 < b - (b.floor : ℚ) := by linarith
        rw [if_pos this]
      · rw [if_neg c2]
        have : ¬ (b - (b.floor : ℚ) < 1 / 2) := by linarith
        rw [if_neg this]
        by_cases c3 : 1 / 2 < b - (b.floor : ℚ)
        · rw [if_pos c3]; split <;> omega
        · rw [if_neg c3]

theorem le_rne {z : ℤ} {q : ℚ} (h : (z : ℚ) ≤ q) : z ≤ rne q := by
  have := rne_mono h; rwa [rne_int] at this

theorem rne_le {z : ℤ} {q : ℚ} (h : q ≤ (z : ℚ)) : rne q ≤ z := by
  have := rne_mono h; rwa [rne_int] at this

theorem ulp_pos (a : ℚ) : 0 < ulp a := pow2_pos _

theorem rndPos_nonneg {a : ℚ} (ha : 0 ≤ a) : 0 ≤ rndPos a := by
  unfold rndPos
  have hu := ulp_pos a
  have : (0 : ℤ) ≤ rne (a / ulp a) := by
    apply le_rne; push_cast; positivity
  have : (0 : ℚ) ≤ (rne (a / ulp a) : ℚ) := by exact_mod_cast this
  positivity

/-- Representable values are fixed points. -/
theorem rndPos_exact {a : ℚ} (z : ℤ) (h : a / ulp a = (z : ℚ)) : rndPos a = a := by
  unfold rndPos
  rw [h, rne_int, ← h]
  exact div_mul_cancel₀ a (ne_of_gt (ulp_pos a))

/-- The rounding error is at most half an ulp. -/
theorem rndPos_err_ulp (a : ℚ) : |rndPos a - a| ≤ ulp a / 2 := by
  unfold rndPos
  have hu := ulp_pos a
  have h := rne_err (a / ulp a)
  have : (rne (a / ulp a) : ℚ) * ulp a - a = ((rne (a / ulp a) : ℚ) - a / ulp a) * ulp a := by
    field_simp
  rw [this, abs_mul, abs_of_pos hu]
  calc |(rne (a / ulp a) : ℚ) - a / ulp a| * ulp a ≤ 1 / 2 * ulp a :=
        mul_le_mul_of_nonneg_right h (le_of_lt hu)
    _ = ulp a / 2 := by ring

/-- In the normal range the relative error is at most `2^-53`. -/
theorem rndPos_err {a : ℚ} (ha : 0 < a) (hn : -1022 ≤ ilog2 a) : |rndPos a - a| ≤ a * pow2 (-53) := by
  have h := rndPos_err_ulp a
  have he : max (ilog2 a) (-1022) = ilog2 a := max_eq_left hn
  have hu : ulp a / 2 = pow2 (ilog2 a) * pow2 (-53) := by
    unfold ulp
    rw [he, show ilog2 a - 52 = ilog2 a + (-53) + 1 by ring, pow2_succ, pow2_add]
    ring
  rw [hu] at h
  have hs := (ilog2_spec a ha).1
  calc |rndPos a - a| ≤ pow2 (ilog2 a) * pow2 (-53) := h
    _ ≤ a * pow2 (-53) := mul_le_mul_of_nonneg_right hs (le_of_lt (pow2_pos _))

/-- exponent of the binade used for rounding `a` -/
def bexp (a : ℚ) : Int := max (ilog2 a) (-1022)

theorem ulp_eq (a : ℚ) : ulp a = pow2 (bexp a - 52) := rfl

theorem lt_top {a : ℚ} (ha : 0 < a) : a < pow2 (bexp a + 1) := by
  have h := (ilog2_spec a ha).2
  exact lt_of_lt_of_le h (pow2_le (by unfold bexp; omega))

theorem p53 : ((9007199254740992 : ℤ) : ℚ) = pow2 53 := by
  rw [pow2_eq]; norm_num

theorem p52 : ((4503599627370496 : ℤ) : ℚ) = pow2 52 := by
  rw [pow2_eq]; norm_num

theorem rndPos_le_top {a : ℚ} (ha : 0 < a) : rndPos a ≤ pow2 (bexp a + 1) := by
  unfold rndPos
  have hu := ulp_pos a
  have h1 : a / ulp a ≤ ((9007199254740992 : ℤ) : ℚ) := by
    rw [p53, div_le_iff₀ hu, ulp_eq, ← pow2_add]
    have : (53 : ℤ) + (bexp a - 52) = bexp a + 1 := by ring
    rw [this]; exact le_of_lt (lt_top ha)
  have h2 : (rne (a / ulp a) : ℚ) ≤ ((9007199254740992 : ℤ) : ℚ) := by exact_mod_cast rne_le h1
  calc (rne (a / ulp a) : ℚ) * ulp a ≤ ((9007199254740992 : ℤ) : ℚ) * ulp a :=
        mul_le_mul_of_nonneg_right h2 (le_of_lt hu)
    _ = pow2 (bexp a + 1) := by
        rw [p53, ulp_eq, ← pow2_add]; congr 1; ring

theorem bot_le_rndPos {a : ℚ} (ha : 0 < a) (hn : -1022 ≤ ilog2 a) : pow2 (bexp a) ≤ rndPos a := by
  unfold rndPos
  have hu := ulp_pos a
  have hb : bexp a = ilog2 a := max_eq_left hn
  have h1 : ((4503599627370496 : ℤ) : ℚ) ≤ a / ulp a := by
    rw [p52, le_div_iff₀ hu, ulp_eq, ← pow2_add]
    have : (52 : ℤ) + (bexp a - 52) = bexp a := by ring
    rw [this, hb]; exact (ilog2_spec a ha).1
  have h2 : ((4503599627370496 : ℤ) : ℚ) ≤ (rne (a / ulp a) : ℚ) := by exact_mod_cast le_rne h1
  calc pow2 (bexp a) = ((4503599627370496 : ℤ) : ℚ) * ulp a := by
        rw [p52, ulp_eq, ← pow2_add]; congr 1; ring
    _ ≤ (rne (a / ulp a) : ℚ) * ulp a := mul_le_mul_of_nonneg_right h2 (le_of_lt hu)

theorem bexp_mono {a b : ℚ} (ha : 0 < a) (h : a ≤ b) : bexp a ≤ bexp b := by
  unfold bexp
  exact max_le_max (ilog2_mono ha h) (le_refl _)

/-- Rounding is monotone on positive values. -/
theorem rndPos_mono {a b : ℚ} (ha : 0 < a) (h : a ≤ b) : rndPos a ≤ rndPos b := by
  have hb : 0 < b := lt_of_lt_of_le ha h
  rcases lt_or_eq_of_le (bexp_mono ha h) with hlt | heq
  · have hbn : -1022 ≤ ilog2 b := by
      by_contra hc
      have : bexp b = -1022 := by unfold bexp; exact max_eq_right (by omega)
      have : -1022 ≤ bexp a := by unfold bexp; exact le_max_right _ _
      omega
    calc rndPos a ≤ pow2 (bexp a + 1) := rndPos_le_top ha
      _ ≤ pow2 (bexp b) := pow2_le (by omega)
      _ ≤ rndPos b := bot_le_rndPos hb hbn
  · unfold rndPos
    have hu : ulp a = ulp b := by rw [ulp_eq, ulp_eq, heq]
    rw [hu]
    have hub := ulp_pos b
    have : a / ulp b ≤ b / ulp b := div_le_div_of_nonneg_right h (le_of_lt hub)
    have : (rne (a / ulp b) : ℚ) ≤ (rne (b / ulp b) : ℚ) := by exact_mod_cast rne_mono this
    exact mul_le_mul_of_nonneg_right this (le_of_lt hub)

/-! ### The order on `f64` values (NaN excluded) and monotonicity of `rnd` -/

def le : F → F → Prop
  | .nan, _ => False
  | _, .nan => False
  | .ninf, _ => True
  | _, .pinf => True
  | .fin a, .fin b => a ≤ b
  | _, _ => False

theorem rnd_pos {x : ℚ} (hx : 0 < x) :
    rnd x = if pow2 1024 ≤ rndPos x then .pinf else .fin (rndPos x) := by
  unfold rnd
  rw [if_neg (ne_of_gt hx), if_pos hx]

theorem rnd_neg' {x : ℚ} (hx : x < 0) :
    rnd x = if pow2 1024 ≤ rndPos (-x) then .ninf else .fin (-(rndPos (-x))) := by
  unfold rnd
  rw [if_neg (ne_of_lt hx), if_neg (not_lt.mpr (le_of_lt hx))]

theorem rnd_zero : rnd 0 = .fin 0 := by unfold rnd; simp

/-- `rnd` of a non-negative value is a non-negative finite value or `+∞`. -/
theorem rnd_nonneg {x : ℚ} (hx : 0 ≤ x) : le (.fin 0) (rnd x) := by
  rcases eq_or_lt_of_le hx with h | h
  · rw [← h, rnd_zero]; exact le_refl (0 : ℚ)
  · rw [rnd_pos h]
    split
    · trivial
    · exact rndPos_nonneg hx

theorem rnd_nonpos {x : ℚ} (hx : x ≤ 0) : le (rnd x) (.fin 0) := by
  rcases eq_or_lt_of_le hx with h | h
  · rw [h, rnd_zero]; exact le_refl (0 : ℚ)
  · rw [rnd_neg' h]
    split
    · trivial
    · have := rndPos_nonneg (a := -x) (by linarith)
      show -(rndPos (-x)) ≤ 0
      linarith

theorem le_trans' {a b c : F} (h1 : le a b) (h2 : le b c) : le a c := by
  cases a <;> cases b <;> cases c <;> simp_all [le]
  exact _root_.le_trans h1 h2

/-- **`rnd` is monotone.** -/
theorem rnd_mono {x y : ℚ} (h : x ≤ y) : le (rnd x) (rnd y) := by
  rcases lt_trichotomy x 0 with hx | hx | hx
  · rcases lt_trichotomy y 0 with hy | hy | hy
    · -- both negative
      have hm := rndPos_mono (a := -y) (b := -x) (by linarith) (by linarith)
      rw [rnd_neg' hx, rnd_neg' hy]
      by_cases c1 : pow2 1024 ≤ rndPos (-x)
      · rw [if_pos c1]; split <;> trivial
      · rw [if_neg c1]
        have c2 : ¬ pow2 1024 ≤ rndPos (-y) := fun hc => c1 (_root_.le_trans hc hm)
        rw [if_neg c2]
        show -(rndPos (-x)) ≤ -(rndPos (-y))
        linarith
    · exact le_trans' (rnd_nonpos (le_of_lt hx)) (rnd_nonneg (le_of_eq hy.symm))
    · exact le_trans' (rnd_nonpos (le_of_lt hx)) (rnd_nonneg (le_of_lt hy))
  · subst hx; rw [rnd_zero]; exact rnd_nonneg h
  · have hy : 0 < y := lt_of_lt_of_le hx h
    have hm := rndPos_mono hx h
    rw [rnd_pos hx, rnd_pos hy]
    by_cases c1 : pow2 1024 ≤ rndPos y
    · rw [if_pos c1]; split <;> trivial
    · rw [if_neg c1]
      have c2 : ¬ pow2 1024 ≤ rndPos x := fun hc => c1 (_root_.le_trans hc hm)
      rw [if_neg c2]
      exact hm

/-! ### Exactness on representable values, and the error bound -/

theorem rnd_exact_pos {x : ℚ} (hx : 0 < x) (z : ℤ) (h : x / ulp x = (z : ℚ)) (hb : x < pow2 1024) :
    rnd x = .fin x := by
  rw [rnd_pos hx, rndPos_exact z h, if_neg (not_le.mpr hb)]

/-- Half-integers `k/2` with `k < 2^53` are `f64` values. -/
theorem rnd_half (k : ℕ) (hk : k < 9007199254740992) : rnd ((k : ℚ) / 2) = .fin ((k : ℚ) / 2) := by
  rcases Nat.eq_zero_or_pos k with h0 | hpos
  · subst h0; simp [rnd_zero]
  · have hx : (0 : ℚ) < (k : ℚ) / 2 := by positivity
    have hlt : (k : ℚ) / 2 < pow2 52 := by
      rw [← p52]; push_cast
      have : (k : ℚ) < 9007199254740992 := by exact_mod_cast hk
      linarith
    have he : bexp ((k : ℚ) / 2) ≤ 51 := by
      have h1 := (ilog2_spec _ hx).1
      have : ilog2 ((k : ℚ) / 2) < 52 := pow2_lt_iff.mp (lt_of_le_of_lt h1 hlt)
      unfold bexp; omega
    -- x / ulp x = k * 2^(51 - e)
    obtain ⟨n, hn⟩ : ∃ n : ℕ, 51 - bexp ((k : ℚ) / 2) = (n : ℤ) := Int.eq_ofNat_of_zero_le (by omega)
    refine rnd_exact_pos hx ((k : ℤ) * 2 ^ n) ?_ (lt_trans hlt (pow2_lt (by norm_num)))
    rw [ulp_eq]
    have hu := pow2_pos (bexp ((k : ℚ) / 2) - 52)
    rw [div_eq_iff (ne_of_gt hu)]
    push_cast
    have : ((2 : ℚ) ^ n) = pow2 (51 - bexp ((k : ℚ) / 2)) := by
      rw [hn, pow2_eq, zpow_natCast]
    rw [this, mul_assoc, ← pow2_add]
    have : 51 - bexp ((k : ℚ) / 2) + (bexp ((k : ℚ) / 2) - 52) = -1 := by ring
    rw [this, pow2_eq]; norm_num; ring

/-- Integers of magnitude below `2^52` are `f64` values. -/
theorem rnd_nat (n : ℕ) (hn : n < 4503599627370496) : rnd (n : ℚ) = .fin (n : ℚ) := by
  have := rnd_half (2 * n) (by omega)
  push_cast at this
  rwa [mul_div_cancel_left₀ _ (by norm_num : (2 : ℚ) ≠ 0)] at this

/-- **Error bound**: in the normal range, well below overflow, `rnd x` is a finite value within
relative distance `2^-53` of `x`. -/
theorem rnd_err {x : ℚ} (hx : 0 < x) (hlo : pow2 (-1022) ≤ x) (hhi : x < pow2 1023) :
    ∃ y : ℚ, rnd x = .fin y ∧ |y - x| ≤ x * pow2 (-53) := by
  have hn : -1022 ≤ ilog2 x := by
    have h2 := (ilog2_spec x hx).2
    have : (-1022 : ℤ) < ilog2 x + 1 := pow2_lt_iff.mp (lt_of_le_of_lt hlo h2)
    omega
  have hup : ilog2 x < 1023 := pow2_lt_iff.mp (lt_of_le_of_lt (ilog2_spec x hx).1 hhi)
  have hb : bexp x = ilog2 x := max_eq_left hn
  have htop := rndPos_le_top hx
  have : rndPos x < pow2 1024 := lt_of_le_of_lt htop (pow2_lt (by rw [hb]; omega))
  refine ⟨rndPos x, ?_, rndPos_err hx hn⟩
  rw [rnd_pos hx, if_neg (not_le.mpr this)]

end F64
end Bourse
