/-
The book invariant `Inv`, the match-loop invariant `LoopInv` (the aggressor is out of the book)
and their preservation.
-/
import Bourse.Lemmas.SideInv
import Bourse.Lemmas.MatchFrame
import Bourse.Lemmas.ListAux

namespace Bourse

structure Inv (b : Book) : Prop where
  bid : SideInv b.orders .bid b.bid b.stamp
  ask : SideInv b.orders .ask b.ask b.stamp
  /-- every Active order is queued on its side under its stored key -/
  act : ∀ (id : Nat) (e : Entry), b.orders[id]? = some e → e.order.status = .active →
          ((e.key.pk, e.key.st), id) ∈ (b.side e.order.side).orders
  ids : ∀ (id : Nat) (e : Entry), b.orders[id]? = some e → e.order.id = id
  /-- a created, not yet placed order carries the price key of its own price and a positive volume -/
  newok : ∀ (id : Nat) (e : Entry), b.orders[id]? = some e → e.order.status = .new →
            e.key.pk = priceKey e.order.side e.order.price ∧ 0 < e.order.vol ∧ e.order.price ≤ MAXP
  nofault : b.fault = false

/-- The invariant while order `a` is being matched: `a` is in neither queue and its table entry
may be stale. -/
structure LoopInv (b : Book) (a : Nat) : Prop where
  bid : SideInv b.orders .bid b.bid b.stamp
  ask : SideInv b.orders .ask b.ask b.stamp
  act : ∀ (id : Nat) (e : Entry), id ≠ a → b.orders[id]? = some e → e.order.status = .active →
          ((e.key.pk, e.key.st), id) ∈ (b.side e.order.side).orders
  out : ∀ sd k, (k, a) ∉ (b.side sd).orders
  ids : ∀ (id : Nat) (e : Entry), b.orders[id]? = some e → e.order.id = id
  newok : ∀ (id : Nat) (e : Entry), id ≠ a → b.orders[id]? = some e → e.order.status = .new →
            e.key.pk = priceKey e.order.side e.order.price ∧ 0 < e.order.vol ∧ e.order.price ≤ MAXP
  alt : a < b.orders.length
  nofault : b.fault = false

theorem Inv.side {b : Book} (h : Inv b) (sd : Side) : SideInv b.orders sd (b.side sd) b.stamp := by
  cases sd; exact h.bid; exact h.ask

theorem LoopInv.side {b : Book} {a : Nat} (h : LoopInv b a) (sd : Side) : SideInv b.orders sd (b.side sd) b.stamp := by
  cases sd; exact h.bid; exact h.ask

theorem Inv.notFaulted {b : Book} (h : Inv b) : b.faulted = false := by
  simp [Book.faulted, h.nofault, h.bid.nofault, h.ask.nofault]

theorem inv_new (t0 tick : Nat) (trading : Bool) (ht : 0 < tick) : Inv (Book.new t0 tick trading) where
  bid := sideInv_empty _ _ _
  ask := sideInv_empty _ _ _
  act := by intro id e h; simp [Book.new] at h
  ids := by intro id e h; simp [Book.new] at h
  newok := by intro id e h; simp [Book.new] at h
  nofault := by simp [Book.new]; omega

/-- An order that is not Active is in no queue. -/
theorem Inv.not_queued {b : Book} (h : Inv b) {a : Nat} {e : Entry} (he : b.orders[a]? = some e)
    (hna : e.order.status ≠ .active) : ∀ sd k, (k, a) ∉ (b.side sd).orders := by
  intro sd k hm
  obtain ⟨e', he', hact, _⟩ := (h.side sd).ent k a hm
  rw [he] at he'; injection he' with he'; subst he'
  exact hna hact

theorem Inv.toLoop {b : Book} (h : Inv b) {a : Nat} {e : Entry} (he : b.orders[a]? = some e)
    (hna : e.order.status ≠ .active) : LoopInv b a where
  bid := h.bid
  ask := h.ask
  act := fun id e' _ h1 h2 => h.act id e' h1 h2
  out := h.not_queued he hna
  ids := h.ids
  newok := fun id e' _ h1 h2 => h.newok id e' h1 h2
  alt := (List.getElem?_eq_some_iff.mp he).1
  nofault := h.nofault

/-- Writing a non-Active entry for `a` back ends the loop in a state satisfying `Inv`. -/
theorem LoopInv.close_inactive {b : Book} {a : Nat} (h : LoopInv b a) (e : Entry)
    (hna : e.order.status ≠ .active) (hnn : e.order.status ≠ .new) (hid : e.order.id = a) :
    Inv { b with orders := b.orders.set a e } where
  bid := h.bid.frame a e (h.out .bid) (Nat.le_refl _)
  ask := h.ask.frame a e (h.out .ask) (Nat.le_refl _)
  act := by
    intro id e' he' hact
    by_cases hia : id = a
    · subst hia
      simp [List.getElem?_set, h.alt] at he'
      subst he'; exact absurd hact hna
    · simp only [List.getElem?_set, Ne.symm hia, if_false] at he'
      have := h.act id e' hia he' hact
      cases hs : e'.order.side <;> simpa [Book.side, hs] using this
  ids := by
    intro id e' he'
    by_cases hia : id = a
    · subst hia
      simp [List.getElem?_set, h.alt] at he'
      subst he'; exact hid
    · simp only [List.getElem?_set, Ne.symm hia, if_false] at he'
      exact h.ids id e' he'
  newok := by
    intro id e' he' hnew
    by_cases hia : id = a
    · subst hia
      simp [List.getElem?_set, h.alt] at he'
      subst he'; exact absurd hnew hnn
    · simp only [List.getElem?_set, Ne.symm hia, if_false] at he'
      exact h.newok id e' hia he' hnew
  nofault := h.nofault

/-! ### Faults are sticky -/

theorem removeOrder_fault_mono (s : SideS) (pk st vol : Nat) (h : s.fault = true) :
    (s.removeOrder pk st vol).fault = true := by
  simp only [SideS.removeOrder]; split <;> simp [h]

theorem removeVol_fault_mono (s : SideS) (pk vol : Nat) (h : s.fault = true) :
    (s.removeVol pk vol).fault = true := by
  simp only [SideS.removeVol]; split <;> simp [h]

theorem fillStep_faulted_mono (sd : Side) (b : Book) (e : Entry) (id : Nat) (m : Entry) (h : b.faulted = true) :
    (Book.fillStep sd b e id m).1.faulted = true := by
  simp only [Book.faulted, Bool.or_eq_true] at h ⊢
  simp only [Book.fillStep]
  rcases h with (h | h) | h
  · left; left; simp [h]
  · cases sd
    · -- aggressor bid: opposite is ask
      left; right
      simp only [Side.opp, Book.setSide, Book.side]
      split
      · exact removeOrder_fault_mono _ _ _ _ h
      · exact removeVol_fault_mono _ _ _ h
    · left; right
      simp only [Side.opp, Book.setSide, Book.side]
      exact h
  · cases sd
    · right
      simp only [Side.opp, Book.setSide, Book.side]
      exact h
    · right
      simp only [Side.opp, Book.setSide, Book.side]
      split
      · exact removeOrder_fault_mono _ _ _ _ h
      · exact removeVol_fault_mono _ _ _ h

theorem matchLoop_faulted_mono (sd : Side) (fuel : Nat) (b : Book) (e : Entry) (h : b.faulted = true) :
    (Book.matchLoop sd fuel b e).1.faulted = true := by
  induction fuel generalizing b e with
  | zero => simp [Book.matchLoop, Book.faulted]
  | succ fuel ih =>
    unfold Book.matchLoop
    split
    · split
      · exact h
      · split
        · simp [Book.faulted]
        · exact ih _ _ (fillStep_faulted_mono _ _ _ _ _ h)
    · exact h

/-! ### One fill -/

theorem matchOrders_passive (t : Nat) (a p : Order) :
    (Book.matchOrders t a p).2.2.2 = min a.vol p.vol ∧
    (Book.matchOrders t a p).2.1.vol = p.vol - min a.vol p.vol ∧
    (Book.matchOrders t a p).2.1.side = p.side ∧ (Book.matchOrders t a p).2.1.price = p.price ∧
    (Book.matchOrders t a p).2.1.id = p.id ∧
    (p.vol - min a.vol p.vol = 0 → (Book.matchOrders t a p).2.1.status = .filled) ∧
    (p.vol - min a.vol p.vol ≠ 0 → (Book.matchOrders t a p).2.1.status = p.status) := by
  simp only [Book.matchOrders]
  refine ⟨trivial, ?_, ?_, ?_, ?_, ?_, ?_⟩ <;> split <;> simp_all

theorem bestOrderIdx_mem {s : SideS} {id : Nat} (h : s.bestOrderIdx = some id) : ∃ k, (k, id) ∈ s.orders := by
  simp only [SideS.bestOrderIdx, SMap.first?] at h
  cases ho : s.orders with
  | nil => simp [ho] at h
  | cons hd tl =>
    simp only [ho, Option.map_some, Option.some.injEq] at h
    exact ⟨hd.1, by rw [← h]; exact List.mem_cons_self⟩

/-- **One fill keeps the loop invariant** (unless an aggregate or the traded-volume counter
overflows, which the model flags as a fault). -/
theorem LoopInv.fillStep {b : Book} {a : Nat} (h : LoopInv b a) (sd : Side) (e : Entry) (id : Nat) (m : Entry)
    (hh : (b.side sd.opp).bestOrderIdx = some id) (hm : b.orders[id]? = some m) (hv : 0 < e.order.vol)
    (hnf : (Book.fillStep sd b e id m).1.faulted = false) :
    LoopInv (Book.fillStep sd b e id m).1 a := by
  obtain ⟨k, hmem⟩ := bestOrderIdx_mem hh
  have hopp := h.side sd.opp
  obtain ⟨m0, hm0, hact, hside, hkey, hpk, hvol, hstamp, _⟩ := hopp.ent k id hmem
  rw [hm] at hm0; injection hm0 with hm0; subst hm0
  have hida : id ≠ a := fun hc => h.out sd.opp k (hc ▸ hmem)
  have hidlt : id < b.orders.length := (List.getElem?_eq_some_iff.mp hm).1
  have hmo := matchOrders_passive b.t e.order m.order
  -- the state after the fill, field by field
  have hords : (Book.fillStep sd b e id m).1.orders = b.orders.set id { m with order := (Book.matchOrders b.t e.order m.order).2.1 } := by
    simp [Book.fillStep]
  have hstampeq : (Book.fillStep sd b e id m).1.stamp = b.stamp := (Book.fillStep_frame sd b e id m).2.2.2.1
  have hown : (Book.fillStep sd b e id m).1.side sd = b.side sd := (Book.fillStep_frame sd b e id m).2.2.2.2.1
  have hoppside : (Book.fillStep sd b e id m).1.side sd.opp =
      (if (Book.matchOrders b.t e.order m.order).2.1.status = .filled
       then (b.side sd.opp).removeOrder m.key.pk m.key.st (Book.matchOrders b.t e.order m.order).2.2.2
       else (b.side sd.opp).removeVol m.key.pk (Book.matchOrders b.t e.order m.order).2.2.2) := by
    simp only [Book.fillStep]
    cases sd <;> simp [Book.side, Book.setSide, Side.opp]
  have hkpk : m.key.pk = k.1 := by rw [hkey]
  have hkst : m.key.st = k.2 := by rw [hkey]
  have hkk : ((m.key.pk, m.key.st), id) ∈ (b.side sd.opp).orders := by rw [hkpk, hkst]; exact hmem
  -- the opposite side
  have hoppinv : SideInv (Book.fillStep sd b e id m).1.orders sd.opp ((Book.fillStep sd b e id m).1.side sd.opp) b.stamp := by
    rw [hords, hoppside]
    by_cases hle : m.order.vol ≤ e.order.vol
    · have hmin : min e.order.vol m.order.vol = m.order.vol := Nat.min_eq_right hle
      have hfilled := hmo.2.2.2.2.2.1 (by rw [hmin]; omega)
      rw [if_pos hfilled, hmo.1, hmin]
      have : m.order.vol = volOf b.orders id := by simp [volOf, hm]
      rw [this]
      exact hopp.remove m.key.pk m.key.st id _ hkk
    · have hlt : e.order.vol < m.order.vol := by omega
      have hmin : min e.order.vol m.order.vol = e.order.vol := Nat.min_eq_left (by omega)
      have hnz : m.order.vol - min e.order.vol m.order.vol ≠ 0 := by rw [hmin]; omega
      have hst := hmo.2.2.2.2.2.2 hnz
      have hnotfilled : (Book.matchOrders b.t e.order m.order).2.1.status ≠ .filled := by rw [hst, hact]; simp
      rw [if_neg hnotfilled, hmo.1, hmin]
      refine hopp.reduce m.key.pk m.key.st id e.order.vol m _ hkk hm hlt ⟨?_, ?_, rfl, ?_, ?_⟩
      · simp only; rw [hst, hact]
      · exact hmo.2.2.1
      · exact hmo.2.2.2.1
      · simp only; rw [hmo.2.1, hmin]
  -- the aggressor's own side: the table changed at `id`, which is queued on the other side
  have hnotown : ∀ k', (k', id) ∉ (b.side sd).orders := by
    intro k' hk'
    obtain ⟨m1, hm1, _, hs1, _⟩ := (h.side sd).ent k' id hk'
    rw [hm] at hm1; injection hm1 with hm1; subst hm1
    rw [hside] at hs1
    exact Book.opp_ne sd hs1
  have howninv : SideInv (Book.fillStep sd b e id m).1.orders sd ((Book.fillStep sd b e id m).1.side sd) b.stamp := by
    rw [hords, hown]
    exact (h.side sd).frame id _ hnotown (Nat.le_refl _)
  have hsides : ∀ sd', SideInv (Book.fillStep sd b e id m).1.orders sd' ((Book.fillStep sd b e id m).1.side sd') (Book.fillStep sd b e id m).1.stamp := by
    intro sd'
    rw [hstampeq]
    by_cases hs : sd' = sd
    · subst hs; exact howninv
    · have : sd' = sd.opp := by cases sd <;> cases sd' <;> simp_all [Side.opp]
      subst this; exact hoppinv
  have hnofault : (Book.fillStep sd b e id m).1.fault = false := by
    simp only [Book.faulted, Bool.or_eq_false_iff] at hnf
    exact hnf.1.1
  refine ⟨hsides .bid, hsides .ask, ?_, ?_, ?_, ?_, ?_, hnofault⟩
  · -- Active orders other than `a` stay queued
    intro j ej hja hej hactj
    rw [hords] at hej
    by_cases hji : j = id
    · subst hji
      simp only [List.getElem?_set, hidlt, if_true, Option.some.injEq] at hej
      subst hej
      -- the passive order is still Active: it was only partially filled, the queue is untouched
      simp only at hactj ⊢
      have hnz : m.order.vol - min e.order.vol m.order.vol ≠ 0 := by
        intro hz
        have := hmo.2.2.2.2.2.1 hz
        rw [this] at hactj; cases hactj
      have hnotfilled : (Book.matchOrders b.t e.order m.order).2.1.status ≠ .filled := by rw [hactj]; simp
      rw [hmo.2.2.1, hside, hoppside, if_neg hnotfilled]
      simp only [SideS.removeVol]
      split <;> exact hkk
    · simp only [List.getElem?_set, Ne.symm hji, if_false] at hej
      have hq := h.act j ej hja hej hactj
      by_cases hs : ej.order.side = sd
      · rw [hs] at hq ⊢; rw [hown]; exact hq
      · have hso : ej.order.side = sd.opp := by cases sd <;> cases hx : ej.order.side <;> simp_all [Side.opp]
        rw [hso] at hq ⊢
        rw [hoppside]
        have hkeyne : (ej.key.pk, ej.key.st) ≠ (m.key.pk, m.key.st) := by
          intro hc
          rw [hc] at hq
          have := hopp.so
          have h1 := SMap.find?_of_mem this hq
          have h2 := SMap.find?_of_mem this hkk
          rw [h1] at h2; injection h2 with h2; exact hji h2
        split
        · simp only [SideS.removeOrder]
          split <;> exact SMap.mem_erase_of_ne hopp.so hq hkeyne
        · simp only [SideS.removeVol]
          split <;> exact hq
  · -- `a` stays out of both queues
    intro sd' k' hk'
    by_cases hs : sd' = sd
    · subst hs; rw [hown] at hk'; exact h.out _ k' hk'
    · have : sd' = sd.opp := by cases sd <;> cases sd' <;> simp_all [Side.opp]
      subst this
      rw [hoppside] at hk'
      split at hk'
      · simp only [SideS.removeOrder] at hk'
        split at hk' <;> exact h.out _ k' (SMap.mem_erase_imp _ _ _ hk')
      · simp only [SideS.removeVol] at hk'
        split at hk' <;> exact h.out _ k' hk'
  · intro j ej hej
    rw [hords] at hej
    by_cases hji : j = id
    · subst hji
      simp only [List.getElem?_set, hidlt, if_true, Option.some.injEq] at hej
      subst hej
      simp only
      rw [hmo.2.2.2.2.1]
      exact h.ids j m hm
    · simp only [List.getElem?_set, Ne.symm hji, if_false] at hej
      exact h.ids j ej hej
  · intro j ej hja hej hnew
    rw [hords] at hej
    by_cases hji : j = id
    · subst hji
      simp only [List.getElem?_set, hidlt, if_true, Option.some.injEq] at hej
      subst hej
      simp only at hnew
      by_cases hz : m.order.vol - min e.order.vol m.order.vol = 0
      · rw [hmo.2.2.2.2.2.1 hz] at hnew; cases hnew
      · rw [hmo.2.2.2.2.2.2 hz, hact] at hnew; cases hnew
    · simp only [List.getElem?_set, Ne.symm hji, if_false] at hej
      exact h.newok j ej hja hej hnew
  · rw [hords]; simp [h.alt]

/-! ### The whole loop -/

theorem LoopInv.matchLoop {b : Book} {a : Nat} (h : LoopInv b a) (sd : Side) (fuel : Nat) (e : Entry)
    (hnf : (Book.matchLoop sd fuel b e).1.faulted = false) : LoopInv (Book.matchLoop sd fuel b e).1 a := by
  induction fuel generalizing b e with
  | zero => simp [Book.matchLoop, Book.faulted] at hnf
  | succ fuel ih =>
    by_cases hcond : (decide (e.order.vol > 0) && Book.crosses sd e.order.price (bestPrice sd.opp (b.side sd.opp))) = true
    · cases hsome : (b.side sd.opp).bestOrderIdx with
      | none =>
        have : Book.matchLoop sd (fuel + 1) b e = (b, e) := by simp [Book.matchLoop, hcond, hsome]
        rw [this]; exact h
      | some id =>
        cases hm : b.orders[id]? with
        | none =>
          have : Book.matchLoop sd (fuel + 1) b e = ({ b with fault := true }, e) := by
            simp [Book.matchLoop, hcond, hsome, hm]
          rw [this] at hnf; simp [Book.faulted] at hnf
        | some m =>
          have heq : Book.matchLoop sd (fuel + 1) b e =
              Book.matchLoop sd fuel (Book.fillStep sd b e id m).1 (Book.fillStep sd b e id m).2 := by
            simp [Book.matchLoop, hcond, hsome, hm]
          rw [heq] at hnf ⊢
          have hv : 0 < e.order.vol := by
            simp only [Bool.and_eq_true, decide_eq_true_eq] at hcond; exact hcond.1
          have hstep : (Book.fillStep sd b e id m).1.faulted = false := by
            cases hf : (Book.fillStep sd b e id m).1.faulted with
            | false => rfl
            | true => rw [matchLoop_faulted_mono _ _ _ _ hf] at hnf; cases hnf
          exact ih (h.fillStep sd e id m hsome hm hv hstep) _ hnf
    · have : Book.matchLoop sd (fuel + 1) b e = (b, e) := by simp [Book.matchLoop, hcond]
      rw [this]; exact h

/-- What the loop does to the aggressor's copy: it stays Active with positive volume, or ends Filled. -/
theorem matchLoop_agg_status (sd : Side) (fuel : Nat) (b : Book) (e : Entry)
    (hs : e.order.status = .active) (hv : 0 < e.order.vol) :
    ((Book.matchLoop sd fuel b e).2.order.status = .active ∧ 0 < (Book.matchLoop sd fuel b e).2.order.vol) ∨
    (Book.matchLoop sd fuel b e).2.order.status = .filled := by
  induction fuel generalizing b e with
  | zero => left; simp [Book.matchLoop, hs, hv]
  | succ fuel ih =>
    unfold Book.matchLoop
    split
    · split
      · left; exact ⟨hs, hv⟩
      · split
        · left; exact ⟨hs, hv⟩
        · rename_i id _ _ m _
          -- the aggressor after one fill
          have hst : ((Book.fillStep sd b e id m).2.order.status = .active ∧ 0 < (Book.fillStep sd b e id m).2.order.vol) ∨
              ((Book.fillStep sd b e id m).2.order.status = .filled ∧ (Book.fillStep sd b e id m).2.order.vol = 0) := by
            simp only [Book.fillStep, Book.matchOrders]
            by_cases hz : e.order.vol - min e.order.vol m.order.vol = 0
            · right; simp [hz]
            · left; simp [hz, hs]; omega
          rcases hst with hst | hst
          · exact ih _ _ hst.1 hst.2
          · -- Filled: the loop stops at once
            right
            cases fuel with
            | zero => simp [Book.matchLoop, hst.1]
            | succ f =>
              unfold Book.matchLoop
              simp [hst.2, hst.1]
    · left; exact ⟨hs, hv⟩

end Bourse
