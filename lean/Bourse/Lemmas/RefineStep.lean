/-
Refinement of every public operation and of whole histories: the abstraction of the
implementation model's state after any valid, fault-free history is the reference engine's state
after the same history, and both return the same results along the way.
-/
import Bourse.Lemmas.RefineOps
import Bourse.Lemmas.ViewsCorrect
import Bourse.Lemmas.Reload
import Bourse.Lemmas.Grid

namespace Bourse

theorem abs_get (b : Book) (id : Nat) : (abs b).orders[id]? = (b.orders[id]?).map (·.order) :=
  absOrders_getElem? _ _

theorem absq_nodup {b : Book} (h : Inv b) (sd : Side) : (absq (b.side sd)).Nodup :=
  (queue_ids_perm h sd).nodup_iff.mpr (idxOf_nodup _ _)

/-- **`place_order`** refines the reference `place`. -/
theorem place_refines {b : Book} (h : Inv b) (id : Nat) (hnf : (b.placeOrder id).faulted = false) :
    abs (b.placeOrder id) = Ref.place (abs b) id := by
  cases he : b.orders[id]? with
  | none => simp [Book.placeOrder, he, Book.faulted] at hnf
  | some e =>
    have hget : (abs b).orders[id]? = some e.order := by simp [abs_get, he]
    by_cases hnew : e.order.status = .new
    · have hl := h.toLoop he (by rw [hnew]; simp)
      have hnk := h.newok id e he hnew
      have hplace : Ref.place (abs b) id =
          { (Ref.enter (abs b) { e.order with status := .active, arr := b.t } (Book.isMarket e.order)).1 with
            orders := (Ref.enter (abs b) { e.order with status := .active, arr := b.t } (Book.isMarket e.order)).1.orders.set id
              (Ref.enter (abs b) { e.order with status := .active, arr := b.t } (Book.isMarket e.order)).2 } := by
        simp only [Ref.place, hget, hnew]
        rfl
      have hmk : Book.isMarket (b.activate e).order = Book.isMarket e.order := rfl
      rw [hplace]
      by_cases hm : Book.isMarket e.order = true
      · have heq : b.placeOrder id = Book.writeBack (Book.placeMarket e.order.side b (b.activate e)) id := by
          simp [Book.placeOrder, he, hnew, Book.placeEntry, hmk, hm]; rfl
        rw [heq] at hnf ⊢
        rw [writeBack_faulted] at hnf
        have hr := market_refines hl e.order.side (b.activate e) rfl hnf
        rw [abs_writeBack, hr.1, hr.2, hm]
        rfl
      · have heq : b.placeOrder id = Book.writeBack (Book.restUnlessFilled e.order.side
            (Book.matchIfTrading e.order.side b (b.activate e)) e.key.pk) id := by
          simp [Book.placeOrder, he, hnew, Book.placeEntry, hmk, hm, Book.placeLimit]; rfl
        rw [heq] at hnf ⊢
        rw [writeBack_faulted] at hnf
        have hr := limit_refines hl e.order.side (b.activate e) e.key.pk rfl
          (by simpa [Book.activate] using hnk.1) (by simpa [Book.activate] using hnk.2.2) hnf
        have hmf : Book.isMarket e.order = false := by simpa using hm
        rw [abs_writeBack, hr.1, hr.2, hmf]
        rfl
    · have heq : b.placeOrder id = b := by simp [Book.placeOrder, he, hnew]
      rw [heq]
      simp [Ref.place, hget, hnew]

/-- What an Active table entry's key says about where it is queued. -/
theorem Inv.active_key {b : Book} (h : Inv b) {id : Nat} {e : Entry} (he : b.orders[id]? = some e)
    (hact : e.order.status = .active) :
    e.key.side = e.order.side ∧ ((e.key.pk, e.key.st), id) ∈ (b.side e.order.side).orders ∧
    0 < e.order.vol ∧ e.order.price ≤ MAXP := by
  have hm := h.act id e he hact
  obtain ⟨e0, he0, _, _, hkey0, _, hv, _, hb⟩ := (h.side e.order.side).ent _ _ hm
  rw [he] at he0; injection he0 with he0; subst he0
  exact ⟨by rw [hkey0], hm, hv, hb⟩

/-- Taking a queued order out of the keyed map erases its id from the id list. -/
theorem absq_removeOrder {b : Book} (h : Inv b) {id : Nat} {e : Entry} (he : b.orders[id]? = some e)
    (hact : e.order.status = .active) (vol : Nat) :
    absq ((b.side e.order.side).removeOrder e.key.pk e.key.st vol) = (absq (b.side e.order.side)).erase id := by
  have hk := h.active_key he hact
  simp only [absq, removeOrder_orders]
  exact SMap.map_snd_erase _ _ _ (h.side _).so hk.2.1 (absq_nodup h _)

/-- **`cancel_order`** refines the reference `cancel`. -/
theorem cancel_refines {b : Book} (h : Inv b) (id : Nat) (hnf : (b.cancelOrder id).faulted = false) :
    abs (b.cancelOrder id) = Ref.cancel (abs b) id := by
  cases he : b.orders[id]? with
  | none => simp [Book.cancelOrder, he, Book.faulted] at hnf
  | some e =>
    have hget : (abs b).orders[id]? = some e.order := by simp [abs_get, he]
    by_cases hact : e.order.status = .active
    · have hk := h.active_key he hact
      have hrm := absq_removeOrder h he hact e.order.vol
      simp only [Book.cancelOrder, he, hact, if_true, Ref.cancel, hget, hk.1]
      rw [abs_setSide, hrm, ← abs_queue]
      cases e.order.side <;> simp [abs, Ref.RState.setQueue, absOrders_set, Ref.RState.queue]
    · simp [Book.cancelOrder, he, hact, Ref.cancel, hget]

/-- The queue ids after `dequeue`. -/
theorem abs_dequeue {b : Book} (h : Inv b) {id : Nat} {e : Entry} (he : b.orders[id]? = some e)
    (hact : e.order.status = .active) :
    abs (b.dequeue e) = (abs b).setQueue e.order.side (((abs b).queue e.order.side).erase id) := by
  have hk := h.active_key he hact
  simp only [Book.dequeue, hk.1]
  rw [abs_setSide, absq_removeOrder h he hact, ← abs_queue]

/-- A re-entering modification refines dequeue + `enter`. -/
theorem replace_refines {b : Book} (h : Inv b) {id : Nat} {e : Entry} (he : b.orders[id]? = some e)
    (hact : e.order.status = .active) (np nv : Nat) (hnp : np ≤ MAXP)
    (hnf : (Book.writeBack (b.replaceOrder e np nv) id).faulted = false) :
    abs (Book.writeBack (b.replaceOrder e np nv) id) =
      { (Ref.enter ((abs b).setQueue e.order.side (((abs b).queue e.order.side).erase id))
            { e.order with vol := nv, price := np } false).1 with
        orders := (Ref.enter ((abs b).setQueue e.order.side (((abs b).queue e.order.side).erase id))
            { e.order with vol := nv, price := np } false).1.orders.set id
          (Ref.enter ((abs b).setQueue e.order.side (((abs b).queue e.order.side).erase id))
            { e.order with vol := nv, price := np } false).2 } := by
  have hk := h.active_key he hact
  have hl := h.dequeue_loop he hact
  unfold Book.replaceOrder at hnf ⊢
  rw [hk.1] at hnf ⊢
  rw [writeBack_faulted] at hnf
  have hr := limit_refines hl e.order.side { e with order := { e.order with vol := nv, price := np } }
    (priceKey e.order.side np) rfl rfl hnp hnf
  rw [abs_writeBack, hr.1, hr.2, abs_dequeue h he hact]

/-- **`modify_order`** refines the reference `modify`. -/
theorem modify_refines {b : Book} (h : Inv b) (id : Nat) (np nv : Option Nat)
    (hpvalid : ∀ p, np = some p → p ≤ MAXP) (hnf : (b.modifyOrder id np nv).faulted = false) :
    abs (b.modifyOrder id np nv) = Ref.modify (abs b) id np nv := by
  cases he : b.orders[id]? with
  | none => simp [Book.modifyOrder, he, Book.faulted] at hnf
  | some e =>
    have hget : (abs b).orders[id]? = some e.order := by simp [abs_get, he]
    have htick : (abs b).tick = b.tick := rfl
    by_cases hg : Book.offGrid b.tick np = true
    · simp [Book.modifyOrder, he, hg, Ref.modify, hget, htick]
    · by_cases hact : e.order.status = .active
      · have hk := h.active_key he hact
        have heq : b.modifyOrder id np nv = Book.writeBack (b.modifyEntry e np nv) id := by
          simp [Book.modifyOrder, he, hg, hact]
        rw [heq] at hnf ⊢
        cases np with
        | none =>
          cases nv with
          | none =>
            have : Book.writeBack (b.modifyEntry e none none) id = b := by
              simp [Book.modifyEntry, Book.writeBack, set_of_getElem? he]
            rw [this]
            simp [Ref.modify, hget, htick, hg, hact]
          | some v =>
            by_cases hlt : v < e.order.vol
            · have hm : b.modifyEntry e none (some v) = b.reduceOrderVol e (e.order.vol - v) := by
                simp [Book.modifyEntry, hlt]
              rw [hm]
              have hvv : e.order.vol - (e.order.vol - v) = v := by omega
              simp only [Ref.modify, hget, htick, hg, hact, Option.isNone_none, Option.getD_some, hlt,
                Bool.true_and, decide_true, if_true, Bool.false_eq_true, if_false, ne_eq, not_true_eq_false]
              simp only [Book.reduceOrderVol, abs_writeBack, abs_setSide, hvv]
              simp only [absq, removeVol_orders]
              cases hsd : e.key.side <;> simp [abs, Ref.RState.setQueue, absq, Book.side, hact]
            · have hm : b.modifyEntry e none (some v) = b.replaceOrder e e.order.price v := by
                simp [Book.modifyEntry, hlt]
              rw [hm] at hnf ⊢
              rw [replace_refines h he hact _ _ hk.2.2.2 hnf]
              simp [Ref.modify, hget, htick, hg, hact, hlt]
        | some p =>
          have hgp : ¬ ((p % b.tick != 0) = true) := by simpa [Book.offGrid] using hg
          cases nv with
          | none =>
            have hm : b.modifyEntry e (some p) none = b.replaceOrder e p e.order.vol := rfl
            rw [hm] at hnf ⊢
            rw [replace_refines h he hact _ _ (hpvalid p rfl) hnf]
            simp [Ref.modify, hget, htick, hg, hact]
          | some v =>
            have hm : b.modifyEntry e (some p) (some v) = b.replaceOrder e p v := rfl
            rw [hm] at hnf ⊢
            rw [replace_refines h he hact _ _ (hpvalid p rfl) hnf]
            simp [Ref.modify, hget, htick, hg, hact]
      · simp [Book.modifyOrder, he, hg, hact, Ref.modify, hget, htick]

/-- **`create_order`** refines the reference `create`. -/
theorem create_refines (b : Book) (sd : Side) (vol tr : Nat) (p : Option Nat) :
    abs (b.createOrder sd vol tr p).1 = (Ref.create (abs b) sd vol tr p).1 ∧
    Res.ofCreate (b.createOrder sd vol tr p).2 = (Ref.create (abs b) sd vol tr p).2 := by
  have hlen : (abs b).orders.length = b.orders.length := by simp [abs, absOrders]
  cases p with
  | none => simp [Book.createOrder, Ref.create, abs, absOrders, Res.ofCreate]
  | some q =>
    by_cases hq : (q % b.tick != 0) = true
    · simp [Book.createOrder, Ref.create, hq, abs, Res.ofCreate]
    · simp [Book.createOrder, Ref.create, hq, abs, absOrders, Res.ofCreate]

/-- **One step.** From a state satisfying the invariant, a valid operation that does not fault
leads the implementation model and the reference engine to corresponding states with the same result. -/
theorem step_refines {b : Book} (h : Inv b) (op : Op) (hv : ValidOp op) (hnf : (b.step op).1.faulted = false) :
    abs (b.step op).1 = (Ref.step (abs b) op).1 ∧ (b.step op).2 = (Ref.step (abs b) op).2 := by
  cases op with
  | create sd vol tr p => exact create_refines b sd vol tr p
  | place id => exact ⟨place_refines h id hnf, rfl⟩
  | cap sd vol tr p =>
    have hc := h.create sd vol tr p hv.1 hv.2
    have hcr := create_refines b sd vol tr p
    simp only [Book.step, Book.createAndPlace, Ref.step] at hnf ⊢
    cases hres : (b.createOrder sd vol tr p).2 with
    | ok id =>
      simp only [hres] at hnf ⊢
      have h2 : (Ref.create (abs b) sd vol tr p).2 = .ok id := by rw [← hcr.2, hres]; rfl
      have hsplit : Ref.create (abs b) sd vol tr p = ((Ref.create (abs b) sd vol tr p).1, .ok id) := by
        rw [← h2]
      rw [hsplit]
      simp only
      rw [← hcr.1]
      exact ⟨place_refines hc id hnf, rfl⟩
    | priceError q t =>
      simp only [hres]
      have h2 : (Ref.create (abs b) sd vol tr p).2 = .err q t := by rw [← hcr.2, hres]; rfl
      have hsplit : Ref.create (abs b) sd vol tr p = ((Ref.create (abs b) sd vol tr p).1, .err q t) := by
        rw [← h2]
      rw [hsplit]
      simp only
      exact ⟨hcr.1, rfl⟩
  | cancel id => exact ⟨cancel_refines h id hnf, rfl⟩
  | modify id np nv => exact ⟨modify_refines h id np nv hv.2 hnf, rfl⟩
  | ev e =>
    cases e with
    | new id => exact ⟨place_refines h id hnf, rfl⟩
    | cancel id => exact ⟨cancel_refines h id hnf, rfl⟩
    | modify id np nv => exact ⟨modify_refines h id np nv hv.2 hnf, rfl⟩
  | time t => exact ⟨rfl, rfl⟩
  | trading on => cases on <;> exact ⟨rfl, rfl⟩
  | resetVol => exact ⟨rfl, rfl⟩
  | reload =>
    simp only [Book.step, h.notFaulted, Bool.false_eq_true, if_false, reload_eq h]
    exact ⟨rfl, rfl⟩

namespace Ref
def run (s : RState) (ops : List Op) : RState := ops.foldl (fun s op => (step s op).1) s
end Ref

/-- **Every history.** After any valid, fault-free history the implementation model's state
abstracts to exactly the reference engine's state after the same history. -/
theorem run_refines {b : Book} (h : Inv b) (ops : List Op) (hv : ∀ op ∈ ops, ValidOp op) (hnf : NoFault b ops) :
    abs (b.run ops) = Ref.run (abs b) ops := by
  induction ops generalizing b with
  | nil => rfl
  | cons op rest ih =>
    simp only [Book.run, Ref.run, List.foldl_cons]
    have hs := step_refines h op (hv op List.mem_cons_self) hnf.1
    rw [← hs.1]
    exact ih (inv_step h op (hv op List.mem_cons_self) hnf.1) (fun o ho => hv o (List.mem_cons_of_mem _ ho)) hnf.2

/-- The implementation model's complete observation of a state satisfying the invariant is the
reference engine's observation (every view recomputed from the order table) of its abstraction. -/
theorem observe_abs {b : Book} (h : Inv b) (n : Nat) (hn : ∀ i, i < n → i * b.tick < P32) :
    b.observe n = Ref.observe (abs b) n := by
  obtain ⟨h1, h2, h3, h4, h5, h6, h7, h8, h9, h10⟩ := views_correct h n hn
  have hb : b.bidBestVol = b.bidBestVolAndOrders.1 := by
    simp [Book.bidBestVol, Book.bidBestVolAndOrders, SideS.bestVol]
  have ha : b.askBestVol = b.askBestVolAndOrders.1 := by
    simp [Book.askBestVol, Book.askBestVolAndOrders, SideS.bestVol]
  simp only [Book.observe, Ref.observe, hb, ha, h1, h2, h3, h4, h5, h6, h7, h8, h9, h10]
  rfl

/-- What a client sees of a history: the result of every operation and the complete observation
after it. -/
def Book.trace (n : Nat) : Book → List Op → List (Res × Obs)
  | _, [] => []
  | b, op :: rest => ((b.step op).2, (b.step op).1.observe n) :: Book.trace n (b.step op).1 rest

namespace Ref
def trace (n : Nat) : RState → List Op → List (Res × Obs)
  | _, [] => []
  | s, op :: rest => ((step s op).2, observe (step s op).1 n) :: trace n (step s op).1 rest
end Ref

/-- **Observational refinement.** Along any valid, fault-free history, every result and every
complete observation of the implementation model equal those of the reference engine. -/
theorem trace_refines {b : Book} (h : Inv b) (n : Nat) (hn : ∀ i, i < n → i * b.tick < P32) (ops : List Op)
    (hv : ∀ op ∈ ops, ValidOp op) (hnf : NoFault b ops) :
    Book.trace n b ops = Ref.trace n (abs b) ops := by
  induction ops generalizing b with
  | nil => rfl
  | cons op rest ih =>
    have hs := step_refines h op (hv op List.mem_cons_self) hnf.1
    have hi := inv_step h op (hv op List.mem_cons_self) hnf.1
    have htk : (b.step op).1.tick = b.tick := step_tick b op
    have hn' : ∀ i, i < n → i * (b.step op).1.tick < P32 := by rw [htk]; exact hn
    simp only [Book.trace, Ref.trace]
    rw [ih hi hn' (fun o ho => hv o (List.mem_cons_of_mem _ ho)) hnf.2, observe_abs hi n hn', hs.1, hs.2]

theorem abs_new (t0 tick : Nat) (trading : Bool) : abs (Book.new t0 tick trading) = Ref.init t0 tick trading := rfl

end Bourse
