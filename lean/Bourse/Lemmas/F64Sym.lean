/-
Sign symmetry of `f64` arithmetic: rounding commutes with negation, so do `+`, `×`; `abs` forgets
the sign. Used for the mirror symmetry of the momentum signal (C17) in the arithmetic the Rust code
performs.
-/
import Bourse.Lemmas.F64Round

namespace Bourse
namespace F64

theorem rnd_neg (x : ℚ) : rnd (-x) = neg (rnd x) := by
  rcases lt_trichotomy x 0 with h | h | h
  · have h' : 0 < -x := by linarith
    rw [rnd_pos h', rnd_neg' h]
    split <;> simp [neg]
  · subst h; simp [rnd_zero, neg]
  · have h' : -x < 0 := by linarith
    rw [rnd_neg' h', rnd_pos h, neg_neg]
    split <;> simp [neg]

@[simp] theorem neg_neg' (a : F) : neg (neg a) = a := by
  cases a <;> simp [neg]

theorem add_neg_neg (a b : F) : add (neg a) (neg b) = neg (add a b) := by
  cases a <;> cases b <;> try rfl
  rename_i x y
  show rnd (-x + -y) = neg (rnd (x + y))
  rw [← rnd_neg]; congr 1; ring

theorem sub_neg_neg (a b : F) : sub (neg a) (neg b) = neg (sub a b) := by
  unfold sub; rw [add_neg_neg]

theorem mul_fin_inf (x : ℚ) :
    mul (.fin x) .pinf = (if x = 0 then .nan else if 0 < x then .pinf else .ninf) ∧
    mul (.fin x) .ninf = (if x = 0 then .nan else if 0 < x then .ninf else .pinf) ∧
    mul .pinf (.fin x) = (if x = 0 then .nan else if 0 < x then .pinf else .ninf) ∧
    mul .ninf (.fin x) = (if x = 0 then .nan else if 0 < x then .ninf else .pinf) := by
  rcases lt_trichotomy x 0 with h | h | h
  · have h1 : ¬ (x = 0) := ne_of_lt h
    have h2 : ¬ (0 < x) := by linarith
    simp [mul, sgn, h, h1, h2]
  · subst h; simp [mul, sgn]
  · have h1 : ¬ (x = 0) := ne_of_gt h
    have h2 : ¬ (x < 0) := by linarith
    simp [mul, sgn, h, h1, h2]

theorem mul_neg_left (a b : F) : mul (neg a) b = neg (mul a b) := by
  cases a with
  | fin x =>
    cases b with
    | fin y =>
      show rnd (-x * y) = neg (rnd (x * y))
      rw [← rnd_neg]; congr 1; ring
    | nan => rfl
    | pinf =>
      show mul (.fin (-x)) .pinf = neg (mul (.fin x) .pinf)
      rw [(mul_fin_inf (-x)).1, (mul_fin_inf x).1]
      rcases lt_trichotomy x 0 with h | h | h
      · have : ¬ (0 < x) := by linarith
        simp [ne_of_lt h, this, h, neg]
      · subst h; simp [neg]
      · have : ¬ (x < 0) := by linarith
        simp [ne_of_gt h, this, h, neg]
    | ninf =>
      show mul (.fin (-x)) .ninf = neg (mul (.fin x) .ninf)
      rw [(mul_fin_inf (-x)).2.1, (mul_fin_inf x).2.1]
      rcases lt_trichotomy x 0 with h | h | h
      · have : ¬ (0 < x) := by linarith
        simp [ne_of_lt h, this, h, neg]
      · subst h; simp [neg]
      · have : ¬ (x < 0) := by linarith
        simp [ne_of_gt h, this, h, neg]
  | nan => cases b <;> rfl
  | pinf =>
    cases b with
    | fin y =>
      show mul .ninf (.fin y) = neg (mul .pinf (.fin y))
      rw [(mul_fin_inf y).2.2.2, (mul_fin_inf y).2.2.1]
      split
      · rfl
      · split <;> rfl
    | nan => rfl
    | pinf => simp [neg, mul, sgn]
    | ninf => simp [neg, mul, sgn]
  | ninf =>
    cases b with
    | fin y =>
      show mul .pinf (.fin y) = neg (mul .ninf (.fin y))
      rw [(mul_fin_inf y).2.2.2, (mul_fin_inf y).2.2.1]
      split
      · rfl
      · split <;> rfl
    | nan => rfl
    | pinf => simp [neg, mul, sgn]
    | ninf => simp [neg, mul, sgn]

theorem abs_neg (a : F) : abs (neg a) = abs a := by
  cases a with
  | fin r =>
    simp only [neg, abs]
    rcases lt_trichotomy r 0 with h | h | h
    · have : ¬ (-r < 0) := by linarith
      simp [h, this]
    · subst h; simp
    · have h1 : -r < 0 := by linarith
      have h2 : ¬ (r < 0) := by linarith
      simp [h1, h2]
  | pinf => rfl
  | ninf => rfl
  | nan => rfl

theorem lt_neg_zero (a : F) : lt (.fin 0) (neg a) = lt a (.fin 0) := by
  cases a <;> simp [neg, lt]

theorem lt_zero_neg (a : F) : lt (neg a) (.fin 0) = lt (.fin 0) a := by
  cases a <;> simp [neg, lt]

end F64
end Bourse
