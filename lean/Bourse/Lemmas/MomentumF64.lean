/-
The momentum signal of `Model/FloatAgents.lean` in `f64` arithmetic: mirroring the observed mid-price
path about a fixed level negates the signal `M` at every update and leaves both trade probabilities
unchanged, bit for bit — for every `tanh` implementation that is odd.
-/
import Bourse.Model.FloatAgents
import Bourse.Lemmas.F64Sym

namespace Bourse
namespace FAgents
open F64

theorem mul_comm' (a b : F) : F64.mul a b = F64.mul b a := by
  cases a with
  | fin x =>
    cases b with
    | fin y => show rnd (x * y) = rnd (y * x); rw [_root_.mul_comm]
    | nan => rfl
    | pinf => rw [(mul_fin_inf x).1, (mul_fin_inf x).2.2.1]
    | ninf => rw [(mul_fin_inf x).2.1, (mul_fin_inf x).2.2.2]
  | nan => cases b <;> rfl
  | pinf =>
    cases b with
    | fin y => rw [(mul_fin_inf y).1, (mul_fin_inf y).2.2.1]
    | nan => rfl
    | pinf => rfl
    | ninf => simp [F64.mul, sgn]
  | ninf =>
    cases b with
    | fin y => rw [(mul_fin_inf y).2.1, (mul_fin_inf y).2.2.2]
    | nan => rfl
    | pinf => simp [F64.mul, sgn]
    | ninf => rfl

theorem mul_neg_right (a b : F) : F64.mul a (F64.neg b) = F64.neg (F64.mul a b) := by
  rw [mul_comm', mul_neg_left, mul_comm']

/-- Division by a positive finite value commutes with negation. -/
theorem div_neg_left (a : F) (n : ℚ) (hn : 0 < n) : F64.div (F64.neg a) (.fin n) = F64.neg (F64.div a (.fin n)) := by
  have hn0 : n ≠ 0 := ne_of_gt hn
  have hnn : ¬ (n < 0) := by linarith
  cases a with
  | fin x =>
    show F64.div (.fin (-x)) (.fin n) = F64.neg (F64.div (.fin x) (.fin n))
    simp only [F64.div, hn0, if_false]
    rw [← rnd_neg]; congr 1; ring
  | nan => rfl
  | pinf => simp [F64.div, F64.neg, sgn, hnn]
  | ninf => simp [F64.div, F64.neg, sgn, hnn]

/-- Mirroring two mid-prices about a level negates their `f64` difference. -/
theorem sub_mirror (L x y : ℚ) :
    F64.sub (.fin (2 * L - x)) (.fin (2 * L - y)) = F64.neg (F64.sub (.fin x) (.fin y)) := by
  show rnd ((2 * L - x) + -(2 * L - y)) = F64.neg (rnd (x + -y))
  rw [← rnd_neg]; congr 1; ring

/-- The recurrence `M' = M(1 − decay) + decay(P − p)` on a mirrored price step and a negated signal
gives the negated result. -/
theorem nextM_mirror (c : MomP) (m p mid p' mid' : F)
    (h : F64.sub mid' p' = F64.neg (F64.sub mid p)) :
    nextM c (F64.neg m) p' mid' = F64.neg (nextM c m p mid) := by
  unfold nextM
  rw [h, mul_neg_left, mul_neg_right, add_neg_neg]

/-- The trade probability depends on `|M|` only. -/
theorem pMarket_neg (c : MomP) (th : F → F) (hodd : ∀ x, th (F64.neg x) = F64.neg (th x)) (hn : 0 < c.n) (m : F) :
    pMarket c th (F64.neg m) = pMarket c th m := by
  unfold pMarket F64.ofNat
  have hq : (0 : ℚ) < (c.n : ℚ) := by exact_mod_cast hn
  rw [mul_neg_right, hodd, mul_neg_right, div_neg_left _ _ hq, F64.abs_neg]

/-- The state of the mirrored run: signal negated, last observed mid-price mirrored. -/
def mirrorState (L : ℚ) (s : MomState) : MomState :=
  { orders := s.orders, m := F64.neg s.m,
    last := s.last.map fun p => match p with | .fin y => .fin (2 * L - y) | x => x }

/-- **One update, mirrored**: with the previous mid-price and the current one mirrored about `L` and
the previous signal negated, the new signal is negated and both probabilities are the same values. -/
theorem signal_mirror (c : MomP) (th : F → F) (hodd : ∀ x, th (F64.neg x) = F64.neg (th x)) (hn : 0 < c.n)
    (L : ℚ) (s : MomState) (x : ℚ) (hlast : ∀ p, s.last = some p → ∃ y, p = .fin y) :
    signal c th (mirrorState L s) (.fin (2 * L - x)) =
      (F64.neg (signal c th s (.fin x)).1, (signal c th s (.fin x)).2.1, (signal c th s (.fin x)).2.2) := by
  unfold signal mirrorState
  cases hl : s.last with
  | none => simp [F64.neg]
  | some p =>
    obtain ⟨y, rfl⟩ := hlast p hl
    simp only [Option.map_some]
    have hm := nextM_mirror c s.m (.fin y) (.fin x) (.fin (2 * L - y)) (.fin (2 * L - x)) (sub_mirror L x y)
    rw [hm, pMarket_neg c th hodd hn]

/-- The sequence of `(M, p_market, p_limit)` along a path of observed mid-prices. -/
def signalsFrom (c : MomP) (th : F → F) : MomState → List ℚ → List (F × F × F)
  | _, [] => []
  | s, x :: rest =>
    let r := signal c th s (.fin x)
    r :: signalsFrom c th { s with last := some (.fin x), m := r.1 } rest

/-- **Mirroring a whole price history** about a fixed level: at every update the signal is the
negative of the original run's and both probabilities are identical — in `f64`, for every decay,
demand, scale, order ratio, number of traders and every odd `tanh`. Since a trader buys iff
`0 < M` and sells iff `M < 0` with these probabilities against the same uniform draws, buys become
sells at the same steps. -/
theorem signals_mirror (c : MomP) (th : F → F) (hodd : ∀ x, th (F64.neg x) = F64.neg (th x)) (hn : 0 < c.n)
    (L : ℚ) (path : List ℚ) (s : MomState) (hlast : ∀ p, s.last = some p → ∃ y, p = .fin y) :
    signalsFrom c th (mirrorState L s) (path.map fun x => 2 * L - x) =
      (signalsFrom c th s path).map fun r => (F64.neg r.1, r.2.1, r.2.2) := by
  induction path generalizing s with
  | nil => rfl
  | cons x rest ih =>
    simp only [List.map_cons, signalsFrom]
    rw [signal_mirror c th hodd hn L s x hlast]
    congr 1
    have := ih { s with last := some (.fin x), m := (signal c th s (.fin x)).1 }
      (by intro p hp; simp at hp; exact ⟨x, hp.symm⟩)
    simpa [mirrorState] using this

/-- Direction: a negated signal swaps the buy test `0 < M` and the sell test `M < 0`. -/
theorem direction_mirror (m : F) :
    F64.lt (.fin 0) (F64.neg m) = F64.lt m (.fin 0) ∧ F64.lt (F64.neg m) (.fin 0) = F64.lt (.fin 0) m :=
  ⟨lt_neg_zero m, lt_zero_neg m⟩

end FAgents
end Bourse
