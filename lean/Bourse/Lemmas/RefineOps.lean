/-
Refinement, operation by operation: each public operation of the implementation model commutes
with the abstraction map onto the reference engine.
-/
import Bourse.Lemmas.Refine

namespace Bourse

theorem abs_setSide (b : Book) (sd : Side) (s : SideS) : abs (b.setSide sd s) = (abs b).setQueue sd (absq s) := by
  cases sd <;> rfl

theorem map_takeWhile_of {α β : Type} (f : α → β) (p : α → Bool) (q : β → Bool) (l : List α)
    (h : ∀ x ∈ l, p x = q (f x)) : (l.takeWhile p).map f = (l.map f).takeWhile q := by
  induction l with
  | nil => rfl
  | cons x xs ih =>
    have hx := h x List.mem_cons_self
    have ih' := ih (fun y hy => h y (List.mem_cons_of_mem _ hy))
    simp only [List.takeWhile_cons, List.map_cons, ← hx]
    cases p x <;> simp [ih']

theorem map_dropWhile_of {α β : Type} (f : α → β) (p : α → Bool) (q : β → Bool) (l : List α)
    (h : ∀ x ∈ l, p x = q (f x)) : (l.dropWhile p).map f = (l.map f).dropWhile q := by
  induction l with
  | nil => rfl
  | cons x xs ih =>
    have hx := h x List.mem_cons_self
    have ih' := ih (fun y hy => h y (List.mem_cons_of_mem _ hy))
    simp only [List.dropWhile_cons, List.map_cons, ← hx]
    cases p x <;> simp [ih']

namespace Ref

/-- The match phase of `enter`, named. -/
def matchPhase (s : RState) (agg : Order) : RState × Order :=
  if s.trading then
    ({ (s.setQueue agg.side.opp (matchQ s.t (s.queue agg.side.opp)
          { orders := s.orders, trades := s.trades, tradeVol := s.tradeVol, agg := agg }).1) with
        orders := (matchQ s.t (s.queue agg.side.opp)
          { orders := s.orders, trades := s.trades, tradeVol := s.tradeVol, agg := agg }).2.orders,
        trades := (matchQ s.t (s.queue agg.side.opp)
          { orders := s.orders, trades := s.trades, tradeVol := s.tradeVol, agg := agg }).2.trades,
        tradeVol := (matchQ s.t (s.queue agg.side.opp)
          { orders := s.orders, trades := s.trades, tradeVol := s.tradeVol, agg := agg }).2.tradeVol },
     (matchQ s.t (s.queue agg.side.opp)
          { orders := s.orders, trades := s.trades, tradeVol := s.tradeVol, agg := agg }).2.agg)
  else (s, agg)

theorem enter_eq (s : RState) (agg : Order) (market : Bool) : enter s agg market =
    if market && !s.trading then (s, { agg with status := .rejected, endt := s.t })
    else if (matchPhase s agg).2.status = .filled then matchPhase s agg
    else if market then
      ((matchPhase s agg).1, { (matchPhase s agg).2 with status := .cancelled, endt := (matchPhase s agg).1.t })
    else ((matchPhase s agg).1.setQueue agg.side
            (enqueue (matchPhase s agg).1.orders agg.side ((matchPhase s agg).1.queue agg.side)
              (matchPhase s agg).2.id (matchPhase s agg).2.price), (matchPhase s agg).2) := by
  unfold enter matchPhase
  by_cases h1 : (market && !s.trading) = true
  · simp only [h1, if_true]
  · simp only [h1]

end Ref

/-- The match phase refines. -/
theorem matchIfTrading_refines {b : Book} {a : Nat} (h : LoopInv b a) (sd : Side) (e : Entry)
    (hside : e.order.side = sd) (hnf : (Book.matchIfTrading sd b e).1.faulted = false) :
    abs (Book.matchIfTrading sd b e).1 = (Ref.matchPhase (abs b) e.order).1 ∧
    (Book.matchIfTrading sd b e).2.order = (Ref.matchPhase (abs b) e.order).2 := by
  unfold Book.matchIfTrading Ref.matchPhase at *
  have htr : (abs b).trading = b.trading := rfl
  by_cases ht : b.trading = true
  · simp only [ht, htr, if_true] at hnf ⊢
    have hr := matchLoop_refines h sd (Book.matchFuel b sd) e hside (by simp [Book.matchFuel]) hnf
    have fr := Book.matchLoop_frame sd (Book.matchFuel b sd) b e
    have hq : (abs b).queue e.order.side.opp = absq (b.side sd.opp) := by rw [hside, abs_queue]
    have hst : ({ orders := (abs b).orders, trades := (abs b).trades, tradeVol := (abs b).tradeVol, agg := e.order } : Ref.MatchSt)
        = absMatch b e := rfl
    have ht' : (abs b).t = b.t := rfl
    rw [hq, hst, ht']
    unfold Book.matchSide
    rw [← hr.2, ← hr.1]
    refine ⟨?_, rfl⟩
    subst hside
    cases hsd : e.order.side <;> rw [hsd] at fr <;>
      simp only [abs, absMatch, Ref.RState.setQueue, Book.side, Side.opp] at * <;>
      simp [fr.1, fr.2.1, fr.2.2.1, fr.2.2.2.2.1]
  · simp only [ht, htr] at hnf ⊢
    simp

/-- Queueing under the next stamp is queueing behind every order with a better or equal price. -/
theorem enqueue_refines {b : Book} {a : Nat} (h : LoopInv b a) (sd : Side) (e : Entry) (pk : Nat)
    (hpk : pk = priceKey sd e.order.price) (hp : e.order.price ≤ MAXP) :
    abs (Book.enqueue sd b e pk).1 =
      (abs b).setQueue sd (Ref.enqueue (abs b).orders sd ((abs b).queue sd) e.order.id e.order.price) ∧
    (Book.enqueue sd b e pk).2.order = e.order := by
  refine ⟨?_, rfl⟩
  have hs := h.side sd
  have hcong : ∀ x ∈ (b.side sd).orders,
      decide (x.1.1 ≤ pk) = Ref.ahead sd (Ref.priceOf (absOrders b.orders) x.2) e.order.price := by
    rintro ⟨k, j⟩ hx
    obtain ⟨m, hm, _, _, _, hk, _, _, hb⟩ := hs.ent k j hx
    have : Ref.priceOf (absOrders b.orders) j = m.order.price := by simp [Ref.priceOf, absOrders_getElem?, hm]
    simp only [this, hk, hpk]
    cases sd <;> simp only [priceKey, Ref.ahead] <;> congr 1 <;> apply propext <;> omega
  have hst : ∀ x ∈ (b.side sd).orders, x.1.2 < b.stamp := by
    rintro ⟨k, j⟩ hx
    obtain ⟨m, _, _, _, _, _, _, hlt, _⟩ := hs.ent k j hx
    exact hlt
  have hside1 : ({ b with stamp := b.stamp + 1 } : Book).side sd = b.side sd := by cases sd <;> rfl
  simp only [Book.enqueue, hside1]
  rw [abs_setSide]
  have habs1 : abs ({ b with stamp := b.stamp + 1 } : Book) = abs b := rfl
  rw [habs1, abs_queue]
  congr 1
  simp only [absq, SideS.insertOrder]
  rw [SMap.insert_back _ _ _ _ hst]
  simp only [List.map_append, List.map_cons, Ref.enqueue]
  rw [map_takeWhile_of (fun x : (Nat × Nat) × Nat => x.2) (fun x => decide (x.1.1 ≤ pk))
        (fun j => Ref.ahead sd (Ref.priceOf (absOrders b.orders) j) e.order.price) _ hcong,
      map_dropWhile_of (fun x : (Nat × Nat) × Nat => x.2) (fun x => decide (x.1.1 ≤ pk))
        (fun j => Ref.ahead sd (Ref.priceOf (absOrders b.orders) j) e.order.price) _ hcong]
  rfl

theorem abs_writeBack (r : Book × Entry) (id : Nat) :
    abs (Book.writeBack r id) = { abs r.1 with orders := (abs r.1).orders.set id r.2.order } := by
  simp [Book.writeBack, abs, absOrders_set]

/-- A limit aggressor (placement or re-entering modification) is the reference `enter`. -/
theorem limit_refines {b : Book} {a : Nat} (h : LoopInv b a) (sd : Side) (e : Entry) (pk : Nat)
    (hside : e.order.side = sd) (hpk : pk = priceKey sd e.order.price) (hp : e.order.price ≤ MAXP)
    (hnf : (Book.restUnlessFilled sd (Book.matchIfTrading sd b e) pk).1.faulted = false) :
    abs (Book.restUnlessFilled sd (Book.matchIfTrading sd b e) pk).1 = (Ref.enter (abs b) e.order false).1 ∧
    (Book.restUnlessFilled sd (Book.matchIfTrading sd b e) pk).2.order = (Ref.enter (abs b) e.order false).2 := by
  have hident := Book.matchIfTrading_ident sd b e
  rw [Ref.enter_eq]
  simp only [Bool.false_and, Bool.false_eq_true, if_false]
  unfold Book.restUnlessFilled at hnf ⊢
  by_cases hf : (Book.matchIfTrading sd b e).2.order.status = .filled
  · simp only [hf, ne_eq, not_true_eq_false, if_false] at hnf ⊢
    have hm := matchIfTrading_refines h sd e hside hnf
    rw [← hm.2, hf]
    simp only [if_true]
    exact hm
  · simp only [hf, ne_eq, not_false_eq_true, if_true] at hnf ⊢
    have hmnf : (Book.matchIfTrading sd b e).1.faulted = false := by
      cases hc : (Book.matchIfTrading sd b e).1.faulted with
      | false => rfl
      | true => rw [enqueue_faulted_mono _ _ _ _ hc] at hnf; cases hnf
    have hm := matchIfTrading_refines h sd e hside hmnf
    have hl := matchIfTrading_loopInv h sd e hmnf
    have hq := enqueue_refines hl sd (Book.matchIfTrading sd b e).2 pk
      (by rw [hident.2.2.2.2.2]; exact hpk) (by rw [hident.2.2.2.2.2]; exact hp)
    rw [← hm.2]
    simp only [hf, if_false]
    rw [hq.1, hq.2, hm.1, hside]
    exact ⟨rfl, rfl⟩

/-- A market aggressor is the reference `enter` with `market = true`. -/
theorem market_refines {b : Book} {a : Nat} (h : LoopInv b a) (sd : Side) (e : Entry)
    (hside : e.order.side = sd) (hnf : (Book.placeMarket sd b e).1.faulted = false) :
    abs (Book.placeMarket sd b e).1 = (Ref.enter (abs b) e.order true).1 ∧
    (Book.placeMarket sd b e).2.order = (Ref.enter (abs b) e.order true).2 := by
  rw [Ref.enter_eq]
  have htr : (abs b).trading = b.trading := rfl
  by_cases ht : b.trading = true
  · have hmt : Book.matchSide sd b e = Book.matchIfTrading sd b e := by simp [Book.matchIfTrading, ht]
    simp only [Book.placeMarket, ht, htr, if_true, Bool.true_and, Bool.not_true, Bool.false_eq_true, if_false] at hnf ⊢
    rw [hmt] at hnf ⊢
    unfold Book.cancelRemainder at hnf ⊢
    by_cases hf : (Book.matchIfTrading sd b e).2.order.status = .filled
    · simp only [hf, ne_eq, not_true_eq_false, if_false] at hnf ⊢
      have hm := matchIfTrading_refines h sd e hside hnf
      rw [← hm.2, hf]; simp only [if_true]; exact hm
    · simp only [hf, ne_eq, not_false_eq_true, if_true] at hnf ⊢
      have hm := matchIfTrading_refines h sd e hside hnf
      rw [← hm.2]; simp only [hf, if_false]
      rw [← hm.1]
      exact ⟨rfl, rfl⟩
  · simp only [Book.placeMarket, ht, htr] at hnf ⊢
    simp
    rfl

end Bourse
