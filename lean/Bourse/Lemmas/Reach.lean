/-
`Inv` holds in every state reachable from a new book by valid operations that do not fault.
-/
import Bourse.Lemmas.Reload
import Bourse.Model.Ops

namespace Bourse

/-- The validity conditions quoted in the properties that matter for the invariant: order and
modify volumes are at least 1, prices fit in 32 bits (they are `u32` in the Rust). (Unknown ids and `u32` overflow are faults of the model.) -/
def ValidOp : Op → Prop
  | .create _ vol _ p => 0 < vol ∧ ∀ q, p = some q → q ≤ MAXP
  | .cap _ vol _ p => 0 < vol ∧ ∀ q, p = some q → q ≤ MAXP
  | .modify _ np nv => (∀ v, nv = some v → 0 < v) ∧ ∀ q, np = some q → q ≤ MAXP
  | .ev (.modify _ np nv) => (∀ v, nv = some v → 0 < v) ∧ ∀ q, np = some q → q ≤ MAXP
  | _ => True

/-- `Inv` only looks at the table, the two sides, the stamp counter and the fault flag. -/
theorem Inv.congr {b b' : Book} (h : Inv b) (h1 : b'.orders = b.orders) (h2 : b'.bid = b.bid) (h3 : b'.ask = b.ask)
    (h4 : b'.stamp = b.stamp) (h5 : b'.fault = b.fault) : Inv b' := by
  cases b; cases b'
  simp only at h1 h2 h3 h4 h5
  subst h1 h2 h3 h4 h5
  exact ⟨h.bid, h.ask, h.act, h.ids, h.newok, h.nofault⟩

/-- **One step.** Every valid operation that does not fault preserves the invariant. -/
theorem inv_step {b : Book} (h : Inv b) (op : Op) (hv : ValidOp op) (hnf : (b.step op).1.faulted = false) :
    Inv (b.step op).1 := by
  cases op with
  | create sd vol tr p => exact h.create sd vol tr p hv.1 hv.2
  | place id => exact h.place id hnf
  | cap sd vol tr p =>
    have hc := h.create sd vol tr p hv.1 hv.2
    simp only [Book.step, Book.createAndPlace] at hnf ⊢
    split
    · rename_i id hid
      simp only [hid] at hnf
      exact hc.place id hnf
    · exact hc
  | cancel id => exact h.cancel id hnf
  | modify id p v => exact h.modify id p v hv.1 hv.2 hnf
  | ev e =>
    cases e with
    | new id => exact h.place id hnf
    | cancel id => exact h.cancel id hnf
    | modify id p v => exact h.modify id p v hv.1 hv.2 hnf
  | time t => exact h.congr rfl rfl rfl rfl rfl
  | trading on => cases on <;> exact h.congr rfl rfl rfl rfl rfl
  | resetVol => exact h.congr rfl rfl rfl rfl rfl
  | reload =>
    simp only [Book.step]
    split
    · exact h
    · rw [reload_eq h]; exact h

/-- A history runs without faulting (no unknown id, no `u32` overflow). -/
def NoFault : Book → List Op → Prop
  | _, [] => True
  | b, op :: rest => (b.step op).1.faulted = false ∧ NoFault (b.step op).1 rest

/-- **Every reachable state.** After any valid, fault-free history from a state satisfying the
invariant — in particular from a new book — the invariant holds. -/
theorem inv_run {b : Book} (h : Inv b) (ops : List Op) (hv : ∀ op ∈ ops, ValidOp op) (hnf : NoFault b ops) :
    Inv (b.run ops) := by
  induction ops generalizing b with
  | nil => exact h
  | cons op rest ih =>
    simp only [Book.run, List.foldl_cons]
    exact ih (inv_step h op (hv op List.mem_cons_self) hnf.1) (fun o ho => hv o (List.mem_cons_of_mem _ ho)) hnf.2

theorem inv_reachable (t0 tick : Nat) (trading : Bool) (ht : 0 < tick) (ops : List Op)
    (hv : ∀ op ∈ ops, ValidOp op) (hnf : NoFault (Book.new t0 tick trading) ops) :
    Inv ((Book.new t0 tick trading).run ops) := inv_run (inv_new t0 tick trading ht) ops hv hnf

end Bourse
