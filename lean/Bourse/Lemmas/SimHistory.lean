/-
Whatever the built-in agents do is a history of environment operations: between two steps every
agent `update` — random, noise or momentum, alone or in (nested) derived sets, for every sampler and
every `tanh` — amounts to a sequence of SUBMISSIONS (`place_order` / `cancel_order` of the environment),
and a whole simulation alternates such sequences with steps. So every theorem about environment
histories (C08, C10, C11, C14) and, per asset, about book histories speaks about every simulation.
-/
import Bourse.Model.Sim
import Bourse.Props.C10

namespace Bourse
open Bourse.Props.C10

theorem MEnv.runOps_append (s : MEnv × Xoro) (a b : List MEnv.EOp) :
    MEnv.runOps s (a ++ b) = MEnv.runOps (MEnv.runOps s a) b := by
  induction a generalizing s with
  | nil => rfl
  | cons op rest ih => simp only [List.cons_append, MEnv.runOps]; exact ih _

/-- `e'` is reached from `e` by submissions only (whatever the generator: submissions do not draw). -/
def Subs (e e' : MEnv) : Prop :=
  ∃ ops : List MEnv.EOp, (∀ op ∈ ops, IsSubmission op) ∧ ∀ g, MEnv.runOps (e, g) ops = (e', g)

theorem Subs.refl (e : MEnv) : Subs e e := ⟨[], by simp, fun _ => rfl⟩

theorem Subs.trans {a b c : MEnv} (h1 : Subs a b) (h2 : Subs b c) : Subs a c := by
  obtain ⟨o1, s1, r1⟩ := h1
  obtain ⟨o2, s2, r2⟩ := h2
  refine ⟨o1 ++ o2, ?_, ?_⟩
  · intro op hop
    rcases List.mem_append.mp hop with h | h
    · exact s1 op h
    · exact s2 op h
  · intro g; rw [MEnv.runOps_append, r1 g, r2 g]

theorem Subs.cancel (e : MEnv) (a id : Nat) : Subs e (e.cancelOrder a id) :=
  ⟨[.qcancel a id], by simp [IsSubmission], fun _ => rfl⟩

theorem Subs.place (e : MEnv) (a : Nat) (sd : Side) (vol tr : Nat) (p : Option Nat) :
    Subs e (e.placeOrder a sd vol tr p).1 :=
  ⟨[.submit a sd vol tr p], by simp [IsSubmission], fun _ => rfl⟩

namespace FAgents

theorem cancelAll_subs (e : MEnv) (a : Nat) (ids : List Nat) : Subs e (cancelAll e a ids) := by
  induction ids generalizing e with
  | nil => exact Subs.refl e
  | cons id rest ih => exact (Subs.cancel e a id).trans (ih _)

theorem submitLimit_subs {e : MEnv} {a : Nat} {sd : Side} {vol tr price id : Nat} {e' : MEnv}
    (h : submitLimit e a sd vol tr price = some (id, e')) : Subs e e' := by
  unfold submitLimit at h
  split at h
  · simp only [Option.some.injEq, Prod.mk.injEq] at h
    rw [← h.2]; exact Subs.place e a sd vol tr (some price)
  · cases h

theorem submitMarket_subs {e : MEnv} {a : Nat} {sd : Side} {vol tr : Nat} {e' : MEnv}
    (h : submitMarket e a sd vol tr = some e') : Subs e e' := by
  unfold submitMarket at h
  split at h
  · simp only [Option.some.injEq] at h
    rw [← h]; exact Subs.place e a sd vol tr none
  · cases h

theorem noiseTrader_subs {c : NoiseP} {smp : Sampler} {mid : F} {tr : Nat} {live : List Nat} {e : MEnv} {g : Xoro}
    {live' : List Nat} {e' : MEnv} {g' : Xoro} (h : noiseTrader c smp mid tr live e g = some (live', e', g')) :
    Subs e e' := by
  unfold noiseTrader at h
  simp only at h
  split at h
  · cases h
  · rename_i l1 e1 g1 hlim
    have h1 : Subs e e1 := by
      split at hlim
      · split at hlim
        · cases hs : submitLimit e c.asset .bid c.vol tr (buyPrice mid (smp (genBoolHalf (genF32 g).2).2).1 c.tick) with
          | none => rw [hs] at hlim; simp at hlim
          | some r =>
            obtain ⟨id, ex⟩ := r
            rw [hs] at hlim
            simp only [Option.map_some, Option.some.injEq, Prod.mk.injEq] at hlim
            rw [← hlim.2.1]; exact submitLimit_subs hs
        · cases hs : submitLimit e c.asset .ask c.vol tr (sellPrice mid (smp (genBoolHalf (genF32 g).2).2).1 c.tick) with
          | none => rw [hs] at hlim; simp at hlim
          | some r =>
            obtain ⟨id, ex⟩ := r
            rw [hs] at hlim
            simp only [Option.map_some, Option.some.injEq, Prod.mk.injEq] at hlim
            rw [← hlim.2.1]; exact submitLimit_subs hs
      · simp only [Option.some.injEq, Prod.mk.injEq] at hlim
        rw [← hlim.2.1]; exact Subs.refl e
    split at h
    · cases hs : submitMarket e1 c.asset (if (genBoolHalf (genF32 g1).2).1 = true then Side.bid else Side.ask) c.vol tr with
      | none => rw [hs] at h; simp at h
      | some ex =>
        rw [hs] at h
        simp only [Option.map_some, Option.some.injEq, Prod.mk.injEq] at h
        rw [← h.2.1]; exact h1.trans (submitMarket_subs hs)
    · simp only [Option.some.injEq, Prod.mk.injEq] at h
      rw [← h.2.1]; exact h1

theorem noiseLoop_subs {c : NoiseP} {smp : Sampler} {mid : F} (trs : List Nat) {live : List Nat} {e : MEnv} {g : Xoro}
    {live' : List Nat} {e' : MEnv} {g' : Xoro} (h : noiseLoop c smp mid trs live e g = some (live', e', g')) :
    Subs e e' := by
  induction trs generalizing live e g with
  | nil =>
    simp only [noiseLoop, Option.some.injEq, Prod.mk.injEq] at h
    rw [← h.2.1]; exact Subs.refl e
  | cons tr rest ih =>
    simp only [noiseLoop] at h
    split at h
    · cases h
    · rename_i l1 e1 g1 ht
      exact (noiseTrader_subs ht).trans (ih h)

theorem noiseUpdate_subs {c : NoiseP} {smp : Sampler} {orders : List Nat} {e : MEnv} {g : Xoro}
    {live' : List Nat} {e' : MEnv} {g' : Xoro} (h : noiseUpdate c smp orders e g = some (live', e', g')) :
    Subs e e' := by
  unfold noiseUpdate at h
  split at h
  · cases h
  · rename_i live e1 g1 hc
    have h1 : Subs e e1 := by
      unfold cancelLive at hc
      cases hp : partitionLive e c.asset c.pCancel orders g with
      | none => rw [hp] at hc; simp at hc
      | some r =>
        rw [hp] at hc
        simp only [Option.map_some, Option.some.injEq, Prod.mk.injEq] at hc
        rw [← hc.2.1]; exact cancelAll_subs e c.asset _
    split at h
    · cases h
    · exact h1.trans (noiseLoop_subs _ h)

theorem momTrader_subs {c : MomP} {smp : Sampler} {mid m pl pm : F} {tr : Nat} {live : List Nat} {e : MEnv} {g : Xoro}
    {live' : List Nat} {e' : MEnv} {g' : Xoro} (h : momTrader c smp mid m pl pm tr live e g = some (live', e', g')) :
    Subs e e' := by
  unfold momTrader at h
  simp only at h
  split at h
  · cases h
  · rename_i l1 e1 g1 hlim
    have h1 : Subs e e1 := by
      split at hlim
      · split at hlim
        · cases hs : submitLimit e c.asset .bid c.vol tr (buyPrice mid (smp (genF64 g).2).1 c.tick) with
          | none => rw [hs] at hlim; simp at hlim
          | some r =>
            obtain ⟨id, ex⟩ := r
            rw [hs] at hlim
            simp only [Option.map_some, Option.some.injEq, Prod.mk.injEq] at hlim
            rw [← hlim.2.1]; exact submitLimit_subs hs
        · split at hlim
          · cases hs : submitLimit e c.asset .ask c.vol tr (sellPrice mid (smp (genF64 g).2).1 c.tick) with
            | none => rw [hs] at hlim; simp at hlim
            | some r =>
              obtain ⟨id, ex⟩ := r
              rw [hs] at hlim
              simp only [Option.map_some, Option.some.injEq, Prod.mk.injEq] at hlim
              rw [← hlim.2.1]; exact submitLimit_subs hs
          · simp only [Option.some.injEq, Prod.mk.injEq] at hlim
            rw [← hlim.2.1]; exact Subs.refl e
      · simp only [Option.some.injEq, Prod.mk.injEq] at hlim
        rw [← hlim.2.1]; exact Subs.refl e
    split at h
    · split at h
      · cases hs : submitMarket e1 c.asset .bid c.vol tr with
        | none => rw [hs] at h; simp at h
        | some ex =>
          rw [hs] at h
          simp only [Option.map_some, Option.some.injEq, Prod.mk.injEq] at h
          rw [← h.2.1]; exact h1.trans (submitMarket_subs hs)
      · split at h
        · cases hs : submitMarket e1 c.asset .ask c.vol tr with
          | none => rw [hs] at h; simp at h
          | some ex =>
            rw [hs] at h
            simp only [Option.map_some, Option.some.injEq, Prod.mk.injEq] at h
            rw [← h.2.1]; exact h1.trans (submitMarket_subs hs)
        · simp only [Option.some.injEq, Prod.mk.injEq] at h
          rw [← h.2.1]; exact h1
    · simp only [Option.some.injEq, Prod.mk.injEq] at h
      rw [← h.2.1]; exact h1

theorem momLoop_subs {c : MomP} {smp : Sampler} {mid m pl pm : F} (trs : List Nat) {live : List Nat} {e : MEnv} {g : Xoro}
    {live' : List Nat} {e' : MEnv} {g' : Xoro} (h : momLoop c smp mid m pl pm trs live e g = some (live', e', g')) :
    Subs e e' := by
  induction trs generalizing live e g with
  | nil =>
    simp only [momLoop, Option.some.injEq, Prod.mk.injEq] at h
    rw [← h.2.1]; exact Subs.refl e
  | cons tr rest ih =>
    simp only [momLoop] at h
    split at h
    · cases h
    · rename_i l1 e1 g1 ht
      exact (momTrader_subs ht).trans (ih h)

theorem momUpdate_subs {c : MomP} {smp : Sampler} {th : F → F} {s : MomState} {e : MEnv} {g : Xoro}
    {s' : MomState} {e' : MEnv} {g' : Xoro} (h : momUpdate c smp th s e g = some (s', e', g')) :
    Subs e e' := by
  unfold momUpdate at h
  split at h
  · cases h
  · rename_i live e1 g1 hc
    have h1 : Subs e e1 := by
      unfold cancelLive at hc
      cases hp : partitionLive e c.asset c.pCancel s.orders g with
      | none => rw [hp] at hc; simp at hc
      | some r =>
        rw [hp] at hc
        simp only [Option.map_some, Option.some.injEq, Prod.mk.injEq] at hc
        rw [← hc.2.1]; exact cancelAll_subs e c.asset _
    split at h
    · cases h
    · rename_i mid hm
      simp only at h
      cases hl : momLoop c smp mid (signal c th s mid).1 (signal c th s mid).2.2 (signal c th s mid).2.1 c.traders live e1 g1 with
      | none => rw [hl] at h; simp at h
      | some r =>
        obtain ⟨l2, e2, g2⟩ := r
        rw [hl] at h
        simp only [Option.map_some, Option.some.injEq, Prod.mk.injEq] at h
        rw [← h.2.1]; exact h1.trans (momLoop_subs _ hl)

end FAgents

namespace RandomAgents

theorem placeRandom_subs {c : RandomAgents} {n : Nat} {e : MEnv} {g : Xoro} {o : Option Nat} {e' : MEnv} {g' : Xoro}
    (h : placeRandom c n e g = some (o, e', g')) : Subs e e' := by
  unfold placeRandom at h
  split at h
  · cases h
  · split at h
    · cases h
    · split at h
      · cases h
      · split at h
        · simp only [Option.some.injEq, Prod.mk.injEq] at h
          rw [← h.2.1]; exact Subs.place _ _ _ _ _ _
        · cases h

theorem updateOne_subs {c : RandomAgents} {n : Nat} {cur : Option Nat} {e : MEnv} {g : Xoro} {o : Option Nat} {e' : MEnv}
    {g' : Xoro} (h : updateOne c n cur e g = some (o, e', g')) : Subs e e' := by
  unfold updateOne at h
  split at h
  · split at h
    · simp only [Option.some.injEq, Prod.mk.injEq] at h
      rw [← h.2.1]; exact Subs.cancel _ _ _
    · exact placeRandom_subs h
  · simp only [Option.some.injEq, Prod.mk.injEq] at h
    rw [← h.2.1]; exact Subs.refl e

theorem updateFromWith_subs (f : Nat → Option Nat → MEnv → Xoro → Option (Option Nat × MEnv × Xoro))
    (hf : ∀ n cur e g o e' g', f n cur e g = some (o, e', g') → Subs e e')
    (n : Nat) (curs : List (Option Nat)) {e : MEnv} {g : Xoro}
    {os : List (Option Nat)} {e' : MEnv} {g' : Xoro} (h : updateFromWith f n curs e g = some (os, e', g')) : Subs e e' := by
  induction curs generalizing n e g os e' g' with
  | nil =>
    simp only [updateFromWith, Option.some.injEq, Prod.mk.injEq] at h
    rw [← h.2.1]; exact Subs.refl e
  | cons cur rest ih =>
    simp only [updateFromWith] at h
    cases h1 : f n cur e g with
    | none => rw [h1] at h; simp at h
    | some r1 =>
      obtain ⟨o1, e1, g1⟩ := r1
      rw [h1] at h
      simp only at h
      cases h2 : updateFromWith f (n + 1) rest e1 g1 with
      | none => rw [h2] at h; simp at h
      | some r2 =>
        obtain ⟨os2, e2, g2⟩ := r2
        rw [h2] at h
        simp only [Option.some.injEq, Prod.mk.injEq] at h
        rw [← h.2.1]
        exact (hf _ _ _ _ _ _ _ h1).trans (ih (n + 1) h2)

theorem updateFrom_subs {c : RandomAgents} (n : Nat) (curs : List (Option Nat)) {e : MEnv} {g : Xoro}
    {os : List (Option Nat)} {e' : MEnv} {g' : Xoro} (h : updateFrom c n curs e g = some (os, e', g')) : Subs e e' :=
  updateFromWith_subs (updateOne c) (fun _ _ _ _ _ _ _ h => updateOne_subs h) n curs h

theorem update_subs {c : RandomAgents} {e : MEnv} {g : Xoro} {c' : RandomAgents} {e' : MEnv} {g' : Xoro}
    (h : c.update e g = some (c', e', g')) : Subs e e' := by
  unfold update at h
  cases hu : updateFrom c 0 c.orders e g with
  | none => rw [hu] at h; simp at h
  | some r =>
    obtain ⟨os, e1, g1⟩ := r
    rw [hu] at h
    simp only [Option.map_some, Option.some.injEq, Prod.mk.injEq] at h
    rw [← h.2.1]; exact updateFrom_subs 0 c.orders hu

end RandomAgents

mutual
/-- **An update of any built-in agent — or of any derived set of them — is a sequence of environment
submissions**, for every sampler, every `tanh`, every generator state. -/
theorem SimAgent.update_subs (th : F → F) : ∀ (a : SimAgent) (e : MEnv) (g : Xoro) (a' : SimAgent) (e' : MEnv) (g' : Xoro),
    a.update th e g = some (a', e', g') → Subs e e'
  | .random c, e, g, a', e', g', h => by
    simp only [SimAgent.update] at h
    cases hu : c.update e g with
    | none => rw [hu] at h; simp at h
    | some r =>
      obtain ⟨c1, e1, g1⟩ := r
      rw [hu] at h
      simp only [Option.map_some, Option.some.injEq, Prod.mk.injEq] at h
      rw [← h.2.1]; exact RandomAgents.update_subs hu
  | .noise c smp os, e, g, a', e', g', h => by
    simp only [SimAgent.update] at h
    cases hu : FAgents.noiseUpdate c smp os e g with
    | none => rw [hu] at h; simp at h
    | some r =>
      obtain ⟨c1, e1, g1⟩ := r
      rw [hu] at h
      simp only [Option.map_some, Option.some.injEq, Prod.mk.injEq] at h
      rw [← h.2.1]; exact FAgents.noiseUpdate_subs hu
  | .momentum c smp s, e, g, a', e', g', h => by
    simp only [SimAgent.update] at h
    cases hu : FAgents.momUpdate c smp th s e g with
    | none => rw [hu] at h; simp at h
    | some r =>
      obtain ⟨c1, e1, g1⟩ := r
      rw [hu] at h
      simp only [Option.map_some, Option.some.injEq, Prod.mk.injEq] at h
      rw [← h.2.1]; exact FAgents.momUpdate_subs hu
  | .set ms, e, g, a', e', g', h => by
    simp only [SimAgent.update] at h
    cases hu : ms.updateAll th e g with
    | none => rw [hu] at h; simp at h
    | some r =>
      obtain ⟨c1, e1, g1⟩ := r
      rw [hu] at h
      simp only [Option.map_some, Option.some.injEq, Prod.mk.injEq] at h
      rw [← h.2.1]; exact SimAgents.updateAll_subs th ms e g c1 e1 g1 hu
theorem SimAgents.updateAll_subs (th : F → F) : ∀ (as : SimAgents) (e : MEnv) (g : Xoro) (as' : SimAgents) (e' : MEnv) (g' : Xoro),
    as.updateAll th e g = some (as', e', g') → Subs e e'
  | .nil, e, g, as', e', g', h => by
    simp only [SimAgents.updateAll, Option.some.injEq, Prod.mk.injEq] at h
    rw [← h.2.1]; exact Subs.refl e
  | .cons a rest, e, g, as', e', g', h => by
    simp only [SimAgents.updateAll] at h
    split at h
    · cases h
    · rename_i a1 e1 g1 h1
      split at h
      · cases h
      · rename_i r2 e2 g2 h2
        simp only [Option.some.injEq, Prod.mk.injEq] at h
        rw [← h.2.1]
        exact (SimAgent.update_subs th a e g a1 e1 g1 h1).trans (SimAgents.updateAll_subs th rest e1 g1 r2 e2 g2 h2)
end

/-- The environments a simulation passes through: submissions and steps (each step with the generator
state the simulation has reached). -/
inductive SimReach (e0 : MEnv) : MEnv → Prop
  | refl : SimReach e0 e0
  | subs {e e'} : SimReach e0 e → Subs e e' → SimReach e0 e'
  | step {e} (g : Xoro) : SimReach e0 e → SimReach e0 (e.step g).1

/-- **A whole simulation is a history of environment operations**: whatever agents are composed,
for every sampler, every `tanh`, every seed and every number of steps, the environment at the end of
the run is reached from the initial one by submissions and steps only. -/
theorem simLoopG_reach (th : F → F) (n : Nat) (as : SimAgents) (e : MEnv) (g : Xoro) (as' : SimAgents) (e' : MEnv) (g' : Xoro)
    (h : simLoopG th n as e g = some (as', e', g')) : SimReach e e' := by
  suffices ∀ e0, SimReach e0 e → SimReach e0 e' from this e SimReach.refl
  induction n generalizing as e g with
  | zero =>
    intro e0 h0
    simp only [simLoopG, Option.some.injEq, Prod.mk.injEq] at h
    rw [← h.2.1]; exact h0
  | succ n ih =>
    intro e0 h0
    simp only [simLoopG] at h
    split at h
    · cases h
    · rename_i a1 e1 g1 hu
      exact ih _ _ _ h e0 ((h0.subs (SimAgents.updateAll_subs th as e g a1 e1 g1 hu)).step g1)

end Bourse
