/-
Helper lemmas: how `setSide`/`side` and the small building blocks of `Book` touch each field.
-/
import Bourse.Model.Ops

namespace Bourse
namespace Book

@[simp] theorem setSide_t (b : Book) (sd : Side) (s : SideS) : (b.setSide sd s).t = b.t := by
  cases sd <;> rfl
@[simp] theorem setSide_tick (b : Book) (sd : Side) (s : SideS) : (b.setSide sd s).tick = b.tick := by
  cases sd <;> rfl
@[simp] theorem setSide_tradeVol (b : Book) (sd : Side) (s : SideS) :
    (b.setSide sd s).tradeVol = b.tradeVol := by cases sd <;> rfl
@[simp] theorem setSide_stamp (b : Book) (sd : Side) (s : SideS) :
    (b.setSide sd s).stamp = b.stamp := by cases sd <;> rfl
@[simp] theorem setSide_orders (b : Book) (sd : Side) (s : SideS) :
    (b.setSide sd s).orders = b.orders := by cases sd <;> rfl
@[simp] theorem setSide_trades (b : Book) (sd : Side) (s : SideS) :
    (b.setSide sd s).trades = b.trades := by cases sd <;> rfl
@[simp] theorem setSide_trading (b : Book) (sd : Side) (s : SideS) :
    (b.setSide sd s).trading = b.trading := by cases sd <;> rfl
@[simp] theorem setSide_fault (b : Book) (sd : Side) (s : SideS) :
    (b.setSide sd s).fault = b.fault := by cases sd <;> rfl

@[simp] theorem side_setSide (b : Book) (sd : Side) (s : SideS) : (b.setSide sd s).side sd = s := by
  cases sd <;> rfl
@[simp] theorem side_setSide_opp (b : Book) (sd : Side) (s : SideS) :
    (b.setSide sd s).side sd.opp = b.side sd.opp := by cases sd <;> rfl
@[simp] theorem side_opp_setSide (b : Book) (sd : Side) (s : SideS) :
    (b.setSide sd.opp s).side sd = b.side sd := by cases sd <;> rfl
@[simp] theorem side_opp_setSide_opp (b : Book) (sd : Side) (s : SideS) :
    (b.setSide sd.opp s).side sd.opp = s := by cases sd <;> rfl

@[simp] theorem opp_opp (sd : Side) : sd.opp.opp = sd := by cases sd <;> rfl
theorem opp_ne (sd : Side) : sd.opp ≠ sd := by cases sd <;> simp [Side.opp]
theorem eq_opp_of_ne {a b : Side} (h : a ≠ b) : a = b.opp := by
  cases a <;> cases b <;> first | rfl | exact absurd rfl h

theorem side_setSide_of_ne (b : Book) (sd sd' : Side) (s : SideS) (h : sd' ≠ sd) :
    (b.setSide sd s).side sd' = b.side sd' := by
  cases sd <;> cases sd' <;> simp_all [setSide, side]

/-! ### The building blocks that never touch the trade log -/

@[simp] theorem enqueue_trades (sd : Side) (b : Book) (e : Entry) (pk : Nat) :
    (enqueue sd b e pk).1.trades = b.trades := by simp [enqueue]
@[simp] theorem enqueue_tradeVol (sd : Side) (b : Book) (e : Entry) (pk : Nat) :
    (enqueue sd b e pk).1.tradeVol = b.tradeVol := by simp [enqueue]
@[simp] theorem enqueue_trading (sd : Side) (b : Book) (e : Entry) (pk : Nat) :
    (enqueue sd b e pk).1.trading = b.trading := by simp [enqueue]
@[simp] theorem enqueue_t (sd : Side) (b : Book) (e : Entry) (pk : Nat) :
    (enqueue sd b e pk).1.t = b.t := by simp [enqueue]
@[simp] theorem enqueue_tick (sd : Side) (b : Book) (e : Entry) (pk : Nat) :
    (enqueue sd b e pk).1.tick = b.tick := by simp [enqueue]
@[simp] theorem enqueue_orders (sd : Side) (b : Book) (e : Entry) (pk : Nat) :
    (enqueue sd b e pk).1.orders = b.orders := by simp [enqueue]
@[simp] theorem enqueue_order (sd : Side) (b : Book) (e : Entry) (pk : Nat) :
    (enqueue sd b e pk).2.order = e.order := by simp [enqueue]

@[simp] theorem dequeue_trades (b : Book) (e : Entry) : (b.dequeue e).trades = b.trades := by
  simp [dequeue]
@[simp] theorem dequeue_tradeVol (b : Book) (e : Entry) : (b.dequeue e).tradeVol = b.tradeVol := by
  simp [dequeue]
@[simp] theorem dequeue_trading (b : Book) (e : Entry) : (b.dequeue e).trading = b.trading := by
  simp [dequeue]
@[simp] theorem dequeue_t (b : Book) (e : Entry) : (b.dequeue e).t = b.t := by simp [dequeue]
@[simp] theorem dequeue_tick (b : Book) (e : Entry) : (b.dequeue e).tick = b.tick := by simp [dequeue]
@[simp] theorem dequeue_orders (b : Book) (e : Entry) : (b.dequeue e).orders = b.orders := by
  simp [dequeue]
@[simp] theorem dequeue_stamp (b : Book) (e : Entry) : (b.dequeue e).stamp = b.stamp := by
  simp [dequeue]

theorem restUnlessFilled_trades (sd : Side) (r : Book × Entry) (pk : Nat) :
    (restUnlessFilled sd r pk).1.trades = r.1.trades ∧
    (restUnlessFilled sd r pk).1.tradeVol = r.1.tradeVol ∧
    (restUnlessFilled sd r pk).1.trading = r.1.trading ∧
    (restUnlessFilled sd r pk).1.t = r.1.t ∧
    (restUnlessFilled sd r pk).1.tick = r.1.tick ∧
    (restUnlessFilled sd r pk).1.orders = r.1.orders ∧
    (restUnlessFilled sd r pk).2.order = r.2.order := by
  unfold restUnlessFilled; split <;> simp

theorem matchIfTrading_off (sd : Side) (b : Book) (e : Entry) (h : b.trading = false) :
    matchIfTrading sd b e = (b, e) := by simp [matchIfTrading, h]

@[simp] theorem writeBack_trades (r : Book × Entry) (id : Nat) : (writeBack r id).trades = r.1.trades := rfl
@[simp] theorem writeBack_tradeVol (r : Book × Entry) (id : Nat) :
    (writeBack r id).tradeVol = r.1.tradeVol := rfl
@[simp] theorem writeBack_trading (r : Book × Entry) (id : Nat) :
    (writeBack r id).trading = r.1.trading := rfl
@[simp] theorem writeBack_t (r : Book × Entry) (id : Nat) : (writeBack r id).t = r.1.t := rfl
@[simp] theorem writeBack_tick (r : Book × Entry) (id : Nat) : (writeBack r id).tick = r.1.tick := rfl
@[simp] theorem writeBack_orders (r : Book × Entry) (id : Nat) :
    (writeBack r id).orders = r.1.orders.set id r.2 := rfl
@[simp] theorem writeBack_side (r : Book × Entry) (id : Nat) (sd : Side) :
    (writeBack r id).side sd = r.1.side sd := by cases sd <;> rfl

end Book
end Bourse
