/-
Placing an order, in closed form, for every state that satisfies the invariant (hence every reachable
state): the trades are the greedy allocation of the order's volume over ALL resting orders of the
opposite side that satisfy its limit, in queue order (best price first, earliest queued first within
a price), each at the resting order's price.
-/
import Bourse.Lemmas.RefMatch
import Bourse.Lemmas.RefineStep
import Bourse.Lemmas.QueueOrder

namespace Bourse
namespace Ref

theorem setQueue_trades (s : RState) (sd : Side) (q : List Nat) : (s.setQueue sd q).trades = s.trades := by
  cases sd <;> rfl

theorem setQueue_orders (s : RState) (sd : Side) (q : List Nat) : (s.setQueue sd q).orders = s.orders := by
  cases sd <;> rfl

/-- While trading is enabled, `enter` logs exactly the match loop's trades and returns the loop's
aggressor volume. -/
theorem enter_loop (s : RState) (agg : Order) (market : Bool) (htr : s.trading = true) :
    (enter s agg market).1.trades =
      (matchQ s.t (s.queue agg.side.opp) ⟨s.orders, s.trades, s.tradeVol, agg⟩).2.trades ∧
    (enter s agg market).2.vol =
      (matchQ s.t (s.queue agg.side.opp) ⟨s.orders, s.trades, s.tradeVol, agg⟩).2.agg.vol := by
  unfold enter
  simp only [htr, Bool.not_true, Bool.and_false, Bool.false_eq_true, ↓reduceIte]
  split
  · exact ⟨by simp [setQueue_trades], rfl⟩
  · split
    · exact ⟨by simp [setQueue_trades], rfl⟩
    · exact ⟨by simp [setQueue_trades], rfl⟩

theorem setQueue_queue_opp (s : RState) (sd : Side) (q : List Nat) : (s.setQueue sd q).queue sd.opp = s.queue sd.opp := by
  cases sd <;> rfl

theorem setQueue_misc (s : RState) (sd : Side) (q : List Nat) :
    (s.setQueue sd q).t = s.t ∧ (s.setQueue sd q).trading = s.trading ∧ (s.setQueue sd q).tradeVol = s.tradeVol := by
  cases sd <;> exact ⟨rfl, rfl, rfl⟩

/-- **An arriving order, in closed form** (`enter` is the one function behind placement and behind
re-pricing modifications): on a well-formed state with trading enabled, the new trades are the greedy
allocation over every admissible opposite resting order in queue order, and the order keeps the rest. -/
theorem enter_closed (s : RState) (agg : Order) (market : Bool) (htr : s.trading = true)
    (hnd : (s.queue agg.side.opp).Nodup) (hval : ∀ j ∈ s.queue agg.side.opp, j < s.orders.length)
    (hs : (s.queue agg.side.opp).Pairwise (fun i j => ahead agg.side.opp (priceOf s.orders i) (priceOf s.orders j) = true)) :
    (enter s agg market).1.trades = s.trades ++
      (((s.queue agg.side.opp).filter fun j => admits agg.side agg.price (priceOf s.orders j)).zip
        (alloc agg.vol (((s.queue agg.side.opp).filter fun j => admits agg.side agg.price (priceOf s.orders j)).map (volOf s.orders)))).map
        (fun x => mkTrade s.t (orderAt s.orders x.1) agg.id x.2) ∧
    (enter s agg market).2.vol = agg.vol -
      (alloc agg.vol (((s.queue agg.side.opp).filter fun j => admits agg.side agg.price (priceOf s.orders j)).map (volOf s.orders))).sum := by
  have hl := enter_loop s agg market htr
  have ho' := matchQ_outcome s.t (s.queue agg.side.opp) ⟨s.orders, s.trades, s.tradeVol, agg⟩ hnd hval
  have hpre := admissible_prefix_is_all s.orders agg.side agg.price (s.queue agg.side.opp) hs
  refine ⟨?_, ?_⟩
  · rw [hl.1, ho'.trades]; simp only [hpre]
  · rw [hl.2, ho'.aggVol]; simp only [hpre]

/-- **A re-pricing (or volume-increasing) modification, in closed form**: the order leaves its own
queue and arrives again with its new price and volume; what it executes is the same greedy allocation. -/
theorem modify_closed (s : RState) (id : Nat) (o : Order) (np nv : Option Nat) (ho : s.orders[id]? = some o)
    (hact : o.status = .active) (hgrid : Book.offGrid s.tick np = false)
    (hre : ¬ (np = none ∧ nv = none)) (hnotred : (np.isNone && decide (nv.getD o.vol < o.vol)) = false)
    (htr : s.trading = true) (hnd : (s.queue o.side.opp).Nodup) (hval : ∀ j ∈ s.queue o.side.opp, j < s.orders.length)
    (hs : (s.queue o.side.opp).Pairwise (fun i j => ahead o.side.opp (priceOf s.orders i) (priceOf s.orders j) = true)) :
    (modify s id np nv).trades = s.trades ++
      (((s.queue o.side.opp).filter fun j => admits o.side (np.getD o.price) (priceOf s.orders j)).zip
        (alloc (nv.getD o.vol) (((s.queue o.side.opp).filter fun j => admits o.side (np.getD o.price) (priceOf s.orders j)).map
          (volOf s.orders)))).map
        (fun x => mkTrade s.t (orderAt s.orders x.1) o.id x.2) := by
  let s1 := s.setQueue o.side ((s.queue o.side).erase id)
  let agg : Order := { o with status := .active, vol := nv.getD o.vol, price := np.getD o.price }
  have hm : modify s id np nv = { (enter s1 agg false).1 with orders := (enter s1 agg false).1.orders.set id (enter s1 agg false).2 } := by
    unfold modify
    simp only [ho, hgrid, Bool.false_eq_true, ↓reduceIte, hact, ne_eq, not_true_eq_false]
    split
    · exact absurd ⟨rfl, rfl⟩ hre
    · rw [if_neg (by rw [hnotred]; simp)]
  have hq : s1.queue agg.side.opp = s.queue o.side.opp := setQueue_queue_opp s o.side _
  have hos : s1.orders = s.orders := setQueue_orders s o.side _
  have hmisc := setQueue_misc s o.side ((s.queue o.side).erase id)
  have hc := enter_closed s1 agg false (by rw [hmisc.2.1]; exact htr) (by rw [hq]; exact hnd)
    (by rw [hq, hos]; exact hval) (by rw [hq, hos]; exact hs)
  rw [hm]
  show (enter s1 agg false).1.trades = _
  rw [hc.1, hq, hos, setQueue_trades, hmisc.1]

/-- The closed form of a placement on a well-formed reference state. -/
theorem place_closed (s : RState) (id : Nat) (o : Order) (ho : s.orders[id]? = some o) (hnew : o.status = .new)
    (htr : s.trading = true) (hnd : (s.queue o.side.opp).Nodup) (hval : ∀ j ∈ s.queue o.side.opp, j < s.orders.length)
    (hs : (s.queue o.side.opp).Pairwise (fun i j => ahead o.side.opp (priceOf s.orders i) (priceOf s.orders j) = true)) :
    (place s id).trades = s.trades ++
      (((s.queue o.side.opp).filter fun j => admits o.side o.price (priceOf s.orders j)).zip
        (alloc o.vol (((s.queue o.side.opp).filter fun j => admits o.side o.price (priceOf s.orders j)).map (volOf s.orders)))).map
        (fun x => mkTrade s.t (orderAt s.orders x.1) o.id x.2) ∧
    ∃ o', (place s id).orders[id]? = some o' ∧
      o'.vol = o.vol - (alloc o.vol (((s.queue o.side.opp).filter fun j => admits o.side o.price (priceOf s.orders j)).map
        (volOf s.orders))).sum := by
  have hidlt : id < s.orders.length := by
    rcases Nat.lt_or_ge id s.orders.length with h | h
    · exact h
    · simp [List.getElem?_eq_none h] at ho
  have hpl : place s id =
      { (enter s { o with status := .active, arr := s.t } (Book.isMarket o)).1 with
        orders := (enter s { o with status := .active, arr := s.t } (Book.isMarket o)).1.orders.set id
          (enter s { o with status := .active, arr := s.t } (Book.isMarket o)).2 } := by
    simp only [place, ho, hnew]; rfl
  have hl := enter_loop s { o with status := .active, arr := s.t } (Book.isMarket o) htr
  have ho' := matchQ_outcome s.t (s.queue o.side.opp) ⟨s.orders, s.trades, s.tradeVol, { o with status := .active, arr := s.t }⟩ hnd hval
  have hpre := admissible_prefix_is_all s.orders o.side o.price (s.queue o.side.opp) hs
  -- the length of the table after `enter`: matching only overwrites records
  have hlen : (enter s { o with status := .active, arr := s.t } (Book.isMarket o)).1.orders.length = s.orders.length := by
    unfold enter
    simp only [htr, Bool.not_true, Bool.and_false, Bool.false_eq_true, ↓reduceIte]
    have hfold : ∀ (l : List (Nat × Nat)) (os : List Order),
        (l.foldl (fun os x => os.set x.1 (filledBy s.t (orderAt os x.1) x.2)) os).length = os.length := by
      intro l; induction l with
      | nil => intro os; rfl
      | cons x l ih => intro os; simp only [List.foldl_cons]; rw [ih]; simp
    have hmo := ho'.orders
    split
    · simp only [setQueue_orders]; rw [hmo]; exact hfold _ _
    · split
      · simp only [setQueue_orders]; rw [hmo]; exact hfold _ _
      · simp only [setQueue_orders]; rw [hmo]; exact hfold _ _
  refine ⟨?_, ?_⟩
  · rw [hpl]
    show (enter s { o with status := .active, arr := s.t } (Book.isMarket o)).1.trades = _
    rw [hl.1, ho'.trades]
    simp only [hpre]
  · refine ⟨(enter s { o with status := .active, arr := s.t } (Book.isMarket o)).2, ?_, ?_⟩
    · rw [hpl]
      simp only
      rw [List.getElem?_set_self (by rw [hlen]; exact hidlt)]
    · rw [hl.2, ho'.aggVol]
      simp only [hpre]

end Ref

/-- The queue of a state satisfying the invariant holds distinct, existing ids. -/
theorem abs_queue_valid {b : Book} (h : Inv b) (sd : Side) : ∀ j ∈ (abs b).queue sd, j < (abs b).orders.length := by
  intro j hj
  rw [abs_queue] at hj
  simp only [absq, List.mem_map] at hj
  obtain ⟨⟨k, i⟩, hm, rfl⟩ := hj
  obtain ⟨e, he, _⟩ := (h.side sd).ent k i hm
  have : i < b.orders.length := by
    rcases Nat.lt_or_ge i b.orders.length with h' | h'
    · exact h'
    · simp [List.getElem?_eq_none h'] at he
  simpa [abs, absOrders] using this

/-- **Placement in closed form on every state satisfying the invariant** (every reachable state of the
implementation model): the new trade records of `place_order` are the greedy allocation of the
order's volume over every opposite resting order that satisfies its limit, in the priority order of
the queue, at the resting orders' prices, with the placed order as the aggressor. -/
theorem place_greedy {b : Book} (h : Inv b) (id : Nat) (e : Entry) (he : b.orders[id]? = some e)
    (hnew : e.order.status = .new) (htr : b.trading = true) (hnf : (b.placeOrder id).faulted = false) :
    let s := abs b
    let o := e.order
    let adm := (s.queue o.side.opp).filter fun j => Ref.admits o.side o.price (Ref.priceOf s.orders j)
    let fs := Ref.alloc o.vol (adm.map (Ref.volOf s.orders))
    (b.placeOrder id).trades = b.trades ++ (adm.zip fs).map (fun x => Ref.mkTrade b.t (Ref.orderAt s.orders x.1) o.id x.2) ∧
    fs.sum = min o.vol (adm.map (Ref.volOf s.orders)).sum ∧
    ∃ e', (b.placeOrder id).orders[id]? = some e' ∧ e'.order.vol = o.vol - fs.sum := by
  intro s o adm fs
  have hr := place_refines h id hnf
  have hget : s.orders[id]? = some o := by simp [s, o, abs_get, he]
  have hq : ∀ sd, s.queue sd = absq (b.side sd) := abs_queue b
  have hnd : (s.queue o.side.opp).Nodup := by rw [hq]; exact absq_nodup h _
  have hval := abs_queue_valid h o.side.opp
  have hs : (s.queue o.side.opp).Pairwise (fun i j => Ref.ahead o.side.opp (Ref.priceOf s.orders i) (Ref.priceOf s.orders j) = true) := by
    rw [hq]; exact queue_price_sorted h _
  obtain ⟨ht, o', ho', hv'⟩ := Ref.place_closed s id o hget hnew htr hnd hval hs
  refine ⟨?_, Ref.alloc_sum _ _, ?_⟩
  · have : (b.placeOrder id).trades = (abs (b.placeOrder id)).trades := rfl
    rw [this, hr]
    exact ht
  · have hg : (abs (b.placeOrder id)).orders[id]? = some o' := by rw [hr]; exact ho'
    rw [abs_get] at hg
    cases hb : (b.placeOrder id).orders[id]? with
    | none => simp [hb] at hg
    | some e' =>
      simp only [hb, Option.map_some, Option.some.injEq] at hg
      exact ⟨e', rfl, by rw [hg]; exact hv'⟩

/-- **A re-pricing modification in closed form on every state satisfying the invariant.** -/
theorem modify_greedy {b : Book} (h : Inv b) (id : Nat) (e : Entry) (np nv : Option Nat) (he : b.orders[id]? = some e)
    (hact : e.order.status = .active) (hgrid : Book.offGrid b.tick np = false) (hre : ¬ (np = none ∧ nv = none))
    (hnotred : (np.isNone && decide (nv.getD e.order.vol < e.order.vol)) = false) (htr : b.trading = true)
    (hpvalid : ∀ p, np = some p → p ≤ MAXP) (hnf : (b.modifyOrder id np nv).faulted = false) :
    let s := abs b
    let o := e.order
    let adm := (s.queue o.side.opp).filter fun j => Ref.admits o.side (np.getD o.price) (Ref.priceOf s.orders j)
    let fs := Ref.alloc (nv.getD o.vol) (adm.map (Ref.volOf s.orders))
    (b.modifyOrder id np nv).trades = b.trades ++ (adm.zip fs).map (fun x => Ref.mkTrade b.t (Ref.orderAt s.orders x.1) o.id x.2) ∧
    fs.sum = min (nv.getD o.vol) (adm.map (Ref.volOf s.orders)).sum := by
  intro s o adm fs
  have hr := modify_refines h id np nv hpvalid hnf
  have hget : s.orders[id]? = some o := by simp [s, o, abs_get, he]
  have hq : ∀ sd, s.queue sd = absq (b.side sd) := abs_queue b
  have hnd : (s.queue o.side.opp).Nodup := by rw [hq]; exact absq_nodup h _
  have hval := abs_queue_valid h o.side.opp
  have hs : (s.queue o.side.opp).Pairwise (fun i j => Ref.ahead o.side.opp (Ref.priceOf s.orders i) (Ref.priceOf s.orders j) = true) := by
    rw [hq]; exact queue_price_sorted h _
  refine ⟨?_, Ref.alloc_sum _ _⟩
  have : (b.modifyOrder id np nv).trades = (abs (b.modifyOrder id np nv)).trades := rfl
  rw [this, hr]
  exact Ref.modify_closed s id o np nv hget hact hgrid hre hnotred htr hnd hval hs

end Bourse
