/-
Placing an order, in closed form, for every state that satisfies the invariant (hence every reachable
state): the trades are the greedy allocation of the order's volume over ALL resting orders of the
opposite side that satisfy its limit, in queue order (best price first, earliest queued first within
a price), each at the resting order's price.
-/
import Bourse.Lemmas.RefMatch
import Bourse.Lemmas.RefineStep
import Bourse.Lemmas.QueueOrder

namespace Bourse
namespace Ref

theorem setQueue_trades (s : RState) (sd : Side) (q : List Nat) : (s.setQueue sd q).trades = s.trades := by
  cases sd <;> rfl

theorem setQueue_orders (s : RState) (sd : Side) (q : List Nat) : (s.setQueue sd q).orders = s.orders := by
  cases sd <;> rfl

/-- While trading is enabled, `enter` logs exactly the match loop's trades and returns the loop's
aggressor volume. -/
theorem enter_loop (s : RState) (agg : Order) (market : Bool) (htr : s.trading = true) :
    (enter s agg market).1.trades =
      (matchQ s.t (s.queue agg.side.opp) ⟨s.orders, s.trades, s.tradeVol, agg⟩).2.trades ∧
    (enter s agg market).2.vol =
      (matchQ s.t (s.queue agg.side.opp) ⟨s.orders, s.trades, s.tradeVol, agg⟩).2.agg.vol := by
  unfold enter
  simp only [htr, Bool.not_true, Bool.and_false, Bool.false_eq_true, ↓reduceIte]
  split
  · exact ⟨by simp [setQueue_trades], rfl⟩
  · split
    · exact ⟨by simp [setQueue_trades], rfl⟩
    · exact ⟨by simp [setQueue_trades], rfl⟩

theorem setQueue_queue_opp (s : RState) (sd : Side) (q : List Nat) : (s.setQueue sd q).queue sd.opp = s.queue sd.opp := by
  cases sd <;> rfl

theorem setQueue_misc (s : RState) (sd : Side) (q : List Nat) :
    (s.setQueue sd q).t = s.t ∧ (s.setQueue sd q).trading = s.trading ∧ (s.setQueue sd q).tradeVol = s.tradeVol := by
  cases sd <;> exact ⟨rfl, rfl, rfl⟩

/-- **An arriving order, in closed form** (`enter` is the one function behind placement and behind
re-pricing modifications): on a well-formed state with trading enabled, the new trades are the greedy
allocation over every admissible opposite resting order in queue order, and the order keeps the rest. -/
theorem enter_closed (s : RState) (agg : Order) (market : Bool) (htr : s.trading = true)
    (hnd : (s.queue agg.side.opp).Nodup) (hval : ∀ j ∈ s.queue agg.side.opp, j < s.orders.length)
    (hs : (s.queue agg.side.opp).Pairwise (fun i j => ahead agg.side.opp (priceOf s.orders i) (priceOf s.orders j) = true)) :
    (enter s agg market).1.trades = s.trades ++
      (((s.queue agg.side.opp).filter fun j => admits agg.side agg.price (priceOf s.orders j)).zip
        (alloc agg.vol (((s.queue agg.side.opp).filter fun j => admits agg.side agg.price (priceOf s.orders j)).map (volOf s.orders)))).map
        (fun x => mkTrade s.t (orderAt s.orders x.1) agg.id x.2) ∧
    (enter s agg market).2.vol = agg.vol -
      (alloc agg.vol (((s.queue agg.side.opp).filter fun j => admits agg.side agg.price (priceOf s.orders j)).map (volOf s.orders))).sum := by
  have hl := enter_loop s agg market htr
  have ho' := matchQ_outcome s.t (s.queue agg.side.opp) ⟨s.orders, s.trades, s.tradeVol, agg⟩ hnd hval
  have hpre := admissible_prefix_is_all s.orders agg.side agg.price (s.queue agg.side.opp) hs
  refine ⟨?_, ?_⟩
  · rw [hl.1, ho'.trades]; simp only [hpre]
  · rw [hl.2, ho'.aggVol]; simp only [hpre]

theorem setQueue_queue_self (s : RState) (sd : Side) (q : List Nat) : (s.setQueue sd q).queue sd = q := by
  cases sd <;> rfl

theorem setQueue_opp_queue (s : RState) (sd : Side) (q : List Nat) : (s.setQueue sd.opp q).queue sd = s.queue sd := by
  cases sd <;> rfl

theorem enqueue_congr (os os' : List Order) (sd : Side) (q : List Nat) (id price : Nat)
    (h : ∀ i, priceOf os' i = priceOf os i) : enqueue os' sd q id price = enqueue os sd q id price := by
  unfold enqueue
  have : (fun j => ahead sd (priceOf os' j) price) = (fun j => ahead sd (priceOf os j) price) := by
    funext j; rw [h j]
  rw [this]

/-- **What becomes of the arriving order itself** (second sentence of C01): nothing left — Filled, ended now, not queued;
something left of a market order — discarded (Cancelled, ended now, not queued); something left of a limit order —
it rests: its own side's queue becomes `enqueue … id price`, i.e. behind every resting order with a better or
equal price and ahead of the rest (`ref_enqueue_position`). -/
theorem enter_rest (s : RState) (agg : Order) (market : Bool) (htr : s.trading = true)
    (hnd : (s.queue agg.side.opp).Nodup) (hval : ∀ j ∈ s.queue agg.side.opp, j < s.orders.length)
    (hV : 0 < agg.vol) (hst : agg.status ≠ .filled) :
    let r := enter s agg market
    (r.2.vol = 0 → r.2.status = .filled ∧ r.2.endt = s.t ∧ r.1.queue agg.side = s.queue agg.side) ∧
    (0 < r.2.vol → market = true → r.2.status = .cancelled ∧ r.2.endt = s.t ∧ r.1.queue agg.side = s.queue agg.side) ∧
    (0 < r.2.vol → market = false → r.2.status = agg.status ∧ r.2.endt = agg.endt ∧
      r.1.queue agg.side = enqueue s.orders agg.side (s.queue agg.side) agg.id agg.price) ∧
    r.2.side = agg.side ∧ r.2.price = agg.price ∧ r.2.id = agg.id := by
  intro r
  let m := matchQ s.t (s.queue agg.side.opp) ⟨s.orders, s.trades, s.tradeVol, agg⟩
  have ho := matchQ_outcome s.t (s.queue agg.side.opp) ⟨s.orders, s.trades, s.tradeVol, agg⟩ hnd hval
  have hs := matchQ_agg_status s.t (s.queue agg.side.opp) ⟨s.orders, s.trades, s.tradeVol, agg⟩ hval hV
  obtain ⟨hside, hprice, hid, _, _, _⟩ := ho.aggSame
  have hpr : ∀ i, priceOf m.2.orders i = priceOf s.orders i := by
    intro i; show priceOf (matchQ _ _ _).2.orders i = _; rw [ho.orders]; exact fold_priceOf _ _ _ _
  by_cases hz : m.2.agg.vol = 0
  · -- nothing left
    have hfill : m.2.agg.status = .filled := by have := hs.1; simp only [show (matchQ _ _ _).2.agg.vol = 0 from hz, ↓reduceIte] at this; exact this
    have hend : m.2.agg.endt = s.t := by have := hs.2; simp only [show (matchQ _ _ _).2.agg.vol = 0 from hz, ↓reduceIte] at this; exact this
    have hr : r = ({ (s.setQueue agg.side.opp m.1) with orders := m.2.orders, trades := m.2.trades, tradeVol := m.2.tradeVol }, m.2.agg) := by
      show enter s agg market = _
      unfold enter
      simp only [htr, Bool.not_true, Bool.and_false, Bool.false_eq_true, ↓reduceIte]
      rw [if_pos hfill]
    rw [hr]
    refine ⟨fun _ => ⟨hfill, hend, ?_⟩, fun h => absurd hz (by simp only at h; omega), fun h => absurd hz (by simp only at h; omega), hside, hprice, hid⟩
    show ({ (s.setQueue agg.side.opp m.1) with orders := m.2.orders, trades := m.2.trades, tradeVol := m.2.tradeVol } : RState).queue agg.side = _
    have : ∀ (x : RState) (os : List Order) (ts : List Trade) (tv : Nat) (sd : Side),
        ({ x with orders := os, trades := ts, tradeVol := tv } : RState).queue sd = x.queue sd := by
      intro x os ts tv sd; cases sd <;> rfl
    rw [this, setQueue_opp_queue]
  · have hnf : m.2.agg.status ≠ .filled := by
      have := hs.1; simp only [show ¬ (matchQ _ _ _).2.agg.vol = 0 from hz, ↓reduceIte] at this
      show (matchQ _ _ _).2.agg.status ≠ _; rw [this]; exact hst
    have hstat : m.2.agg.status = agg.status := by
      have := hs.1; simp only [show ¬ (matchQ _ _ _).2.agg.vol = 0 from hz, ↓reduceIte] at this; exact this
    have hend : m.2.agg.endt = agg.endt := by
      have := hs.2; simp only [show ¬ (matchQ _ _ _).2.agg.vol = 0 from hz, ↓reduceIte] at this; exact this
    have hq : ∀ (x : RState) (os : List Order) (ts : List Trade) (tv : Nat) (sd : Side),
        ({ x with orders := os, trades := ts, tradeVol := tv } : RState).queue sd = x.queue sd := by
      intro x os ts tv sd; cases sd <;> rfl
    cases market with
    | true =>
      have hr : r = ({ (s.setQueue agg.side.opp m.1) with orders := m.2.orders, trades := m.2.trades, tradeVol := m.2.tradeVol },
          { m.2.agg with status := .cancelled, endt := (s.setQueue agg.side.opp m.1).t }) := by
        show enter s agg true = _
        unfold enter
        simp only [htr, Bool.not_true, Bool.and_false, Bool.false_eq_true, ↓reduceIte]
        rw [if_neg hnf]
      rw [hr]
      refine ⟨fun h => absurd h hz, fun _ _ => ⟨rfl, ?_, ?_⟩, fun _ h => by simp at h, hside, hprice, hid⟩
      · exact (setQueue_misc s agg.side.opp m.1).1
      · show ({ (s.setQueue agg.side.opp m.1) with orders := m.2.orders, trades := m.2.trades, tradeVol := m.2.tradeVol } : RState).queue agg.side = _
        rw [hq, setQueue_opp_queue]
    | false =>
      have hr : r = (({ (s.setQueue agg.side.opp m.1) with orders := m.2.orders, trades := m.2.trades, tradeVol := m.2.tradeVol } : RState).setQueue agg.side
            (enqueue m.2.orders agg.side (({ (s.setQueue agg.side.opp m.1) with orders := m.2.orders, trades := m.2.trades, tradeVol := m.2.tradeVol } : RState).queue agg.side)
              m.2.agg.id m.2.agg.price), m.2.agg) := by
        show enter s agg false = _
        unfold enter
        simp only [htr, Bool.not_true, Bool.and_false, Bool.false_eq_true, ↓reduceIte]
        rw [if_neg hnf]
      rw [hr]
      refine ⟨fun h => absurd h hz, fun _ h => by simp at h, fun _ _ => ⟨hstat, hend, ?_⟩, hside, hprice, hid⟩
      simp only
      rw [show m.2.agg.id = agg.id from hid, show m.2.agg.price = agg.price from hprice,
        setQueue_queue_self, hq, setQueue_opp_queue]
      exact enqueue_congr _ _ _ _ _ _ hpr

/-- **A re-pricing (or volume-increasing) modification, in closed form**: the order leaves its own
queue and arrives again with its new price and volume; what it executes is the same greedy allocation. -/
theorem modify_closed (s : RState) (id : Nat) (o : Order) (np nv : Option Nat) (ho : s.orders[id]? = some o)
    (hact : o.status = .active) (hgrid : Book.offGrid s.tick np = false)
    (hre : ¬ (np = none ∧ nv = none)) (hnotred : (np.isNone && decide (nv.getD o.vol < o.vol)) = false)
    (htr : s.trading = true) (hnd : (s.queue o.side.opp).Nodup) (hval : ∀ j ∈ s.queue o.side.opp, j < s.orders.length)
    (hs : (s.queue o.side.opp).Pairwise (fun i j => ahead o.side.opp (priceOf s.orders i) (priceOf s.orders j) = true)) :
    (modify s id np nv).trades = s.trades ++
      (((s.queue o.side.opp).filter fun j => admits o.side (np.getD o.price) (priceOf s.orders j)).zip
        (alloc (nv.getD o.vol) (((s.queue o.side.opp).filter fun j => admits o.side (np.getD o.price) (priceOf s.orders j)).map
          (volOf s.orders)))).map
        (fun x => mkTrade s.t (orderAt s.orders x.1) o.id x.2) := by
  let s1 := s.setQueue o.side ((s.queue o.side).erase id)
  let agg : Order := { o with status := .active, vol := nv.getD o.vol, price := np.getD o.price }
  have hm : modify s id np nv = { (enter s1 agg false).1 with orders := (enter s1 agg false).1.orders.set id (enter s1 agg false).2 } := by
    unfold modify
    simp only [ho, hgrid, Bool.false_eq_true, ↓reduceIte, hact, ne_eq, not_true_eq_false]
    split
    · exact absurd ⟨rfl, rfl⟩ hre
    · rw [if_neg (by rw [hnotred]; simp)]
  have hq : s1.queue agg.side.opp = s.queue o.side.opp := setQueue_queue_opp s o.side _
  have hos : s1.orders = s.orders := setQueue_orders s o.side _
  have hmisc := setQueue_misc s o.side ((s.queue o.side).erase id)
  have hc := enter_closed s1 agg false (by rw [hmisc.2.1]; exact htr) (by rw [hq]; exact hnd)
    (by rw [hq, hos]; exact hval) (by rw [hq, hos]; exact hs)
  rw [hm]
  show (enter s1 agg false).1.trades = _
  rw [hc.1, hq, hos, setQueue_trades, hmisc.1]

/-- The closed form of a placement on a well-formed reference state. -/
theorem place_closed (s : RState) (id : Nat) (o : Order) (ho : s.orders[id]? = some o) (hnew : o.status = .new)
    (htr : s.trading = true) (hnd : (s.queue o.side.opp).Nodup) (hval : ∀ j ∈ s.queue o.side.opp, j < s.orders.length)
    (hs : (s.queue o.side.opp).Pairwise (fun i j => ahead o.side.opp (priceOf s.orders i) (priceOf s.orders j) = true)) :
    (place s id).trades = s.trades ++
      (((s.queue o.side.opp).filter fun j => admits o.side o.price (priceOf s.orders j)).zip
        (alloc o.vol (((s.queue o.side.opp).filter fun j => admits o.side o.price (priceOf s.orders j)).map (volOf s.orders)))).map
        (fun x => mkTrade s.t (orderAt s.orders x.1) o.id x.2) ∧
    ∃ o', (place s id).orders[id]? = some o' ∧
      o'.vol = o.vol - (alloc o.vol (((s.queue o.side.opp).filter fun j => admits o.side o.price (priceOf s.orders j)).map
        (volOf s.orders))).sum := by
  have hidlt : id < s.orders.length := by
    rcases Nat.lt_or_ge id s.orders.length with h | h
    · exact h
    · simp [List.getElem?_eq_none h] at ho
  have hpl : place s id =
      { (enter s { o with status := .active, arr := s.t } (Book.isMarket o)).1 with
        orders := (enter s { o with status := .active, arr := s.t } (Book.isMarket o)).1.orders.set id
          (enter s { o with status := .active, arr := s.t } (Book.isMarket o)).2 } := by
    simp only [place, ho, hnew]; rfl
  have hl := enter_loop s { o with status := .active, arr := s.t } (Book.isMarket o) htr
  have ho' := matchQ_outcome s.t (s.queue o.side.opp) ⟨s.orders, s.trades, s.tradeVol, { o with status := .active, arr := s.t }⟩ hnd hval
  have hpre := admissible_prefix_is_all s.orders o.side o.price (s.queue o.side.opp) hs
  -- the length of the table after `enter`: matching only overwrites records
  have hlen : (enter s { o with status := .active, arr := s.t } (Book.isMarket o)).1.orders.length = s.orders.length := by
    unfold enter
    simp only [htr, Bool.not_true, Bool.and_false, Bool.false_eq_true, ↓reduceIte]
    have hfold : ∀ (l : List (Nat × Nat)) (os : List Order),
        (l.foldl (fun os x => os.set x.1 (filledBy s.t (orderAt os x.1) x.2)) os).length = os.length := by
      intro l; induction l with
      | nil => intro os; rfl
      | cons x l ih => intro os; simp only [List.foldl_cons]; rw [ih]; simp
    have hmo := ho'.orders
    split
    · simp only [setQueue_orders]; rw [hmo]; exact hfold _ _
    · split
      · simp only [setQueue_orders]; rw [hmo]; exact hfold _ _
      · simp only [setQueue_orders]; rw [hmo]; exact hfold _ _
  refine ⟨?_, ?_⟩
  · rw [hpl]
    show (enter s { o with status := .active, arr := s.t } (Book.isMarket o)).1.trades = _
    rw [hl.1, ho'.trades]
    simp only [hpre]
  · refine ⟨(enter s { o with status := .active, arr := s.t } (Book.isMarket o)).2, ?_, ?_⟩
    · rw [hpl]
      simp only
      rw [List.getElem?_set_self (by rw [hlen]; exact hidlt)]
    · rw [hl.2, ho'.aggVol]
      simp only [hpre]

/-- The record and the queues `place` leaves are those `enter` returns. -/
theorem place_record (s : RState) (id : Nat) (o : Order) (ho : s.orders[id]? = some o) (hnew : o.status = .new)
    (htr : s.trading = true) (hnd : (s.queue o.side.opp).Nodup) (hval : ∀ j ∈ s.queue o.side.opp, j < s.orders.length) :
    (place s id).orders[id]? = some (enter s { o with status := .active, arr := s.t } (Book.isMarket o)).2 ∧
    ∀ sd, (place s id).queue sd = (enter s { o with status := .active, arr := s.t } (Book.isMarket o)).1.queue sd := by
  have hidlt : id < s.orders.length := by
    rcases Nat.lt_or_ge id s.orders.length with h | h
    · exact h
    · simp [List.getElem?_eq_none h] at ho
  have hpl : place s id =
      { (enter s { o with status := .active, arr := s.t } (Book.isMarket o)).1 with
        orders := (enter s { o with status := .active, arr := s.t } (Book.isMarket o)).1.orders.set id
          (enter s { o with status := .active, arr := s.t } (Book.isMarket o)).2 } := by
    simp only [place, ho, hnew]; rfl
  have ho' := matchQ_outcome s.t (s.queue o.side.opp) ⟨s.orders, s.trades, s.tradeVol, { o with status := .active, arr := s.t }⟩ hnd hval
  have hlen : (enter s { o with status := .active, arr := s.t } (Book.isMarket o)).1.orders.length = s.orders.length := by
    unfold enter
    simp only [htr, Bool.not_true, Bool.and_false, Bool.false_eq_true, ↓reduceIte]
    have hfold : ∀ (l : List (Nat × Nat)) (os : List Order),
        (l.foldl (fun os x => os.set x.1 (filledBy s.t (orderAt os x.1) x.2)) os).length = os.length := by
      intro l; induction l with
      | nil => intro os; rfl
      | cons x l ih => intro os; simp only [List.foldl_cons]; rw [ih]; simp
    have hmo := ho'.orders
    split
    · simp only; rw [hmo]; exact hfold _ _
    · split
      · simp only; rw [hmo]; exact hfold _ _
      · simp only [setQueue_orders]; rw [hmo]; exact hfold _ _
  refine ⟨?_, ?_⟩
  · rw [hpl]; simp only
    rw [List.getElem?_set_self (by rw [hlen]; exact hidlt)]
  · intro sd; rw [hpl]; cases sd <;> rfl

end Ref

/-- The queue of a state satisfying the invariant holds distinct, existing ids. -/
theorem abs_queue_valid {b : Book} (h : Inv b) (sd : Side) : ∀ j ∈ (abs b).queue sd, j < (abs b).orders.length := by
  intro j hj
  rw [abs_queue] at hj
  simp only [absq, List.mem_map] at hj
  obtain ⟨⟨k, i⟩, hm, rfl⟩ := hj
  obtain ⟨e, he, _⟩ := (h.side sd).ent k i hm
  have : i < b.orders.length := by
    rcases Nat.lt_or_ge i b.orders.length with h' | h'
    · exact h'
    · simp [List.getElem?_eq_none h'] at he
  simpa [abs, absOrders] using this

/-- **Placement in closed form on every state satisfying the invariant** (every reachable state of the
implementation model): the new trade records of `place_order` are the greedy allocation of the
order's volume over every opposite resting order that satisfies its limit, in the priority order of
the queue, at the resting orders' prices, with the placed order as the aggressor. -/
theorem place_greedy {b : Book} (h : Inv b) (id : Nat) (e : Entry) (he : b.orders[id]? = some e)
    (hnew : e.order.status = .new) (htr : b.trading = true) (hnf : (b.placeOrder id).faulted = false) :
    let s := abs b
    let o := e.order
    let adm := (s.queue o.side.opp).filter fun j => Ref.admits o.side o.price (Ref.priceOf s.orders j)
    let fs := Ref.alloc o.vol (adm.map (Ref.volOf s.orders))
    (b.placeOrder id).trades = b.trades ++ (adm.zip fs).map (fun x => Ref.mkTrade b.t (Ref.orderAt s.orders x.1) o.id x.2) ∧
    fs.sum = min o.vol (adm.map (Ref.volOf s.orders)).sum ∧
    ∃ e', (b.placeOrder id).orders[id]? = some e' ∧ e'.order.vol = o.vol - fs.sum := by
  intro s o adm fs
  have hr := place_refines h id hnf
  have hget : s.orders[id]? = some o := by simp [s, o, abs_get, he]
  have hq : ∀ sd, s.queue sd = absq (b.side sd) := abs_queue b
  have hnd : (s.queue o.side.opp).Nodup := by rw [hq]; exact absq_nodup h _
  have hval := abs_queue_valid h o.side.opp
  have hs : (s.queue o.side.opp).Pairwise (fun i j => Ref.ahead o.side.opp (Ref.priceOf s.orders i) (Ref.priceOf s.orders j) = true) := by
    rw [hq]; exact queue_price_sorted h _
  obtain ⟨ht, o', ho', hv'⟩ := Ref.place_closed s id o hget hnew htr hnd hval hs
  refine ⟨?_, Ref.alloc_sum _ _, ?_⟩
  · have : (b.placeOrder id).trades = (abs (b.placeOrder id)).trades := rfl
    rw [this, hr]
    exact ht
  · have hg : (abs (b.placeOrder id)).orders[id]? = some o' := by rw [hr]; exact ho'
    rw [abs_get] at hg
    cases hb : (b.placeOrder id).orders[id]? with
    | none => simp [hb] at hg
    | some e' =>
      simp only [hb, Option.map_some, Option.some.injEq] at hg
      exact ⟨e', rfl, by rw [hg]; exact hv'⟩

/-- **What becomes of the placed order, on every state satisfying the invariant** (C01, second sentence): with `rem` what the
greedy allocation leaves of it — `rem = 0`: Filled, ended at the book time, not queued; a market order with `rem > 0`:
the rest is discarded (Cancelled, ended at the book time, not queued); a limit order with `rem > 0`: Active and queued on
its own side at `Ref.enqueue`'s position — behind every resting order with a better or equal price, ahead of the others. -/
theorem place_rest {b : Book} (h : Inv b) (id : Nat) (e : Entry) (he : b.orders[id]? = some e)
    (hnew : e.order.status = .new) (htr : b.trading = true) (hnf : (b.placeOrder id).faulted = false) :
    let s := abs b
    let o := e.order
    let adm := (s.queue o.side.opp).filter fun j => Ref.admits o.side o.price (Ref.priceOf s.orders j)
    let rem := o.vol - (Ref.alloc o.vol (adm.map (Ref.volOf s.orders))).sum
    ∃ e', (b.placeOrder id).orders[id]? = some e' ∧ e'.order.vol = rem ∧
      (rem = 0 → e'.order.status = .filled ∧ e'.order.endt = b.t ∧ absq ((b.placeOrder id).side o.side) = s.queue o.side) ∧
      (0 < rem → Book.isMarket o = true →
        e'.order.status = .cancelled ∧ e'.order.endt = b.t ∧ absq ((b.placeOrder id).side o.side) = s.queue o.side) ∧
      (0 < rem → Book.isMarket o = false →
        e'.order.status = .active ∧ absq ((b.placeOrder id).side o.side) = Ref.enqueue s.orders o.side (s.queue o.side) id o.price) := by
  intro s o adm rem
  have hr := place_refines h id hnf
  have hget : s.orders[id]? = some o := by simp [s, o, abs_get, he]
  have hq : ∀ sd, s.queue sd = absq (b.side sd) := abs_queue b
  have hnd : (s.queue o.side.opp).Nodup := by rw [hq]; exact absq_nodup h _
  have hval := abs_queue_valid h o.side.opp
  have hs : (s.queue o.side.opp).Pairwise (fun i j => Ref.ahead o.side.opp (Ref.priceOf s.orders i) (Ref.priceOf s.orders j) = true) := by
    rw [hq]; exact queue_price_sorted h _
  have hpos : 0 < o.vol := (h.newok id e he hnew).2.1
  have hid : o.id = id := h.ids id e he
  let agg : Order := { o with status := .active, arr := s.t }
  have hrec := Ref.place_record s id o hget hnew htr hnd hval
  have hcl := Ref.enter_closed s agg (Book.isMarket o) htr hnd hval hs
  have hrest := Ref.enter_rest s agg (Book.isMarket o) htr hnd hval hpos (by simp [agg])
  have hg : (abs (b.placeOrder id)).orders[id]? = some (Ref.enter s agg (Book.isMarket o)).2 := by rw [hr]; exact hrec.1
  have hqq : ∀ sd, absq ((b.placeOrder id).side sd) = (Ref.enter s agg (Book.isMarket o)).1.queue sd := by
    intro sd; rw [← abs_queue, hr]; exact hrec.2 sd
  rw [abs_get] at hg
  cases hb : (b.placeOrder id).orders[id]? with
  | none => simp [hb] at hg
  | some e' =>
    simp only [hb, Option.map_some, Option.some.injEq] at hg
    have hvol : e'.order.vol = rem := by rw [hg]; exact hcl.2
    obtain ⟨r0, rm, rl, _, _, _⟩ := hrest
    refine ⟨e', rfl, hvol, ?_, ?_, ?_⟩
    · intro h0
      have := r0 (by rw [← hg, hvol]; exact h0)
      rw [hg, hqq]; exact this
    · intro hp hm
      have := rm (by rw [← hg, hvol]; exact hp) hm
      rw [hg, hqq]; exact this
    · intro hp hm
      have := rl (by rw [← hg, hvol]; exact hp) hm
      rw [hg, hqq]
      refine ⟨this.1, ?_⟩
      have h2 := this.2.2
      rw [show agg.id = id from hid] at h2
      exact h2

/-- **A re-pricing modification in closed form on every state satisfying the invariant.** -/
theorem modify_greedy {b : Book} (h : Inv b) (id : Nat) (e : Entry) (np nv : Option Nat) (he : b.orders[id]? = some e)
    (hact : e.order.status = .active) (hgrid : Book.offGrid b.tick np = false) (hre : ¬ (np = none ∧ nv = none))
    (hnotred : (np.isNone && decide (nv.getD e.order.vol < e.order.vol)) = false) (htr : b.trading = true)
    (hpvalid : ∀ p, np = some p → p ≤ MAXP) (hnf : (b.modifyOrder id np nv).faulted = false) :
    let s := abs b
    let o := e.order
    let adm := (s.queue o.side.opp).filter fun j => Ref.admits o.side (np.getD o.price) (Ref.priceOf s.orders j)
    let fs := Ref.alloc (nv.getD o.vol) (adm.map (Ref.volOf s.orders))
    (b.modifyOrder id np nv).trades = b.trades ++ (adm.zip fs).map (fun x => Ref.mkTrade b.t (Ref.orderAt s.orders x.1) o.id x.2) ∧
    fs.sum = min (nv.getD o.vol) (adm.map (Ref.volOf s.orders)).sum := by
  intro s o adm fs
  have hr := modify_refines h id np nv hpvalid hnf
  have hget : s.orders[id]? = some o := by simp [s, o, abs_get, he]
  have hq : ∀ sd, s.queue sd = absq (b.side sd) := abs_queue b
  have hnd : (s.queue o.side.opp).Nodup := by rw [hq]; exact absq_nodup h _
  have hval := abs_queue_valid h o.side.opp
  have hs : (s.queue o.side.opp).Pairwise (fun i j => Ref.ahead o.side.opp (Ref.priceOf s.orders i) (Ref.priceOf s.orders j) = true) := by
    rw [hq]; exact queue_price_sorted h _
  refine ⟨?_, Ref.alloc_sum _ _⟩
  have : (b.modifyOrder id np nv).trades = (abs (b.modifyOrder id np nv)).trades := rfl
  rw [this, hr]
  exact Ref.modify_closed s id o np nv hget hact hgrid hre hnotred htr hnd hval hs

end Bourse
