/-
The ledger of every operation of the reference engine, and its transfer to the implementation
model: new trade records are well formed against the table after the operation, and every order
lost exactly the volume of the new trades it took part in (C03).
-/
import Bourse.Lemmas.RefLedger

namespace Bourse

/-- A new trade record, read against the order table after the operation that produced it. -/
structure TradeFinal (t : Nat) (os' : List Order) (tr : Trade) : Prop where
  time : tr.t = t
  pos : 0 < tr.vol
  ne : tr.active ≠ tr.passive
  agg : ∃ a, os'[tr.active]? = some a ∧ a.id = tr.active ∧ a.side = tr.side.opp ∧
          Ref.admits a.side a.price tr.price = true
  pas : ∃ p, os'[tr.passive]? = some p ∧ p.id = tr.passive ∧ p.side = tr.side ∧ p.price = tr.price

/-- The ledger statement of one operation taking `s` to `s'`; `vreq id o` is the volume order `id`
is explicitly given by the operation (its own volume unless the operation is an accepted volume
modification of that order). -/
def StepLedger (s s' : Ref.RState) (vreq : Nat → Order → Nat) : Prop :=
  ∃ new, s'.trades = s.trades ++ new ∧ (∀ tr ∈ new, TradeFinal s.t s'.orders tr) ∧
    (∀ (id : Nat) (o : Order), s.orders[id]? = some o →
      ∃ o', s'.orders[id]? = some o' ∧ o'.vol + tradedOf id new = vreq id o ∧
        o'.id = o.id ∧ o'.side = o.side ∧ o'.trader = o.trader ∧ o'.svol = o.svol) ∧
    -- an order that did not exist before the operation starts from its starting volume
    (∀ (id : Nat) (o' : Order), s.orders[id]? = none → s'.orders[id]? = some o' → o'.vol + tradedOf id new = o'.svol)

theorem getElem?_set_none {α : Type} (l : List α) (i j : Nat) (x : α) (h : l[j]? = none) : (l.set i x)[j]? = none := by
  rw [List.getElem?_eq_none_iff] at h ⊢; simpa using h

theorem StepLedger.same (s s' : Ref.RState) (ho : s'.orders = s.orders) (ht : s'.trades = s.trades) :
    StepLedger s s' (fun _ o => o.vol) := by
  refine ⟨[], by simp [ht], by simp, ?_, ?_⟩
  · intro id o h
    exact ⟨o, by rw [ho]; exact h, by simp [tradedOf_nil], rfl, rfl, rfl, rfl⟩
  · intro id o' h1 h2; rw [ho, h1] at h2; cases h2

/-- Entering order `id` (already out of both queues) with the record `agg`, then writing the result
back: the ledger statement with `agg.vol` as the volume given to `id`. -/
theorem finish_ledger (s : Ref.RState) (hw : QWf s) (id : Nat) (o agg : Order) (market : Bool)
    (ho : s.orders[id]? = some o) (hid : agg.id = id) (hside : agg.side = o.side)
    (htr : agg.trader = o.trader) (hsv : agg.svol = o.svol)
    (hout : ∀ sd, id ∉ s.queue sd) :
    ∃ new, (Ref.enter s agg market).1.trades = s.trades ++ new ∧
      (∀ tr ∈ new, TradeFinal s.t ((Ref.enter s agg market).1.orders.set id (Ref.enter s agg market).2) tr) ∧
      (∀ (id' : Nat) (o' : Order), s.orders[id']? = some o' →
        ∃ o'', ((Ref.enter s agg market).1.orders.set id (Ref.enter s agg market).2)[id']? = some o'' ∧
          o''.vol + tradedOf id' new = (if id' = id then agg.vol else o'.vol) ∧
          o''.id = o'.id ∧ o''.side = o'.side ∧ o''.trader = o'.trader ∧ o''.svol = o'.svol) ∧
      (∀ (id' : Nat), s.orders[id']? = none →
        ((Ref.enter s agg market).1.orders.set id (Ref.enter s agg market).2)[id']? = none) := by
  obtain ⟨new, g1, g2, g3, g4, g5, g6, _, _, g9⟩ := enter_ledger s hw agg market (by rw [hid]; exact hout _)
  have hidlt : id < (Ref.enter s agg market).1.orders.length := by
    rw [g9]; exact (List.getElem?_eq_some_iff.mp ho).1
  refine ⟨new, g1, ?_, ?_, ?_⟩
  rotate_left 2
  · intro id' hn
    have hne : id' ≠ id := by intro h; subst h; rw [ho] at hn; cases hn
    simp [List.getElem?_set, Ne.symm hne, g6 id' hn]
  · intro tr htr'
    have hk := g2 tr htr'
    have hne : tr.active ≠ tr.passive := by
      rw [hk.act, hid]; intro h; exact hout _ (h ▸ hk.pas)
    refine ⟨hk.time, hk.pos, hne, ?_, ?_⟩
    · refine ⟨(Ref.enter s agg market).2, by rw [hk.act, hid]; simp [hidlt], by rw [g4.1, hk.act], ?_, ?_⟩
      · rw [g4.2.1, hk.side, opp_opp]
      · rw [g4.2.1, g4.2.2.2.2.2]; exact hk.adm
    · obtain ⟨p, hp, hpp, hps⟩ := hk.entry
      have hpne : tr.passive ≠ agg.id := by rw [← hk.act]; exact Ne.symm hne
      obtain ⟨p', hp', _, hi⟩ := g5 tr.passive p hp hpne
      refine ⟨p', ?_, by rw [hi.1]; exact hw.ids _ p hp, by rw [hi.2.1]; exact hps, by rw [hi.2.2.2.2.2]; exact hpp⟩
      rw [hid] at hpne
      simp [List.getElem?_set, Ne.symm hpne, hp']
  · intro id' o' ho'
    by_cases hii : id' = id
    · subst hii
      rw [ho] at ho'; injection ho' with ho'; subst ho'
      refine ⟨(Ref.enter s agg market).2, by simp [hidlt], by rw [← hid] at *; simpa using g3, ?_, ?_, ?_, ?_⟩
      · rw [g4.1, hid]; exact (hw.ids _ o ho).symm
      · rw [g4.2.1, hside]
      · rw [g4.2.2.1, htr]
      · rw [g4.2.2.2.2.1, hsv]
    · obtain ⟨o'', ho'', hv, hi⟩ := g5 id' o' ho' (by rw [hid]; exact hii)
      refine ⟨o'', by simp [List.getElem?_set, Ne.symm hii, ho''], by simp [hii, hv], hi.1, hi.2.1, hi.2.2.1, hi.2.2.2.2.1⟩

/-- `place`. -/
theorem place_ledger (s : Ref.RState) (hw : QWf s) (id : Nat) :
    StepLedger s (Ref.place s id) (fun _ o => o.vol) := by
  cases ho : s.orders[id]? with
  | none => exact StepLedger.same _ _ (by simp [Ref.place, ho]) (by simp [Ref.place, ho])
  | some o =>
    by_cases hn : o.status = .new
    · have hout : ∀ sd, id ∉ s.queue sd := by
        intro sd hm
        obtain ⟨o', ho', ha, _⟩ := hw.qok sd id hm
        rw [ho] at ho'; injection ho' with ho'; subst ho'
        rw [hn] at ha; cases ha
      have hpl : Ref.place s id =
          { (Ref.enter s { o with status := .active, arr := s.t } (Book.isMarket o)).1 with
            orders := (Ref.enter s { o with status := .active, arr := s.t } (Book.isMarket o)).1.orders.set id
              (Ref.enter s { o with status := .active, arr := s.t } (Book.isMarket o)).2 } := by
        simp only [Ref.place, ho, hn]; rfl
      obtain ⟨new, h1, h2, h3, h3n⟩ := finish_ledger s hw id o { o with status := .active, arr := s.t } (Book.isMarket o) ho
        (hw.ids id o ho) rfl rfl rfl hout
      rw [hpl]
      refine ⟨new, h1, h2, ?_, ?_⟩
      · intro id' o' ho'
        obtain ⟨o'', h4, h5, h6⟩ := h3 id' o' ho'
        refine ⟨o'', h4, ?_, h6⟩
        by_cases hii : id' = id
        · subst hii; rw [ho] at ho'; injection ho' with ho'; subst ho'; simpa using h5
        · simpa [hii] using h5
      · intro id' o' hn hs
        have := h3n id' hn
        simp only at hs
        rw [this] at hs; cases hs
    · exact StepLedger.same _ _ (by simp [Ref.place, ho, hn]) (by simp [Ref.place, ho, hn])

/-- `cancel`. -/
theorem cancel_ledger (s : Ref.RState) (id : Nat) : StepLedger s (Ref.cancel s id) (fun _ o => o.vol) := by
  cases ho : s.orders[id]? with
  | none => exact StepLedger.same _ _ (by simp [Ref.cancel, ho]) (by simp [Ref.cancel, ho])
  | some o =>
    by_cases ha : o.status = .active
    · have hc : Ref.cancel s id = { (s.setQueue o.side ((s.queue o.side).erase id)) with
          orders := s.orders.set id { o with status := .cancelled, endt := s.t } } := by
        simp only [Ref.cancel, ho, ha, if_true]
      rw [hc]
      refine ⟨[], by simp, by simp, ?_, ?_⟩
      · intro id' o' ho'
        have hlt : id < s.orders.length := (List.getElem?_eq_some_iff.mp ho).1
        by_cases hii : id' = id
        · subst hii; rw [ho] at ho'; injection ho' with ho'; subst ho'
          exact ⟨{ o with status := .cancelled, endt := s.t }, by simp [hlt],
            by simp [tradedOf_nil], rfl, rfl, rfl, rfl⟩
        · exact ⟨o', by simp [List.getElem?_set, Ne.symm hii, ho'], by simp [tradedOf_nil], rfl, rfl, rfl, rfl⟩
      · intro id' o' hn hs
        simp only at hs
        rw [getElem?_set_none _ _ _ _ hn] at hs; cases hs
    · exact StepLedger.same _ _ (by simp [Ref.cancel, ho, ha]) (by simp [Ref.cancel, ho, ha])

/-- The volume a modify request explicitly gives the order it addresses. -/
def modifyVol (tick : Nat) (id : Nat) (np nv : Option Nat) (id' : Nat) (o : Order) : Nat :=
  if id' = id ∧ o.status = .active ∧ Book.offGrid tick np = false then nv.getD o.vol else o.vol

/-- `modify`. -/
theorem modify_ledger (s : Ref.RState) (hw : QWf s) (id : Nat) (np nv : Option Nat) :
    StepLedger s (Ref.modify s id np nv) (modifyVol s.tick id np nv) := by
  have same : Ref.modify s id np nv = s → (∀ o, s.orders[id]? = some o → o.status = .active → Book.offGrid s.tick np = false → nv.getD o.vol = o.vol) →
      StepLedger s (Ref.modify s id np nv) (modifyVol s.tick id np nv) := by
    intro heq hv
    rw [heq]
    refine ⟨[], by simp, by simp, ?_, ?_⟩
    · intro id' o' ho'
      refine ⟨o', ho', ?_, rfl, rfl, rfl, rfl⟩
      simp only [tradedOf_nil, Nat.add_zero, modifyVol]
      split
      · rename_i hc
        obtain ⟨h1, h2, h3⟩ := hc
        subst h1
        exact (hv o' ho' h2 h3).symm
      · rfl
    · intro id' o' h1 h2; rw [h1] at h2; cases h2
  cases ho : s.orders[id]? with
  | none => exact same (by simp [Ref.modify, ho]) (by intro o h; rw [ho] at h; cases h)
  | some o =>
    by_cases hg : Book.offGrid s.tick np = true
    · exact same (by simp [Ref.modify, ho, hg]) (by intro _ _ _ h; rw [hg] at h; cases h)
    · have hgf : Book.offGrid s.tick np = false := by simpa using hg
      by_cases ha : o.status = .active
      · -- the order is Active and the request is on the grid
        have hlt : id < s.orders.length := (List.getElem?_eq_some_iff.mp ho).1
        have reduce : ∀ v, np = none → nv = some v → v < o.vol →
            StepLedger s (Ref.modify s id np nv) (modifyVol s.tick id np nv) := by
          intro v h1 h2 h3
          subst h1 h2
          have : Ref.modify s id none (some v) = { s with orders := s.orders.set id { o with vol := v } } := by
            simp [Ref.modify, ho, ha, h3, Book.offGrid]
          rw [this]
          refine ⟨[], by simp, by simp, ?_, ?_⟩
          · intro id' o' ho'
            by_cases hii : id' = id
            · subst hii; rw [ho] at ho'; injection ho' with ho'; subst ho'
              exact ⟨{ o with vol := v }, by simp [hlt], by simp [tradedOf_nil, modifyVol, ha, Book.offGrid], rfl, rfl, rfl, rfl⟩
            · exact ⟨o', by simp [List.getElem?_set, Ne.symm hii, ho'], by simp [tradedOf_nil, modifyVol, hii], rfl, rfl, rfl, rfl⟩
          · intro id' o' hn hs
            simp only at hs
            rw [getElem?_set_none _ _ _ _ hn] at hs; cases hs
        have replace : Ref.modify s id np nv =
              { (Ref.enter (s.setQueue o.side ((s.queue o.side).erase id))
                    { o with vol := nv.getD o.vol, price := np.getD o.price } false).1 with
                orders := (Ref.enter (s.setQueue o.side ((s.queue o.side).erase id))
                    { o with vol := nv.getD o.vol, price := np.getD o.price } false).1.orders.set id
                  (Ref.enter (s.setQueue o.side ((s.queue o.side).erase id))
                    { o with vol := nv.getD o.vol, price := np.getD o.price } false).2 } →
            StepLedger s (Ref.modify s id np nv) (modifyVol s.tick id np nv) := by
          intro heq
          -- the state handed to `enter`: `id` erased from its queue
          have hq1 : ∀ sd, (s.setQueue o.side ((s.queue o.side).erase id)).queue sd =
              if sd = o.side then (s.queue o.side).erase id else s.queue sd := by
            intro sd; cases sd <;> cases hs : o.side <;> simp [Ref.RState.setQueue, Ref.RState.queue]
          have hw1 : QWf (s.setQueue o.side ((s.queue o.side).erase id)) := by
            refine ⟨by simpa using hw.ids, ?_, ?_⟩
            · intro sd j hj
              rw [hq1] at hj
              have : j ∈ s.queue sd := by
                split at hj
                · rename_i h; subst h; exact List.mem_of_mem_erase hj
                · exact hj
              simpa using hw.qok sd j this
            · intro sd; rw [hq1]; split
              · exact (hw.nd _).erase _
              · exact hw.nd _
          have hout : ∀ sd, id ∉ (s.setQueue o.side ((s.queue o.side).erase id)).queue sd := by
            intro sd; rw [hq1]; split
            · exact (hw.nd _).not_mem_erase
            · rename_i hne
              intro hm
              obtain ⟨o', ho', _, hs', _⟩ := hw.qok sd id hm
              rw [ho] at ho'; injection ho' with ho'; subst ho'
              exact hne hs'.symm
          obtain ⟨new, h1, h2, h3, h3n⟩ := finish_ledger (s.setQueue o.side ((s.queue o.side).erase id)) hw1 id o
            { o with vol := nv.getD o.vol, price := np.getD o.price } false (by simpa using ho) (hw.ids id o ho) rfl rfl rfl hout
          rw [heq]
          refine ⟨new, by simpa using h1, by simpa using h2, ?_, ?_⟩
          · intro id' o' ho'
            obtain ⟨o'', h4, h5, h6⟩ := h3 id' o' (by simpa using ho')
            refine ⟨o'', h4, ?_, h6⟩
            by_cases hii : id' = id
            · subst hii; rw [ho] at ho'; injection ho' with ho'; subst ho'
              simpa [modifyVol, ha, hgf] using h5
            · simpa [modifyVol, hii] using h5
          · intro id' o' hn hs
            have := h3n id' (by simpa using hn)
            simp only at hs
            rw [this] at hs; cases hs
        cases np with
        | none =>
          cases nv with
          | none => exact same (by simp [Ref.modify, ho, ha, Book.offGrid]) (by intro _ _ _ _; rfl)
          | some v =>
            by_cases hlt' : v < o.vol
            · exact reduce v rfl rfl hlt'
            · exact replace (by simp [Ref.modify, ho, ha, hlt', Book.offGrid])
        | some p =>
          cases nv with
          | none => exact replace (by simp [Ref.modify, ho, ha, hgf])
          | some v => exact replace (by simp [Ref.modify, ho, ha, hgf])
      · exact same (by simp [Ref.modify, ho, hgf, ha]) (by intro o' h1 h2; rw [ho] at h1; injection h1 with h1; subst h1; exact absurd h2 ha)

/-- `create`. -/
theorem create_ledger (s : Ref.RState) (sd : Side) (vol tr : Nat) (p : Option Nat) :
    StepLedger s (Ref.create s sd vol tr p).1 (fun _ o => o.vol) := by
  have app : ∀ x : Order, x.vol = x.svol → StepLedger s { s with orders := s.orders ++ [x] } (fun _ o => o.vol) := by
    intro x hx
    refine ⟨[], by simp, by simp, ?_, ?_⟩
    · intro id o ho
      have hlt : id < s.orders.length := (List.getElem?_eq_some_iff.mp ho).1
      exact ⟨o, by simp [List.getElem?_append_left hlt, ho], by simp [tradedOf_nil], rfl, rfl, rfl, rfl⟩
    · intro id o' hn hs
      have hge : s.orders.length ≤ id := List.getElem?_eq_none_iff.mp hn
      simp only at hs
      rw [List.getElem?_append_right hge] at hs
      have : o' = x := by
        cases hk : id - s.orders.length with
        | zero => rw [hk] at hs; simpa using hs.symm
        | succ n => rw [hk] at hs; simp at hs
      subst this
      simp [tradedOf_nil, hx]
  cases p with
  | none => exact app _ rfl
  | some q =>
    by_cases hq : (q % s.tick != 0) = true
    · simp only [Ref.create, hq, if_true]; exact StepLedger.same _ _ rfl rfl
    · simp only [Ref.create, hq]; exact app _ rfl

end Bourse

namespace Bourse

/-- The volume an operation explicitly gives an order: its own, unless the operation is an accepted
volume modification of that very order. -/
def volRequested (tick : Nat) : Op → Nat → Order → Nat
  | .modify id np nv, id', o => modifyVol tick id np nv id' o
  | .ev (.modify id np nv), id', o => modifyVol tick id np nv id' o
  | _, _, o => o.vol

/-- A freshly created order keeps the reference state well formed. -/
theorem qwf_create (s : Ref.RState) (hw : QWf s) (sd : Side) (vol tr : Nat) (p : Option Nat) :
    QWf (Ref.create s sd vol tr p).1 := by
  have app : QWf { s with orders := s.orders ++ [Book.mkOrder s.t sd vol tr p s.orders.length] } := by
    refine ⟨?_, ?_, hw.nd⟩
    · intro id o ho
      by_cases hlt : id < s.orders.length
      · simp only [List.getElem?_append_left hlt] at ho; exact hw.ids id o ho
      · have hge : s.orders.length ≤ id := Nat.le_of_not_lt hlt
        simp only [List.getElem?_append_right hge] at ho
        cases hk : id - s.orders.length with
        | zero =>
          rw [hk] at ho
          have : o = Book.mkOrder s.t sd vol tr p s.orders.length := by simpa using ho.symm
          subst this
          simp only [Book.mkOrder]; omega
        | succ n => rw [hk] at ho; simp at ho
    · intro sd' j hj
      obtain ⟨o, ho, hr⟩ := hw.qok sd' j hj
      have hlt : j < s.orders.length := (List.getElem?_eq_some_iff.mp ho).1
      exact ⟨o, by simp only [List.getElem?_append_left hlt]; exact ho, hr⟩
  cases p with
  | none => exact app
  | some q =>
    by_cases hq : (q % s.tick != 0) = true
    · simp only [Ref.create, hq, if_true]; exact hw
    · simp only [Ref.create, hq]; exact app

/-- Composition: an operation that appends nothing to the log, followed by one with the plain
volume request. -/
theorem StepLedger.comp {s s1 s2 : Ref.RState} (h1 : StepLedger s s1 (fun _ o => o.vol)) (h1t : s1.trades = s.trades)
    (h1time : s1.t = s.t) (h2 : StepLedger s1 s2 (fun _ o => o.vol)) : StepLedger s s2 (fun _ o => o.vol) := by
  obtain ⟨n1, e1, _, c1, f1⟩ := h1
  have hn1 : n1 = [] := by
    rw [h1t] at e1
    have := congrArg List.length e1
    simp only [List.length_append] at this
    exact List.eq_nil_of_length_eq_zero (by omega)
  subst hn1
  obtain ⟨n2, e2, w2, c2, f2⟩ := h2
  refine ⟨n2, by rw [e2, h1t], by rw [← h1time]; exact w2, ?_, ?_⟩
  · intro id o ho
    obtain ⟨o1, ho1, hv1, hi1⟩ := c1 id o ho
    obtain ⟨o2, ho2, hv2, hi2⟩ := c2 id o1 ho1
    simp only [tradedOf_nil, Nat.add_zero] at hv1
    exact ⟨o2, ho2, by simp only at hv2 ⊢; omega, hi2.1.trans hi1.1, hi2.2.1.trans hi1.2.1, hi2.2.2.1.trans hi1.2.2.1,
      hi2.2.2.2.trans hi1.2.2.2⟩
  · intro id o2 hn hs
    cases h1o : s1.orders[id]? with
    | none => exact f2 id o2 h1o hs
    | some o1 =>
      have hf := f1 id o1 hn h1o
      simp only [tradedOf_nil, Nat.add_zero] at hf
      obtain ⟨o2', ho2', hv2, hi2⟩ := c2 id o1 h1o
      rw [hs] at ho2'; injection ho2' with ho2'; subst ho2'
      simp only at hv2
      rw [hi2.2.2.2]; omega

/-- **Every operation of the reference engine satisfies the ledger statement.** -/
theorem ref_step_ledger (s : Ref.RState) (hw : QWf s) (op : Op) :
    StepLedger s (Ref.step s op).1 (volRequested s.tick op) := by
  cases op with
  | create sd vol tr p => exact create_ledger s sd vol tr p
  | place id => exact place_ledger s hw id
  | cap sd vol tr p =>
    have hc := create_ledger s sd vol tr p
    have hwc := qwf_create s hw sd vol tr p
    have hct : (Ref.create s sd vol tr p).1.trades = s.trades ∧ (Ref.create s sd vol tr p).1.t = s.t := by
      cases p with
      | none => exact ⟨rfl, rfl⟩
      | some q => simp only [Ref.create]; split <;> exact ⟨rfl, rfl⟩
    simp only [Ref.step, volRequested]
    cases hres : (Ref.create s sd vol tr p).2 with
    | ok id =>
      have hsplit : Ref.create s sd vol tr p = ((Ref.create s sd vol tr p).1, .ok id) := by rw [← hres]
      rw [hsplit]
      exact StepLedger.comp hc hct.1 hct.2 (place_ledger _ hwc id)
    | err q t => have hsplit : Ref.create s sd vol tr p = ((Ref.create s sd vol tr p).1, .err q t) := by rw [← hres]
                 rw [hsplit]; exact hc
    | unit => have hsplit : Ref.create s sd vol tr p = ((Ref.create s sd vol tr p).1, .unit) := by rw [← hres]
              rw [hsplit]; exact hc
    | panic => have hsplit : Ref.create s sd vol tr p = ((Ref.create s sd vol tr p).1, .panic) := by rw [← hres]
               rw [hsplit]; exact hc
  | cancel id => exact cancel_ledger s id
  | modify id np nv => exact modify_ledger s hw id np nv
  | ev e =>
    cases e with
    | new id => exact place_ledger s hw id
    | cancel id => exact cancel_ledger s id
    | modify id np nv => exact modify_ledger s hw id np nv
  | time t => exact StepLedger.same _ _ rfl rfl
  | trading on => exact StepLedger.same _ _ rfl rfl
  | resetVol => exact StepLedger.same _ _ rfl rfl
  | reload => exact StepLedger.same _ _ rfl rfl

/-- **Transfer to the implementation model.** From a state satisfying the invariant, every valid
operation that does not fault satisfies the ledger statement on the implementation model's own
order table and trade log. -/
theorem step_ledger {b : Book} (h : Inv b) (op : Op) (hv : ValidOp op) (hnf : (b.step op).1.faulted = false) :
    StepLedger (abs b) (abs (b.step op).1) (volRequested b.tick op) := by
  rw [(step_refines h op hv hnf).1]
  exact ref_step_ledger (abs b) (qwf_abs h) op

end Bourse

namespace Bourse

/-- An operation that does not explicitly set an order's volume. -/
def NoVolModify : Op → Prop
  | .modify _ _ (some _) => False
  | .ev (.modify _ _ (some _)) => False
  | _ => True

theorem volRequested_plain (tick : Nat) (op : Op) (h : NoVolModify op) (id : Nat) (o : Order) :
    volRequested tick op id o = o.vol := by
  cases op with
  | modify id' np nv =>
    cases nv with
    | none => simp only [volRequested, modifyVol]; split <;> rfl
    | some v => exact absurd h (by simp [NoVolModify])
  | ev e =>
    cases e with
    | modify id' np nv =>
      cases nv with
      | none => simp only [volRequested, modifyVol]; split <;> rfl
      | some v => exact absurd h (by simp [NoVolModify])
    | _ => rfl
  | _ => rfl

/-- Ledger invariant of a state: every logged trade names two existing orders, and (for histories
without explicit volume modifications) every order's remaining volume plus the volume of its logged
trades is its starting volume. -/
structure LedgerInv (s : Ref.RState) : Prop where
  refs : ∀ tr ∈ s.trades, tr.active < s.orders.length ∧ tr.passive < s.orders.length
  cons : ∀ (id : Nat) (o : Order), s.orders[id]? = some o → o.vol + tradedOf id s.trades = o.svol

theorem tradedOf_zero_of_fresh (id : Nat) (ts : List Trade)
    (h : ∀ tr ∈ ts, tr.active ≠ id ∧ tr.passive ≠ id) : tradedOf id ts = 0 := by
  induction ts with
  | nil => rfl
  | cons tr ts ih =>
    rw [tradedOf_cons, ih (fun x hx => h x (List.mem_cons_of_mem _ hx))]
    have := h tr List.mem_cons_self
    simp [this.1, this.2]

theorem LedgerInv.step {s s' : Ref.RState} (hl : LedgerInv s) (h : StepLedger s s' (fun _ o => o.vol)) : LedgerInv s' := by
  obtain ⟨new, e, w, c, f⟩ := h
  have hlen : ∀ i, i < s.orders.length → i < s'.orders.length := by
    intro i hi
    obtain ⟨o', ho', _⟩ := c i s.orders[i] (List.getElem?_eq_getElem hi)
    exact (List.getElem?_eq_some_iff.mp ho').1
  refine ⟨?_, ?_⟩
  · intro tr htr
    rw [e] at htr
    rcases List.mem_append.mp htr with h1 | h1
    · exact ⟨hlen _ (hl.refs tr h1).1, hlen _ (hl.refs tr h1).2⟩
    · have := w tr h1
      obtain ⟨a, ha, _⟩ := this.agg
      obtain ⟨p, hp, _⟩ := this.pas
      exact ⟨(List.getElem?_eq_some_iff.mp ha).1, (List.getElem?_eq_some_iff.mp hp).1⟩
  · intro id o' ho'
    rw [e, tradedOf_append]
    cases hs : s.orders[id]? with
    | some o =>
      obtain ⟨o'', ho'', hv, _, _, _, hsv⟩ := c id o hs
      rw [ho'] at ho''; injection ho'' with ho''; subst ho''
      have := hl.cons id o hs
      simp only at hv
      rw [hsv]; omega
    | none =>
      have hfresh : tradedOf id s.trades = 0 := by
        apply tradedOf_zero_of_fresh
        intro tr htr
        have hge : s.orders.length ≤ id := List.getElem?_eq_none_iff.mp hs
        have := hl.refs tr htr
        omega
      have := f id o' hs ho'
      omega

/-- **Conservation over histories.** After any valid, fault-free history without explicit volume
modifications, starting from a state satisfying both invariants — in particular from a new book —
the ledger invariant holds. -/
theorem ledger_run {b : Book} (h : Inv b) (hl : LedgerInv (abs b)) (ops : List Op)
    (hv : ∀ op ∈ ops, ValidOp op) (hm : ∀ op ∈ ops, NoVolModify op) (hnf : NoFault b ops) :
    LedgerInv (abs (b.run ops)) := by
  induction ops generalizing b with
  | nil => exact hl
  | cons op rest ih =>
    simp only [Book.run, List.foldl_cons]
    have hs := step_ledger h op (hv op List.mem_cons_self) hnf.1
    have hplain : volRequested b.tick op = fun _ o => o.vol := by
      funext id o; exact volRequested_plain b.tick op (hm op List.mem_cons_self) id o
    rw [hplain] at hs
    exact ih (inv_step h op (hv op List.mem_cons_self) hnf.1) (hl.step hs)
      (fun o ho => hv o (List.mem_cons_of_mem _ ho)) (fun o ho => hm o (List.mem_cons_of_mem _ ho)) hnf.2

theorem ledgerInv_new (t0 tick : Nat) (trading : Bool) : LedgerInv (abs (Book.new t0 tick trading)) where
  refs := by intro tr h; simp [abs, Book.new] at h
  cons := by intro id o h; simp [abs, absOrders, Book.new] at h

end Bourse
