/-
Lemmas about `SMap` (the `BTreeMap` model): a strictly sorted association list.
-/
import Bourse.Model.SMap

namespace Bourse

/-- The key order is a strict total order. -/
class LawfulKeyOrd (K : Type) [KeyOrd K] : Prop where
  irrefl : ∀ a : K, KeyOrd.lt a a = false
  trans : ∀ a b c : K, KeyOrd.lt a b = true → KeyOrd.lt b c = true → KeyOrd.lt a c = true
  tri : ∀ a b : K, KeyOrd.lt a b = false → KeyOrd.lt b a = false → a = b

instance : LawfulKeyOrd Nat where
  irrefl a := by simp [KeyOrd.lt]
  trans a b c h1 h2 := by simp [KeyOrd.lt] at *; omega
  tri a b h1 h2 := by simp [KeyOrd.lt] at *; omega

instance : LawfulKeyOrd (Nat × Nat) where
  irrefl a := by simp [KeyOrd.lt]
  trans a b c h1 h2 := by
    simp only [KeyOrd.lt, Bool.or_eq_true, Bool.and_eq_true, decide_eq_true_eq] at *
    omega
  tri a b h1 h2 := by
    simp only [KeyOrd.lt, Bool.or_eq_false_iff, Bool.and_eq_false_iff, decide_eq_false_iff_not] at *
    obtain ⟨a1, a2⟩ := a; obtain ⟨b1, b2⟩ := b
    simp only [Prod.mk.injEq]
    omega

namespace SMap
variable {K V : Type} [KeyOrd K] [LawfulKeyOrd K] [DecidableEq K]

/-- Strictly sorted by key (hence no duplicate keys). -/
def Sorted (l : SMap K V) : Prop := l.Pairwise (fun a b => KeyOrd.lt a.1 b.1 = true)

theorem lt_asymm {a b : K} (h : KeyOrd.lt a b = true) : KeyOrd.lt b a = false := by
  cases hb : KeyOrd.lt b a with
  | false => rfl
  | true =>
    have := LawfulKeyOrd.trans a b a h hb
    rw [LawfulKeyOrd.irrefl] at this; cases this

theorem lt_irrefl' {a : K} : KeyOrd.lt a a = false := LawfulKeyOrd.irrefl a

theorem eq_of_not_lt {a b : K} (h1 : KeyOrd.lt a b = false) (h2 : KeyOrd.lt b a = false) : a = b :=
  LawfulKeyOrd.tri a b h1 h2

theorem sorted_nil : Sorted ([] : SMap K V) := List.Pairwise.nil

theorem sorted_cons {e : K × V} {l : SMap K V} :
    Sorted (e :: l) ↔ (∀ x ∈ l, KeyOrd.lt e.1 x.1 = true) ∧ Sorted l := List.pairwise_cons

/-- In a sorted map, `find?` misses every key below the head. -/
theorem find?_of_lt_head {k : K} {e : K × V} {l : SMap K V} (h : KeyOrd.lt k e.1 = true) :
    find? k (e :: l) = none := by
  obtain ⟨k', v'⟩ := e
  simp [find?, h]

theorem find?_eq_none_of_all_lt {k : K} {l : SMap K V} (hs : Sorted l) (h : ∀ x ∈ l, KeyOrd.lt k x.1 = true) :
    find? k l = none := by
  cases l with
  | nil => rfl
  | cons e tl => exact find?_of_lt_head (h e (List.mem_cons_self))

/-- `find?` after `insert`. -/
theorem find?_insert (k k' : K) (v : V) (l : SMap K V) (hs : Sorted l) :
    find? k' (insert k v l) = if k' = k then some v else find? k' l := by
  induction l with
  | nil =>
    simp only [insert, find?]
    by_cases h : k' = k
    · subst h; simp [lt_irrefl']
    · simp only [h, if_false]
      cases h1 : KeyOrd.lt k' k <;> cases h2 : KeyOrd.lt k k' <;> simp_all
      exact absurd (eq_of_not_lt h1 h2) h
  | cons hd tl ih =>
    obtain ⟨kh, vh⟩ := hd
    have hs' := (sorted_cons.mp hs)
    simp only [insert]
    by_cases hlt : KeyOrd.lt k kh = true
    · -- inserted in front
      simp only [hlt, if_true]
      by_cases h : k' = k
      · subst h; simp [find?, lt_irrefl']
      · simp only [h, if_false]
        cases h1 : KeyOrd.lt k' k with
        | true =>
          have : KeyOrd.lt k' kh = true := LawfulKeyOrd.trans _ _ _ h1 hlt
          simp [find?, h1, this]
        | false =>
          cases h2 : KeyOrd.lt k k' with
          | false => exact absurd (eq_of_not_lt h1 h2) h
          | true => simp [find?, h1, h2]
    · have hlt' : KeyOrd.lt k kh = false := by simpa using hlt
      simp only [hlt', Bool.false_eq_true, if_false]
      by_cases hgt : KeyOrd.lt kh k = true
      · simp only [hgt, if_true]
        by_cases h : k' = k
        · subst h
          simp only [find?, hlt', Bool.false_eq_true, if_false, hgt, if_true]
          rw [ih hs'.2]; simp
        · simp only [find?]
          by_cases a1 : KeyOrd.lt k' kh = true
          · simp [a1, h]
          · simp only [a1, if_false]
            by_cases a2 : KeyOrd.lt kh k' = true
            · simp only [a2, if_true]; rw [ih hs'.2]; simp [h]
            · simp [a2, h]
      · -- equal key: overwrite
        have hgt' : KeyOrd.lt kh k = false := by simpa using hgt
        have hk : k = kh := eq_of_not_lt hlt' hgt'
        subst hk
        simp only [hgt', Bool.false_eq_true, if_false]
        by_cases h : k' = k
        · subst h; simp [find?, lt_irrefl']
        · simp only [h, if_false, find?]
          cases a1 : KeyOrd.lt k' k with
          | true => simp
          | false =>
            cases a2 : KeyOrd.lt k k' with
            | true => simp
            | false => exact absurd (eq_of_not_lt a1 a2) h

/-- `find?` after `erase`. -/
theorem find?_erase (k k' : K) (l : SMap K V) (hs : Sorted l) :
    find? k' (erase k l) = if k' = k then none else find? k' l := by
  induction l with
  | nil => simp [erase, find?]
  | cons hd tl ih =>
    obtain ⟨kh, vh⟩ := hd
    have hs' := (sorted_cons.mp hs)
    simp only [erase]
    by_cases hlt : KeyOrd.lt k kh = true
    · simp only [hlt, if_true]
      by_cases h : k' = k
      · subst h; simp [find?, hlt]
      · simp [h]
    · have hlt' : KeyOrd.lt k kh = false := by simpa using hlt
      simp only [hlt', Bool.false_eq_true, if_false]
      by_cases hgt : KeyOrd.lt kh k = true
      · simp only [hgt, if_true]
        by_cases h : k' = k
        · subst h
          simp only [find?, hlt', Bool.false_eq_true, if_false, hgt, if_true, if_true]
          rw [ih hs'.2]; simp
        · simp only [find?, h, if_false]
          by_cases a1 : KeyOrd.lt k' kh = true
          · simp [a1]
          · simp only [a1, if_false]
            by_cases a2 : KeyOrd.lt kh k' = true
            · simp only [a2, if_true]; rw [ih hs'.2]; simp [h]
            · simp [a2]
      · have hgt' : KeyOrd.lt kh k = false := by simpa using hgt
        have hk : k = kh := eq_of_not_lt hlt' hgt'
        subst hk
        simp only [hgt', Bool.false_eq_true, if_false]
        by_cases h : k' = k
        · subst h
          simp only [if_true]
          exact find?_eq_none_of_all_lt hs'.2 hs'.1
        · simp only [h, if_false, find?]
          by_cases a1 : KeyOrd.lt k' k = true
          · simp only [a1, if_true]
            exact find?_eq_none_of_all_lt hs'.2 (fun x hx => LawfulKeyOrd.trans _ _ _ a1 (hs'.1 x hx))
          · have a1' : KeyOrd.lt k' k = false := by simpa using a1
            cases a2 : KeyOrd.lt k k' with
            | true => simp [a1']
            | false => exact absurd (eq_of_not_lt a1' a2) h

/-- Every key of `insert k v l` is `k` or a key of `l`. -/
theorem mem_insert_imp (k : K) (v : V) (l : SMap K V) (e : K × V) (h : e ∈ insert k v l) :
    e = (k, v) ∨ e ∈ l := by
  induction l with
  | nil => simp [insert] at h; exact Or.inl h
  | cons hd tl ih =>
    obtain ⟨kh, vh⟩ := hd
    simp only [insert] at h
    split at h
    · rcases List.mem_cons.mp h with h | h
      · exact Or.inl h
      · exact Or.inr h
    · split at h
      · rcases List.mem_cons.mp h with h | h
        · exact Or.inr (by rw [h]; exact List.mem_cons_self)
        · rcases ih h with h | h
          · exact Or.inl h
          · exact Or.inr (List.mem_cons_of_mem _ h)
      · rcases List.mem_cons.mp h with h | h
        · exact Or.inl h
        · exact Or.inr (List.mem_cons_of_mem _ h)

theorem mem_erase_imp (k : K) (l : SMap K V) (e : K × V) (h : e ∈ erase k l) : e ∈ l := by
  induction l with
  | nil => simp [erase] at h
  | cons hd tl ih =>
    obtain ⟨kh, vh⟩ := hd
    simp only [erase] at h
    split at h
    · exact h
    · split at h
      · rcases List.mem_cons.mp h with h | h
        · rw [h]; exact List.mem_cons_self
        · exact List.mem_cons_of_mem _ (ih h)
      · exact List.mem_cons_of_mem _ h

theorem sorted_insert (k : K) (v : V) (l : SMap K V) (hs : Sorted l) : Sorted (insert k v l) := by
  induction l with
  | nil => simp [insert, Sorted]
  | cons hd tl ih =>
    obtain ⟨kh, vh⟩ := hd
    have hs' := sorted_cons.mp hs
    simp only [insert]
    by_cases hlt : KeyOrd.lt k kh = true
    · simp only [hlt, if_true]
      refine sorted_cons.mpr ⟨?_, hs⟩
      intro x hx
      rcases List.mem_cons.mp hx with hx | hx
      · rw [hx]; exact hlt
      · exact LawfulKeyOrd.trans _ _ _ hlt (hs'.1 x hx)
    · have hlt' : KeyOrd.lt k kh = false := by simpa using hlt
      simp only [hlt', Bool.false_eq_true, if_false]
      by_cases hgt : KeyOrd.lt kh k = true
      · simp only [hgt, if_true]
        refine sorted_cons.mpr ⟨?_, ih hs'.2⟩
        intro x hx
        rcases mem_insert_imp k v tl x hx with hx | hx
        · rw [hx]; exact hgt
        · exact hs'.1 x hx
      · have hgt' : KeyOrd.lt kh k = false := by simpa using hgt
        have hk : k = kh := eq_of_not_lt hlt' hgt'
        subst hk
        simp only [hgt', Bool.false_eq_true, if_false]
        exact sorted_cons.mpr ⟨hs'.1, hs'.2⟩

theorem sorted_erase (k : K) (l : SMap K V) (hs : Sorted l) : Sorted (erase k l) := by
  induction l with
  | nil => simp [erase, Sorted]
  | cons hd tl ih =>
    obtain ⟨kh, vh⟩ := hd
    have hs' := sorted_cons.mp hs
    simp only [erase]
    split
    · exact hs
    · split
      · refine sorted_cons.mpr ⟨?_, ih hs'.2⟩
        intro x hx
        exact hs'.1 x (mem_erase_imp k tl x hx)
      · exact hs'.2

/-- Membership and `find?` agree on sorted maps. -/
theorem find?_of_mem {k : K} {v : V} {l : SMap K V} (hs : Sorted l) (h : (k, v) ∈ l) : find? k l = some v := by
  induction l with
  | nil => simp at h
  | cons hd tl ih =>
    obtain ⟨kh, vh⟩ := hd
    have hs' := sorted_cons.mp hs
    rcases List.mem_cons.mp h with h | h
    · injection h with h1 h2; subst h1 h2; simp [find?, lt_irrefl']
    · have hlt : KeyOrd.lt kh k = true := hs'.1 (k, v) h
      simp [find?, lt_asymm hlt, hlt, ih hs'.2 h]

theorem mem_of_find? {k : K} {v : V} {l : SMap K V} (h : find? k l = some v) : (k, v) ∈ l := by
  induction l with
  | nil => simp [find?] at h
  | cons hd tl ih =>
    obtain ⟨kh, vh⟩ := hd
    simp only [find?] at h
    split at h
    · simp at h
    · rename_i h1
      split at h
      · exact List.mem_cons_of_mem _ (ih h)
      · rename_i h2
        have h1' : KeyOrd.lt k kh = false := by simpa using h1
        have h2' : KeyOrd.lt kh k = false := by simpa using h2
        have := eq_of_not_lt h1' h2'
        subst this
        injection h with h; subst h
        exact List.mem_cons_self

/-- A sorted map is determined by its `find?`. -/
theorem sorted_ext {a b : SMap K V} (ha : Sorted a) (hb : Sorted b) (h : ∀ k, find? k a = find? k b) : a = b := by
  induction a generalizing b with
  | nil =>
    cases b with
    | nil => rfl
    | cons e tl =>
      have := h e.1
      rw [find?_of_mem hb (by simp : (e.1, e.2) ∈ e :: tl)] at this
      simp [find?] at this
  | cons ea ta ih =>
    cases b with
    | nil =>
      have := h ea.1
      rw [find?_of_mem ha (by simp : (ea.1, ea.2) ∈ ea :: ta)] at this
      simp [find?] at this
    | cons eb tb =>
      have ha' := sorted_cons.mp ha
      have hb' := sorted_cons.mp hb
      -- heads have equal keys
      have hk : ea.1 = eb.1 := by
        have h1 := h ea.1
        rw [find?_of_mem ha (by simp : (ea.1, ea.2) ∈ ea :: ta)] at h1
        have m1 : (ea.1, ea.2) ∈ eb :: tb := mem_of_find? h1.symm
        have h2 := h eb.1
        rw [find?_of_mem hb (by simp : (eb.1, eb.2) ∈ eb :: tb)] at h2
        have m2 : (eb.1, eb.2) ∈ ea :: ta := mem_of_find? h2
        rcases List.mem_cons.mp m1 with m1 | m1
        · exact congrArg Prod.fst m1
        · rcases List.mem_cons.mp m2 with m2 | m2
          · exact (congrArg Prod.fst m2).symm
          · have l1 := hb'.1 _ m1
            have l2 := ha'.1 _ m2
            simp only at l1 l2
            rw [lt_asymm l1] at l2; cases l2
      have hv : ea.2 = eb.2 := by
        have h1 := h ea.1
        rw [find?_of_mem ha (by simp : (ea.1, ea.2) ∈ ea :: ta)] at h1
        rw [hk, find?_of_mem hb (by simp : (eb.1, eb.2) ∈ eb :: tb)] at h1
        injection h1
      have he : ea = eb := Prod.ext hk hv
      subst he
      congr 1
      apply ih ha'.2 hb'.2
      intro k
      have := h k
      obtain ⟨kh, vh⟩ := ea
      simp only [find?] at this
      by_cases a1 : KeyOrd.lt k kh = true
      · rw [find?_eq_none_of_all_lt ha'.2 (fun x hx => LawfulKeyOrd.trans _ _ _ a1 (ha'.1 x hx)),
            find?_eq_none_of_all_lt hb'.2 (fun x hx => LawfulKeyOrd.trans _ _ _ a1 (hb'.1 x hx))]
      · simp only [a1, if_false] at this
        by_cases a2 : KeyOrd.lt kh k = true
        · simpa [a2] using this
        · have a1' : KeyOrd.lt k kh = false := by simpa using a1
          have a2' : KeyOrd.lt kh k = false := by simpa using a2
          have := eq_of_not_lt a1' a2'
          subst this
          rw [find?_eq_none_of_all_lt ha'.2 ha'.1, find?_eq_none_of_all_lt hb'.2 hb'.1]

/-- Inserting a key that is absent adds exactly one entry. -/
theorem perm_insert_new (k : K) (v : V) (l : SMap K V) (hs : Sorted l) (h : find? k l = none) :
    (insert k v l).Perm ((k, v) :: l) := by
  induction l with
  | nil => simp [insert]
  | cons hd tl ih =>
    obtain ⟨kh, vh⟩ := hd
    have hs' := sorted_cons.mp hs
    simp only [insert]
    simp only [find?] at h
    by_cases hlt : KeyOrd.lt k kh = true
    · simp [hlt]
    · simp only [hlt, if_false] at h ⊢
      by_cases hgt : KeyOrd.lt kh k = true
      · simp only [hgt, if_true] at h ⊢
        exact ((ih hs'.2 h).cons (kh, vh)).trans (List.Perm.swap _ _ _)
      · simp [hgt] at h

/-- Erasing a present key removes exactly that entry. -/
theorem perm_erase (k : K) (v : V) (l : SMap K V) (hs : Sorted l) (h : find? k l = some v) :
    l.Perm ((k, v) :: erase k l) := by
  induction l with
  | nil => simp [find?] at h
  | cons hd tl ih =>
    obtain ⟨kh, vh⟩ := hd
    have hs' := sorted_cons.mp hs
    simp only [erase]
    simp only [find?] at h
    by_cases hlt : KeyOrd.lt k kh = true
    · simp [hlt] at h
    · simp only [hlt, if_false] at h ⊢
      by_cases hgt : KeyOrd.lt kh k = true
      · simp only [hgt, if_true] at h ⊢
        exact ((ih hs'.2 h).cons (kh, vh)).trans (List.Perm.swap _ _ _)
      · simp only [hgt, if_false] at h ⊢
        have hlt' : KeyOrd.lt k kh = false := by simpa using hlt
        have hgt' : KeyOrd.lt kh k = false := by simpa using hgt
        have := eq_of_not_lt hlt' hgt'
        subst this
        injection h with h; subst h
        exact List.Perm.refl _

/-- Entries with other keys survive `erase`. -/
theorem mem_erase_of_ne {k : K} {l : SMap K V} {e : K × V} (hs : Sorted l) (h : e ∈ l) (hne : e.1 ≠ k) :
    e ∈ erase k l := by
  have h1 : find? e.1 l = some e.2 := find?_of_mem hs h
  have h2 : find? e.1 (erase k l) = some e.2 := by rw [find?_erase _ _ _ hs]; simp [hne, h1]
  exact mem_of_find? h2

/-- Old entries survive `insert` of another key. -/
theorem mem_insert_of_ne {k : K} {v : V} {l : SMap K V} {e : K × V} (hs : Sorted l) (h : e ∈ l) (hne : e.1 ≠ k) :
    e ∈ insert k v l := by
  have h1 : find? e.1 l = some e.2 := find?_of_mem hs h
  have h2 : find? e.1 (insert k v l) = some e.2 := by rw [find?_insert _ _ _ _ hs]; simp [hne, h1]
  exact mem_of_find? h2

theorem mem_insert_self {k : K} {v : V} {l : SMap K V} (hs : Sorted l) : (k, v) ∈ insert k v l := by
  have : find? k (insert k v l) = some v := by rw [find?_insert _ _ _ _ hs]; simp
  exact mem_of_find? this

/-- The first entry of a sorted map has the least key. -/
theorem first?_min {l : SMap K V} {e : K × V} (hs : Sorted l) (h : first? l = some e) :
    e ∈ l ∧ ∀ x ∈ l, x = e ∨ KeyOrd.lt e.1 x.1 = true := by
  cases l with
  | nil => simp [first?] at h
  | cons hd tl =>
    simp only [first?, Option.some.injEq] at h
    subst h
    refine ⟨List.mem_cons_self, ?_⟩
    intro x hx
    rcases List.mem_cons.mp hx with hx | hx
    · exact Or.inl hx
    · exact Or.inr ((sorted_cons.mp hs).1 x hx)

end SMap
end Bourse
