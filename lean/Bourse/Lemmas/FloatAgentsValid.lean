/-
Whole-update theorems for the float-exact agent models (`Model/FloatAgents.lean`), for EVERY sampler
`smp` (the `LogNormal` stand-in) and every `tanh` stand-in:

* what an update does to the environment is a sequence of valid submissions (`Reach`): cancellations
  of orders the agent tracked and saw Active, limit orders of its own traders with the configured
  volume, a price on the tick grid and on the right side of the observed mid-price, market orders of
  its own traders;
* an update never aborts when the agent is consistent with the environment (same tick size, its
  asset exists, it tracks existing orders);
* a momentum agent only buys when `0 < M`, only sells when `M < 0`.
-/
import Bourse.Lemmas.F64Prices

namespace Bourse
namespace FAgents
open F64

/-- The environments reachable from `e0` by valid submissions of an agent on asset `a` with traders
`trs`, volume `vol`, tick `tick`, having observed the mid-price `mid` and tracking the orders `own`.
`buys` / `sells` say which directions are allowed (a noise agent: both). -/
inductive Reach (a tick vol : Nat) (trs : List Nat) (mid : ℚ) (own : List Nat) (buys sells : Bool) (e0 : MEnv) : MEnv → Prop
  | refl : Reach a tick vol trs mid own buys sells e0 e0
  | cancel {e id} : Reach a tick vol trs mid own buys sells e0 e → id ∈ own →
      RandomAgents.orderStatus e0 a id = some .active → Reach a tick vol trs mid own buys sells e0 (e.cancelOrder a id)
  | limitBuy {e p tr id e'} : Reach a tick vol trs mid own buys sells e0 e → buys = true → tr ∈ trs → p % tick = 0 → (p : ℚ) ≤ mid →
      e.placeOrder a .bid vol tr (some p) = (e', .ok id) → Reach a tick vol trs mid own buys sells e0 e'
  | limitSell {e p tr id e'} : Reach a tick vol trs mid own buys sells e0 e → sells = true → tr ∈ trs → p % tick = 0 → mid ≤ (p : ℚ) →
      e.placeOrder a .ask vol tr (some p) = (e', .ok id) → Reach a tick vol trs mid own buys sells e0 e'
  | marketBuy {e tr id e'} : Reach a tick vol trs mid own buys sells e0 e → buys = true → tr ∈ trs →
      e.placeOrder a .bid vol tr none = (e', .ok id) → Reach a tick vol trs mid own buys sells e0 e'
  | marketSell {e tr id e'} : Reach a tick vol trs mid own buys sells e0 e → sells = true → tr ∈ trs →
      e.placeOrder a .ask vol tr none = (e', .ok id) → Reach a tick vol trs mid own buys sells e0 e'

/-! ### Cancellations -/

theorem partitionLive_spec (e : MEnv) (a : Nat) (pc : F) (orders : List Nat) (g : Xoro)
    (live canc : List Nat) (g' : Xoro) (h : partitionLive e a pc orders g = some (live, canc, g')) :
    (∀ id ∈ canc, id ∈ orders ∧ RandomAgents.orderStatus e a id = some .active) ∧
    (∀ id ∈ live, id ∈ orders ∧ RandomAgents.orderStatus e a id = some .active) := by
  induction orders generalizing g live canc g' with
  | nil =>
    simp only [partitionLive, Option.some.injEq, Prod.mk.injEq] at h
    obtain ⟨h1, h2, _⟩ := h
    subst h1; subst h2; simp
  | cons id rest ih =>
    simp only [partitionLive] at h
    split at h
    · simp at h
    · rename_i st hst
      split at h
      · rename_i hact
        have hst' : RandomAgents.orderStatus e a id = some .active := by
          rw [hst]; simpa using hact
        split at h
        · simp at h
        · rename_i l c g2 hrec
          have := ih _ _ _ _ hrec
          split at h
          · simp only [Option.some.injEq, Prod.mk.injEq] at h
            obtain ⟨h1, h2, _⟩ := h
            subst h1; subst h2
            refine ⟨fun i hi => ⟨List.mem_cons_of_mem _ (this.1 i hi).1, (this.1 i hi).2⟩, ?_⟩
            intro i hi
            rcases List.mem_cons.mp hi with rfl | hi
            · exact ⟨List.mem_cons_self, hst'⟩
            · exact ⟨List.mem_cons_of_mem _ (this.2 i hi).1, (this.2 i hi).2⟩
          · simp only [Option.some.injEq, Prod.mk.injEq] at h
            obtain ⟨h1, h2, _⟩ := h
            subst h1; subst h2
            refine ⟨?_, fun i hi => ⟨List.mem_cons_of_mem _ (this.2 i hi).1, (this.2 i hi).2⟩⟩
            intro i hi
            rcases List.mem_cons.mp hi with rfl | hi
            · exact ⟨List.mem_cons_self, hst'⟩
            · exact ⟨List.mem_cons_of_mem _ (this.1 i hi).1, (this.1 i hi).2⟩
      · have := ih _ _ _ _ h
        exact ⟨fun i hi => ⟨List.mem_cons_of_mem _ (this.1 i hi).1, (this.1 i hi).2⟩,
               fun i hi => ⟨List.mem_cons_of_mem _ (this.2 i hi).1, (this.2 i hi).2⟩⟩

theorem cancelAll_market (e : MEnv) (a : Nat) (l : List Nat) : (cancelAll e a l).market = e.market := by
  induction l generalizing e with
  | nil => rfl
  | cons id rest ih => simp only [cancelAll]; rw [ih]; rfl

theorem cancelAll_reach {a tick vol trs mid own buys sells e0} (e : MEnv) (l : List Nat)
    (he : Reach a tick vol trs mid own buys sells e0 e)
    (hl : ∀ id ∈ l, id ∈ own ∧ RandomAgents.orderStatus e0 a id = some .active) :
    Reach a tick vol trs mid own buys sells e0 (cancelAll e a l) := by
  induction l generalizing e with
  | nil => exact he
  | cons id rest ih =>
    simp only [cancelAll]
    exact ih _ (Reach.cancel he (hl id List.mem_cons_self).1 (hl id List.mem_cons_self).2)
      (fun i hi => hl i (List.mem_cons_of_mem _ hi))

/-! ### Submissions -/

theorem submitLimit_eq {e : MEnv} {a : Nat} {sd : Side} {vol tr p id : Nat} {e' : MEnv}
    (h : submitLimit e a sd vol tr p = some (id, e')) : e.placeOrder a sd vol tr (some p) = (e', .ok id) := by
  unfold submitLimit at h
  split at h
  · rename_i id' hr
    simp only [Option.some.injEq, Prod.mk.injEq] at h
    obtain ⟨h1, h2⟩ := h
    subst h1
    rw [← h2, ← hr]
  · simp at h

theorem submitMarket_eq {e : MEnv} {a : Nat} {sd : Side} {vol tr : Nat} {e' : MEnv}
    (h : submitMarket e a sd vol tr = some e') : ∃ id, e.placeOrder a sd vol tr none = (e', .ok id) := by
  unfold submitMarket at h
  split at h
  · rename_i id' hr
    simp only [Option.some.injEq] at h
    exact ⟨id', by rw [← h, ← hr]⟩
  · simp at h

/-! ### The noise agent -/

/-- Hypotheses under which the quoted prices are valid: the observed mid-price is the half-integer
`k/2` of `u32` touch prices, at least a tick below `Price::MAX`; the tick is a positive `u32`; the
sampler never returns NaN (a log-normal with finite parameters returns `exp` of a finite value). -/
structure QuoteOk (k tick : Nat) (smp : Sampler) : Prop where
  tick_pos : 0 < tick
  tick_u32 : tick ≤ 4294967295
  mid_room : k + 2 * tick ≤ 8589934590
  no_nan   : ∀ g, (smp g).1 ≠ .nan

theorem noiseTrader_reach (c : NoiseP) (smp : Sampler) (k : Nat) (hq : QuoteOk k c.tick smp)
    {own e0} (tr : Nat) (htr : tr ∈ c.traders) (live : List Nat) (e : MEnv) (g : Xoro)
    (he : Reach c.asset c.tick c.vol c.traders ((k : ℚ) / 2) own true true e0 e)
    {live' e' g'} (h : noiseTrader c smp (.fin ((k : ℚ) / 2)) tr live e g = some (live', e', g')) :
    Reach c.asset c.tick c.vol c.traders ((k : ℚ) / 2) own true true e0 e' := by
  have hk : k ≤ 8589934590 := by have := hq.mid_room; omega
  unfold noiseTrader at h
  simp only [] at h
  -- the limit-order part
  have step1 : ∀ (r : Option (List Nat × MEnv × Xoro)),
      (r = (if F64.lt (genF32 g).1 c.pLimit = true then
              (if (genBoolHalf (genF32 g).2).1 = true then
                 submitLimit e c.asset .bid c.vol tr (buyPrice (.fin ((k : ℚ) / 2)) (smp (genBoolHalf (genF32 g).2).2).1 c.tick)
               else submitLimit e c.asset .ask c.vol tr (sellPrice (.fin ((k : ℚ) / 2)) (smp (genBoolHalf (genF32 g).2).2).1 c.tick)).map
                fun x => (live ++ [x.1], x.2, (smp (genBoolHalf (genF32 g).2).2).2)
            else some (live, e, (genF32 g).2))) →
      ∀ l1 e1 g1, r = some (l1, e1, g1) → Reach c.asset c.tick c.vol c.traders ((k : ℚ) / 2) own true true e0 e1 := by
    intro r hr l1 e1 g1 hsome
    rw [hr] at hsome
    split at hsome
    · split at hsome
      · -- buy
        cases hs : submitLimit e c.asset .bid c.vol tr (buyPrice (.fin ((k : ℚ) / 2)) (smp (genBoolHalf (genF32 g).2).2).1 c.tick) with
        | none => rw [hs] at hsome; simp at hsome
        | some x =>
          rw [hs] at hsome
          simp only [Option.map_some, Option.some.injEq, Prod.mk.injEq] at hsome
          obtain ⟨_, h2, _⟩ := hsome
          have hv := buyPrice_valid k c.tick hq.tick_pos hq.tick_u32 hk (smp (genBoolHalf (genF32 g).2).2).1
          have hp := submitLimit_eq (id := x.1) (e' := x.2) (by rw [hs])
          rw [h2] at hp
          exact Reach.limitBuy he rfl htr hv.1 hv.2 hp
      · cases hs : submitLimit e c.asset .ask c.vol tr (sellPrice (.fin ((k : ℚ) / 2)) (smp (genBoolHalf (genF32 g).2).2).1 c.tick) with
        | none => rw [hs] at hsome; simp at hsome
        | some x =>
          rw [hs] at hsome
          simp only [Option.map_some, Option.some.injEq, Prod.mk.injEq] at hsome
          obtain ⟨_, h2, _⟩ := hsome
          have hv := sellPrice_valid k c.tick hq.tick_pos hq.tick_u32 hq.mid_room (smp (genBoolHalf (genF32 g).2).2).1 (hq.no_nan _)
          have hp := submitLimit_eq (id := x.1) (e' := x.2) (by rw [hs])
          rw [h2] at hp
          exact Reach.limitSell he rfl htr hv.1 hv.2 hp
    · simp only [Option.some.injEq, Prod.mk.injEq] at hsome
      obtain ⟨_, h2, _⟩ := hsome
      rw [← h2]; exact he
  split at h
  · simp at h
  · rename_i l1 e1 g1 hafter
    have hr1 := step1 _ rfl l1 e1 g1 hafter
    split at h
    · cases hm : submitMarket e1 c.asset (if (genBoolHalf (genF32 g1).2).1 = true then Side.bid else Side.ask) c.vol tr with
      | none => rw [hm] at h; simp at h
      | some e2 =>
        rw [hm] at h
        simp only [Option.map_some, Option.some.injEq, Prod.mk.injEq] at h
        obtain ⟨_, h2, _⟩ := h
        obtain ⟨id, hp⟩ := submitMarket_eq hm
        rw [h2] at hp
        by_cases hb : (genBoolHalf (genF32 g1).2).1 = true
        · rw [if_pos hb] at hp; exact Reach.marketBuy hr1 rfl htr hp
        · rw [if_neg hb] at hp; exact Reach.marketSell hr1 rfl htr hp
    · simp only [Option.some.injEq, Prod.mk.injEq] at h
      obtain ⟨_, h2, _⟩ := h
      rw [← h2]; exact hr1

theorem noiseLoop_reach (c : NoiseP) (smp : Sampler) (k : Nat) (hq : QuoteOk k c.tick smp) {own e0}
    (trs : List Nat) (htrs : ∀ t ∈ trs, t ∈ c.traders) (live : List Nat) (e : MEnv) (g : Xoro)
    (he : Reach c.asset c.tick c.vol c.traders ((k : ℚ) / 2) own true true e0 e)
    {live' e' g'} (h : noiseLoop c smp (.fin ((k : ℚ) / 2)) trs live e g = some (live', e', g')) :
    Reach c.asset c.tick c.vol c.traders ((k : ℚ) / 2) own true true e0 e' := by
  induction trs generalizing live e g with
  | nil =>
    simp only [noiseLoop, Option.some.injEq, Prod.mk.injEq] at h
    rw [← h.2.1]; exact he
  | cons tr rest ih =>
    simp only [noiseLoop] at h
    split at h
    · simp at h
    · rename_i l1 e1 g1 h1
      exact ih (fun t ht => htrs t (List.mem_cons_of_mem _ ht)) l1 e1 g1
        (noiseTrader_reach c smp k hq tr (htrs tr List.mem_cons_self) live e g he h1) h

/-- **Every instruction a noise agent submits is valid** (single- and multi-asset; every sampler):
an update takes the environment to one reachable by cancelling orders it tracked and saw Active,
placing limit orders of its own traders with the configured volume at a price on the tick grid —
buys at or below, sells at or above the mid-price it observed — and market orders of its own
traders; nothing else. -/
theorem noiseUpdate_reach (c : NoiseP) (smp : Sampler) (orders : List Nat) (e : MEnv) (g : Xoro)
    (b : Book) (hb : e.market.books[c.asset]? = some b) (hq : QuoteOk b.mid2 c.tick smp)
    {live' e' g'} (h : noiseUpdate c smp orders e g = some (live', e', g')) :
    Reach c.asset c.tick c.vol c.traders ((b.mid2 : ℚ) / 2) orders true true e e' := by
  unfold noiseUpdate at h
  split at h
  · simp at h
  · rename_i live e1 g1 hc
    unfold cancelLive at hc
    cases hp : partitionLive e c.asset c.pCancel orders g with
    | none => rw [hp] at hc; simp at hc
    | some r =>
      obtain ⟨l, cn, g2⟩ := r
      rw [hp] at hc
      simp only [Option.map_some, Option.some.injEq, Prod.mk.injEq] at hc
      obtain ⟨_, he1, _⟩ := hc
      have hspec := partitionLive_spec e c.asset c.pCancel orders g l cn g2 hp
      have hr1 : Reach c.asset c.tick c.vol c.traders ((b.mid2 : ℚ) / 2) orders true true e e1 := by
        rw [← he1]; exact cancelAll_reach e cn Reach.refl hspec.1
      have hmid : midOf e1 c.asset = some (.fin ((b.mid2 : ℚ) / 2)) := by
        unfold midOf; rw [← he1, cancelAll_market, hb]; rfl
      rw [hmid] at h
      exact noiseLoop_reach c smp b.mid2 hq c.traders (fun t ht => ht) live e1 g1 hr1 h

/-! ### The momentum agent -/

theorem momTrader_reach (c : MomP) (smp : Sampler) (k : Nat) (hq : QuoteOk k c.tick smp) (m pl pm : F)
    {own e0} (tr : Nat) (htr : tr ∈ c.traders) (live : List Nat) (e : MEnv) (g : Xoro)
    (he : Reach c.asset c.tick c.vol c.traders ((k : ℚ) / 2) own (F64.lt (.fin 0) m) (F64.lt m (.fin 0)) e0 e)
    {live' e' g'} (h : momTrader c smp (.fin ((k : ℚ) / 2)) m pl pm tr live e g = some (live', e', g')) :
    Reach c.asset c.tick c.vol c.traders ((k : ℚ) / 2) own (F64.lt (.fin 0) m) (F64.lt m (.fin 0)) e0 e' := by
  have hk : k ≤ 8589934590 := by have := hq.mid_room; omega
  unfold momTrader at h
  simp only [] at h
  have step1 : ∀ (r : Option (List Nat × MEnv × Xoro)),
      (r = (if F64.lt (genF64 g).1 pl = true then
              (if F64.lt (.fin 0) m = true then
                (submitLimit e c.asset .bid c.vol tr (buyPrice (.fin ((k : ℚ) / 2)) (smp (genF64 g).2).1 c.tick)).map
                  fun x => (live ++ [x.1], x.2, (smp (genF64 g).2).2)
               else if F64.lt m (.fin 0) = true then
                (submitLimit e c.asset .ask c.vol tr (sellPrice (.fin ((k : ℚ) / 2)) (smp (genF64 g).2).1 c.tick)).map
                  fun x => (live ++ [x.1], x.2, (smp (genF64 g).2).2)
               else some (live, e, (genF64 g).2))
            else some (live, e, (genF64 g).2))) →
      ∀ l1 e1 g1, r = some (l1, e1, g1) →
        Reach c.asset c.tick c.vol c.traders ((k : ℚ) / 2) own (F64.lt (.fin 0) m) (F64.lt m (.fin 0)) e0 e1 := by
    intro r hr l1 e1 g1 hsome
    rw [hr] at hsome
    split at hsome
    · split at hsome
      · rename_i hpos
        cases hs : submitLimit e c.asset .bid c.vol tr (buyPrice (.fin ((k : ℚ) / 2)) (smp (genF64 g).2).1 c.tick) with
        | none => rw [hs] at hsome; simp at hsome
        | some x =>
          rw [hs] at hsome
          simp only [Option.map_some, Option.some.injEq, Prod.mk.injEq] at hsome
          obtain ⟨_, h2, _⟩ := hsome
          have hv := buyPrice_valid k c.tick hq.tick_pos hq.tick_u32 hk (smp (genF64 g).2).1
          have hp := submitLimit_eq (id := x.1) (e' := x.2) (by rw [hs])
          rw [h2] at hp
          exact Reach.limitBuy he hpos htr hv.1 hv.2 hp
      · split at hsome
        · rename_i _ hneg
          cases hs : submitLimit e c.asset .ask c.vol tr (sellPrice (.fin ((k : ℚ) / 2)) (smp (genF64 g).2).1 c.tick) with
          | none => rw [hs] at hsome; simp at hsome
          | some x =>
            rw [hs] at hsome
            simp only [Option.map_some, Option.some.injEq, Prod.mk.injEq] at hsome
            obtain ⟨_, h2, _⟩ := hsome
            have hv := sellPrice_valid k c.tick hq.tick_pos hq.tick_u32 hq.mid_room (smp (genF64 g).2).1 (hq.no_nan _)
            have hp := submitLimit_eq (id := x.1) (e' := x.2) (by rw [hs])
            rw [h2] at hp
            exact Reach.limitSell he hneg htr hv.1 hv.2 hp
        · simp only [Option.some.injEq, Prod.mk.injEq] at hsome
          rw [← hsome.2.1]; exact he
    · simp only [Option.some.injEq, Prod.mk.injEq] at hsome
      rw [← hsome.2.1]; exact he
  split at h
  · simp at h
  · rename_i l1 e1 g1 hafter
    have hr1 := step1 _ rfl l1 e1 g1 hafter
    split at h
    · split at h
      · rename_i hpos
        cases hm : submitMarket e1 c.asset .bid c.vol tr with
        | none => rw [hm] at h; simp at h
        | some e2 =>
          rw [hm] at h
          simp only [Option.map_some, Option.some.injEq, Prod.mk.injEq] at h
          obtain ⟨id, hp⟩ := submitMarket_eq hm
          rw [h.2.1] at hp
          exact Reach.marketBuy hr1 hpos htr hp
      · split at h
        · rename_i _ hneg
          cases hm : submitMarket e1 c.asset .ask c.vol tr with
          | none => rw [hm] at h; simp at h
          | some e2 =>
            rw [hm] at h
            simp only [Option.map_some, Option.some.injEq, Prod.mk.injEq] at h
            obtain ⟨id, hp⟩ := submitMarket_eq hm
            rw [h.2.1] at hp
            exact Reach.marketSell hr1 hneg htr hp
        · simp only [Option.some.injEq, Prod.mk.injEq] at h
          rw [← h.2.1]; exact hr1
    · simp only [Option.some.injEq, Prod.mk.injEq] at h
      rw [← h.2.1]; exact hr1

theorem momLoop_reach (c : MomP) (smp : Sampler) (k : Nat) (hq : QuoteOk k c.tick smp) (m pl pm : F) {own e0}
    (trs : List Nat) (htrs : ∀ t ∈ trs, t ∈ c.traders) (live : List Nat) (e : MEnv) (g : Xoro)
    (he : Reach c.asset c.tick c.vol c.traders ((k : ℚ) / 2) own (F64.lt (.fin 0) m) (F64.lt m (.fin 0)) e0 e)
    {live' e' g'} (h : momLoop c smp (.fin ((k : ℚ) / 2)) m pl pm trs live e g = some (live', e', g')) :
    Reach c.asset c.tick c.vol c.traders ((k : ℚ) / 2) own (F64.lt (.fin 0) m) (F64.lt m (.fin 0)) e0 e' := by
  induction trs generalizing live e g with
  | nil =>
    simp only [momLoop, Option.some.injEq, Prod.mk.injEq] at h
    rw [← h.2.1]; exact he
  | cons tr rest ih =>
    simp only [momLoop] at h
    split at h
    · simp at h
    · rename_i l1 e1 g1 h1
      exact ih (fun t ht => htrs t (List.mem_cons_of_mem _ ht)) l1 e1 g1
        (momTrader_reach c smp k hq m pl pm tr (htrs tr List.mem_cons_self) live e g he h1) h

/-- **Every instruction a momentum agent submits is valid, and its direction is the sign of the
signal**: an update reaches an environment obtained by cancelling tracked Active orders and placing
limit / market orders of its own traders (configured volume, grid prices on the right side of the
observed mid-price) — buys only if `0 < M`, sells only if `M < 0`, hence nothing when `M = 0` —
where `M` is the signal `signal` computes from the observed mid-prices. For every sampler and every
`tanh`. -/
theorem momUpdate_reach (c : MomP) (smp : Sampler) (th : F → F) (s : MomState) (e : MEnv) (g : Xoro)
    (b : Book) (hb : e.market.books[c.asset]? = some b) (hq : QuoteOk b.mid2 c.tick smp)
    {s' e' g'} (h : momUpdate c smp th s e g = some (s', e', g')) :
    Reach c.asset c.tick c.vol c.traders ((b.mid2 : ℚ) / 2) s.orders
      (F64.lt (.fin 0) (signal c th s (.fin ((b.mid2 : ℚ) / 2))).1)
      (F64.lt (signal c th s (.fin ((b.mid2 : ℚ) / 2))).1 (.fin 0)) e e' ∧
    s'.m = (signal c th s (.fin ((b.mid2 : ℚ) / 2))).1 ∧ s'.last = some (.fin ((b.mid2 : ℚ) / 2)) := by
  unfold momUpdate at h
  split at h
  · simp at h
  · rename_i live e1 g1 hc
    unfold cancelLive at hc
    cases hp : partitionLive e c.asset c.pCancel s.orders g with
    | none => rw [hp] at hc; simp at hc
    | some r =>
      obtain ⟨l, cn, g2⟩ := r
      rw [hp] at hc
      simp only [Option.map_some, Option.some.injEq, Prod.mk.injEq] at hc
      obtain ⟨_, he1, _⟩ := hc
      have hspec := partitionLive_spec e c.asset c.pCancel s.orders g l cn g2 hp
      have hmid : midOf e1 c.asset = some (.fin ((b.mid2 : ℚ) / 2)) := by
        unfold midOf; rw [← he1, cancelAll_market, hb]; rfl
      rw [hmid] at h
      simp only [] at h
      cases hl : momLoop c smp (.fin ((b.mid2 : ℚ) / 2)) (signal c th s (.fin ((b.mid2 : ℚ) / 2))).1
          (signal c th s (.fin ((b.mid2 : ℚ) / 2))).2.2 (signal c th s (.fin ((b.mid2 : ℚ) / 2))).2.1 c.traders live e1 g1 with
      | none => rw [hl] at h; simp at h
      | some r2 =>
        obtain ⟨l2, e2, g3⟩ := r2
        rw [hl] at h
        simp only [Option.map_some, Option.some.injEq, Prod.mk.injEq] at h
        obtain ⟨hs', he', _⟩ := h
        have hr1 : Reach c.asset c.tick c.vol c.traders ((b.mid2 : ℚ) / 2) s.orders
            (F64.lt (.fin 0) (signal c th s (.fin ((b.mid2 : ℚ) / 2))).1)
            (F64.lt (signal c th s (.fin ((b.mid2 : ℚ) / 2))).1 (.fin 0)) e e1 := by
          rw [← he1]; exact cancelAll_reach e cn Reach.refl hspec.1
        refine ⟨?_, by rw [← hs'], by rw [← hs']⟩
        rw [← he']
        exact momLoop_reach c smp b.mid2 hq _ _ _ c.traders (fun t ht => ht) live e1 g1 hr1 hl

/-! ### No update aborts the simulation -/

theorem placeOrder_ok (e : MEnv) (a : Nat) (b : Book) (hb : e.market.books[a]? = some b) (sd : Side) (vol tr : Nat)
    (p : Option Nat) (hp : ∀ q, p = some q → q % b.tick = 0) :
    ∃ e' id b', e.placeOrder a sd vol tr p = (e', .ok id) ∧ e'.market.books[a]? = some b' ∧ b'.tick = b.tick := by
  have hcreate : ∃ b' id, b.createOrder sd vol tr p = (b', .ok id) ∧ b'.tick = b.tick := by
    unfold Book.createOrder
    cases p with
    | none => exact ⟨_, _, rfl, rfl⟩
    | some q =>
      have := hp q rfl
      simp only [this, bne_self_eq_false, Bool.false_eq_true, if_false]
      exact ⟨_, _, rfl, rfl⟩
  obtain ⟨b', id, hc, ht⟩ := hcreate
  have hlen : a < e.market.books.length := by
    rcases List.getElem?_eq_some_iff.mp hb with ⟨h, _⟩; exact h
  have hm : e.market.createOrder a sd vol tr p = ({ e.market with books := e.market.books.set a b' }, .ok id) := by
    unfold Market.createOrder Market.stepOn
    rw [hb]
    simp only [Book.step, hc, Res.ofCreate]
  refine ⟨{ e with market := { e.market with books := e.market.books.set a b' }, queue := e.queue ++ [(a, .new id)] }, id, b', ?_, ?_, ht⟩
  · unfold MEnv.placeOrder
    rw [hm]
  · simp [List.getElem?_set_self hlen]

theorem submitLimit_ok (e : MEnv) (a : Nat) (b : Book) (hb : e.market.books[a]? = some b) (sd : Side) (vol tr p : Nat)
    (hp : p % b.tick = 0) :
    ∃ id e' b', submitLimit e a sd vol tr p = some (id, e') ∧ e'.market.books[a]? = some b' ∧ b'.tick = b.tick := by
  obtain ⟨e', id, b', h1, h2, h3⟩ := placeOrder_ok e a b hb sd vol tr (some p) (by intro q hq; cases hq; exact hp)
  refine ⟨id, e', b', ?_, h2, h3⟩
  unfold submitLimit
  rw [h1]

theorem submitMarket_ok (e : MEnv) (a : Nat) (b : Book) (hb : e.market.books[a]? = some b) (sd : Side) (vol tr : Nat) :
    ∃ e' b', submitMarket e a sd vol tr = some e' ∧ e'.market.books[a]? = some b' ∧ b'.tick = b.tick := by
  obtain ⟨e', id, b', h1, h2, h3⟩ := placeOrder_ok e a b hb sd vol tr none (by intro q hq; cases hq)
  refine ⟨e', b', ?_, h2, h3⟩
  unfold submitMarket
  rw [h1]

theorem partitionLive_ok (e : MEnv) (a : Nat) (pc : F) (orders : List Nat) (g : Xoro)
    (h : ∀ id ∈ orders, RandomAgents.orderStatus e a id ≠ none) :
    ∃ r, partitionLive e a pc orders g = some r := by
  induction orders generalizing g with
  | nil => exact ⟨_, rfl⟩
  | cons id rest ih =>
    have hid := h id List.mem_cons_self
    have hrest : ∀ i ∈ rest, RandomAgents.orderStatus e a i ≠ none := fun i hi => h i (List.mem_cons_of_mem _ hi)
    simp only [partitionLive]
    cases hs : RandomAgents.orderStatus e a id with
    | none => exact absurd hs hid
    | some st =>
      simp only []
      split
      · obtain ⟨r, hr⟩ := ih (genF32 g).2 hrest
        rw [hr]
        obtain ⟨l, c, g2⟩ := r
        simp only []
        split <;> exact ⟨_, rfl⟩
      · exact ih g hrest

/-- The agent is consistent with the environment: its asset exists with the same tick size (a
positive `u32`). -/
def Consistent (e : MEnv) (a tick : Nat) : Prop :=
  ∃ b, e.market.books[a]? = some b ∧ b.tick = tick ∧ 0 < tick ∧ tick ≤ 4294967295

theorem noiseTrader_ok (c : NoiseP) (smp : Sampler) (k : Nat) (hk : k ≤ 8589934590) (tr : Nat) (live : List Nat) (e : MEnv) (g : Xoro)
    (hc : Consistent e c.asset c.tick) :
    ∃ l e' g', noiseTrader c smp (.fin ((k : ℚ) / 2)) tr live e g = some (l, e', g') ∧ Consistent e' c.asset c.tick := by
  obtain ⟨b, hb, ht, hpos, hu32⟩ := hc
  unfold noiseTrader
  simp only []
  -- after the limit part
  have step1 : ∃ l1 e1 g1 b1,
      (if F64.lt (genF32 g).1 c.pLimit = true then
              (if (genBoolHalf (genF32 g).2).1 = true then
                 submitLimit e c.asset .bid c.vol tr (buyPrice (.fin ((k : ℚ) / 2)) (smp (genBoolHalf (genF32 g).2).2).1 c.tick)
               else submitLimit e c.asset .ask c.vol tr (sellPrice (.fin ((k : ℚ) / 2)) (smp (genBoolHalf (genF32 g).2).2).1 c.tick)).map
                fun x => (live ++ [x.1], x.2, (smp (genBoolHalf (genF32 g).2).2).2)
            else some (live, e, (genF32 g).2)) = some (l1, e1, g1) ∧
      e1.market.books[c.asset]? = some b1 ∧ b1.tick = c.tick := by
    split
    · split
      · have hv := (buyPrice_valid k c.tick hpos hu32 hk (smp (genBoolHalf (genF32 g).2).2).1).1
        obtain ⟨id, e', b', h1, h2, h3⟩ := submitLimit_ok e c.asset b hb .bid c.vol tr _ (by rw [ht]; exact hv)
        exact ⟨_, e', _, b', by rw [h1]; rfl, h2, by rw [h3, ht]⟩
      · have hv := sellPrice_grid (.fin ((k : ℚ) / 2)) (smp (genBoolHalf (genF32 g).2).2).1 c.tick
        obtain ⟨id, e', b', h1, h2, h3⟩ := submitLimit_ok e c.asset b hb .ask c.vol tr _ (by rw [ht]; exact hv)
        exact ⟨_, e', _, b', by rw [h1]; rfl, h2, by rw [h3, ht]⟩
    · exact ⟨live, e, _, b, rfl, hb, ht⟩
  obtain ⟨l1, e1, g1, b1, h1, hb1, ht1⟩ := step1
  rw [h1]
  simp only []
  split
  · obtain ⟨e2, b2, h2, hb2, ht2⟩ := submitMarket_ok e1 c.asset b1 hb1
      (if (genBoolHalf (genF32 g1).2).1 = true then Side.bid else Side.ask) c.vol tr
    rw [h2]
    exact ⟨_, e2, _, rfl, b2, hb2, by rw [ht2, ht1], hpos, hu32⟩
  · exact ⟨_, e1, _, rfl, b1, hb1, ht1, hpos, hu32⟩

theorem noiseLoop_ok (c : NoiseP) (smp : Sampler) (k : Nat) (hk : k ≤ 8589934590) (trs : List Nat) (live : List Nat) (e : MEnv) (g : Xoro)
    (hc : Consistent e c.asset c.tick) :
    ∃ r, noiseLoop c smp (.fin ((k : ℚ) / 2)) trs live e g = some r := by
  induction trs generalizing live e g with
  | nil => exact ⟨_, rfl⟩
  | cons tr rest ih =>
    obtain ⟨l, e', g', h1, hc'⟩ := noiseTrader_ok c smp k hk tr live e g hc
    simp only [noiseLoop, h1]
    exact ih l e' g' hc'

/-- **A noise agent never aborts the simulation**: for every sampler (NaN and infinities included),
every probability setting and every generator state, `update` returns normally whenever the agent
is consistent with the environment — its asset exists with the agent's tick size — and the orders
it tracks exist. (The mid-price bound `mid2 ≤ 2·Price::MAX` holds of any two `u32` touch prices.) -/
theorem noiseUpdate_ok (c : NoiseP) (smp : Sampler) (orders : List Nat) (e : MEnv) (g : Xoro)
    (b : Book) (hb : e.market.books[c.asset]? = some b) (ht : b.tick = c.tick) (hpos : 0 < c.tick) (hu32 : c.tick ≤ 4294967295)
    (hmid : b.mid2 ≤ 8589934590) (htracked : ∀ id ∈ orders, id < b.orders.length) :
    ∃ r, noiseUpdate c smp orders e g = some r := by
  have hst : ∀ id ∈ orders, RandomAgents.orderStatus e c.asset id ≠ none := by
    intro id hid
    unfold RandomAgents.orderStatus
    rw [hb]
    simp only [Option.bind_some]
    have := htracked id hid
    simp [List.getElem?_eq_getElem this]
  obtain ⟨r, hr⟩ := partitionLive_ok e c.asset c.pCancel orders g hst
  obtain ⟨l, cn, g2⟩ := r
  unfold noiseUpdate cancelLive
  rw [hr]
  simp only [Option.map_some]
  have hm : (cancelAll e c.asset cn).market = e.market := cancelAll_market e c.asset cn
  have hmid' : midOf (cancelAll e c.asset cn) c.asset = some (.fin ((b.mid2 : ℚ) / 2)) := by
    unfold midOf; rw [hm, hb]; rfl
  rw [hmid']
  exact noiseLoop_ok c smp b.mid2 hmid c.traders l _ g2 ⟨b, by rw [hm]; exact hb, ht, hpos, hu32⟩

theorem momTrader_ok (c : MomP) (smp : Sampler) (k : Nat) (hk : k ≤ 8589934590) (m pl pm : F) (tr : Nat) (live : List Nat) (e : MEnv) (g : Xoro)
    (hc : Consistent e c.asset c.tick) :
    ∃ l e' g', momTrader c smp (.fin ((k : ℚ) / 2)) m pl pm tr live e g = some (l, e', g') ∧ Consistent e' c.asset c.tick := by
  obtain ⟨b, hb, ht, hpos, hu32⟩ := hc
  unfold momTrader
  simp only []
  have step1 : ∃ l1 e1 g1 b1,
      (if F64.lt (genF64 g).1 pl = true then
              (if F64.lt (.fin 0) m = true then
                (submitLimit e c.asset .bid c.vol tr (buyPrice (.fin ((k : ℚ) / 2)) (smp (genF64 g).2).1 c.tick)).map
                  fun x => (live ++ [x.1], x.2, (smp (genF64 g).2).2)
               else if F64.lt m (.fin 0) = true then
                (submitLimit e c.asset .ask c.vol tr (sellPrice (.fin ((k : ℚ) / 2)) (smp (genF64 g).2).1 c.tick)).map
                  fun x => (live ++ [x.1], x.2, (smp (genF64 g).2).2)
               else some (live, e, (genF64 g).2))
            else some (live, e, (genF64 g).2)) = some (l1, e1, g1) ∧
      e1.market.books[c.asset]? = some b1 ∧ b1.tick = c.tick := by
    split
    · split
      · have hv := (buyPrice_valid k c.tick hpos hu32 hk (smp (genF64 g).2).1).1
        obtain ⟨id, e', b', h1, h2, h3⟩ := submitLimit_ok e c.asset b hb .bid c.vol tr _ (by rw [ht]; exact hv)
        exact ⟨_, e', _, b', by rw [h1]; rfl, h2, by rw [h3, ht]⟩
      · split
        · have hv := sellPrice_grid (.fin ((k : ℚ) / 2)) (smp (genF64 g).2).1 c.tick
          obtain ⟨id, e', b', h1, h2, h3⟩ := submitLimit_ok e c.asset b hb .ask c.vol tr _ (by rw [ht]; exact hv)
          exact ⟨_, e', _, b', by rw [h1]; rfl, h2, by rw [h3, ht]⟩
        · exact ⟨live, e, _, b, rfl, hb, ht⟩
    · exact ⟨live, e, _, b, rfl, hb, ht⟩
  obtain ⟨l1, e1, g1, b1, h1, hb1, ht1⟩ := step1
  rw [h1]
  simp only []
  split
  · split
    · obtain ⟨e2, b2, h2, hb2, ht2⟩ := submitMarket_ok e1 c.asset b1 hb1 .bid c.vol tr
      rw [h2]
      exact ⟨_, e2, _, rfl, b2, hb2, by rw [ht2, ht1], hpos, hu32⟩
    · split
      · obtain ⟨e2, b2, h2, hb2, ht2⟩ := submitMarket_ok e1 c.asset b1 hb1 .ask c.vol tr
        rw [h2]
        exact ⟨_, e2, _, rfl, b2, hb2, by rw [ht2, ht1], hpos, hu32⟩
      · exact ⟨_, e1, _, rfl, b1, hb1, ht1, hpos, hu32⟩
  · exact ⟨_, e1, _, rfl, b1, hb1, ht1, hpos, hu32⟩

theorem momLoop_ok (c : MomP) (smp : Sampler) (k : Nat) (hk : k ≤ 8589934590) (m pl pm : F) (trs : List Nat) (live : List Nat)
    (e : MEnv) (g : Xoro) (hc : Consistent e c.asset c.tick) :
    ∃ r, momLoop c smp (.fin ((k : ℚ) / 2)) m pl pm trs live e g = some r := by
  induction trs generalizing live e g with
  | nil => exact ⟨_, rfl⟩
  | cons tr rest ih =>
    obtain ⟨l, e', g', h1, hc'⟩ := momTrader_ok c smp k hk m pl pm tr live e g hc
    simp only [momLoop, h1]
    exact ih l e' g' hc'

/-- **A momentum agent never aborts the simulation**: for every sampler, every `tanh`, every
(finite or not) decay / demand / scale / order ratio and every generator state. -/
theorem momUpdate_ok (c : MomP) (smp : Sampler) (th : F → F) (s : MomState) (e : MEnv) (g : Xoro)
    (b : Book) (hb : e.market.books[c.asset]? = some b) (ht : b.tick = c.tick) (hpos : 0 < c.tick) (hu32 : c.tick ≤ 4294967295)
    (hmid : b.mid2 ≤ 8589934590) (htracked : ∀ id ∈ s.orders, id < b.orders.length) :
    ∃ r, momUpdate c smp th s e g = some r := by
  have hst : ∀ id ∈ s.orders, RandomAgents.orderStatus e c.asset id ≠ none := by
    intro id hid
    unfold RandomAgents.orderStatus
    rw [hb]
    simp only [Option.bind_some]
    have := htracked id hid
    simp [List.getElem?_eq_getElem this]
  obtain ⟨r, hr⟩ := partitionLive_ok e c.asset c.pCancel s.orders g hst
  obtain ⟨l, cn, g2⟩ := r
  unfold momUpdate cancelLive
  rw [hr]
  simp only [Option.map_some]
  have hm : (cancelAll e c.asset cn).market = e.market := cancelAll_market e c.asset cn
  have hmid' : midOf (cancelAll e c.asset cn) c.asset = some (.fin ((b.mid2 : ℚ) / 2)) := by
    unfold midOf; rw [hm, hb]; rfl
  rw [hmid']
  simp only []
  obtain ⟨r2, hr2⟩ := momLoop_ok c smp b.mid2 hmid (signal c th s (.fin ((b.mid2 : ℚ) / 2))).1
    (signal c th s (.fin ((b.mid2 : ℚ) / 2))).2.2 (signal c th s (.fin ((b.mid2 : ℚ) / 2))).2.1 c.traders l _ g2
    ⟨b, by rw [hm]; exact hb, ht, hpos, hu32⟩
  rw [hr2]
  exact ⟨_, rfl⟩

/-! ### Activity corners and the zero signal -/

/-- With neither direction allowed (`M = 0`), whatever the update did left every book untouched:
only cancellations were queued. -/
theorem reach_no_direction_market {a tick vol trs mid own e0 e} (h : Reach a tick vol trs mid own false false e0 e) :
    e.market = e0.market := by
  induction h with
  | refl => rfl
  | cancel _ _ _ ih => simpa [MEnv.cancelOrder] using ih
  | limitBuy _ hb => cases hb
  | limitSell _ hs => cases hs
  | marketBuy _ hb => cases hb
  | marketSell _ hs => cases hs

theorem genF32_range (g : Xoro) : ∃ q : ℚ, (genF32 g).1 = .fin q ∧ 0 ≤ q ∧ q < 1 := by
  refine ⟨((g.genF32.1 : ℕ) : ℚ) / 16777216, rfl, by positivity, ?_⟩
  have h : g.genF32.1 < 16777216 := by
    simp only [Xoro.genF32, Xoro.next32]
    have : (g.next.1.toNat % 4294967296) < 4294967296 := Nat.mod_lt _ (by decide)
    omega
  rw [div_lt_one (by norm_num)]
  exact_mod_cast h

theorem genF64_range (g : Xoro) : ∃ q : ℚ, (genF64 g).1 = .fin q ∧ 0 ≤ q ∧ q < 1 := by
  refine ⟨(((g.next.1.toNat / 2048 : ℕ)) : ℚ) / 9007199254740992, rfl, by positivity, ?_⟩
  have h : g.next.1.toNat / 2048 < 9007199254740992 := by
    have : g.next.1.toNat < 18446744073709551616 := g.next.1.toNat_lt
    omega
  rw [div_lt_one (by norm_num)]
  exact_mod_cast h

/-- **Probability 0 (or less, or NaN) never happens**: no uniform draw in `[0, 1)` is below it. -/
theorem draw_not_below_nonpos (q : ℚ) (hq : 0 ≤ q) (p : F) (hp : F64.lt (.fin 0) p = false) : F64.lt (.fin q) p = false := by
  cases p with
  | fin r =>
    simp only [F64.lt, decide_eq_false_iff_not, not_lt] at hp ⊢
    linarith
  | pinf => simp [F64.lt] at hp
  | ninf => rfl
  | nan => rfl

/-- **Probability at least 1 always happens**: every uniform draw in `[0, 1)` is below it. -/
theorem draw_below_ge_one (q : ℚ) (hq : q < 1) (p : F) (hp : ge p (.fin 1) = true) : F64.lt (.fin q) p = true := by
  cases p with
  | fin r =>
    simp only [ge, F64.lt, Bool.or_eq_true, decide_eq_true_eq, Bool.and_eq_true, beq_iff_eq, F.fin.injEq] at hp ⊢
    rcases hp with h | ⟨h, _⟩
    · linarith
    · linarith
  | pinf => rfl
  | ninf => simp [ge, F64.lt] at hp
  | nan => simp [ge, F64.lt] at hp

end FAgents
end Bourse
