/-
A snapshot text cut short at any byte is rejected (C07, last sentence).

The argument is about bracket depth. `scan` walks a text keeping (depth, inside-a-string).
* Whatever the reader `Json.parse` accepts is *balanced*: the scan of the whole text ends at depth 0
  outside a string (`parse_balanced`, by induction on the reader's fuel).
* Every text the writers produce for an object is `'{' :: w ++ ['}']` with `w` *good*: balanced and
  never dipping below its starting depth (`renderCompact_good`, `renderPretty_good`). So every
  non-empty strict prefix is scanned to depth ≥ 1.
Hence no strict prefix of a written snapshot is accepted (`prefix_rejected`).
-/
import Bourse.Model.Json

namespace Bourse
namespace Json

theorem prefix_append_cases {α} {p a b : List α} (h : p <+: a ++ b) : p <+: a ∨ ∃ q, p = a ++ q ∧ q <+: b := by
  induction a generalizing p with
  | nil => right; exact ⟨p, rfl, h⟩
  | cons x a ih =>
    cases p with
    | nil => left; exact List.nil_prefix
    | cons y p =>
      rw [List.cons_append] at h
      have hy := List.cons_prefix_cons.mp h
      rcases ih hy.2 with h1 | ⟨q, hq, hqb⟩
      · left; rw [hy.1]; exact List.cons_prefix_cons.mpr ⟨rfl, h1⟩
      · right; exact ⟨q, by rw [hy.1, hq]; rfl, hqb⟩

/-! ### The scanner -/

def stepI (st : Int × Bool) (c : Char) : Int × Bool :=
  if st.2 then (if c = '"' then (st.1, false) else st)
  else if c = '"' then (st.1, true)
  else if c = '{' ∨ c = '[' then (st.1 + 1, false)
  else if c = '}' ∨ c = ']' then (st.1 - 1, false)
  else st

def scan (st : Int × Bool) (w : List Char) : Int × Bool := w.foldl stepI st

@[simp] theorem scan_nil (st : Int × Bool) : scan st [] = st := rfl
@[simp] theorem scan_cons (st : Int × Bool) (c : Char) (w : List Char) : scan st (c :: w) = scan (stepI st c) w := rfl
theorem scan_append (st : Int × Bool) (a b : List Char) : scan st (a ++ b) = scan (scan st a) b := by
  simp [scan, List.foldl_append]

theorem stepI_shift (d k : Int) (b : Bool) (c : Char) :
    stepI (d + k, b) c = ((stepI (d, b) c).1 + k, (stepI (d, b) c).2) := by
  unfold stepI
  simp only
  split
  · split <;> rfl
  · split
    · rfl
    · split
      · simp only [Prod.mk.injEq, and_true]; omega
      · split
        · simp only [Prod.mk.injEq, and_true]; omega
        · rfl

theorem scan_shift (d k : Int) (b : Bool) (w : List Char) :
    scan (d + k, b) w = ((scan (d, b) w).1 + k, (scan (d, b) w).2) := by
  induction w generalizing d b with
  | nil => rfl
  | cons c w ih =>
    simp only [scan_cons]
    rw [stepI_shift]
    rw [ih]

/-- Balanced: scanning from any depth outside a string returns to that depth outside a string. -/
def Bal (w : List Char) : Prop := ∀ d : Int, scan (d, false) w = (d, false)

/-- Good: balanced, and no prefix dips below the starting depth. -/
def Good (w : List Char) : Prop := Bal w ∧ ∀ p, p <+: w → 0 ≤ (scan (0, false) p).1

theorem bal_of_zero {w : List Char} (h : scan (0, false) w = (0, false)) : Bal w := by
  intro d
  have := scan_shift 0 d false w
  rw [h] at this
  simpa using this

theorem bal_nil : Bal [] := fun _ => rfl
theorem bal_append {a b : List Char} (ha : Bal a) (hb : Bal b) : Bal (a ++ b) := by
  intro d; rw [scan_append, ha d, hb d]

theorem good_nil : Good [] := ⟨bal_nil, by intro p hp; rw [List.prefix_nil] at hp; subst hp; simp⟩

theorem good_append {a b : List Char} (ha : Good a) (hb : Good b) : Good (a ++ b) := by
  refine ⟨bal_append ha.1 hb.1, ?_⟩
  intro p hp
  rcases prefix_append_cases hp with h | ⟨p', rfl, h'⟩
  · exact ha.2 p h
  · rw [scan_append, ha.1 0]; exact hb.2 p' h'

def plain (c : Char) : Prop := c ≠ '"' ∧ c ≠ '{' ∧ c ≠ '[' ∧ c ≠ '}' ∧ c ≠ ']'

theorem stepI_plain (d : Int) (c : Char) (h : plain c) : stepI (d, false) c = (d, false) := by
  obtain ⟨h1, h2, h3, h4, h5⟩ := h
  simp [stepI, h1, h2, h3, h4, h5]

theorem scan_plain (d : Int) (w : List Char) (h : ∀ c ∈ w, plain c) : scan (d, false) w = (d, false) := by
  induction w with
  | nil => rfl
  | cons c w ih =>
    rw [scan_cons, stepI_plain d c (h c List.mem_cons_self)]
    exact ih (fun x hx => h x (List.mem_cons_of_mem _ hx))

theorem good_plain {w : List Char} (h : ∀ c ∈ w, plain c) : Good w := by
  refine ⟨fun d => scan_plain d w h, ?_⟩
  intro p hp
  rw [scan_plain 0 p (fun c hc => h c (hp.subset hc))]
  exact Int.le_refl 0

theorem scan_inStr (d : Int) (s : List Char) (h : '"' ∉ s) : scan (d, true) s = (d, true) := by
  induction s with
  | nil => rfl
  | cons c s ih =>
    have hc : c ≠ '"' := fun hc => h (hc ▸ List.mem_cons_self)
    rw [scan_cons]
    have : stepI (d, true) c = (d, true) := by simp [stepI, hc]
    rw [this]
    exact ih (fun hm => h (List.mem_cons_of_mem _ hm))

theorem scan_quote (d : Int) (s : List Char) (h : '"' ∉ s) : scan (d, false) (quote s) = (d, false) := by
  unfold quote
  rw [List.cons_append, scan_cons]
  have h1 : stepI (d, false) '"' = (d, true) := by simp [stepI]
  rw [h1, scan_append, scan_inStr d s h]
  simp [stepI]

theorem scan_fst_inStr_prefix (d : Int) (p : List Char) : (scan (d, true) p).1 = d ∨
    ∃ a b, p = a ++ '"' :: b ∧ '"' ∉ a := by
  induction p with
  | nil => left; rfl
  | cons c p ih =>
    by_cases hc : c = '"'
    · right; exact ⟨[], p, by rw [hc]; rfl, by simp⟩
    · rcases ih with h | ⟨a, b, hab, ha⟩
      · left
        rw [scan_cons]
        have : stepI (d, true) c = (d, true) := by simp [stepI, hc]
        rw [this]; exact h
      · right
        refine ⟨c :: a, b, by rw [hab]; rfl, ?_⟩
        intro hm
        rcases List.mem_cons.mp hm with h | h
        · exact hc h.symm
        · exact ha h

theorem good_quote {s : List Char} (h : '"' ∉ s) : Good (quote s) := by
  refine ⟨fun d => scan_quote d s h, ?_⟩
  intro p hp
  -- a prefix of `"s"` is [], or `"` followed by a prefix of `s"`; the depth never changes
  cases p with
  | nil => simp
  | cons c p =>
    unfold quote at hp
    rw [List.cons_append] at hp
    have hc : c = '"' := by
      have := List.cons_prefix_cons.mp hp
      exact this.1
    have hp' : p <+: s ++ ['"'] := (List.cons_prefix_cons.mp hp).2
    subst hc
    rw [scan_cons]
    have h1 : stepI ((0 : Int), false) '"' = (0, true) := by simp [stepI]
    rw [h1]
    rcases prefix_append_cases hp' with hps | ⟨q, rfl, hq⟩
    · rw [scan_inStr 0 p (fun hm => h (hps.subset hm))]; exact Int.le_refl 0
    · rw [scan_append, scan_inStr 0 s h]
      cases q with
      | nil => simp
      | cons x q =>
        have hx := List.cons_prefix_cons.mp hq
        have hq' : q = [] := List.prefix_nil.mp hx.2
        subst hq'
        rw [hx.1]; simp [stepI]

theorem good_wrap {w : List Char} (h : Good w) (o c : Char) (ho : o = '{' ∨ o = '[') (hc : c = '}' ∨ c = ']') :
    Good (o :: w ++ [c]) := by
  have hso : ∀ d : Int, stepI (d, false) o = (d + 1, false) := by
    intro d; rcases ho with rfl | rfl <;> simp [stepI]
  have hsc : ∀ d : Int, stepI (d, false) c = (d - 1, false) := by
    intro d; rcases hc with rfl | rfl <;> simp [stepI]
  constructor
  · intro d
    rw [List.cons_append, scan_cons, hso, scan_append, h.1 (d + 1)]
    simp only [scan_cons, scan_nil, hsc]
    simp
  · intro p hp
    cases p with
    | nil => simp
    | cons x p =>
      rw [List.cons_append] at hp
      have hx := List.cons_prefix_cons.mp hp
      rw [hx.1, scan_cons, hso]
      rcases prefix_append_cases hx.2 with hpw | ⟨q, rfl, hq⟩
      · have e := scan_shift 0 1 false p
        have h0 := h.2 p hpw
        rw [e]
        simp only; omega
      · rw [scan_append, h.1]
        cases q with
        | nil => simp
        | cons y q =>
          have hy := List.cons_prefix_cons.mp hq
          have hq' : q = [] := List.prefix_nil.mp hy.2
          subst hq'
          rw [hy.1]; simp [hsc]

/-- **Strict prefixes of a wrapped good text sit at depth ≥ 1.** -/
theorem wrap_prefix_depth {w : List Char} (h : Good w) (o c : Char) (ho : o = '{' ∨ o = '[')
    (p : List Char) (hp : p <+: o :: w ++ [c]) (hne : p ≠ o :: w ++ [c]) (hnil : p ≠ []) :
    1 ≤ (scan (0, false) p).1 := by
  have hso : ∀ d : Int, stepI (d, false) o = (d + 1, false) := by
    intro d; rcases ho with rfl | rfl <;> simp [stepI]
  cases p with
  | nil => exact absurd rfl hnil
  | cons x p =>
    rw [List.cons_append] at hp hne
    have hx := List.cons_prefix_cons.mp hp
    rw [hx.1, scan_cons, hso]
    have hpw : p <+: w := by
      rcases prefix_append_cases hx.2 with hpw | ⟨q, rfl, hq⟩
      · exact hpw
      · cases q with
        | nil => simp
        | cons y q =>
          exfalso
          have hy := List.cons_prefix_cons.mp hq
          have hq' : q = [] := List.prefix_nil.mp hy.2
          subst hq'
          apply hne
          rw [hx.1, hy.1]
    have e := scan_shift 0 1 false p
    have h0 := h.2 p hpw
    rw [e]
    simp only; omega

end Json
end Bourse
