/-
The priority queues are in price-time order: reading a side's queue from its head, prices never
get better (C01: "best-priced resting orders first"); within a price the position is the FIFO list
position of the reference engine (earliest-queued first).
-/
import Bourse.Lemmas.RefineStep

namespace Bourse

/-- In every state satisfying the invariant, each side's queue (as the reference engine's id list)
is sorted by price: an order nearer the head has a better or equal price than any order behind it. -/
theorem queue_price_sorted {b : Book} (h : Inv b) (sd : Side) :
    (absq (b.side sd)).Pairwise (fun i j =>
      Ref.ahead sd (Ref.priceOf (absOrders b.orders) i) (Ref.priceOf (absOrders b.orders) j) = true) := by
  have hs := h.side sd
  have hp : (b.side sd).orders.Pairwise (fun x y =>
      Ref.ahead sd (Ref.priceOf (absOrders b.orders) x.2) (Ref.priceOf (absOrders b.orders) y.2) = true) := by
    refine List.Pairwise.imp_of_mem ?_ hs.so
    rintro ⟨k, i⟩ ⟨k', j⟩ hx hy hlt
    obtain ⟨m, hm, _, _, _, hk, _, _, hb⟩ := hs.ent k i hx
    obtain ⟨m', hm', _, _, _, hk', _, _, hb'⟩ := hs.ent k' j hy
    have h1 : Ref.priceOf (absOrders b.orders) i = m.order.price := by simp [Ref.priceOf, absOrders_getElem?, hm]
    have h2 : Ref.priceOf (absOrders b.orders) j = m'.order.price := by simp [Ref.priceOf, absOrders_getElem?, hm']
    simp only [h1, h2]
    have hle : k.1 ≤ k'.1 := by
      simp only [KeyOrd.lt, Bool.or_eq_true, Bool.and_eq_true, decide_eq_true_eq] at hlt
      omega
    rw [hk, hk'] at hle
    cases sd <;> simp only [priceKey, Ref.ahead, decide_eq_true_eq] at hle ⊢ <;> omega
  exact List.pairwise_map.mpr hp

/-- Hence the head of a non-empty queue carries the side's best price among all resting orders. -/
theorem queue_head_is_best {b : Book} (h : Inv b) (sd : Side) (i : Nat) (rest : List Nat)
    (hq : absq (b.side sd) = i :: rest) :
    ∀ j ∈ rest, Ref.ahead sd (Ref.priceOf (absOrders b.orders) i) (Ref.priceOf (absOrders b.orders) j) = true := by
  have := queue_price_sorted h sd
  rw [hq] at this
  exact (List.pairwise_cons.mp this).1

end Bourse
