/-
Every order in the table is a market order or has a price on the tick grid — an invariant of
every operation (C12), needing no validity hypothesis at all.
-/
import Bourse.Lemmas.MatchFrame
import Bourse.Model.Ops

namespace Bourse

def onGridE (tick : Nat) (e : Entry) : Prop := Book.isMarket e.order = true ∨ e.order.price % tick = 0

def Grid (b : Book) : Prop := ∀ e ∈ b.orders, onGridE b.tick e

theorem onGridE_of_same {tick : Nat} {e e' : Entry} (h : onGridE tick e) (hp : e'.order.price = e.order.price)
    (hs : e'.order.side = e.order.side) : onGridE tick e' := by
  unfold onGridE Book.isMarket at *
  rw [hp, hs]; exact h

theorem grid_set {b : Book} (h : Grid b) (i : Nat) (e' : Entry) (he' : onGridE b.tick e') :
    ∀ e ∈ b.orders.set i e', onGridE b.tick e := by
  intro e he
  rcases List.mem_or_eq_of_mem_set he with he | he
  · exact h e he
  · rw [he]; exact he'

theorem fillStep_grid (sd : Side) (b : Book) (e : Entry) (id : Nat) (m : Entry) (h : Grid b)
    (hm : b.orders[id]? = some m) : Grid (Book.fillStep sd b e id m).1 := by
  have ht : (Book.fillStep sd b e id m).1.tick = b.tick := (Book.fillStep_frame sd b e id m).2.1
  have ho : (Book.fillStep sd b e id m).1.orders = b.orders.set id { m with order := (Book.matchOrders b.t e.order m.order).2.1 } := by
    simp [Book.fillStep]
  intro x hx
  rw [ho] at hx
  rw [ht]
  refine grid_set h id _ ?_ x hx
  have hmem : m ∈ b.orders := List.mem_of_getElem? hm
  have hi := Book.matchOrders_ident b.t e.order m.order
  exact onGridE_of_same (h m hmem) hi.2.2.2.2.2.2.2.2.2.2.2 hi.2.2.2.2.2.2.2.1

theorem matchLoop_grid (sd : Side) (fuel : Nat) (b : Book) (e : Entry) (h : Grid b) :
    Grid (Book.matchLoop sd fuel b e).1 := by
  induction fuel generalizing b e with
  | zero => exact h
  | succ fuel ih =>
    unfold Book.matchLoop
    split
    · split
      · exact h
      · split
        · exact h
        · rename_i _ id _ _ m hm
          exact ih _ _ (fillStep_grid sd b e id m h hm)
    · exact h

theorem matchIfTrading_grid (sd : Side) (b : Book) (e : Entry) (h : Grid b) : Grid (Book.matchIfTrading sd b e).1 := by
  unfold Book.matchIfTrading Book.matchSide
  split
  · exact matchLoop_grid _ _ _ _ h
  · exact h

/-- Writing back an on-grid entry after any of the aggressor flows. -/
theorem writeBack_grid {r : Book × Entry} (h : Grid r.1) (id : Nat) (he : onGridE r.1.tick r.2) : Grid (Book.writeBack r id) := by
  intro x hx
  exact grid_set h id r.2 he x hx

theorem writeBack_grid' (b' : Book) (e' : Entry) (h : Grid b') (id : Nat) (he : onGridE b'.tick e') :
    Grid (Book.writeBack (b', e') id) := writeBack_grid (r := (b', e')) h id he

theorem restUnlessFilled_grid (sd : Side) (r : Book × Entry) (pk : Nat) (h : Grid r.1) :
    Grid (Book.restUnlessFilled sd r pk).1 := by
  have hf := Book.restUnlessFilled_trades sd r pk
  intro x hx
  rw [hf.2.2.2.2.2.1] at hx
  rw [hf.2.2.2.2.1]
  exact h x hx

/-- The limit flow keeps the grid when the aggressor's own price is on the grid. -/
theorem limit_flow_grid (sd : Side) (b : Book) (e : Entry) (pk id : Nat) (h : Grid b) (he : onGridE b.tick e) :
    Grid (Book.writeBack (Book.restUnlessFilled sd (Book.matchIfTrading sd b e) pk) id) := by
  have hg := restUnlessFilled_grid sd _ pk (matchIfTrading_grid sd b e h)
  refine writeBack_grid hg id ?_
  have hf := Book.restUnlessFilled_trades sd (Book.matchIfTrading sd b e) pk
  have hi := Book.matchIfTrading_ident sd b e
  have hfr := Book.matchIfTrading_frame sd b e
  rw [hf.2.2.2.2.1, hfr.2.1]
  refine onGridE_of_same he ?_ ?_
  · rw [hf.2.2.2.2.2.2, hi.2.2.2.2.2]
  · rw [hf.2.2.2.2.2.2, hi.2.1]

theorem place_grid (b : Book) (id : Nat) (h : Grid b) : Grid (b.placeOrder id) := by
  unfold Book.placeOrder
  split
  · exact h
  · rename_i e he
    split
    · exact h
    · have hmem : e ∈ b.orders := List.mem_of_getElem? he
      have hact : onGridE b.tick (b.activate e) := onGridE_of_same (h e hmem) rfl rfl
      unfold Book.placeEntry
      split
      · -- market
        unfold Book.placeMarket
        split
        · unfold Book.cancelRemainder
          have hg := matchLoop_grid (b.activate e).order.side (Book.matchFuel b (b.activate e).order.side) b (b.activate e) h
          have hi := Book.matchLoop_ident (b.activate e).order.side (Book.matchFuel b (b.activate e).order.side) b (b.activate e)
          have hfr := Book.matchLoop_frame (b.activate e).order.side (Book.matchFuel b (b.activate e).order.side) b (b.activate e)
          split
          · refine writeBack_grid' _ _ hg id ?_
            simp only [Book.matchSide]
            rw [hfr.2.1]
            exact onGridE_of_same hact hi.2.2.2.2.2 hi.2.1
          · refine writeBack_grid hg id ?_
            rw [hfr.2.1]
            exact onGridE_of_same hact hi.2.2.2.2.2 hi.2.1
        · exact writeBack_grid' _ _ h id (onGridE_of_same hact rfl rfl)
      · exact limit_flow_grid _ b _ _ id h hact

theorem cancel_grid (b : Book) (id : Nat) (h : Grid b) : Grid (b.cancelOrder id) := by
  unfold Book.cancelOrder
  split
  · exact h
  · rename_i e he
    split
    · intro x hx
      simp only [Book.setSide_orders, Book.setSide_tick] at hx ⊢
      have hmem : e ∈ b.orders := List.mem_of_getElem? he
      exact grid_set h id ({ e with order := { e.order with status := .cancelled, endt := b.t } })
        (onGridE_of_same (h e hmem) rfl rfl) x hx
    · exact h

theorem dequeue_grid (b : Book) (e : Entry) (h : Grid b) : Grid (b.dequeue e) := by
  intro x hx
  simp only [Book.dequeue_orders, Book.dequeue_tick] at hx ⊢
  exact h x hx

theorem modify_grid (b : Book) (id : Nat) (np nv : Option Nat) (h : Grid b) : Grid (b.modifyOrder id np nv) := by
  unfold Book.modifyOrder
  split
  · exact h
  · rename_i e he
    have hmem : e ∈ b.orders := List.mem_of_getElem? he
    split
    · exact h
    · rename_i hg
      split
      · have hrep : ∀ p v, (p = e.order.price ∨ p % b.tick = 0) → Grid (Book.writeBack (b.replaceOrder e p v) id) := by
          intro p v hp
          unfold Book.replaceOrder
          refine limit_flow_grid _ _ _ _ id (dequeue_grid b e h) ?_
          simp only [Book.dequeue_tick]
          rcases hp with hp | hp
          · exact onGridE_of_same (h e hmem) (by simp [hp]) rfl
          · right; simpa using hp
        unfold Book.modifyEntry
        split
        · exact writeBack_grid h id (h e hmem)
        · split
          · refine writeBack_grid ?_ id ?_
            · intro x hx
              simp only [Book.reduceOrderVol, Book.setSide_orders, Book.setSide_tick] at hx ⊢
              exact h x hx
            · simp only [Book.reduceOrderVol, Book.setSide_tick]
              exact onGridE_of_same (h e hmem) rfl rfl
          · exact hrep _ _ (Or.inl rfl)
        · rename_i p
          refine hrep p _ (Or.inr ?_)
          simpa [Book.offGrid] using hg
        · rename_i p v
          refine hrep p v (Or.inr ?_)
          simpa [Book.offGrid] using hg
      · exact h

theorem create_grid (b : Book) (sd : Side) (vol tr : Nat) (p : Option Nat) (h : Grid b) :
    Grid (b.createOrder sd vol tr p).1 := by
  unfold Book.createOrder
  split
  · rename_i pp
    split
    · exact h
    · rename_i hp
      intro x hx
      simp only [List.mem_append, List.mem_singleton] at hx
      rcases hx with hx | hx
      · exact h x hx
      · rw [hx]; right; simpa [Book.mkOrder] using hp
  · intro x hx
    simp only [List.mem_append, List.mem_singleton] at hx
    rcases hx with hx | hx
    · exact h x hx
    · rw [hx]; left; cases sd <;> simp [Book.isMarket, Book.mkOrder]

theorem create_tick (b : Book) (sd : Side) (vol tr : Nat) (p : Option Nat) : (b.createOrder sd vol tr p).1.tick = b.tick := by
  unfold Book.createOrder; split <;> (try split) <;> rfl

theorem place_tick (b : Book) (id : Nat) : (b.placeOrder id).tick = b.tick := by
  unfold Book.placeOrder
  split
  · rfl
  · split
    · rfl
    · simp only [Book.writeBack_tick, Book.placeEntry]
      split
      · simp only [Book.placeMarket]
        split
        · simp only [Book.cancelRemainder]
          split <;> exact (Book.matchLoop_frame _ _ _ _).2.1
        · rfl
      · simp only [Book.placeLimit]
        rw [(Book.restUnlessFilled_trades _ _ _).2.2.2.2.1]
        exact (Book.matchIfTrading_frame _ _ _).2.1

theorem cancel_tick (b : Book) (id : Nat) : (b.cancelOrder id).tick = b.tick := by
  unfold Book.cancelOrder
  split
  · rfl
  · split <;> simp

theorem modify_tick (b : Book) (id : Nat) (np nv : Option Nat) : (b.modifyOrder id np nv).tick = b.tick := by
  have hrep : ∀ (e : Entry) p v, (b.replaceOrder e p v).1.tick = b.tick := by
    intro e p v
    simp only [Book.replaceOrder]
    rw [(Book.restUnlessFilled_trades _ _ _).2.2.2.2.1, (Book.matchIfTrading_frame _ _ _).2.1]
    simp
  unfold Book.modifyOrder
  split
  · rfl
  · split
    · rfl
    · split
      · simp only [Book.writeBack_tick]
        unfold Book.modifyEntry
        split
        · rfl
        · split
          · simp [Book.reduceOrderVol]
          · exact hrep _ _ _
        · exact hrep _ _ _
        · exact hrep _ _ _
      · rfl

/-- The tick size never changes. -/
theorem step_tick (b : Book) (op : Op) : (b.step op).1.tick = b.tick := by
  cases op with
  | create sd vol tr p => exact create_tick b sd vol tr p
  | place id => exact place_tick b id
  | cap sd vol tr p =>
    simp only [Book.step, Book.createAndPlace]
    split
    · rw [place_tick, create_tick]
    · exact create_tick b sd vol tr p
  | cancel id => exact cancel_tick b id
  | modify id p v => exact modify_tick b id p v
  | ev e =>
    cases e with
    | new id => exact place_tick b id
    | cancel id => exact cancel_tick b id
    | modify id p v => exact modify_tick b id p v
  | time t => rfl
  | trading on => cases on <;> rfl
  | resetVol => rfl
  | reload =>
    simp only [Book.step]
    split
    · rfl
    · rfl

theorem run_tick (b : Book) (ops : List Op) : (b.run ops).tick = b.tick := by
  induction ops generalizing b with
  | nil => rfl
  | cons op rest ih => simp only [Book.run, List.foldl_cons] at ih ⊢; rw [ih, step_tick]

/-- **Every operation keeps every price on the grid** — with no hypothesis on the operation:
arbitrary creation prices (rejected when off the grid), arbitrary modify prices (ignored when off
the grid), any ids, any volumes. -/
theorem grid_step (b : Book) (op : Op) (h : Grid b) : Grid (b.step op).1 := by
  cases op with
  | create sd vol tr p => exact create_grid b sd vol tr p h
  | place id => exact place_grid b id h
  | cap sd vol tr p =>
    simp only [Book.step, Book.createAndPlace]
    split
    · exact place_grid _ _ (create_grid b sd vol tr p h)
    · exact create_grid b sd vol tr p h
  | cancel id => exact cancel_grid b id h
  | modify id p v => exact modify_grid b id p v h
  | ev e =>
    cases e with
    | new id => exact place_grid b id h
    | cancel id => exact cancel_grid b id h
    | modify id p v => exact modify_grid b id p v h
  | time t => exact h
  | trading on => cases on <;> exact h
  | resetVol => exact h
  | reload =>
    simp only [Book.step]
    split
    · exact h
    · exact h

theorem grid_run (b : Book) (ops : List Op) (h : Grid b) : Grid (b.run ops) := by
  induction ops generalizing b with
  | nil => exact h
  | cons op rest ih => simp only [Book.run, List.foldl_cons]; exact ih _ (grid_step b op h)

end Bourse
