/-
Placing a New order leaves it non-New; cancelling an Active order leaves it Cancelled at the book time.
Proved on the reference engine and transferred to the implementation model through the refinement.
With `lifecycle_run` (a terminal record never changes) this gives: an order an agent cancelled while it was
Active, or found not Active after its placement step, is never live again.
-/
import Bourse.Lemmas.RefineStep

namespace Bourse

theorem Ref.setQueue_orders (s : Ref.RState) (sd : Side) (q : List Nat) : (s.setQueue sd q).orders = s.orders := by
  cases sd <;> rfl

theorem Ref.matchQ_agg_ne_new (t : Nat) (q : List Nat) (st : Ref.MatchSt) (h : st.agg.status ≠ .new) :
    (Ref.matchQ t q st).2.agg.status ≠ .new ∧ (Ref.matchQ t q st).2.orders.length = st.orders.length := by
  fun_induction Ref.matchQ t q st with
  | case1 st => exact ⟨h, rfl⟩
  | case2 j q st hn => exact ⟨h, rfl⟩
  | case3 j q st pass hp hc fill pass1 pass' agg1 agg' tr st' hz ih =>
    have ha : agg'.status ≠ .new := by
      simp only [agg', agg1]; split
      · simp
      · exact h
    have := ih ha
    exact ⟨this.1, by rw [this.2]; simp [st']⟩
  | case4 j q st pass hp hc fill pass1 pass' agg1 agg' tr st' hz =>
    refine ⟨?_, by simp [st']⟩
    simp only [st', agg', agg1]; split
    · simp
    · exact h
  | case5 j q st pass hp hc => exact ⟨h, rfl⟩

theorem Ref.enter_status (s : Ref.RState) (agg : Order) (market : Bool) (h : agg.status ≠ .new) :
    (Ref.enter s agg market).2.status ≠ .new ∧ (Ref.enter s agg market).1.orders.length = s.orders.length := by
  unfold Ref.enter
  simp only []
  split
  · exact ⟨by simp, rfl⟩
  · by_cases ht : s.trading = true
    · simp only [ht, if_true]
      have hm := Ref.matchQ_agg_ne_new s.t (s.queue agg.side.opp)
        { orders := s.orders, trades := s.trades, tradeVol := s.tradeVol, agg := agg } h
      split
      · exact ⟨hm.1, hm.2⟩
      · split
        · exact ⟨by simp, hm.2⟩
        · refine ⟨hm.1, ?_⟩
          rw [Ref.setQueue_orders]; exact hm.2
    · simp only [ht, Bool.false_eq_true, if_false]
      split
      · exact ⟨h, rfl⟩
      · split
        · exact ⟨by simp, rfl⟩
        · refine ⟨h, ?_⟩
          rw [Ref.setQueue_orders]

/-- **Reference engine: placing a New order leaves it non-New.** -/
theorem Ref.place_not_new (s : Ref.RState) (id : Nat) (o : Order) (ho : s.orders[id]? = some o) (hn : o.status = .new) :
    ∃ o', (Ref.place s id).orders[id]? = some o' ∧ o'.status ≠ .new := by
  unfold Ref.place
  rw [ho]
  simp only [hn, ne_eq, not_true_eq_false, if_false]
  have he := Ref.enter_status s { o with status := .active, arr := s.t } (Book.isMarket o) (by simp)
  have hlt : id < s.orders.length := (List.getElem?_eq_some_iff.mp ho).1
  refine ⟨(Ref.enter s { o with status := .active, arr := s.t } (Book.isMarket o)).2, ?_, he.1⟩
  rw [List.getElem?_set_self (by rw [he.2]; exact hlt)]

/-- **Reference engine: cancelling an Active order makes it Cancelled at the book time.** -/
theorem Ref.cancel_active (s : Ref.RState) (id : Nat) (o : Order) (ho : s.orders[id]? = some o) (ha : o.status = .active) :
    (Ref.cancel s id).orders[id]? = some { o with status := .cancelled, endt := s.t } := by
  unfold Ref.cancel
  rw [ho]
  simp only [ha, if_true]
  have hlt : id < s.orders.length := (List.getElem?_eq_some_iff.mp ho).1
  rw [List.getElem?_set_self hlt]

/-- **Placing a New order leaves it non-New** (implementation model; any state satisfying the invariant). -/
theorem place_not_new {b : Book} (h : Inv b) (id : Nat) (e : Entry) (he : b.orders[id]? = some e)
    (hn : e.order.status = .new) (hnf : (b.step (.place id)).1.faulted = false) :
    ∃ e', (b.step (.place id)).1.orders[id]? = some e' ∧ e'.order.status ≠ .new := by
  have hr := (step_refines h (.place id) trivial hnf).1
  have ho : (abs b).orders[id]? = some e.order := by
    show (absOrders b.orders)[id]? = some e.order
    rw [absOrders_getElem?, he]; rfl
  obtain ⟨o', ho', hne⟩ := Ref.place_not_new (abs b) id e.order ho hn
  have : (abs (b.step (.place id)).1).orders[id]? = some o' := by rw [hr]; exact ho'
  have h2 : (absOrders (b.step (.place id)).1.orders)[id]? = some o' := this
  rw [absOrders_getElem?] at h2
  cases hx : (b.step (.place id)).1.orders[id]? with
  | none => rw [hx] at h2; simp at h2
  | some e' =>
    rw [hx] at h2
    simp only [Option.map_some, Option.some.injEq] at h2
    exact ⟨e', rfl, by rw [h2]; exact hne⟩

/-- **Cancelling an Active order makes it Cancelled, end-stamped with the book time.** -/
theorem cancel_active_final {b : Book} (h : Inv b) (id : Nat) (e : Entry) (he : b.orders[id]? = some e)
    (ha : e.order.status = .active) (hnf : (b.step (.cancel id)).1.faulted = false) :
    ∃ e', (b.step (.cancel id)).1.orders[id]? = some e' ∧ e'.order = { e.order with status := .cancelled, endt := b.t } := by
  have hr := (step_refines h (.cancel id) trivial hnf).1
  have ho : (abs b).orders[id]? = some e.order := by
    show (absOrders b.orders)[id]? = some e.order
    rw [absOrders_getElem?, he]; rfl
  have hc := Ref.cancel_active (abs b) id e.order ho ha
  have : (abs (b.step (.cancel id)).1).orders[id]? = some { e.order with status := .cancelled, endt := b.t } := by
    rw [hr]; exact hc
  have h2 : (absOrders (b.step (.cancel id)).1.orders)[id]? = some { e.order with status := .cancelled, endt := b.t } := this
  rw [absOrders_getElem?] at h2
  cases hx : (b.step (.cancel id)).1.orders[id]? with
  | none => rw [hx] at h2; simp at h2
  | some e' =>
    rw [hx] at h2
    simp only [Option.map_some, Option.some.injEq] at h2
    exact ⟨e', rfl, h2⟩

end Bourse
