/-
C12, last clause: "the published per-level data accounts for all resting volume within its range".

A statement about the recomputation oracle `Spec.Views` alone: when every resting price is a multiple
of the tick size (and within the price range), the volumes of the first `n` levels of a side add up
to exactly the resting volume of that side priced within `n` ticks of the touch — nothing in range is
missed (a level query that stepped by anything but the tick, or started anywhere but the touch, would
miss volume) and nothing is counted twice.
-/
import Bourse.Spec.Views

namespace Bourse
namespace Views

/-! ### Sums over filtered lists -/

def fsum (l : List Order) (p : Order → Bool) : Nat := ((l.filter p).map (·.vol)).sum

theorem fsum_nil (p : Order → Bool) : fsum [] p = 0 := rfl

theorem fsum_cons (o : Order) (l : List Order) (p : Order → Bool) :
    fsum (o :: l) p = (if p o then o.vol else 0) + fsum l p := by
  unfold fsum
  by_cases h : p o <;> simp [List.filter_cons, h]

theorem fsum_congr {l : List Order} {p q : Order → Bool} (h : ∀ o ∈ l, p o = q o) : fsum l p = fsum l q := by
  induction l with
  | nil => rfl
  | cons o l ih =>
    rw [fsum_cons, fsum_cons, h o List.mem_cons_self, ih (fun x hx => h x (List.mem_cons_of_mem _ hx))]

theorem fsum_false {l : List Order} {p : Order → Bool} (h : ∀ o ∈ l, p o = false) : fsum l p = 0 := by
  induction l with
  | nil => rfl
  | cons o l ih =>
    rw [fsum_cons, h o List.mem_cons_self, ih (fun x hx => h x (List.mem_cons_of_mem _ hx))]
    rfl

/-- Splitting a predicate into two disjoint ones splits the sum. -/
theorem fsum_split {l : List Order} {p q r : Order → Bool} (h : ∀ o ∈ l, r o = (p o || q o))
    (hd : ∀ o ∈ l, ¬ (p o = true ∧ q o = true)) : fsum l r = fsum l p + fsum l q := by
  induction l with
  | nil => rfl
  | cons o l ih =>
    rw [fsum_cons, fsum_cons, fsum_cons, ih (fun x hx => h x (List.mem_cons_of_mem _ hx))
      (fun x hx => hd x (List.mem_cons_of_mem _ hx)), h o List.mem_cons_self]
    have := hd o List.mem_cons_self
    cases hp : p o <;> cases hq : q o <;> simp [hp, hq] at this ⊢ <;> omega

theorem atPrice_fst (os : List Order) (sd : Side) (p : Nat) :
    (atPrice os sd p).1 = fsum (resting os sd) (fun o => decide (o.price = p)) := rfl

/-! ### The touch prices bound the resting prices and are grid prices -/

theorem foldl_min_le_init (l : List Order) (init : Nat) : l.foldl (fun m o => min m o.price) init ≤ init := by
  induction l generalizing init with
  | nil => exact Nat.le_refl _
  | cons o l ih => exact Nat.le_trans (ih _) (Nat.min_le_left _ _)

theorem foldl_min_le (l : List Order) (init : Nat) : ∀ o ∈ l, l.foldl (fun m o => min m o.price) init ≤ o.price := by
  induction l generalizing init with
  | nil => intro o h; cases h
  | cons a l ih =>
    intro o ho
    rcases List.mem_cons.mp ho with rfl | h
    · exact Nat.le_trans (foldl_min_le_init l _) (Nat.min_le_right _ _)
    · exact ih _ o h

theorem foldl_min_mem (l : List Order) (init : Nat) :
    l.foldl (fun m o => min m o.price) init = init ∨ ∃ o ∈ l, o.price = l.foldl (fun m o => min m o.price) init := by
  induction l generalizing init with
  | nil => exact Or.inl rfl
  | cons a l ih =>
    simp only [List.foldl_cons]
    rcases ih (min init a.price) with h | ⟨o, ho, h⟩
    · rw [h]
      by_cases hle : init ≤ a.price
      · exact Or.inl (Nat.min_eq_left hle)
      · exact Or.inr ⟨a, List.mem_cons_self, (Nat.min_eq_right (Nat.le_of_not_le hle)).symm⟩
    · exact Or.inr ⟨o, List.mem_cons_of_mem _ ho, h⟩

theorem init_le_foldl_max (l : List Order) (init : Nat) : init ≤ l.foldl (fun m o => max m o.price) init := by
  induction l generalizing init with
  | nil => exact Nat.le_refl _
  | cons o l ih => exact Nat.le_trans (Nat.le_max_left _ _) (ih _)

theorem le_foldl_max (l : List Order) (init : Nat) : ∀ o ∈ l, o.price ≤ l.foldl (fun m o => max m o.price) init := by
  induction l generalizing init with
  | nil => intro o h; cases h
  | cons a l ih =>
    intro o ho
    rcases List.mem_cons.mp ho with rfl | h
    · exact Nat.le_trans (Nat.le_max_right _ _) (init_le_foldl_max l _)
    · exact ih _ o h

theorem foldl_max_mem (l : List Order) (init : Nat) :
    l.foldl (fun m o => max m o.price) init = init ∨ ∃ o ∈ l, o.price = l.foldl (fun m o => max m o.price) init := by
  induction l generalizing init with
  | nil => exact Or.inl rfl
  | cons a l ih =>
    simp only [List.foldl_cons]
    rcases ih (max init a.price) with h | ⟨o, ho, h⟩
    · rw [h]
      by_cases hle : a.price ≤ init
      · exact Or.inl (Nat.max_eq_left hle)
      · exact Or.inr ⟨a, List.mem_cons_self, (Nat.max_eq_right (Nat.le_of_not_le hle)).symm⟩
    · exact Or.inr ⟨o, List.mem_cons_of_mem _ ho, h⟩

/-- Resting prices of a side are grid prices within the price range. -/
def OnGrid (os : List Order) (tick : Nat) (sd : Side) : Prop :=
  ∀ o ∈ resting os sd, o.price % tick = 0 ∧ o.price ≤ MAXP

theorem bestAsk_le (os : List Order) : ∀ o ∈ resting os .ask, bestAsk os ≤ o.price := foldl_min_le _ _

theorem le_bestBid (os : List Order) : ∀ o ∈ resting os .bid, o.price ≤ bestBid os := le_foldl_max _ _

/-- With a resting ask present the best ask is a grid price. -/
theorem bestAsk_grid {os : List Order} {tick : Nat} (hg : OnGrid os tick .ask) {o : Order} (ho : o ∈ resting os .ask) :
    bestAsk os % tick = 0 := by
  rcases foldl_min_mem (resting os .ask) MAXP with h | ⟨o', ho', h⟩
  · -- every resting price is ≥ MAXP and ≤ MAXP
    have h1 : bestAsk os ≤ o.price := bestAsk_le os o ho
    have h2 : bestAsk os = MAXP := h
    have h3 := (hg o ho).2
    have : o.price = bestAsk os := by omega
    rw [← this]; exact (hg o ho).1
  · have : bestAsk os = o'.price := h.symm
    rw [this]; exact (hg o' ho').1

theorem bestBid_grid {os : List Order} {tick : Nat} (hg : OnGrid os tick .bid) : bestBid os % tick = 0 := by
  rcases foldl_max_mem (resting os .bid) 0 with h | ⟨o', ho', h⟩
  · have : bestBid os = 0 := h
    rw [this]; exact Nat.zero_mod _
  · have : bestBid os = o'.price := h.symm
    rw [this]; exact (hg o' ho').1

/-- Two grid prices less than a tick apart (in the sense `a + i·τ ≤ p < a + (i+1)·τ`) pin `p`. -/
theorem grid_pin {tick a p i : Nat} (ht : 0 < tick) (ha : a % tick = 0) (hp : p % tick = 0)
    (h1 : a + i * tick ≤ p) (h2 : p < a + (i + 1) * tick) : p = a + i * tick := by
  obtain ⟨x, rfl⟩ := Nat.dvd_of_mod_eq_zero ha
  obtain ⟨y, rfl⟩ := Nat.dvd_of_mod_eq_zero hp
  have e1 : tick * x + i * tick = tick * (x + i) := by rw [Nat.mul_add, Nat.mul_comm i tick]
  have e2 : tick * x + (i + 1) * tick = tick * (x + i + 1) := by
    rw [Nat.mul_add, Nat.mul_add, Nat.mul_comm (i + 1) tick, Nat.mul_add, Nat.mul_one]; omega
  rw [e1] at h1 ⊢
  rw [e2] at h2
  have l1 : x + i ≤ y := Nat.le_of_mul_le_mul_left h1 ht
  have l2 : y < x + i + 1 := Nat.lt_of_mul_lt_mul_left h2
  have : y = x + i := by omega
  rw [this]

/-! ### Ask side -/

/-- Level `i` of the ask side holds exactly the resting ask volume priced in
`[best + i·tick, best + (i+1)·tick)`. -/
theorem ask_level_band {os : List Order} {tick : Nat} (ht : 0 < tick) (hg : OnGrid os tick .ask) (i : Nat) :
    (level os tick .ask i).1 =
      fsum (resting os .ask) (fun o => decide (bestAsk os + i * tick ≤ o.price) && decide (o.price < bestAsk os + (i + 1) * tick)) := by
  simp only [level]
  split
  · rw [atPrice_fst]
    apply fsum_congr
    intro o ho
    have hA := bestAsk_grid hg ho
    have ⟨hp, _⟩ := hg o ho
    by_cases h : o.price = bestAsk os + i * tick
    · have e : (i + 1) * tick = i * tick + tick := by rw [Nat.add_mul, Nat.one_mul]
      simp [h, e, ht]
    · have : ¬ (bestAsk os + i * tick ≤ o.price ∧ o.price < bestAsk os + (i + 1) * tick) :=
        fun ⟨h1, h2⟩ => h (grid_pin ht hA hp h1 h2)
      simp only [h, decide_false]
      rcases Nat.lt_or_ge o.price (bestAsk os + i * tick) with hlt | hge
      · simp [Nat.not_le.mpr hlt]
      · have : ¬ o.price < bestAsk os + (i + 1) * tick := fun h2 => this ⟨hge, h2⟩
        simp [this]
  · rename_i hout
    symm
    apply fsum_false
    intro o ho
    have := (hg o ho).2
    have : ¬ bestAsk os + i * tick ≤ o.price := by omega
    simp [this]

/-- **Ask levels account for all resting ask volume within `n` ticks of the best ask.** -/
theorem ask_levels_account {os : List Order} {tick : Nat} (ht : 0 < tick) (hg : OnGrid os tick .ask) (n : Nat) :
    ((levels os tick .ask n).map (·.1)).sum = volWithin os tick .ask n := by
  have hv : ∀ n, volWithin os tick .ask n = fsum (resting os .ask) (fun o => decide (o.price < bestAsk os + n * tick)) := fun _ => rfl
  induction n with
  | zero =>
    rw [hv]
    symm
    simp only [levels, List.range_zero, List.map_nil, List.sum_nil]
    apply fsum_false
    intro o ho
    have := bestAsk_le os o ho
    simp; omega
  | succ n ih =>
    simp only [levels, List.range_succ, List.map_append, List.map_cons, List.map_nil, List.sum_append, List.sum_cons,
      List.sum_nil, Nat.add_zero] at ih ⊢
    rw [show ((List.map (fun x => x.fst) (List.map (level os tick Side.ask) (List.range n))).sum) = volWithin os tick .ask n from ih,
      ask_level_band ht hg n, hv, hv]
    symm
    apply fsum_split
    · intro o ho
      have := bestAsk_le os o ho
      have e : bestAsk os + (n + 1) * tick = bestAsk os + n * tick + tick := by rw [Nat.add_mul, Nat.one_mul]; omega
      by_cases h1 : o.price < bestAsk os + n * tick
      · have : o.price < bestAsk os + (n + 1) * tick := by omega
        simp [h1, this]
      · by_cases h2 : o.price < bestAsk os + (n + 1) * tick
        · have : bestAsk os + n * tick ≤ o.price := by omega
          simp [h1, h2, this]
        · simp [h1, h2]
    · intro o _ ⟨h1, h2⟩
      simp only [Bool.and_eq_true, decide_eq_true_eq] at h1 h2
      omega

/-! ### Bid side -/

/-- Level `i` of the bid side holds exactly the resting bid volume priced in
`(best − (i+1)·tick, best − i·tick]`. -/
theorem bid_level_band {os : List Order} {tick : Nat} (ht : 0 < tick) (hg : OnGrid os tick .bid) (i : Nat) :
    (level os tick .bid i).1 =
      fsum (resting os .bid) (fun o => decide (o.price + i * tick ≤ bestBid os) && decide (bestBid os < o.price + (i + 1) * tick)) := by
  have hB := bestBid_grid hg
  simp only [level]
  split
  · rename_i hin
    rw [atPrice_fst]
    apply fsum_congr
    intro o ho
    have ⟨hp, _⟩ := hg o ho
    have hle := le_bestBid os o ho
    by_cases h : o.price = bestBid os - i * tick
    · have h1 : o.price + i * tick ≤ bestBid os := by omega
      have h2 : bestBid os < o.price + (i + 1) * tick := by rw [Nat.add_mul, Nat.one_mul]; omega
      simp [h, h1, h2]
      omega
    · have : ¬ (o.price + i * tick ≤ bestBid os ∧ bestBid os < o.price + (i + 1) * tick) := by
        intro ⟨h1, h2⟩
        have := grid_pin ht hp hB h1 h2
        omega
      simp only [h, decide_false]
      by_cases h1 : o.price + i * tick ≤ bestBid os
      · have : ¬ bestBid os < o.price + (i + 1) * tick := fun h2 => this ⟨h1, h2⟩
        simp [this]
      · simp [h1]
  · rename_i hout
    symm
    apply fsum_false
    intro o ho
    have : ¬ o.price + i * tick ≤ bestBid os := by omega
    simp [this]

/-- **Bid levels account for all resting bid volume within `n` ticks of the best bid.** -/
theorem bid_levels_account {os : List Order} {tick : Nat} (ht : 0 < tick) (hg : OnGrid os tick .bid) (n : Nat) :
    ((levels os tick .bid n).map (·.1)).sum = volWithin os tick .bid n := by
  have hv : ∀ n, volWithin os tick .bid n = fsum (resting os .bid) (fun o => decide (bestBid os < o.price + n * tick)) := fun _ => rfl
  induction n with
  | zero =>
    rw [hv]
    symm
    simp only [levels, List.range_zero, List.map_nil, List.sum_nil]
    apply fsum_false
    intro o ho
    have := le_bestBid os o ho
    simp; omega
  | succ n ih =>
    simp only [levels, List.range_succ, List.map_append, List.map_cons, List.map_nil, List.sum_append, List.sum_cons,
      List.sum_nil, Nat.add_zero] at ih ⊢
    rw [show ((List.map (fun x => x.fst) (List.map (level os tick Side.bid) (List.range n))).sum) = volWithin os tick .bid n from ih,
      bid_level_band ht hg n, hv, hv]
    symm
    apply fsum_split
    · intro o ho
      have e : o.price + (n + 1) * tick = o.price + n * tick + tick := by rw [Nat.add_mul, Nat.one_mul]; omega
      by_cases h1 : bestBid os < o.price + n * tick
      · have : bestBid os < o.price + (n + 1) * tick := by omega
        simp [h1, this]
      · by_cases h2 : bestBid os < o.price + (n + 1) * tick
        · have : o.price + n * tick ≤ bestBid os := by omega
          simp [h1, h2, this]
        · simp [h1, h2]
    · intro o _ ⟨h1, h2⟩
      simp only [Bool.and_eq_true, decide_eq_true_eq] at h1 h2
      omega

end Views
end Bourse
