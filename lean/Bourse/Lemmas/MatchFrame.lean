/-
What the match loop leaves alone: clock, tick size, trading flag, stamp counter, the aggressor's
own side of the book, the table length; and what it keeps of the aggressor's identity.
-/
import Bourse.Lemmas.Frame

namespace Bourse
namespace Book

theorem fillStep_frame (sd : Side) (b : Book) (e : Entry) (id : Nat) (m : Entry) :
    (fillStep sd b e id m).1.t = b.t ∧ (fillStep sd b e id m).1.tick = b.tick ∧
    (fillStep sd b e id m).1.trading = b.trading ∧ (fillStep sd b e id m).1.stamp = b.stamp ∧
    (fillStep sd b e id m).1.side sd = b.side sd ∧
    (fillStep sd b e id m).1.orders.length = b.orders.length ∧
    (fillStep sd b e id m).2.key = e.key := by
  simp [fillStep]
  cases sd <;> simp [setSide, side, Side.opp]

theorem matchOrders_ident (t : Nat) (a p : Order) :
    (matchOrders t a p).1.id = a.id ∧ (matchOrders t a p).1.side = a.side ∧
    (matchOrders t a p).1.trader = a.trader ∧ (matchOrders t a p).1.arr = a.arr ∧
    (matchOrders t a p).1.svol = a.svol ∧ (matchOrders t a p).1.price = a.price ∧
    (matchOrders t a p).2.1.id = p.id ∧ (matchOrders t a p).2.1.side = p.side ∧
    (matchOrders t a p).2.1.trader = p.trader ∧ (matchOrders t a p).2.1.arr = p.arr ∧
    (matchOrders t a p).2.1.svol = p.svol ∧ (matchOrders t a p).2.1.price = p.price := by
  simp only [matchOrders]
  refine ⟨?_, ?_, ?_, ?_, ?_, ?_, ?_, ?_, ?_, ?_, ?_, ?_⟩ <;> split <;> rfl

theorem fillStep_ident (sd : Side) (b : Book) (e : Entry) (id : Nat) (m : Entry) :
    (fillStep sd b e id m).2.order.id = e.order.id ∧ (fillStep sd b e id m).2.order.side = e.order.side ∧
    (fillStep sd b e id m).2.order.trader = e.order.trader ∧ (fillStep sd b e id m).2.order.arr = e.order.arr ∧
    (fillStep sd b e id m).2.order.svol = e.order.svol ∧ (fillStep sd b e id m).2.order.price = e.order.price := by
  have := matchOrders_ident b.t e.order m.order
  simp only [fillStep]
  exact ⟨this.1, this.2.1, this.2.2.1, this.2.2.2.1, this.2.2.2.2.1, this.2.2.2.2.2.1⟩

theorem matchLoop_frame (sd : Side) (fuel : Nat) (b : Book) (e : Entry) :
    (matchLoop sd fuel b e).1.t = b.t ∧ (matchLoop sd fuel b e).1.tick = b.tick ∧
    (matchLoop sd fuel b e).1.trading = b.trading ∧ (matchLoop sd fuel b e).1.stamp = b.stamp ∧
    (matchLoop sd fuel b e).1.side sd = b.side sd ∧
    (matchLoop sd fuel b e).1.orders.length = b.orders.length ∧
    (matchLoop sd fuel b e).2.key = e.key := by
  induction fuel generalizing b e with
  | zero => simp [matchLoop]; cases sd <;> rfl
  | succ fuel ih =>
    unfold matchLoop
    split
    · split
      · simp
      · split
        · simp; cases sd <;> rfl
        · rename_i _ id _ _ m _
          have h := fillStep_frame sd b e id m
          have := ih (fillStep sd b e id m).1 (fillStep sd b e id m).2
          refine ⟨by rw [this.1, h.1], by rw [this.2.1, h.2.1], by rw [this.2.2.1, h.2.2.1],
            by rw [this.2.2.2.1, h.2.2.2.1], by rw [this.2.2.2.2.1, h.2.2.2.2.1],
            by rw [this.2.2.2.2.2.1, h.2.2.2.2.2.1], by rw [this.2.2.2.2.2.2, h.2.2.2.2.2.2]⟩
    · simp

theorem matchLoop_ident (sd : Side) (fuel : Nat) (b : Book) (e : Entry) :
    (matchLoop sd fuel b e).2.order.id = e.order.id ∧ (matchLoop sd fuel b e).2.order.side = e.order.side ∧
    (matchLoop sd fuel b e).2.order.trader = e.order.trader ∧ (matchLoop sd fuel b e).2.order.arr = e.order.arr ∧
    (matchLoop sd fuel b e).2.order.svol = e.order.svol ∧ (matchLoop sd fuel b e).2.order.price = e.order.price := by
  induction fuel generalizing b e with
  | zero => simp [matchLoop]
  | succ fuel ih =>
    unfold matchLoop
    split
    · split
      · simp
      · split
        · simp
        · rename_i _ id _ _ m _
          have h := fillStep_ident sd b e id m
          have := ih (fillStep sd b e id m).1 (fillStep sd b e id m).2
          refine ⟨by rw [this.1, h.1], by rw [this.2.1, h.2.1], by rw [this.2.2.1, h.2.2.1],
            by rw [this.2.2.2.1, h.2.2.2.1], by rw [this.2.2.2.2.1, h.2.2.2.2.1],
            by rw [this.2.2.2.2.2, h.2.2.2.2.2]⟩
    · simp

theorem matchIfTrading_frame (sd : Side) (b : Book) (e : Entry) :
    (matchIfTrading sd b e).1.t = b.t ∧ (matchIfTrading sd b e).1.tick = b.tick ∧
    (matchIfTrading sd b e).1.trading = b.trading ∧ (matchIfTrading sd b e).1.stamp = b.stamp ∧
    (matchIfTrading sd b e).1.side sd = b.side sd ∧
    (matchIfTrading sd b e).1.orders.length = b.orders.length ∧
    (matchIfTrading sd b e).2.key = e.key := by
  unfold matchIfTrading matchSide
  split
  · exact matchLoop_frame _ _ _ _
  · simp

theorem matchIfTrading_ident (sd : Side) (b : Book) (e : Entry) :
    (matchIfTrading sd b e).2.order.id = e.order.id ∧ (matchIfTrading sd b e).2.order.side = e.order.side ∧
    (matchIfTrading sd b e).2.order.trader = e.order.trader ∧ (matchIfTrading sd b e).2.order.arr = e.order.arr ∧
    (matchIfTrading sd b e).2.order.svol = e.order.svol ∧ (matchIfTrading sd b e).2.order.price = e.order.price := by
  unfold matchIfTrading matchSide
  split
  · exact matchLoop_ident _ _ _ _
  · simp

end Book
end Bourse
