/-
Aggregates of a side's queue (per price key: total volume and order count; total volume), defined
from the queue list and the order table, and how they change under insertion / removal.
-/
import Bourse.Lemmas.SMapLemmas
import Bourse.Model.Book

namespace Bourse

/-- Remaining volume of order `id` according to the table. -/
def volOf (os : List Entry) (id : Nat) : Nat := ((os[id]?).map (·.order.vol)).getD 0

/-- Entries of a queue at price key `pk`. -/
def atKey (q : SMap (Nat × Nat) Nat) (pk : Nat) : List ((Nat × Nat) × Nat) := q.filter (fun e => e.1.1 = pk)

/-- (total volume, number of orders) queued at price key `pk`. -/
def aggAt (os : List Entry) (q : SMap (Nat × Nat) Nat) (pk : Nat) : Nat × Nat :=
  (((atKey q pk).map (fun e => volOf os e.2)).sum, (atKey q pk).length)

def totalVol (os : List Entry) (q : SMap (Nat × Nat) Nat) : Nat := (q.map (fun e => volOf os e.2)).sum

theorem atKey_perm {q q' : SMap (Nat × Nat) Nat} (h : q.Perm q') (pk : Nat) : (atKey q pk).Perm (atKey q' pk) :=
  h.filter _

theorem aggAt_perm (os : List Entry) {q q' : SMap (Nat × Nat) Nat} (h : q.Perm q') (pk : Nat) :
    aggAt os q pk = aggAt os q' pk := by
  have hp := atKey_perm h pk
  simp only [aggAt]
  rw [(hp.map _).sum_nat, hp.length_eq]

theorem totalVol_perm (os : List Entry) {q q' : SMap (Nat × Nat) Nat} (h : q.Perm q') :
    totalVol os q = totalVol os q' := (h.map _).sum_nat

theorem aggAt_cons (os : List Entry) (k : Nat × Nat) (id : Nat) (q : SMap (Nat × Nat) Nat) (pk : Nat) :
    aggAt os ((k, id) :: q) pk =
      if k.1 = pk then ((aggAt os q pk).1 + volOf os id, (aggAt os q pk).2 + 1) else aggAt os q pk := by
  simp only [aggAt, atKey, List.filter_cons]
  by_cases h : k.1 = pk
  · simp [h, Nat.add_comm]
  · simp [h]

theorem totalVol_cons (os : List Entry) (k : Nat × Nat) (id : Nat) (q : SMap (Nat × Nat) Nat) :
    totalVol os ((k, id) :: q) = volOf os id + totalVol os q := by
  simp [totalVol]

/-- Changing table entries that the queue does not mention changes no aggregate. -/
theorem aggAt_congr (os os' : List Entry) (q : SMap (Nat × Nat) Nat) (pk : Nat)
    (h : ∀ e ∈ q, volOf os' e.2 = volOf os e.2) : aggAt os' q pk = aggAt os q pk := by
  simp only [aggAt]
  congr 1
  congr 1
  apply List.map_congr_left
  intro e he
  exact h e (List.mem_filter.mp he).1

theorem totalVol_congr (os os' : List Entry) (q : SMap (Nat × Nat) Nat)
    (h : ∀ e ∈ q, volOf os' e.2 = volOf os e.2) : totalVol os' q = totalVol os q := by
  simp only [totalVol]
  congr 1
  exact List.map_congr_left h

theorem volOf_set_ne (os : List Entry) (i j : Nat) (e : Entry) (h : i ≠ j) : volOf (os.set i e) j = volOf os j := by
  simp [volOf, List.getElem?_set, h]

theorem volOf_set_self (os : List Entry) (i : Nat) (e : Entry) (h : i < os.length) :
    volOf (os.set i e) i = e.order.vol := by
  simp [volOf, List.getElem?_set, h]

/-- The total is the sum over price keys; in particular each per-key volume is at most the total. -/
theorem aggAt_le_total (os : List Entry) (q : SMap (Nat × Nat) Nat) (pk : Nat) : (aggAt os q pk).1 ≤ totalVol os q := by
  induction q with
  | nil => simp [aggAt, atKey, totalVol]
  | cons hd tl ih =>
    obtain ⟨k, id⟩ := hd
    rw [aggAt_cons, totalVol_cons]
    split
    · simp only; omega
    · omega

end Bourse
