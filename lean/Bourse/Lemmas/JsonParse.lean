/-
Whatever the reader accepts is balanced (by induction on its fuel), and therefore no strict prefix
of a written object is accepted.
-/
import Bourse.Lemmas.JsonRender

namespace Bourse
namespace Json

theorem isWs_plain {c : Char} (h : isWs c = true) : plain c := by
  unfold isWs at h
  simp only [Bool.or_eq_true, beq_iff_eq] at h
  rcases h with ((h | h) | h) | h <;> subst h <;> decide

theorem isDigit_plain {c : Char} (h : isDigit c = true) : plain c := by
  unfold isDigit at h
  simp only [Bool.and_eq_true, decide_eq_true_eq] at h
  refine ⟨?_, ?_, ?_, ?_, ?_⟩ <;> intro hc <;> subst hc <;> simp at h

theorem skipWs_spec (s : List Char) : ∃ w, s = w ++ skipWs s ∧ ∀ c ∈ w, plain c := by
  induction s with
  | nil => exact ⟨[], rfl, by simp⟩
  | cons c s ih =>
    unfold skipWs
    split
    · rename_i hc
      obtain ⟨w, hw, hp⟩ := ih
      refine ⟨c :: w, by rw [List.cons_append, ← hw], ?_⟩
      intro x hx
      rcases List.mem_cons.mp hx with rfl | hx
      · exact isWs_plain hc
      · exact hp x hx
    · exact ⟨[], rfl, by simp⟩

/-- Splitting off leading whitespace: `s = w ++ rest` with `w` balanced, whenever `skipWs s = rest`. -/
theorem skipWs_eq {s rest : List Char} (h : skipWs s = rest) : ∃ w, s = w ++ rest ∧ Bal w := by
  obtain ⟨w, hw, hp⟩ := skipWs_spec s
  exact ⟨w, by rw [← h]; exact hw, fun d => scan_plain d w hp⟩

theorem parseStr_spec : ∀ (r x r' : List Char), parseStr r = some (x, r') → r = x ++ '"' :: r' ∧ '"' ∉ x := by
  intro r
  induction r with
  | nil => intro x r' h; simp [parseStr] at h
  | cons c r ih =>
    intro x r' h
    unfold parseStr at h
    split at h
    · rename_i hc
      injection h with h; injection h with h1 h2
      subst h1 h2 hc
      exact ⟨rfl, by simp⟩
    · rename_i hc
      split at h
      · cases h
      · split at h
        · cases h
        · split at h
          · rename_i y r'' hy
            injection h with h; injection h with h1 h2
            subst h1 h2
            obtain ⟨h3, h4⟩ := ih y _ hy
            refine ⟨by rw [h3]; rfl, ?_⟩
            intro hm
            rcases List.mem_cons.mp hm with h5 | h5
            · exact hc h5.symm
            · exact h4 h5
          · cases h

theorem bal_str {x : List Char} (h : '"' ∉ x) : Bal ('"' :: x ++ ['"']) := by
  have := (good_quote h).1
  unfold quote at this
  exact this

theorem spanDigits_spec (s : List Char) :
    s = (spanDigits s).1 ++ (spanDigits s).2 ∧ ∀ c ∈ (spanDigits s).1, plain c := by
  induction s with
  | nil => simp [spanDigits]
  | cons c s ih =>
    unfold spanDigits
    split
    · rename_i hc
      refine ⟨by simp only [List.cons_append]; rw [← ih.1], ?_⟩
      intro x hx
      rcases List.mem_cons.mp hx with rfl | hx
      · exact isDigit_plain hc
      · exact ih.2 x hx
    · simp

theorem parseNum_spec {s : List Char} {n : Nat} {r : List Char} (h : parseNum s = some (n, r)) :
    ∃ ds, s = ds ++ r ∧ Bal ds := by
  have hs := spanDigits_spec s
  refine ⟨(spanDigits s).1, ?_, fun d => scan_plain d _ hs.2⟩
  have hr : r = (spanDigits s).2 := by
    unfold parseNum at h
    split at h
    · cases h
    · split at h
      · injection h with h; injection h with _ h2; exact h2.symm
      · cases h
    · cases h
    · split at h
      · injection h with h; injection h with _ h2; exact h2.symm
      · cases h
  rw [hr]; exact hs.1

theorem dropLit_spec {l s r : List Char} (h : dropLit l s = some r) : s = l ++ r := by
  unfold dropLit at h
  split at h
  · rename_i hp
    injection h with h
    have hp' : l <+: s := List.isPrefixOf_iff_prefix.mp hp
    obtain ⟨t, ht⟩ := hp'
    subst ht
    simp at h
    rw [h]
  · cases h

theorem bal_cons_plain {c : Char} {w : List Char} (hc : plain c) (hw : Bal w) : Bal (c :: w) := by
  intro d; rw [scan_cons, stepI_plain d c hc]; exact hw d

/-- Scanning `c` takes depth `d` to `d - 1` (an unmatched closing bracket at the end). -/
def Closes (c : List Char) : Prop := ∀ d : Int, scan (d, false) c = (d - 1, false)

theorem closes_of_bal_close {w : List Char} (hw : Bal w) (c : Char) (hc : c = '}' ∨ c = ']') : Closes (w ++ [c]) := by
  intro d
  rw [scan_append, hw d]
  rcases hc with rfl | rfl <;> simp [stepI]

theorem closes_append {a b : List Char} (ha : Bal a) (hb : Closes b) : Closes (a ++ b) := by
  intro d; rw [scan_append, ha d, hb d]

theorem bal_open_closes {w : List Char} (o : Char) (ho : o = '{' ∨ o = '[') (hw : Closes w) : Bal (o :: w) := by
  intro d
  rw [scan_cons]
  have : stepI (d, false) o = (d + 1, false) := by rcases ho with rfl | rfl <;> simp [stepI]
  rw [this, hw (d + 1)]
  simp

theorem parse_parts (fuel : Nat) :
    (∀ s v r, parseValue fuel s = some (v, r) → ∃ c, s = c ++ r ∧ Bal c) ∧
    (∀ s vs r, parseElems fuel s = some (vs, r) → ∃ c, s = c ++ r ∧ Closes c) ∧
    (∀ s ms r, parseMembers fuel s = some (ms, r) → ∃ c, s = c ++ r ∧ Closes c) := by
  induction fuel with
  | zero =>
    refine ⟨?_, ?_, ?_⟩ <;> intro s v r h
    · simp [parseValue] at h
    · simp [parseElems] at h
    · simp [parseMembers] at h
  | succ fuel ih =>
    obtain ⟨ihV, ihE, ihM⟩ := ih
    refine ⟨?_, ?_, ?_⟩
    · intro s v r h
      unfold parseValue at h
      split at h
      · cases h
      · rename_i c0 r0 hsk
        obtain ⟨w, hw, hbw⟩ := skipWs_eq hsk
        -- every branch: s = w ++ c0 :: (consumed) ++ r
        split at h
        · -- string
          rename_i hc
          split at h
          · rename_i x r' hx
            injection h with h; injection h with _ h2; subst h2
            obtain ⟨h3, h4⟩ := parseStr_spec _ _ _ hx
            refine ⟨w ++ ('"' :: x ++ ['"']), ?_, bal_append hbw (bal_str h4)⟩
            rw [hw, hc, h3]; simp
          · cases h
        · split at h
          · -- true
            rename_i hc
            split at h
            · rename_i r' hx
              injection h with h; injection h with _ h2; subst h2
              have := dropLit_spec hx
              refine ⟨w ++ ('t' :: lit "rue"), ?_, bal_append hbw (fun d => scan_plain d _ (by decide))⟩
              rw [hw, hc, this]; simp
            · cases h
          · split at h
            · -- false
              rename_i hc
              split at h
              · rename_i r' hx
                injection h with h; injection h with _ h2; subst h2
                have := dropLit_spec hx
                refine ⟨w ++ ('f' :: lit "alse"), ?_, bal_append hbw (fun d => scan_plain d _ (by decide))⟩
                rw [hw, hc, this]; simp
              · cases h
            · split at h
              · -- array
                rename_i hc
                split at h
                · rename_i r' hsk2
                  injection h with h; injection h with _ h2; subst h2
                  obtain ⟨w2, hw2, hbw2⟩ := skipWs_eq hsk2
                  refine ⟨w ++ ('[' :: (w2 ++ [']'])), ?_, bal_append hbw (bal_open_closes '[' (Or.inr rfl) (closes_of_bal_close hbw2 ']' (Or.inr rfl)))⟩
                  rw [hw, hc, hw2]; simp
                · split at h
                  · rename_i vs r' hx
                    injection h with h; injection h with _ h2; subst h2
                    obtain ⟨c, hc2, hcl⟩ := ihE _ _ _ hx
                    refine ⟨w ++ ('[' :: c), ?_, bal_append hbw (bal_open_closes '[' (Or.inr rfl) hcl)⟩
                    rw [hw, hc, hc2]; simp
                  · cases h
              · split at h
                · -- object
                  rename_i hc
                  split at h
                  · rename_i r' hsk2
                    injection h with h; injection h with _ h2; subst h2
                    obtain ⟨w2, hw2, hbw2⟩ := skipWs_eq hsk2
                    refine ⟨w ++ ('{' :: (w2 ++ ['}'])), ?_, bal_append hbw (bal_open_closes '{' (Or.inl rfl) (closes_of_bal_close hbw2 '}' (Or.inl rfl)))⟩
                    rw [hw, hc, hw2]; simp
                  · split at h
                    · rename_i ms r' hx
                      injection h with h; injection h with _ h2; subst h2
                      obtain ⟨c, hc2, hcl⟩ := ihM _ _ _ hx
                      refine ⟨w ++ ('{' :: c), ?_, bal_append hbw (bal_open_closes '{' (Or.inl rfl) hcl)⟩
                      rw [hw, hc, hc2]; simp
                    · cases h
                · split at h
                  · -- number
                    split at h
                    · rename_i n r' hx
                      injection h with h; injection h with _ h2; subst h2
                      obtain ⟨ds, hds, hbd⟩ := parseNum_spec hx
                      refine ⟨w ++ ds, ?_, bal_append hbw hbd⟩
                      rw [hw, hds]; simp
                    · cases h
                  · cases h
    · intro s vs r h
      unfold parseElems at h
      split at h
      · cases h
      · rename_i v r1 hv
        obtain ⟨c1, hc1, hb1⟩ := ihV _ _ _ hv
        split at h
        · rename_i c2 r2 hsk
          obtain ⟨w, hw, hbw⟩ := skipWs_eq hsk
          split at h
          · rename_i hcomma
            split at h
            · rename_i vs' r3 hx
              injection h with h; injection h with _ h2; subst h2
              obtain ⟨c3, hc3, hcl⟩ := ihE _ _ _ hx
              refine ⟨c1 ++ (w ++ (',' :: c3)), ?_, closes_append hb1 (closes_append hbw ?_)⟩
              · rw [hc1, hw, hcomma, hc3]; simp
              · intro d; rw [scan_cons, stepI_plain d ',' (by decide)]; exact hcl d
            · cases h
          · split at h
            · rename_i hclose
              injection h with h; injection h with _ h2; subst h2
              refine ⟨c1 ++ (w ++ [']']), ?_, closes_append hb1 (closes_of_bal_close hbw ']' (Or.inr rfl))⟩
              rw [hc1, hw, hclose]; simp
            · cases h
        · cases h
    · intro s ms r h
      unfold parseMembers at h
      split at h
      · rename_i c0 r0 hsk0
        obtain ⟨w0, hw0, hbw0⟩ := skipWs_eq hsk0
        split at h
        · rename_i hq
          split at h
          · cases h
          · rename_i k r1 hk
            obtain ⟨hk1, hk2⟩ := parseStr_spec _ _ _ hk
            split at h
            · rename_i c2 r2 hsk2
              obtain ⟨w2, hw2, hbw2⟩ := skipWs_eq hsk2
              split at h
              · rename_i hcolon
                split at h
                · cases h
                · rename_i v r3 hv
                  obtain ⟨c3, hc3, hb3⟩ := ihV _ _ _ hv
                  split at h
                  · rename_i c4 r4 hsk4
                    obtain ⟨w4, hw4, hbw4⟩ := skipWs_eq hsk4
                    have hpre : Bal (w0 ++ (('"' :: k ++ ['"']) ++ (w2 ++ (':' :: (c3 ++ w4))))) :=
                      bal_append hbw0 (bal_append (bal_str hk2) (bal_append hbw2
                        (bal_cons_plain (by decide) (bal_append hb3 hbw4))))
                    split at h
                    · rename_i hcomma
                      split at h
                      · rename_i ms' r5 hx
                        injection h with h; injection h with _ h2; subst h2
                        obtain ⟨c5, hc5, hcl⟩ := ihM _ _ _ hx
                        refine ⟨(w0 ++ (('"' :: k ++ ['"']) ++ (w2 ++ (':' :: (c3 ++ w4))))) ++ (',' :: c5), ?_,
                          closes_append hpre ?_⟩
                        · rw [hw0, hq, hk1, hw2, hcolon, hc3, hw4, hcomma, hc5]; simp
                        · intro d; rw [scan_cons, stepI_plain d ',' (by decide)]; exact hcl d
                      · cases h
                    · split at h
                      · rename_i hclose
                        injection h with h; injection h with _ h2; subst h2
                        refine ⟨(w0 ++ (('"' :: k ++ ['"']) ++ (w2 ++ (':' :: (c3 ++ w4))))) ++ ['}'], ?_,
                          closes_of_bal_close hpre '}' (Or.inl rfl)⟩
                        rw [hw0, hq, hk1, hw2, hcolon, hc3, hw4, hclose]; simp
                      · cases h
                  · cases h
              · cases h
            · cases h
        · cases h
      · cases h

/-- **Accepted texts are balanced.** -/
theorem parse_balanced {s : List Char} {v : J} (h : parse s = some v) : scan (0, false) s = (0, false) := by
  unfold parse at h
  split at h
  · rename_i v' r hv
    split at h
    · rename_i hr
      obtain ⟨c, hc, hb⟩ := (parse_parts _).1 _ _ _ hv
      obtain ⟨w, hw, hbw⟩ := skipWs_eq hr
      rw [hc, hw, scan_append, hb 0, List.append_nil, hbw 0]
    · cases h
  · cases h

/-- **A written object cut short anywhere is rejected.** For every text of the form
`'{' :: w ++ ['}']` with `w` good — every object either writer produces — no strict prefix is
accepted by the reader. -/
theorem prefix_rejected_of_good {w : List Char} (hw : Good w) (p : List Char)
    (hp : p <+: '{' :: w ++ ['}']) (hne : p ≠ '{' :: w ++ ['}']) : parse p = none := by
  cases hpar : parse p with
  | none => rfl
  | some v =>
    exfalso
    have hb := parse_balanced hpar
    by_cases hnil : p = []
    · subst hnil; simp [parse, parseValue, skipWs] at hpar
    · have := wrap_prefix_depth hw '{' '}' (Or.inl rfl) p hp hne hnil
      rw [hb] at this
      simp at this

end Json
end Bourse
