/-
The Durstenfeld shuffle as a function of its draws (C15): the real `shuffle` is `shuffleDraws` on
the generator's bounded draws, and on a list without duplicates different valid draw vectors give
different orders.
-/
import Bourse.Model.Rng

namespace Bourse

/-- The shuffle loop with the draws given explicitly (head = the draw for the highest index). -/
def shuffleDraws {α} : Nat → List α → List Nat → List α
  | 0, l, _ => l
  | _ + 1, l, [] => l
  | i + 1, l, d :: ds => shuffleDraws i (Xoro.swap l (i + 1) d) ds

/-- All valid draw vectors for a loop starting at index `i`: the draw for index `k` is `≤ k`. -/
def validDraws : Nat → List (List Nat)
  | 0 => [[]]
  | i + 1 => (List.range (i + 2)).flatMap fun d => (validDraws i).map (d :: ·)

theorem mem_validDraws_succ {i : Nat} {ds : List Nat} :
    ds ∈ validDraws (i + 1) ↔ ∃ d r, ds = d :: r ∧ d < i + 2 ∧ r ∈ validDraws i := by
  simp only [validDraws, List.mem_flatMap, List.mem_range, List.mem_map]
  constructor
  · rintro ⟨d, hd, r, hr, rfl⟩; exact ⟨d, r, rfl, hd, hr⟩
  · rintro ⟨d, r, rfl, hd, hr⟩; exact ⟨d, hd, r, hr, rfl⟩

theorem accept_lt' (range v k : Nat) (hv : v < 4294967296) (hr : 0 < range)
    (h : Xoro.accept range v = some k) : k < range := by
  simp only [Xoro.accept] at h
  split at h
  · injection h with h; subst h
    apply Nat.div_lt_of_lt_mul
    exact Nat.mul_lt_mul_of_pos_right hv hr
  · simp at h

theorem genRange_lt' (range fuel : Nat) (g : Xoro) (k : Nat) (g' : Xoro) (hr : 0 < range)
    (h : Xoro.genRange range fuel g = some (k, g')) : k < range := by
  induction fuel generalizing g with
  | zero => simp [Xoro.genRange] at h
  | succ fuel ih =>
    simp only [Xoro.genRange] at h
    split at h
    · rename_i k' hk
      injection h with h; injection h with h1 _; subst h1
      refine accept_lt' range g.next32.1 _ ?_ hr hk
      simp only [Xoro.next32]; exact Nat.mod_lt _ (by decide)
    · exact ih _ h

/-- **The real shuffle is `shuffleDraws` on bounded draws.** Whatever the generator state, the
outcome of `shuffleFrom i` is the outcome of the explicit-draw loop on some valid draw vector. -/
theorem shuffleFrom_draws {α} (i : Nat) (l : List α) (g : Xoro) (l' : List α) (g' : Xoro)
    (h : Xoro.shuffleFrom i l g = some (l', g')) : ∃ ds ∈ validDraws i, l' = shuffleDraws i l ds := by
  induction i generalizing l g with
  | zero =>
    simp only [Xoro.shuffleFrom] at h
    injection h with h; injection h with h1 _
    exact ⟨[], by simp [validDraws], by rw [← h1]; rfl⟩
  | succ i ih =>
    unfold Xoro.shuffleFrom at h
    split at h
    · cases h
    · rename_i j g1 hj
      obtain ⟨r, hr, hl'⟩ := ih _ _ h
      have hlt := genRange_lt' (i + 2) Xoro.FUEL g j g1 (by omega) hj
      exact ⟨j :: r, mem_validDraws_succ.mpr ⟨j, r, rfl, hlt, hr⟩, by rw [hl']; rfl⟩

/-! ### Positions -/

theorem swap_getElem?_of_ne {α} (l : List α) (i j k : Nat) (h1 : k ≠ i) (h2 : k ≠ j) :
    (Xoro.swap l i j)[k]? = l[k]? := by
  unfold Xoro.swap
  split
  · simp [List.getElem?_set, Ne.symm h1, Ne.symm h2]
  · rfl

theorem swap_getElem?_left {α} (l : List α) (i j : Nat) (hi : i < l.length) (hj : j < l.length) :
    (Xoro.swap l i j)[i]? = l[j]? := by
  unfold Xoro.swap
  rw [List.getElem?_eq_getElem hi, List.getElem?_eq_getElem hj]
  simp only
  by_cases hij : j = i
  · subst hij; simp [List.getElem?_set, hi]
  · simp [List.getElem?_set, hij, hi]

theorem swap_length' {α} (l : List α) (i j : Nat) : (Xoro.swap l i j).length = l.length := by
  unfold Xoro.swap
  split <;> simp

theorem swap_perm' {α} (l : List α) (i j : Nat) : (Xoro.swap l i j).Perm l := by
  unfold Xoro.swap
  split
  · rename_i a b hi hj
    obtain ⟨hi', rfl⟩ := List.getElem?_eq_some_iff.mp hi
    obtain ⟨hj', rfl⟩ := List.getElem?_eq_some_iff.mp hj
    exact List.set_set_perm hi' hj'
  · exact List.Perm.refl _

theorem shuffleDraws_perm {α} (i : Nat) (l : List α) (ds : List Nat) : (shuffleDraws i l ds).Perm l := by
  induction i generalizing l ds with
  | zero => exact List.Perm.refl _
  | succ i ih =>
    cases ds with
    | nil => exact List.Perm.refl _
    | cons d ds => exact (ih _ _).trans (swap_perm' _ _ _)

/-- Positions above the loop's starting index are never touched. -/
theorem shuffleDraws_above {α} (i : Nat) (l : List α) (ds : List Nat) (hds : ds ∈ validDraws i) (k : Nat) (hk : i < k) :
    (shuffleDraws i l ds)[k]? = l[k]? := by
  induction i generalizing l ds with
  | zero => rfl
  | succ i ih =>
    obtain ⟨d, r, rfl, hd, hr⟩ := mem_validDraws_succ.mp hds
    simp only [shuffleDraws]
    rw [ih _ _ hr (by omega)]
    exact swap_getElem?_of_ne l (i + 1) d k (by omega) (by omega)

/-- **Different draws, different orders.** On a list without duplicates the explicit-draw loop is
injective on valid draw vectors. -/
theorem shuffleDraws_injective {α} (i : Nat) (l : List α) (hn : l.Nodup) (hlen : i < l.length)
    (ds ds' : List Nat) (hds : ds ∈ validDraws i) (hds' : ds' ∈ validDraws i)
    (heq : shuffleDraws i l ds = shuffleDraws i l ds') : ds = ds' := by
  induction i generalizing l ds ds' with
  | zero =>
    simp only [validDraws, List.mem_singleton] at hds hds'
    rw [hds, hds']
  | succ i ih =>
    obtain ⟨d, r, rfl, hd, hr⟩ := mem_validDraws_succ.mp hds
    obtain ⟨d', r', rfl, hd', hr'⟩ := mem_validDraws_succ.mp hds'
    simp only [shuffleDraws] at heq
    -- the element that ends at position i+1 is the drawn one
    have h1 : (shuffleDraws i (Xoro.swap l (i + 1) d) r)[i + 1]? = l[d]? := by
      rw [shuffleDraws_above _ _ _ hr (i + 1) (by omega)]
      exact swap_getElem?_left l (i + 1) d hlen (by omega)
    have h2 : (shuffleDraws i (Xoro.swap l (i + 1) d') r')[i + 1]? = l[d']? := by
      rw [shuffleDraws_above _ _ _ hr' (i + 1) (by omega)]
      exact swap_getElem?_left l (i + 1) d' hlen (by omega)
    rw [heq, h2] at h1
    have hdd : d' = d := ((List.getElem?_inj (by omega) hn).mp h1)
    subst hdd
    have hsw : (Xoro.swap l (i + 1) d').Nodup := (swap_perm' l (i + 1) d').nodup_iff.mpr hn
    have := ih (Xoro.swap l (i + 1) d') hsw (by rw [swap_length']; omega) r r' hr hr' heq
    rw [this]

end Bourse
