/-
C02, last clause: as long as trading has never been disabled, the book is never crossed.
Proved on the reference engine (the queues are id lists) and transferred through the refinement.
-/
import Bourse.Lemmas.RefLedgerStep
import Bourse.Lemmas.QueueOrder

namespace Bourse

/-- No resting order of one side is admitted by the limit of a resting order of the other side
(for `sd = bid`: every bid price is strictly below every ask price). -/
def RUncrossed (s : Ref.RState) : Prop :=
  ∀ (sd : Side) (i j : Nat), i ∈ s.queue sd → j ∈ s.queue sd.opp →
    Ref.admits sd (Ref.priceOf s.orders i) (Ref.priceOf s.orders j) = false

/-- Each queue is sorted by price (nearer the head = better or equal). -/
def RSorted (s : Ref.RState) : Prop :=
  ∀ sd, (s.queue sd).Pairwise (fun i j => Ref.ahead sd (Ref.priceOf s.orders i) (Ref.priceOf s.orders j) = true)

theorem rsorted_abs {b : Book} (h : Inv b) : RSorted (abs b) := by
  intro sd; rw [abs_queue]; exact queue_price_sorted h sd

theorem queue_setQueue (s : Ref.RState) (sd sd' : Side) (q : List Nat) :
    (s.setQueue sd q).queue sd' = if sd' = sd then q else s.queue sd' := by
  cases sd <;> cases sd' <;> simp [Ref.RState.setQueue, Ref.RState.queue]

theorem mem_enqueue (os : List Order) (sd : Side) (q : List Nat) (id p j : Nat) :
    j ∈ Ref.enqueue os sd q id p ↔ j = id ∨ j ∈ q := by
  have h := List.takeWhile_append_dropWhile (p := fun j => Ref.ahead sd (Ref.priceOf os j) p) (l := q)
  constructor
  · intro hj
    simp only [Ref.enqueue, List.mem_append, List.mem_cons] at hj
    rcases hj with hj | hj | hj
    · right; rw [← h]; exact List.mem_append_left _ hj
    · left; exact hj
    · right; rw [← h]; exact List.mem_append_right _ hj
  · intro hj
    simp only [Ref.enqueue, List.mem_append, List.mem_cons]
    rcases hj with hj | hj
    · right; left; exact hj
    · rw [← h] at hj
      rcases List.mem_append.mp hj with hj | hj
      · left; exact hj
      · right; right; exact hj

/-- Why the reference loop stops: the aggressor is exhausted, or the queue is, or the head of what is
left is not admitted by the aggressor's limit. -/
theorem matchQ_stops (t : Nat) (q : List Nat) (st : Ref.MatchSt)
    (hq : ∀ j ∈ q, ∃ o, st.orders[j]? = some o) (hnd : q.Nodup) :
    (Ref.matchQ t q st).2.agg.vol = 0 ∨ (Ref.matchQ t q st).1 = [] ∨
      ∃ j rest o, (Ref.matchQ t q st).1 = j :: rest ∧ st.orders[j]? = some o ∧
        Ref.admits st.agg.side st.agg.price o.price = false := by
  induction q generalizing st with
  | nil => right; left; simp [Ref.matchQ]
  | cons j q ih =>
    obtain ⟨pass, hpass⟩ := hq j List.mem_cons_self
    have hnd' := List.nodup_cons.mp hnd
    by_cases hcond : (decide (st.agg.vol > 0) && Ref.admits st.agg.side st.agg.price pass.price) = true
    · let fill := min st.agg.vol pass.vol
      let pass1 : Order := { pass with vol := pass.vol - fill }
      let pass' : Order := if pass1.vol = 0 then { pass1 with status := .filled, endt := t } else pass1
      let agg1 : Order := { st.agg with vol := st.agg.vol - fill }
      let agg' : Order := if agg1.vol = 0 then { agg1 with status := .filled, endt := t } else agg1
      let tr : Trade := { t := t, side := pass.side, price := pass.price, vol := fill, active := st.agg.id, passive := pass.id }
      let st' : Ref.MatchSt := { orders := st.orders.set j pass', trades := st.trades ++ [tr],
                                 tradeVol := st.tradeVol + fill, agg := agg' }
      have hunf : Ref.matchQ t (j :: q) st = if pass'.vol = 0 then Ref.matchQ t q st' else (j :: q, st') := by
        simp only [Ref.matchQ, hpass, hcond, if_true]
        rfl
      have hagg'v : agg'.vol = st.agg.vol - fill := by simp only [agg', agg1]; split <;> rfl
      have hagg's : agg'.side = st.agg.side ∧ agg'.price = st.agg.price := by
        simp only [agg', agg1]; split <;> exact ⟨rfl, rfl⟩
      have hpass'v : pass'.vol = pass.vol - fill := by simp only [pass', pass1]; split <;> rfl
      by_cases hz : pass'.vol = 0
      · rw [hunf, if_pos hz]
        have hq' : ∀ j' ∈ q, ∃ o, st'.orders[j']? = some o := by
          intro j' hj'
          obtain ⟨o, ho⟩ := hq j' (List.mem_cons_of_mem _ hj')
          have hne : j ≠ j' := fun h => hnd'.1 (h ▸ hj')
          exact ⟨o, by simp [st', List.getElem?_set, hne, ho]⟩
        rcases ih st' hq' hnd'.2 with h | h | ⟨j', rest, o, h1, h2, h3⟩
        · left; exact h
        · right; left; exact h
        · right; right
          have hmem : j' ∈ q := by
            obtain ⟨pre, hpre⟩ := Props_prefix t q st'
            rw [hpre]; rw [h1]; simp
          have hne : j ≠ j' := fun h => hnd'.1 (h ▸ hmem)
          refine ⟨j', rest, o, h1, by simpa [st', List.getElem?_set, hne] using h2, ?_⟩
          simp only [st'] at h3; rw [hagg's.1, hagg's.2] at h3; exact h3
      · rw [hunf, if_neg hz]
        left
        simp only [st']
        rw [hagg'v]
        have : pass.vol - fill ≠ 0 := by rw [← hpass'v]; exact hz
        simp only [fill] at this ⊢
        omega
    · have heq : Ref.matchQ t (j :: q) st = (j :: q, st) := by
        simp only [Ref.matchQ, hpass]
        simp only [hcond, Bool.false_eq_true, if_false]
      rw [heq]
      simp only [Bool.and_eq_true, decide_eq_true_eq, not_and] at hcond
      by_cases hv : st.agg.vol > 0
      · right; right
        exact ⟨j, q, pass, rfl, hpass, by simpa using hcond hv⟩
      · left; simp only; omega
where
  Props_prefix (t : Nat) (q : List Nat) (st : Ref.MatchSt) : ∃ pre, q = pre ++ (Ref.matchQ t q st).1 := by
    induction q generalizing st with
    | nil => exact ⟨[], rfl⟩
    | cons j q ih =>
      unfold Ref.matchQ
      split
      · exact ⟨[], rfl⟩
      · split
        · simp only
          split
          · obtain ⟨pre, hpre⟩ := ih _
            exact ⟨j :: pre, by rw [List.cons_append, ← hpre]⟩
          · exact ⟨[], rfl⟩
        · exact ⟨[], rfl⟩

end Bourse

namespace Bourse

theorem side_ne_opp (sd : Side) : sd ≠ sd.opp := by cases sd <;> simp [Side.opp]

/-- The two queues, the table and the entrant's record after `enter`, while trading is enabled. -/
theorem enter_queues (s : Ref.RState) (agg : Order) (market : Bool) (ht : s.trading = true) :
    (Ref.enter s agg market).1.queue agg.side.opp =
      (Ref.matchQ s.t (s.queue agg.side.opp) { orders := s.orders, trades := s.trades, tradeVol := s.tradeVol, agg := agg }).1 ∧
    (Ref.enter s agg market).1.queue agg.side =
      (if (Ref.matchQ s.t (s.queue agg.side.opp) { orders := s.orders, trades := s.trades, tradeVol := s.tradeVol, agg := agg }).2.agg.status = .filled ∨ market = true
       then s.queue agg.side
       else Ref.enqueue (Ref.matchQ s.t (s.queue agg.side.opp) { orders := s.orders, trades := s.trades, tradeVol := s.tradeVol, agg := agg }).2.orders
              agg.side (s.queue agg.side)
              (Ref.matchQ s.t (s.queue agg.side.opp) { orders := s.orders, trades := s.trades, tradeVol := s.tradeVol, agg := agg }).2.agg.id
              (Ref.matchQ s.t (s.queue agg.side.opp) { orders := s.orders, trades := s.trades, tradeVol := s.tradeVol, agg := agg }).2.agg.price) ∧
    (Ref.enter s agg market).1.orders =
      (Ref.matchQ s.t (s.queue agg.side.opp) { orders := s.orders, trades := s.trades, tradeVol := s.tradeVol, agg := agg }).2.orders := by
  have hmp : Ref.matchPhase s agg =
      ({ (s.setQueue agg.side.opp (Ref.matchQ s.t (s.queue agg.side.opp)
            { orders := s.orders, trades := s.trades, tradeVol := s.tradeVol, agg := agg }).1) with
          orders := (Ref.matchQ s.t (s.queue agg.side.opp)
            { orders := s.orders, trades := s.trades, tradeVol := s.tradeVol, agg := agg }).2.orders,
          trades := (Ref.matchQ s.t (s.queue agg.side.opp)
            { orders := s.orders, trades := s.trades, tradeVol := s.tradeVol, agg := agg }).2.trades,
          tradeVol := (Ref.matchQ s.t (s.queue agg.side.opp)
            { orders := s.orders, trades := s.trades, tradeVol := s.tradeVol, agg := agg }).2.tradeVol },
       (Ref.matchQ s.t (s.queue agg.side.opp)
            { orders := s.orders, trades := s.trades, tradeVol := s.tradeVol, agg := agg }).2.agg) := by
    simp [Ref.matchPhase, ht]
  rw [Ref.enter_eq]
  simp only [ht, Bool.not_true, Bool.and_false, Bool.false_eq_true, if_false, hmp]
  generalize Ref.matchQ s.t (s.queue agg.side.opp)
      { orders := s.orders, trades := s.trades, tradeVol := s.tradeVol, agg := agg } = r
  cases agg.side <;> by_cases hf : r.2.agg.status = .filled <;> by_cases hm : market = true <;>
    simp [hf, hm, Ref.RState.setQueue, Ref.RState.queue, Side.opp]

end Bourse

namespace Bourse

theorem admits_symm (sd : Side) (p q : Nat) : Ref.admits sd p q = Ref.admits sd.opp q p := by
  cases sd <;> rfl

/-- It suffices to look from one side. -/
theorem uncrossed_of_side (s : Ref.RState) (sd0 : Side)
    (h : ∀ i j, i ∈ s.queue sd0 → j ∈ s.queue sd0.opp →
      Ref.admits sd0 (Ref.priceOf s.orders i) (Ref.priceOf s.orders j) = false) : RUncrossed s := by
  intro sd i j hi hj
  by_cases hs : sd = sd0
  · subst hs; exact h i j hi hj
  · have : sd = sd0.opp := Book.eq_opp_of_ne hs
    subst this
    rw [admits_symm, opp_opp]
    rw [opp_opp] at hj
    exact h j i hj hi

/-- A not-admitted head shields the whole (price-sorted) rest of the queue. -/
theorem not_admitted_behind (sd : Side) (limit p0 p : Nat) (h0 : Ref.admits sd limit p0 = false)
    (ha : Ref.ahead sd.opp p0 p = true) : Ref.admits sd limit p = false := by
  cases sd <;> simp only [Ref.admits, Ref.ahead, Side.opp, decide_eq_false_iff_not, decide_eq_true_eq] at * <;> omega

/-- Once the aggressor has no volume left the loop leaves it alone. -/
theorem matchQ_exhausted (t : Nat) (q : List Nat) (st : Ref.MatchSt) (h0 : st.agg.vol = 0) :
    (Ref.matchQ t q st).2.agg = st.agg := by
  cases q with
  | nil => simp [Ref.matchQ]
  | cons j q =>
    unfold Ref.matchQ
    split
    · rfl
    · simp [h0]

/-- An aggressor that arrived with volume and leaves the loop with none is marked Filled. -/
theorem matchQ_agg_filled (t : Nat) (q : List Nat) (st : Ref.MatchSt) (hv : 0 < st.agg.vol)
    (hz : (Ref.matchQ t q st).2.agg.vol = 0) : (Ref.matchQ t q st).2.agg.status = .filled := by
  induction q generalizing st with
  | nil => simp [Ref.matchQ] at hz; omega
  | cons j q ih =>
    cases hpass : st.orders[j]? with
    | none =>
      have : Ref.matchQ t (j :: q) st = (j :: q, st) := by simp [Ref.matchQ, hpass]
      rw [this] at hz; simp only at hz; omega
    | some pass =>
      by_cases hcond : (decide (st.agg.vol > 0) && Ref.admits st.agg.side st.agg.price pass.price) = true
      · let fill := min st.agg.vol pass.vol
        let pass1 : Order := { pass with vol := pass.vol - fill }
        let pass' : Order := if pass1.vol = 0 then { pass1 with status := .filled, endt := t } else pass1
        let agg1 : Order := { st.agg with vol := st.agg.vol - fill }
        let agg' : Order := if agg1.vol = 0 then { agg1 with status := .filled, endt := t } else agg1
        let tr : Trade := { t := t, side := pass.side, price := pass.price, vol := fill, active := st.agg.id, passive := pass.id }
        let st' : Ref.MatchSt := { orders := st.orders.set j pass', trades := st.trades ++ [tr],
                                   tradeVol := st.tradeVol + fill, agg := agg' }
        have hunf : Ref.matchQ t (j :: q) st = if pass'.vol = 0 then Ref.matchQ t q st' else (j :: q, st') := by
          simp only [Ref.matchQ, hpass, hcond, if_true]
          rfl
        have hagg'v : agg'.vol = st.agg.vol - fill := by simp only [agg', agg1]; split <;> rfl
        have hagg'f : agg'.vol = 0 → agg'.status = .filled := by
          intro h0
          have h1 : agg1.vol = 0 := by rw [hagg'v] at h0; exact h0
          simp only [agg', h1, if_true]
        by_cases hzp : pass'.vol = 0
        · rw [hunf, if_pos hzp] at hz ⊢
          by_cases ha0 : agg'.vol = 0
          · rw [matchQ_exhausted t q st' ha0]; exact hagg'f ha0
          · exact ih st' (Nat.pos_of_ne_zero ha0) hz
        · rw [hunf, if_neg hzp] at hz ⊢
          exact hagg'f hz
      · have : Ref.matchQ t (j :: q) st = (j :: q, st) := by
          simp only [Ref.matchQ, hpass]
          simp only [hcond, Bool.false_eq_true, if_false]
        rw [this] at hz; simp only at hz; omega

end Bourse

namespace Bourse

theorem priceOf_of_get {os : List Order} {k : Nat} {o : Order} (h : os[k]? = some o) : Ref.priceOf os k = o.price := by
  simp [Ref.priceOf, h]

/-- **Entering keeps the book uncrossed** (trading enabled): the entrant trades away everything its
limit admits before it may rest, so what rests is strictly outside the opposite side. -/
theorem enter_uncrossed (s : Ref.RState) (hw : QWf s) (hs : RSorted s) (hu : RUncrossed s) (ht : s.trading = true)
    (agg : Order) (market : Bool) (id : Nat) (hid : agg.id = id) (hout : ∀ sd, id ∉ s.queue sd) (hv : 0 < agg.vol)
    (hlt : id < s.orders.length) :
    RUncrossed { (Ref.enter s agg market).1 with
      orders := (Ref.enter s agg market).1.orders.set id (Ref.enter s agg market).2 } := by
  subst hid
  have hq0 : ∀ j ∈ s.queue agg.side.opp, ∃ o, s.orders[j]? = some o ∧ o.id = j ∧ 0 < o.vol ∧ o.side = agg.side.opp := by
    intro j hj
    obtain ⟨o, ho, _, hsd, hvo⟩ := hw.qok _ j hj
    exact ⟨o, ho, hw.ids j o ho, hvo, hsd⟩
  obtain ⟨_, _, _, _, _, h5, h6, _, h8⟩ := matchQ_ledger s.t (s.queue agg.side.opp)
    { orders := s.orders, trades := s.trades, tradeVol := s.tradeVol, agg := agg } hq0 (hw.nd _) (hout _)
  have hstops := matchQ_stops s.t (s.queue agg.side.opp)
    { orders := s.orders, trades := s.trades, tradeVol := s.tradeVol, agg := agg }
    (fun j hj => (hq0 j hj).imp fun o h => h.1) (hw.nd _)
  obtain ⟨pre, hpre⟩ := matchQ_stops.Props_prefix s.t (s.queue agg.side.opp)
    { orders := s.orders, trades := s.trades, tradeVol := s.tradeVol, agg := agg }
  have hfilled := matchQ_agg_filled s.t (s.queue agg.side.opp)
    { orders := s.orders, trades := s.trades, tradeVol := s.tradeVol, agg := agg } hv
  obtain ⟨f1, f2, f3⟩ := enter_queues s agg market ht
  obtain ⟨_, _, _, _, g4, _, _, _, _, _⟩ := enter_ledger s hw agg market (hout _)
  generalize hR : Ref.matchQ s.t (s.queue agg.side.opp)
    { orders := s.orders, trades := s.trades, tradeVol := s.tradeVol, agg := agg } = R at *
  -- prices in the final table
  have hlen : agg.id < (Ref.enter s agg market).1.orders.length := by rw [f3, h8]; exact hlt
  have hprice_id : Ref.priceOf ((Ref.enter s agg market).1.orders.set agg.id (Ref.enter s agg market).2) agg.id = agg.price := by
    rw [priceOf_of_get (o := (Ref.enter s agg market).2) (by simp [hlen])]
    exact g4.2.2.2.2.2
  have hprice_other : ∀ (sd : Side) (k : Nat), k ∈ s.queue sd →
      Ref.priceOf ((Ref.enter s agg market).1.orders.set agg.id (Ref.enter s agg market).2) k = Ref.priceOf s.orders k := by
    intro sd k hk
    have hne : k ≠ agg.id := fun h => hout sd (h ▸ hk)
    obtain ⟨o, ho, _⟩ := hw.qok sd k hk
    obtain ⟨o', ho', _, hi⟩ := h6 k o ho hne
    rw [priceOf_of_get ho, priceOf_of_get (o := o') (by rw [f3]; simp [List.getElem?_set, Ne.symm hne, ho'])]
    exact hi.2.2.2.2.2
  apply uncrossed_of_side _ agg.side
  intro i j hi hj
  have hqs : ∀ sd, ({ (Ref.enter s agg market).1 with
      orders := (Ref.enter s agg market).1.orders.set agg.id (Ref.enter s agg market).2 } : Ref.RState).queue sd =
      (Ref.enter s agg market).1.queue sd := by intro sd; cases sd <;> rfl
  rw [hqs] at hi hj
  rw [f1] at hj
  have hj' : j ∈ s.queue agg.side.opp := by rw [hpre]; exact List.mem_append_right _ hj
  simp only
  rw [hprice_other _ j hj']
  have old : i ∈ s.queue agg.side →
      Ref.admits agg.side (Ref.priceOf ((Ref.enter s agg market).1.orders.set agg.id (Ref.enter s agg market).2) i)
        (Ref.priceOf s.orders j) = false := by
    intro hi'
    rw [hprice_other _ i hi']
    exact hu agg.side i j hi' hj'
  rw [f2] at hi
  split at hi
  · exact old hi
  · rename_i hnf
    simp only [not_or] at hnf
    rcases (mem_enqueue _ _ _ _ _ _).mp hi with hi' | hi'
    · -- the entrant itself
      have hid : i = agg.id := by rw [hi']; exact h5.1
      rw [hid, hprice_id]
      rcases hstops with h0 | h0 | ⟨j0, rest, o, h1, h2, h3⟩
      · exact absurd (hfilled h0) hnf.1
      · rw [h0] at hj; cases hj
      · simp only at h3
        rw [h1] at hj
        rcases List.mem_cons.mp hj with rfl | hjr
        · rw [priceOf_of_get h2]; exact h3
        · -- behind the head: the queue is sorted
          have hsorted := hs agg.side.opp
          rw [hpre, h1] at hsorted
          have := (List.pairwise_cons.mp (List.pairwise_append.mp hsorted).2.1).1 j hjr
          rw [priceOf_of_get h2] at this
          exact not_admitted_behind agg.side agg.price o.price _ h3 this
    · exact old hi'

end Bourse

namespace Bourse

/-- Uncrossedness only looks at queue membership and the prices of queued orders. -/
theorem uncrossed_congr {s s' : Ref.RState} (hu : RUncrossed s)
    (hq : ∀ sd j, j ∈ s'.queue sd → j ∈ s.queue sd)
    (hp : ∀ sd j, j ∈ s'.queue sd → Ref.priceOf s'.orders j = Ref.priceOf s.orders j) : RUncrossed s' := by
  intro sd i j hi hj
  rw [hp sd i hi, hp sd.opp j hj]
  exact hu sd i j (hq sd i hi) (hq sd.opp j hj)

@[simp] theorem setQueue_trading (s : Ref.RState) (sd : Side) (q : List Nat) : (s.setQueue sd q).trading = s.trading := by
  cases sd <;> rfl

theorem enter_trading (s : Ref.RState) (agg : Order) (market : Bool) : (Ref.enter s agg market).1.trading = s.trading := by
  rw [Ref.enter_eq]
  have hmp : (Ref.matchPhase s agg).1.trading = s.trading := by
    unfold Ref.matchPhase
    split
    · generalize Ref.matchQ s.t (s.queue agg.side.opp)
        { orders := s.orders, trades := s.trades, tradeVol := s.tradeVol, agg := agg } = r
      cases agg.side <;> rfl
    · rfl
  split
  · rfl
  · split
    · exact hmp
    · split
      · exact hmp
      · generalize Ref.matchPhase s agg = r at hmp ⊢
        cases agg.side <;> exact hmp

/-- The entry behind an abstract table lookup. -/
theorem abs_get_entry {b : Book} {id : Nat} {o : Order} (h : (abs b).orders[id]? = some o) :
    ∃ e, b.orders[id]? = some e ∧ e.order = o := by
  rw [abs_get] at h
  cases he : b.orders[id]? with
  | none => rw [he] at h; cases h
  | some e => rw [he] at h; injection h with h; exact ⟨e, rfl, h⟩

/-- `place` keeps the book uncrossed while trading is enabled. -/
theorem place_uncrossed {b : Book} (h : Inv b) (id : Nat) (hu : RUncrossed (abs b)) (ht : b.trading = true) :
    RUncrossed (Ref.place (abs b) id) ∧ (Ref.place (abs b) id).trading = true := by
  have hw := qwf_abs h
  cases ho : (abs b).orders[id]? with
  | none =>
    have : Ref.place (abs b) id = abs b := by simp [Ref.place, ho]
    rw [this]; exact ⟨hu, ht⟩
  | some o =>
    by_cases hn : o.status = .new
    · obtain ⟨e, he, heo⟩ := abs_get_entry ho
      have hnk := h.newok id e he (by rw [heo]; exact hn)
      have hout : ∀ sd, id ∉ (abs b).queue sd := by
        intro sd hm
        obtain ⟨o', ho', ha, _⟩ := hw.qok sd id hm
        rw [ho] at ho'; injection ho' with ho'; subst ho'
        rw [hn] at ha; cases ha
      have hpl : Ref.place (abs b) id =
          { (Ref.enter (abs b) { o with status := .active, arr := (abs b).t } (Book.isMarket o)).1 with
            orders := (Ref.enter (abs b) { o with status := .active, arr := (abs b).t } (Book.isMarket o)).1.orders.set id
              (Ref.enter (abs b) { o with status := .active, arr := (abs b).t } (Book.isMarket o)).2 } := by
        simp only [Ref.place, ho, hn]; rfl
      have hid : o.id = id := hw.ids id o ho
      have := enter_uncrossed (abs b) hw (rsorted_abs h) hu ht { o with status := .active, arr := (abs b).t } (Book.isMarket o)
        id hid hout (by rw [← heo]; exact hnk.2.1) (List.getElem?_eq_some_iff.mp ho).1
      rw [hpl]
      exact ⟨this, by simp only; rw [enter_trading]; exact ht⟩
    · have : Ref.place (abs b) id = abs b := by simp [Ref.place, ho, hn]
      rw [this]; exact ⟨hu, ht⟩

/-- `cancel`. -/
theorem cancel_uncrossed (s : Ref.RState) (id : Nat) (hu : RUncrossed s) :
    RUncrossed (Ref.cancel s id) ∧ (Ref.cancel s id).trading = s.trading := by
  cases ho : s.orders[id]? with
  | none =>
    have : Ref.cancel s id = s := by simp [Ref.cancel, ho]
    rw [this]; exact ⟨hu, rfl⟩
  | some o =>
    by_cases ha : o.status = .active
    · have hc : Ref.cancel s id = { (s.setQueue o.side ((s.queue o.side).erase id)) with
          orders := s.orders.set id { o with status := .cancelled, endt := s.t } } := by
        simp only [Ref.cancel, ho, ha, if_true]
      rw [hc]
      refine ⟨uncrossed_congr hu ?_ ?_, by cases o.side <;> rfl⟩
      · intro sd j hj
        have : j ∈ (s.setQueue o.side ((s.queue o.side).erase id)).queue sd := by cases sd <;> exact hj
        rw [queue_setQueue] at this
        split at this
        · rename_i h; subst h; exact List.mem_of_mem_erase this
        · exact this
      · intro sd j _
        simp only
        by_cases hji : j = id
        · subst hji
          rw [priceOf_of_get ho, priceOf_of_get (o := { o with status := .cancelled, endt := s.t })
            (by simp [(List.getElem?_eq_some_iff.mp ho).1])]
        · simp [Ref.priceOf, List.getElem?_set, Ne.symm hji]
    · have : Ref.cancel s id = s := by simp [Ref.cancel, ho, ha]
      rw [this]; exact ⟨hu, rfl⟩

/-- `modify`. -/
theorem modify_uncrossed {b : Book} (h : Inv b) (id : Nat) (np nv : Option Nat) (hvv : ∀ v, nv = some v → 0 < v)
    (hu : RUncrossed (abs b)) (ht : b.trading = true) :
    RUncrossed (Ref.modify (abs b) id np nv) ∧ (Ref.modify (abs b) id np nv).trading = true := by
  have hw := qwf_abs h
  cases ho : (abs b).orders[id]? with
  | none =>
    have : Ref.modify (abs b) id np nv = abs b := by simp [Ref.modify, ho]
    rw [this]; exact ⟨hu, ht⟩
  | some o =>
    by_cases hg : Book.offGrid (abs b).tick np = true
    · have : Ref.modify (abs b) id np nv = abs b := by simp [Ref.modify, ho, hg]
      rw [this]; exact ⟨hu, ht⟩
    · by_cases ha : o.status = .active
      · have hidq : id ∈ (abs b).queue o.side := active_queued_abs h id o ho ha
        obtain ⟨oq, hoq, _, _, hovol⟩ := hw.qok _ id hidq
        rw [ho] at hoq; injection hoq with hoq; subst hoq
        have hlt : id < (abs b).orders.length := (List.getElem?_eq_some_iff.mp ho).1
        have reduce : ∀ v, RUncrossed { (abs b) with orders := (abs b).orders.set id { o with vol := v } } := by
          intro v
          refine uncrossed_congr hu (fun sd j hj => by cases sd <;> exact hj) ?_
          intro sd j _
          simp only
          by_cases hji : j = id
          · subst hji
            rw [priceOf_of_get ho, priceOf_of_get (o := { o with vol := v }) (by simp [hlt])]
          · simp [Ref.priceOf, List.getElem?_set, Ne.symm hji]
        have replace : Ref.modify (abs b) id np nv =
              { (Ref.enter ((abs b).setQueue o.side (((abs b).queue o.side).erase id))
                    { o with vol := nv.getD o.vol, price := np.getD o.price } false).1 with
                orders := (Ref.enter ((abs b).setQueue o.side (((abs b).queue o.side).erase id))
                    { o with vol := nv.getD o.vol, price := np.getD o.price } false).1.orders.set id
                  (Ref.enter ((abs b).setQueue o.side (((abs b).queue o.side).erase id))
                    { o with vol := nv.getD o.vol, price := np.getD o.price } false).2 } →
            RUncrossed (Ref.modify (abs b) id np nv) ∧ (Ref.modify (abs b) id np nv).trading = true := by
          intro heq
          rw [heq]
          have hq1 : ∀ sd, ((abs b).setQueue o.side (((abs b).queue o.side).erase id)).queue sd =
              if sd = o.side then ((abs b).queue o.side).erase id else (abs b).queue sd :=
            fun sd => queue_setQueue _ _ _ _
          have hsub : ∀ sd j, j ∈ ((abs b).setQueue o.side (((abs b).queue o.side).erase id)).queue sd → j ∈ (abs b).queue sd := by
            intro sd j hj
            rw [hq1] at hj
            split at hj
            · rename_i hh; subst hh; exact List.mem_of_mem_erase hj
            · exact hj
          have hw1 : QWf ((abs b).setQueue o.side (((abs b).queue o.side).erase id)) := by
            refine ⟨by simpa using hw.ids, ?_, ?_⟩
            · intro sd j hj; simpa using hw.qok sd j (hsub sd j hj)
            · intro sd; rw [hq1]; split
              · exact (hw.nd _).erase _
              · exact hw.nd _
          have hs1 : RSorted ((abs b).setQueue o.side (((abs b).queue o.side).erase id)) := by
            intro sd
            have := rsorted_abs h sd
            rw [hq1]
            simp only [setQueue_orders]
            split
            · rename_i hh; subst hh; exact this.sublist List.erase_sublist
            · exact this
          have hu1 : RUncrossed ((abs b).setQueue o.side (((abs b).queue o.side).erase id)) :=
            uncrossed_congr hu hsub (fun sd j _ => by simp)
          have hout : ∀ sd, id ∉ ((abs b).setQueue o.side (((abs b).queue o.side).erase id)).queue sd := by
            intro sd; rw [hq1]; split
            · exact (hw.nd _).not_mem_erase
            · rename_i hne
              intro hm
              obtain ⟨o', ho', _, hs', _⟩ := hw.qok sd id hm
              rw [ho] at ho'; injection ho' with ho'; subst ho'
              exact hne hs'.symm
          have hid : o.id = id := hw.ids id o ho
          have hvol : 0 < nv.getD o.vol := by
            cases nv with
            | none => exact hovol
            | some v => exact hvv v rfl
          have ht1 : ((abs b).setQueue o.side (((abs b).queue o.side).erase id)).trading = true := by
            rw [setQueue_trading]; exact ht
          have := enter_uncrossed _ hw1 hs1 hu1 ht1 { o with vol := nv.getD o.vol, price := np.getD o.price } false
            id hid hout hvol (by simpa using hlt)
          exact ⟨this, by simp only; rw [enter_trading]; exact ht1⟩
        cases np with
        | none =>
          cases nv with
          | none =>
            have : Ref.modify (abs b) id none none = abs b := by simp [Ref.modify, ho, ha, Book.offGrid]
            rw [this]; exact ⟨hu, ht⟩
          | some v =>
            by_cases hlt' : v < o.vol
            · have : Ref.modify (abs b) id none (some v) = { (abs b) with orders := (abs b).orders.set id { o with vol := v } } := by
                simp [Ref.modify, ho, ha, hlt', Book.offGrid]
              rw [this]; exact ⟨reduce v, ht⟩
            · exact replace (by simp [Ref.modify, ho, ha, hlt', Book.offGrid])
        | some p =>
          have hgp : Book.offGrid (abs b).tick (some p) = false := by simpa using hg
          cases nv with
          | none => exact replace (by simp [Ref.modify, ho, ha, hgp])
          | some v => exact replace (by simp [Ref.modify, ho, ha, hgp])
      · have hgf : Book.offGrid (abs b).tick np = false := by simpa using hg
        have : Ref.modify (abs b) id np nv = abs b := by simp [Ref.modify, ho, hgf, ha]
        rw [this]; exact ⟨hu, ht⟩

end Bourse

namespace Bourse

theorem create_uncrossed (s : Ref.RState) (hw : QWf s) (sd : Side) (vol tr : Nat) (p : Option Nat) (hu : RUncrossed s) :
    RUncrossed (Ref.create s sd vol tr p).1 ∧ (Ref.create s sd vol tr p).1.trading = s.trading := by
  have app : ∀ x : Order, RUncrossed { s with orders := s.orders ++ [x] } := by
    intro x
    refine uncrossed_congr hu (fun sd j hj => by cases sd <;> exact hj) ?_
    intro sd' j hj
    have hj' : j ∈ s.queue sd' := by cases sd' <;> exact hj
    obtain ⟨o, ho, _⟩ := hw.qok sd' j hj'
    have hlt : j < s.orders.length := (List.getElem?_eq_some_iff.mp ho).1
    simp [Ref.priceOf, List.getElem?_append_left hlt]
  cases p with
  | none => exact ⟨app _, rfl⟩
  | some q =>
    by_cases hq : (q % s.tick != 0) = true
    · have : (Ref.create s sd vol tr (some q)).1 = s := by simp [Ref.create, hq]
      rw [this]; exact ⟨hu, rfl⟩
    · have : (Ref.create s sd vol tr (some q)).1 =
          { s with orders := s.orders ++ [Book.mkOrder s.t sd vol tr (some q) s.orders.length] } := by
        simp [Ref.create, hq]
      rw [this]; exact ⟨app _, rfl⟩

/-- **One step.** While trading is enabled and the operation is not a disable, a valid fault-free
operation keeps the book uncrossed (and trading enabled). -/
theorem uncrossed_step {b : Book} (h : Inv b) (op : Op) (hv : ValidOp op) (hnf : (b.step op).1.faulted = false)
    (hu : RUncrossed (abs b)) (ht : b.trading = true) (hop : op ≠ .trading false) :
    RUncrossed (abs (b.step op).1) ∧ (abs (b.step op).1).trading = true := by
  have hw := qwf_abs h
  have hta : (abs b).trading = true := ht
  cases op with
  | create sd vol tr p =>
    rw [(step_refines h _ hv hnf).1]
    have := create_uncrossed (abs b) hw sd vol tr p hu
    exact ⟨this.1, by rw [Ref.step]; rw [this.2]; exact hta⟩
  | place id =>
    rw [(step_refines h _ hv hnf).1]
    exact place_uncrossed h id hu ht
  | cap sd vol tr p =>
    have hc := h.create sd vol tr p hv.1 hv.2
    have hcr := create_refines b sd vol tr p
    have hcu := create_uncrossed (abs b) hw sd vol tr p hu
    rw [← hcr.1] at hcu
    simp only [Book.step, Book.createAndPlace] at hnf ⊢
    cases hres : (b.createOrder sd vol tr p).2 with
    | ok id =>
      simp only [hres] at hnf ⊢
      rw [place_refines hc id hnf]
      exact place_uncrossed hc id hcu.1 (by have := hcu.2; rw [hta] at this; exact this)
    | priceError q t =>
      simp only [hres]
      exact ⟨hcu.1, by rw [hcu.2]; exact hta⟩
  | cancel id =>
    rw [(step_refines h _ hv hnf).1]
    have := cancel_uncrossed (abs b) id hu
    exact ⟨this.1, by rw [Ref.step]; rw [this.2]; exact hta⟩
  | modify id np nv =>
    rw [(step_refines h _ hv hnf).1]
    exact modify_uncrossed h id np nv hv.1 hu ht
  | ev e =>
    cases e with
    | new id =>
      rw [(step_refines h _ hv hnf).1]
      exact place_uncrossed h id hu ht
    | cancel id =>
      rw [(step_refines h _ hv hnf).1]
      have := cancel_uncrossed (abs b) id hu
      exact ⟨this.1, by rw [Ref.step]; rw [this.2]; exact hta⟩
    | modify id np nv =>
      rw [(step_refines h _ hv hnf).1]
      exact modify_uncrossed h id np nv hv.1 hu ht
  | time t => exact ⟨hu, ht⟩
  | trading on =>
    cases on with
    | true => exact ⟨hu, rfl⟩
    | false => exact absurd rfl hop
  | resetVol => exact ⟨hu, ht⟩
  | reload =>
    simp only [Book.step, h.notFaulted, Bool.false_eq_true, if_false, reload_eq h]
    exact ⟨hu, ht⟩

/-- **Every history.** From a state satisfying the invariant, uncrossed, with trading enabled, any
valid fault-free history that never disables trading ends uncrossed. -/
theorem uncrossed_run {b : Book} (h : Inv b) (hu : RUncrossed (abs b)) (ht : b.trading = true) (ops : List Op)
    (hv : ∀ op ∈ ops, ValidOp op) (hno : ∀ op ∈ ops, op ≠ .trading false) (hnf : NoFault b ops) :
    RUncrossed (abs (b.run ops)) := by
  induction ops generalizing b with
  | nil => exact hu
  | cons op rest ih =>
    simp only [Book.run, List.foldl_cons]
    have hs := uncrossed_step h op (hv op List.mem_cons_self) hnf.1 hu ht (hno op List.mem_cons_self)
    exact ih (inv_step h op (hv op List.mem_cons_self) hnf.1) hs.1 hs.2
      (fun o ho => hv o (List.mem_cons_of_mem _ ho)) (fun o ho => hno o (List.mem_cons_of_mem _ ho)) hnf.2

/-- Reading it off the published touch prices: with both sides non-empty the best bid is strictly
below the best ask. -/
theorem bidAsk_lt_of_uncrossed {b : Book} (h : Inv b) (hu : RUncrossed (abs b))
    (hb : b.bid.orders ≠ []) (ha : b.ask.orders ≠ []) : b.bidAsk.1 < b.bidAsk.2 := by
  cases hqb : b.bid.orders with
  | nil => exact absurd hqb hb
  | cons hdb tlb =>
    cases hqa : b.ask.orders with
    | nil => exact absurd hqa ha
    | cons hda tla =>
      obtain ⟨kb, ib⟩ := hdb
      obtain ⟨ka, ia⟩ := hda
      obtain ⟨mb, hmb, hpb, _⟩ := head_price h.bid hqb
      obtain ⟨ma, hma, hpa, _⟩ := head_price h.ask hqa
      have hib : ib ∈ (abs b).queue .bid := by simp [abs, Ref.RState.queue, absq, hqb]
      have hia : ia ∈ (abs b).queue Side.bid.opp := by simp [abs, Ref.RState.queue, absq, hqa, Side.opp]
      have := hu .bid ib ia hib hia
      rw [priceOf_of_get (o := mb.order) (by rw [abs_get, hmb]; rfl),
          priceOf_of_get (o := ma.order) (by rw [abs_get, hma]; rfl)] at this
      simp only [Book.bidAsk, hpb, hpa]
      simpa [Ref.admits] using this

end Bourse
