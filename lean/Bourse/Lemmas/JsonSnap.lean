/-
The field encoding of a snapshot decodes back to the snapshot (`snapOf (snapJ s) = some s`) whenever
every number fits the Rust type of its field; snapshot values are well-formed for both writers; so
the text `save_json` writes loads back to the book that was saved.
-/
import Bourse.Lemmas.JsonRoundTrip
import Bourse.Lemmas.Reload

namespace Bourse
namespace Json

/-- The numeric fields fit their Rust types (`u32` / `u64` / `usize`). -/
def OrderFits (o : Order) : Prop :=
  o.arr ≤ U64 ∧ o.endt ≤ U64 ∧ o.vol ≤ U32 ∧ o.svol ≤ U32 ∧ o.price ≤ U32 ∧ o.trader ≤ U32 ∧ o.id ≤ U64

def EntryFits (e : Entry) : Prop := OrderFits e.order ∧ e.key.pk ≤ U32 ∧ e.key.st ≤ U64

def TradeFits (t : Trade) : Prop :=
  t.t ≤ U64 ∧ t.price ≤ U32 ∧ t.vol ≤ U32 ∧ t.active ≤ U64 ∧ t.passive ≤ U64

def SnapFits (s : Snap) : Prop :=
  s.t ≤ U64 ∧ s.tick ≤ U32 ∧ s.tradeVol ≤ U32 ∧ s.stamp ≤ U64 ∧
  (∀ e ∈ s.orders, EntryFits e) ∧ (∀ t ∈ s.trades, TradeFits t)

theorem sideOf_sideJ (sd : Side) : sideOf (sideJ sd) = some sd := by cases sd <;> decide
theorem statusOf_statusJ (st : Status) : statusOf (statusJ st) = some st := by cases st <;> decide
theorem numLe_num {n b : Nat} (h : n ≤ b) : numLe b (.num n) = some n := by simp [numLe, h]

theorem orderOf_orderJ (o : Order) (h : OrderFits o) : orderOf (orderJ o) = some o := by
  obtain ⟨h1, h2, h3, h4, h5, h6, h7⟩ := h
  simp [orderOf, orderJ, field, lit, sideOf_sideJ, statusOf_statusJ, numLe_num, h1, h2, h3, h4, h5, h6, h7]

theorem keyOf_keyJ (k : Key) (h1 : k.pk ≤ U32) (h2 : k.st ≤ U64) : keyOf (keyJ k) = some k := by
  simp [keyOf, keyJ, sideOf_sideJ, numLe_num, h1, h2]

theorem entryOf_entryJ (e : Entry) (h : EntryFits e) : entryOf (entryJ e) = some e := by
  obtain ⟨h1, h2, h3⟩ := h
  simp [entryOf, entryJ, field, lit, orderOf_orderJ e.order h1, keyOf_keyJ e.key h2 h3]

theorem tradeOf_tradeJ (t : Trade) (h : TradeFits t) : tradeOf (tradeJ t) = some t := by
  obtain ⟨h1, h2, h3, h4, h5⟩ := h
  simp [tradeOf, tradeJ, field, lit, sideOf_sideJ, numLe_num, h1, h2, h3, h4, h5]

theorem mapM_map_some {α β} (f : α → β) (g : β → Option α) (l : List α) (h : ∀ a ∈ l, g (f a) = some a) :
    (l.map f).mapM g = some l := by
  induction l with
  | nil => rfl
  | cons a l ih =>
    rw [List.map_cons, List.mapM_cons, h a List.mem_cons_self, ih (fun x hx => h x (List.mem_cons_of_mem _ hx))]
    rfl

theorem snapOf_snapJ (s : Snap) (h : SnapFits s) : snapOf (snapJ s) = some s := by
  obtain ⟨h1, h2, h3, h4, h5, h6⟩ := h
  have ho : listOf entryOf (.arr (s.orders.map entryJ)) = some s.orders :=
    mapM_map_some entryJ entryOf s.orders (fun e he => entryOf_entryJ e (h5 e he))
  have ht : listOf tradeOf (.arr (s.trades.map tradeJ)) = some s.trades :=
    mapM_map_some tradeJ tradeOf s.trades (fun t ht => tradeOf_tradeJ t (h6 t ht))
  simp [snapOf, snapJ, field, lit, numLe_num, h1, h2, h3, h4, ho, ht, boolOf]

/-! ### Well-formedness for the round trip -/

instance (s : List Char) : Decidable (StrOk s) := by unfold StrOk; infer_instance

theorem strOk_lit_side (sd : Side) : (sideJ sd).WF2 := by cases sd <;> simp [sideJ, J.WF2] <;> decide
theorem strOk_lit_status (st : Status) : (statusJ st).WF2 := by cases st <;> simp [statusJ, J.WF2] <;> decide

theorem entryJ_wf2 (e : Entry) : (entryJ e).WF2 := by
  have h1 := strOk_lit_side e.order.side
  have h2 := strOk_lit_status e.order.status
  have h3 := strOk_lit_side e.key.side
  simp only [entryJ, orderJ, keyJ, J.WF2, WF2Members, WF2List, and_true, h1, h2, h3, true_and]
  decide

theorem tradeJ_wf2 (t : Trade) : (tradeJ t).WF2 := by
  have h1 := strOk_lit_side t.side
  simp only [tradeJ, J.WF2, WF2Members, and_true, h1, true_and]
  decide

theorem wf2List_map {α} (f : α → J) (hf : ∀ a, (f a).WF2) (l : List α) : WF2List (l.map f) := by
  induction l with
  | nil => simp [WF2List]
  | cons a l ih => simp only [List.map_cons, WF2List]; exact ⟨hf a, ih⟩

theorem snapJ_wf2 (s : Snap) : (snapJ s).WF2 := by
  have h1 := wf2List_map entryJ entryJ_wf2 s.orders
  have h2 := wf2List_map tradeJ tradeJ_wf2 s.trades
  simp only [snapJ, J.WF2, WF2Members, and_true, h1, h2, true_and]
  decide

/-- **The text that was written loads back to the snapshot that was saved** (either writer). -/
theorem decode_saveText (b : Book) (pretty : Bool) (h : SnapFits b.save) :
    (parse (saveText b pretty)).bind snapOf = some b.save := by
  unfold saveText
  cases pretty with
  | false =>
    simp only [Bool.false_eq_true, if_false]
    rw [parse_renderCompact _ (snapJ_wf2 _)]
    exact snapOf_snapJ _ h
  | true =>
    simp only [if_true]
    rw [parse_renderPretty _ (snapJ_wf2 _)]
    exact snapOf_snapJ _ h

theorem marketJ_wf2 (books : List Snap) : (marketJ books).WF2 := by
  have h1 := wf2List_map snapJ snapJ_wf2 books
  simp only [marketJ, J.WF2, WF2Members, and_true, h1]
  decide

theorem marketOf_marketJ (snaps : List Snap) (h : ∀ s ∈ snaps, SnapFits s) :
    marketOf snaps.length (marketJ snaps) = some snaps := by
  have hb : listOf snapOf (.arr (snaps.map snapJ)) = some snaps :=
    mapM_map_some snapJ snapOf snaps (fun s hs => snapOf_snapJ s (h s hs))
  simp [marketOf, marketJ, field, lit, hb]

/-- **The market file that was written loads back to the books that were saved.** -/
theorem loadMarketText_saveMarketText (books : List Book) (pretty : Bool)
    (hfit : ∀ b ∈ books, SnapFits b.save) (hinv : ∀ b ∈ books, Inv b) :
    loadMarketText books.length (saveMarketText books pretty) = some books := by
  have hfit' : ∀ s ∈ books.map Book.save, SnapFits s := by
    intro s hs
    obtain ⟨b, hb, rfl⟩ := List.mem_map.mp hs
    exact hfit b hb
  have hdec : (parse (saveMarketText books pretty)).bind (marketOf books.length) = some (books.map Book.save) := by
    have hm := marketOf_marketJ (books.map Book.save) hfit'
    rw [List.length_map] at hm
    unfold saveMarketText
    cases pretty with
    | false =>
      simp only [Bool.false_eq_true, if_false]
      rw [parse_renderCompact _ (marketJ_wf2 _)]; exact hm
    | true =>
      simp only [if_true]
      rw [parse_renderPretty _ (marketJ_wf2 _)]; exact hm
  unfold loadMarketText
  rw [hdec]
  simp only [Option.map_some, List.map_map]
  congr 1
  have : ∀ l : List Book, (∀ b ∈ l, Inv b) → l.map (Book.load ∘ Book.save) = l := by
    intro l hl
    induction l with
    | nil => rfl
    | cons b l ih =>
      rw [List.map_cons, ih (fun x hx => hl x (List.mem_cons_of_mem _ hx))]
      congr 1
      exact reload_eq (hl b List.mem_cons_self)
  exact this books hinv

end Json
end Bourse
