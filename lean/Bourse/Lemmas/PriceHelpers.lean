/-
The prices the helpers compute are valid for every sample of the price distribution (C16).
-/
import Bourse.Model.PriceHelpers
import Mathlib.Algebra.Order.Field.Rat
import Mathlib.Tactic.Linarith
import Mathlib.Tactic.FieldSimp
import Mathlib.Tactic.Positivity
import Mathlib.Tactic.Ring

namespace Bourse
namespace Helpers

theorem absR_nonneg (x : Rat) : 0 ≤ absR x := by
  unfold absR; split <;> linarith

theorem clampPrice_of_range {x : Int} (h0 : 0 ≤ x) (h1 : x ≤ (MAXP : Int)) : (clampPrice x : Int) = x := by
  unfold clampPrice
  rw [if_neg (by omega), if_neg (by omega)]
  exact Int.toNat_of_nonneg h0

theorem clampPrice_le (x : Int) : clampPrice x ≤ MAXP := by
  unfold clampPrice
  split
  · omega
  · split
    · exact Nat.le_refl _
    · omega

theorem floor_mul_le (p : Rat) (tick : Nat) (ht : 0 < tick) :
    (((p / (tick : Rat)).floor * (tick : Int) : Int) : Rat) ≤ p := by
  have htq : (0 : Rat) < (tick : Rat) := by exact_mod_cast ht
  have h := Rat.floor_le (p / (tick : Rat))
  have h2 : ((p / (tick : Rat)).floor : Rat) * (tick : Rat) ≤ p / (tick : Rat) * (tick : Rat) :=
    mul_le_mul_of_nonneg_right h (le_of_lt htq)
  rw [div_mul_cancel₀ p (ne_of_gt htq)] at h2
  push_cast
  exact h2

theorem le_ceil_mul (p : Rat) (tick : Nat) (ht : 0 < tick) :
    p ≤ (((p / (tick : Rat)).ceil * (tick : Int) : Int) : Rat) := by
  have htq : (0 : Rat) < (tick : Rat) := by exact_mod_cast ht
  have h : p / (tick : Rat) ≤ ((p / (tick : Rat)).ceil : Rat) := Rat.le_ceil
  have h2 : p / (tick : Rat) * (tick : Rat) ≤ ((p / (tick : Rat)).ceil : Rat) * (tick : Rat) :=
    mul_le_mul_of_nonneg_right h (le_of_lt htq)
  rw [div_mul_cancel₀ p (ne_of_gt htq)] at h2
  push_cast
  exact h2

/-- **Buy prices.** For every sample of the distribution (finite of either sign, or `+∞`), every
tick size and every observed mid-price in `[0, Price::MAX]`: the bid price is on the tick grid and at
or below the mid-price. -/
theorem buyPrice_valid (mid : Rat) (dist : Option Rat) (tick : Nat) (ht : 0 < tick)
    (h0 : 0 ≤ mid) (h1 : mid ≤ (MAXP : Rat)) :
    buyPrice mid dist tick % tick = 0 ∧ (buyPrice mid dist tick : Rat) ≤ mid := by
  cases dist with
  | none => simp [buyPrice, h0]
  | some d =>
    simp only [buyPrice, roundPriceDown]
    have habs := absR_nonneg d
    set x : Int := ((mid - absR d) / (tick : Rat)).floor * (tick : Int) with hx
    have hxle : (x : Rat) ≤ mid - absR d := floor_mul_le _ tick ht
    have hxmax : x ≤ (MAXP : Int) := by
      have : (x : Rat) ≤ (MAXP : Rat) := by linarith
      exact_mod_cast this
    by_cases hneg : x < 0
    · have : clampPrice x = 0 := by simp [clampPrice, hneg]
      rw [this]; simp [h0]
    · have hx0 : 0 ≤ x := by omega
      have hc := clampPrice_of_range hx0 hxmax
      constructor
      · have : ((clampPrice x : Int) % (tick : Int)) = 0 := by
          rw [hc, hx]; exact Int.mul_emod_left _ _
        exact_mod_cast this
      · have : ((clampPrice x : Int) : Rat) = (x : Rat) := by rw [hc]
        have h3 : ((clampPrice x : Nat) : Rat) = (x : Rat) := by exact_mod_cast this
        rw [h3]; linarith

/-- **Sell prices.** For every sample, every tick size: the ask price is on the tick grid; and it
is at or above the observed mid-price whenever the mid is at least one tick below `Price::MAX`
(above that there is no grid price left to quote). -/
theorem sellPrice_valid (mid : Rat) (dist : Option Rat) (tick : Nat) (ht : 0 < tick)
    (h0 : 0 ≤ mid) (h1 : mid + (tick : Rat) ≤ (MAXP : Rat)) :
    sellPrice mid dist tick % tick = 0 ∧ mid ≤ (sellPrice mid dist tick : Rat) := by
  have hgrid : ∀ p : Nat, (p - p % tick) % tick = 0 := by
    intro p
    have := Nat.mod_add_div p tick
    have h2 : p - p % tick = tick * (p / tick) := by omega
    rw [h2]; exact Nat.mul_mod_right _ _
  refine ⟨hgrid _, ?_⟩
  simp only [sellPrice]
  -- the clamped value is ≥ mid, or is `Price::MAX`; either way the repaired value is ≥ mid
  have hmaxcase : mid ≤ ((MAXP - MAXP % tick : Nat) : Rat) := by
    have hlt : MAXP % tick < tick := Nat.mod_lt _ ht
    have hle : MAXP % tick ≤ MAXP := Nat.mod_le _ _
    have : ((MAXP - MAXP % tick : Nat) : Rat) = (MAXP : Rat) - ((MAXP % tick : Nat) : Rat) := by
      rw [Nat.cast_sub hle]
    rw [this]
    have : ((MAXP % tick : Nat) : Rat) < (tick : Rat) := by exact_mod_cast hlt
    linarith
  cases dist with
  | none => simpa [roundPriceUp] using hmaxcase
  | some d =>
    simp only [Option.map_some, roundPriceUp]
    have habs := absR_nonneg d
    set x : Int := ((mid + absR d) / (tick : Rat)).ceil * (tick : Int) with hx
    have hxge : mid + absR d ≤ (x : Rat) := le_ceil_mul _ tick ht
    have hx0 : 0 ≤ x := by
      have : (0 : Rat) ≤ (x : Rat) := by linarith
      exact_mod_cast this
    by_cases hbig : x > (MAXP : Int)
    · have : clampPrice x = MAXP := by
        unfold clampPrice; rw [if_neg (by omega), if_pos hbig]
      rw [this]; exact hmaxcase
    · have hc := clampPrice_of_range hx0 (by omega)
      have hmod : clampPrice x % tick = 0 := by
        have : ((clampPrice x : Int) % (tick : Int)) = 0 := by
          rw [hc, hx]; exact Int.mul_emod_left _ _
        exact_mod_cast this
      rw [hmod, Nat.sub_zero]
      have : ((clampPrice x : Int) : Rat) = (x : Rat) := by rw [hc]
      have h3 : ((clampPrice x : Nat) : Rat) = (x : Rat) := by exact_mod_cast this
      rw [h3]; linarith

end Helpers
end Bourse
