/-
Arrival and end times (C04): what one operation of the reference engine does to the time fields
of every order record, transferred to the implementation model through the refinement and combined
with the one-way lifecycle theorem.
-/
import Bourse.Lemmas.RefLedgerStep
import Bourse.Lemmas.Lifecycle

namespace Bourse

/-- Evolution of a record inside the match loop / `enter`: the arrival time is kept; either status
and end time are kept, or the record has become terminal with end time `t`. -/
def Evo (t : Nat) (o o' : Order) : Prop :=
  o'.arr = o.arr ∧ ((o'.status = o.status ∧ o'.endt = o.endt) ∨ (isTerminal o'.status = true ∧ o'.endt = t))

theorem Evo.refl (t : Nat) (o : Order) : Evo t o o := ⟨rfl, Or.inl ⟨rfl, rfl⟩⟩

theorem Evo.trans {t : Nat} {a b c : Order} (h1 : Evo t a b) (h2 : Evo t b c) : Evo t a c := by
  refine ⟨h2.1.trans h1.1, ?_⟩
  rcases h2.2 with ⟨hs, he⟩ | h
  · rcases h1.2 with ⟨hs1, he1⟩ | ⟨ht1, he1⟩
    · exact Or.inl ⟨hs.trans hs1, he.trans he1⟩
    · exact Or.inr ⟨by rw [hs]; exact ht1, he.trans he1⟩
  · exact Or.inr h

/-- The match loop: every record of the table, and the aggressor's copy, evolve by `Evo`. -/
theorem matchQ_evo (t : Nat) (q : List Nat) (st : Ref.MatchSt) :
    (∀ (id : Nat) (o : Order), st.orders[id]? = some o →
        ∃ o', (Ref.matchQ t q st).2.orders[id]? = some o' ∧ Evo t o o') ∧
    Evo t st.agg (Ref.matchQ t q st).2.agg ∧
    (∀ (id : Nat), id ∉ q → (Ref.matchQ t q st).2.orders[id]? = st.orders[id]?) := by
  induction q generalizing st with
  | nil => exact ⟨fun id o h => ⟨o, by simpa [Ref.matchQ] using h, Evo.refl t o⟩, by simp [Ref.matchQ, Evo.refl], by simp [Ref.matchQ]⟩
  | cons j q ih =>
    have stop : Ref.matchQ t (j :: q) st = (j :: q, st) →
        (∀ (id : Nat) (o : Order), st.orders[id]? = some o →
          ∃ o', (Ref.matchQ t (j :: q) st).2.orders[id]? = some o' ∧ Evo t o o') ∧
        Evo t st.agg (Ref.matchQ t (j :: q) st).2.agg ∧
        (∀ (id : Nat), id ∉ j :: q → (Ref.matchQ t (j :: q) st).2.orders[id]? = st.orders[id]?) := by
      intro heq; rw [heq]
      exact ⟨fun id o h => ⟨o, h, Evo.refl t o⟩, Evo.refl t _, fun _ _ => rfl⟩
    cases hpass : st.orders[j]? with
    | none => exact stop (by simp [Ref.matchQ, hpass])
    | some pass =>
      by_cases hcond : (decide (st.agg.vol > 0) && Ref.admits st.agg.side st.agg.price pass.price) = true
      · let fill := min st.agg.vol pass.vol
        let pass1 : Order := { pass with vol := pass.vol - fill }
        let pass' : Order := if pass1.vol = 0 then { pass1 with status := .filled, endt := t } else pass1
        let agg1 : Order := { st.agg with vol := st.agg.vol - fill }
        let agg' : Order := if agg1.vol = 0 then { agg1 with status := .filled, endt := t } else agg1
        let tr : Trade := { t := t, side := pass.side, price := pass.price, vol := fill, active := st.agg.id, passive := pass.id }
        let st' : Ref.MatchSt := { orders := st.orders.set j pass', trades := st.trades ++ [tr],
                                   tradeVol := st.tradeVol + fill, agg := agg' }
        have hunf : Ref.matchQ t (j :: q) st = if pass'.vol = 0 then Ref.matchQ t q st' else (j :: q, st') := by
          simp only [Ref.matchQ, hpass, hcond, if_true]
          rfl
        have hpe : Evo t pass pass' := by
          simp only [pass', pass1]
          split
          · exact ⟨rfl, Or.inr ⟨rfl, rfl⟩⟩
          · exact ⟨rfl, Or.inl ⟨rfl, rfl⟩⟩
        have hae : Evo t st.agg agg' := by
          simp only [agg', agg1]
          split
          · exact ⟨rfl, Or.inr ⟨rfl, rfl⟩⟩
          · exact ⟨rfl, Or.inl ⟨rfl, rfl⟩⟩
        have hjlt : j < st.orders.length := (List.getElem?_eq_some_iff.mp hpass).1
        have hst' : ∀ (id : Nat) (o : Order), st.orders[id]? = some o → ∃ o1, st'.orders[id]? = some o1 ∧ Evo t o o1 := by
          intro id o ho
          by_cases hij : id = j
          · subst hij; rw [hpass] at ho; injection ho with ho; subst ho
            exact ⟨pass', by simp [st', hjlt], hpe⟩
          · exact ⟨o, by simp [st', List.getElem?_set, Ne.symm hij, ho], Evo.refl t o⟩
        by_cases hz : pass'.vol = 0
        · rw [hunf, if_pos hz]
          obtain ⟨i1, i2, i3⟩ := ih st'
          refine ⟨?_, hae.trans i2, ?_⟩
          · intro id o ho
            obtain ⟨o1, ho1, he1⟩ := hst' id o ho
            obtain ⟨o2, ho2, he2⟩ := i1 id o1 ho1
            exact ⟨o2, ho2, he1.trans he2⟩
          · intro id hid
            simp only [List.mem_cons, not_or] at hid
            rw [i3 id hid.2]
            simp [st', List.getElem?_set, Ne.symm hid.1]
        · rw [hunf, if_neg hz]
          refine ⟨hst', hae, ?_⟩
          intro id hid
          simp only [List.mem_cons, not_or] at hid
          simp [st', List.getElem?_set, Ne.symm hid.1]
      · apply stop
        simp only [Ref.matchQ, hpass]
        simp only [hcond, Bool.false_eq_true, if_false]

/-- `enter`: the same, with the book time as `t`. -/
theorem enter_evo (s : Ref.RState) (agg : Order) (market : Bool) :
    (∀ (id : Nat) (o : Order), s.orders[id]? = some o →
        ∃ o', (Ref.enter s agg market).1.orders[id]? = some o' ∧ Evo s.t o o') ∧
    Evo s.t agg (Ref.enter s agg market).2 ∧
    (∀ (id : Nat), id ∉ s.queue agg.side.opp → (Ref.enter s agg market).1.orders[id]? = s.orders[id]?) := by
  have hmp : (∀ (id : Nat) (o : Order), s.orders[id]? = some o →
        ∃ o', (Ref.matchPhase s agg).1.orders[id]? = some o' ∧ Evo s.t o o') ∧
      Evo s.t agg (Ref.matchPhase s agg).2 ∧ (Ref.matchPhase s agg).1.t = s.t ∧
      (∀ (id : Nat), id ∉ s.queue agg.side.opp → (Ref.matchPhase s agg).1.orders[id]? = s.orders[id]?) := by
    unfold Ref.matchPhase
    split
    · obtain ⟨h1, h2, h3⟩ := matchQ_evo s.t (s.queue agg.side.opp)
        { orders := s.orders, trades := s.trades, tradeVol := s.tradeVol, agg := agg }
      exact ⟨h1, h2, setQueue_t _ _ _, h3⟩
    · exact ⟨fun id o h => ⟨o, h, Evo.refl _ o⟩, Evo.refl _ _, rfl, fun _ _ => rfl⟩
  rw [Ref.enter_eq]
  split
  · exact ⟨fun id o h => ⟨o, h, Evo.refl _ o⟩, ⟨rfl, Or.inr ⟨rfl, rfl⟩⟩, fun _ _ => rfl⟩
  · obtain ⟨g1, g2, g3, g4⟩ := hmp
    split
    · exact ⟨g1, g2, g4⟩
    · split
      · exact ⟨g1, ⟨g2.1, Or.inr ⟨rfl, g3⟩⟩, g4⟩
      · refine ⟨?_, g2, ?_⟩
        · intro id o ho
          obtain ⟨o', ho', he⟩ := g1 id o ho
          exact ⟨o', by rw [setQueue_orders]; exact ho', he⟩
        · intro id hid; rw [setQueue_orders]; exact g4 id hid

end Bourse

namespace Bourse

/-- What one operation at book time `t` may do to the time fields of an order record. -/
structure StepT (t : Nat) (o o' : Order) : Prop where
  /-- after placement the arrival time never changes -/
  arrKept : o.status ≠ .new → o'.arr = o.arr
  /-- a New order is untouched, or has been placed now -/
  arrSet : o.status = .new → o' = o ∨ (o'.status ≠ .new ∧ o'.arr = t)
  /-- the end time changes only at the moment the order becomes terminal … -/
  endKept : ¬(isTerminal o'.status = true ∧ isTerminal o.status = false) → o'.endt = o.endt
  /-- … and then it is the book time -/
  endSet : isTerminal o'.status = true → isTerminal o.status = false → o'.endt = t
  /-- a terminal record never changes -/
  term : isTerminal o.status = true → o' = o

theorem StepT.of_eq (t : Nat) (o : Order) : StepT t o o := by
  refine ⟨fun _ => rfl, fun _ => Or.inl rfl, fun _ => rfl, ?_, fun _ => rfl⟩
  intro h1 h2; rw [h1] at h2; cases h2

theorem StepT.of_kept_active {t : Nat} {o o' : Order} (ha : o.status = .active) (harr : o'.arr = o.arr)
    (hst : o'.status = o.status) (hend : o'.endt = o.endt) : StepT t o o' := by
  refine ⟨fun _ => harr, ?_, fun _ => hend, ?_, ?_⟩
  · intro h; rw [ha] at h; cases h
  · intro h1 h2
    rw [hst, h2] at h1
    cases h1
  · intro h; rw [ha] at h; cases h

theorem StepT.cancelled (t : Nat) (o : Order) (ha : o.status = .active) :
    StepT t o { o with status := .cancelled, endt := t } := by
  refine ⟨fun _ => rfl, ?_, ?_, fun _ _ => rfl, ?_⟩
  · intro h; rw [ha] at h; cases h
  · intro h; exact absurd ⟨rfl, by rw [ha]; rfl⟩ h
  · intro h; rw [ha] at h; cases h

theorem StepT.of_evo_active {t : Nat} {o o' : Order} (ha : o.status = .active) (he : Evo t o o') : StepT t o o' := by
  refine ⟨fun _ => he.1, ?_, ?_, ?_, ?_⟩
  · intro h; rw [ha] at h; cases h
  · intro hn
    rcases he.2 with ⟨_, h2⟩ | ⟨h1, _⟩
    · exact h2
    · exact absurd ⟨h1, by rw [ha]; rfl⟩ hn
  · intro h1 _
    rcases he.2 with ⟨h3, _⟩ | ⟨_, h4⟩
    · rw [h3, ha] at h1; cases h1
    · exact h4
  · intro h; rw [ha] at h; cases h

/-- Entering order `id` (out of both queues; `agg` agrees with the stored record `o0` on arrival
time, status and end time unless stated) and writing the result back: every other record. -/
theorem enter_other_times (s : Ref.RState) (hw : QWf s) (agg : Order) (market : Bool) (id0 : Nat)
    (id : Nat) (o : Order) (ho : s.orders[id]? = some o) (hne : id ≠ id0) :
    ∃ o', ((Ref.enter s agg market).1.orders.set id0 (Ref.enter s agg market).2)[id]? = some o' ∧ StepT s.t o o' := by
  obtain ⟨e1, _, e3⟩ := enter_evo s agg market
  by_cases ha : o.status = .active
  · obtain ⟨o', ho', he⟩ := e1 id o ho
    exact ⟨o', by simp [List.getElem?_set, Ne.symm hne, ho'], StepT.of_evo_active ha he⟩
  · have hnq : id ∉ s.queue agg.side.opp := by
      intro hm
      obtain ⟨o', ho', ha', _⟩ := hw.qok _ id hm
      rw [ho] at ho'; injection ho' with ho'; subst ho'
      exact ha ha'
    exact ⟨o, by simp [List.getElem?_set, Ne.symm hne, e3 id hnq, ho], StepT.of_eq _ o⟩

theorem place_times (s : Ref.RState) (hw : QWf s) (id0 id : Nat) (o : Order) (ho : s.orders[id]? = some o) :
    ∃ o', (Ref.place s id0).orders[id]? = some o' ∧ StepT s.t o o' := by
  cases h0 : s.orders[id0]? with
  | none => exact ⟨o, by simp [Ref.place, h0, ho], StepT.of_eq _ o⟩
  | some o0 =>
    by_cases hn : o0.status = .new
    · have hpl : Ref.place s id0 =
          { (Ref.enter s { o0 with status := .active, arr := s.t } (Book.isMarket o0)).1 with
            orders := (Ref.enter s { o0 with status := .active, arr := s.t } (Book.isMarket o0)).1.orders.set id0
              (Ref.enter s { o0 with status := .active, arr := s.t } (Book.isMarket o0)).2 } := by
        simp only [Ref.place, h0, hn]; rfl
      rw [hpl]
      by_cases hii : id = id0
      · subst hii
        rw [h0] at ho; injection ho with ho; subst ho
        obtain ⟨e1, e2, _⟩ := enter_evo s { o0 with status := .active, arr := s.t } (Book.isMarket o0)
        obtain ⟨o1, ho1, _⟩ := e1 id o0 h0
        have hlt : id < (Ref.enter s { o0 with status := .active, arr := s.t } (Book.isMarket o0)).1.orders.length :=
          (List.getElem?_eq_some_iff.mp ho1).1
        refine ⟨(Ref.enter s { o0 with status := .active, arr := s.t } (Book.isMarket o0)).2, by simp [hlt], ?_⟩
        refine ⟨fun h => absurd hn h, fun _ => Or.inr ⟨?_, e2.1⟩, ?_, ?_, ?_⟩
        rotate_right 1
        · intro h; rw [hn] at h; cases h
        · rcases e2.2 with ⟨h1, _⟩ | ⟨h1, _⟩
          · rw [h1]; simp
          · intro hc; rw [hc] at h1; cases h1
        · intro hnn
          rcases e2.2 with ⟨_, h2⟩ | ⟨h1, _⟩
          · exact h2
          · exact absurd ⟨h1, by rw [hn]; rfl⟩ hnn
        · intro h1 _
          rcases e2.2 with ⟨h3, _⟩ | ⟨_, h4⟩
          · rw [h3] at h1; cases h1
          · exact h4
      · exact enter_other_times s hw _ _ id0 id o ho hii
    · exact ⟨o, by simp [Ref.place, h0, hn, ho], StepT.of_eq _ o⟩

theorem cancel_times (s : Ref.RState) (id0 id : Nat) (o : Order) (ho : s.orders[id]? = some o) :
    ∃ o', (Ref.cancel s id0).orders[id]? = some o' ∧ StepT s.t o o' := by
  cases h0 : s.orders[id0]? with
  | none => exact ⟨o, by simp [Ref.cancel, h0, ho], StepT.of_eq _ o⟩
  | some o0 =>
    by_cases ha : o0.status = .active
    · have hc : Ref.cancel s id0 = { (s.setQueue o0.side ((s.queue o0.side).erase id0)) with
          orders := s.orders.set id0 { o0 with status := .cancelled, endt := s.t } } := by
        simp only [Ref.cancel, h0, ha, if_true]
      rw [hc]
      by_cases hii : id = id0
      · subst hii
        rw [h0] at ho; injection ho with ho; subst ho
        exact ⟨{ o0 with status := .cancelled, endt := s.t }, by simp [(List.getElem?_eq_some_iff.mp h0).1],
          StepT.cancelled s.t o0 ha⟩
      · exact ⟨o, by simp [List.getElem?_set, Ne.symm hii, ho], StepT.of_eq _ o⟩
    · exact ⟨o, by simp [Ref.cancel, h0, ha, ho], StepT.of_eq _ o⟩

theorem modify_times (s : Ref.RState) (hw : QWf s) (id0 : Nat) (np nv : Option Nat) (id : Nat) (o : Order)
    (ho : s.orders[id]? = some o) :
    ∃ o', (Ref.modify s id0 np nv).orders[id]? = some o' ∧ StepT s.t o o' := by
  have same : Ref.modify s id0 np nv = s → ∃ o', (Ref.modify s id0 np nv).orders[id]? = some o' ∧ StepT s.t o o' := by
    intro heq; rw [heq]; exact ⟨o, ho, StepT.of_eq _ o⟩
  cases h0 : s.orders[id0]? with
  | none => exact same (by simp [Ref.modify, h0])
  | some o0 =>
    by_cases hg : Book.offGrid s.tick np = true
    · exact same (by simp [Ref.modify, h0, hg])
    · have hgf : Book.offGrid s.tick np = false := by simpa using hg
      by_cases ha : o0.status = .active
      · have hlt : id0 < s.orders.length := (List.getElem?_eq_some_iff.mp h0).1
        have reduce : ∀ v, Ref.modify s id0 np nv = { s with orders := s.orders.set id0 { o0 with vol := v } } →
            ∃ o', (Ref.modify s id0 np nv).orders[id]? = some o' ∧ StepT s.t o o' := by
          intro v heq; rw [heq]
          by_cases hii : id = id0
          · subst hii; rw [h0] at ho; injection ho with ho; subst ho
            exact ⟨{ o0 with vol := v }, by simp [hlt],
              StepT.of_kept_active ha rfl rfl rfl⟩
          · exact ⟨o, by simp [List.getElem?_set, Ne.symm hii, ho], StepT.of_eq _ o⟩
        have replace : Ref.modify s id0 np nv =
              { (Ref.enter (s.setQueue o0.side ((s.queue o0.side).erase id0))
                    { o0 with vol := nv.getD o0.vol, price := np.getD o0.price } false).1 with
                orders := (Ref.enter (s.setQueue o0.side ((s.queue o0.side).erase id0))
                    { o0 with vol := nv.getD o0.vol, price := np.getD o0.price } false).1.orders.set id0
                  (Ref.enter (s.setQueue o0.side ((s.queue o0.side).erase id0))
                    { o0 with vol := nv.getD o0.vol, price := np.getD o0.price } false).2 } →
            ∃ o', (Ref.modify s id0 np nv).orders[id]? = some o' ∧ StepT s.t o o' := by
          intro heq; rw [heq]
          have hw1 : QWf (s.setQueue o0.side ((s.queue o0.side).erase id0)) := by
            refine ⟨by simpa using hw.ids, ?_, ?_⟩
            · intro sd j hj
              rw [queue_setQueue'] at hj
              have : j ∈ s.queue sd := by
                split at hj
                · rename_i h; subst h; exact List.mem_of_mem_erase hj
                · exact hj
              simpa using hw.qok sd j this
            · intro sd; rw [queue_setQueue']; split
              · exact (hw.nd _).erase _
              · exact hw.nd _
          have ht1 : (s.setQueue o0.side ((s.queue o0.side).erase id0)).t = s.t := setQueue_t _ _ _
          by_cases hii : id = id0
          · subst hii; rw [h0] at ho; injection ho with ho; subst ho
            obtain ⟨e1, e2, _⟩ := enter_evo (s.setQueue o0.side ((s.queue o0.side).erase id))
              { o0 with vol := nv.getD o0.vol, price := np.getD o0.price } false
            obtain ⟨o1, ho1, _⟩ := e1 id o0 (by simpa using h0)
            have hlt' := (List.getElem?_eq_some_iff.mp ho1).1
            refine ⟨(Ref.enter (s.setQueue o0.side ((s.queue o0.side).erase id))
              { o0 with vol := nv.getD o0.vol, price := np.getD o0.price } false).2, by simp [hlt'], ?_⟩
            rw [ht1] at e2
            exact StepT.of_evo_active ha ⟨e2.1, e2.2⟩
          · have := enter_other_times (s.setQueue o0.side ((s.queue o0.side).erase id0)) hw1
              { o0 with vol := nv.getD o0.vol, price := np.getD o0.price } false id0 id o (by simpa using ho) hii
            rw [ht1] at this
            exact this
        cases np with
        | none =>
          cases nv with
          | none => exact same (by simp [Ref.modify, h0, ha, Book.offGrid])
          | some v =>
            by_cases hlt' : v < o0.vol
            · exact reduce v (by simp [Ref.modify, h0, ha, hlt', Book.offGrid])
            · exact replace (by simp [Ref.modify, h0, ha, hlt', Book.offGrid])
        | some p =>
          cases nv with
          | none => exact replace (by simp [Ref.modify, h0, ha, hgf])
          | some v => exact replace (by simp [Ref.modify, h0, ha, hgf])
      · exact same (by simp [Ref.modify, h0, hgf, ha])
where
  queue_setQueue' (s : Ref.RState) (sd sd' : Side) (q : List Nat) :
      (s.setQueue sd q).queue sd' = if sd' = sd then q else s.queue sd' := by
    cases sd <;> cases sd' <;> simp [Ref.RState.setQueue, Ref.RState.queue]

end Bourse

namespace Bourse

theorem create_times (s : Ref.RState) (sd : Side) (vol tr : Nat) (p : Option Nat) (id : Nat) (o : Order)
    (ho : s.orders[id]? = some o) : (Ref.create s sd vol tr p).1.orders[id]? = some o := by
  have hlt : id < s.orders.length := (List.getElem?_eq_some_iff.mp ho).1
  have app : ∀ x : Order, (s.orders ++ [x])[id]? = some o := by
    intro x; rw [List.getElem?_append_left hlt]; exact ho
  cases p with
  | none => exact app _
  | some q =>
    simp only [Ref.create]
    split
    · exact ho
    · exact app _

/-- **Every operation of the reference engine treats the time fields as documented.** -/
theorem ref_step_times (s : Ref.RState) (hw : QWf s) (op : Op) (id : Nat) (o : Order) (ho : s.orders[id]? = some o) :
    ∃ o', (Ref.step s op).1.orders[id]? = some o' ∧ StepT s.t o o' := by
  cases op with
  | create sd vol tr p => exact ⟨o, create_times s sd vol tr p id o ho, StepT.of_eq _ o⟩
  | place id0 => exact place_times s hw id0 id o ho
  | cap sd vol tr p =>
    have hc := create_times s sd vol tr p id o ho
    have hwc := qwf_create s hw sd vol tr p
    have hct : (Ref.create s sd vol tr p).1.t = s.t := by
      cases p with
      | none => rfl
      | some q => simp only [Ref.create]; split <;> rfl
    simp only [Ref.step]
    cases hres : (Ref.create s sd vol tr p).2 with
    | ok id0 =>
      have hsplit : Ref.create s sd vol tr p = ((Ref.create s sd vol tr p).1, .ok id0) := by rw [← hres]
      rw [hsplit]
      have := place_times _ hwc id0 id o hc
      rw [hct] at this
      exact this
    | err q t => have hsplit : Ref.create s sd vol tr p = ((Ref.create s sd vol tr p).1, .err q t) := by rw [← hres]
                 rw [hsplit]; exact ⟨o, hc, StepT.of_eq _ o⟩
    | unit => have hsplit : Ref.create s sd vol tr p = ((Ref.create s sd vol tr p).1, .unit) := by rw [← hres]
              rw [hsplit]; exact ⟨o, hc, StepT.of_eq _ o⟩
    | panic => have hsplit : Ref.create s sd vol tr p = ((Ref.create s sd vol tr p).1, .panic) := by rw [← hres]
               rw [hsplit]; exact ⟨o, hc, StepT.of_eq _ o⟩
  | cancel id0 => exact cancel_times s id0 id o ho
  | modify id0 np nv => exact modify_times s hw id0 np nv id o ho
  | ev e =>
    cases e with
    | new id0 => exact place_times s hw id0 id o ho
    | cancel id0 => exact cancel_times s id0 id o ho
    | modify id0 np nv => exact modify_times s hw id0 np nv id o ho
  | time t => exact ⟨o, ho, StepT.of_eq _ o⟩
  | trading on => exact ⟨o, ho, StepT.of_eq _ o⟩
  | resetVol => exact ⟨o, ho, StepT.of_eq _ o⟩
  | reload => exact ⟨o, ho, StepT.of_eq _ o⟩

/-- **Transfer to the implementation model**: in every state satisfying the invariant, a valid
operation that does not fault treats the arrival and end time of every existing order as documented,
`t` being the book time at the operation. -/
theorem step_times {b : Book} (h : Inv b) (op : Op) (hv : ValidOp op) (hnf : (b.step op).1.faulted = false)
    (id : Nat) (e : Entry) (he : b.orders[id]? = some e) :
    ∃ e', (b.step op).1.orders[id]? = some e' ∧ StepT b.t e.order e'.order := by
  obtain ⟨o', ho', hs⟩ := ref_step_times (abs b) (qwf_abs h) op id e.order (by rw [abs_get, he]; rfl)
  rw [← (step_refines h op hv hnf).1, abs_get] at ho'
  cases he' : (b.step op).1.orders[id]? with
  | none => rw [he'] at ho'; cases ho'
  | some e' => rw [he'] at ho'; injection ho' with ho'; subst ho'; exact ⟨e', rfl, hs⟩

end Bourse

namespace Bourse

theorem enter_none (s : Ref.RState) (hw : QWf s) (agg : Order) (market : Bool) (id0 id : Nat) (o0 : Order)
    (h0 : s.orders[id0]? = some o0) (hn : s.orders[id]? = none) :
    ((Ref.enter s agg market).1.orders.set id0 (Ref.enter s agg market).2)[id]? = none := by
  obtain ⟨_, _, e3⟩ := enter_evo s agg market
  have hnq : id ∉ s.queue agg.side.opp := by
    intro hm
    obtain ⟨o', ho', _⟩ := hw.qok _ id hm
    rw [hn] at ho'; cases ho'
  have hne : id ≠ id0 := by intro h; subst h; rw [h0] at hn; cases hn
  simp [List.getElem?_set, Ne.symm hne, e3 id hnq, hn]

theorem place_none (s : Ref.RState) (hw : QWf s) (id0 id : Nat) (hn : s.orders[id]? = none) :
    (Ref.place s id0).orders[id]? = none := by
  cases h0 : s.orders[id0]? with
  | none => simp [Ref.place, h0, hn]
  | some o0 =>
    by_cases hnew : o0.status = .new
    · have hpl : Ref.place s id0 =
          { (Ref.enter s { o0 with status := .active, arr := s.t } (Book.isMarket o0)).1 with
            orders := (Ref.enter s { o0 with status := .active, arr := s.t } (Book.isMarket o0)).1.orders.set id0
              (Ref.enter s { o0 with status := .active, arr := s.t } (Book.isMarket o0)).2 } := by
        simp only [Ref.place, h0, hnew]; rfl
      rw [hpl]
      exact enter_none s hw _ _ id0 id o0 h0 hn
    · simp [Ref.place, h0, hnew, hn]

theorem cancel_none (s : Ref.RState) (id0 id : Nat) (hn : s.orders[id]? = none) :
    (Ref.cancel s id0).orders[id]? = none := by
  cases h0 : s.orders[id0]? with
  | none => simp [Ref.cancel, h0, hn]
  | some o0 =>
    by_cases ha : o0.status = .active
    · have hc : Ref.cancel s id0 = { (s.setQueue o0.side ((s.queue o0.side).erase id0)) with
          orders := s.orders.set id0 { o0 with status := .cancelled, endt := s.t } } := by
        simp only [Ref.cancel, h0, ha, if_true]
      rw [hc]
      exact getElem?_set_none _ _ _ _ hn
    · simp [Ref.cancel, h0, ha, hn]

theorem modify_none (s : Ref.RState) (hw : QWf s) (id0 : Nat) (np nv : Option Nat) (id : Nat) (hn : s.orders[id]? = none) :
    (Ref.modify s id0 np nv).orders[id]? = none := by
  cases h : (Ref.modify s id0 np nv).orders[id]? with
  | none => rfl
  | some o' =>
    -- a fresh record would exist only if the table grew; `modify` keeps every index
    exfalso
    have hlen : (Ref.modify s id0 np nv).orders.length = s.orders.length := by
      cases h0 : s.orders[id0]? with
      | none => simp [Ref.modify, h0]
      | some o0 =>
        by_cases hg : Book.offGrid s.tick np = true
        · simp [Ref.modify, h0, hg]
        · have hgf : Book.offGrid s.tick np = false := by simpa using hg
          by_cases ha : o0.status = .active
          · have hq1 : ∀ sd, (s.setQueue o0.side ((s.queue o0.side).erase id0)).queue sd =
                if sd = o0.side then (s.queue o0.side).erase id0 else s.queue sd := by
              intro sd; cases sd <;> cases hs : o0.side <;> simp [Ref.RState.setQueue, Ref.RState.queue]
            have hw1 : QWf (s.setQueue o0.side ((s.queue o0.side).erase id0)) := by
              refine ⟨by simpa using hw.ids, ?_, ?_⟩
              · intro sd j hj
                rw [hq1] at hj
                have : j ∈ s.queue sd := by
                  split at hj
                  · rename_i h; subst h; exact List.mem_of_mem_erase hj
                  · exact hj
                simpa using hw.qok sd j this
              · intro sd; rw [hq1]; split
                · exact (hw.nd _).erase _
                · exact hw.nd _
            have hout : o0.id ∉ (s.setQueue o0.side ((s.queue o0.side).erase id0)).queue o0.side.opp := by
              rw [hq1]
              have hid : o0.id = id0 := hw.ids id0 o0 h0
              rw [hid]
              split
              · rename_i hh; exact absurd hh.symm (side_ne_opp' o0.side)
              · intro hm
                obtain ⟨o', ho', _, hs', _⟩ := hw.qok _ id0 hm
                rw [h0] at ho'; injection ho' with ho'; subst ho'
                exact side_ne_opp' _ hs'
            have repl : Ref.modify s id0 np nv =
                  { (Ref.enter (s.setQueue o0.side ((s.queue o0.side).erase id0))
                        { o0 with vol := nv.getD o0.vol, price := np.getD o0.price } false).1 with
                    orders := (Ref.enter (s.setQueue o0.side ((s.queue o0.side).erase id0))
                        { o0 with vol := nv.getD o0.vol, price := np.getD o0.price } false).1.orders.set id0
                      (Ref.enter (s.setQueue o0.side ((s.queue o0.side).erase id0))
                        { o0 with vol := nv.getD o0.vol, price := np.getD o0.price } false).2 } →
                (Ref.modify s id0 np nv).orders.length = s.orders.length := by
              intro heq
              rw [heq]
              obtain ⟨_, _, _, _, _, _, _, _, _, g9⟩ := enter_ledger (s.setQueue o0.side ((s.queue o0.side).erase id0)) hw1
                { o0 with vol := nv.getD o0.vol, price := np.getD o0.price } false hout
              simp only [List.length_set]
              rw [g9]; simp
            cases np with
            | none =>
              cases nv with
              | none => simp [Ref.modify, h0, ha, Book.offGrid]
              | some v =>
                by_cases hlt' : v < o0.vol
                · simp [Ref.modify, h0, ha, hlt', Book.offGrid]
                · exact repl (by simp [Ref.modify, h0, ha, hlt', Book.offGrid])
            | some p =>
              cases nv with
              | none => exact repl (by simp [Ref.modify, h0, ha, hgf])
              | some v => exact repl (by simp [Ref.modify, h0, ha, hgf])
          · simp [Ref.modify, h0, hgf, ha]
    have h1 : id < (Ref.modify s id0 np nv).orders.length := (List.getElem?_eq_some_iff.mp h).1
    have h2 : s.orders.length ≤ id := List.getElem?_eq_none_iff.mp hn
    omega
where
  side_ne_opp' (sd : Side) : sd ≠ sd.opp := by cases sd <;> simp [Side.opp]

end Bourse

namespace Bourse

/-- Orders that are not (yet) terminal carry no end time. -/
def OpenNoEnd (s : Ref.RState) : Prop :=
  ∀ (id : Nat) (o : Order), s.orders[id]? = some o → isTerminal o.status = false → o.endt = MAXT

theorem openNoEnd_of_times {s s' : Ref.RState} {t : Nat} (hP : OpenNoEnd s)
    (hex : ∀ (id : Nat) (o : Order), s.orders[id]? = some o → ∃ o', s'.orders[id]? = some o' ∧ StepT t o o')
    (hfresh : ∀ (id : Nat) (o' : Order), s.orders[id]? = none → s'.orders[id]? = some o' →
      isTerminal o'.status = false → o'.endt = MAXT) : OpenNoEnd s' := by
  intro id o' ho' hnt
  cases hs : s.orders[id]? with
  | none => exact hfresh id o' hs ho' hnt
  | some o =>
    obtain ⟨o'', ho'', hst⟩ := hex id o hs
    rw [ho'] at ho''; injection ho'' with ho''; subst ho''
    have hont : isTerminal o.status = false := by
      cases hc : isTerminal o.status with
      | false => rfl
      | true => rw [hst.term hc, hc] at hnt; cases hnt
    rw [hst.endKept (by rw [hnt]; simp)]
    exact hP id o hs hont

theorem create_fresh (s : Ref.RState) (sd : Side) (vol tr : Nat) (p : Option Nat) (id : Nat) (o' : Order)
    (hn : s.orders[id]? = none) (hs : (Ref.create s sd vol tr p).1.orders[id]? = some o') :
    o' = Book.mkOrder s.t sd vol tr p s.orders.length := by
  have hge : s.orders.length ≤ id := List.getElem?_eq_none_iff.mp hn
  have app : ∀ x : Order, (s.orders ++ [x])[id]? = some o' → o' = x := by
    intro x hx
    rw [List.getElem?_append_right hge] at hx
    cases hk : id - s.orders.length with
    | zero => rw [hk] at hx; simpa using hx.symm
    | succ n => rw [hk] at hx; simp at hx
  cases p with
  | none => exact app _ hs
  | some q =>
    simp only [Ref.create] at hs
    split at hs
    · rw [hn] at hs; cases hs
    · exact app _ hs

/-- **Open orders have no end time**, preserved by every operation of the reference engine. -/
theorem ref_step_openNoEnd (s : Ref.RState) (hw : QWf s) (hP : OpenNoEnd s) (op : Op) :
    OpenNoEnd (Ref.step s op).1 := by
  have nofresh : (∀ (id : Nat), s.orders[id]? = none → (Ref.step s op).1.orders[id]? = none) →
      OpenNoEnd (Ref.step s op).1 := by
    intro hnone
    refine openNoEnd_of_times hP (fun id o ho => ref_step_times s hw op id o ho) ?_
    intro id o' hn hs; rw [hnone id hn] at hs; cases hs
  have hcreate : ∀ sd vol tr p, OpenNoEnd (Ref.create s sd vol tr p).1 := by
    intro sd vol tr p
    refine openNoEnd_of_times (t := s.t) hP (fun id o ho => ⟨o, create_times s sd vol tr p id o ho, StepT.of_eq _ o⟩) ?_
    intro id o' hn hs _
    rw [create_fresh s sd vol tr p id o' hn hs]
    rfl
  cases op with
  | create sd vol tr p => exact hcreate sd vol tr p
  | place id0 => exact nofresh (fun id hn => place_none s hw id0 id hn)
  | cap sd vol tr p =>
    have hwc := qwf_create s hw sd vol tr p
    simp only [Ref.step]
    cases hres : (Ref.create s sd vol tr p).2 with
    | ok id0 =>
      have hsplit : Ref.create s sd vol tr p = ((Ref.create s sd vol tr p).1, .ok id0) := by rw [← hres]
      rw [hsplit]
      simp only
      refine openNoEnd_of_times (hcreate sd vol tr p) (fun id o ho => place_times _ hwc id0 id o ho) ?_
      intro id o' hn hs; rw [place_none _ hwc id0 id hn] at hs; cases hs
    | err q t => have hsplit : Ref.create s sd vol tr p = ((Ref.create s sd vol tr p).1, .err q t) := by rw [← hres]
                 rw [hsplit]; exact hcreate sd vol tr p
    | unit => have hsplit : Ref.create s sd vol tr p = ((Ref.create s sd vol tr p).1, .unit) := by rw [← hres]
              rw [hsplit]; exact hcreate sd vol tr p
    | panic => have hsplit : Ref.create s sd vol tr p = ((Ref.create s sd vol tr p).1, .panic) := by rw [← hres]
               rw [hsplit]; exact hcreate sd vol tr p
  | cancel id0 => exact nofresh (fun id hn => cancel_none s id0 id hn)
  | modify id0 np nv => exact nofresh (fun id hn => modify_none s hw id0 np nv id hn)
  | ev e =>
    cases e with
    | new id0 => exact nofresh (fun id hn => place_none s hw id0 id hn)
    | cancel id0 => exact nofresh (fun id hn => cancel_none s id0 id hn)
    | modify id0 np nv => exact nofresh (fun id hn => modify_none s hw id0 np nv id hn)
  | time t => exact nofresh (fun id hn => hn)
  | trading on => exact nofresh (fun id hn => hn)
  | resetVol => exact nofresh (fun id hn => hn)
  | reload => exact nofresh (fun id hn => hn)

/-- Over every valid fault-free history from a state satisfying the invariant. -/
theorem openNoEnd_run {b : Book} (h : Inv b) (hP : OpenNoEnd (abs b)) (ops : List Op)
    (hv : ∀ op ∈ ops, ValidOp op) (hnf : NoFault b ops) : OpenNoEnd (abs (b.run ops)) := by
  induction ops generalizing b with
  | nil => exact hP
  | cons op rest ih =>
    simp only [Book.run, List.foldl_cons]
    have hs : OpenNoEnd (abs (b.step op).1) := by
      rw [(step_refines h op (hv op List.mem_cons_self) hnf.1).1]
      exact ref_step_openNoEnd (abs b) (qwf_abs h) hP op
    exact ih (inv_step h op (hv op List.mem_cons_self) hnf.1) hs
      (fun o ho => hv o (List.mem_cons_of_mem _ ho)) hnf.2

end Bourse
