/-
The trade ledger of the reference engine (C03): what one run of the match loop appends to the
log, and how it accounts for every unit of volume the aggressor and the resting orders lose.
Transferred to the implementation model through the refinement theorem.
-/
import Bourse.Lemmas.RefineStep

namespace Bourse

/-- Total volume of the trades of `ts` in which order `id` took part (as aggressor or passive). -/
def tradedOf (id : Nat) (ts : List Trade) : Nat :=
  ((ts.filter (fun tr => tr.active == id || tr.passive == id)).map (·.vol)).sum

theorem tradedOf_nil (id : Nat) : tradedOf id [] = 0 := rfl

theorem tradedOf_append (id : Nat) (a b : List Trade) : tradedOf id (a ++ b) = tradedOf id a + tradedOf id b := by
  simp [tradedOf, List.filter_append]

theorem tradedOf_cons (id : Nat) (tr : Trade) (ts : List Trade) :
    tradedOf id (tr :: ts) = (if tr.active = id ∨ tr.passive = id then tr.vol else 0) + tradedOf id ts := by
  by_cases h : tr.active = id ∨ tr.passive = id
  · have : (tr.active == id || tr.passive == id) = true := by
      rcases h with h | h <;> simp [h]
    simp [tradedOf, List.filter_cons, this, h]
  · have : (tr.active == id || tr.passive == id) = false := by
      simp only [not_or] at h
      simp [h.1, h.2]
    simp [tradedOf, List.filter_cons, this, h]

/-- A trade record produced by an aggressor `agg` against the table `os`. -/
structure TradeOk (t : Nat) (os : List Order) (agg : Order) (q : List Nat) (tr : Trade) : Prop where
  time : tr.t = t
  pos : 0 < tr.vol
  act : tr.active = agg.id
  pas : tr.passive ∈ q
  side : tr.side = agg.side.opp
  adm : Ref.admits agg.side agg.price tr.price = true
  entry : ∃ o, os[tr.passive]? = some o ∧ o.price = tr.price ∧ o.side = tr.side

/-- Identity fields of an order record (everything but volume, status and end time). -/
def sameIdent (o o' : Order) : Prop :=
  o'.id = o.id ∧ o'.side = o.side ∧ o'.trader = o.trader ∧ o'.arr = o.arr ∧ o'.svol = o.svol ∧ o'.price = o.price

theorem sameIdent.refl (o : Order) : sameIdent o o := ⟨rfl, rfl, rfl, rfl, rfl, rfl⟩

theorem sameIdent.trans {a b c : Order} (h1 : sameIdent a b) (h2 : sameIdent b c) : sameIdent a c :=
  ⟨h2.1.trans h1.1, h2.2.1.trans h1.2.1, h2.2.2.1.trans h1.2.2.1, h2.2.2.2.1.trans h1.2.2.2.1,
   h2.2.2.2.2.1.trans h1.2.2.2.2.1, h2.2.2.2.2.2.trans h1.2.2.2.2.2⟩

/-- **The ledger of one run of the reference match loop.** If every queued id names a record with
that id, positive volume, on the side opposite the aggressor, ids in the queue are distinct and the
aggressor is not queued, then: the log grows by a suffix of well-formed records, the counter grows
by their total volume, the aggressor lost exactly the volume of its new trades, and every other
order lost exactly the volume of the new trades it took part in — nothing else about it changed
but volume, status and end time. -/
theorem matchQ_ledger (t : Nat) (q : List Nat) (st : Ref.MatchSt)
    (hq : ∀ j ∈ q, ∃ o, st.orders[j]? = some o ∧ o.id = j ∧ 0 < o.vol ∧ o.side = st.agg.side.opp)
    (hnd : q.Nodup) (hagg : st.agg.id ∉ q) :
    ∃ new, (Ref.matchQ t q st).2.trades = st.trades ++ new ∧
      (Ref.matchQ t q st).2.tradeVol = st.tradeVol + (new.map (·.vol)).sum ∧
      (∀ tr ∈ new, TradeOk t st.orders st.agg q tr) ∧
      (Ref.matchQ t q st).2.agg.vol + tradedOf st.agg.id new = st.agg.vol ∧
      sameIdent st.agg (Ref.matchQ t q st).2.agg ∧
      (∀ (id : Nat) (o : Order), st.orders[id]? = some o → id ≠ st.agg.id →
        ∃ o', (Ref.matchQ t q st).2.orders[id]? = some o' ∧ o'.vol + tradedOf id new = o.vol ∧ sameIdent o o') ∧
      (∀ (id : Nat), st.orders[id]? = none → (Ref.matchQ t q st).2.orders[id]? = none) ∧
      (Ref.matchQ t q st).2.orders.length = st.orders.length := by
  induction q generalizing st with
  | nil =>
    refine ⟨[], by simp [Ref.matchQ], by simp [Ref.matchQ], by simp, by simp [Ref.matchQ, tradedOf_nil],
      by simp [Ref.matchQ, sameIdent.refl], ?_, by simp [Ref.matchQ], by simp [Ref.matchQ]⟩
    intro id o ho _
    exact ⟨o, by simpa [Ref.matchQ] using ho, by simp [tradedOf_nil], sameIdent.refl o⟩
  | cons j q ih =>
    obtain ⟨pass, hpass, hpid, hpv, hps⟩ := hq j List.mem_cons_self
    have hnd' := List.nodup_cons.mp hnd
    have stop : Ref.matchQ t (j :: q) st = (j :: q, st) →
        ∃ new, (Ref.matchQ t (j :: q) st).2.trades = st.trades ++ new ∧
          (Ref.matchQ t (j :: q) st).2.tradeVol = st.tradeVol + (new.map (·.vol)).sum ∧
          (∀ tr ∈ new, TradeOk t st.orders st.agg (j :: q) tr) ∧
          (Ref.matchQ t (j :: q) st).2.agg.vol + tradedOf st.agg.id new = st.agg.vol ∧
          sameIdent st.agg (Ref.matchQ t (j :: q) st).2.agg ∧
          (∀ (id : Nat) (o : Order), st.orders[id]? = some o → id ≠ st.agg.id →
            ∃ o', (Ref.matchQ t (j :: q) st).2.orders[id]? = some o' ∧ o'.vol + tradedOf id new = o.vol ∧ sameIdent o o') ∧
          (∀ (id : Nat), st.orders[id]? = none → (Ref.matchQ t (j :: q) st).2.orders[id]? = none) ∧
          (Ref.matchQ t (j :: q) st).2.orders.length = st.orders.length := by
      intro heq
      rw [heq]
      refine ⟨[], by simp, by simp, by simp, by simp [tradedOf_nil], sameIdent.refl _, ?_, fun id h => h, rfl⟩
      intro id o ho _
      exact ⟨o, ho, by simp [tradedOf_nil], sameIdent.refl o⟩
    by_cases hcond : (decide (st.agg.vol > 0) && Ref.admits st.agg.side st.agg.price pass.price) = true
    · -- one fill
      have hav : 0 < st.agg.vol := by
        simp only [Bool.and_eq_true, decide_eq_true_eq] at hcond; exact hcond.1
      have hadm : Ref.admits st.agg.side st.agg.price pass.price = true := by
        simp only [Bool.and_eq_true] at hcond; exact hcond.2
      -- the pieces of the step, named
      let fill := min st.agg.vol pass.vol
      let pass1 : Order := { pass with vol := pass.vol - fill }
      let pass' : Order := if pass1.vol = 0 then { pass1 with status := .filled, endt := t } else pass1
      let agg1 : Order := { st.agg with vol := st.agg.vol - fill }
      let agg' : Order := if agg1.vol = 0 then { agg1 with status := .filled, endt := t } else agg1
      let tr : Trade := { t := t, side := pass.side, price := pass.price, vol := fill, active := st.agg.id, passive := pass.id }
      let st' : Ref.MatchSt := { orders := st.orders.set j pass', trades := st.trades ++ [tr],
                                 tradeVol := st.tradeVol + fill, agg := agg' }
      have hfill : 0 < fill := by simp only [fill]; omega
      have hagg'v : agg'.vol = st.agg.vol - fill := by simp only [agg', agg1]; split <;> rfl
      have hpass'v : pass'.vol = pass.vol - fill := by simp only [pass', pass1]; split <;> rfl
      have hagg'i : sameIdent st.agg agg' := by
        simp only [agg', agg1, sameIdent]; split <;> exact ⟨rfl, rfl, rfl, rfl, rfl, rfl⟩
      have hpass'i : sameIdent pass pass' := by
        simp only [pass', pass1, sameIdent]; split <;> exact ⟨rfl, rfl, rfl, rfl, rfl, rfl⟩
      have hjlt : j < st.orders.length := (List.getElem?_eq_some_iff.mp hpass).1
      have hjne : j ≠ st.agg.id := fun h => hagg (h ▸ List.mem_cons_self)
      have htrok : TradeOk t st.orders st.agg (j :: q) tr :=
        ⟨rfl, hfill, rfl, by simp [tr, hpid], by simp [tr, hps], hadm, ⟨pass, by simp [tr, hpid, hpass], rfl, rfl⟩⟩
      have hunf : Ref.matchQ t (j :: q) st = if pass'.vol = 0 then Ref.matchQ t q st' else (j :: q, st') := by
        simp only [Ref.matchQ, hpass, hcond, if_true]
        rfl
      have htr_agg : tradedOf st.agg.id [tr] = fill := by simp [tradedOf_cons, tradedOf_nil, tr]
      have htr_j : tradedOf j [tr] = fill := by simp [tradedOf_cons, tradedOf_nil, tr, hpid]
      have htr_other : ∀ id, id ≠ st.agg.id → id ≠ j → tradedOf id [tr] = 0 := by
        intro id h1 h2
        simp [tradedOf_cons, tradedOf_nil, tr, hpid, Ne.symm h1, Ne.symm h2]
      by_cases hz : pass'.vol = 0
      · -- the head is filled: continue down the queue
        rw [hunf, if_pos hz]
        have hq' : ∀ j' ∈ q, ∃ o, st'.orders[j']? = some o ∧ o.id = j' ∧ 0 < o.vol ∧ o.side = st'.agg.side.opp := by
          intro j' hj'
          obtain ⟨o, ho, h1, h2, h3⟩ := hq j' (List.mem_cons_of_mem _ hj')
          have hne : j ≠ j' := fun h => hnd'.1 (h ▸ hj')
          refine ⟨o, by simp [st', List.getElem?_set, hne, ho], h1, h2, ?_⟩
          rw [h3]; simp only [st']; rw [hagg'i.2.1]
        have hagg'q : st'.agg.id ∉ q := by
          simp only [st']; rw [hagg'i.1]; exact fun h => hagg (List.mem_cons_of_mem _ h)
        obtain ⟨new, h1, h2, h3, h4, h5, h6, h7, h8⟩ := ih st' hq' hnd'.2 hagg'q
        have hid' : st'.agg.id = st.agg.id := hagg'i.1
        refine ⟨tr :: new, ?_, ?_, ?_, ?_, hagg'i.trans h5, ?_, ?_, by rw [h8]; simp [st']⟩
        · rw [h1]; simp [st']
        · rw [h2]; simp [st', tr, Nat.add_assoc]
        · intro x hx
          rcases List.mem_cons.mp hx with rfl | hx
          · exact htrok
          · have hk := h3 x hx
            refine ⟨hk.time, hk.pos, hk.act.trans hid', List.mem_cons_of_mem _ hk.pas, ?_, ?_, ?_⟩
            · rw [hk.side]; simp only [st']; rw [hagg'i.2.1]
            · have := hk.adm; simp only [st'] at this; rw [hagg'i.2.1, hagg'i.2.2.2.2.2] at this; exact this
            · obtain ⟨o, ho, hp, hs⟩ := hk.entry
              have hne : j ≠ x.passive := fun h => hnd'.1 (h ▸ hk.pas)
              exact ⟨o, by simpa [st', List.getElem?_set, hne] using ho, hp, hs⟩
        · have h4' : (Ref.matchQ t q st').2.agg.vol + tradedOf st.agg.id new = st.agg.vol - fill := by
            rw [← hid', ← hagg'v]; exact h4
          have : tradedOf st.agg.id (tr :: new) = fill + tradedOf st.agg.id new := by
            rw [show tr :: new = [tr] ++ new from rfl, tradedOf_append, htr_agg]
          rw [this]
          have : fill ≤ st.agg.vol := Nat.min_le_left _ _
          omega
        · intro id o ho hne
          rw [hid'] at h6
          by_cases hij : id = j
          · subst hij
            rw [hpass] at ho; injection ho with ho; subst ho
            obtain ⟨o', ho', hv', hi'⟩ := h6 id pass' (by simp [st', hjlt]) hne
            refine ⟨o', ho', ?_, hpass'i.trans hi'⟩
            rw [show tr :: new = [tr] ++ new from rfl, tradedOf_append, htr_j]
            rw [hpass'v] at hv'
            have : fill ≤ pass.vol := Nat.min_le_right _ _
            omega
          · obtain ⟨o', ho', hv', hi'⟩ := h6 id o (by simp [st', List.getElem?_set, Ne.symm hij, ho]) hne
            refine ⟨o', ho', ?_, hi'⟩
            rw [show tr :: new = [tr] ++ new from rfl, tradedOf_append, htr_other id hne hij]
            omega
        · intro id hn
          apply h7
          simp only [st', List.getElem?_set]
          split
          · rename_i h; subst h; rw [hn] at hpass; cases hpass
          · exact hn
      · -- the head is only partly filled: the aggressor is exhausted and the loop stops
        rw [hunf, if_neg hz]
        refine ⟨[tr], by simp [st'], by simp [st', tr], ?_, ?_, hagg'i, ?_, ?_, by simp [st']⟩
        · intro x hx; simp only [List.mem_singleton] at hx; subst hx; exact htrok
        · simp only [st']; rw [hagg'v, htr_agg]
          have : fill ≤ st.agg.vol := Nat.min_le_left _ _
          omega
        · intro id o ho hne
          by_cases hij : id = j
          · subst hij
            rw [hpass] at ho; injection ho with ho; subst ho
            refine ⟨pass', by simp [st', hjlt], ?_, hpass'i⟩
            rw [hpass'v, htr_j]
            have : fill ≤ pass.vol := Nat.min_le_right _ _
            omega
          · exact ⟨o, by simp [st', List.getElem?_set, Ne.symm hij, ho], by rw [htr_other id hne hij]; rfl, sameIdent.refl o⟩
        · intro id hn
          simp only [st', List.getElem?_set]
          split
          · rename_i h; subst h; rw [hn] at hpass; cases hpass
          · exact hn
    · apply stop
      simp only [Ref.matchQ, hpass]
      simp only [hcond, Bool.false_eq_true, if_false]

end Bourse

namespace Bourse

/-- Facts about a reference state that the ledger argument needs of its queues and table. -/
structure QWf (s : Ref.RState) : Prop where
  ids : ∀ (id : Nat) (o : Order), s.orders[id]? = some o → o.id = id
  qok : ∀ (sd : Side) (j : Nat), j ∈ s.queue sd →
          ∃ o, s.orders[j]? = some o ∧ o.status = .active ∧ o.side = sd ∧ 0 < o.vol
  nd : ∀ sd, (s.queue sd).Nodup

/-- The abstraction of a state satisfying the invariant is well formed, and every Active order is queued. -/
theorem qwf_abs {b : Book} (h : Inv b) : QWf (abs b) where
  ids := by
    intro id o ho
    rw [abs_get] at ho
    cases he : b.orders[id]? with
    | none => rw [he] at ho; cases ho
    | some e => rw [he] at ho; injection ho with ho; subst ho; exact h.ids id e he
  qok := by
    intro sd j hj
    rw [abs_queue] at hj
    obtain ⟨⟨k, j'⟩, hk, rfl⟩ := List.mem_map.mp hj
    obtain ⟨e, he, ha, hs, _, _, hv, _⟩ := (h.side sd).ent k j' hk
    exact ⟨e.order, by rw [abs_get, he]; rfl, ha, hs, hv⟩
  nd := by intro sd; rw [abs_queue]; exact absq_nodup h sd

theorem active_queued_abs {b : Book} (h : Inv b) (id : Nat) (o : Order) (ho : (abs b).orders[id]? = some o)
    (ha : o.status = .active) : id ∈ (abs b).queue o.side := by
  rw [abs_get] at ho
  cases he : b.orders[id]? with
  | none => rw [he] at ho; cases ho
  | some e =>
    rw [he] at ho; injection ho with ho; subst ho
    rw [abs_queue]
    exact List.mem_map.mpr ⟨_, h.act id e he ha, rfl⟩

theorem opp_opp (sd : Side) : sd.opp.opp = sd := by cases sd <;> rfl

@[simp] theorem setQueue_trades (s : Ref.RState) (sd : Side) (q : List Nat) : (s.setQueue sd q).trades = s.trades := by
  cases sd <;> rfl
@[simp] theorem setQueue_orders (s : Ref.RState) (sd : Side) (q : List Nat) : (s.setQueue sd q).orders = s.orders := by
  cases sd <;> rfl
@[simp] theorem setQueue_t (s : Ref.RState) (sd : Side) (q : List Nat) : (s.setQueue sd q).t = s.t := by
  cases sd <;> rfl
@[simp] theorem setQueue_tick (s : Ref.RState) (sd : Side) (q : List Nat) : (s.setQueue sd q).tick = s.tick := by
  cases sd <;> rfl

/-- **The ledger of `enter`.** -/
theorem enter_ledger (s : Ref.RState) (hw : QWf s) (agg : Order) (market : Bool)
    (hout : agg.id ∉ s.queue agg.side.opp) :
    ∃ new, (Ref.enter s agg market).1.trades = s.trades ++ new ∧
      (∀ tr ∈ new, TradeOk s.t s.orders agg (s.queue agg.side.opp) tr) ∧
      (Ref.enter s agg market).2.vol + tradedOf agg.id new = agg.vol ∧
      sameIdent agg (Ref.enter s agg market).2 ∧
      (∀ (id : Nat) (o : Order), s.orders[id]? = some o → id ≠ agg.id →
        ∃ o', (Ref.enter s agg market).1.orders[id]? = some o' ∧ o'.vol + tradedOf id new = o.vol ∧ sameIdent o o') ∧
      (∀ (id : Nat), s.orders[id]? = none → (Ref.enter s agg market).1.orders[id]? = none) ∧
      (Ref.enter s agg market).1.t = s.t ∧ (Ref.enter s agg market).1.tick = s.tick ∧
      (Ref.enter s agg market).1.orders.length = s.orders.length := by
  -- the match phase
  have hmp : ∃ new, (Ref.matchPhase s agg).1.trades = s.trades ++ new ∧
      (∀ tr ∈ new, TradeOk s.t s.orders agg (s.queue agg.side.opp) tr) ∧
      (Ref.matchPhase s agg).2.vol + tradedOf agg.id new = agg.vol ∧
      sameIdent agg (Ref.matchPhase s agg).2 ∧
      (∀ (id : Nat) (o : Order), s.orders[id]? = some o → id ≠ agg.id →
        ∃ o', (Ref.matchPhase s agg).1.orders[id]? = some o' ∧ o'.vol + tradedOf id new = o.vol ∧ sameIdent o o') ∧
      (∀ (id : Nat), s.orders[id]? = none → (Ref.matchPhase s agg).1.orders[id]? = none) ∧
      (Ref.matchPhase s agg).1.t = s.t ∧ (Ref.matchPhase s agg).1.tick = s.tick ∧
      (Ref.matchPhase s agg).1.orders.length = s.orders.length := by
    unfold Ref.matchPhase
    by_cases ht : s.trading = true
    · simp only [ht, if_true]
      have hq : ∀ j ∈ s.queue agg.side.opp, ∃ o, s.orders[j]? = some o ∧ o.id = j ∧ 0 < o.vol ∧ o.side = agg.side.opp := by
        intro j hj
        obtain ⟨o, ho, _, hs, hv⟩ := hw.qok _ j hj
        exact ⟨o, ho, hw.ids j o ho, hv, hs⟩
      obtain ⟨new, h1, _, h3, h4, h5, h6, h7, h8⟩ := matchQ_ledger s.t (s.queue agg.side.opp)
        { orders := s.orders, trades := s.trades, tradeVol := s.tradeVol, agg := agg } hq (hw.nd _) hout
      exact ⟨new, h1, h3, h4, h5, h6, h7, setQueue_t _ _ _, setQueue_tick _ _ _, h8⟩
    · simp only [ht]
      refine ⟨[], by simp, by simp, by simp [tradedOf_nil], sameIdent.refl _, ?_, fun id h => h, rfl, rfl, rfl⟩
      intro id o ho _
      exact ⟨o, ho, by simp [tradedOf_nil], sameIdent.refl o⟩
  rw [Ref.enter_eq]
  by_cases h1 : (market && !s.trading) = true
  · simp only [h1, if_true]
    refine ⟨[], by simp, by simp, by simp [tradedOf_nil], ⟨rfl, rfl, rfl, rfl, rfl, rfl⟩, ?_, fun id h => h, trivial, trivial, trivial⟩
    intro id o ho _
    exact ⟨o, ho, by simp [tradedOf_nil], sameIdent.refl o⟩
  · simp only [h1, Bool.false_eq_true, if_false]
    obtain ⟨new, g1, g2, g3, g4, g5, g6, g7, g8, g9⟩ := hmp
    by_cases hf : (Ref.matchPhase s agg).2.status = .filled
    · simp only [hf, if_true]
      exact ⟨new, g1, g2, g3, g4, g5, g6, g7, g8, g9⟩
    · simp only [hf, if_false]
      by_cases hm : market = true
      · simp only [hm, if_true]
        exact ⟨new, g1, g2, g3, ⟨g4.1, g4.2.1, g4.2.2.1, g4.2.2.2.1, g4.2.2.2.2.1, g4.2.2.2.2.2⟩, g5, g6, g7, g8, g9⟩
      · simp only [hm, Bool.false_eq_true, if_false]
        refine ⟨new, by simpa using g1, g2, g3, g4, ?_, ?_, by simpa using g7, by simpa using g8, by simpa using g9⟩
        · intro id o ho hne
          obtain ⟨o', ho', hr⟩ := g5 id o ho hne
          exact ⟨o', by simpa using ho', hr⟩
        · intro id hn
          simpa using g6 id hn

end Bourse
