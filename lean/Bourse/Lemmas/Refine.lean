/-
Refinement: the implementation model (`Book`, keyed maps + aggregates) behaves exactly like the
reference matching engine `Ref` (plain FIFO id lists), operation by operation (C01, C05, C06, C13).
-/
import Bourse.Lemmas.Reach
import Bourse.Lemmas.QueueList
import Bourse.Spec.Ref

namespace Bourse

/-- The ids of a side's queue, in priority order. -/
def absq (s : SideS) : List Nat := s.orders.map (·.2)

def absOrders (os : List Entry) : List Order := os.map (·.order)

/-- The abstraction map: forget keys, stamps and aggregates. -/
def abs (b : Book) : Ref.RState :=
  { t := b.t, tick := b.tick, tradeVol := b.tradeVol, trading := b.trading, orders := absOrders b.orders,
    bidQ := absq b.bid, askQ := absq b.ask, trades := b.trades }

theorem abs_queue (b : Book) (sd : Side) : (abs b).queue sd = absq (b.side sd) := by cases sd <;> rfl

theorem absOrders_getElem? (os : List Entry) (i : Nat) : (absOrders os)[i]? = (os[i]?).map (·.order) := by
  simp [absOrders]

theorem absOrders_set (os : List Entry) (i : Nat) (e : Entry) : absOrders (os.set i e) = (absOrders os).set i e.order := by
  simp [absOrders, List.map_set]

/-- `crosses` (implementation) and `admits` (reference) are the same limit test. -/
theorem crosses_eq_admits (sd : Side) (limit p : Nat) : Book.crosses sd limit p = Ref.admits sd limit p := by
  cases sd <;> simp [Book.crosses, Ref.admits]

/-- The head of a side's queue carries the side's touch price. -/
theorem head_price {os : List Entry} {sd : Side} {s : SideS} {stamp : Nat} (h : SideInv os sd s stamp)
    {k0 : Nat × Nat} {j : Nat} {tl : SMap (Nat × Nat) Nat} (hq : s.orders = (k0, j) :: tl) :
    ∃ m, os[j]? = some m ∧ bestPrice sd s = m.order.price ∧ m.key = ⟨sd, k0.1, k0.2⟩ ∧ 0 < m.order.vol ∧
      m.order.status = .active := by
  obtain ⟨m, hm, ha, _, hk, hpk, hv, _, hb⟩ := h.ent k0 j (by rw [hq]; exact List.mem_cons_self)
  refine ⟨m, hm, ?_, hk, hv, ha⟩
  have hkey : s.bestKey = k0.1 := by simp [SideS.bestKey, SMap.first?, hq]
  cases sd <;> simp only [bestPrice, hkey, hpk, priceKey] <;> omega

/-- The state the reference loop carries, read off the implementation state and aggressor copy. -/
def absMatch (b : Book) (e : Entry) : Ref.MatchSt :=
  { orders := absOrders b.orders, trades := b.trades, tradeVol := b.tradeVol, agg := e.order }

/-- **The match loop refines the reference loop.** Walking the keyed map by repeatedly taking the
head and maintaining the aggregates yields exactly the opposite queue, order table, trade log,
counter and aggressor that the reference engine gets by structural recursion down the id list. -/
theorem matchLoop_refines {b : Book} {a : Nat} (h : LoopInv b a) (sd : Side) (fuel : Nat) (e : Entry)
    (hside : e.order.side = sd) (hfuel : (b.side sd.opp).orders.length + 1 ≤ fuel)
    (hnf : (Book.matchLoop sd fuel b e).1.faulted = false) :
    absq ((Book.matchLoop sd fuel b e).1.side sd.opp) = (Ref.matchQ b.t (absq (b.side sd.opp)) (absMatch b e)).1 ∧
    absMatch (Book.matchLoop sd fuel b e).1 (Book.matchLoop sd fuel b e).2 =
      (Ref.matchQ b.t (absq (b.side sd.opp)) (absMatch b e)).2 := by
  induction fuel generalizing b e with
  | zero => omega
  | succ fuel ih =>
    cases hq : (b.side sd.opp).orders with
    | nil =>
      have hnone : (b.side sd.opp).bestOrderIdx = none := by simp [SideS.bestOrderIdx, SMap.first?, hq]
      have heq : Book.matchLoop sd (fuel + 1) b e = (b, e) := by
        unfold Book.matchLoop
        split
        · simp [hnone]
        · rfl
      rw [heq]
      simp [absq, hq, Ref.matchQ]
    | cons hd tl =>
      obtain ⟨k0, j⟩ := hd
      obtain ⟨m, hm, hbest, hkey, hmv, hmact⟩ := head_price (h.side sd.opp) hq
      have habsq : absq (b.side sd.opp) = j :: tl.map (·.2) := by simp [absq, hq]
      have hsome : (b.side sd.opp).bestOrderIdx = some j := by simp [SideS.bestOrderIdx, SMap.first?, hq]
      have hpass : (absMatch b e).orders[j]? = some m.order := by
        simp [absMatch, absOrders_getElem?, hm]
      rw [habsq]
      by_cases hcond : (decide (e.order.vol > 0) && Book.crosses sd e.order.price (bestPrice sd.opp (b.side sd.opp))) = true
      · -- one fill
        have heq : Book.matchLoop sd (fuel + 1) b e =
            Book.matchLoop sd fuel (Book.fillStep sd b e j m).1 (Book.fillStep sd b e j m).2 := by
          simp [Book.matchLoop, hcond, hsome, hm]
        rw [heq] at hnf ⊢
        have hv : 0 < e.order.vol := by
          simp only [Bool.and_eq_true, decide_eq_true_eq] at hcond; exact hcond.1
        have hstep : (Book.fillStep sd b e j m).1.faulted = false := by
          cases hf : (Book.fillStep sd b e j m).1.faulted with
          | false => rfl
          | true => rw [matchLoop_faulted_mono _ _ _ _ hf] at hnf; cases hnf
        have hl := h.fillStep sd e j m hsome hm hv hstep
        have hrefcond : (decide ((absMatch b e).agg.vol > 0) &&
            Ref.admits (absMatch b e).agg.side (absMatch b e).agg.price m.order.price) = true := by
          simp only [absMatch]
          rw [hside, ← crosses_eq_admits, ← hbest]; exact hcond
        -- the state after the fill, abstracted
        have hfs_t : (Book.fillStep sd b e j m).1.t = b.t := (Book.fillStep_frame sd b e j m).1
        have hfs_side : (Book.fillStep sd b e j m).2.order.side = sd := by
          rw [(Book.fillStep_ident sd b e j m).2.1, hside]
        have hst' : absMatch (Book.fillStep sd b e j m).1 (Book.fillStep sd b e j m).2 =
            { orders := (absMatch b e).orders.set j (Book.matchOrders b.t e.order m.order).2.1,
              trades := (absMatch b e).trades ++ [(Book.matchOrders b.t e.order m.order).2.2.1],
              tradeVol := (absMatch b e).tradeVol + (Book.matchOrders b.t e.order m.order).2.2.2,
              agg := (Book.matchOrders b.t e.order m.order).1 } := by
          simp [absMatch, Book.fillStep, absOrders_set]
        have hoppq : (Book.fillStep sd b e j m).1.side sd.opp =
            (if (Book.matchOrders b.t e.order m.order).2.1.status = .filled
             then (b.side sd.opp).removeOrder m.key.pk m.key.st (Book.matchOrders b.t e.order m.order).2.2.2
             else (b.side sd.opp).removeVol m.key.pk (Book.matchOrders b.t e.order m.order).2.2.2) := by
          simp only [Book.fillStep]
          cases sd <;> simp [Book.side, Book.setSide, Side.opp]
        have hmo := matchOrders_passive b.t e.order m.order
        -- unfold one step of the reference loop
        have href : Ref.matchQ b.t (j :: tl.map (·.2)) (absMatch b e) =
            (if (Book.matchOrders b.t e.order m.order).2.1.vol = 0
             then Ref.matchQ b.t (tl.map (·.2)) (absMatch (Book.fillStep sd b e j m).1 (Book.fillStep sd b e j m).2)
             else (j :: tl.map (·.2), absMatch (Book.fillStep sd b e j m).1 (Book.fillStep sd b e j m).2)) := by
          rw [hst']
          simp only [Ref.matchQ, hpass, hrefcond, if_true]
          simp only [Book.matchOrders, absMatch]
          rfl
        rw [href]
        by_cases hz : (Book.matchOrders b.t e.order m.order).2.1.vol = 0
        · -- passive filled: the head leaves the queue, continue down the list
          simp only [hz, if_true]
          have hfilled : (Book.matchOrders b.t e.order m.order).2.1.status = .filled :=
            hmo.2.2.2.2.2.1 (by rw [← hmo.2.1]; exact hz)
          have hq1 : ((Book.fillStep sd b e j m).1.side sd.opp).orders = tl := by
            rw [hoppq, if_pos hfilled, removeOrder_orders, hq]
            have : (m.key.pk, m.key.st) = k0 := by rw [hkey]
            rw [this, SMap.erase_head]
          have hrec := ih hl (Book.fillStep sd b e j m).2 hfs_side (by rw [hq1]; simp only [hq, List.length_cons] at hfuel; omega) hnf
          have habsq1 : absq ((Book.fillStep sd b e j m).1.side sd.opp) = tl.map (·.2) := by simp [absq, hq1]
          rw [habsq1, hfs_t] at hrec
          exact hrec
        · -- passive partially filled: the aggressor is exhausted, the loop stops, the queue is untouched
          simp only [hz, if_false]
          have hnz : m.order.vol - min e.order.vol m.order.vol ≠ 0 := by rw [← hmo.2.1]; exact hz
          have hnotfilled : (Book.matchOrders b.t e.order m.order).2.1.status ≠ .filled := by
            rw [hmo.2.2.2.2.2.2 hnz, hmact]; simp
          have hq1 : ((Book.fillStep sd b e j m).1.side sd.opp).orders = (k0, j) :: tl := by
            rw [hoppq, if_neg hnotfilled, removeVol_orders, hq]
          have hagg0 : (Book.fillStep sd b e j m).2.order.vol = 0 := by
            simp only [Book.fillStep, Book.matchOrders]
            have : e.order.vol - min e.order.vol m.order.vol = 0 := by omega
            split <;> simp_all
          have hstop : Book.matchLoop sd fuel (Book.fillStep sd b e j m).1 (Book.fillStep sd b e j m).2 =
              ((Book.fillStep sd b e j m).1, (Book.fillStep sd b e j m).2) := by
            cases fuel with
            | zero => simp only [hq, List.length_cons] at hfuel; omega
            | succ f => simp [Book.matchLoop, hagg0]
          rw [hstop]
          exact ⟨by simp [absq, hq1], rfl⟩
      · -- the limit does not admit the head (or the aggressor is exhausted): both stop
        have heq : Book.matchLoop sd (fuel + 1) b e = (b, e) := by simp [Book.matchLoop, hcond]
        rw [heq]
        have hrefcond : (decide ((absMatch b e).agg.vol > 0) &&
            Ref.admits (absMatch b e).agg.side (absMatch b e).agg.price m.order.price) = false := by
          simp only [absMatch]
          rw [hside, ← crosses_eq_admits, ← hbest]; simpa using hcond
        simp [Ref.matchQ, hpass, hrefcond, absq, hq]

end Bourse
