/-
The invariant of one side of the book, relative to the order table, and its preservation by
`insertOrder`, `removeOrder`, `removeVol`.
-/
import Bourse.Lemmas.Agg
import Bourse.Lemmas.Frame

namespace Bourse

/-- What a queue entry `(k ↦ id)` of side `sd` says about order `id` in table `os`. -/
def EntryOk (os : List Entry) (sd : Side) (stamp : Nat) (k : Nat × Nat) (id : Nat) : Prop :=
  ∃ e, os[id]? = some e ∧ e.order.status = .active ∧ e.order.side = sd ∧ e.key = ⟨sd, k.1, k.2⟩ ∧
       k.1 = priceKey sd e.order.price ∧ 0 < e.order.vol ∧ k.2 < stamp ∧ e.order.price ≤ MAXP

structure SideInv (os : List Entry) (sd : Side) (s : SideS) (stamp : Nat) : Prop where
  so : SMap.Sorted s.orders
  sv : SMap.Sorted s.volumes
  ent : ∀ k id, (k, id) ∈ s.orders → EntryOk os sd stamp k id
  agg : ∀ pk, SMap.find? pk s.volumes =
          (if (aggAt os s.orders pk).2 = 0 then none else some (aggAt os s.orders pk))
  tot : s.vol = totalVol os s.orders
  /-- no `u32` overflow has happened: the side's total volume fits -/
  bnd : s.vol < P32
  nofault : s.fault = false

theorem aggAt_zero_of_count_zero (os : List Entry) (q : SMap (Nat × Nat) Nat) (pk : Nat)
    (h : (aggAt os q pk).2 = 0) : aggAt os q pk = (0, 0) := by
  simp only [aggAt] at h ⊢
  have : atKey q pk = [] := List.eq_nil_of_length_eq_zero h
  simp [this]

theorem sideInv_empty (os : List Entry) (sd : Side) (stamp : Nat) : SideInv os sd SideS.empty stamp where
  so := SMap.sorted_nil
  sv := SMap.sorted_nil
  ent := by intro k id h; simp [SideS.empty] at h
  agg := by intro pk; simp [SideS.empty, SMap.find?, aggAt, atKey]
  tot := by simp [SideS.empty, totalVol]
  bnd := by simp [SideS.empty, P32]
  nofault := rfl

/-- An id occurs at most once in the queue, under the key recorded in its table entry. -/
theorem SideInv.key_of_mem {os : List Entry} {sd : Side} {s : SideS} {stamp : Nat} (h : SideInv os sd s stamp)
    {k : Nat × Nat} {id : Nat} (hm : (k, id) ∈ s.orders) {e : Entry} (he : os[id]? = some e) :
    k = (e.key.pk, e.key.st) := by
  obtain ⟨e', he', _, _, hk, _⟩ := h.ent k id hm
  rw [he] at he'; injection he' with he'; subst he'
  rw [hk]

theorem SideInv.unique {os : List Entry} {sd : Side} {s : SideS} {stamp : Nat} (h : SideInv os sd s stamp)
    {k k' : Nat × Nat} {id : Nat} (h1 : (k, id) ∈ s.orders) (h2 : (k', id) ∈ s.orders) : k = k' := by
  obtain ⟨e, he, _⟩ := h.ent k id h1
  rw [h.key_of_mem h1 he, h.key_of_mem h2 he]

/-- Changing the table at an index the queue does not mention keeps the side invariant. -/
theorem SideInv.frame {os : List Entry} {sd : Side} {s : SideS} {stamp stamp' : Nat} (h : SideInv os sd s stamp)
    (i : Nat) (e' : Entry) (hni : ∀ k, (k, i) ∉ s.orders) (hst : stamp ≤ stamp') :
    SideInv (os.set i e') sd s stamp' where
  so := h.so
  sv := h.sv
  ent := by
    intro k id hm
    obtain ⟨e, he, h1, h2, h3, h4, h5, h6, h7⟩ := h.ent k id hm
    have hne : i ≠ id := fun hc => hni k (hc ▸ hm)
    exact ⟨e, by simp [List.getElem?_set, hne, he], h1, h2, h3, h4, h5, by omega, h7⟩
  agg := by
    intro pk
    have : aggAt (os.set i e') s.orders pk = aggAt os s.orders pk := by
      apply aggAt_congr
      intro x hx
      apply volOf_set_ne
      intro hc; exact hni x.1 (by rw [hc]; exact hx)
    rw [this]; exact h.agg pk
  tot := by
    rw [h.tot]
    symm
    apply totalVol_congr
    intro x hx
    apply volOf_set_ne
    intro hc; exact hni x.1 (by rw [hc]; exact hx)
  bnd := h.bnd
  nofault := h.nofault

/-- **`insert_order`.** Queuing order `id` under a fresh key keeps the invariant (unless an
aggregate overflows, which the model flags as a fault). -/
theorem SideInv.insert {os : List Entry} {sd : Side} {s : SideS} {stamp stamp' : Nat} (h : SideInv os sd s stamp)
    (pk st id : Nat) (e' : Entry) (hfresh : SMap.find? (pk, st) s.orders = none) (hni : ∀ k, (k, id) ∉ s.orders)
    (hid : id < os.length) (hst : stamp ≤ stamp')
    (he : e'.order.status = .active ∧ e'.order.side = sd ∧ e'.key = ⟨sd, pk, st⟩ ∧
          pk = priceKey sd e'.order.price ∧ 0 < e'.order.vol ∧ st < stamp' ∧ e'.order.price ≤ MAXP)
    (hnf : (s.insertOrder pk st id e'.order.vol).fault = false) :
    SideInv (os.set id e') sd (s.insertOrder pk st id e'.order.vol) stamp' := by
  have hf := h.frame id e' hni hst
  have hperm := SMap.perm_insert_new (pk, st) id s.orders h.so hfresh
  have hvol : volOf (os.set id e') id = e'.order.vol := volOf_set_self os id e' hid
  have hbnd : (s.insertOrder pk st id e'.order.vol).vol < P32 := by
    simp only [SideS.insertOrder] at hnf ⊢
    simp only [Bool.or_eq_false_iff, decide_eq_false_iff_not] at hnf
    omega
  refine ⟨?_, ?_, ?_, ?_, ?_, hbnd, hnf⟩
  · exact SMap.sorted_insert _ _ _ h.so
  · simp only [SideS.insertOrder]
    split <;> exact SMap.sorted_insert _ _ _ h.sv
  · intro k j hm
    rcases SMap.mem_insert_imp _ _ _ _ hm with hm | hm
    · injection hm with h1 h2; subst h1 h2
      exact ⟨e', by simp [List.getElem?_set, hid], he.1, he.2.1, he.2.2.1, he.2.2.2.1, he.2.2.2.2.1, he.2.2.2.2.2.1, he.2.2.2.2.2.2⟩
    · exact hf.ent k j hm
  · intro pk'
    have hagg : aggAt (os.set id e') (SMap.insert (pk, st) id s.orders) pk' =
        if pk = pk' then ((aggAt (os.set id e') s.orders pk').1 + e'.order.vol, (aggAt (os.set id e') s.orders pk').2 + 1)
        else aggAt (os.set id e') s.orders pk' := by
      rw [aggAt_perm _ hperm, aggAt_cons, hvol]
    simp only [SideS.insertOrder, hagg]
    have hold := hf.agg
    by_cases hpk : pk = pk'
    · subst hpk
      simp only [if_true]
      rw [hold pk]
      by_cases hz : (aggAt (os.set id e') s.orders pk).2 = 0
      · have hz0 := aggAt_zero_of_count_zero _ _ _ hz
        simp only [hz, if_true]
        rw [SMap.find?_insert _ _ _ _ h.sv]
        simp [hz0]
      · simp only [hz, if_false]
        rw [SMap.find?_insert _ _ _ _ h.sv]
        simp
    · simp only [hpk, if_false]
      have hne : pk' ≠ pk := fun hc => hpk hc.symm
      split
      · rw [SMap.find?_insert _ _ _ _ h.sv]; simp [hne, hold pk']
      · rw [SMap.find?_insert _ _ _ _ h.sv]; simp [hne, hold pk']
  · simp only [SideS.insertOrder]
    rw [totalVol_perm _ hperm, totalVol_cons, hvol, hf.tot]
    omega

/-- **`remove_order`.** Taking the entry of order `id` out of the queue (with its current volume)
keeps the invariant and never faults. -/
theorem SideInv.remove {os : List Entry} {sd : Side} {s : SideS} {stamp : Nat} (h : SideInv os sd s stamp)
    (pk st id : Nat) (e' : Entry) (hm : ((pk, st), id) ∈ s.orders) :
    SideInv (os.set id e') sd (s.removeOrder pk st (volOf os id)) stamp := by
  have hfind := SMap.find?_of_mem h.so hm
  have hperm := SMap.perm_erase (pk, st) id s.orders h.so hfind
  have hsorted_e := SMap.sorted_erase (pk, st) s.orders h.so
  -- id does not occur in the erased queue
  have hni : ∀ k, (k, id) ∉ SMap.erase (pk, st) s.orders := by
    intro k hk
    have hk' := SMap.mem_erase_imp _ _ _ hk
    have := h.unique hk' hm
    subst this
    have := SMap.find?_of_mem hsorted_e hk
    rw [SMap.find?_erase _ _ _ h.so] at this
    simp at this
  have haggold : ∀ pk', aggAt os s.orders pk' =
      if pk = pk' then ((aggAt os (SMap.erase (pk, st) s.orders) pk').1 + volOf os id,
                        (aggAt os (SMap.erase (pk, st) s.orders) pk').2 + 1)
      else aggAt os (SMap.erase (pk, st) s.orders) pk' := by
    intro pk'; rw [aggAt_perm _ hperm, aggAt_cons]
  have hcongr : ∀ pk', aggAt (os.set id e') (SMap.erase (pk, st) s.orders) pk' = aggAt os (SMap.erase (pk, st) s.orders) pk' := by
    intro pk'
    apply aggAt_congr
    intro x hx
    apply volOf_set_ne
    intro hc; exact hni x.1 (by rw [hc]; exact hx)
  have hvolumes := h.agg pk
  rw [haggold pk] at hvolumes
  simp only [if_true] at hvolumes
  simp only [Nat.add_one_ne_zero, if_false] at hvolumes
  have htot : s.vol = volOf os id + totalVol os (SMap.erase (pk, st) s.orders) := by
    rw [h.tot, totalVol_perm _ hperm, totalVol_cons]
  have hb := h.bnd
  simp only [SideS.removeOrder, hvolumes]
  refine ⟨hsorted_e, ?_, ?_, ?_, ?_, by simp only; omega, ?_⟩
  · split
    · exact SMap.sorted_erase _ _ h.sv
    · exact SMap.sorted_insert _ _ _ h.sv
  · intro k j hkj
    have hkj' := SMap.mem_erase_imp _ _ _ hkj
    obtain ⟨e, he, h1, h2, h3, h4, h5, h6, h7⟩ := h.ent k j hkj'
    have hne : id ≠ j := fun hc => hni k (hc ▸ hkj)
    exact ⟨e, by simp [List.getElem?_set, hne, he], h1, h2, h3, h4, h5, h6, h7⟩
  · intro pk'
    rw [hcongr pk']
    simp only [Nat.add_sub_cancel]
    by_cases hpk : pk = pk'
    · subst hpk
      split
      · rename_i hz
        rw [SMap.find?_erase _ _ _ h.sv]; simp [hz]
      · rename_i hz
        rw [SMap.find?_insert _ _ _ _ h.sv]; simp [hz]
    · have hne : pk' ≠ pk := fun hc => hpk hc.symm
      have := h.agg pk'
      rw [haggold pk'] at this
      simp only [hpk, if_false] at this
      split
      · rw [SMap.find?_erase _ _ _ h.sv]; simp [hne, this]
      · rw [SMap.find?_insert _ _ _ _ h.sv]; simp [hne, this]
  · simp only
    rw [htot]
    have : totalVol (os.set id e') (SMap.erase (pk, st) s.orders) = totalVol os (SMap.erase (pk, st) s.orders) := by
      apply totalVol_congr
      intro x hx
      apply volOf_set_ne
      intro hc; exact hni x.1 (by rw [hc]; exact hx)
    rw [this]; omega
  · have hle := aggAt_le_total os (SMap.erase (pk, st) s.orders) pk
    simp only [h.nofault, Bool.false_or, decide_eq_false_iff_not]
    rw [htot]
    omega

/-- **`remove_vol`.** Reducing the volume of a queued order in place (partial fill, or a pure
volume reduction) keeps the invariant — the queue itself is untouched — and never faults. -/
theorem SideInv.reduce {os : List Entry} {sd : Side} {s : SideS} {stamp : Nat} (h : SideInv os sd s stamp)
    (pk st id red : Nat) (e e' : Entry) (hm : ((pk, st), id) ∈ s.orders) (he : os[id]? = some e)
    (hred : red < e.order.vol)
    (he' : e'.order.status = .active ∧ e'.order.side = e.order.side ∧ e'.key = e.key ∧
           e'.order.price = e.order.price ∧ e'.order.vol = e.order.vol - red) :
    SideInv (os.set id e') sd (s.removeVol pk red) stamp := by
  have hid : id < os.length := (List.getElem?_eq_some_iff.mp he).1
  have hfind := SMap.find?_of_mem h.so hm
  have hperm := SMap.perm_erase (pk, st) id s.orders h.so hfind
  have hsorted_e := SMap.sorted_erase (pk, st) s.orders h.so
  have hni : ∀ k, (k, id) ∉ SMap.erase (pk, st) s.orders := by
    intro k hk
    have hk' := SMap.mem_erase_imp _ _ _ hk
    have := h.unique hk' hm
    subst this
    have := SMap.find?_of_mem hsorted_e hk
    rw [SMap.find?_erase _ _ _ h.so] at this
    simp at this
  have hvold : volOf os id = e.order.vol := by simp [volOf, he]
  have hvnew : volOf (os.set id e') id = e.order.vol - red := by rw [volOf_set_self os id e' hid, he'.2.2.2.2]
  have hcongr : ∀ pk', aggAt (os.set id e') (SMap.erase (pk, st) s.orders) pk' = aggAt os (SMap.erase (pk, st) s.orders) pk' := by
    intro pk'
    apply aggAt_congr
    intro x hx
    apply volOf_set_ne
    intro hc; exact hni x.1 (by rw [hc]; exact hx)
  have haggold : ∀ pk', aggAt os s.orders pk' =
      if pk = pk' then ((aggAt os (SMap.erase (pk, st) s.orders) pk').1 + e.order.vol,
                        (aggAt os (SMap.erase (pk, st) s.orders) pk').2 + 1)
      else aggAt os (SMap.erase (pk, st) s.orders) pk' := by
    intro pk'; rw [aggAt_perm _ hperm, aggAt_cons, hvold]
  have haggnew : ∀ pk', aggAt (os.set id e') s.orders pk' =
      if pk = pk' then ((aggAt os (SMap.erase (pk, st) s.orders) pk').1 + (e.order.vol - red),
                        (aggAt os (SMap.erase (pk, st) s.orders) pk').2 + 1)
      else aggAt os (SMap.erase (pk, st) s.orders) pk' := by
    intro pk'; rw [aggAt_perm _ hperm, aggAt_cons, hvnew, hcongr]
  have hvolumes := h.agg pk
  rw [haggold pk] at hvolumes
  simp only [if_true, Nat.add_one_ne_zero, if_false] at hvolumes
  have htot : s.vol = e.order.vol + totalVol os (SMap.erase (pk, st) s.orders) := by
    rw [h.tot, totalVol_perm _ hperm, totalVol_cons, hvold]
  have htot' : totalVol (os.set id e') s.orders = (e.order.vol - red) + totalVol os (SMap.erase (pk, st) s.orders) := by
    rw [totalVol_perm _ hperm, totalVol_cons, hvnew]
    congr 1
    apply totalVol_congr
    intro x hx
    apply volOf_set_ne
    intro hc; exact hni x.1 (by rw [hc]; exact hx)
  have hb := h.bnd
  simp only [SideS.removeVol, hvolumes]
  refine ⟨h.so, SMap.sorted_insert _ _ _ h.sv, ?_, ?_, ?_, by simp only; omega, ?_⟩
  · intro k j hkj
    by_cases hj : j = id
    · subst hj
      have hk := h.unique hkj hm
      subst hk
      obtain ⟨e0, he0, h1, h2, h3, h4, h5, h6, h7⟩ := h.ent _ _ hkj
      rw [he] at he0; injection he0 with he0; subst he0
      refine ⟨e', by simp [hid], he'.1, by rw [he'.2.1, h2], by rw [he'.2.2.1, h3], by rw [he'.2.2.2.1]; exact h4, ?_, h6, by rw [he'.2.2.2.1]; exact h7⟩
      rw [he'.2.2.2.2]; omega
    · obtain ⟨e0, he0, h1, h2, h3, h4, h5, h6, h7⟩ := h.ent k j hkj
      exact ⟨e0, by simp [List.getElem?_set, Ne.symm hj, he0], h1, h2, h3, h4, h5, h6, h7⟩
  · intro pk'
    simp only [haggnew pk']
    by_cases hpk : pk = pk'
    · subst hpk
      simp only [if_true, Nat.add_one_ne_zero, if_false]
      rw [SMap.find?_insert _ _ _ _ h.sv]
      simp only [if_true]
      congr 2
      omega
    · have hne : pk' ≠ pk := fun hc => hpk hc.symm
      simp only [hpk, if_false]
      rw [SMap.find?_insert _ _ _ _ h.sv]
      have := h.agg pk'
      rw [haggold pk'] at this
      simp only [hpk, if_false] at this
      simp [hne, this]
  · simp only
    rw [htot, htot']; omega
  · simp only [h.nofault, Bool.false_or, decide_eq_false_iff_not]
    rw [htot]; omega

end Bourse
