/-
Small list lemmas missing from core (kept Mathlib-free).
-/
namespace Bourse

theorem mem_takeWhile_imp {α} {p : α → Bool} {l : List α} {x : α} (h : x ∈ l.takeWhile p) :
    p x = true := by
  induction l with
  | nil => simp at h
  | cons a l ih =>
    simp only [List.takeWhile_cons] at h
    split at h
    · rename_i hp
      rcases List.mem_cons.mp h with rfl | h'
      · exact hp
      · exact ih h'
    · simp at h

end Bourse

namespace Bourse

theorem set_of_getElem? {α} {l : List α} {i : Nat} {a : α} (h : l[i]? = some a) : l.set i a = l := by
  obtain ⟨hi, rfl⟩ := List.getElem?_eq_some_iff.mp h
  exact List.set_getElem_self hi

end Bourse
