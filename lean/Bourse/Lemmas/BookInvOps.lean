/-
`Inv` is preserved by every book operation on valid input (unless the model flags a fault:
overflow of an aggregate / the counter, or an unknown id).
-/
import Bourse.Lemmas.BookInv

namespace Bourse

theorem volOf_append (os : List Entry) (x : Entry) (id : Nat) (h : id < os.length) :
    volOf (os ++ [x]) id = volOf os id := by
  simp [volOf, List.getElem?_append_left h]

/-- Appending a new table entry (a created, not yet placed order) keeps a side's invariant. -/
theorem SideInv.append {os : List Entry} {sd : Side} {s : SideS} {stamp : Nat} (h : SideInv os sd s stamp) (x : Entry) :
    SideInv (os ++ [x]) sd s stamp where
  so := h.so
  sv := h.sv
  ent := by
    intro k id hm
    obtain ⟨e, he, rest⟩ := h.ent k id hm
    have hlt : id < os.length := (List.getElem?_eq_some_iff.mp he).1
    exact ⟨e, by rw [List.getElem?_append_left hlt]; exact he, rest⟩
  agg := by
    intro pk
    have : aggAt (os ++ [x]) s.orders pk = aggAt os s.orders pk := by
      apply aggAt_congr
      intro e he
      obtain ⟨e0, he0, _⟩ := h.ent e.1 e.2 he
      exact volOf_append os x e.2 (List.getElem?_eq_some_iff.mp he0).1
    rw [this]; exact h.agg pk
  tot := by
    rw [h.tot]; symm
    apply totalVol_congr
    intro e he
    obtain ⟨e0, he0, _⟩ := h.ent e.1 e.2 he
    exact volOf_append os x e.2 (List.getElem?_eq_some_iff.mp he0).1
  bnd := h.bnd
  nofault := h.nofault

/-- **`create_order`** keeps the invariant. -/
theorem Inv.create {b : Book} (h : Inv b) (sd : Side) (vol tr : Nat) (p : Option Nat) (hvol : 0 < vol)
    (hprice : ∀ q, p = some q → q ≤ MAXP) :
    Inv (b.createOrder sd vol tr p).1 := by
  have key : ∀ o : Order, o.status = .new → o.id = b.orders.length → o.side = sd → 0 < o.vol → o.price ≤ MAXP →
      Inv { b with orders := b.orders ++ [{ order := o, key := ⟨sd, priceKey sd o.price, 0⟩ }] } := by
    intro o hnew hid hosd hov hop
    refine ⟨h.bid.append _, h.ask.append _, ?_, ?_, ?_, h.nofault⟩
    · intro id e he hact
      by_cases hlt : id < b.orders.length
      · rw [List.getElem?_append_left hlt] at he
        have := h.act id e he hact
        cases hs : e.order.side <;> simpa [Book.side, hs] using this
      · have : id = b.orders.length := by
          have := (List.getElem?_eq_some_iff.mp he).1
          simp at this; omega
        subst this
        simp at he
        subst he
        simp [hnew] at hact
    · intro id e he
      by_cases hlt : id < b.orders.length
      · rw [List.getElem?_append_left hlt] at he
        exact h.ids id e he
      · have : id = b.orders.length := by
          have := (List.getElem?_eq_some_iff.mp he).1
          simp at this; omega
        subst this
        simp at he
        subst he
        exact hid
    · intro id e he hn
      by_cases hlt : id < b.orders.length
      · rw [List.getElem?_append_left hlt] at he
        exact h.newok id e he hn
      · have : id = b.orders.length := by
          have := (List.getElem?_eq_some_iff.mp he).1
          simp at this; omega
        subst this
        simp at he
        subst he
        exact ⟨by simp [hosd], hov, hop⟩
  unfold Book.createOrder
  split
  · split
    · exact h
    · rename_i pp _
      exact key _ (by simp [Book.mkOrder]) (by simp [Book.mkOrder]) (by simp [Book.mkOrder]) (by simpa [Book.mkOrder] using hvol)
        (by cases sd <;> simpa [Book.mkOrder] using hprice pp rfl)
  · exact key _ (by simp [Book.mkOrder]) (by simp [Book.mkOrder]) (by simp [Book.mkOrder]) (by simpa [Book.mkOrder] using hvol)
      (by cases sd <;> simp [Book.mkOrder, MAXP])

/-- Queuing the aggressor after the loop and writing it back ends in a state satisfying `Inv`. -/
theorem LoopInv.close_enqueue {b : Book} {a : Nat} (h : LoopInv b a) (sd : Side) (e : Entry) (pk : Nat)
    (hid : e.order.id = a) (hs : e.order.status = .active) (hside : e.order.side = sd) (hv : 0 < e.order.vol)
    (hpk : pk = priceKey sd e.order.price) (hpb : e.order.price ≤ MAXP)
    (hnf : (Book.writeBack (Book.enqueue sd b e pk) a).faulted = false) :
    Inv (Book.writeBack (Book.enqueue sd b e pk) a) := by
  subst hid
  -- the key is fresh: every stamp in the queue is below the counter
  have hfresh : SMap.find? (pk, b.stamp) (b.side sd).orders = none := by
    cases hf : SMap.find? (pk, b.stamp) (b.side sd).orders with
    | none => rfl
    | some j =>
      have hm := SMap.mem_of_find? hf
      obtain ⟨_, _, _, _, _, _, _, hlt, _⟩ := (h.side sd).ent _ _ hm
      simp at hlt
  let e' : Entry := { e with key := ⟨sd, pk, b.stamp⟩ }
  have hstate : Book.writeBack (Book.enqueue sd b e pk) e.order.id =
      { ({ b with stamp := b.stamp + 1 } : Book).setSide sd ((b.side sd).insertOrder pk b.stamp e.order.id e.order.vol) with
        orders := b.orders.set e.order.id e' } := by
    simp only [Book.writeBack, Book.enqueue, e']
    cases sd <;> simp [Book.setSide, Book.side]
  rw [hstate] at hnf ⊢
  have hsidenf : ((b.side sd).insertOrder pk b.stamp e.order.id e.order.vol).fault = false := by
    simp only [Book.faulted, Bool.or_eq_false_iff] at hnf
    cases sd
    · simpa [Book.setSide] using hnf.2
    · simpa [Book.setSide] using hnf.1.2
  have hown : SideInv (b.orders.set e.order.id e') sd ((b.side sd).insertOrder pk b.stamp e.order.id e'.order.vol) (b.stamp + 1) :=
    (h.side sd).insert pk b.stamp e.order.id e' hfresh (h.out sd) h.alt (Nat.le_succ _)
      ⟨hs, hside, rfl, hpk, hv, Nat.lt_succ_self _, hpb⟩ hsidenf
  have hopp : SideInv (b.orders.set e.order.id e') sd.opp (b.side sd.opp) (b.stamp + 1) :=
    (h.side sd.opp).frame e.order.id e' (h.out sd.opp) (Nat.le_succ _)
  have hact : ∀ (id : Nat) (x : Entry), (b.orders.set e.order.id e')[id]? = some x → x.order.status = .active →
      ((x.key.pk, x.key.st), id) ∈ (if x.order.side = sd then (b.side sd).insertOrder pk b.stamp e.order.id e.order.vol else b.side sd.opp).orders := by
    intro id x hx hxa
    by_cases hia : id = e.order.id
    · subst hia
      simp [List.getElem?_set, h.alt] at hx
      subst hx
      simp only [e', hside, if_true, SideS.insertOrder]
      exact SMap.mem_insert_self (h.side sd).so
    · simp only [List.getElem?_set, Ne.symm hia, if_false] at hx
      have hq := h.act id x hia hx hxa
      by_cases hxs : x.order.side = sd
      · simp only [hxs, if_true, SideS.insertOrder]
        rw [hxs] at hq
        refine SMap.mem_insert_of_ne (h.side sd).so hq ?_
        intro hc
        simp only at hc
        obtain ⟨_, _, _, _, _, _, _, hlt, _⟩ := (h.side sd).ent _ _ hq
        simp only at hlt
        have : x.key.st = b.stamp := congrArg Prod.snd hc
        omega
      · simp only [hxs, if_false]
        have : x.order.side = sd.opp := by cases sd <;> cases hh : x.order.side <;> simp_all [Side.opp]
        rw [this] at hq; exact hq
  have hids : ∀ (id : Nat) (x : Entry), (b.orders.set e.order.id e')[id]? = some x → x.order.id = id := by
    intro id x hx
    by_cases hia : id = e.order.id
    · subst hia
      simp [List.getElem?_set, h.alt] at hx
      subst hx; rfl
    · simp only [List.getElem?_set, Ne.symm hia, if_false] at hx
      exact h.ids id x hx
  have hnewok : ∀ (id : Nat) (x : Entry), (b.orders.set e.order.id e')[id]? = some x → x.order.status = .new →
      x.key.pk = priceKey x.order.side x.order.price ∧ 0 < x.order.vol ∧ x.order.price ≤ MAXP := by
    intro id x hx hxn
    by_cases hia : id = e.order.id
    · subst hia
      simp [h.alt] at hx
      subst hx
      simp only [e', hs] at hxn; cases hxn
    · simp only [List.getElem?_set, Ne.symm hia, if_false] at hx
      exact h.newok id x hia hx hxn
  cases sd
  · refine ⟨by simpa [Book.setSide] using hown, by simpa [Book.setSide, Book.side, Side.opp] using hopp, ?_, hids, hnewok, h.nofault⟩
    intro id x hx hxa
    have := hact id x hx hxa
    cases hxs : x.order.side <;> simp [hxs, Book.side, Book.setSide, Side.opp] at this ⊢ <;> exact this
  · refine ⟨by simpa [Book.setSide, Book.side, Side.opp] using hopp, by simpa [Book.setSide] using hown, ?_, hids, hnewok, h.nofault⟩
    intro id x hx hxa
    have := hact id x hx hxa
    cases hxs : x.order.side <;> simp [hxs, Book.side, Book.setSide, Side.opp] at this ⊢ <;> exact this

/-! ### Finishing an aggressor: rest or discard -/

theorem insertOrder_fault_mono (s : SideS) (pk st id vol : Nat) (h : s.fault = true) :
    (s.insertOrder pk st id vol).fault = true := by
  simp only [SideS.insertOrder]; split <;> simp [h]

theorem enqueue_faulted_mono (sd : Side) (b : Book) (e : Entry) (pk : Nat) (h : b.faulted = true) :
    (Book.enqueue sd b e pk).1.faulted = true := by
  simp only [Book.faulted, Bool.or_eq_true] at h ⊢
  simp only [Book.enqueue]
  rcases h with (h | h) | h
  · left; left; cases sd <;> simpa [Book.setSide] using h
  · cases sd
    · left; right; simpa [Book.setSide, Book.side] using h
    · left; right; simp only [Book.setSide, Book.side]; exact insertOrder_fault_mono _ _ _ _ _ h
  · cases sd
    · right; simp only [Book.setSide, Book.side]; exact insertOrder_fault_mono _ _ _ _ _ h
    · right; simpa [Book.setSide, Book.side] using h

theorem writeBack_faulted (r : Book × Entry) (id : Nat) : (Book.writeBack r id).faulted = r.1.faulted := rfl

theorem matchIfTrading_loopInv {b : Book} {a : Nat} (h : LoopInv b a) (sd : Side) (e : Entry)
    (hnf : (Book.matchIfTrading sd b e).1.faulted = false) : LoopInv (Book.matchIfTrading sd b e).1 a := by
  unfold Book.matchIfTrading Book.matchSide at hnf ⊢
  split
  · rename_i ht; simp only [ht, if_true] at hnf; exact h.matchLoop sd _ e hnf
  · exact h

theorem matchIfTrading_agg_status (sd : Side) (b : Book) (e : Entry)
    (hs : e.order.status = .active) (hv : 0 < e.order.vol) :
    ((Book.matchIfTrading sd b e).2.order.status = .active ∧ 0 < (Book.matchIfTrading sd b e).2.order.vol) ∨
    (Book.matchIfTrading sd b e).2.order.status = .filled := by
  unfold Book.matchIfTrading Book.matchSide
  split
  · exact matchLoop_agg_status sd _ b e hs hv
  · left; exact ⟨hs, hv⟩

/-- A limit aggressor (a placement, or a re-entering modification): match, then rest the remainder
under `pk` or stop if filled; write back. -/
theorem LoopInv.finish_limit {b : Book} {a : Nat} (h : LoopInv b a) (sd : Side) (e : Entry) (pk : Nat)
    (hid : e.order.id = a) (hs : e.order.status = .active) (hside : e.order.side = sd) (hv : 0 < e.order.vol)
    (hpk : pk = priceKey sd e.order.price) (hpb : e.order.price ≤ MAXP)
    (hnf : (Book.writeBack (Book.restUnlessFilled sd (Book.matchIfTrading sd b e) pk) a).faulted = false) :
    Inv (Book.writeBack (Book.restUnlessFilled sd (Book.matchIfTrading sd b e) pk) a) := by
  have hident := Book.matchIfTrading_ident sd b e
  have hstat := matchIfTrading_agg_status sd b e hs hv
  unfold Book.restUnlessFilled at hnf ⊢
  by_cases hf : (Book.matchIfTrading sd b e).2.order.status = .filled
  · simp only [hf, ne_eq, not_true_eq_false, if_false] at hnf ⊢
    rw [writeBack_faulted] at hnf
    have hl := matchIfTrading_loopInv h sd e hnf
    exact hl.close_inactive _ (by rw [hf]; simp) (by rw [hf]; simp) (by rw [hident.1, hid])
  · simp only [hf, ne_eq, not_false_eq_true, if_true] at hnf ⊢
    have hmnf : (Book.matchIfTrading sd b e).1.faulted = false := by
      cases hc : (Book.matchIfTrading sd b e).1.faulted with
      | false => rfl
      | true =>
        rw [writeBack_faulted, enqueue_faulted_mono _ _ _ _ hc] at hnf; cases hnf
    have hl := matchIfTrading_loopInv h sd e hmnf
    rcases hstat with hstat | hstat
    · exact hl.close_enqueue sd _ pk (by rw [hident.1, hid]) hstat.1 (by rw [hident.2.1, hside]) hstat.2
        (by rw [hident.2.2.2.2.2]; exact hpk) (by rw [hident.2.2.2.2.2]; exact hpb) hnf
    · exact absurd hstat hf

/-- A market aggressor: match, discard the remainder (or reject while trading is disabled); write back. -/
theorem LoopInv.finish_market {b : Book} {a : Nat} (h : LoopInv b a) (sd : Side) (e : Entry)
    (hid : e.order.id = a) (hs : e.order.status = .active)
    (hnf : (Book.writeBack (Book.placeMarket sd b e) a).faulted = false) :
    Inv (Book.writeBack (Book.placeMarket sd b e) a) := by
  by_cases ht : b.trading = true
  · have hident := Book.matchLoop_ident sd (Book.matchFuel b sd) b e
    by_cases hfl : (Book.matchSide sd b e).2.order.status = .filled
    · have heq : Book.placeMarket sd b e = Book.matchSide sd b e := by
        simp [Book.placeMarket, ht, Book.cancelRemainder, hfl]
      rw [heq] at hnf ⊢
      rw [writeBack_faulted] at hnf
      have hl := h.matchLoop sd _ e hnf
      exact hl.close_inactive _ (by rw [hfl]; simp) (by rw [hfl]; simp)
        (by simpa [Book.matchSide] using hident.1.trans hid)
    · have heq : Book.placeMarket sd b e =
          ((Book.matchSide sd b e).1, { (Book.matchSide sd b e).2 with
              order := { (Book.matchSide sd b e).2.order with status := .cancelled, endt := (Book.matchSide sd b e).1.t } }) := by
        simp [Book.placeMarket, ht, Book.cancelRemainder, hfl]
      rw [heq] at hnf ⊢
      rw [writeBack_faulted] at hnf
      have hl := h.matchLoop sd _ e hnf
      exact hl.close_inactive _ (by simp) (by simp) (by simpa [Book.matchSide] using hident.1.trans hid)
  · have heq : Book.placeMarket sd b e = (b, { e with order := { e.order with status := .rejected, endt := b.t } }) := by
      simp [Book.placeMarket, ht]
    rw [heq]
    exact h.close_inactive _ (by simp) (by simp) (by simpa using hid)

/-- **`place_order`** keeps the invariant. -/
theorem Inv.place {b : Book} (h : Inv b) (id : Nat) (hnf : (b.placeOrder id).faulted = false) :
    Inv (b.placeOrder id) := by
  cases he : b.orders[id]? with
  | none => simp [Book.placeOrder, he, Book.faulted] at hnf
  | some e =>
    by_cases hnew : e.order.status = .new
    · have hl := h.toLoop he (by rw [hnew]; simp)
      have hid := h.ids id e he
      have hnk := h.newok id e he hnew
      have hmk : Book.isMarket (b.activate e).order = Book.isMarket e.order := rfl
      by_cases hm : Book.isMarket (b.activate e).order = true
      · have heq : b.placeOrder id = Book.writeBack (Book.placeMarket (b.activate e).order.side b (b.activate e)) id := by
          simp [Book.placeOrder, he, hnew, Book.placeEntry, hm]
        rw [heq] at hnf ⊢
        exact hl.finish_market _ _ (by simpa [Book.activate] using hid) (by simp [Book.activate]) hnf
      · have heq : b.placeOrder id = Book.writeBack (Book.restUnlessFilled (b.activate e).order.side
            (Book.matchIfTrading (b.activate e).order.side b (b.activate e)) (b.activate e).key.pk) id := by
          simp [Book.placeOrder, he, hnew, Book.placeEntry, hm, Book.placeLimit]
        rw [heq] at hnf ⊢
        exact hl.finish_limit _ _ _ (by simpa [Book.activate] using hid) (by simp [Book.activate]) rfl
          (by simpa [Book.activate] using hnk.2.1) (by simpa [Book.activate] using hnk.1) (by simpa [Book.activate] using hnk.2.2) hnf
    · have heq : b.placeOrder id = b := by simp [Book.placeOrder, he, hnew]
      rw [heq]; exact h

/-! ### Taking an Active order out of its queue -/

theorem removeOrder_orders (s : SideS) (pk st vol : Nat) :
    (s.removeOrder pk st vol).orders = SMap.erase (pk, st) s.orders := by
  simp only [SideS.removeOrder]; split <;> rfl

/-- After `dequeue` the Active order `id` is out of the book (its table entry still says Active):
the loop invariant holds. -/
theorem Inv.dequeue_loop {b : Book} (h : Inv b) {id : Nat} {e : Entry} (he : b.orders[id]? = some e)
    (hact : e.order.status = .active) : LoopInv (b.dequeue e) id := by
  have hm := h.act id e he hact
  obtain ⟨e0, he0, _, hside0, hkey0, _⟩ := (h.side e.order.side).ent _ _ hm
  rw [he] at he0; injection he0 with he0; subst he0
  have hks : e.key.side = e.order.side := by rw [hkey0]
  have hvol : volOf b.orders id = e.order.vol := by simp [volOf, he]
  have hset : b.orders.set id e = b.orders := set_of_getElem? he
  have hown : SideInv b.orders e.order.side ((b.side e.order.side).removeOrder e.key.pk e.key.st e.order.vol) b.stamp := by
    have := (h.side e.order.side).remove e.key.pk e.key.st id e hm
    rw [hset, hvol] at this; exact this
  have hdq_own : (b.dequeue e).side e.order.side = (b.side e.order.side).removeOrder e.key.pk e.key.st e.order.vol := by
    simp [Book.dequeue, hks]
  have hdq_opp : (b.dequeue e).side e.order.side.opp = b.side e.order.side.opp := by
    simp [Book.dequeue, hks]
  have hdq_orders : (b.dequeue e).orders = b.orders := by simp [Book.dequeue]
  have hdq_stamp : (b.dequeue e).stamp = b.stamp := by simp [Book.dequeue]
  have hsides : ∀ sd', SideInv (b.dequeue e).orders sd' ((b.dequeue e).side sd') (b.dequeue e).stamp := by
    intro sd'
    rw [hdq_orders, hdq_stamp]
    by_cases hs : sd' = e.order.side
    · subst hs; rw [hdq_own]; exact hown
    · have : sd' = e.order.side.opp := Book.eq_opp_of_ne hs
      subst this; rw [hdq_opp]; exact h.side _
  refine ⟨hsides .bid, hsides .ask, ?_, ?_, ?_, ?_, ?_, ?_⟩
  · intro j ej hji hej hactj
    rw [hdq_orders] at hej
    have hq := h.act j ej hej hactj
    by_cases hs : ej.order.side = e.order.side
    · rw [hs] at hq ⊢
      rw [hdq_own, removeOrder_orders]
      refine SMap.mem_erase_of_ne (h.side _).so hq ?_
      intro hc
      simp only at hc
      rw [hc] at hq
      have h1 := SMap.find?_of_mem (h.side _).so hq
      have h2 := SMap.find?_of_mem (h.side _).so hm
      rw [h1] at h2; injection h2 with h2; exact hji h2
    · have hso : ej.order.side = e.order.side.opp := Book.eq_opp_of_ne hs
      rw [hso] at hq ⊢; rw [hdq_opp]; exact hq
  · intro sd' k hk
    by_cases hs : sd' = e.order.side
    · subst hs
      rw [hdq_own, removeOrder_orders] at hk
      have hk' := SMap.mem_erase_imp _ _ _ hk
      have := (h.side _).unique hk' hm
      subst this
      have hf := SMap.find?_of_mem (SMap.sorted_erase _ _ (h.side _).so) hk
      rw [SMap.find?_erase _ _ _ (h.side _).so] at hf
      simp at hf
    · have : sd' = e.order.side.opp := Book.eq_opp_of_ne hs
      subst this
      rw [hdq_opp] at hk
      obtain ⟨e1, he1, _, hs1, _⟩ := (h.side _).ent k id hk
      rw [he] at he1; injection he1 with he1; subst he1
      exact Book.opp_ne _ hs1.symm
  · intro j ej hej; rw [hdq_orders] at hej; exact h.ids j ej hej
  · intro j ej _ hej hn; rw [hdq_orders] at hej; exact h.newok j ej hej hn
  · rw [hdq_orders]; exact (List.getElem?_eq_some_iff.mp he).1
  · simp [Book.dequeue, h.nofault]

/-- **`cancel_order`** keeps the invariant. -/
theorem Inv.cancel {b : Book} (h : Inv b) (id : Nat) (hnf : (b.cancelOrder id).faulted = false) :
    Inv (b.cancelOrder id) := by
  cases he : b.orders[id]? with
  | none => simp [Book.cancelOrder, he, Book.faulted] at hnf
  | some e =>
    by_cases hact : e.order.status = .active
    · have hl := h.dequeue_loop he hact
      let ec : Entry := { e with order := { e.order with status := .cancelled, endt := b.t } }
      have heq : b.cancelOrder id = { (b.dequeue e) with orders := (b.dequeue e).orders.set id ec } := by
        simp only [Book.cancelOrder, he, hact, if_true, Book.dequeue, ec]
        cases e.key.side <;> simp [Book.setSide, Book.side]
      rw [heq]
      exact hl.close_inactive ec (by simp [ec]) (by simp [ec]) (by simpa [ec] using h.ids id e he)
    · have heq : b.cancelOrder id = b := by simp [Book.cancelOrder, he, hact]
      rw [heq]; exact h

/-! ### Modification -/

theorem removeVol_orders (s : SideS) (pk vol : Nat) : (s.removeVol pk vol).orders = s.orders := by
  simp only [SideS.removeVol]; split <;> rfl

/-- A pure volume reduction keeps the invariant. -/
theorem Inv.reduce {b : Book} (h : Inv b) {id : Nat} {e : Entry} (he : b.orders[id]? = some e)
    (hact : e.order.status = .active) (v : Nat) (hv : 0 < v) (hlt : v < e.order.vol) :
    Inv (Book.writeBack (b.reduceOrderVol e (e.order.vol - v)) id) := by
  have hm := h.act id e he hact
  obtain ⟨e0, he0, _, _, hkey0, _⟩ := (h.side e.order.side).ent _ _ hm
  rw [he] at he0; injection he0 with he0; subst he0
  have hks : e.key.side = e.order.side := by rw [hkey0]
  have hidlt : id < b.orders.length := (List.getElem?_eq_some_iff.mp he).1
  let e' : Entry := { e with order := { e.order with vol := e.order.vol - (e.order.vol - v) } }
  have hown : SideInv (b.orders.set id e') e.order.side ((b.side e.order.side).removeVol e.key.pk (e.order.vol - v)) b.stamp :=
    (h.side e.order.side).reduce e.key.pk e.key.st id (e.order.vol - v) e e' hm he (by omega)
      ⟨hact, rfl, rfl, rfl, rfl⟩
  have hnotopp : ∀ k, (k, id) ∉ (b.side e.order.side.opp).orders := by
    intro k hk
    obtain ⟨e1, he1, _, hs1, _⟩ := (h.side _).ent k id hk
    rw [he] at he1; injection he1 with he1; subst he1
    exact Book.opp_ne _ hs1.symm
  have hopp : SideInv (b.orders.set id e') e.order.side.opp (b.side e.order.side.opp) b.stamp :=
    (h.side _).frame id e' hnotopp (Nat.le_refl _)
  have hstate_orders : (Book.writeBack (b.reduceOrderVol e (e.order.vol - v)) id).orders = b.orders.set id e' := by
    simp [Book.writeBack, Book.reduceOrderVol, e']
  have hstate_own : (Book.writeBack (b.reduceOrderVol e (e.order.vol - v)) id).side e.order.side =
      (b.side e.order.side).removeVol e.key.pk (e.order.vol - v) := by
    simp [Book.reduceOrderVol, hks]
  have hstate_opp : (Book.writeBack (b.reduceOrderVol e (e.order.vol - v)) id).side e.order.side.opp =
      b.side e.order.side.opp := by
    simp [Book.reduceOrderVol, hks]
  have hstate_stamp : (Book.writeBack (b.reduceOrderVol e (e.order.vol - v)) id).stamp = b.stamp := by
    simp [Book.writeBack, Book.reduceOrderVol]
  have hsides : ∀ sd', SideInv (Book.writeBack (b.reduceOrderVol e (e.order.vol - v)) id).orders sd'
      ((Book.writeBack (b.reduceOrderVol e (e.order.vol - v)) id).side sd')
      (Book.writeBack (b.reduceOrderVol e (e.order.vol - v)) id).stamp := by
    intro sd'
    rw [hstate_orders, hstate_stamp]
    by_cases hs : sd' = e.order.side
    · subst hs; rw [hstate_own]; exact hown
    · have : sd' = e.order.side.opp := Book.eq_opp_of_ne hs
      subst this; rw [hstate_opp]; exact hopp
  refine ⟨hsides .bid, hsides .ask, ?_, ?_, ?_, ?_⟩
  · intro j ej hej hactj
    rw [hstate_orders] at hej
    by_cases hji : j = id
    · subst hji
      simp [hidlt] at hej
      subst hej
      simp only [e']
      rw [hstate_own, removeVol_orders]; exact hm
    · simp only [List.getElem?_set, Ne.symm hji, if_false] at hej
      have hq := h.act j ej hej hactj
      by_cases hs : ej.order.side = e.order.side
      · rw [hs] at hq ⊢; rw [hstate_own, removeVol_orders]; exact hq
      · have hso : ej.order.side = e.order.side.opp := Book.eq_opp_of_ne hs
        rw [hso] at hq ⊢; rw [hstate_opp]; exact hq
  · intro j ej hej
    rw [hstate_orders] at hej
    by_cases hji : j = id
    · subst hji; simp [hidlt] at hej; subst hej; exact h.ids j e he
    · simp only [List.getElem?_set, Ne.symm hji, if_false] at hej; exact h.ids j ej hej
  · intro j ej hej hn
    rw [hstate_orders] at hej
    by_cases hji : j = id
    · subst hji; simp [hidlt] at hej; subst hej; simp only [e', hact] at hn; cases hn
    · simp only [List.getElem?_set, Ne.symm hji, if_false] at hej; exact h.newok j ej hej hn
  · simp [Book.writeBack, Book.reduceOrderVol, h.nofault]

/-- A re-entering modification keeps the invariant. -/
theorem Inv.replace {b : Book} (h : Inv b) {id : Nat} {e : Entry} (he : b.orders[id]? = some e)
    (hact : e.order.status = .active) (np nv : Nat) (hv : 0 < nv) (hnp : np ≤ MAXP)
    (hnf : (Book.writeBack (b.replaceOrder e np nv) id).faulted = false) :
    Inv (Book.writeBack (b.replaceOrder e np nv) id) := by
  have hm := h.act id e he hact
  obtain ⟨e0, he0, _, _, hkey0, _⟩ := (h.side e.order.side).ent _ _ hm
  rw [he] at he0; injection he0 with he0; subst he0
  have hks : e.key.side = e.order.side := by rw [hkey0]
  have hl := h.dequeue_loop he hact
  unfold Book.replaceOrder at hnf ⊢
  rw [hks] at hnf ⊢
  exact hl.finish_limit e.order.side _ _ (by simpa using h.ids id e he) (by simpa using hact) rfl (by simpa using hv) rfl (by simpa using hnp) hnf

/-- **`modify_order`** keeps the invariant (new volumes are at least 1). -/
theorem Inv.modify {b : Book} (h : Inv b) (id : Nat) (np nv : Option Nat) (hvalid : ∀ v, nv = some v → 0 < v)
    (hpvalid : ∀ p, np = some p → p ≤ MAXP) (hnf : (b.modifyOrder id np nv).faulted = false) : Inv (b.modifyOrder id np nv) := by
  cases he : b.orders[id]? with
  | none => simp [Book.modifyOrder, he, Book.faulted] at hnf
  | some e =>
    by_cases hg : Book.offGrid b.tick np = true
    · have : b.modifyOrder id np nv = b := by simp [Book.modifyOrder, he, hg]
      rw [this]; exact h
    · by_cases hact : e.order.status = .active
      · have heq : b.modifyOrder id np nv = Book.writeBack (b.modifyEntry e np nv) id := by
          simp [Book.modifyOrder, he, hg, hact]
        rw [heq] at hnf ⊢
        have hepos : 0 < e.order.vol ∧ e.order.price ≤ MAXP := by
          obtain ⟨e0, he0, _, _, _, _, hp, _, hb⟩ := (h.side e.order.side).ent _ _ (h.act id e he hact)
          rw [he] at he0; injection he0 with he0; subst he0; exact ⟨hp, hb⟩
        cases np with
        | none =>
          cases nv with
          | none =>
            have : Book.writeBack (b.modifyEntry e none none) id = b := by
              simp [Book.modifyEntry, Book.writeBack, set_of_getElem? he]
            rw [this]; exact h
          | some v =>
            by_cases hlt : v < e.order.vol
            · have : b.modifyEntry e none (some v) = b.reduceOrderVol e (e.order.vol - v) := by
                simp [Book.modifyEntry, hlt]
              rw [this]
              exact h.reduce he hact v (hvalid v rfl) hlt
            · have : b.modifyEntry e none (some v) = b.replaceOrder e e.order.price v := by
                simp [Book.modifyEntry, hlt]
              rw [this] at hnf ⊢
              exact h.replace he hact _ _ (hvalid v rfl) hepos.2 hnf
        | some p =>
          cases nv with
          | none =>
            have : b.modifyEntry e (some p) none = b.replaceOrder e p e.order.vol := rfl
            rw [this] at hnf ⊢
            exact h.replace he hact _ _ hepos.1 (hpvalid p rfl) hnf
          | some v =>
            have : b.modifyEntry e (some p) (some v) = b.replaceOrder e p v := rfl
            rw [this] at hnf ⊢
            exact h.replace he hact _ _ (hvalid v rfl) (hpvalid p rfl) hnf
      · have : b.modifyOrder id np nv = b := by simp [Book.modifyOrder, he, hg, hact]
        rw [this]; exact h

end Bourse
