/-
Both writers produce *good* texts (balanced, never dipping below the starting depth) for every
JSON value whose strings contain no quote — in particular for every snapshot.
-/
import Bourse.Lemmas.JsonScan

namespace Bourse
namespace Json

instance : DecidablePred plain := fun c => by unfold plain; infer_instance

mutual
/-- No string (value or member name) contains a quote. -/
def J.WF : J → Prop
  | .num _ => True
  | .str s => '"' ∉ s
  | .bool _ => True
  | .arr l => WFList l
  | .obj l => WFMembers l
def WFList : List J → Prop
  | [] => True
  | x :: r => x.WF ∧ WFList r
def WFMembers : List (List Char × J) → Prop
  | [] => True
  | (k, v) :: r => '"' ∉ k ∧ v.WF ∧ WFMembers r
end

theorem digitChar_plain : ∀ d, d < 10 → plain (digitChar d) := by decide

theorem natDigitsAux_plain (fuel n : Nat) (acc : List Char) (h : ∀ c ∈ acc, plain c) :
    ∀ c ∈ natDigitsAux fuel n acc, plain c := by
  induction fuel generalizing n acc with
  | zero => exact h
  | succ fuel ih =>
    unfold natDigitsAux
    split
    · rename_i hlt
      intro c hc
      rcases List.mem_cons.mp hc with rfl | hc
      · exact digitChar_plain n hlt
      · exact h c hc
    · apply ih
      intro c hc
      rcases List.mem_cons.mp hc with rfl | hc
      · exact digitChar_plain _ (Nat.mod_lt _ (by omega))
      · exact h c hc

theorem natDigits_good (n : Nat) : Good (natDigits n) :=
  good_plain (natDigitsAux_plain _ _ [] (by simp))

theorem good_char {c : Char} (h : plain c) : Good [c] := good_plain (by simpa using h)

theorem good_cons {c : Char} {w : List Char} (hc : plain c) (hw : Good w) : Good (c :: w) :=
  good_append (a := [c]) (good_char hc) hw

theorem indent_good (lvl : Nat) : Good (indent lvl) := by
  apply good_plain
  intro c hc
  have := List.eq_of_mem_replicate hc
  subst this; decide

theorem good_true : Good (lit "true") := good_plain (by decide)
theorem good_false : Good (lit "false") := good_plain (by decide)
theorem good_emptyArr : Good (lit "[]") := by
  have := good_wrap good_nil '[' ']' (Or.inr rfl) (Or.inr rfl)
  simpa [lit] using this
theorem good_emptyObj : Good (lit "{}") := by
  have := good_wrap good_nil '{' '}' (Or.inl rfl) (Or.inl rfl)
  simpa [lit] using this

/-! ### The compact writer -/

mutual
theorem renderCompact_good : (j : J) → j.WF → Good (renderCompact j)
  | .num n, _ => by rw [renderCompact]; exact natDigits_good n
  | .str s, h => by rw [renderCompact]; exact good_quote (by simpa [J.WF] using h)
  | .bool true, _ => by rw [renderCompact]; exact good_true
  | .bool false, _ => by rw [renderCompact]; exact good_false
  | .arr l, h => by
    rw [renderCompact]
    exact good_wrap (renderElemsC_good l (by simpa [J.WF] using h)) '[' ']' (Or.inr rfl) (Or.inr rfl)
  | .obj l, h => by
    rw [renderCompact]
    exact good_wrap (renderMembersC_good l (by simpa [J.WF] using h)) '{' '}' (Or.inl rfl) (Or.inl rfl)
theorem renderElemsC_good : (l : List J) → WFList l → Good (renderElemsC l)
  | [], _ => by rw [renderElemsC]; exact good_nil
  | [x], h => by rw [renderElemsC]; exact renderCompact_good x h.1
  | x :: y :: r, h => by
    rw [renderElemsC]
    exact good_append (renderCompact_good x h.1) (good_cons (by decide) (renderElemsC_good (y :: r) h.2))
theorem renderMembersC_good : (l : List (List Char × J)) → WFMembers l → Good (renderMembersC l)
  | [], _ => by rw [renderMembersC]; exact good_nil
  | [(k, v)], h => by
    rw [renderMembersC]
    exact good_append (good_quote h.1) (good_cons (by decide) (renderCompact_good v h.2.1))
  | (k, v) :: y :: r, h => by
    rw [renderMembersC]
    exact good_append (good_append (good_quote h.1) (good_cons (by decide) (renderCompact_good v h.2.1)))
      (good_cons (by decide) (renderMembersC_good (y :: r) h.2.2))
end

/-! ### The pretty writer -/

mutual
theorem renderPretty_good : (lvl : Nat) → (j : J) → j.WF → Good (renderPretty lvl j)
  | _, .num n, _ => by rw [renderPretty]; exact natDigits_good n
  | _, .str s, h => by rw [renderPretty]; exact good_quote (by simpa [J.WF] using h)
  | _, .bool true, _ => by rw [renderPretty]; exact good_true
  | _, .bool false, _ => by rw [renderPretty]; exact good_false
  | _, .arr [], _ => by rw [renderPretty]; exact good_emptyArr
  | lvl, .arr (x :: r), h => by
    rw [renderPretty]
    have hin : Good ('\n' :: renderElemsP (lvl + 1) (x :: r) ++ '\n' :: indent lvl) :=
      good_cons (by decide) (good_append (renderElemsP_good (lvl + 1) (x :: r) (by simpa [J.WF] using h))
        (good_cons (by decide) (indent_good lvl)))
    have := good_wrap hin '[' ']' (Or.inr rfl) (Or.inr rfl)
    simpa [List.append_assoc] using this
  | _, .obj [], _ => by rw [renderPretty]; exact good_emptyObj
  | lvl, .obj (x :: r), h => by
    rw [renderPretty]
    have hin : Good ('\n' :: renderMembersP (lvl + 1) (x :: r) ++ '\n' :: indent lvl) :=
      good_cons (by decide) (good_append (renderMembersP_good (lvl + 1) (x :: r) (by simpa [J.WF] using h))
        (good_cons (by decide) (indent_good lvl)))
    have := good_wrap hin '{' '}' (Or.inl rfl) (Or.inl rfl)
    simpa [List.append_assoc] using this
theorem renderElemsP_good : (lvl : Nat) → (l : List J) → WFList l → Good (renderElemsP lvl l)
  | _, [], _ => by rw [renderElemsP]; exact good_nil
  | lvl, [x], h => by rw [renderElemsP]; exact good_append (indent_good lvl) (renderPretty_good lvl x h.1)
  | lvl, x :: y :: r, h => by
    rw [renderElemsP]
    refine good_append (good_append (indent_good lvl) (renderPretty_good lvl x h.1)) ?_
    exact good_cons (by decide) (good_cons (by decide) (renderElemsP_good lvl (y :: r) h.2))
theorem renderMembersP_good : (lvl : Nat) → (l : List (List Char × J)) → WFMembers l → Good (renderMembersP lvl l)
  | _, [], _ => by rw [renderMembersP]; exact good_nil
  | lvl, [(k, v)], h => by
    rw [renderMembersP]
    refine good_append (good_append (indent_good lvl) (good_quote h.1)) ?_
    exact good_cons (by decide) (good_cons (by decide) (renderPretty_good lvl v h.2.1))
  | lvl, (k, v) :: y :: r, h => by
    rw [renderMembersP]
    refine good_append (good_append (good_append (indent_good lvl) (good_quote h.1)) ?_) ?_
    · exact good_cons (by decide) (good_cons (by decide) (renderPretty_good lvl v h.2.1))
    · exact good_cons (by decide) (good_cons (by decide) (renderMembersP_good lvl (y :: r) h.2.2))
end

end Json
end Bourse
