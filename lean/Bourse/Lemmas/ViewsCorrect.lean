/-
The published market data of a book satisfying `Inv` equals the recomputation `Spec.Views` from its
order list (C02).
-/
import Bourse.Lemmas.Reach
import Bourse.Spec.Views

namespace Bourse

/-- "Active on side `sd`". -/
def restsOn (sd : Side) (e : Entry) : Bool := e.order.status = .active && e.order.side = sd

theorem resting_map (os : List Entry) (sd : Side) :
    Views.resting (os.map (·.order)) sd = (os.filter (restsOn sd)).map (·.order) := by
  simp only [Views.resting, restsOn, List.filter_map]
  rfl

/-- Ids (table indexes) of the entries satisfying `p`, in table order. -/
def idxOf (os : List Entry) (p : Entry → Bool) : List Nat := ((os.zipIdx).filter (fun x => p x.1)).map (·.2)

theorem zipIdx_filter_fst {α} (l : List α) (p : α → Bool) (k : Nat) :
    ((l.zipIdx k).filter (fun x => p x.1)).map (·.1) = l.filter p := by
  induction l generalizing k with
  | nil => rfl
  | cons a l ih =>
    simp only [List.zipIdx_cons, List.filter_cons]
    split
    · simp [ih]
    · exact ih _

theorem idxOf_nodup (os : List Entry) (p : Entry → Bool) : (idxOf os p).Nodup := by
  have h : ∀ k, (((os.zipIdx k).filter (fun x => p x.1)).map (·.2)).Pairwise (· ≠ ·) ∧
      ∀ j ∈ ((os.zipIdx k).filter (fun x => p x.1)).map (·.2), k ≤ j := by
    induction os with
    | nil => intro k; simp
    | cons a l ih =>
      intro k
      obtain ⟨h1, h2⟩ := ih (k + 1)
      simp only [List.zipIdx_cons, List.filter_cons]
      split
      · refine ⟨?_, ?_⟩
        · simp only [List.map_cons, List.pairwise_cons]
          refine ⟨?_, h1⟩
          intro j hj
          have := h2 j hj
          omega
        · intro j hj
          simp only [List.map_cons, List.mem_cons] at hj
          rcases hj with hj | hj
          · omega
          · have := h2 j hj; omega
      · exact ⟨h1, fun j hj => by have := h2 j hj; omega⟩
  exact (h 0).1

theorem mem_idxOf {os : List Entry} {p : Entry → Bool} {i : Nat} :
    i ∈ idxOf os p ↔ ∃ e, os[i]? = some e ∧ p e = true := by
  simp only [idxOf, List.mem_map, List.mem_filter]
  constructor
  · rintro ⟨⟨e, j⟩, ⟨hm, hp⟩, rfl⟩
    exact ⟨e, List.mk_mem_zipIdx_iff_getElem?.mp hm, hp⟩
  · rintro ⟨e, he, hp⟩
    exact ⟨(e, i), ⟨List.mk_mem_zipIdx_iff_getElem?.mpr he, hp⟩, rfl⟩

/-- The entry at index `i` (default if out of range). -/
def entryAt (os : List Entry) (i : Nat) : Entry := (os[i]?).getD default

/-- Summing `f` over the table entries selected by `p` is summing over their indexes. -/
theorem sum_idxOf (os : List Entry) (p : Entry → Bool) (f : Entry → Nat) :
    ((idxOf os p).map (fun i => f (entryAt os i))).sum = ((os.filter p).map f).sum := by
  have key : ∀ (l : List Entry) (k : Nat), (∀ x ∈ l.zipIdx k, entryAt os x.2 = x.1) →
      ((((l.zipIdx k).filter (fun x => p x.1)).map (·.2)).map (fun i => f (entryAt os i))).sum = ((l.filter p).map f).sum := by
    intro l
    induction l with
    | nil => intro k _; rfl
    | cons a l ih =>
      intro k hall
      have hrest : ∀ x ∈ l.zipIdx (k + 1), entryAt os x.2 = x.1 := fun x hx => hall x (by simp [hx])
      have ha : entryAt os k = a := hall (a, k) (by simp)
      simp only [List.zipIdx_cons, List.filter_cons]
      split
      · simp only [List.map_cons, List.sum_cons, ha]
        rw [ih (k + 1) hrest]
      · exact ih (k + 1) hrest
  apply key os 0
  intro x hx
  have := List.mem_zipIdx_iff_getElem?.mp hx
  simp [entryAt, this]

/-- **The queue holds exactly the Active orders of its side**: the ids in a side's queue are a
permutation of the table indexes of the Active orders of that side. -/
theorem queue_ids_perm {b : Book} (h : Inv b) (sd : Side) :
    ((b.side sd).orders.map (·.2)).Perm (idxOf b.orders (restsOn sd)) := by
  apply (List.perm_ext_iff_of_nodup ?_ (idxOf_nodup _ _)).mpr
  · intro id
    rw [mem_idxOf]
    constructor
    · intro hm
      obtain ⟨⟨k, j⟩, hkj, rfl⟩ := List.mem_map.mp hm
      obtain ⟨e, he, ha, hs, _⟩ := (h.side sd).ent k j hkj
      exact ⟨e, he, by simp [restsOn, ha, hs]⟩
    · rintro ⟨e, he, hp⟩
      simp only [restsOn, Bool.and_eq_true, decide_eq_true_eq] at hp
      have := h.act id e he hp.1
      rw [hp.2] at this
      exact List.mem_map.mpr ⟨_, this, rfl⟩
  · -- distinct queue entries have distinct ids
    have hso := (h.side sd).so
    have : ∀ (l : SMap (Nat × Nat) Nat), SMap.Sorted l → (∀ k k' id, (k, id) ∈ l → (k', id) ∈ l → k = k') →
        (l.map (·.2)).Nodup := by
      intro l
      induction l with
      | nil => intro _ _; exact List.nodup_nil
      | cons hd tl ih =>
        intro hs hu
        have hs' := SMap.sorted_cons.mp hs
        simp only [List.map_cons, List.nodup_cons]
        refine ⟨?_, ih hs'.2 (fun k k' id h1 h2 => hu k k' id (List.mem_cons_of_mem _ h1) (List.mem_cons_of_mem _ h2))⟩
        intro hmem
        obtain ⟨⟨k, j⟩, hkj, hj⟩ := List.mem_map.mp hmem
        simp only at hj
        have heq := hu k hd.1 hd.2 (by rw [← hj]; exact List.mem_cons_of_mem _ hkj) List.mem_cons_self
        have hlt := hs'.1 (k, j) hkj
        simp only at hlt
        rw [heq, SMap.lt_irrefl'] at hlt
        cases hlt
    exact this _ hso (fun k k' id h1 h2 => (h.side sd).unique h1 h2)

/-- Sums over the queue are sums over the Active orders of the side in the table, for any extra
selection `q` and any summand `f` of the table entry. -/
theorem queue_sum {b : Book} (h : Inv b) (sd : Side) (q : Entry → Bool) (f : Entry → Nat) :
    ((((b.side sd).orders.filter (fun ke => q (entryAt b.orders ke.2))).map (fun ke => f (entryAt b.orders ke.2)))).sum =
      ((b.orders.filter (fun e => restsOn sd e && q e)).map f).sum := by
  have hperm := queue_ids_perm h sd
  have h1 : ((b.side sd).orders.filter (fun ke => q (entryAt b.orders ke.2))).map (fun ke => f (entryAt b.orders ke.2)) =
      ((((b.side sd).orders.map (·.2)).filter (fun i => q (entryAt b.orders i))).map (fun i => f (entryAt b.orders i))) := by
    rw [List.filter_map, List.map_map]; rfl
  rw [h1, ((hperm.filter _).map _).sum_nat]
  -- indexes selected by restsOn, then by q  =  indexes selected by both
  have h2 : (idxOf b.orders (restsOn sd)).filter (fun i => q (entryAt b.orders i)) =
      idxOf b.orders (fun e => restsOn sd e && q e) := by
    have key : ∀ (l : List Entry) (k : Nat), (∀ x ∈ l.zipIdx k, entryAt b.orders x.2 = x.1) →
        ((((l.zipIdx k).filter (fun x => restsOn sd x.1)).map (·.2)).filter (fun i => q (entryAt b.orders i))) =
        (((l.zipIdx k).filter (fun x => restsOn sd x.1 && q x.1)).map (·.2)) := by
      intro l
      induction l with
      | nil => intro k _; rfl
      | cons a l ih =>
        intro k hall
        have hrest : ∀ x ∈ l.zipIdx (k + 1), entryAt b.orders x.2 = x.1 := fun x hx => hall x (by simp [hx])
        have ha : entryAt b.orders k = a := hall (a, k) (by simp)
        simp only [List.zipIdx_cons, List.filter_cons]
        by_cases hr : restsOn sd a = true
        · simp only [hr, if_true, List.map_cons, List.filter_cons, ha, Bool.true_and]
          by_cases hq : q a = true
          · simp [hq, ih (k + 1) hrest]
          · simp [hq, ih (k + 1) hrest]
        · simp only [hr, Bool.false_eq_true, if_false, Bool.false_and]
          exact ih (k + 1) hrest
    apply key b.orders 0
    intro x hx
    have := List.mem_zipIdx_iff_getElem?.mp hx
    simp [entryAt, this]
  rw [h2, sum_idxOf]

/-! ### Volumes -/

theorem volOf_entryAt (os : List Entry) (i : Nat) : volOf os i = (entryAt os i).order.vol := by
  simp only [volOf, entryAt]
  cases os[i]? <;> rfl

theorem sum_ones {α} (l : List α) : (l.map (fun _ => 1)).sum = l.length := by
  induction l with
  | nil => rfl
  | cons a l ih => simp [ih]; omega

/-- **Side volume**: the published total volume of a side is the sum of the remaining volumes of
the Active orders of that side in the order list. -/
theorem sideVol_correct {b : Book} (h : Inv b) (sd : Side) :
    (b.side sd).vol = Views.sideVol (b.orders.map (·.order)) sd := by
  rw [(h.side sd).tot]
  have := queue_sum h sd (fun _ => true) (fun e => e.order.vol)
  have hft : (b.side sd).orders.filter (fun _ => true) = (b.side sd).orders := by simp
  rw [hft] at this
  have hl : totalVol b.orders (b.side sd).orders =
      ((b.side sd).orders.map (fun ke => (entryAt b.orders ke.2).order.vol)).sum := by
    simp only [totalVol]
    congr 1
    apply List.map_congr_left
    intro ke _
    exact volOf_entryAt _ _
  have hr : Views.sideVol (b.orders.map (·.order)) sd =
      ((b.orders.filter (fun e => restsOn sd e && true)).map (fun e => e.order.vol)).sum := by
    simp only [Views.sideVol, resting_map, List.map_map, Bool.and_true]
    rfl
  rw [hl, hr, this]

theorem priceKey_inj {sd : Side} {p q : Nat} (hp : p ≤ MAXP) (hq : q ≤ MAXP) : priceKey sd p = priceKey sd q ↔ p = q := by
  cases sd <;> simp only [priceKey] <;> omega

/-- **Level aggregate**: the (volume, count) the side holds for price key `priceKey sd p` is the
(sum of remaining volumes, number) of the Active orders of that side at exactly price `p`. -/
theorem aggAt_correct {b : Book} (h : Inv b) (sd : Side) (p : Nat) (hp : p ≤ MAXP) :
    aggAt b.orders (b.side sd).orders (priceKey sd p) = Views.atPrice (b.orders.map (·.order)) sd p := by
  -- selecting queue entries by key = selecting them by the price of their order
  have hsel : atKey (b.side sd).orders (priceKey sd p) =
      (b.side sd).orders.filter (fun ke => decide ((entryAt b.orders ke.2).order.price = p)) := by
    simp only [atKey]
    apply List.filter_congr
    intro ke hke
    obtain ⟨e, he, _, _, _, hk, _, _, hb⟩ := (h.side sd).ent ke.1 ke.2 hke
    have hea : entryAt b.orders ke.2 = e := by simp [entryAt, he]
    rw [hea, hk]
    simp only [decide_eq_decide]
    exact priceKey_inj hb hp
  have hv := queue_sum h sd (fun e => decide (e.order.price = p)) (fun e => e.order.vol)
  have hc := queue_sum h sd (fun e => decide (e.order.price = p)) (fun _ => 1)
  simp only [aggAt, Views.atPrice, hsel]
  have hrest : (Views.resting (b.orders.map (·.order)) sd).filter (fun o => decide (o.price = p)) =
      (b.orders.filter (fun e => restsOn sd e && decide (e.order.price = p))).map (·.order) := by
    rw [resting_map, List.filter_map, List.filter_filter]
    congr 1
    apply List.filter_congr
    intro e _
    simp [Bool.and_comm]
  rw [hrest]
  refine Prod.ext ?_ ?_
  · simp only [List.map_map]
    have hl : (((b.side sd).orders.filter (fun ke => decide ((entryAt b.orders ke.2).order.price = p))).map
        (fun e => volOf b.orders e.2)).sum =
        (((b.side sd).orders.filter (fun ke => decide ((entryAt b.orders ke.2).order.price = p))).map
        (fun ke => (entryAt b.orders ke.2).order.vol)).sum := by
      congr 1
      apply List.map_congr_left
      intro ke _
      exact volOf_entryAt _ _
    rw [hl, hv]
    rfl
  · simp only [List.length_map]
    rw [sum_ones, sum_ones] at hc
    exact hc

/-! ### Touch prices -/

theorem foldl_min_price (l : List Order) (init m : Nat) (hm : ∃ o ∈ l, o.price = m) (hall : ∀ o ∈ l, m ≤ o.price)
    (hi : m ≤ init) : l.foldl (fun acc o => min acc o.price) init = m := by
  induction l generalizing init with
  | nil => obtain ⟨o, ho, _⟩ := hm; cases ho
  | cons a l ih =>
    simp only [List.foldl_cons]
    have ha := hall a List.mem_cons_self
    by_cases hex : ∃ o ∈ l, o.price = m
    · exact ih (min init a.price) hex (fun o ho => hall o (List.mem_cons_of_mem _ ho)) (by omega)
    · -- `a` is the only order at price m
      obtain ⟨o, ho, hop⟩ := hm
      rcases List.mem_cons.mp ho with rfl | ho'
      · have hrest : ∀ x ∈ l, m ≤ x.price := fun x hx => hall x (List.mem_cons_of_mem _ hx)
        have : ∀ (l : List Order) (c : Nat), c = m → (∀ x ∈ l, m ≤ x.price) → l.foldl (fun acc o => min acc o.price) c = m := by
          intro l
          induction l with
          | nil => intro c hc _; exact hc
          | cons x l ih2 =>
            intro c hc hx
            simp only [List.foldl_cons]
            exact ih2 _ (by have := hx x List.mem_cons_self; omega) (fun y hy => hx y (List.mem_cons_of_mem _ hy))
        exact this l _ (by omega) hrest
      · exact absurd ⟨o, ho', hop⟩ hex

theorem foldl_max_price (l : List Order) (init m : Nat) (hm : ∃ o ∈ l, o.price = m) (hall : ∀ o ∈ l, o.price ≤ m)
    (hi : init ≤ m) : l.foldl (fun acc o => max acc o.price) init = m := by
  induction l generalizing init with
  | nil => obtain ⟨o, ho, _⟩ := hm; cases ho
  | cons a l ih =>
    simp only [List.foldl_cons]
    have ha := hall a List.mem_cons_self
    by_cases hex : ∃ o ∈ l, o.price = m
    · exact ih (max init a.price) hex (fun o ho => hall o (List.mem_cons_of_mem _ ho)) (by omega)
    · obtain ⟨o, ho, hop⟩ := hm
      rcases List.mem_cons.mp ho with rfl | ho'
      · have hrest : ∀ x ∈ l, x.price ≤ m := fun x hx => hall x (List.mem_cons_of_mem _ hx)
        have : ∀ (l : List Order) (c : Nat), c = m → (∀ x ∈ l, x.price ≤ m) → l.foldl (fun acc o => max acc o.price) c = m := by
          intro l
          induction l with
          | nil => intro c hc _; exact hc
          | cons x l ih2 =>
            intro c hc hx
            simp only [List.foldl_cons]
            exact ih2 _ (by have := hx x List.mem_cons_self; omega) (fun y hy => hx y (List.mem_cons_of_mem _ hy))
        exact this l _ (by omega) hrest
      · exact absurd ⟨o, ho', hop⟩ hex

/-- An empty queue means no Active order of that side. -/
theorem resting_nil_of_queue_nil {b : Book} (h : Inv b) (sd : Side) (hq : (b.side sd).orders = []) :
    Views.resting (b.orders.map (·.order)) sd = [] := by
  rw [resting_map]
  have : b.orders.filter (restsOn sd) = [] := by
    apply List.filter_eq_nil_iff.mpr
    intro e he hr
    simp only [restsOn, Bool.and_eq_true, decide_eq_true_eq] at hr
    obtain ⟨i, hi⟩ := List.mem_iff_getElem?.mp he
    have := h.act i e hi hr.1
    rw [hr.2, hq] at this; cases this
  rw [this]; rfl

/-- What the head of a side's queue says about all resting orders of that side. -/
theorem head_is_best {b : Book} (h : Inv b) (sd : Side) {k0 : Nat × Nat} {id0 : Nat} {tl : SMap (Nat × Nat) Nat}
    (hq : (b.side sd).orders = (k0, id0) :: tl) :
    ∃ e0, b.orders[id0]? = some e0 ∧ k0.1 = priceKey sd e0.order.price ∧ e0.order.price ≤ MAXP ∧
      (∃ o ∈ Views.resting (b.orders.map (·.order)) sd, o.price = e0.order.price) ∧
      (∀ o ∈ Views.resting (b.orders.map (·.order)) sd, k0.1 ≤ priceKey sd o.price ∧ o.price ≤ MAXP) := by
  have hm0 : (k0, id0) ∈ (b.side sd).orders := by rw [hq]; exact List.mem_cons_self
  obtain ⟨e0, he0, ha0, hs0, _, hk0, _, _, hb0⟩ := (h.side sd).ent k0 id0 hm0
  refine ⟨e0, he0, hk0, hb0, ?_, ?_⟩
  · refine ⟨e0.order, ?_, rfl⟩
    rw [resting_map]
    exact List.mem_map.mpr ⟨e0, List.mem_filter.mpr ⟨List.mem_of_getElem? he0, by simp [restsOn, ha0, hs0]⟩, rfl⟩
  · intro o ho
    rw [resting_map] at ho
    obtain ⟨e, he, rfl⟩ := List.mem_map.mp ho
    obtain ⟨hem, hr⟩ := List.mem_filter.mp he
    simp only [restsOn, Bool.and_eq_true, decide_eq_true_eq] at hr
    obtain ⟨i, hi⟩ := List.mem_iff_getElem?.mp hem
    have hmem := h.act i e hi hr.1
    rw [hr.2] at hmem
    obtain ⟨e1, he1, _, _, _, hk1, _, _, hb1⟩ := (h.side sd).ent _ _ hmem
    rw [hi] at he1; injection he1 with he1; subst he1
    simp only at hk1
    have hfirst : SMap.first? (b.side sd).orders = some (k0, id0) := by rw [hq]; rfl
    rcases (SMap.first?_min (h.side sd).so hfirst).2 _ hmem with heq | hlt
    · have : e.key.pk = k0.1 := by
        have := congrArg (fun x => x.1.1) heq; simpa using this
      rw [← hk1, this]; exact ⟨Nat.le_refl _, hb1⟩
    · simp only [KeyOrd.lt, Bool.or_eq_true, Bool.and_eq_true, decide_eq_true_eq] at hlt
      rw [← hk1]; exact ⟨by omega, hb1⟩

/-- **Touch prices**: the published best bid / best ask are the highest resting bid price / the
lowest resting ask price recomputed from the order list, with the sentinels 0 and `MAXP` for an
empty side. -/
theorem bestPrice_correct {b : Book} (h : Inv b) (sd : Side) :
    bestPrice sd (b.side sd) = Views.best (b.orders.map (·.order)) sd := by
  cases hq : (b.side sd).orders with
  | nil =>
    have hr := resting_nil_of_queue_nil h sd hq
    cases sd <;> simp [bestPrice, SideS.bestKey, SMap.first?, hq, Views.best, Views.bestBid, Views.bestAsk, hr, Book.side] at hq ⊢ <;>
      simp [hq]
  | cons hd tl =>
    obtain ⟨k0, id0⟩ := hd
    obtain ⟨e0, he0, hk0, hb0, hex, hall⟩ := head_is_best h sd hq
    cases sd
    · -- bid: highest price
      have hkey : (b.side .bid).bestKey = k0.1 := by simp [SideS.bestKey, SMap.first?, hq]
      simp only [bestPrice, hkey, Views.best, Views.bestBid]
      simp only [priceKey] at hk0 hall
      rw [foldl_max_price _ 0 e0.order.price hex (fun o ho => by have := hall o ho; omega) (Nat.zero_le _)]
      omega
    · have hkey : (b.side .ask).bestKey = k0.1 := by simp [SideS.bestKey, SMap.first?, hq]
      simp only [bestPrice, hkey, Views.best, Views.bestAsk]
      simp only [priceKey] at hk0 hall
      rw [foldl_min_price _ MAXP e0.order.price hex (fun o ho => by have := hall o ho; omega) hb0]
      omega

/-! ### Touch volume and order count -/

theorem volumes_nil_of_queue_nil {b : Book} (h : Inv b) (sd : Side) (hq : (b.side sd).orders = []) :
    (b.side sd).volumes = [] := by
  cases hv : (b.side sd).volumes with
  | nil => rfl
  | cons hd tl =>
    have h1 := (h.side sd).agg hd.1
    rw [hq] at h1
    have h2 : SMap.find? hd.1 (b.side sd).volumes = some hd.2 :=
      SMap.find?_of_mem (h.side sd).sv (by rw [hv]; exact List.mem_cons_self)
    rw [h2] at h1
    simp [aggAt, atKey] at h1

/-- The first level of the `volumes` map is the price key of the head of the queue. -/
theorem volumes_first {b : Book} (h : Inv b) (sd : Side) {k0 : Nat × Nat} {id0 : Nat} {tl : SMap (Nat × Nat) Nat}
    (hq : (b.side sd).orders = (k0, id0) :: tl) :
    SMap.first? (b.side sd).volumes = some (k0.1, aggAt b.orders (b.side sd).orders k0.1) := by
  have hcnt : (aggAt b.orders (b.side sd).orders k0.1).2 ≠ 0 := by
    rw [hq, aggAt_cons]; simp
  have hfind : SMap.find? k0.1 (b.side sd).volumes = some (aggAt b.orders (b.side sd).orders k0.1) := by
    rw [(h.side sd).agg k0.1]; simp [hcnt]
  have hmem := SMap.mem_of_find? hfind
  cases hv : (b.side sd).volumes with
  | nil => rw [hv] at hmem; cases hmem
  | cons hd tl' =>
    have hfirst : SMap.first? (b.side sd).volumes = some hd := by rw [hv]; rfl
    rcases (SMap.first?_min (h.side sd).sv hfirst).2 _ hmem with heq | hlt
    · simp only [SMap.first?]; rw [← heq]
    · -- a level below the head's price key would need a queue entry there
      exfalso
      have hhd : SMap.find? hd.1 (b.side sd).volumes = some hd.2 :=
        SMap.find?_of_mem (h.side sd).sv (by rw [hv]; exact List.mem_cons_self)
      rw [(h.side sd).agg hd.1] at hhd
      have hc : (aggAt b.orders (b.side sd).orders hd.1).2 ≠ 0 := by
        intro hz; simp [hz] at hhd
      have hne : atKey (b.side sd).orders hd.1 ≠ [] := by
        intro hnil; apply hc; simp [aggAt, hnil]
      obtain ⟨x, hx⟩ := List.exists_mem_of_ne_nil _ hne
      obtain ⟨hxm, hxk⟩ := List.mem_filter.mp hx
      simp only [decide_eq_true_eq] at hxk
      have hfq : SMap.first? (b.side sd).orders = some (k0, id0) := by rw [hq]; rfl
      simp only [KeyOrd.lt, decide_eq_true_eq] at hlt
      rcases (SMap.first?_min (h.side sd).so hfq).2 x hxm with he | hl
      · rw [he] at hxk; simp only at hxk; omega
      · simp only [KeyOrd.lt, Bool.or_eq_true, Bool.and_eq_true, decide_eq_true_eq] at hl
        omega

/-- **Touch volume and order count**: the published (volume, count) at the touch of a side are the
(sum of remaining volumes, number) of the Active orders of that side at its best price; (0, 0) for
an empty side. -/
theorem touch_correct {b : Book} (h : Inv b) (sd : Side) :
    (b.side sd).bestVolAndOrders = Views.touch (b.orders.map (·.order)) sd := by
  cases hq : (b.side sd).orders with
  | nil =>
    have hv := volumes_nil_of_queue_nil h sd hq
    have hr := resting_nil_of_queue_nil h sd hq
    simp [SideS.bestVolAndOrders, SMap.first?, hv, Views.touch, Views.atPrice, hr]
  | cons hd tl =>
    obtain ⟨k0, id0⟩ := hd
    have hvf := volumes_first h sd hq
    obtain ⟨e0, he0, hk0, hb0, _, _⟩ := head_is_best h sd hq
    have hbest := bestPrice_correct h sd
    have hbk : bestPrice sd (b.side sd) = e0.order.price := by
      have hkey : (b.side sd).bestKey = k0.1 := by simp [SideS.bestKey, SMap.first?, hq]
      cases sd <;> simp only [bestPrice, hkey, hk0, priceKey] <;> omega
    simp only [SideS.bestVolAndOrders, hvf, Views.touch]
    rw [← hbest, hbk, hk0]
    exact aggAt_correct h sd e0.order.price hb0

/-! ### Per-level data -/

/-- Looking a price key up in the `volumes` map gives the aggregate of the queue entries there. -/
theorem volAndOrdersAtKey_eq {b : Book} (h : Inv b) (sd : Side) (pk : Nat) :
    (b.side sd).volAndOrdersAtKey pk = aggAt b.orders (b.side sd).orders pk := by
  simp only [SideS.volAndOrdersAtKey, (h.side sd).agg pk]
  split
  · rename_i x hx
    split at hx
    · cases hx
    · injection hx with hx; exact hx.symm
  · rename_i hx
    split at hx
    · rename_i hz; exact (aggAt_zero_of_count_zero _ _ _ hz).symm
    · cases hx

theorem aggAt_none (os : List Entry) (q : SMap (Nat × Nat) Nat) (pk : Nat) (hno : ∀ ke ∈ q, ke.1.1 ≠ pk) :
    aggAt os q pk = (0, 0) := by
  have : atKey q pk = [] := by
    apply List.filter_eq_nil_iff.mpr
    intro ke hke; simpa using hno ke hke
  simp [aggAt, this]

/-- Every queue entry's price key is at least the best key of the side. -/
theorem key_ge_best {b : Book} (h : Inv b) (sd : Side) : ∀ ke ∈ (b.side sd).orders, (b.side sd).bestKey ≤ ke.1.1 := by
  intro ke hke
  cases hq : (b.side sd).orders with
  | nil => rw [hq] at hke; cases hke
  | cons hd tl =>
    have hfq : SMap.first? (b.side sd).orders = some hd := by rw [hq]; rfl
    have hkey : (b.side sd).bestKey = hd.1.1 := by simp [SideS.bestKey, SMap.first?, hq]
    rw [hkey]
    rcases (SMap.first?_min (h.side sd).so hfq).2 ke hke with he | hl
    · rw [he]; exact Nat.le_refl _
    · simp only [KeyOrd.lt, Bool.or_eq_true, Bool.and_eq_true, decide_eq_true_eq] at hl
      omega

theorem bestKey_le_MAXP {b : Book} (h : Inv b) (sd : Side) : (b.side sd).bestKey ≤ MAXP := by
  cases hq : (b.side sd).orders with
  | nil => simp [SideS.bestKey, SMap.first?, hq]
  | cons hd tl =>
    obtain ⟨k0, id0⟩ := hd
    obtain ⟨e0, _, hk0, hb0, _, _⟩ := head_is_best h sd hq
    have hkey : (b.side sd).bestKey = k0.1 := by simp [SideS.bestKey, SMap.first?, hq]
    rw [hkey, hk0]
    cases sd <;> simp only [priceKey] <;> omega

/-- **Ask levels**: level `i` is the aggregate of the resting asks exactly `i` ticks above the best
ask, and (0, 0) beyond the top of the price range — including when the `u32` probe price wraps. -/
theorem askLevel_correct {b : Book} (h : Inv b) (i : Nat) (hi : i * b.tick < P32) :
    b.ask.volAndOrdersAtKey (priceKey .ask ((b.bidAsk.2 + i * b.tick) % P32)) =
      Views.level (b.orders.map (·.order)) b.tick .ask i := by
  have hbest : b.bidAsk.2 = Views.bestAsk (b.orders.map (·.order)) := by
    have := bestPrice_correct h .ask
    simpa [Book.bidAsk, Views.best, Book.side] using this
  have hva := volAndOrdersAtKey_eq h .ask
  simp only [Book.side] at hva
  rw [hva]
  simp only [Views.level, ← hbest, priceKey]
  have hle := bestKey_le_MAXP h .ask
  have hba : b.bidAsk.2 = b.ask.bestKey := by simp [Book.bidAsk, bestPrice]
  simp only [Book.side] at hle
  by_cases hin : b.bidAsk.2 + i * b.tick ≤ MAXP
  · simp only [hin, if_true]
    have : (b.bidAsk.2 + i * b.tick) % P32 = b.bidAsk.2 + i * b.tick := Nat.mod_eq_of_lt (by simp only [MAXP, P32] at *; omega)
    rw [this]
    have := aggAt_correct h .ask (b.bidAsk.2 + i * b.tick) hin
    simpa [priceKey, Book.side] using this
  · simp only [hin, if_false]
    apply aggAt_none
    intro ke hke
    have hge := key_ge_best h .ask ke hke
    simp only [Book.side] at hge
    have hw : (b.bidAsk.2 + i * b.tick) % P32 = b.bidAsk.2 + i * b.tick - P32 := by
      rw [Nat.mod_eq_sub_mod (by simp only [MAXP, P32] at *; omega)]
      exact Nat.mod_eq_of_lt (by simp only [MAXP, P32] at *; omega)
    rw [hw, hba]
    simp only [MAXP, P32] at *
    omega

/-- **Bid levels**: level `i` is the aggregate of the resting bids exactly `i` ticks below the best
bid, and (0, 0) below price 0 — including when the `u32` probe price wraps. -/
theorem bidLevel_correct {b : Book} (h : Inv b) (i : Nat) (hi : i * b.tick < P32) :
    b.bid.volAndOrdersAtKey (priceKey .bid ((b.bidAsk.1 + P32 - (i * b.tick) % P32) % P32)) =
      Views.level (b.orders.map (·.order)) b.tick .bid i := by
  have hbest : b.bidAsk.1 = Views.bestBid (b.orders.map (·.order)) := by
    have := bestPrice_correct h .bid
    simpa [Book.bidAsk, Views.best, Book.side] using this
  have hva := volAndOrdersAtKey_eq h .bid
  simp only [Book.side] at hva
  rw [hva]
  simp only [Views.level, ← hbest, priceKey]
  have hle := bestKey_le_MAXP h .bid
  simp only [Book.side] at hle
  have hba : b.bidAsk.1 = MAXP - b.bid.bestKey := by simp [Book.bidAsk, bestPrice]
  have hmod : (i * b.tick) % P32 = i * b.tick := Nat.mod_eq_of_lt hi
  rw [hmod]
  by_cases hin : i * b.tick ≤ b.bidAsk.1
  · simp only [hin, if_true]
    have : (b.bidAsk.1 + P32 - i * b.tick) % P32 = b.bidAsk.1 - i * b.tick := by
      rw [show b.bidAsk.1 + P32 - i * b.tick = (b.bidAsk.1 - i * b.tick) + P32 by omega, Nat.add_mod_right]
      exact Nat.mod_eq_of_lt (by simp only [MAXP, P32] at *; omega)
    rw [this]
    have := aggAt_correct h .bid (b.bidAsk.1 - i * b.tick) (by simp only [MAXP] at *; omega)
    simpa [priceKey, Book.side] using this
  · simp only [hin, if_false]
    apply aggAt_none
    intro ke hke
    have hge := key_ge_best h .bid ke hke
    simp only [Book.side] at hge
    have hw : (b.bidAsk.1 + P32 - i * b.tick) % P32 = b.bidAsk.1 + P32 - i * b.tick :=
      Nat.mod_eq_of_lt (by simp only [MAXP, P32] at *; omega)
    rw [hw]
    simp only [MAXP, P32] at *
    omega

/-! ### All views together -/

theorem levels_correct {b : Book} (h : Inv b) (n : Nat) (hn : ∀ i, i < n → i * b.tick < P32) :
    b.bidLevels n = Views.levels (b.orders.map (·.order)) b.tick .bid n ∧
    b.askLevels n = Views.levels (b.orders.map (·.order)) b.tick .ask n := by
  constructor
  · simp only [Book.bidLevels, Views.levels]
    apply List.map_congr_left
    intro i hi
    exact bidLevel_correct h i (hn i (List.mem_range.mp hi))
  · simp only [Book.askLevels, Views.levels]
    apply List.map_congr_left
    intro i hi
    exact askLevel_correct h i (hn i (List.mem_range.mp hi))

/-- **Every published view equals its recomputation from the order list** (the views part of the
observation of `b` is the one `Spec.Views` computes from `b`'s orders alone). -/
theorem views_correct {b : Book} (h : Inv b) (n : Nat) (hn : ∀ i, i < n → i * b.tick < P32) :
    let os := b.orders.map (·.order)
    b.bidAsk = (Views.bestBid os, Views.bestAsk os) ∧
    b.bidVol = Views.sideVol os .bid ∧ b.askVol = Views.sideVol os .ask ∧
    b.bidBestVolAndOrders = Views.touch os .bid ∧ b.askBestVolAndOrders = Views.touch os .ask ∧
    b.bidLevels n = Views.levels os b.tick .bid n ∧ b.askLevels n = Views.levels os b.tick .ask n ∧
    b.level1 = Views.level1 os ∧ b.level2 n = Views.level2 os b.tick n ∧ b.mid2 = Views.mid2 os := by
  intro os
  have hb := bestPrice_correct h .bid
  have ha := bestPrice_correct h .ask
  simp only [Book.side, Views.best] at hb ha
  have hvb := sideVol_correct h .bid
  have hva := sideVol_correct h .ask
  simp only [Book.side] at hvb hva
  have htb := touch_correct h .bid
  have hta := touch_correct h .ask
  simp only [Book.side] at htb hta
  have hl := levels_correct h n hn
  have hba : b.bidAsk = (Views.bestBid os, Views.bestAsk os) := by simp only [Book.bidAsk, hb, ha]; rfl
  refine ⟨hba, hvb, hva, htb, hta, hl.1, hl.2, ?_, ?_, ?_⟩
  · simp only [Book.level1, Views.level1, hba, Book.bidVol, Book.askVol, hvb, hva, Book.bidBestVolAndOrders,
      Book.askBestVolAndOrders, htb, hta]
    rfl
  · simp only [Book.level2, Views.level2, hba, Book.bidVol, Book.askVol, hvb, hva, hl.1, hl.2]
    rfl
  · simp only [Book.mid2, Views.mid2, hba]

end Bourse
