/-
Every RESTING order's price is a multiple of the tick size, in every reachable state.

`Lemmas/Grid` shows that every order in the table is a market order (sentinel price) or has a grid
price. A market order never rests, but that is a fact about statuses, so it is proved here on the
reference engine (whose status handling is explicit) and transferred through the refinement:
  * a created order is New with a grid price or a sentinel price;
  * placing a sentinel-priced order takes the market path, which ends Filled, Cancelled or Rejected;
  * matching changes no price and no side, and a status only to Filled;
  * a modification is ignored unless its new price is on the grid.
-/
import Bourse.Lemmas.RefineStep
import Bourse.Lemmas.LevelsAccount

namespace Bourse
namespace Ref

/-- A relation on order records that the match loop respects. -/
structure FillRel (t : Nat) (P : Order → Order → Prop) : Prop where
  refl : ∀ o, P o o
  trans : ∀ {a b c}, P a b → P b c → P a c
  part : ∀ (o : Order) (v : Nat), P o { o with vol := v }
  full : ∀ (o : Order) (v : Nat), P o { o with vol := v, status := .filled, endt := t }

/-- The match loop evolves every record of the table and the aggressor by any `FillRel`, and keeps
the table's length. -/
theorem matchQ_rel {t : Nat} {P : Order → Order → Prop} (hP : FillRel t P) (q : List Nat) (st : MatchSt) :
    (∀ (id : Nat) (o : Order), st.orders[id]? = some o →
        ∃ o', (matchQ t q st).2.orders[id]? = some o' ∧ P o o') ∧
    P st.agg (matchQ t q st).2.agg ∧ (matchQ t q st).2.orders.length = st.orders.length := by
  induction q generalizing st with
  | nil => exact ⟨fun id o h => ⟨o, by simpa [matchQ] using h, hP.refl o⟩, by simp [matchQ, hP.refl], by simp [matchQ]⟩
  | cons j q ih =>
    have stop : matchQ t (j :: q) st = (j :: q, st) →
        (∀ (id : Nat) (o : Order), st.orders[id]? = some o →
          ∃ o', (matchQ t (j :: q) st).2.orders[id]? = some o' ∧ P o o') ∧
        P st.agg (matchQ t (j :: q) st).2.agg ∧ (matchQ t (j :: q) st).2.orders.length = st.orders.length := by
      intro heq; rw [heq]
      exact ⟨fun id o h => ⟨o, h, hP.refl o⟩, hP.refl _, rfl⟩
    cases hpass : st.orders[j]? with
    | none => exact stop (by simp [matchQ, hpass])
    | some pass =>
      by_cases hcond : (decide (st.agg.vol > 0) && admits st.agg.side st.agg.price pass.price) = true
      · let fill := min st.agg.vol pass.vol
        let pass1 : Order := { pass with vol := pass.vol - fill }
        let pass' : Order := if pass1.vol = 0 then { pass1 with status := .filled, endt := t } else pass1
        let agg1 : Order := { st.agg with vol := st.agg.vol - fill }
        let agg' : Order := if agg1.vol = 0 then { agg1 with status := .filled, endt := t } else agg1
        let tr : Trade := { t := t, side := pass.side, price := pass.price, vol := fill, active := st.agg.id, passive := pass.id }
        let st' : MatchSt := { orders := st.orders.set j pass', trades := st.trades ++ [tr],
                               tradeVol := st.tradeVol + fill, agg := agg' }
        have hunf : matchQ t (j :: q) st = if pass'.vol = 0 then matchQ t q st' else (j :: q, st') := by
          simp only [matchQ, hpass, hcond, if_true]
          rfl
        have hpe : P pass pass' := by
          simp only [pass', pass1]
          split
          · exact hP.full pass _
          · exact hP.part pass _
        have hae : P st.agg agg' := by
          simp only [agg', agg1]
          split
          · exact hP.full st.agg _
          · exact hP.part st.agg _
        have hjlt : j < st.orders.length := (List.getElem?_eq_some_iff.mp hpass).1
        have hst' : ∀ (id : Nat) (o : Order), st.orders[id]? = some o → ∃ o1, st'.orders[id]? = some o1 ∧ P o o1 := by
          intro id o ho
          by_cases hij : id = j
          · subst hij; rw [hpass] at ho; injection ho with ho; subst ho
            exact ⟨pass', by simp [st', hjlt], hpe⟩
          · exact ⟨o, by simp [st', List.getElem?_set, Ne.symm hij, ho], hP.refl o⟩
        have hlen' : st'.orders.length = st.orders.length := by simp [st']
        by_cases hz : pass'.vol = 0
        · rw [hunf, if_pos hz]
          obtain ⟨i1, i2, i3⟩ := ih st'
          refine ⟨?_, hP.trans hae i2, i3.trans hlen'⟩
          intro id o ho
          obtain ⟨o1, ho1, he1⟩ := hst' id o ho
          obtain ⟨o2, ho2, he2⟩ := i1 id o1 ho1
          exact ⟨o2, ho2, hP.trans he1 he2⟩
        · rw [hunf, if_neg hz]
          exact ⟨hst', hae, hlen'⟩
      · apply stop
        simp only [matchQ, hpass]
        simp only [hcond, Bool.false_eq_true, if_false]

/-- Price and side are kept; the status is kept or becomes Filled. -/
def PS (o o' : Order) : Prop := o'.price = o.price ∧ o'.side = o.side ∧ (o'.status = o.status ∨ o'.status = .filled)

theorem PS_fillRel (t : Nat) : FillRel t PS where
  refl := fun _ => ⟨rfl, rfl, Or.inl rfl⟩
  trans := by
    intro a b c h1 h2
    refine ⟨h2.1.trans h1.1, h2.2.1.trans h1.2.1, ?_⟩
    rcases h2.2.2 with h | h
    · rcases h1.2.2 with h' | h'
      · exact Or.inl (h.trans h')
      · exact Or.inr (h.trans h')
    · exact Or.inr h
  part := fun _ _ => ⟨rfl, rfl, Or.inl rfl⟩
  full := fun _ _ => ⟨rfl, rfl, Or.inr rfl⟩

/-- What the grid demands of one record: a resting order has a grid price; an order not yet placed
has a grid price or the market sentinel of its side. -/
def GClause (tick : Nat) (o : Order) : Prop :=
  (o.status = .active → o.price % tick = 0) ∧ (o.status = .new → Book.isMarket o = true ∨ o.price % tick = 0)

theorem GClause.of_status {tick : Nat} {o : Order} (h1 : o.status ≠ .active) (h2 : o.status ≠ .new) : GClause tick o :=
  ⟨fun h => absurd h h1, fun h => absurd h h2⟩

theorem GClause.of_PS {tick : Nat} {o o' : Order} (h : GClause tick o) (hp : PS o o') : GClause tick o' := by
  obtain ⟨hpr, hsd, hst⟩ := hp
  rcases hst with hst | hst
  · refine ⟨fun ha => ?_, fun hn => ?_⟩
    · rw [hpr]; exact h.1 (hst ▸ ha)
    · have := h.2 (hst ▸ hn)
      simp only [Book.isMarket, hpr, hsd] at this ⊢
      exact this
  · exact GClause.of_status (by rw [hst]; simp) (by rw [hst]; simp)

def RG (s : RState) : Prop := ∀ o ∈ s.orders, GClause s.tick o

theorem setQueue_orders' (s : RState) (sd : Side) (q : List Nat) : (s.setQueue sd q).orders = s.orders := by
  cases sd <;> rfl

theorem setQueue_tick (s : RState) (sd : Side) (q : List Nat) : (s.setQueue sd q).tick = s.tick := by
  cases sd <;> rfl

/-- Tables related index by index, of the same length: the clause carries over to every record. -/
theorem rg_of_rel {tick : Nat} {os os' : List Order}
    (h : ∀ o ∈ os, GClause tick o)
    (hrel : ∀ (id : Nat) (o : Order), os[id]? = some o → ∃ o', os'[id]? = some o' ∧ PS o o')
    (hlen : os'.length = os.length) : ∀ o' ∈ os', GClause tick o' := by
  intro o' ho'
  obtain ⟨i, hi, rfl⟩ := List.getElem_of_mem ho'
  have hi' : i < os.length := hlen ▸ hi
  obtain ⟨o1, ho1, hps⟩ := hrel i os[i] (List.getElem?_eq_getElem hi')
  rw [List.getElem?_eq_getElem hi] at ho1
  injection ho1 with ho1
  rw [ho1]
  exact (h _ (List.getElem_mem hi')).of_PS hps

theorem matchPhase_rg {s : RState} (h : RG s) (agg : Order) :
    RG (matchPhase s agg).1 ∧ PS agg (matchPhase s agg).2 ∧ (matchPhase s agg).1.tick = s.tick := by
  unfold matchPhase
  split
  · obtain ⟨h1, h2, h3⟩ := matchQ_rel (PS_fillRel s.t) (s.queue agg.side.opp)
      { orders := s.orders, trades := s.trades, tradeVol := s.tradeVol, agg := agg }
    refine ⟨?_, h2, ?_⟩
    · intro o ho
      simp only [setQueue_tick]
      exact rg_of_rel h h1 h3 o ho
    · simp only [setQueue_tick]
  · exact ⟨h, (PS_fillRel s.t).refl _, rfl⟩

/-- An arriving order (marked Active; a limit order arrives with a grid price): afterwards every
record satisfies the clause, and so does the arriving order's own record. -/
theorem enter_rg {s : RState} (h : RG s) (agg : Order) (market : Bool) (ha : agg.status = .active)
    (hg : market = false → agg.price % s.tick = 0) :
    RG (enter s agg market).1 ∧ GClause s.tick (enter s agg market).2 ∧ (enter s agg market).1.tick = s.tick := by
  obtain ⟨m1, m2, m3⟩ := matchPhase_rg h agg
  rw [enter_eq]
  split
  · exact ⟨h, GClause.of_status (by simp) (by simp), rfl⟩
  · split
    · rename_i hf
      exact ⟨m1, GClause.of_status (by rw [hf]; simp) (by rw [hf]; simp), m3⟩
    · split
      · exact ⟨m1, GClause.of_status (by simp) (by simp), m3⟩
      · rename_i hm
        have hmk : market = false := by cases market <;> simp_all
        refine ⟨?_, ?_, ?_⟩
        · intro o ho
          rw [setQueue_orders'] at ho
          rw [setQueue_tick]
          exact m1 o ho
        · refine ⟨fun _ => ?_, fun hn => ?_⟩
          · rw [m2.1]; exact hg hmk
          · rcases m2.2.2 with hs | hs
            · rw [hs, ha] at hn; cases hn
            · rw [hs] at hn; cases hn
        · rw [setQueue_tick]; exact m3

theorem rg_set {os : List Order} {tick : Nat} (h : ∀ o ∈ os, GClause tick o) (id : Nat) (o' : Order)
    (ho' : GClause tick o') : ∀ o ∈ os.set id o', GClause tick o := by
  intro o ho
  rcases List.mem_or_eq_of_mem_set ho with ho | ho
  · exact h o ho
  · rw [ho]; exact ho'

theorem place_rg {s : RState} (h : RG s) (id : Nat) : RG (place s id) ∧ (place s id).tick = s.tick := by
  unfold place
  split
  · exact ⟨h, rfl⟩
  · rename_i o ho
    split
    · exact ⟨h, rfl⟩
    · rename_i hnew
      have hnew' : o.status = .new := by
        cases hs : o.status <;> simp_all
      have hcl := h o (List.mem_of_getElem? ho)
      have hgr : Book.isMarket o = false → ({ o with status := .active, arr := s.t } : Order).price % s.tick = 0 := by
        intro hm
        rcases hcl.2 hnew' with hx | hx
        · rw [hm] at hx; cases hx
        · exact hx
      obtain ⟨e1, e2, e3⟩ := enter_rg h { o with status := .active, arr := s.t } (Book.isMarket o) rfl hgr
      refine ⟨?_, e3⟩
      intro x hx
      simp only at hx
      have htk : ({ (enter s { o with status := .active, arr := s.t } (Book.isMarket o)).1 with
          orders := (enter s { o with status := .active, arr := s.t } (Book.isMarket o)).1.orders.set id
            (enter s { o with status := .active, arr := s.t } (Book.isMarket o)).2 } : RState).tick = s.tick := e3
      show GClause _ x
      rw [htk]
      refine rg_set (fun y hy => ?_) id _ e2 x hx
      have := e1 y hy
      rw [e3] at this
      exact this

theorem cancel_rg {s : RState} (h : RG s) (id : Nat) : RG (cancel s id) ∧ (cancel s id).tick = s.tick := by
  unfold cancel
  split
  · exact ⟨h, rfl⟩
  · rename_i o ho
    split
    · refine ⟨?_, by simp [setQueue_tick]⟩
      intro x hx
      simp only [setQueue_orders'] at hx
      show GClause _ x
      simp only [setQueue_tick]
      exact rg_set h id _ (GClause.of_status (by simp) (by simp)) x hx
    · exact ⟨h, rfl⟩

theorem modify_rg {s : RState} (h : RG s) (id : Nat) (np nv : Option Nat) :
    RG (modify s id np nv) ∧ (modify s id np nv).tick = s.tick := by
  have same : modify s id np nv = s → RG (modify s id np nv) ∧ (modify s id np nv).tick = s.tick := by
    intro heq; rw [heq]; exact ⟨h, rfl⟩
  cases h0 : s.orders[id]? with
  | none => exact same (by simp [modify, h0])
  | some o =>
    by_cases hg : Book.offGrid s.tick np = true
    · exact same (by simp [modify, h0, hg])
    · have hgf : Book.offGrid s.tick np = false := by simpa using hg
      by_cases ha : o.status = .active
      · have hcl := h o (List.mem_of_getElem? h0)
        by_cases hnn : np = none ∧ nv = none
        · obtain ⟨rfl, rfl⟩ := hnn
          exact same (by simp [modify, h0, hgf, ha])
        · by_cases hred : (np.isNone && decide (nv.getD o.vol < o.vol)) = true
          · have heq : modify s id np nv = { s with orders := s.orders.set id { o with vol := nv.getD o.vol } } := by
              unfold modify
              simp only [h0, hgf, Bool.false_eq_true, ↓reduceIte, ha, ne_eq, not_true_eq_false]
              split
              · exact absurd ⟨rfl, rfl⟩ hnn
              · rw [if_pos hred]
            rw [heq]
            refine ⟨?_, rfl⟩
            intro x hx
            exact rg_set h id { o with vol := nv.getD o.vol } ⟨fun _ => hcl.1 ha, fun y => absurd (ha.symm.trans y) (by simp)⟩ x hx
          · -- re-entry with the new price (on the grid) or the old one (resting, hence on the grid)
            have heq : modify s id np nv =
                { (enter (s.setQueue o.side ((s.queue o.side).erase id))
                      { o with vol := nv.getD o.vol, price := np.getD o.price } false).1 with
                  orders := (enter (s.setQueue o.side ((s.queue o.side).erase id))
                      { o with vol := nv.getD o.vol, price := np.getD o.price } false).1.orders.set id
                    (enter (s.setQueue o.side ((s.queue o.side).erase id))
                      { o with vol := nv.getD o.vol, price := np.getD o.price } false).2 } := by
              unfold modify
              simp only [h0, hgf, Bool.false_eq_true, ↓reduceIte, ha, ne_eq, not_true_eq_false]
              split
              · exact absurd ⟨rfl, rfl⟩ hnn
              · rw [if_neg hred]
            have hgrid : (np.getD o.price) % s.tick = 0 := by
              cases np with
              | none => exact hcl.1 ha
              | some q =>
                simp only [Book.offGrid] at hgf
                simp only [Option.getD_some]
                cases hq : q % s.tick with
                | zero => rfl
                | succ k => simp [hq] at hgf
            have hs0 : RG (s.setQueue o.side ((s.queue o.side).erase id)) := by
              intro x hx
              rw [setQueue_orders'] at hx
              rw [setQueue_tick]
              exact h x hx
            obtain ⟨e1, e2, e3⟩ := enter_rg hs0 { o with vol := nv.getD o.vol, price := np.getD o.price } false ha
              (fun _ => by rw [setQueue_tick]; exact hgrid)
            rw [setQueue_tick] at e2 e3
            rw [heq]
            refine ⟨?_, e3⟩
            intro x hx
            show GClause (enter (s.setQueue o.side ((s.queue o.side).erase id))
                      { o with vol := nv.getD o.vol, price := np.getD o.price } false).1.tick x
            rw [e3]
            refine rg_set (fun y hy => ?_) id _ e2 x hx
            have := e1 y hy
            rw [e3] at this
            exact this
      · exact same (by simp [modify, h0, hgf, ha])

theorem create_rg {s : RState} (h : RG s) (sd : Side) (vol tr : Nat) (p : Option Nat) :
    RG (create s sd vol tr p).1 ∧ (create s sd vol tr p).1.tick = s.tick := by
  have happ : ∀ (o : Order), GClause s.tick o → ∀ x ∈ s.orders ++ [o], GClause s.tick x := by
    intro o ho x hx
    rcases List.mem_append.mp hx with hx | hx
    · exact h x hx
    · rw [List.mem_singleton.mp hx]; exact ho
  unfold create
  cases p with
  | none =>
    refine ⟨?_, rfl⟩
    intro x hx
    refine happ _ ⟨fun y => ?_, fun _ => Or.inl ?_⟩ x hx
    · simp [Book.mkOrder] at y
    · cases sd <;> simp [Book.mkOrder, Book.isMarket]
  | some q =>
    simp only
    split
    · exact ⟨h, rfl⟩
    · rename_i hq
      refine ⟨?_, rfl⟩
      intro x hx
      refine happ _ ⟨fun y => ?_, fun _ => Or.inr ?_⟩ x hx
      · simp [Book.mkOrder] at y
      · simp only [Book.mkOrder]
        cases hm : q % s.tick with
        | zero => cases sd <;> simp [hm]
        | succ k => simp [hm] at hq

theorem step_rg {s : RState} (h : RG s) (op : Op) : RG (step s op).1 ∧ (step s op).1.tick = s.tick := by
  cases op with
  | create sd vol tr p => exact create_rg h sd vol tr p
  | place id => exact place_rg h id
  | cap sd vol tr p =>
    simp only [step]
    have hc := create_rg h sd vol tr p
    split
    · rename_i s' id' heq
      have h1 : (create s sd vol tr p).1 = s' := by rw [heq]
      rw [h1] at hc
      obtain ⟨p1, p2⟩ := place_rg hc.1 id'
      exact ⟨p1, p2.trans hc.2⟩
    · exact hc
  | cancel id => exact cancel_rg h id
  | modify id p v => exact modify_rg h id p v
  | ev e =>
    cases e with
    | new id => exact place_rg h id
    | cancel id => exact cancel_rg h id
    | modify id p v => exact modify_rg h id p v
  | time t => exact ⟨h, rfl⟩
  | trading on => exact ⟨h, rfl⟩
  | resetVol => exact ⟨h, rfl⟩
  | reload => exact ⟨h, rfl⟩

theorem run_rg {s : RState} (h : RG s) (ops : List Op) : RG (run s ops) ∧ (run s ops).tick = s.tick := by
  induction ops generalizing s with
  | nil => exact ⟨h, rfl⟩
  | cons op rest ih =>
    simp only [run, List.foldl_cons]
    obtain ⟨h1, h2⟩ := step_rg h op
    obtain ⟨i1, i2⟩ := ih h1
    exact ⟨i1, i2.trans h2⟩

theorem rg_init (t0 tick : Nat) (trading : Bool) : RG (init t0 tick trading) := by
  intro o ho; simp [init] at ho

end Ref

/-- **Every resting order of every reachable state has a grid price within the price range**
(transferred from the reference engine through the refinement). -/
theorem resting_on_grid (t0 tick : Nat) (trading : Bool) (ht : 0 < tick) (ops : List Op)
    (hv : ∀ op ∈ ops, ValidOp op) (hnf : NoFault (Book.new t0 tick trading) ops) (sd : Side) :
    Views.OnGrid (((Book.new t0 tick trading).run ops).orders.map (·.order)) tick sd := by
  have hi := inv_run (inv_new t0 tick trading ht) ops hv hnf
  have hr := run_refines (inv_new t0 tick trading ht) ops hv hnf
  rw [abs_new] at hr
  have hg := (Ref.run_rg (Ref.rg_init t0 tick trading) ops)
  have hos : ((Book.new t0 tick trading).run ops).orders.map (·.order) = (Ref.run (Ref.init t0 tick trading) ops).orders := by
    rw [← hr]; rfl
  intro o ho
  rw [hos] at ho
  have hmem : o ∈ (Ref.run (Ref.init t0 tick trading) ops).orders := (List.mem_filter.mp ho).1
  have hact : o.status = .active := by
    have := (List.mem_filter.mp ho).2
    simp only [Bool.and_eq_true, decide_eq_true_eq] at this
    exact this.1
  have h1 := (hg.1 o hmem).1 hact
  rw [hg.2] at h1
  refine ⟨h1, ?_⟩
  -- within the price range: the resting order is queued, and queued orders have prices ≤ MAXP
  rw [← hos] at hmem
  obtain ⟨e, he, rfl⟩ := List.mem_map.mp hmem
  obtain ⟨i, hi', rfl⟩ := List.getElem_of_mem he
  have hq := hi.act i _ (List.getElem?_eq_getElem hi') hact
  have hside := (hi.side _).ent _ _ hq
  obtain ⟨e', he', _, _, _, _, _, _, hp⟩ := hside
  rw [List.getElem?_eq_getElem hi'] at he'
  injection he' with he'
  rw [he']; exact hp

end Bourse
