/-
Fault freedom from the properties' own validity conditions.

`inv_run`, `trace_refines` and everything built on them assume `NoFault b ops`: the model's sticky
fault flags (a `u32` overflow, a failed `unwrap`, an exhausted loop) stay clear. This file proves
that hypothesis from what the properties call a *valid history*: ids refer to existing orders, and
the per-side resting volume and the cumulative traded volume — computed by the model in unbounded
`Nat` arithmetic — stay below `2^32` after every operation. Under the invariant

* the underflow / missing-level sites of `remove_order` / `remove_vol` are unreachable,
* the match loop never meets an unknown id and never runs out of fuel,
* the only overflow sites are `insert_order` (side total; the level total and the level count are
  bounded by it) and the traded-volume counter, and they fire exactly when the resulting totals
  reach `2^32`.
-/
import Bourse.Lemmas.Reach

namespace Bourse

theorem LoopInv.notFaulted {b : Book} {a : Nat} (h : LoopInv b a) : b.faulted = false := by
  simp [Book.faulted, h.nofault, h.bid.nofault, h.ask.nofault]

theorem faulted_of_sides {b : Book} (h0 : b.fault = false) (hs : ∀ sd, (b.side sd).fault = false) :
    b.faulted = false := by
  have h1 := hs .bid
  have h2 := hs .ask
  simp only [Book.side] at h1 h2
  simp [Book.faulted, h0, h1, h2]

/-! ### The traded-volume counter only grows inside an operation -/

theorem fillStep_tradeVol (sd : Side) (b : Book) (e : Entry) (id : Nat) (m : Entry) :
    (Book.fillStep sd b e id m).1.tradeVol = b.tradeVol + min e.order.vol m.order.vol := by
  simp [Book.fillStep, Book.matchOrders]

theorem matchLoop_tradeVol_mono (sd : Side) (fuel : Nat) (b : Book) (e : Entry) :
    b.tradeVol ≤ (Book.matchLoop sd fuel b e).1.tradeVol := by
  induction fuel generalizing b e with
  | zero => simp [Book.matchLoop]
  | succ fuel ih =>
    unfold Book.matchLoop
    split
    · split
      · exact Nat.le_refl _
      · split
        · exact Nat.le_refl _
        · refine Nat.le_trans ?_ (ih _ _)
          rw [fillStep_tradeVol]; omega
    · exact Nat.le_refl _

/-! ### One fill -/

theorem SMap.length_erase_of_find? {K V : Type} [KeyOrd K] [LawfulKeyOrd K] [DecidableEq K] (k : K) (v : V) (l : SMap K V)
    (hs : SMap.Sorted l) (h : SMap.find? k l = some v) : (SMap.erase k l).length + 1 = l.length := by
  have := (SMap.perm_erase k v l hs h).length_eq
  simp only [List.length_cons] at this
  omega

/-- The opposite side after one fill satisfies the side invariant (so none of its underflow /
missing-level sites fired), whatever the traded-volume counter does. -/
theorem LoopInv.fillStep_opp {b : Book} {a : Nat} (h : LoopInv b a) (sd : Side) (e : Entry) (id : Nat) (m : Entry)
    (hh : (b.side sd.opp).bestOrderIdx = some id) (hm : b.orders[id]? = some m) (hv : 0 < e.order.vol) :
    SideInv (Book.fillStep sd b e id m).1.orders sd.opp ((Book.fillStep sd b e id m).1.side sd.opp) b.stamp ∧
    ((Book.fillStep sd b e id m).1.side sd.opp).orders.length +
        (if 0 < (Book.fillStep sd b e id m).2.order.vol then 1 else 0) ≤ (b.side sd.opp).orders.length := by
  obtain ⟨k, hmem⟩ := bestOrderIdx_mem hh
  have hopp := h.side sd.opp
  obtain ⟨m0, hm0, hact, hside, hkey, hpk, hvol, hstamp, _⟩ := hopp.ent k id hmem
  rw [hm] at hm0; injection hm0 with hm0; subst hm0
  have hmo := matchOrders_passive b.t e.order m.order
  have hords : (Book.fillStep sd b e id m).1.orders = b.orders.set id { m with order := (Book.matchOrders b.t e.order m.order).2.1 } := by
    simp [Book.fillStep]
  have hoppside : (Book.fillStep sd b e id m).1.side sd.opp =
      (if (Book.matchOrders b.t e.order m.order).2.1.status = .filled
       then (b.side sd.opp).removeOrder m.key.pk m.key.st (Book.matchOrders b.t e.order m.order).2.2.2
       else (b.side sd.opp).removeVol m.key.pk (Book.matchOrders b.t e.order m.order).2.2.2) := by
    simp only [Book.fillStep]
    cases sd <;> simp [Book.side, Book.setSide, Side.opp]
  have hkpk : m.key.pk = k.1 := by rw [hkey]
  have hkst : m.key.st = k.2 := by rw [hkey]
  have hkk : ((m.key.pk, m.key.st), id) ∈ (b.side sd.opp).orders := by rw [hkpk, hkst]; exact hmem
  have haggvol : (Book.fillStep sd b e id m).2.order.vol = e.order.vol - min e.order.vol m.order.vol := by
    simp only [Book.fillStep, Book.matchOrders]
    split <;> rfl
  rw [hords, hoppside, haggvol]
  by_cases hle : m.order.vol ≤ e.order.vol
  · have hmin : min e.order.vol m.order.vol = m.order.vol := Nat.min_eq_right hle
    have hfilled := hmo.2.2.2.2.2.1 (by rw [hmin]; omega)
    rw [if_pos hfilled, hmo.1, hmin]
    have hvo : m.order.vol = volOf b.orders id := by simp [volOf, hm]
    refine ⟨?_, ?_⟩
    · rw [hvo]; exact hopp.remove m.key.pk m.key.st id _ hkk
    · rw [removeOrder_orders]
      have := SMap.length_erase_of_find? (m.key.pk, m.key.st) id _ hopp.so (SMap.find?_of_mem hopp.so hkk)
      split <;> omega
  · have hlt : e.order.vol < m.order.vol := by omega
    have hmin : min e.order.vol m.order.vol = e.order.vol := Nat.min_eq_left (by omega)
    have hnz : m.order.vol - min e.order.vol m.order.vol ≠ 0 := by rw [hmin]; omega
    have hst := hmo.2.2.2.2.2.2 hnz
    have hnotfilled : (Book.matchOrders b.t e.order m.order).2.1.status ≠ .filled := by rw [hst, hact]; simp
    rw [if_neg hnotfilled, hmo.1, hmin]
    refine ⟨?_, ?_⟩
    · refine hopp.reduce m.key.pk m.key.st id e.order.vol m _ hkk hm hlt ⟨?_, ?_, rfl, ?_, ?_⟩
      · simp only; rw [hst, hact]
      · exact hmo.2.2.1
      · exact hmo.2.2.2.1
      · simp only; rw [hmo.2.1, hmin]
    · rw [removeVol_orders]; simp

/-- One fill faults only through the traded-volume counter. -/
theorem LoopInv.fillStep_nofault {b : Book} {a : Nat} (h : LoopInv b a) (sd : Side) (e : Entry) (id : Nat) (m : Entry)
    (hh : (b.side sd.opp).bestOrderIdx = some id) (hm : b.orders[id]? = some m) (hv : 0 < e.order.vol)
    (htv : b.tradeVol + min e.order.vol m.order.vol < P32) :
    (Book.fillStep sd b e id m).1.faulted = false := by
  have hopp := (h.fillStep_opp sd e id m hh hm hv).1
  have hown : (Book.fillStep sd b e id m).1.side sd = b.side sd := (Book.fillStep_frame sd b e id m).2.2.2.2.1
  apply faulted_of_sides
  · have htv' : ¬ (b.tradeVol + (Book.matchOrders b.t e.order m.order).2.2.2 ≥ P32) := by
      rw [(matchOrders_passive b.t e.order m.order).1]; omega
    simp [Book.fillStep, h.nofault, htv']
  · intro sd'
    by_cases hs : sd' = sd
    · subst hs; rw [hown]; exact (h.side sd').nofault
    · have : sd' = sd.opp := Book.eq_opp_of_ne hs
      subst this; exact hopp.nofault

/-! ### The whole loop: fuel suffices, no unknown id, faults only through the counter -/

theorem LoopInv.matchLoop_nofault {b : Book} {a : Nat} (h : LoopInv b a) (sd : Side) (fuel : Nat) (e : Entry)
    (hfuel : (b.side sd.opp).orders.length + (if 0 < e.order.vol then 1 else 0) + 1 ≤ fuel)
    (htv : (Book.matchLoop sd fuel b e).1.tradeVol < P32) :
    (Book.matchLoop sd fuel b e).1.faulted = false := by
  induction fuel generalizing b e with
  | zero => omega
  | succ fuel ih =>
    by_cases hcond : (decide (e.order.vol > 0) && Book.crosses sd e.order.price (bestPrice sd.opp (b.side sd.opp))) = true
    · cases hsome : (b.side sd.opp).bestOrderIdx with
      | none =>
        have : Book.matchLoop sd (fuel + 1) b e = (b, e) := by simp [Book.matchLoop, hcond, hsome]
        rw [this]; exact h.notFaulted
      | some id =>
        obtain ⟨k, hmem⟩ := bestOrderIdx_mem hsome
        obtain ⟨m, hm, _⟩ := (h.side sd.opp).ent k id hmem
        have heq : Book.matchLoop sd (fuel + 1) b e =
            Book.matchLoop sd fuel (Book.fillStep sd b e id m).1 (Book.fillStep sd b e id m).2 := by
          simp [Book.matchLoop, hcond, hsome, hm]
        rw [heq] at htv ⊢
        have hv : 0 < e.order.vol := by
          simp only [Bool.and_eq_true, decide_eq_true_eq] at hcond; exact hcond.1
        have hmono := matchLoop_tradeVol_mono sd fuel (Book.fillStep sd b e id m).1 (Book.fillStep sd b e id m).2
        rw [fillStep_tradeVol] at hmono
        have hstep := h.fillStep_nofault sd e id m hsome hm hv (by omega)
        have hl := h.fillStep sd e id m hsome hm hv hstep
        have hlen := (h.fillStep_opp sd e id m hsome hm hv).2
        refine ih hl _ ?_ htv
        simp only [hv, if_true] at hfuel
        omega
    · have : Book.matchLoop sd (fuel + 1) b e = (b, e) := by simp [Book.matchLoop, hcond]
      rw [this]; exact h.notFaulted

theorem LoopInv.matchSide_nofault {b : Book} {a : Nat} (h : LoopInv b a) (sd : Side) (e : Entry)
    (htv : (Book.matchSide sd b e).1.tradeVol < P32) : (Book.matchSide sd b e).1.faulted = false := by
  unfold Book.matchSide at htv ⊢
  refine h.matchLoop_nofault sd _ e ?_ htv
  unfold Book.matchFuel
  split <;> omega

theorem LoopInv.matchIfTrading_nofault {b : Book} {a : Nat} (h : LoopInv b a) (sd : Side) (e : Entry)
    (htv : (Book.matchIfTrading sd b e).1.tradeVol < P32) : (Book.matchIfTrading sd b e).1.faulted = false := by
  unfold Book.matchIfTrading at htv ⊢
  split
  · rename_i ht; simp only [ht, if_true] at htv; exact h.matchSide_nofault sd e htv
  · exact h.notFaulted

/-! ### Queuing: `insert_order` faults exactly when the side total reaches `2^32` -/

theorem SideInv.insert_nofault {os : List Entry} {sd : Side} {s : SideS} {stamp : Nat} (h : SideInv os sd s stamp)
    (pk st id vol : Nat) (hv : 0 < vol) (hb : s.vol + vol < P32) : (s.insertOrder pk st id vol).fault = false := by
  have hagg := h.agg pk
  have hle := aggAt_le_total os s.orders pk
  have hcnt := h.count_le_vol pk
  rw [← h.tot] at hle
  simp only [SideS.insertOrder]
  cases hf : SMap.find? pk s.volumes with
  | none => simp [h.nofault]; try omega
  | some x =>
    obtain ⟨v, n⟩ := x
    rw [hf] at hagg
    split at hagg
    · cases hagg
    · injection hagg with hagg
      rw [← hagg] at hle hcnt
      simp only at hle hcnt
      simp [h.nofault]
      try omega

theorem insertOrder_vol (s : SideS) (pk st id vol : Nat) : (s.insertOrder pk st id vol).vol = s.vol + vol := by
  simp only [SideS.insertOrder]

theorem enqueue_side_vol (sd : Side) (b : Book) (e : Entry) (pk : Nat) :
    ((Book.enqueue sd b e pk).1.side sd).vol = (b.side sd).vol + e.order.vol := by
  simp only [Book.enqueue, Book.side_setSide, insertOrder_vol]
  try (cases sd <;> rfl)

theorem LoopInv.enqueue_nofault {b : Book} {a : Nat} (h : LoopInv b a) (sd : Side) (e : Entry) (pk : Nat)
    (hv : 0 < e.order.vol) (hb : ((Book.enqueue sd b e pk).1.side sd).vol < P32) :
    (Book.enqueue sd b e pk).1.faulted = false := by
  rw [enqueue_side_vol] at hb
  have hins := (h.side sd).insert_nofault pk b.stamp e.order.id e.order.vol hv hb
  apply faulted_of_sides
  · simp [Book.enqueue, h.nofault]
  · intro sd'
    by_cases hs : sd' = sd
    · subst hs
      simp only [Book.enqueue, Book.side_setSide]
      cases sd' <;> exact hins
    · have : sd' = sd.opp := Book.eq_opp_of_ne hs
      subst this
      simp only [Book.enqueue, Book.side_setSide_opp]
      cases sd
      · exact (h.side .ask).nofault
      · exact (h.side .bid).nofault

/-! ### Finishing an aggressor -/

/-- What bounds the outcome of an operation: both side totals and the traded-volume counter, as the
model computes them in unbounded arithmetic, are below `2^32`. -/
def Book.Bounded (b : Book) : Prop := b.bid.vol < P32 ∧ b.ask.vol < P32 ∧ b.tradeVol < P32

theorem Book.Bounded.side {b : Book} (h : b.Bounded) (sd : Side) : (b.side sd).vol < P32 := by
  cases sd; exact h.1; exact h.2.1

theorem LoopInv.finish_limit_nofault {b : Book} {a : Nat} (h : LoopInv b a) (sd : Side) (e : Entry) (pk : Nat)
    (hs : e.order.status = .active) (hv : 0 < e.order.vol)
    (hb : (Book.writeBack (Book.restUnlessFilled sd (Book.matchIfTrading sd b e) pk) a).Bounded) :
    (Book.writeBack (Book.restUnlessFilled sd (Book.matchIfTrading sd b e) pk) a).faulted = false := by
  have hstat := matchIfTrading_agg_status sd b e hs hv
  have hfr := Book.restUnlessFilled_trades sd (Book.matchIfTrading sd b e) pk
  have htv : (Book.matchIfTrading sd b e).1.tradeVol < P32 := by
    have := hb.2.2
    rw [Book.writeBack_tradeVol, hfr.2.1] at this; exact this
  have hmnf := h.matchIfTrading_nofault sd e htv
  have hl := matchIfTrading_loopInv h sd e hmnf
  rw [writeBack_faulted]
  have hside := hb.side sd
  rw [Book.writeBack_side] at hside
  unfold Book.restUnlessFilled at hside ⊢
  by_cases hf : (Book.matchIfTrading sd b e).2.order.status = .filled
  · simp only [hf, ne_eq, not_true_eq_false, if_false]; exact hmnf
  · simp only [hf, ne_eq, not_false_eq_true, if_true] at hside ⊢
    rcases hstat with hstat | hstat
    · exact hl.enqueue_nofault sd _ pk hstat.2 hside
    · exact absurd hstat hf

theorem LoopInv.finish_market_nofault {b : Book} {a : Nat} (h : LoopInv b a) (sd : Side) (e : Entry)
    (hb : (Book.writeBack (Book.placeMarket sd b e) a).Bounded) :
    (Book.writeBack (Book.placeMarket sd b e) a).faulted = false := by
  rw [writeBack_faulted]
  have htv := hb.2.2
  rw [Book.writeBack_tradeVol] at htv
  unfold Book.placeMarket at htv ⊢
  by_cases ht : b.trading = true
  · simp only [ht, if_true] at htv ⊢
    have hcr : ∀ r : Book × Entry, (Book.cancelRemainder r).1 = r.1 := by
      intro r; unfold Book.cancelRemainder; split <;> rfl
    rw [hcr] at htv ⊢
    exact h.matchSide_nofault sd e htv
  · simp only [ht]
    exact h.notFaulted

/-! ### Operations -/

theorem Inv.place_nofault {b : Book} (h : Inv b) (id : Nat) (hid : id < b.orders.length)
    (hb : (b.placeOrder id).Bounded) : (b.placeOrder id).faulted = false := by
  cases he : b.orders[id]? with
  | none => rw [List.getElem?_eq_none_iff] at he; omega
  | some e =>
    by_cases hnew : e.order.status = .new
    · have hl := h.toLoop he (by rw [hnew]; simp)
      have hnk := h.newok id e he hnew
      by_cases hm : Book.isMarket (b.activate e).order = true
      · have heq : b.placeOrder id = Book.writeBack (Book.placeMarket (b.activate e).order.side b (b.activate e)) id := by
          simp [Book.placeOrder, he, hnew, Book.placeEntry, hm]
        rw [heq] at hb ⊢
        exact hl.finish_market_nofault _ _ hb
      · have heq : b.placeOrder id = Book.writeBack (Book.restUnlessFilled (b.activate e).order.side
            (Book.matchIfTrading (b.activate e).order.side b (b.activate e)) (b.activate e).key.pk) id := by
          simp [Book.placeOrder, he, hnew, Book.placeEntry, hm, Book.placeLimit]
        rw [heq] at hb ⊢
        exact hl.finish_limit_nofault _ _ _ (by simp [Book.activate]) (by simpa [Book.activate] using hnk.2.1) hb
    · have heq : b.placeOrder id = b := by simp [Book.placeOrder, he, hnew]
      rw [heq]; exact h.notFaulted

/-- `cancel_order` of a known id never faults. -/
theorem Inv.cancel_nofault {b : Book} (h : Inv b) (id : Nat) (hid : id < b.orders.length) :
    (b.cancelOrder id).faulted = false := by
  cases he : b.orders[id]? with
  | none => rw [List.getElem?_eq_none_iff] at he; omega
  | some e =>
    have hnf : (b.cancelOrder id).faulted = false ∨ True := Or.inr trivial
    by_cases hact : e.order.status = .active
    · have hl := h.dequeue_loop he hact
      let ec : Entry := { e with order := { e.order with status := .cancelled, endt := b.t } }
      have heq : b.cancelOrder id = { (b.dequeue e) with orders := (b.dequeue e).orders.set id ec } := by
        simp only [Book.cancelOrder, he, hact, if_true, Book.dequeue, ec]
        cases e.key.side <;> simp [Book.setSide, Book.side]
      rw [heq]
      exact (hl.close_inactive ec (by simp [ec]) (by simp [ec]) (by simpa [ec] using h.ids id e he)).notFaulted
    · have heq : b.cancelOrder id = b := by simp [Book.cancelOrder, he, hact]
      rw [heq]; exact h.notFaulted

theorem Inv.replace_nofault {b : Book} (h : Inv b) {id : Nat} {e : Entry} (he : b.orders[id]? = some e)
    (hact : e.order.status = .active) (np nv : Nat) (hv : 0 < nv)
    (hb : (Book.writeBack (b.replaceOrder e np nv) id).Bounded) :
    (Book.writeBack (b.replaceOrder e np nv) id).faulted = false := by
  have hm := h.act id e he hact
  obtain ⟨e0, he0, _, _, hkey0, _⟩ := (h.side e.order.side).ent _ _ hm
  rw [he] at he0; injection he0 with he0; subst he0
  have hks : e.key.side = e.order.side := by rw [hkey0]
  have hl := h.dequeue_loop he hact
  unfold Book.replaceOrder at hb ⊢
  rw [hks] at hb ⊢
  exact hl.finish_limit_nofault e.order.side _ _ (by simpa using hact) (by simpa using hv) hb

theorem Inv.modify_nofault {b : Book} (h : Inv b) (id : Nat) (np nv : Option Nat) (hid : id < b.orders.length)
    (hvalid : ∀ v, nv = some v → 0 < v) (hb : (b.modifyOrder id np nv).Bounded) :
    (b.modifyOrder id np nv).faulted = false := by
  cases he : b.orders[id]? with
  | none => rw [List.getElem?_eq_none_iff] at he; omega
  | some e =>
    by_cases hg : Book.offGrid b.tick np = true
    · have : b.modifyOrder id np nv = b := by simp [Book.modifyOrder, he, hg]
      rw [this]; exact h.notFaulted
    · by_cases hact : e.order.status = .active
      · have heq : b.modifyOrder id np nv = Book.writeBack (b.modifyEntry e np nv) id := by
          simp [Book.modifyOrder, he, hg, hact]
        rw [heq] at hb ⊢
        have hepos : 0 < e.order.vol := by
          obtain ⟨e0, he0, _, _, _, _, hp, _, _⟩ := (h.side e.order.side).ent _ _ (h.act id e he hact)
          rw [he] at he0; injection he0 with he0; subst he0; exact hp
        cases np with
        | none =>
          cases nv with
          | none =>
            have : Book.writeBack (b.modifyEntry e none none) id = b := by
              simp [Book.modifyEntry, Book.writeBack, set_of_getElem? he]
            rw [this]; exact h.notFaulted
          | some v =>
            by_cases hlt : v < e.order.vol
            · have : b.modifyEntry e none (some v) = b.reduceOrderVol e (e.order.vol - v) := by
                simp [Book.modifyEntry, hlt]
              rw [this]
              exact (h.reduce he hact v (hvalid v rfl) hlt).notFaulted
            · have : b.modifyEntry e none (some v) = b.replaceOrder e e.order.price v := by
                simp [Book.modifyEntry, hlt]
              rw [this] at hb ⊢
              exact h.replace_nofault he hact _ _ (hvalid v rfl) hb
        | some p =>
          cases nv with
          | none =>
            have : b.modifyEntry e (some p) none = b.replaceOrder e p e.order.vol := rfl
            rw [this] at hb ⊢
            exact h.replace_nofault he hact _ _ hepos hb
          | some v =>
            have : b.modifyEntry e (some p) (some v) = b.replaceOrder e p v := rfl
            rw [this] at hb ⊢
            exact h.replace_nofault he hact _ _ (hvalid v rfl) hb
      · have : b.modifyOrder id np nv = b := by simp [Book.modifyOrder, he, hg, hact]
        rw [this]; exact h.notFaulted

/-- "ids refer to existing orders". -/
def KnownId (b : Book) : Op → Prop
  | .place id => id < b.orders.length
  | .cancel id => id < b.orders.length
  | .modify id _ _ => id < b.orders.length
  | .ev (.new id) => id < b.orders.length
  | .ev (.cancel id) => id < b.orders.length
  | .ev (.modify id _ _) => id < b.orders.length
  | _ => True

/-- **One step.** From a state satisfying the invariant, a valid operation on a known id whose
outcome has both side totals and the traded-volume counter below `2^32` does not fault. -/
theorem step_nofault {b : Book} (h : Inv b) (op : Op) (hv : ValidOp op) (hk : KnownId b op)
    (hb : (b.step op).1.Bounded) : (b.step op).1.faulted = false := by
  cases op with
  | create sd vol tr p => exact (h.create sd vol tr p hv.1 hv.2).notFaulted
  | place id => exact h.place_nofault id hk hb
  | cap sd vol tr p =>
    have hc := h.create sd vol tr p hv.1 hv.2
    simp only [Book.step, Book.createAndPlace] at hb ⊢
    split
    · rename_i id hid
      simp only [hid] at hb
      refine hc.place_nofault id ?_ hb
      have hlen : (b.createOrder sd vol tr p).1.orders.length = b.orders.length + 1 ∧ id = b.orders.length := by
        unfold Book.createOrder at hid ⊢
        cases p with
        | none => simp at hid ⊢; exact hid.symm
        | some q =>
          simp only at hid ⊢
          split at hid
          · cases hid
          · rename_i hq
            simp only [hq] at hid ⊢
            simp at hid ⊢; exact hid.symm
      omega
    · exact hc.notFaulted
  | cancel id => exact h.cancel_nofault id hk
  | modify id p v => exact h.modify_nofault id p v hk hv.1 hb
  | ev e =>
    cases e with
    | new id => exact h.place_nofault id hk hb
    | cancel id => exact h.cancel_nofault id hk
    | modify id p v => exact h.modify_nofault id p v hk hv.1 hb
  | time t => exact (h.congr (b' := b.setTime t) rfl rfl rfl rfl rfl).notFaulted
  | trading on =>
    cases on
    · exact (h.congr (b' := b.disableTrading) rfl rfl rfl rfl rfl).notFaulted
    · exact (h.congr (b' := b.enableTrading) rfl rfl rfl rfl rfl).notFaulted
  | resetVol => exact (h.congr (b' := b.resetTradeVol) rfl rfl rfl rfl rfl).notFaulted
  | reload =>
    simp only [Book.step]
    split
    · exact h.notFaulted
    · rw [reload_eq h]; exact h.notFaulted

/-- A history is *feasible*: every id refers to an existing order and after every operation the
per-side resting volume and the cumulative traded volume are below `2^32` (the validity conditions
quoted by C01–C07, C12, C13). -/
def Feasible : Book → List Op → Prop
  | _, [] => True
  | b, op :: rest => KnownId b op ∧ (b.step op).1.Bounded ∧ Feasible (b.step op).1 rest

/-- **Valid histories never fault.** The `NoFault` hypothesis of `inv_run` and of the refinement
holds for every valid feasible history. -/
theorem noFault_of_feasible {b : Book} (h : Inv b) (ops : List Op) (hv : ∀ op ∈ ops, ValidOp op)
    (hf : Feasible b ops) : NoFault b ops := by
  induction ops generalizing b with
  | nil => trivial
  | cons op rest ih =>
    have hvo := hv op List.mem_cons_self
    have hnf := step_nofault h op hvo hf.1 hf.2.1
    exact ⟨hnf, ih (inv_step h op hvo hnf) (fun o ho => hv o (List.mem_cons_of_mem _ ho)) hf.2.2⟩

/-! ### The converse: a history that does not fault is feasible

So `NoFault` *is* the validity condition of the properties, not something stronger. -/

theorem matchLoop_tradeVol_lt (sd : Side) (fuel : Nat) (b : Book) (e : Entry) (hb : b.tradeVol < P32)
    (hnf : (Book.matchLoop sd fuel b e).1.faulted = false) : (Book.matchLoop sd fuel b e).1.tradeVol < P32 := by
  induction fuel generalizing b e with
  | zero => simp [Book.matchLoop, Book.faulted] at hnf
  | succ fuel ih =>
    by_cases hcond : (decide (e.order.vol > 0) && Book.crosses sd e.order.price (bestPrice sd.opp (b.side sd.opp))) = true
    · cases hsome : (b.side sd.opp).bestOrderIdx with
      | none =>
        have : Book.matchLoop sd (fuel + 1) b e = (b, e) := by simp [Book.matchLoop, hcond, hsome]
        rw [this]; exact hb
      | some id =>
        cases hm : b.orders[id]? with
        | none =>
          have : Book.matchLoop sd (fuel + 1) b e = ({ b with fault := true }, e) := by
            simp [Book.matchLoop, hcond, hsome, hm]
          rw [this]; exact hb
        | some m =>
          have heq : Book.matchLoop sd (fuel + 1) b e =
              Book.matchLoop sd fuel (Book.fillStep sd b e id m).1 (Book.fillStep sd b e id m).2 := by
            simp [Book.matchLoop, hcond, hsome, hm]
          rw [heq] at hnf ⊢
          have hstep : (Book.fillStep sd b e id m).1.faulted = false := by
            cases hf : (Book.fillStep sd b e id m).1.faulted with
            | false => rfl
            | true => rw [matchLoop_faulted_mono _ _ _ _ hf] at hnf; cases hnf
          refine ih _ _ ?_ hnf
          have hfl : (Book.fillStep sd b e id m).1.fault = false := by
            simp only [Book.faulted, Bool.or_eq_false_iff] at hstep; exact hstep.1.1
          rw [fillStep_tradeVol]
          simp only [Book.fillStep, Bool.or_eq_false_iff, decide_eq_false_iff_not] at hfl
          have := hfl.2
          rw [(matchOrders_passive b.t e.order m.order).1] at this
          omega
    · have : Book.matchLoop sd (fuel + 1) b e = (b, e) := by simp [Book.matchLoop, hcond]
      rw [this]; exact hb

theorem matchIfTrading_tradeVol_lt (sd : Side) (b : Book) (e : Entry) (hb : b.tradeVol < P32)
    (hnf : (Book.matchIfTrading sd b e).1.faulted = false) : (Book.matchIfTrading sd b e).1.tradeVol < P32 := by
  by_cases ht : b.trading = true
  · have heq : Book.matchIfTrading sd b e = Book.matchLoop sd (Book.matchFuel b sd) b e := by
      simp [Book.matchIfTrading, Book.matchSide, ht]
    rw [heq] at hnf ⊢; exact matchLoop_tradeVol_lt sd _ b e hb hnf
  · have heq : Book.matchIfTrading sd b e = (b, e) := by simp [Book.matchIfTrading, ht]
    rw [heq]; exact hb

theorem restUnlessFilled_tradeVol_lt (sd : Side) (b : Book) (e : Entry) (pk : Nat) (hb : b.tradeVol < P32)
    (hnf : (Book.restUnlessFilled sd (Book.matchIfTrading sd b e) pk).1.faulted = false) :
    (Book.restUnlessFilled sd (Book.matchIfTrading sd b e) pk).1.tradeVol < P32 := by
  rw [(Book.restUnlessFilled_trades sd _ pk).2.1]
  apply matchIfTrading_tradeVol_lt sd b e hb
  cases hc : (Book.matchIfTrading sd b e).1.faulted with
  | false => rfl
  | true =>
    unfold Book.restUnlessFilled at hnf
    split at hnf
    · rw [enqueue_faulted_mono _ _ _ _ hc] at hnf; cases hnf
    · rw [hc] at hnf; cases hnf

theorem cancelRemainder_fst (r : Book × Entry) : (Book.cancelRemainder r).1 = r.1 := by
  unfold Book.cancelRemainder; split <;> rfl

theorem placeEntry_tradeVol_lt (b : Book) (e : Entry) (hb : b.tradeVol < P32)
    (hnf : (Book.placeEntry b e).1.faulted = false) : (Book.placeEntry b e).1.tradeVol < P32 := by
  by_cases hm : Book.isMarket e.order = true
  · by_cases ht : b.trading = true
    · have heq : (Book.placeEntry b e).1 = (Book.matchLoop e.order.side (Book.matchFuel b e.order.side) b e).1 := by
        simp [Book.placeEntry, hm, Book.placeMarket, ht, cancelRemainder_fst, Book.matchSide]
      rw [heq] at hnf ⊢; exact matchLoop_tradeVol_lt _ _ b e hb hnf
    · have heq : (Book.placeEntry b e).1 = b := by simp [Book.placeEntry, hm, Book.placeMarket, ht]
      rw [heq]; exact hb
  · have heq : Book.placeEntry b e = Book.restUnlessFilled e.order.side (Book.matchIfTrading e.order.side b e) e.key.pk := by
      simp [Book.placeEntry, hm, Book.placeLimit]
    rw [heq] at hnf ⊢; exact restUnlessFilled_tradeVol_lt _ b e _ hb hnf

theorem placeOrder_tradeVol_lt (b : Book) (id : Nat) (hb : b.tradeVol < P32)
    (hnf : (b.placeOrder id).faulted = false) : (b.placeOrder id).tradeVol < P32 := by
  cases he : b.orders[id]? with
  | none =>
    have : b.placeOrder id = { b with fault := true } := by simp [Book.placeOrder, he]
    rw [this]; exact hb
  | some e =>
    by_cases hnew : e.order.status = .new
    · have heq : b.placeOrder id = Book.writeBack (Book.placeEntry b (b.activate e)) id := by
        simp [Book.placeOrder, he, hnew]
      rw [heq] at hnf ⊢
      rw [Book.writeBack_tradeVol]
      rw [writeBack_faulted] at hnf
      exact placeEntry_tradeVol_lt _ _ hb hnf
    · have heq : b.placeOrder id = b := by simp [Book.placeOrder, he, hnew]
      rw [heq]; exact hb

theorem modifyOrder_tradeVol_lt (b : Book) (id : Nat) (np nv : Option Nat) (hb : b.tradeVol < P32)
    (hnf : (b.modifyOrder id np nv).faulted = false) : (b.modifyOrder id np nv).tradeVol < P32 := by
  have hrep : ∀ (e : Entry) (p v : Nat), (Book.writeBack (b.replaceOrder e p v) id).faulted = false →
      (Book.writeBack (b.replaceOrder e p v) id).tradeVol < P32 := by
    intro e p v h
    rw [Book.writeBack_tradeVol]
    rw [writeBack_faulted] at h
    unfold Book.replaceOrder at h ⊢
    exact restUnlessFilled_tradeVol_lt _ _ _ _ (by simpa using hb) h
  cases he : b.orders[id]? with
  | none =>
    have : b.modifyOrder id np nv = { b with fault := true } := by simp [Book.modifyOrder, he]
    rw [this]; exact hb
  | some e =>
    by_cases hg : Book.offGrid b.tick np = true
    · have : b.modifyOrder id np nv = b := by simp [Book.modifyOrder, he, hg]
      rw [this]; exact hb
    · by_cases hact : e.order.status = .active
      · have heq : b.modifyOrder id np nv = Book.writeBack (b.modifyEntry e np nv) id := by
          simp [Book.modifyOrder, he, hg, hact]
        rw [heq] at hnf ⊢
        cases np with
        | none =>
          cases nv with
          | none => simpa [Book.modifyEntry] using hb
          | some v =>
            by_cases hlt : v < e.order.vol
            · have : b.modifyEntry e none (some v) = b.reduceOrderVol e (e.order.vol - v) := by
                simp [Book.modifyEntry, hlt]
              rw [this]; simpa [Book.reduceOrderVol] using hb
            · have : b.modifyEntry e none (some v) = b.replaceOrder e e.order.price v := by
                simp [Book.modifyEntry, hlt]
              rw [this] at hnf ⊢; exact hrep _ _ _ hnf
        | some p =>
          cases nv with
          | none => exact hrep _ _ _ hnf
          | some v => exact hrep _ _ _ hnf
      · have : b.modifyOrder id np nv = b := by simp [Book.modifyOrder, he, hg, hact]
        rw [this]; exact hb

theorem cancelOrder_tradeVol (b : Book) (id : Nat) : (b.cancelOrder id).tradeVol = b.tradeVol := by
  unfold Book.cancelOrder
  split
  · rfl
  · split
    · simp
    · rfl

theorem step_tradeVol_lt {b : Book} (h : Inv b) (op : Op) (hb : b.tradeVol < P32)
    (hnf : (b.step op).1.faulted = false) : (b.step op).1.tradeVol < P32 := by
  cases op with
  | create sd vol tr p =>
    simp only [Book.step, Book.createOrder]
    cases p with
    | none => exact hb
    | some q => simp only; split <;> exact hb
  | place id => exact placeOrder_tradeVol_lt b id hb hnf
  | cap sd vol tr p =>
    have hc : (b.createOrder sd vol tr p).1.tradeVol < P32 := by
      simp only [Book.createOrder]
      cases p with
      | none => exact hb
      | some q => simp only; split <;> exact hb
    simp only [Book.step, Book.createAndPlace] at hnf ⊢
    split
    · rename_i id hid
      simp only [hid] at hnf
      exact placeOrder_tradeVol_lt _ id hc hnf
    · exact hc
  | cancel id => simp only [Book.step, cancelOrder_tradeVol]; exact hb
  | modify id p v => exact modifyOrder_tradeVol_lt b id p v hb hnf
  | ev e =>
    cases e with
    | new id => exact placeOrder_tradeVol_lt b id hb hnf
    | cancel id => simp only [Book.step, Book.processEvent, cancelOrder_tradeVol]; exact hb
    | modify id p v => exact modifyOrder_tradeVol_lt b id p v hb hnf
  | time t => exact hb
  | trading on => cases on <;> exact hb
  | resetVol => simp [Book.step, Book.resetTradeVol, P32]
  | reload =>
    simp only [Book.step]
    split
    · exact hb
    · rw [reload_eq h]; exact hb

theorem knownId_of_nofault (b : Book) (op : Op) (hnf : (b.step op).1.faulted = false) : KnownId b op := by
  have key : ∀ id, (b.orders[id]? = none → False) → id < b.orders.length := by
    intro id h
    cases hlt : decide (id < b.orders.length) with
    | true => exact of_decide_eq_true hlt
    | false =>
      exfalso; apply h
      rw [List.getElem?_eq_none_iff]
      have := of_decide_eq_false hlt; omega
  cases op with
  | place id => exact key id (fun hn => by simp [Book.step, Book.placeOrder, hn, Book.faulted] at hnf)
  | cancel id => exact key id (fun hn => by simp [Book.step, Book.cancelOrder, hn, Book.faulted] at hnf)
  | modify id p v => exact key id (fun hn => by simp [Book.step, Book.modifyOrder, hn, Book.faulted] at hnf)
  | ev e =>
    cases e with
    | new id => exact key id (fun hn => by simp [Book.step, Book.processEvent, Book.placeOrder, hn, Book.faulted] at hnf)
    | cancel id => exact key id (fun hn => by simp [Book.step, Book.processEvent, Book.cancelOrder, hn, Book.faulted] at hnf)
    | modify id p v => exact key id (fun hn => by simp [Book.step, Book.processEvent, Book.modifyOrder, hn, Book.faulted] at hnf)
  | _ => trivial

/-- **Fault freedom is exactly feasibility.** For valid histories from a state satisfying the
invariant (in particular from a new book), the model's fault flags stay clear if and only if every
id refers to an existing order and the per-side resting volumes and the traded-volume counter stay
below `2^32` after every operation. -/
theorem noFault_iff_feasible {b : Book} (h : Inv b) (hb : b.tradeVol < P32) (ops : List Op)
    (hv : ∀ op ∈ ops, ValidOp op) : NoFault b ops ↔ Feasible b ops := by
  constructor
  · intro hnf
    induction ops generalizing b with
    | nil => trivial
    | cons op rest ih =>
      have hvo := hv op List.mem_cons_self
      have hi := inv_step h op hvo hnf.1
      have htv := step_tradeVol_lt h op hb hnf.1
      exact ⟨knownId_of_nofault b op hnf.1, ⟨hi.bid.bnd, hi.ask.bnd, htv⟩,
        ih hi htv (fun o ho => hv o (List.mem_cons_of_mem _ ho)) hnf.2⟩
  · exact noFault_of_feasible h ops hv

/-! ### Valid histories, as the properties quantify them -/

/-- A *valid history* on a new book, in the words of C01–C07, C12, C13: positive tick size; order and
modify volumes ≥ 1 and prices within 32 bits (`ValidOp`); ids refer to existing orders and the
per-side resting volume and cumulative traded volume stay below `2^32` (`Feasible`). -/
structure ValidHistory (t0 tick : Nat) (trading : Bool) (ops : List Op) : Prop where
  tick_pos : 0 < tick
  ops_valid : ∀ op ∈ ops, ValidOp op
  feasible : Feasible (Book.new t0 tick trading) ops

theorem ValidHistory.noFault {t0 tick : Nat} {trading : Bool} {ops : List Op} (h : ValidHistory t0 tick trading ops) :
    NoFault (Book.new t0 tick trading) ops :=
  noFault_of_feasible (inv_new t0 tick trading h.tick_pos) ops h.ops_valid h.feasible

theorem ValidHistory.inv {t0 tick : Nat} {trading : Bool} {ops : List Op} (h : ValidHistory t0 tick trading ops) :
    Inv ((Book.new t0 tick trading).run ops) :=
  inv_reachable t0 tick trading h.tick_pos ops h.ops_valid h.noFault

instance (b : Book) (op : Op) : Decidable (KnownId b op) := by
  cases op with
  | ev e => cases e <;> (unfold KnownId; infer_instance)
  | _ => unfold KnownId; infer_instance

instance (b : Book) : Decidable b.Bounded := by unfold Book.Bounded; infer_instance

instance decFeasible : (b : Book) → (ops : List Op) → Decidable (Feasible b ops)
  | _, [] => isTrue trivial
  | b, op :: rest => by
    unfold Feasible
    have := decFeasible (b.step op).1 rest
    infer_instance

end Bourse
