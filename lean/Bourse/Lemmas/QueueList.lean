/-
The priority queue of a side, read as the plain list of ids in priority order: how `erase` and
`insert` (of a key with a fresh, larger stamp) act on that list.
-/
import Bourse.Lemmas.SMapLemmas

namespace Bourse
namespace SMap

/-- Erasing the key of the head entry removes exactly the head. -/
theorem erase_head {K V : Type} [KeyOrd K] [LawfulKeyOrd K] (k : K) (v : V) (tl : SMap K V) :
    erase k ((k, v) :: tl) = tl := by
  have h : KeyOrd.lt k k = false := LawfulKeyOrd.irrefl k
  simp [erase, h]

/-- On the id list, erasing a present key is erasing its id (ids are pairwise distinct). -/
theorem map_snd_erase (l : SMap (Nat × Nat) Nat) (k : Nat × Nat) (id : Nat) (hs : Sorted l) (hm : (k, id) ∈ l)
    (hnd : (l.map (·.2)).Nodup) : (erase k l).map (·.2) = (l.map (·.2)).erase id := by
  induction l with
  | nil => cases hm
  | cons hd tl ih =>
    obtain ⟨kh, vh⟩ := hd
    have hs' := sorted_cons.mp hs
    simp only [List.map_cons, List.nodup_cons] at hnd
    rcases List.mem_cons.mp hm with heq | hm'
    · injection heq with h1 h2; subst h1 h2
      simp [erase_head]
    · have hlt : KeyOrd.lt kh k = true := hs'.1 (k, id) hm'
      have hne : vh ≠ id := by
        intro hc; subst hc
        exact hnd.1 (List.mem_map.mpr ⟨(k, vh), hm', rfl⟩)
      simp only [erase, lt_asymm hlt, hlt, Bool.false_eq_true, if_false, if_true, List.map_cons]
      rw [List.erase_cons_tail (by simpa using hne)]
      rw [ih hs'.2 hm' hnd.2]

/-- Inserting a key `(pk, st)` whose stamp exceeds every stamp in the queue puts the entry behind
every entry with price key `≤ pk` and ahead of the rest. -/
theorem insert_back (l : SMap (Nat × Nat) Nat) (pk st id : Nat) (hst : ∀ e ∈ l, e.1.2 < st) :
    insert (pk, st) id l =
      l.takeWhile (fun e => decide (e.1.1 ≤ pk)) ++ ((pk, st), id) :: l.dropWhile (fun e => decide (e.1.1 ≤ pk)) := by
  induction l with
  | nil => rfl
  | cons hd tl ih =>
    obtain ⟨⟨pk', st'⟩, v⟩ := hd
    have hlt := hst ((pk', st'), v) List.mem_cons_self
    simp only at hlt
    have ih' := ih (fun e he => hst e (List.mem_cons_of_mem _ he))
    simp only [insert, KeyOrd.lt, List.takeWhile_cons, List.dropWhile_cons]
    by_cases h1 : pk < pk'
    · have : ¬ pk' ≤ pk := by omega
      simp [h1, this]
    · by_cases h2 : pk' < pk
      · have h3 : pk' ≤ pk := by omega
        have h4 : ¬ (pk = pk') := by omega
        simp [h1, h2, h3, h4, ih']
      · have h3 : pk = pk' := by omega
        subst h3
        have h5 : ¬ st < st' := by omega
        simp [h5, hlt, ih']

end SMap
end Bourse
