/-
The reference engine's match loop in closed form: what an aggressor executes is the *greedy
allocation* of its volume over the admissible resting orders in queue order. Nothing here looks at
how `Ref.matchQ` recurses; the statements are about its result only.
-/
import Bourse.Spec.Ref

namespace Bourse
namespace Ref

/-- The record at index `j` (a default record if there is none; every use is guarded by validity). -/
def orderAt (os : List Order) (j : Nat) : Order := (os[j]?).getD default

def volOf (os : List Order) (j : Nat) : Nat := (orderAt os j).vol

/-- Greedy allocation of `V` units over resting volumes taken in priority order: each resting order
gives the smaller of what is asked for and what it has, and the rest is asked of the next one. -/
def alloc : Nat → List Nat → List Nat
  | _, [] => []
  | V, v :: vs => if V = 0 then [] else min V v :: alloc (V - min V v) vs

/-- How many resting orders the allocation exhausts (they leave the queue). -/
def fullCount : Nat → List Nat → Nat
  | _, [] => 0
  | V, v :: vs => if V = 0 then 0 else if v ≤ V then 1 + fullCount (V - v) vs else 0

/-- A resting record after giving up `f` units at time `t`: Filled (with that end time) once empty. -/
def filledBy (t : Nat) (o : Order) (f : Nat) : Order :=
  if o.vol - f = 0 then { o with vol := o.vol - f, status := .filled, endt := t } else { o with vol := o.vol - f }

/-- The trade record of `f` units between aggressor `aggId` and the resting record `pass`. -/
def mkTrade (t : Nat) (pass : Order) (aggId f : Nat) : Trade :=
  { t := t, side := pass.side, price := pass.price, vol := f, active := aggId, passive := pass.id }

theorem alloc_zero (vs : List Nat) : alloc 0 vs = [] := by
  cases vs <;> simp [alloc]

theorem fullCount_zero (vs : List Nat) : fullCount 0 vs = 0 := by
  cases vs <;> simp [fullCount]

/-- **The allocation hands out exactly `min V (Σ volumes)`.** -/
theorem alloc_sum (V : Nat) (vs : List Nat) : (alloc V vs).sum = min V vs.sum := by
  induction vs generalizing V with
  | nil => simp [alloc]
  | cons v vs ih =>
    unfold alloc
    split
    · subst_vars; simp
    · simp only [List.sum_cons, ih]
      omega

theorem alloc_length_le (V : Nat) (vs : List Nat) : (alloc V vs).length ≤ vs.length := by
  induction vs generalizing V with
  | nil => simp [alloc]
  | cons v vs ih =>
    unfold alloc
    split
    · simp
    · simp only [List.length_cons]; have := ih (V - min V v); omega

/-- Every fill is at most what the resting order holds, and every resting order before the last one
touched is emptied. -/
theorem alloc_le (V : Nat) (vs : List Nat) : ∀ i (h : i < (alloc V vs).length) (h' : i < vs.length),
    (alloc V vs)[i] ≤ vs[i] := by
  induction vs generalizing V with
  | nil => intro i h; simp [alloc] at h
  | cons v vs ih =>
    intro i h h'
    unfold alloc at h ⊢
    split
    · rename_i hV; simp [hV] at h
    · rename_i hV
      simp only [hV, ↓reduceIte] at h
      cases i with
      | zero => simp; omega
      | succ i =>
        simp only [List.getElem_cons_succ]
        exact ih _ i (by simpa using h) (by simpa using h')

theorem alloc_full_before_last (V : Nat) (vs : List Nat) : ∀ i (h : i + 1 < (alloc V vs).length) (h' : i < vs.length),
    (alloc V vs)[i]'(by omega) = vs[i] := by
  induction vs generalizing V with
  | nil => intro i h; simp [alloc] at h
  | cons v vs ih =>
    intro i h h'
    unfold alloc at h ⊢
    split
    · rename_i hV; simp [hV] at h
    · rename_i hV
      simp only [hV, ↓reduceIte, List.length_cons] at h
      cases i with
      | zero =>
        simp only [List.getElem_cons_zero]
        -- a second fill exists, so something was left to ask for: the first order was emptied
        by_cases hle : v ≤ V
        · omega
        · have : V - min V v = 0 := by omega
          rw [this, alloc_zero] at h
          simp at h
      | succ i =>
        simp only [List.getElem_cons_succ]
        exact ih _ i (by omega) (by simpa using h')

theorem priceOf_set_same (os : List Order) (j : Nat) (o o' : Order) (h : os[j]? = some o) (hp : o'.price = o.price) (i : Nat) :
    priceOf (os.set j o') i = priceOf os i := by
  unfold priceOf
  by_cases hij : i = j
  · subst hij
    obtain ⟨hl, _⟩ := List.getElem?_eq_some_iff.mp h
    rw [List.getElem?_set_self hl, h]
    simp [hp]
  · rw [List.getElem?_set_ne (Ne.symm hij)]

theorem orderAt_set_ne (os : List Order) (j i : Nat) (o' : Order) (h : i ≠ j) : orderAt (os.set j o') i = orderAt os i := by
  simp [orderAt, List.getElem?_set_ne (Ne.symm h)]

theorem volOf_set_ne (os : List Order) (j i : Nat) (o' : Order) (h : i ≠ j) : volOf (os.set j o') i = volOf os i := by
  simp [volOf, orderAt_set_ne os j i o' h]

theorem mem_takeWhile_mem {α} (p : α → Bool) : ∀ (l : List α) (x : α), x ∈ l.takeWhile p → x ∈ l
  | [], _, h => by simp at h
  | a :: l, x, h => by
    simp only [List.takeWhile_cons] at h
    split at h
    · rcases List.mem_cons.mp h with h | h
      · exact List.mem_cons.mpr (Or.inl h)
      · exact List.mem_cons.mpr (Or.inr (mem_takeWhile_mem p l x h))
    · simp at h

theorem mem_zip_fst {α β} : ∀ (l : List α) (m : List β) (x : α × β), x ∈ l.zip m → x.1 ∈ l
  | [], _, _, h => by simp at h
  | _ :: _, [], _, h => by simp at h
  | a :: l, b :: m, x, h => by
    simp only [List.zip_cons_cons, List.mem_cons] at h ⊢
    rcases h with h | h
    · left; rw [h]
    · right; exact mem_zip_fst l m x h

/-- The aggressor's record after giving `f` units. -/
def aggAfter (t : Nat) (agg : Order) (f : Nat) : Order :=
  if agg.vol - f = 0 then { agg with vol := agg.vol - f, status := .filled, endt := t } else { agg with vol := agg.vol - f }

/-- One iteration that empties the resting order `pass` at index `j`. -/
def stFull (t : Nat) (st : MatchSt) (j : Nat) (pass : Order) : MatchSt :=
  { orders := st.orders.set j (filledBy t pass pass.vol), trades := st.trades ++ [mkTrade t pass st.agg.id pass.vol],
    tradeVol := st.tradeVol + pass.vol, agg := aggAfter t st.agg pass.vol }

/-- One iteration that exhausts the aggressor on the resting order `pass` at index `j`. -/
def stPart (t : Nat) (st : MatchSt) (j : Nat) (pass : Order) : MatchSt :=
  { orders := st.orders.set j (filledBy t pass st.agg.vol), trades := st.trades ++ [mkTrade t pass st.agg.id st.agg.vol],
    tradeVol := st.tradeVol + st.agg.vol, agg := aggAfter t st.agg st.agg.vol }

theorem matchQ_cons_full (t j : Nat) (q : List Nat) (st : MatchSt) (pass : Order) (hget : st.orders[j]? = some pass)
    (hV : 0 < st.agg.vol) (had : admits st.agg.side st.agg.price pass.price = true) (hle : pass.vol ≤ st.agg.vol) :
    matchQ t (j :: q) st = matchQ t q (stFull t st j pass) := by
  have hmin : min st.agg.vol pass.vol = pass.vol := Nat.min_eq_right hle
  conv => lhs; unfold matchQ
  simp only [hget, hV, decide_true, had, Bool.and_self, ↓reduceIte, hmin, Nat.sub_self]
  simp [stFull, filledBy, mkTrade, aggAfter]

theorem matchQ_cons_part (t j : Nat) (q : List Nat) (st : MatchSt) (pass : Order) (hget : st.orders[j]? = some pass)
    (hV : 0 < st.agg.vol) (had : admits st.agg.side st.agg.price pass.price = true) (hlt : st.agg.vol < pass.vol) :
    matchQ t (j :: q) st = (j :: q, stPart t st j pass) := by
  have hmin : min st.agg.vol pass.vol = st.agg.vol := Nat.min_eq_left (Nat.le_of_lt hlt)
  have hne0 : pass.vol - st.agg.vol ≠ 0 := by omega
  conv => lhs; unfold matchQ
  simp only [hget, hV, decide_true, had, Bool.and_self, ↓reduceIte, hmin, hne0]
  simp [stPart, filledBy, mkTrade, aggAfter, hne0]

theorem matchQ_cons_stop (t j : Nat) (q : List Nat) (st : MatchSt) (pass : Order) (hget : st.orders[j]? = some pass)
    (h : st.agg.vol = 0 ∨ admits st.agg.side st.agg.price pass.price = false) :
    matchQ t (j :: q) st = (j :: q, st) := by
  conv => lhs; unfold matchQ
  rcases h with h | h <;> simp [hget, h]

theorem aggAfter_same (t : Nat) (agg : Order) (f : Nat) :
    (aggAfter t agg f).side = agg.side ∧ (aggAfter t agg f).price = agg.price ∧ (aggAfter t agg f).id = agg.id ∧
    (aggAfter t agg f).vol = agg.vol - f ∧ (aggAfter t agg f).trader = agg.trader ∧ (aggAfter t agg f).svol = agg.svol ∧
    (aggAfter t agg f).arr = agg.arr := by
  unfold aggAfter; split <;> simp

/-- What the loop leaves behind, in closed form. -/
structure Outcome (t : Nat) (q : List Nat) (st : MatchSt) (r : List Nat × MatchSt) : Prop where
  trades : r.2.trades = st.trades ++
    ((q.takeWhile fun j => admits st.agg.side st.agg.price (priceOf st.orders j)).zip
      (alloc st.agg.vol ((q.takeWhile fun j => admits st.agg.side st.agg.price (priceOf st.orders j)).map (volOf st.orders)))).map
      (fun x => mkTrade t (orderAt st.orders x.1) st.agg.id x.2)
  tradeVol : r.2.tradeVol = st.tradeVol +
    (alloc st.agg.vol ((q.takeWhile fun j => admits st.agg.side st.agg.price (priceOf st.orders j)).map (volOf st.orders))).sum
  aggVol : r.2.agg.vol = st.agg.vol -
    (alloc st.agg.vol ((q.takeWhile fun j => admits st.agg.side st.agg.price (priceOf st.orders j)).map (volOf st.orders))).sum
  aggSame : r.2.agg.side = st.agg.side ∧ r.2.agg.price = st.agg.price ∧ r.2.agg.id = st.agg.id ∧
            r.2.agg.trader = st.agg.trader ∧ r.2.agg.svol = st.agg.svol ∧ r.2.agg.arr = st.agg.arr
  orders : r.2.orders =
    ((q.takeWhile fun j => admits st.agg.side st.agg.price (priceOf st.orders j)).zip
      (alloc st.agg.vol ((q.takeWhile fun j => admits st.agg.side st.agg.price (priceOf st.orders j)).map (volOf st.orders)))).foldl
      (fun os x => os.set x.1 (filledBy t (orderAt os x.1) x.2)) st.orders
  queue : r.1 = q.drop
    (fullCount st.agg.vol ((q.takeWhile fun j => admits st.agg.side st.agg.price (priceOf st.orders j)).map (volOf st.orders)))

theorem map_volOf_congr (os os' : List Order) (l : List Nat) (h : ∀ i ∈ l, volOf os' i = volOf os i) :
    l.map (volOf os') = l.map (volOf os) := List.map_congr_left h

/-- **Closed form of the match loop.** For a queue of distinct, existing ids: the trades are the
greedy allocation of the aggressor's volume over the longest admissible prefix of the queue, one
trade per allocation, at each resting order's own price; emptied orders leave the queue. -/
theorem matchQ_outcome (t : Nat) (q : List Nat) (st : MatchSt) (hnd : q.Nodup) (hv : ∀ j ∈ q, j < st.orders.length) :
    Outcome t q st (matchQ t q st) := by
  induction q generalizing st with
  | nil => constructor <;> simp [matchQ, alloc, fullCount]
  | cons j q ih =>
    have hj : j < st.orders.length := hv j (List.mem_cons_self ..)
    have hget : st.orders[j]? = some st.orders[j] := List.getElem?_eq_getElem hj
    have hprice : priceOf st.orders j = st.orders[j].price := by simp [priceOf, hget]
    have hvol : volOf st.orders j = st.orders[j].vol := by simp [volOf, orderAt, hget]
    have hat : orderAt st.orders j = st.orders[j] := by simp [orderAt, hget]
    obtain ⟨hjq, hndq⟩ := List.nodup_cons.mp hnd
    by_cases hV : st.agg.vol = 0
    · -- nothing to ask for
      rw [matchQ_cons_stop t j q st _ hget (Or.inl hV)]
      constructor <;> simp [hV, alloc_zero, fullCount_zero]
    · by_cases had : admits st.agg.side st.agg.price st.orders[j].price = true
      · -- the head is admissible and something is asked for
        have hVpos : 0 < st.agg.vol := Nat.pos_of_ne_zero hV
        have htw : (List.takeWhile (fun j => admits st.agg.side st.agg.price (priceOf st.orders j)) (j :: q)) =
            j :: List.takeWhile (fun j => admits st.agg.side st.agg.price (priceOf st.orders j)) q := by
          simp [hprice, had]
        by_cases hle : st.orders[j].vol ≤ st.agg.vol
        · -- the resting order is emptied: the loop goes on
          have hmin : min st.agg.vol st.orders[j].vol = st.orders[j].vol := Nat.min_eq_right hle
          have hagg' := aggAfter_same t st.agg st.orders[j].vol
          have hv' : ∀ i ∈ q, i < (stFull t st j st.orders[j]).orders.length := by
            intro i hi; simp only [stFull, List.length_set]; exact hv i (List.mem_cons_of_mem _ hi)
          have IH := ih (stFull t st j st.orders[j]) hndq hv'
          -- the predicate and the volumes seen by the recursive call are those of the original state
          have hpr : ∀ i, priceOf (stFull t st j st.orders[j]).orders i = priceOf st.orders i := fun i =>
            priceOf_set_same st.orders j st.orders[j] _ hget (by unfold filledBy; split <;> rfl) i
          have hpred : (fun i => admits (stFull t st j st.orders[j]).agg.side (stFull t st j st.orders[j]).agg.price
                (priceOf (stFull t st j st.orders[j]).orders i)) =
              (fun i => admits st.agg.side st.agg.price (priceOf st.orders i)) := by
            funext i; rw [hpr i]; simp only [stFull, hagg'.1, hagg'.2.1]
          have hne : ∀ i ∈ q.takeWhile (fun i => admits st.agg.side st.agg.price (priceOf st.orders i)), i ≠ j := by
            intro i hi hij; subst hij; exact hjq (mem_takeWhile_mem _ _ _ hi)
          have hvols : (q.takeWhile (fun i => admits st.agg.side st.agg.price (priceOf st.orders i))).map
                (volOf (stFull t st j st.orders[j]).orders) =
              (q.takeWhile (fun i => admits st.agg.side st.agg.price (priceOf st.orders i))).map (volOf st.orders) :=
            map_volOf_congr _ _ _ (fun i hi => volOf_set_ne st.orders j i _ (hne i hi))
          rw [matchQ_cons_full t j q st _ hget hVpos had hle]
          have T := IH.trades; have TV := IH.tradeVol; have AV := IH.aggVol; have AS := IH.aggSame
          have OS := IH.orders; have Q := IH.queue
          rw [hpred, hvols] at T TV AV OS Q
          have hst'agg : (stFull t st j st.orders[j]).agg.vol = st.agg.vol - st.orders[j].vol := hagg'.2.2.2.1
          rw [hst'agg] at T TV AV OS Q
          constructor
          · rw [T, htw]
            simp only [List.map_cons, hvol, alloc, hV, ↓reduceIte, hmin, List.zip_cons_cons, hat, stFull, List.append_assoc,
              List.singleton_append, List.append_cancel_left_eq, List.cons.injEq, true_and, hagg'.2.2.1]
            apply List.map_congr_left
            intro x hx
            have : x.1 ≠ j := hne _ (mem_zip_fst _ _ _ hx)
            rw [orderAt_set_ne _ _ _ _ this]
          · rw [TV, htw]
            simp only [List.map_cons, hvol, alloc, hV, ↓reduceIte, hmin, List.sum_cons, stFull]
            omega
          · rw [AV, htw]
            simp only [List.map_cons, hvol, alloc, hV, ↓reduceIte, hmin, List.sum_cons]
            omega
          · obtain ⟨a1, a2, a3, a4, a5, a6⟩ := AS
            exact ⟨a1.trans hagg'.1, a2.trans hagg'.2.1, a3.trans hagg'.2.2.1, a4.trans hagg'.2.2.2.2.1,
              a5.trans hagg'.2.2.2.2.2.1, a6.trans hagg'.2.2.2.2.2.2⟩
          · rw [OS, htw]
            simp only [List.map_cons, hvol, alloc, hV, ↓reduceIte, hmin, List.zip_cons_cons, List.foldl_cons, hat, stFull]
          · rw [Q, htw]
            simp only [List.map_cons, hvol, fullCount, hV, ↓reduceIte, hle]
            rw [Nat.add_comm, List.drop_succ_cons]
        · -- the aggressor is exhausted on this resting order: the loop stops
          have hlt : st.agg.vol < st.orders[j].vol := Nat.lt_of_not_le hle
          have hmin : min st.agg.vol st.orders[j].vol = st.agg.vol := Nat.min_eq_left (Nat.le_of_lt hlt)
          have hagg' := aggAfter_same t st.agg st.agg.vol
          rw [matchQ_cons_part t j q st _ hget hVpos had hlt]
          constructor
          · simp [htw, hvol, alloc, hV, hmin, alloc_zero, hat, stPart]
          · simp [htw, hvol, alloc, hV, hmin, alloc_zero, stPart]
          · simp [htw, hvol, alloc, hV, hmin, alloc_zero, stPart, hagg'.2.2.2.1]
          · simp only [stPart]
            exact ⟨hagg'.1, hagg'.2.1, hagg'.2.2.1, hagg'.2.2.2.2.1, hagg'.2.2.2.2.2.1, hagg'.2.2.2.2.2.2⟩
          · simp [htw, hvol, alloc, hV, hmin, alloc_zero, hat, stPart]
          · simp [htw, hvol, fullCount, hV, hle]
      · -- the head does not satisfy the limit
        have had' : admits st.agg.side st.agg.price st.orders[j].price = false := by
          cases h : admits st.agg.side st.agg.price st.orders[j].price <;> simp_all
        rw [matchQ_cons_stop t j q st _ hget (Or.inr had')]
        have htw : (List.takeWhile (fun j => admits st.agg.side st.agg.price (priceOf st.orders j)) (j :: q)) = [] := by
          simp [hprice, had']
        constructor <;> simp [htw, alloc, fullCount]

/-- **The loop stops only for the two reasons C01 names**: the aggressor is exhausted, or no resting
order (the queue is empty) or not the next one satisfies its limit. -/
theorem matchQ_stops (t : Nat) (q : List Nat) (st : MatchSt) (hv : ∀ j ∈ q, j < st.orders.length) :
    (matchQ t q st).2.agg.vol = 0 ∨ (matchQ t q st).1 = [] ∨
    ∃ j, (matchQ t q st).1.head? = some j ∧
      admits (matchQ t q st).2.agg.side (matchQ t q st).2.agg.price (priceOf (matchQ t q st).2.orders j) = false := by
  induction q generalizing st with
  | nil => right; left; simp [matchQ]
  | cons j q ih =>
    have hj : j < st.orders.length := hv j (List.mem_cons_self ..)
    have hget : st.orders[j]? = some st.orders[j] := List.getElem?_eq_getElem hj
    by_cases hV : st.agg.vol = 0
    · rw [matchQ_cons_stop t j q st _ hget (Or.inl hV)]; left; exact hV
    · have hVpos : 0 < st.agg.vol := Nat.pos_of_ne_zero hV
      by_cases had : admits st.agg.side st.agg.price st.orders[j].price = true
      · by_cases hle : st.orders[j].vol ≤ st.agg.vol
        · rw [matchQ_cons_full t j q st _ hget hVpos had hle]
          apply ih
          intro i hi; simp only [stFull, List.length_set]; exact hv i (List.mem_cons_of_mem _ hi)
        · rw [matchQ_cons_part t j q st _ hget hVpos had (Nat.lt_of_not_le hle)]
          left
          simp [stPart, (aggAfter_same t st.agg st.agg.vol).2.2.2.1]
      · have had' : admits st.agg.side st.agg.price st.orders[j].price = false := by
          cases h : admits st.agg.side st.agg.price st.orders[j].price <;> simp_all
        rw [matchQ_cons_stop t j q st _ hget (Or.inr had')]
        right; right
        exact ⟨j, rfl, by simpa [priceOf, hget] using had'⟩

/-- The aggressor's status and end time when the loop returns (it arrived with volume left): Filled,
ended now, exactly when nothing is left of it; otherwise as it arrived. -/
theorem matchQ_agg_status (t : Nat) (q : List Nat) (st : MatchSt) (hv : ∀ j ∈ q, j < st.orders.length) (hV : 0 < st.agg.vol) :
    (matchQ t q st).2.agg.status = (if (matchQ t q st).2.agg.vol = 0 then .filled else st.agg.status) ∧
    (matchQ t q st).2.agg.endt = (if (matchQ t q st).2.agg.vol = 0 then t else st.agg.endt) := by
  induction q generalizing st with
  | nil =>
    have : st.agg.vol ≠ 0 := by omega
    simp [matchQ, this]
  | cons j q ih =>
    have hj : j < st.orders.length := hv j (List.mem_cons_self ..)
    have hget : st.orders[j]? = some st.orders[j] := List.getElem?_eq_getElem hj
    by_cases had : admits st.agg.side st.agg.price st.orders[j].price = true
    · by_cases hle : st.orders[j].vol ≤ st.agg.vol
      · rw [matchQ_cons_full t j q st _ hget hV had hle]
        have hv' : ∀ i ∈ q, i < (stFull t st j st.orders[j]).orders.length := by
          intro i hi; simp only [stFull, List.length_set]; exact hv i (List.mem_cons_of_mem _ hi)
        by_cases hrem : st.agg.vol - st.orders[j].vol = 0
        · -- exhausted exactly: the next call stops at once
          have hz : (stFull t st j st.orders[j]).agg.vol = 0 := by
            simp [stFull, (aggAfter_same t st.agg st.orders[j].vol).2.2.2.1, hrem]
          have hstop : matchQ t q (stFull t st j st.orders[j]) = (q, stFull t st j st.orders[j]) := by
            cases q with
            | nil => simp [matchQ]
            | cons i q' =>
              have hi : i < (stFull t st j st.orders[j]).orders.length := hv' i (List.mem_cons_self ..)
              exact matchQ_cons_stop t i q' _ _ (List.getElem?_eq_getElem hi) (Or.inl hz)
          rw [hstop]
          simp only [hz, ↓reduceIte]
          simp [stFull, aggAfter, hrem]
        · have hpos : 0 < (stFull t st j st.orders[j]).agg.vol := by
            simp only [stFull, (aggAfter_same t st.agg st.orders[j].vol).2.2.2.1]; omega
          have IH := ih (stFull t st j st.orders[j]) hv' hpos
          have hs : (stFull t st j st.orders[j]).agg.status = st.agg.status ∧ (stFull t st j st.orders[j]).agg.endt = st.agg.endt := by
            simp [stFull, aggAfter, hrem]
          rw [hs.1, hs.2] at IH
          exact IH
      · rw [matchQ_cons_part t j q st _ hget hV had (Nat.lt_of_not_le hle)]
        simp [stPart, aggAfter]
    · have had' : admits st.agg.side st.agg.price st.orders[j].price = false := by
        cases h : admits st.agg.side st.agg.price st.orders[j].price <;> simp_all
      rw [matchQ_cons_stop t j q st _ hget (Or.inr had')]
      have : st.agg.vol ≠ 0 := by omega
      simp [this]

/-- Matching never changes a price: the table after the loop prices every id as before. -/
theorem fold_priceOf (t : Nat) (l : List (Nat × Nat)) (os : List Order) (i : Nat) :
    priceOf (l.foldl (fun os x => os.set x.1 (filledBy t (orderAt os x.1) x.2)) os) i = priceOf os i := by
  induction l generalizing os with
  | nil => rfl
  | cons x l ih =>
    simp only [List.foldl_cons]
    rw [ih]
    by_cases hx : x.1 < os.length
    · have hget : os[x.1]? = some os[x.1] := List.getElem?_eq_getElem hx
      exact priceOf_set_same os x.1 os[x.1] _ hget (by simp only [orderAt, hget, Option.getD_some]; unfold filledBy; split <;> rfl) i
    · rw [List.set_eq_of_length_le (Nat.le_of_not_lt hx)]

/-- On a queue sorted by price priority the admissible orders form a prefix: the longest admissible
prefix is *every* admissible resting order (nothing admissible is skipped). -/
theorem admissible_prefix_is_all (os : List Order) (sd : Side) (limit : Nat) (q : List Nat)
    (hs : q.Pairwise (fun i j => ahead sd.opp (priceOf os i) (priceOf os j) = true)) :
    q.takeWhile (fun j => admits sd limit (priceOf os j)) = q.filter (fun j => admits sd limit (priceOf os j)) := by
  induction q with
  | nil => rfl
  | cons j q ih =>
    obtain ⟨hj, hq⟩ := List.pairwise_cons.mp hs
    simp only [List.takeWhile_cons, List.filter_cons]
    split
    · rw [ih hq]
    · rename_i hna
      -- the head is not admissible; everything behind it is priced no better
      symm
      apply List.filter_eq_nil_iff.mpr
      intro i hi
      have h1 := hj i hi
      cases sd
      · simp only [admits, ahead, Side.opp, decide_eq_true_eq, Bool.not_eq_true, decide_eq_false_iff_not] at h1 hna ⊢
        omega
      · simp only [admits, ahead, Side.opp, decide_eq_true_eq, Bool.not_eq_true, decide_eq_false_iff_not] at h1 hna ⊢
        omega

end Ref
end Bourse
