/-
Counting consequences of "all n! orders, each once": among the permutations of a duplicate-free
list, every element stands at every position in the same number of them, `(n-1)!`, and for any two
distinct elements exactly half, `n!/2`, have the first before the second. Proved by the relabelling
symmetry: exchanging two values is a bijection on the set of permutations.
-/
import Mathlib.Data.List.Permutation
import Mathlib.Data.Nat.Factorial.Basic
import Mathlib.Tactic.Ring
import Mathlib.Tactic.Linarith

namespace Bourse
namespace ShuffleCount

variable {α : Type} [DecidableEq α]

/-- Exchange the values `x` and `y`. -/
def sw (x y : α) (z : α) : α := if z = x then y else if z = y then x else z

theorem sw_invol (x y z : α) : sw x y (sw x y z) = z := by
  unfold sw
  by_cases h1 : z = x
  · subst h1
    by_cases h2 : y = z
    · subst h2; simp
    · simp [h2]
  · by_cases h2 : z = y
    · subst h2; simp [h1]
    · simp [h1, h2]

theorem sw_inj (x y : α) : Function.Injective (sw x y) := fun a b h => by
  have := congrArg (sw x y) h
  rwa [sw_invol, sw_invol] at this

theorem sw_left (x y : α) : sw x y x = y := by simp [sw]
theorem sw_right (x y : α) : sw x y y = x := by
  unfold sw; by_cases h : y = x <;> simp [h]

/-- Relabelling a duplicate-free list that contains both values permutes it. -/
theorem map_sw_perm (l : List α) (hn : l.Nodup) (x y : α) (hx : x ∈ l) (hy : y ∈ l) : (l.map (sw x y)).Perm l := by
  have hnod : (l.map (sw x y)).Nodup := hn.map (sw_inj x y)
  apply (List.subperm_of_subset hnod ?_).perm_of_length_le (by simp)
  intro z hz
  obtain ⟨w, hw, rfl⟩ := List.mem_map.mp hz
  unfold sw
  by_cases h1 : w = x
  · simp [h1, hy]
  · by_cases h2 : w = y
    · subst h2
      simp only [h1, if_false, if_true]
      exact hx
    · simp [h1, h2, hw]

theorem sum_indicator (l : List α) (hn : l.Nodup) (z : α) :
    (l.map fun x => if (some z == some x) = true then 1 else 0).sum = l.count z := by
  induction l with
  | nil => simp
  | cons a t iht =>
    simp only [List.map_cons, List.sum_cons, List.count_cons]
    have := iht (List.nodup_cons.mp hn).2
    by_cases h : z = a
    · simp [h] at this ⊢; omega
    · have h' : ¬ (a = z) := fun hc => h hc.symm
      simp [h, h'] at this ⊢; omega

theorem sum_map_add' {β} (l : List β) (f g : β → Nat) :
    (l.map fun x => f x + g x).sum = (l.map f).sum + (l.map g).sum := by
  induction l with
  | nil => simp
  | cons a t ih => simp only [List.map_cons, List.sum_cons]; rw [ih]; omega

theorem idxOf_map_inj {β} [DecidableEq β] (f : α → β) (hf : Function.Injective f) (a : α) (l : List α) :
    (l.map f).idxOf (f a) = l.idxOf a := by
  induction l with
  | nil => simp
  | cons b t ih =>
    simp only [List.map_cons, List.idxOf_cons]
    by_cases h : b = a
    · subst h; simp
    · have : ¬ (f b = f a) := fun hc => h (hf hc)
      have e1 : (f b == f a) = false := by simpa using this
      have e2 : (b == a) = false := by simpa using h
      rw [e1, e2, ih]

/-- **Relabelling symmetry**: counting the permutations of `l` that satisfy `P` is the same as
counting those whose relabelling satisfies `P`. -/
theorem countP_relabel (l : List α) (hn : l.Nodup) (x y : α) (hx : x ∈ l) (hy : y ∈ l) (P : List α → Bool) :
    l.permutations.countP P = l.permutations.countP (fun p => P (p.map (sw x y))) := by
  have h1 : (l.permutations.map (List.map (sw x y))).Perm l.permutations := by
    rw [List.map_permutations]
    exact (map_sw_perm l hn x y hx hy).permutations
  rw [← h1.countP_eq P, List.countP_map]
  rfl

/-- The number of permutations of `l` with `x` at position `i` does not depend on `x ∈ l`. -/
theorem count_at_position_eq (l : List α) (hn : l.Nodup) (x y : α) (hx : x ∈ l) (hy : y ∈ l) (i : Nat) :
    l.permutations.countP (fun p => p[i]? == some y) = l.permutations.countP (fun p => p[i]? == some x) := by
  rw [countP_relabel l hn x y hx hy]
  congr 1
  funext p
  simp only [List.getElem?_map]
  cases h : p[i]? with
  | none => simp
  | some z =>
    simp only [Option.map_some, beq_iff_eq, Option.some.injEq]
    by_cases hz : z = x
    · subst hz; simp [sw_left]
    · have : sw x y z ≠ y := by
        intro hc
        have := congrArg (sw x y) hc
        rw [sw_invol, sw_right] at this
        exact hz this
      simp [this, hz]

/-- Every permutation of `l` has exactly one element of `l` at position `i < n`. -/
theorem sum_over_elements (l : List α) (hn : l.Nodup) (i : Nat) (hi : i < l.length) (L : List (List α))
    (hL : ∀ p ∈ L, p.Perm l) :
    (l.map fun x => L.countP (fun p => p[i]? == some x)).sum = L.length := by
  induction L with
  | nil => simp
  | cons p rest ih =>
    have hp := hL p List.mem_cons_self
    have ih' := ih (fun q hq => hL q (List.mem_cons_of_mem _ hq))
    simp only [List.countP_cons, List.length_cons]
    have hsplit : (l.map fun x => List.countP (fun p => p[i]? == some x) rest + if (p[i]? == some x) = true then 1 else 0).sum
        = (l.map fun x => List.countP (fun p => p[i]? == some x) rest).sum + (l.map fun x => if (p[i]? == some x) = true then 1 else 0).sum :=
      sum_map_add' l _ _
    rw [hsplit, ih']
    congr 1
    -- exactly one x in l equals p[i]
    have hlen : i < p.length := by rw [hp.length_eq]; exact hi
    have hmem : p[i] ∈ l := hp.subset (List.getElem_mem hlen)
    have : (l.map fun x => if (p[i]? == some x) = true then 1 else 0).sum = l.count p[i] := by
      rw [List.getElem?_eq_getElem hlen]
      exact sum_indicator l hn p[i]
    rw [this]
    exact List.count_eq_one_of_mem hn hmem

/-- **Every element is equally likely at every position**: of the `n!` permutations of a
duplicate-free list of length `n`, exactly `(n-1)!` have a given element `x` at a given position. -/
theorem count_at_position (l : List α) (hn : l.Nodup) (x : α) (hx : x ∈ l) (i : Nat) (hi : i < l.length) :
    l.permutations.countP (fun p => p[i]? == some x) = (l.length - 1).factorial := by
  have hsum := sum_over_elements l hn i hi l.permutations (fun p hp => List.mem_permutations.mp hp)
  rw [List.length_permutations] at hsum
  have hconst : ∀ y ∈ l, l.permutations.countP (fun p => p[i]? == some y) = l.permutations.countP (fun p => p[i]? == some x) :=
    fun y hy => count_at_position_eq l hn x y hx hy i
  have : (l.map fun y => l.permutations.countP (fun p => p[i]? == some y)).sum
      = l.length * l.permutations.countP (fun p => p[i]? == some x) := by
    rw [List.map_congr_left hconst]
    simp
  rw [this] at hsum
  have hpos : 0 < l.length := by omega
  have hfact : l.length.factorial = l.length * (l.length - 1).factorial := by
    obtain ⟨m, hm⟩ := Nat.exists_eq_succ_of_ne_zero (Nat.pos_iff_ne_zero.mp hpos)
    rw [hm, Nat.factorial_succ]; simp
  rw [hfact] at hsum
  exact Nat.eq_of_mul_eq_mul_left hpos hsum

/-- **Every relative order of two elements is equally likely**: the permutations with `x` before `y`
are exactly as many as those with `y` before `x`, and together they are all `n!`. -/
theorem count_before (l : List α) (hn : l.Nodup) (x y : α) (hx : x ∈ l) (hy : y ∈ l) (hxy : x ≠ y) :
    l.permutations.countP (fun p => decide (p.idxOf x < p.idxOf y)) =
      l.permutations.countP (fun p => decide (p.idxOf y < p.idxOf x)) ∧
    l.permutations.countP (fun p => decide (p.idxOf x < p.idxOf y)) +
      l.permutations.countP (fun p => decide (p.idxOf y < p.idxOf x)) = l.length.factorial := by
  constructor
  · rw [countP_relabel l hn x y hx hy]
    congr 1
    funext p
    have h1 : (p.map (sw x y)).idxOf x = p.idxOf y := by
      have := idxOf_map_inj (sw x y) (sw_inj x y) y p
      rwa [sw_right] at this
    have h2 : (p.map (sw x y)).idxOf y = p.idxOf x := by
      have := idxOf_map_inj (sw x y) (sw_inj x y) x p
      rwa [sw_left] at this
    rw [h1, h2]
  · rw [← List.length_permutations]
    have : ∀ p ∈ l.permutations, (decide (p.idxOf x < p.idxOf y) = true) ≠ (decide (p.idxOf y < p.idxOf x) = true) ∨ True := fun _ _ => Or.inr trivial
    -- each permutation satisfies exactly one of the two
    have hex : ∀ p ∈ l.permutations, (decide (p.idxOf y < p.idxOf x)) = !(decide (p.idxOf x < p.idxOf y)) := by
      intro p hp
      have hp' := List.mem_permutations.mp hp
      have hxp : x ∈ p := hp'.mem_iff.mpr hx
      have hyp : y ∈ p := hp'.mem_iff.mpr hy
      have hne : p.idxOf x ≠ p.idxOf y := by
        intro hc
        have h1 := List.getElem_idxOf (List.idxOf_lt_length_iff.mpr hxp)
        have h2 := List.getElem_idxOf (List.idxOf_lt_length_iff.mpr hyp)
        simp only [hc] at h1
        exact hxy (h1.symm.trans h2)
      by_cases hlt : p.idxOf x < p.idxOf y
      · simp [hlt]; omega
      · simp [hlt]; omega
    rw [List.countP_congr (l := l.permutations) (p := fun p => decide (p.idxOf y < p.idxOf x))
        (q := fun p => !(decide (p.idxOf x < p.idxOf y))) (by intro p hp; simp [hex p hp])]
    have := (List.length_eq_countP_add_countP (fun p => decide (p.idxOf x < p.idxOf y)) (l := l.permutations)).symm
    rw [← this]
    congr 1
    apply List.countP_congr
    intro p _
    simp

end ShuffleCount
end Bourse
