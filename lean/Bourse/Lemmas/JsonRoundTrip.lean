/-
Reading back what was written: `parse (render j) = some j` for both writers (C07, first sentence,
at the level of the JSON text).

Both writers are instances of one layout-parametric writer `renderW`; the round trip is proved once
for every layout that only inserts whitespace.
-/
import Bourse.Lemmas.JsonParse

namespace Bourse
namespace Json

/-! ### One writer, two layouts -/

structure Layout where
  /-- after the opening bracket of a non-empty container at nesting `lvl` -/
  opn : Nat → List Char
  /-- after a comma inside a container at nesting `lvl` -/
  sep : Nat → List Char
  /-- before the closing bracket of a non-empty container at nesting `lvl` -/
  cls : Nat → List Char
  /-- after the colon of a member -/
  col : List Char

mutual
def renderW (L : Layout) (lvl : Nat) : J → List Char
  | .num n => natDigits n
  | .str s => quote s
  | .bool true => lit "true"
  | .bool false => lit "false"
  | .arr [] => lit "[]"
  | .arr (x :: r) => '[' :: L.opn lvl ++ renderElemsW L lvl (x :: r) ++ L.cls lvl ++ [']']
  | .obj [] => lit "{}"
  | .obj (x :: r) => '{' :: L.opn lvl ++ renderMembersW L lvl (x :: r) ++ L.cls lvl ++ ['}']
def renderElemsW (L : Layout) (lvl : Nat) : List J → List Char
  | [] => []
  | [x] => renderW L (lvl + 1) x
  | x :: y :: r => renderW L (lvl + 1) x ++ ',' :: L.sep lvl ++ renderElemsW L lvl (y :: r)
def renderMembersW (L : Layout) (lvl : Nat) : List (List Char × J) → List Char
  | [] => []
  | [(k, v)] => quote k ++ ':' :: L.col ++ renderW L (lvl + 1) v
  | (k, v) :: y :: r =>
    quote k ++ ':' :: L.col ++ renderW L (lvl + 1) v ++ ',' :: L.sep lvl ++ renderMembersW L lvl (y :: r)
end

def compactL : Layout := { opn := fun _ => [], sep := fun _ => [], cls := fun _ => [], col := [] }

def prettyL : Layout :=
  { opn := fun lvl => '\n' :: indent (lvl + 1), sep := fun lvl => '\n' :: indent (lvl + 1),
    cls := fun lvl => '\n' :: indent lvl, col := [' '] }

mutual
theorem renderCompact_eq : (lvl : Nat) → (j : J) → renderCompact j = renderW compactL lvl j
  | _, .num _ => by rw [renderCompact, renderW]
  | _, .str _ => by rw [renderCompact, renderW]
  | _, .bool true => by rw [renderCompact, renderW]
  | _, .bool false => by rw [renderCompact, renderW]
  | _, .arr [] => by rw [renderCompact, renderW, renderElemsC]; decide
  | lvl, .arr (x :: r) => by
    rw [renderCompact, renderW, renderElemsC_eq lvl (x :: r)]; simp [compactL]
  | _, .obj [] => by rw [renderCompact, renderW, renderMembersC]; decide
  | lvl, .obj (x :: r) => by
    rw [renderCompact, renderW, renderMembersC_eq lvl (x :: r)]; simp [compactL]
theorem renderElemsC_eq : (lvl : Nat) → (l : List J) → renderElemsC l = renderElemsW compactL lvl l
  | _, [] => by rw [renderElemsC, renderElemsW]
  | lvl, [x] => by rw [renderElemsC, renderElemsW, renderCompact_eq (lvl + 1) x]
  | lvl, x :: y :: r => by
    rw [renderElemsC, renderElemsW, renderCompact_eq (lvl + 1) x, renderElemsC_eq lvl (y :: r)]; simp [compactL]
theorem renderMembersC_eq : (lvl : Nat) → (l : List (List Char × J)) → renderMembersC l = renderMembersW compactL lvl l
  | _, [] => by rw [renderMembersC, renderMembersW]
  | lvl, [(k, v)] => by rw [renderMembersC, renderMembersW, renderCompact_eq (lvl + 1) v]; simp [compactL]
  | lvl, (k, v) :: y :: r => by
    rw [renderMembersC, renderMembersW, renderCompact_eq (lvl + 1) v, renderMembersC_eq lvl (y :: r)]; simp [compactL]
end

mutual
theorem renderPretty_eq : (lvl : Nat) → (j : J) → renderPretty lvl j = renderW prettyL lvl j
  | _, .num _ => by rw [renderPretty, renderW]
  | _, .str _ => by rw [renderPretty, renderW]
  | _, .bool true => by rw [renderPretty, renderW]
  | _, .bool false => by rw [renderPretty, renderW]
  | _, .arr [] => by rw [renderPretty, renderW]
  | lvl, .arr (x :: r) => by
    rw [renderPretty, renderW, renderElemsP_eq lvl (x :: r) (by simp)]
    simp [prettyL, List.append_assoc]
  | _, .obj [] => by rw [renderPretty, renderW]
  | lvl, .obj (x :: r) => by
    rw [renderPretty, renderW, renderMembersP_eq lvl (x :: r) (by simp)]
    simp [prettyL, List.append_assoc]
/-- the pretty element list carries the indentation of its first element itself -/
theorem renderElemsP_eq : (lvl : Nat) → (l : List J) → l ≠ [] →
    renderElemsP (lvl + 1) l = indent (lvl + 1) ++ renderElemsW prettyL lvl l
  | _, [], h => absurd rfl h
  | lvl, [x], _ => by rw [renderElemsP, renderElemsW, renderPretty_eq (lvl + 1) x]
  | lvl, x :: y :: r, _ => by
    rw [renderElemsP, renderElemsW, renderPretty_eq (lvl + 1) x, renderElemsP_eq lvl (y :: r) (by simp)]
    simp [prettyL, List.append_assoc]
theorem renderMembersP_eq : (lvl : Nat) → (l : List (List Char × J)) → l ≠ [] →
    renderMembersP (lvl + 1) l = indent (lvl + 1) ++ renderMembersW prettyL lvl l
  | _, [], h => absurd rfl h
  | lvl, [(k, v)], _ => by
    rw [renderMembersP, renderMembersW, renderPretty_eq (lvl + 1) v]; simp [prettyL, List.append_assoc]
  | lvl, (k, v) :: y :: r, _ => by
    rw [renderMembersP, renderMembersW, renderPretty_eq (lvl + 1) v, renderMembersP_eq lvl (y :: r) (by simp)]
    simp [prettyL, List.append_assoc]
end

/-! ### Tokens -/

def AllWs (w : List Char) : Prop := ∀ c ∈ w, isWs c = true

theorem skipWs_ws_append {w : List Char} (hw : AllWs w) (s : List Char) : skipWs (w ++ s) = skipWs s := by
  induction w with
  | nil => rfl
  | cons c w ih =>
    rw [List.cons_append, skipWs, if_pos (hw c List.mem_cons_self)]
    exact ih (fun x hx => hw x (List.mem_cons_of_mem _ hx))

theorem skipWs_cons_of_not {c : Char} (h : isWs c = false) (s : List Char) : skipWs (c :: s) = c :: s := by
  rw [skipWs, if_neg (by simp [h])]

theorem allWs_indent (n : Nat) : AllWs (indent n) := by
  intro c hc
  have := List.eq_of_mem_replicate hc
  subst this; decide

theorem allWs_cons {c : Char} {w : List Char} (hc : isWs c = true) (hw : AllWs w) : AllWs (c :: w) := by
  intro x hx
  rcases List.mem_cons.mp hx with rfl | hx
  · exact hc
  · exact hw x hx

/-- Characters a string may contain (what the writers never escape). -/
def StrOk (s : List Char) : Prop := ∀ c ∈ s, c ≠ '"' ∧ c ≠ '\\' ∧ ¬ c.toNat < 32

theorem parseStr_quote {s : List Char} (h : StrOk s) (r : List Char) : parseStr (s ++ '"' :: r) = some (s, r) := by
  induction s with
  | nil => simp [parseStr]
  | cons c s ih =>
    obtain ⟨h1, h2, h3⟩ := h c List.mem_cons_self
    rw [List.cons_append, parseStr, if_neg h1, if_neg h2, if_neg h3, ih (fun x hx => h x (List.mem_cons_of_mem _ hx))]

theorem dropLit_append (l r : List Char) : dropLit l (l ++ r) = some r := by
  unfold dropLit
  rw [if_pos (List.isPrefixOf_iff_prefix.mpr (List.prefix_append l r))]
  simp

/-! #### Numbers -/

theorem isDigit_digitChar : ∀ d, d < 10 → isDigit (digitChar d) = true := by decide

theorem digitChar_val : ∀ d, d < 10 → (digitChar d).toNat - 48 = d := by decide

theorem natDigitsAux_digits (fuel n : Nat) (acc : List Char) (h : ∀ c ∈ acc, isDigit c = true) :
    ∀ c ∈ natDigitsAux fuel n acc, isDigit c = true := by
  induction fuel generalizing n acc with
  | zero => exact h
  | succ fuel ih =>
    unfold natDigitsAux
    split
    · rename_i hlt
      intro c hc
      rcases List.mem_cons.mp hc with rfl | hc
      · exact isDigit_digitChar n hlt
      · exact h c hc
    · apply ih
      intro c hc
      rcases List.mem_cons.mp hc with rfl | hc
      · exact isDigit_digitChar _ (Nat.mod_lt _ (by omega))
      · exact h c hc

theorem natDigits_digits (n : Nat) : ∀ c ∈ natDigits n, isDigit c = true :=
  natDigitsAux_digits _ _ [] (by simp)

/-- `foldl` form of the value of a digit string, started from an accumulator. -/
def valFrom (a : Nat) (ds : List Char) : Nat := ds.foldl (fun acc c => acc * 10 + (c.toNat - 48)) a

theorem digitsToNat_eq (ds : List Char) : digitsToNat ds = valFrom 0 ds := by
  unfold digitsToNat valFrom; rfl

theorem valFrom_cons (a : Nat) (c : Char) (ds : List Char) : valFrom a (c :: ds) = valFrom (a * 10 + (c.toNat - 48)) ds := by
  unfold valFrom; rw [List.foldl_cons]

/-- The digits written for `n` in front of `acc` read back as `n` followed by `acc`, from any
accumulator; and the first one is not `'0'` unless it is the only one. -/
theorem natDigitsAux_spec (fuel n : Nat) (acc : List Char) (hf : n < 10 ^ fuel) (a : Nat) :
    valFrom a (natDigitsAux fuel n acc) = valFrom (a * 10 ^ (natDigitsAux fuel n []).length + n) acc ∧
    natDigitsAux fuel n acc = natDigitsAux fuel n [] ++ acc := by
  induction fuel generalizing n acc a with
  | zero =>
    have : n = 0 := by simpa using hf
    subst this; simp [natDigitsAux]
  | succ fuel ih =>
    unfold natDigitsAux
    split
    · rename_i hlt
      refine ⟨?_, rfl⟩
      rw [valFrom_cons, digitChar_val n hlt]
      simp
    · rename_i hge
      have hq : n / 10 < 10 ^ fuel := by
        rw [Nat.pow_succ] at hf
        exact Nat.div_lt_of_lt_mul (by omega)
      have h1 := ih (n / 10) (digitChar (n % 10) :: acc) hq a
      have h2 := ih (n / 10) [digitChar (n % 10)] hq a
      refine ⟨?_, ?_⟩
      · rw [h1.1, valFrom_cons, digitChar_val _ (Nat.mod_lt _ (by omega)), h2.2]
        simp only [List.length_append, List.length_cons, List.length_nil, Nat.pow_succ]
        congr 1
        have := Nat.div_add_mod n 10
        rw [Nat.add_mul, Nat.mul_assoc]
        omega
      · rw [h1.2, h2.2]; simp

theorem lt_pow_succ (n : Nat) : n < 10 ^ (n + 1) := by
  induction n with
  | zero => decide
  | succ n ih => rw [Nat.pow_succ]; omega

theorem digitsToNat_natDigits (n : Nat) : digitsToNat (natDigits n) = n := by
  have := (natDigitsAux_spec (n + 1) n [] (lt_pow_succ n) 0).1
  rw [digitsToNat_eq]
  unfold natDigits
  rw [this]
  simp [valFrom]

/-- The first digit written for a positive number is not `'0'`. -/
theorem natDigitsAux_head (fuel n : Nat) (hf : n < 10 ^ fuel) (hpos : 0 < n) :
    ∃ c t, natDigitsAux fuel n [] = c :: t ∧ c ≠ '0' := by
  induction fuel generalizing n with
  | zero => simp at hf; omega
  | succ fuel ih =>
    have hq : n / 10 < 10 ^ fuel := by
      rw [Nat.pow_succ] at hf
      exact Nat.div_lt_of_lt_mul (by omega)
    unfold natDigitsAux
    split
    · rename_i hlt
      refine ⟨digitChar n, [], rfl, ?_⟩
      have : ∀ d, d < 10 → 0 < d → digitChar d ≠ '0' := by decide
      exact this n hlt hpos
    · rename_i hge
      have hq0 : 0 < n / 10 := Nat.div_pos (by omega) (by omega)
      obtain ⟨c, t, hct, hc⟩ := ih (n / 10) hq hq0
      rw [(natDigitsAux_spec fuel (n / 10) [digitChar (n % 10)] hq 0).2, hct]
      exact ⟨c, t ++ [digitChar (n % 10)], rfl, hc⟩

theorem natDigits_zero : natDigits 0 = ['0'] := by decide

/-- What may follow a number in a written text: nothing, or a character that neither continues the
digits nor starts a fraction or an exponent. -/
def Term (r : List Char) : Prop := (∀ c t, r = c :: t → isDigit c = false) ∧ numEnd r = true

theorem spanDigits_append {ds : List Char} (hd : ∀ c ∈ ds, isDigit c = true) {r : List Char}
    (hr : ∀ c t, r = c :: t → isDigit c = false) : spanDigits (ds ++ r) = (ds, r) := by
  induction ds with
  | nil =>
    cases r with
    | nil => rfl
    | cons c t => simp [spanDigits, hr c t rfl]
  | cons c ds ih =>
    rw [List.cons_append, spanDigits, if_pos (hd c List.mem_cons_self),
      ih (fun x hx => hd x (List.mem_cons_of_mem _ hx))]

theorem parseNum_natDigits (n : Nat) {r : List Char} (hr : Term r) : parseNum (natDigits n ++ r) = some (n, r) := by
  have hsp := spanDigits_append (natDigits_digits n) hr.1
  unfold parseNum
  rw [hsp]
  simp only
  by_cases h0 : n = 0
  · subst h0
    rw [natDigits_zero]
    simp [hr.2]
  · obtain ⟨c, t, hct, hc⟩ := natDigitsAux_head (n + 1) n (lt_pow_succ n) (by omega)
    have hnd : natDigits n = c :: t := hct
    rw [hnd]
    have hval := digitsToNat_natDigits n
    rw [hnd] at hval
    split
    · rename_i heq; cases heq
    · rename_i heq; injection heq with h1 _; exact absurd h1 hc
    · rename_i heq; injection heq with h1 _; exact absurd h1 hc
    · simp [hr.2, hval]

/-! ### The reader's dispatch on the first character -/

theorem parseValue_ws (fuel : Nat) {w : List Char} (hw : AllWs w) (s : List Char) :
    parseValue fuel (w ++ s) = parseValue fuel s := by
  cases fuel with
  | zero => simp [parseValue]
  | succ fuel => rw [parseValue, parseValue, skipWs_ws_append hw]

theorem parseElems_ws (fuel : Nat) {w : List Char} (hw : AllWs w) (s : List Char) :
    parseElems fuel (w ++ s) = parseElems fuel s := by
  cases fuel with
  | zero => simp [parseElems]
  | succ fuel => rw [parseElems, parseElems, parseValue_ws fuel hw]

theorem parseMembers_ws (fuel : Nat) {w : List Char} (hw : AllWs w) (s : List Char) :
    parseMembers fuel (w ++ s) = parseMembers fuel s := by
  cases fuel with
  | zero => simp [parseMembers]
  | succ fuel => rw [parseMembers, parseMembers, skipWs_ws_append hw]

theorem digit_not_special {c : Char} (h : isDigit c = true) :
    isWs c = false ∧ c ≠ '"' ∧ c ≠ 't' ∧ c ≠ 'f' ∧ c ≠ '[' ∧ c ≠ '{' ∧ c ≠ ']' ∧ c ≠ '}' := by
  unfold isDigit at h
  simp only [Bool.and_eq_true, decide_eq_true_eq] at h
  refine ⟨?_, ?_, ?_, ?_, ?_, ?_, ?_, ?_⟩
  · unfold isWs
    simp only [Bool.or_eq_false_iff, beq_eq_false_iff_ne]
    refine ⟨⟨⟨?_, ?_⟩, ?_⟩, ?_⟩ <;> intro hc <;> subst hc <;> simp at h
  all_goals (intro hc; subst hc; simp at h)

theorem parseValue_digit (fuel : Nat) {c : Char} (hc : isDigit c = true) (t : List Char) :
    parseValue (fuel + 1) (c :: t) =
      (match parseNum (c :: t) with
       | some (n, r') => some (.num n, r')
       | none => none) := by
  obtain ⟨h0, h1, h2, h3, h4, h5, _, _⟩ := digit_not_special hc
  rw [parseValue, skipWs_cons_of_not h0]
  simp only [if_neg h1, if_neg h2, if_neg h3, if_neg h4, if_neg h5, hc, if_true]
  rfl

theorem parseValue_quote (fuel : Nat) (t : List Char) :
    parseValue (fuel + 1) ('"' :: t) =
      (match parseStr t with
       | some (x, r') => some (.str x, r')
       | none => none) := by
  rw [parseValue, skipWs_cons_of_not (by decide)]
  simp
  rfl

theorem parseValue_t (fuel : Nat) (t : List Char) :
    parseValue (fuel + 1) ('t' :: t) =
      (match dropLit (lit "rue") t with
       | some r' => some (.bool true, r')
       | none => none) := by
  rw [parseValue, skipWs_cons_of_not (by decide)]
  simp
  rfl

theorem parseValue_f (fuel : Nat) (t : List Char) :
    parseValue (fuel + 1) ('f' :: t) =
      (match dropLit (lit "alse") t with
       | some r' => some (.bool false, r')
       | none => none) := by
  rw [parseValue, skipWs_cons_of_not (by decide)]
  simp
  rfl

theorem parseValue_arr (fuel : Nat) (t : List Char) :
    parseValue (fuel + 1) ('[' :: t) =
      (match skipWs t with
       | ']' :: r' => some (.arr [], r')
       | _ =>
         match parseElems fuel t with
         | some (vs, r') => some (.arr vs, r')
         | none => none) := by
  rw [parseValue, skipWs_cons_of_not (by decide)]
  simp
  rfl

theorem parseValue_obj (fuel : Nat) (t : List Char) :
    parseValue (fuel + 1) ('{' :: t) =
      (match skipWs t with
       | '}' :: r' => some (.obj [], r')
       | _ =>
         match parseMembers fuel t with
         | some (ms, r') => some (.obj ms, r')
         | none => none) := by
  rw [parseValue, skipWs_cons_of_not (by decide)]
  simp
  rfl

/-! ### Round trip -/

structure Layout.Ws (L : Layout) : Prop where
  opn : ∀ lvl, AllWs (L.opn lvl)
  sep : ∀ lvl, AllWs (L.sep lvl)
  cls : ∀ lvl, AllWs (L.cls lvl)
  col : AllWs L.col

theorem compactL_ws : compactL.Ws := by
  refine ⟨?_, ?_, ?_, ?_⟩ <;> intros <;> intro c hc <;> simp [compactL] at hc

theorem prettyL_ws : prettyL.Ws := by
  refine ⟨?_, ?_, ?_, ?_⟩
  · intro lvl; exact allWs_cons (by decide) (allWs_indent _)
  · intro lvl; exact allWs_cons (by decide) (allWs_indent _)
  · intro lvl; exact allWs_cons (by decide) (allWs_indent _)
  · intro c hc; simp [prettyL] at hc; subst hc; decide

mutual
/-- Strings contain only characters the writers emit verbatim. -/
def J.WF2 : J → Prop
  | .num _ => True
  | .str s => StrOk s
  | .bool _ => True
  | .arr l => WF2List l
  | .obj l => WF2Members l
def WF2List : List J → Prop
  | [] => True
  | x :: r => x.WF2 ∧ WF2List r
def WF2Members : List (List Char × J) → Prop
  | [] => True
  | (k, v) :: r => StrOk k ∧ v.WF2 ∧ WF2Members r
end

mutual
def J.size : J → Nat
  | .num _ => 1
  | .str _ => 1
  | .bool _ => 1
  | .arr l => 1 + sizeList l
  | .obj l => 1 + sizeMembers l
def sizeList : List J → Nat
  | [] => 0
  | x :: r => x.size + 1 + sizeList r
def sizeMembers : List (List Char × J) → Nat
  | [] => 0
  | (_, v) :: r => v.size + 1 + sizeMembers r
end

/-- A text starts with a character that is neither whitespace nor a closing bracket. -/
def Starts (t : List Char) : Prop := ∃ c u, t = c :: u ∧ isWs c = false ∧ c ≠ ']' ∧ c ≠ '}'

theorem natDigits_cons (n : Nat) : ∃ c t, natDigits n = c :: t ∧ isDigit c = true := by
  by_cases h0 : n = 0
  · subst h0; rw [natDigits_zero]; exact ⟨'0', [], rfl, by decide⟩
  · obtain ⟨c, t, hct, _⟩ := natDigitsAux_head (n + 1) n (lt_pow_succ n) (by omega)
    refine ⟨c, t, hct, ?_⟩
    have := natDigits_digits n c
    unfold natDigits at this
    rw [hct] at this
    exact this List.mem_cons_self

theorem renderW_starts (L : Layout) (lvl : Nat) (j : J) : Starts (renderW L lvl j) := by
  cases j with
  | num n =>
    obtain ⟨c, t, hct, hc⟩ := natDigits_cons n
    have := digit_not_special hc
    rw [renderW, hct]
    exact ⟨c, t, rfl, this.1, this.2.2.2.2.2.2.1, this.2.2.2.2.2.2.2⟩
  | str s => rw [renderW]; exact ⟨'"', s ++ ['"'], rfl, by decide, by decide, by decide⟩
  | bool b => cases b <;> rw [renderW] <;> exact ⟨_, _, rfl, by decide, by decide, by decide⟩
  | arr l => cases l <;> rw [renderW] <;> exact ⟨'[', _, rfl, by decide, by decide, by decide⟩
  | obj l => cases l <;> rw [renderW] <;> exact ⟨'{', _, rfl, by decide, by decide, by decide⟩

theorem starts_append {t : List Char} (h : Starts t) (u : List Char) : Starts (t ++ u) := by
  obtain ⟨c, v, hv, h1, h2, h3⟩ := h
  exact ⟨c, v ++ u, by rw [hv]; rfl, h1, h2, h3⟩

theorem skipWs_starts {w t : List Char} (hw : AllWs w) (h : Starts t) : skipWs (w ++ t) = t := by
  obtain ⟨c, v, hv, h1, _, _⟩ := h
  rw [skipWs_ws_append hw, hv, skipWs_cons_of_not h1]

theorem renderElemsW_starts (L : Layout) (lvl : Nat) (x : J) (l : List J) : Starts (renderElemsW L lvl (x :: l)) := by
  cases l with
  | nil => rw [renderElemsW]; exact renderW_starts L _ x
  | cons y l => rw [renderElemsW]; exact starts_append (starts_append (renderW_starts L _ x) _) _

theorem starts_quote (k : List Char) : Starts (quote k) :=
  ⟨'"', k ++ ['"'], by simp [quote], by decide, by decide, by decide⟩

theorem renderMembersW_starts (L : Layout) (lvl : Nat) (x : List Char × J) (l : List (List Char × J)) :
    Starts (renderMembersW L lvl (x :: l)) := by
  obtain ⟨k, v⟩ := x
  cases l with
  | nil =>
    rw [renderMembersW]
    simp only [List.append_assoc]
    exact starts_append (starts_quote k) _
  | cons y l =>
    rw [renderMembersW]
    simp only [List.append_assoc]
    exact starts_append (starts_quote k) _

/-- What follows a value inside a container, or the end of the text, terminates a number. -/
theorem term_ws_then {w : List Char} (hw : AllWs w) {c : Char} (hc : c = ',' ∨ c = ']' ∨ c = '}') (r : List Char) :
    Term (w ++ c :: r) := by
  have hcd : isDigit c = false ∧ numEnd (c :: r) = true := by
    rcases hc with rfl | rfl | rfl <;> (exact ⟨by decide, rfl⟩)
  cases w with
  | nil =>
    refine ⟨?_, hcd.2⟩
    intro x t hx
    simp only [List.nil_append] at hx
    injection hx with h1 _; subst h1; exact hcd.1
  | cons x w =>
    have hx := hw x List.mem_cons_self
    have hxd : isDigit x = false ∧ x ≠ '.' ∧ x ≠ 'e' ∧ x ≠ 'E' := by
      unfold isWs at hx
      simp only [Bool.or_eq_true, beq_iff_eq] at hx
      rcases hx with ((h | h) | h) | h <;> subst h <;> (exact ⟨by decide, by decide, by decide, by decide⟩)
    refine ⟨?_, ?_⟩
    · intro y t hy
      simp only [List.cons_append] at hy
      injection hy with h1 _; subst h1; exact hxd.1
    · simp only [List.cons_append]
      unfold numEnd
      split
      · rename_i heq; injection heq with h1 _; exact absurd h1 hxd.2.1
      · rename_i heq; injection heq with h1 _; exact absurd h1 hxd.2.2.1
      · rename_i heq; injection heq with h1 _; exact absurd h1 hxd.2.2.2
      · rfl

theorem term_comma (r : List Char) : Term (',' :: r) := by
  simpa using term_ws_then (w := []) (by intro c hc; cases hc) (Or.inl rfl) r

theorem lit_true : lit "true" = 't' :: lit "rue" := by decide
theorem lit_false : lit "false" = 'f' :: lit "alse" := by decide
theorem lit_arr : lit "[]" = ['[', ']'] := by decide
theorem lit_obj : lit "{}" = ['{', '}'] := by decide

theorem term_nil : Term [] := by
  refine ⟨?_, rfl⟩
  intro c t h
  cases h

mutual
/-- **Values.** Reading `render j` followed by anything that terminates a number returns `j` and
exactly what followed. -/
theorem parseValue_renderW (L : Layout) (hL : L.Ws) : (lvl : Nat) → (j : J) → j.WF2 → (fuel : Nat) →
    j.size ≤ fuel → (r : List Char) → Term r → parseValue fuel (renderW L lvl j ++ r) = some (j, r)
  | _, .num n, _, fuel, hf, r, hr => by
    obtain ⟨c, t, hct, hc⟩ := natDigits_cons n
    obtain ⟨f, rfl⟩ : ∃ f, fuel = f + 1 := ⟨fuel - 1, by simp only [J.size] at hf; omega⟩
    rw [renderW, hct, List.cons_append, parseValue_digit f hc, ← List.cons_append, ← hct, parseNum_natDigits n hr]
  | _, .str s, h, fuel, hf, r, _ => by
    obtain ⟨f, rfl⟩ : ∃ f, fuel = f + 1 := ⟨fuel - 1, by simp only [J.size] at hf; omega⟩
    have hs : StrOk s := by simpa [J.WF2] using h
    have hq : quote s ++ r = '"' :: (s ++ '"' :: r) := by simp [quote]
    rw [renderW, hq, parseValue_quote, parseStr_quote hs]
  | _, .bool true, _, fuel, hf, r, _ => by
    obtain ⟨f, rfl⟩ : ∃ f, fuel = f + 1 := ⟨fuel - 1, by simp only [J.size] at hf; omega⟩
    rw [renderW, lit_true, List.cons_append, parseValue_t, dropLit_append]
  | _, .bool false, _, fuel, hf, r, _ => by
    obtain ⟨f, rfl⟩ : ∃ f, fuel = f + 1 := ⟨fuel - 1, by simp only [J.size] at hf; omega⟩
    rw [renderW, lit_false, List.cons_append, parseValue_f, dropLit_append]
  | _, .arr [], _, fuel, hf, r, _ => by
    obtain ⟨f, rfl⟩ : ∃ f, fuel = f + 1 := ⟨fuel - 1, by simp only [J.size] at hf; omega⟩
    rw [renderW, lit_arr]
    show parseValue (f + 1) ('[' :: ']' :: r) = _
    rw [parseValue_arr, skipWs_cons_of_not (by decide)]
    rfl
  | lvl, .arr (x :: l), h, fuel, hf, r, _ => by
    obtain ⟨f, rfl⟩ : ∃ f, fuel = f + 1 := ⟨fuel - 1, by simp only [J.size] at hf; omega⟩
    have hl : WF2List (x :: l) := by simpa [J.WF2] using h
    have hsz : sizeList (x :: l) ≤ f := by simp only [J.size] at hf; omega
    rw [renderW]
    have hshape : '[' :: L.opn lvl ++ renderElemsW L lvl (x :: l) ++ L.cls lvl ++ [']'] ++ r =
        '[' :: (L.opn lvl ++ (renderElemsW L lvl (x :: l) ++ (L.cls lvl ++ ']' :: r))) := by
      simp [List.append_assoc]
    rw [hshape, parseValue_arr]
    have hst : Starts (renderElemsW L lvl (x :: l) ++ (L.cls lvl ++ ']' :: r)) :=
      starts_append (renderElemsW_starts L lvl x l) _
    rw [skipWs_starts (hL.opn lvl) hst, parseElems_ws f (hL.opn lvl),
      parseElems_renderW L hL lvl (x :: l) (by simp) hl f hsz r]
    obtain ⟨c, u, hcu, _, h2, _⟩ := hst
    rw [hcu]
    split
    · rename_i heq; injection heq with h1 _; exact absurd h1 h2
    · rfl
  | _, .obj [], _, fuel, hf, r, _ => by
    obtain ⟨f, rfl⟩ : ∃ f, fuel = f + 1 := ⟨fuel - 1, by simp only [J.size] at hf; omega⟩
    rw [renderW, lit_obj]
    show parseValue (f + 1) ('{' :: '}' :: r) = _
    rw [parseValue_obj, skipWs_cons_of_not (by decide)]
    rfl
  | lvl, .obj (x :: l), h, fuel, hf, r, _ => by
    obtain ⟨f, rfl⟩ : ∃ f, fuel = f + 1 := ⟨fuel - 1, by simp only [J.size] at hf; omega⟩
    have hl : WF2Members (x :: l) := by simpa [J.WF2] using h
    have hsz : sizeMembers (x :: l) ≤ f := by simp only [J.size] at hf; omega
    rw [renderW]
    have hshape : '{' :: L.opn lvl ++ renderMembersW L lvl (x :: l) ++ L.cls lvl ++ ['}'] ++ r =
        '{' :: (L.opn lvl ++ (renderMembersW L lvl (x :: l) ++ (L.cls lvl ++ '}' :: r))) := by
      simp [List.append_assoc]
    rw [hshape, parseValue_obj]
    have hst : Starts (renderMembersW L lvl (x :: l) ++ (L.cls lvl ++ '}' :: r)) :=
      starts_append (renderMembersW_starts L lvl x l) _
    rw [skipWs_starts (hL.opn lvl) hst, parseMembers_ws f (hL.opn lvl),
      parseMembers_renderW L hL lvl (x :: l) (by simp) hl f hsz r]
    obtain ⟨c, u, hcu, _, _, h3⟩ := hst
    rw [hcu]
    split
    · rename_i heq; injection heq with h1 _; exact absurd h1 h3
    · rfl
/-- **Elements** of a non-empty array up to its closing bracket. -/
theorem parseElems_renderW (L : Layout) (hL : L.Ws) : (lvl : Nat) → (l : List J) → l ≠ [] → WF2List l →
    (fuel : Nat) → sizeList l ≤ fuel → (r : List Char) →
    parseElems fuel (renderElemsW L lvl l ++ (L.cls lvl ++ ']' :: r)) = some (l, r)
  | _, [], h, _, _, _, _ => absurd rfl h
  | lvl, [x], _, hw, fuel, hf, r => by
    obtain ⟨f, rfl⟩ : ∃ f, fuel = f + 1 := ⟨fuel - 1, by simp only [sizeList] at hf; omega⟩
    have hx : x.size ≤ f := by simp only [sizeList] at hf; omega
    rw [renderElemsW, parseElems,
      parseValue_renderW L hL (lvl + 1) x hw.1 f hx _ (term_ws_then (hL.cls lvl) (Or.inr (Or.inl rfl)) r)]
    simp only
    rw [skipWs_ws_append (hL.cls lvl), skipWs_cons_of_not (by decide)]
    simp
  | lvl, x :: y :: l, _, hw, fuel, hf, r => by
    obtain ⟨f, rfl⟩ : ∃ f, fuel = f + 1 := ⟨fuel - 1, by simp only [sizeList] at hf; omega⟩
    have hx : x.size ≤ f := by simp only [sizeList] at hf ⊢; omega
    have hrest : sizeList (y :: l) ≤ f := by simp only [sizeList] at hf ⊢; omega
    rw [renderElemsW]
    have hshape : renderW L (lvl + 1) x ++ ',' :: L.sep lvl ++ renderElemsW L lvl (y :: l) ++ (L.cls lvl ++ ']' :: r) =
        renderW L (lvl + 1) x ++ ',' :: (L.sep lvl ++ (renderElemsW L lvl (y :: l) ++ (L.cls lvl ++ ']' :: r))) := by
      simp [List.append_assoc]
    rw [hshape, parseElems,
      parseValue_renderW L hL (lvl + 1) x hw.1 f hx _ (term_comma _)]
    simp only
    rw [skipWs_cons_of_not (by decide)]
    simp only [if_true]
    rw [parseElems_ws f (hL.sep lvl), parseElems_renderW L hL lvl (y :: l) (by simp) hw.2 f hrest r]
/-- **Members** of a non-empty object up to its closing brace. -/
theorem parseMembers_renderW (L : Layout) (hL : L.Ws) : (lvl : Nat) → (l : List (List Char × J)) → l ≠ [] →
    WF2Members l → (fuel : Nat) → sizeMembers l ≤ fuel → (r : List Char) →
    parseMembers fuel (renderMembersW L lvl l ++ (L.cls lvl ++ '}' :: r)) = some (l, r)
  | _, [], h, _, _, _, _ => absurd rfl h
  | lvl, [(k, v)], _, hw, fuel, hf, r => by
    obtain ⟨f, rfl⟩ : ∃ f, fuel = f + 1 := ⟨fuel - 1, by simp only [sizeMembers] at hf; omega⟩
    have hv : v.size ≤ f := by simp only [sizeMembers] at hf; omega
    rw [renderMembersW]
    have hshape : quote k ++ ':' :: L.col ++ renderW L (lvl + 1) v ++ (L.cls lvl ++ '}' :: r) =
        '"' :: (k ++ '"' :: ([] ++ ':' :: (L.col ++ (renderW L (lvl + 1) v ++ (L.cls lvl ++ '}' :: r))))) := by
      simp [quote, List.append_assoc]
    rw [hshape, parseMembers, skipWs_cons_of_not (by decide)]
    simp only [if_true]
    rw [parseStr_quote hw.1]
    simp only [List.nil_append]
    rw [skipWs_cons_of_not (by decide)]
    simp only [if_true]
    rw [parseValue_ws f hL.col,
      parseValue_renderW L hL (lvl + 1) v hw.2.1 f hv _ (term_ws_then (hL.cls lvl) (Or.inr (Or.inr rfl)) r)]
    simp only
    rw [skipWs_ws_append (hL.cls lvl), skipWs_cons_of_not (by decide)]
    simp
  | lvl, (k, v) :: y :: l, _, hw, fuel, hf, r => by
    obtain ⟨f, rfl⟩ : ∃ f, fuel = f + 1 := ⟨fuel - 1, by simp only [sizeMembers] at hf; omega⟩
    have hv : v.size ≤ f := by simp only [sizeMembers] at hf ⊢; omega
    have hrest : sizeMembers (y :: l) ≤ f := by simp only [sizeMembers] at hf ⊢; omega
    rw [renderMembersW]
    have hshape : quote k ++ ':' :: L.col ++ renderW L (lvl + 1) v ++ ',' :: L.sep lvl ++ renderMembersW L lvl (y :: l) ++
          (L.cls lvl ++ '}' :: r) =
        '"' :: (k ++ '"' :: ([] ++ ':' :: (L.col ++ (renderW L (lvl + 1) v ++
          ',' :: (L.sep lvl ++ (renderMembersW L lvl (y :: l) ++ (L.cls lvl ++ '}' :: r))))))) := by
      simp [quote, List.append_assoc]
    rw [hshape, parseMembers, skipWs_cons_of_not (by decide)]
    simp only [if_true]
    rw [parseStr_quote hw.1]
    simp only [List.nil_append]
    rw [skipWs_cons_of_not (by decide)]
    simp only [if_true]
    rw [parseValue_ws f hL.col,
      parseValue_renderW L hL (lvl + 1) v hw.2.1 f hv _ (term_comma _)]
    simp only
    rw [skipWs_cons_of_not (by decide)]
    simp only [if_true]
    rw [parseMembers_ws f (hL.sep lvl), parseMembers_renderW L hL lvl (y :: l) (by simp) hw.2.2 f hrest r]
end

/-! ### Whole texts -/

theorem natDigits_length_pos (n : Nat) : 1 ≤ (natDigits n).length := by
  obtain ⟨c, t, h, _⟩ := natDigits_cons n
  rw [h]; simp

mutual
theorem size_le_length (L : Layout) : (lvl : Nat) → (j : J) → j.size ≤ (renderW L lvl j).length
  | _, .num n => by rw [renderW, J.size]; exact natDigits_length_pos n
  | _, .str s => by rw [renderW, J.size]; simp [quote]
  | _, .bool true => by rw [renderW, J.size]; decide
  | _, .bool false => by rw [renderW, J.size]; decide
  | _, .arr [] => by rw [renderW, J.size, sizeList]; decide
  | lvl, .arr (x :: l) => by
    rw [renderW, J.size]
    have := sizeList_le_length L lvl (x :: l)
    simp only [List.length_cons, List.length_append, List.length_nil] at this ⊢
    omega
  | _, .obj [] => by rw [renderW, J.size, sizeMembers]; decide
  | lvl, .obj (x :: l) => by
    rw [renderW, J.size]
    have := sizeMembers_le_length L lvl (x :: l)
    simp only [List.length_cons, List.length_append, List.length_nil] at this ⊢
    omega
theorem sizeList_le_length (L : Layout) : (lvl : Nat) → (l : List J) → sizeList l ≤ (renderElemsW L lvl l).length + 1
  | _, [] => by rw [sizeList]; omega
  | lvl, [x] => by
    rw [sizeList, sizeList, renderElemsW]
    have := size_le_length L (lvl + 1) x
    omega
  | lvl, x :: y :: l => by
    rw [sizeList, renderElemsW]
    have h1 := size_le_length L (lvl + 1) x
    have h2 := sizeList_le_length L lvl (y :: l)
    simp only [List.length_cons, List.length_append] at h2 ⊢
    omega
theorem sizeMembers_le_length (L : Layout) : (lvl : Nat) → (l : List (List Char × J)) →
    sizeMembers l ≤ (renderMembersW L lvl l).length + 1
  | _, [] => by rw [sizeMembers]; omega
  | lvl, [(k, v)] => by
    rw [sizeMembers, sizeMembers, renderMembersW]
    have := size_le_length L (lvl + 1) v
    simp only [List.length_cons, List.length_append]
    omega
  | lvl, (k, v) :: y :: l => by
    rw [sizeMembers, renderMembersW]
    have h1 := size_le_length L (lvl + 1) v
    have h2 := sizeMembers_le_length L lvl (y :: l)
    simp only [List.length_cons, List.length_append] at h2 ⊢
    omega
end

/-- **Reading back a written text gives the value that was written**, for every layout that only
inserts whitespace. -/
theorem parse_renderW (L : Layout) (hL : L.Ws) (j : J) (h : j.WF2) : parse (renderW L 0 j) = some j := by
  unfold parse
  have hsz : j.size ≤ (renderW L 0 j).length + 1 := Nat.le_succ_of_le (size_le_length L 0 j)
  have := parseValue_renderW L hL 0 j h _ hsz [] term_nil
  rw [List.append_nil] at this
  rw [this]
  simp [skipWs]

theorem parse_renderCompact (j : J) (h : j.WF2) : parse (renderCompact j) = some j := by
  rw [renderCompact_eq 0 j]; exact parse_renderW compactL compactL_ws j h

theorem parse_renderPretty (j : J) (h : j.WF2) : parse (renderPretty 0 j) = some j := by
  rw [renderPretty_eq 0 j]; exact parse_renderW prettyL prettyL_ws j h

end Json
end Bourse
