/-
The limit prices the noise and momentum agents quote, in the `f64` arithmetic the Rust code really
performs (`Model/FloatAgents.lean`: `round_price_down/up`, `place_buy/sell_limit_order(_market)`):
for every sample of the price distribution the quote is on the tick grid and on the right side of
the observed mid-price. The rounding of `mid / tick` can never carry the quotient across an integer
(`floor_quot_le`, `ceil_quot_ge`: the gap to the next integer is at least `1/(2·tick)`, the rounding
error at most `2^-53` of the quotient, and mid-prices are below `2^33`).
-/
import Bourse.Model.FloatAgents
import Bourse.Lemmas.F64Round

namespace Bourse
namespace FAgents
open F64

theorem toU32_fin (r : ℚ) : toU32 (.fin r) = if r < 0 then 0 else if r.floor > 4294967295 then 4294967295 else r.floor.toNat := rfl

theorem floor_zero : (0 : ℚ).floor = 0 := by
  have := Rat.floor_intCast 0; simpa using this

theorem toU32_zero : toU32 (.fin 0) = 0 := by
  rw [toU32_fin, if_neg (lt_irrefl _), floor_zero]; simp

/-- What `roundDown` returns on a finite quotient: the clamp and cast of `rnd (⌊q⌋ · tick)`. -/
theorem toU32_clamp_fin (r : ℚ) (h0 : 0 ≤ r) (h1 : r ≤ MAXPF) (z : ℤ) (hz : r = (z : ℚ)) :
    toU32 (clamp (.fin r) 0 MAXPF) = z.toNat := by
  unfold clamp
  have l1 : lt (.fin r) (.fin 0) = false := by simp [lt]; exact h0
  have l2 : lt (.fin MAXPF) (.fin r) = false := by simp [lt]; exact h1
  rw [l1, l2]
  simp only [Bool.false_eq_true, if_false]
  rw [toU32_fin, if_neg (not_lt.mpr h0)]
  subst hz
  rw [Rat.floor_intCast]
  have : ¬ z > 4294967295 := by
    have : (z : ℚ) ≤ 4294967295 := h1
    have : z ≤ 4294967295 := by exact_mod_cast this
    omega
  rw [if_neg this]

/-- A non-positive (or negative-infinite) product clamps to 0. -/
theorem toU32_clamp_nonpos (x : F) (h : F64.le x (.fin 0)) : toU32 (clamp x 0 MAXPF) = 0 := by
  cases x with
  | fin r =>
    have hr : r ≤ 0 := h
    unfold clamp
    by_cases c : r < 0
    · have : lt (.fin r) (.fin 0) = true := by simp [lt]; exact c
      rw [this]; simp only [if_true]; exact toU32_zero
    · have hr0 : r = 0 := le_antisymm hr (not_lt.mp c)
      subst hr0
      have l1 : lt (.fin 0) (.fin 0) = false := by simp [lt]
      have l2 : lt (.fin MAXPF) (.fin 0) = false := by simp [lt, MAXPF]; norm_num
      rw [l1, l2]; simp only [Bool.false_eq_true, if_false]; exact toU32_zero
  | pinf => exact absurd h (by simp [F64.le])
  | ninf =>
    have : lt .ninf (.fin 0) = true := by simp [lt]
    unfold clamp; rw [this]; simp only [if_true]; exact toU32_zero
  | nan => exact absurd h (by simp [F64.le])

theorem toU32_clamp_nan : toU32 (clamp .nan 0 MAXPF) = 0 := by
  simp [clamp, lt, toU32]

theorem pow2_m53 : pow2 (-53) = 1 / 9007199254740992 := by rw [pow2_eq]; norm_num

/-- The rounded quotient `mid / tick` of a half-integer mid-price below `2^33` never reaches the
next integer above the exact quotient: `⌊rnd(mid/tick)⌋ · tick ≤ mid`. -/
theorem floor_quot_le (k t : ℕ) (ht : 0 < t) (htm : t ≤ 4294967295) (hk : k ≤ 8589934590)
    (qm : ℚ) (hq : rnd ((k : ℚ) / 2 / (t : ℚ)) = .fin qm) : (qm.floor : ℚ) * (t : ℚ) ≤ (k : ℚ) / 2 := by
  have htq : (0 : ℚ) < (t : ℚ) := by exact_mod_cast ht
  rcases Nat.eq_zero_or_pos k with h0 | hkpos
  · subst h0
    simp only [Nat.cast_zero, zero_div] at hq ⊢
    rw [rnd_zero] at hq
    injection hq with hq; subst hq
    rw [floor_zero]; simp
  · set Q : ℚ := (k : ℚ) / 2 / (t : ℚ) with hQ
    have hkq : (1 : ℚ) ≤ (k : ℚ) := by exact_mod_cast hkpos
    have hkq2 : (k : ℚ) ≤ 8589934590 := by exact_mod_cast hk
    have htq2 : (t : ℚ) ≤ 4294967295 := by exact_mod_cast htm
    have hQpos : 0 < Q := by positivity
    have hlo : pow2 (-1022) ≤ Q := by
      have h1 : pow2 (-1022) ≤ pow2 (-34) := pow2_le (by norm_num)
      have h2 : pow2 (-34) ≤ Q := by
        rw [pow2_eq, hQ, le_div_iff₀ htq]
        have : ((2 : ℚ) ^ (-34 : ℤ)) = 1 / 17179869184 := by norm_num
        rw [this]; nlinarith
      exact _root_.le_trans h1 h2
    have hhi : Q < pow2 1023 := by
      have h1 : Q ≤ pow2 34 := by
        rw [pow2_eq, hQ, div_le_iff₀ htq]
        have : ((2 : ℚ) ^ (34 : ℤ)) = 17179869184 := by norm_num
        rw [this]
        have : (1 : ℚ) ≤ (t : ℚ) := by exact_mod_cast ht
        nlinarith
      exact lt_of_le_of_lt h1 (pow2_lt (by norm_num))
    obtain ⟨y, hy, herr⟩ := rnd_err hQpos hlo hhi
    rw [hq] at hy
    injection hy with hy; subst hy
    rw [pow2_m53] at herr
    have herr2 : qm - Q ≤ Q * (1 / 9007199254740992) := (abs_le.mp herr).2
    -- suppose ⌊qm⌋ · t > k / 2
    by_contra hc
    have hc : (k : ℚ) / 2 < (qm.floor : ℚ) * (t : ℚ) := not_le.mp hc
    have hci : (k : ℤ) < qm.floor * (2 * (t : ℤ)) := by
      have : (k : ℚ) < (qm.floor : ℚ) * (2 * (t : ℚ)) := by linarith
      exact_mod_cast this
    have hci2 : (k : ℤ) + 1 ≤ qm.floor * (2 * (t : ℤ)) := by omega
    have hcq : (k : ℚ) + 1 ≤ (qm.floor : ℚ) * (2 * (t : ℚ)) := by exact_mod_cast hci2
    have hfl : (qm.floor : ℚ) ≤ qm := Rat.floor_le qm
    have h3 : (qm.floor : ℚ) * (2 * (t : ℚ)) ≤ qm * (2 * (t : ℚ)) :=
      mul_le_mul_of_nonneg_right hfl (by positivity)
    have h4 : qm * (2 * (t : ℚ)) ≤ (Q + Q * (1 / 9007199254740992)) * (2 * (t : ℚ)) :=
      mul_le_mul_of_nonneg_right (by linarith) (by positivity)
    have hQt : Q * (2 * (t : ℚ)) = (k : ℚ) := by rw [hQ]; field_simp
    have h5 : (Q + Q * (1 / 9007199254740992)) * (2 * (t : ℚ)) = (k : ℚ) + (k : ℚ) / 9007199254740992 := by
      rw [add_mul, mul_right_comm, hQt]; ring
    have : (1 : ℚ) ≤ (k : ℚ) / 9007199254740992 := by linarith
    have : (9007199254740992 : ℚ) ≤ (k : ℚ) := by
      rwa [le_div_iff₀ (by norm_num : (0 : ℚ) < 9007199254740992), one_mul] at this
    linarith

/-- Symmetric: `⌈rnd(mid/tick)⌉ · tick ≥ mid`. -/
theorem ceil_quot_ge (k t : ℕ) (ht : 0 < t) (htm : t ≤ 4294967295) (hk : k ≤ 8589934590)
    (qm : ℚ) (hq : rnd ((k : ℚ) / 2 / (t : ℚ)) = .fin qm) : (k : ℚ) / 2 ≤ (qm.ceil : ℚ) * (t : ℚ) := by
  have htq : (0 : ℚ) < (t : ℚ) := by exact_mod_cast ht
  rcases Nat.eq_zero_or_pos k with h0 | hkpos
  · subst h0
    simp only [Nat.cast_zero, zero_div] at hq ⊢
    rw [rnd_zero] at hq
    injection hq with hq; subst hq
    have : (0 : ℚ).ceil = 0 := by
      have := Rat.ceil_intCast 0; simpa using this
    rw [this]; simp
  · set Q : ℚ := (k : ℚ) / 2 / (t : ℚ) with hQ
    have hkq : (1 : ℚ) ≤ (k : ℚ) := by exact_mod_cast hkpos
    have hkq2 : (k : ℚ) ≤ 8589934590 := by exact_mod_cast hk
    have htq2 : (t : ℚ) ≤ 4294967295 := by exact_mod_cast htm
    have hQpos : 0 < Q := by positivity
    have hlo : pow2 (-1022) ≤ Q := by
      have h1 : pow2 (-1022) ≤ pow2 (-34) := pow2_le (by norm_num)
      have h2 : pow2 (-34) ≤ Q := by
        rw [pow2_eq, hQ, le_div_iff₀ htq]
        have : ((2 : ℚ) ^ (-34 : ℤ)) = 1 / 17179869184 := by norm_num
        rw [this]; nlinarith
      exact _root_.le_trans h1 h2
    have hhi : Q < pow2 1023 := by
      have h1 : Q ≤ pow2 34 := by
        rw [pow2_eq, hQ, div_le_iff₀ htq]
        have : ((2 : ℚ) ^ (34 : ℤ)) = 17179869184 := by norm_num
        rw [this]
        have : (1 : ℚ) ≤ (t : ℚ) := by exact_mod_cast ht
        nlinarith
      exact lt_of_le_of_lt h1 (pow2_lt (by norm_num))
    obtain ⟨y, hy, herr⟩ := rnd_err hQpos hlo hhi
    rw [hq] at hy
    injection hy with hy; subst hy
    rw [pow2_m53] at herr
    have herr2 : -(Q * (1 / 9007199254740992)) ≤ qm - Q := (abs_le.mp herr).1
    by_contra hc
    have hc : (qm.ceil : ℚ) * (t : ℚ) < (k : ℚ) / 2 := not_le.mp hc
    have hci : qm.ceil * (2 * (t : ℤ)) < (k : ℤ) := by
      have : (qm.ceil : ℚ) * (2 * (t : ℚ)) < (k : ℚ) := by linarith
      exact_mod_cast this
    have hci2 : qm.ceil * (2 * (t : ℤ)) + 1 ≤ (k : ℤ) := by omega
    have hcq : (qm.ceil : ℚ) * (2 * (t : ℚ)) + 1 ≤ (k : ℚ) := by exact_mod_cast hci2
    have hcl : qm ≤ (qm.ceil : ℚ) := Rat.le_ceil
    have h3 : qm * (2 * (t : ℚ)) ≤ (qm.ceil : ℚ) * (2 * (t : ℚ)) :=
      mul_le_mul_of_nonneg_right hcl (by positivity)
    have h4 : (Q - Q * (1 / 9007199254740992)) * (2 * (t : ℚ)) ≤ qm * (2 * (t : ℚ)) :=
      mul_le_mul_of_nonneg_right (by linarith) (by positivity)
    have hQt : Q * (2 * (t : ℚ)) = (k : ℚ) := by rw [hQ]; field_simp
    have h5 : (Q - Q * (1 / 9007199254740992)) * (2 * (t : ℚ)) = (k : ℚ) - (k : ℚ) / 9007199254740992 := by
      rw [sub_mul, mul_right_comm, hQt]; ring
    have : (1 : ℚ) ≤ (k : ℚ) / 9007199254740992 := by linarith
    have : (9007199254740992 : ℚ) ≤ (k : ℚ) := by
      rwa [le_div_iff₀ (by norm_num : (0 : ℚ) < 9007199254740992), one_mul] at this
    linarith

/-! ### `round_price_down` of anything at or below a half-integer mid-price -/

theorem div_ninf_fin (t : ℚ) (ht : 0 < t) : F64.div .ninf (.fin t) = .ninf := by
  simp [F64.div, sgn, not_lt.mpr (le_of_lt ht)]

theorem mul_ninf_fin (t : ℚ) (ht : 0 < t) : F64.mul .ninf (.fin t) = .ninf := by
  simp [F64.mul, sgn, not_lt.mpr (le_of_lt ht), ne_of_gt ht]

theorem roundDown_ninf (t : ℕ) (ht : 0 < t) : roundDown .ninf (F64.ofNat t) = 0 := by
  have htq : (0 : ℚ) < (t : ℚ) := by exact_mod_cast ht
  unfold roundDown F64.ofNat
  rw [div_ninf_fin _ htq]
  simp only [F64.floor]
  rw [mul_ninf_fin _ htq]
  exact toU32_clamp_nonpos _ (by simp [F64.le])

theorem roundDown_nan (t : ℕ) : roundDown .nan (F64.ofNat t) = 0 := by
  unfold roundDown F64.ofNat
  simp only [F64.div, F64.floor, F64.mul]
  exact toU32_clamp_nan

/-- **`round_price_down` in `f64`**: for every value `p` at or below a half-integer mid-price
`k/2 ≤ Price::MAX` the result is a multiple of the tick, at or below the mid-price. -/
theorem roundDown_valid (k t : ℕ) (ht : 0 < t) (htm : t ≤ 4294967295) (hk : k ≤ 8589934590)
    (p : F) (hp : F64.le p (.fin ((k : ℚ) / 2))) :
    roundDown p (F64.ofNat t) % t = 0 ∧ (roundDown p (F64.ofNat t) : ℚ) ≤ (k : ℚ) / 2 := by
  have htq : (0 : ℚ) < (t : ℚ) := by exact_mod_cast ht
  have hmid0 : (0 : ℚ) ≤ (k : ℚ) / 2 := by positivity
  have zero_ok : (0 : ℕ) % t = 0 ∧ ((0 : ℕ) : ℚ) ≤ (k : ℚ) / 2 := ⟨Nat.zero_mod _, by simpa using hmid0⟩
  cases p with
  | nan => exact absurd hp (by simp [F64.le])
  | pinf => exact absurd hp (by simp [F64.le])
  | ninf => rw [roundDown_ninf t ht]; exact zero_ok
  | fin pv =>
    have hpv : pv ≤ (k : ℚ) / 2 := hp
    -- the quotient
    have hdiv : F64.div (.fin pv) (.fin (t : ℚ)) = rnd (pv / (t : ℚ)) := by
      simp [F64.div, ne_of_gt htq]
    have hmono := rnd_mono (div_le_div_of_nonneg_right hpv (le_of_lt htq))
    -- rnd (mid / t) is finite
    obtain ⟨qm, hqm⟩ : ∃ qm, rnd ((k : ℚ) / 2 / (t : ℚ)) = .fin qm := by
      rcases Nat.eq_zero_or_pos k with h0 | hkpos
      · subst h0; exact ⟨0, by simp [rnd_zero]⟩
      · have hkq : (1 : ℚ) ≤ (k : ℚ) := by exact_mod_cast hkpos
        have hkq2 : (k : ℚ) ≤ 8589934590 := by exact_mod_cast hk
        have htq2 : (t : ℚ) ≤ 4294967295 := by exact_mod_cast htm
        have hQpos : (0 : ℚ) < (k : ℚ) / 2 / (t : ℚ) := by positivity
        have hlo : pow2 (-1022) ≤ (k : ℚ) / 2 / (t : ℚ) := by
          refine _root_.le_trans (pow2_le (show (-1022 : ℤ) ≤ -34 by norm_num)) ?_
          rw [pow2_eq, le_div_iff₀ htq]
          have : ((2 : ℚ) ^ (-34 : ℤ)) = 1 / 17179869184 := by norm_num
          rw [this]; nlinarith
        have hhi : (k : ℚ) / 2 / (t : ℚ) < pow2 1023 := by
          refine lt_of_le_of_lt ?_ (pow2_lt (show (34 : ℤ) < 1023 by norm_num))
          rw [pow2_eq, div_le_iff₀ htq]
          have : ((2 : ℚ) ^ (34 : ℤ)) = 17179869184 := by norm_num
          rw [this]
          have : (1 : ℚ) ≤ (t : ℚ) := by exact_mod_cast ht
          nlinarith
        obtain ⟨y, hy, _⟩ := rnd_err hQpos hlo hhi
        exact ⟨y, hy⟩
    rw [hqm] at hmono
    have hfq := floor_quot_le k t ht htm hk qm hqm
    unfold roundDown F64.ofNat
    rw [hdiv]
    cases hr : rnd (pv / (t : ℚ)) with
    | nan => rw [hr] at hmono; exact absurd hmono (by simp [F64.le])
    | pinf => rw [hr] at hmono; exact absurd hmono (by simp [F64.le])
    | ninf =>
      simp only [F64.floor]
      rw [mul_ninf_fin _ htq, toU32_clamp_nonpos _ (by simp [F64.le])]
      exact zero_ok
    | fin qv =>
      rw [hr] at hmono
      have hqv : qv ≤ qm := hmono
      simp only [F64.floor]
      have hmul : F64.mul (.fin (qv.floor : ℚ)) (.fin (t : ℚ)) = rnd ((qv.floor : ℚ) * (t : ℚ)) := rfl
      rw [hmul]
      have hfl : qv.floor ≤ qm.floor := floor_mono' hqv
      have hprod : (qv.floor : ℚ) * (t : ℚ) ≤ (k : ℚ) / 2 :=
        _root_.le_trans (mul_le_mul_of_nonneg_right (by exact_mod_cast hfl) (le_of_lt htq)) hfq
      by_cases hneg : qv.floor ≤ 0
      · have : (qv.floor : ℚ) * (t : ℚ) ≤ 0 :=
          mul_nonpos_of_nonpos_of_nonneg (by exact_mod_cast hneg) (le_of_lt htq)
        rw [toU32_clamp_nonpos _ (rnd_nonpos this)]
        exact zero_ok
      · have hpos : 0 < qv.floor := not_le.mp hneg
        obtain ⟨n, hn⟩ : ∃ n : ℕ, qv.floor = (n : ℤ) := Int.eq_ofNat_of_zero_le (le_of_lt hpos)
        have hnq : (qv.floor : ℚ) * (t : ℚ) = ((n * t : ℕ) : ℚ) := by rw [hn]; push_cast; ring
        have hkq2 : (k : ℚ) ≤ 8589934590 := by exact_mod_cast hk
        have hbound : ((n * t : ℕ) : ℚ) ≤ 4294967295 := by rw [← hnq]; linarith
        have hbn : n * t < 4503599627370496 := by
          have : n * t ≤ 4294967295 := by exact_mod_cast hbound
          omega
        rw [hnq, rnd_nat (n * t) hbn]
        rw [toU32_clamp_fin ((n * t : ℕ) : ℚ) (by positivity) (by simpa [MAXPF] using hbound) ((n * t : ℕ) : ℤ) (by push_cast; ring)]
        simp only [Int.toNat_natCast]
        refine ⟨Nat.mul_mod_left n t, ?_⟩
        rw [← hnq]; exact hprod

theorem abs_cases (d : F) : F64.abs d = .nan ∨ F64.abs d = .pinf ∨ ∃ a : ℚ, 0 ≤ a ∧ F64.abs d = .fin a := by
  cases d with
  | nan => left; rfl
  | pinf => right; left; rfl
  | ninf => right; left; rfl
  | fin r =>
    right; right
    by_cases h : r < 0
    · exact ⟨-r, by linarith, by simp [F64.abs, h]⟩
    · exact ⟨r, not_lt.mp h, by simp [F64.abs, h]⟩

/-- **Buy quotes in `f64`** (`place_buy_limit_order`, `place_buy_limit_order_market`): for every
sample of the price distribution — finite of either sign, infinite, even NaN —, every tick size and
every observed half-integer mid-price in `[0, Price::MAX]`, the quoted price is a multiple of the
tick and at or below the mid-price, in correctly rounded binary64 arithmetic. -/
theorem buyPrice_valid (k t : ℕ) (ht : 0 < t) (htm : t ≤ 4294967295) (hk : k ≤ 8589934590) (d : F) :
    buyPrice (.fin ((k : ℚ) / 2)) d t % t = 0 ∧ (buyPrice (.fin ((k : ℚ) / 2)) d t : ℚ) ≤ (k : ℚ) / 2 := by
  have hmid0 : (0 : ℚ) ≤ (k : ℚ) / 2 := by positivity
  unfold buyPrice
  rcases abs_cases d with h | h | ⟨a, ha, h⟩
  · rw [h]
    have : F64.sub (.fin ((k : ℚ) / 2)) .nan = .nan := rfl
    rw [this, roundDown_nan]
    exact ⟨Nat.zero_mod _, by simpa using hmid0⟩
  · rw [h]
    have : F64.sub (.fin ((k : ℚ) / 2)) .pinf = .ninf := rfl
    rw [this, roundDown_ninf t ht]
    exact ⟨Nat.zero_mod _, by simpa using hmid0⟩
  · rw [h]
    have hs : F64.sub (.fin ((k : ℚ) / 2)) (.fin a) = rnd ((k : ℚ) / 2 + -a) := rfl
    rw [hs]
    refine roundDown_valid k t ht htm hk _ ?_
    have := rnd_mono (show (k : ℚ) / 2 + -a ≤ (k : ℚ) / 2 by linarith)
    rwa [rnd_half k (by omega)] at this

theorem floor_maxpf : MAXPF.floor = 4294967295 := by
  have := Rat.floor_intCast 4294967295
  simpa [MAXPF] using this

/-- Anything at or above `Price::MAX` clamps and casts to `Price::MAX`. -/
theorem toU32_clamp_top (x : F) (h : F64.le (.fin MAXPF) x) : toU32 (clamp x 0 MAXPF) = 4294967295 := by
  have hM : (0 : ℚ) ≤ MAXPF := by norm_num [MAXPF]
  have top : toU32 (.fin MAXPF) = 4294967295 := by
    rw [toU32_fin, if_neg (not_lt.mpr hM), floor_maxpf]; simp
  cases x with
  | nan => exact absurd h (by simp [F64.le])
  | ninf => exact absurd h (by simp [F64.le])
  | pinf =>
    have l1 : lt .pinf (.fin 0) = false := by simp [lt]
    have l2 : lt (.fin MAXPF) .pinf = true := by simp [lt]
    unfold clamp; rw [l1, l2]; simp only [Bool.false_eq_true, if_false, if_true]; exact top
  | fin r =>
    have hr : MAXPF ≤ r := h
    have l1 : lt (.fin r) (.fin 0) = false := by simp [lt]; linarith
    unfold clamp; rw [l1]; simp only [Bool.false_eq_true, if_false]
    by_cases c : MAXPF < r
    · have l2 : lt (.fin MAXPF) (.fin r) = true := by simp [lt]; exact c
      rw [l2]; simp only [if_true]; exact top
    · have : r = MAXPF := le_antisymm (not_lt.mp c) hr
      subst this
      have l2 : lt (.fin MAXPF) (.fin MAXPF) = false := by simp [lt]
      rw [l2]; simp only [Bool.false_eq_true, if_false]; exact top

theorem div_pinf_fin (t : ℚ) (ht : 0 < t) : F64.div .pinf (.fin t) = .pinf := by
  simp [F64.div, sgn, not_lt.mpr (le_of_lt ht)]

theorem mul_pinf_fin (t : ℚ) (ht : 0 < t) : F64.mul .pinf (.fin t) = .pinf := by
  simp [F64.mul, sgn, not_lt.mpr (le_of_lt ht), ne_of_gt ht]

theorem roundUp_pinf (t : ℕ) (ht : 0 < t) : roundUp .pinf (F64.ofNat t) = 4294967295 := by
  have htq : (0 : ℚ) < (t : ℚ) := by exact_mod_cast ht
  unfold roundUp F64.ofNat
  rw [div_pinf_fin _ htq]
  simp only [F64.ceil]
  rw [mul_pinf_fin _ htq]
  exact toU32_clamp_top _ (by simp [F64.le])

/-- The repaired price `P − P % t` for `P = Price::MAX` is on the grid and within a tick of the top. -/
theorem top_repair (k t : ℕ) (ht : 0 < t) (hk : k + 2 * t ≤ 8589934590) :
    (4294967295 - 4294967295 % t) % t = 0 ∧ (k : ℚ) / 2 ≤ ((4294967295 - 4294967295 % t : ℕ) : ℚ) := by
  have h1 := Nat.mod_lt 4294967295 ht
  have h2 : 4294967295 % t ≤ 4294967295 := Nat.mod_le _ _
  constructor
  · have : 4294967295 - 4294967295 % t = t * (4294967295 / t) := by
      have := Nat.div_add_mod 4294967295 t; omega
    rw [this]; exact Nat.mul_mod_right _ _
  · have hn : k ≤ 2 * (4294967295 - 4294967295 % t) := by omega
    have : (k : ℚ) ≤ 2 * ((4294967295 - 4294967295 % t : ℕ) : ℚ) := by exact_mod_cast hn
    linarith

/-- **`round_price_up` followed by the grid repair, in `f64`**: for every value `p` at or above a
half-integer mid-price `k/2` that is at least one tick below `Price::MAX`, the repaired price is a
multiple of the tick and at or above the mid-price. -/
theorem roundUp_valid (k t : ℕ) (ht : 0 < t) (htm : t ≤ 4294967295) (hk : k + 2 * t ≤ 8589934590)
    (p : F) (hp : F64.le (.fin ((k : ℚ) / 2)) p) :
    (roundUp p (F64.ofNat t) - roundUp p (F64.ofNat t) % t) % t = 0 ∧
    (k : ℚ) / 2 ≤ ((roundUp p (F64.ofNat t) - roundUp p (F64.ofNat t) % t : ℕ) : ℚ) := by
  have htq : (0 : ℚ) < (t : ℚ) := by exact_mod_cast ht
  have hk' : k ≤ 8589934590 := by omega
  have hmid0 : (0 : ℚ) ≤ (k : ℚ) / 2 := by positivity
  cases p with
  | nan => exact absurd hp (by simp [F64.le])
  | ninf => exact absurd hp (by simp [F64.le])
  | pinf => rw [roundUp_pinf t ht]; exact top_repair k t ht hk
  | fin pv =>
    have hpv : (k : ℚ) / 2 ≤ pv := hp
    have hdiv : F64.div (.fin pv) (.fin (t : ℚ)) = rnd (pv / (t : ℚ)) := by
      simp [F64.div, ne_of_gt htq]
    have hmono := rnd_mono (div_le_div_of_nonneg_right hpv (le_of_lt htq))
    obtain ⟨qm, hqm⟩ : ∃ qm, rnd ((k : ℚ) / 2 / (t : ℚ)) = .fin qm := by
      rcases Nat.eq_zero_or_pos k with h0 | hkpos
      · subst h0; exact ⟨0, by simp [rnd_zero]⟩
      · have hkq : (1 : ℚ) ≤ (k : ℚ) := by exact_mod_cast hkpos
        have hkq2 : (k : ℚ) ≤ 8589934590 := by exact_mod_cast hk'
        have htq2 : (t : ℚ) ≤ 4294967295 := by exact_mod_cast htm
        have hQpos : (0 : ℚ) < (k : ℚ) / 2 / (t : ℚ) := by positivity
        have hlo : pow2 (-1022) ≤ (k : ℚ) / 2 / (t : ℚ) := by
          refine _root_.le_trans (pow2_le (show (-1022 : ℤ) ≤ -34 by norm_num)) ?_
          rw [pow2_eq, le_div_iff₀ htq]
          have : ((2 : ℚ) ^ (-34 : ℤ)) = 1 / 17179869184 := by norm_num
          rw [this]; nlinarith
        have hhi : (k : ℚ) / 2 / (t : ℚ) < pow2 1023 := by
          refine lt_of_le_of_lt ?_ (pow2_lt (show (34 : ℤ) < 1023 by norm_num))
          rw [pow2_eq, div_le_iff₀ htq]
          have : ((2 : ℚ) ^ (34 : ℤ)) = 17179869184 := by norm_num
          rw [this]
          have : (1 : ℚ) ≤ (t : ℚ) := by exact_mod_cast ht
          nlinarith
        obtain ⟨y, hy, _⟩ := rnd_err hQpos hlo hhi
        exact ⟨y, hy⟩
    rw [hqm] at hmono
    have hcq := ceil_quot_ge k t ht htm hk' qm hqm
    have hru : roundUp (.fin pv) (F64.ofNat t) =
        toU32 (clamp (F64.mul (F64.ceil (rnd (pv / (t : ℚ)))) (.fin (t : ℚ))) 0 MAXPF) := by
      unfold roundUp F64.ofNat; rw [hdiv]
    cases hr : rnd (pv / (t : ℚ)) with
    | nan => rw [hr] at hmono; exact absurd hmono (by simp [F64.le])
    | ninf => rw [hr] at hmono; exact absurd hmono (by simp [F64.le])
    | pinf =>
      rw [hru, hr]
      simp only [F64.ceil]
      rw [mul_pinf_fin _ htq, toU32_clamp_top _ (by simp [F64.le])]
      exact top_repair k t ht hk
    | fin qv =>
      rw [hr] at hmono
      have hqv : qm ≤ qv := hmono
      rw [hru, hr]
      simp only [F64.ceil]
      have hmul : F64.mul (.fin (qv.ceil : ℚ)) (.fin (t : ℚ)) = rnd ((qv.ceil : ℚ) * (t : ℚ)) := rfl
      rw [hmul]
      have hcl : qm.ceil ≤ qv.ceil := by
        have h1 : qv ≤ (qv.ceil : ℚ) := Rat.le_ceil
        exact Rat.ceil_le_iff.mpr (_root_.le_trans hqv h1)
      have hprod : (k : ℚ) / 2 ≤ (qv.ceil : ℚ) * (t : ℚ) :=
        _root_.le_trans hcq (mul_le_mul_of_nonneg_right (by exact_mod_cast hcl) (le_of_lt htq))
      have hc0 : 0 ≤ qv.ceil := by
        by_contra hneg
        have : (qv.ceil : ℚ) < 0 := by exact_mod_cast not_le.mp hneg
        have : (qv.ceil : ℚ) * (t : ℚ) < 0 := mul_neg_of_neg_of_pos this htq
        linarith
      obtain ⟨n, hn⟩ : ∃ n : ℕ, qv.ceil = (n : ℤ) := Int.eq_ofNat_of_zero_le hc0
      have hnq : (qv.ceil : ℚ) * (t : ℚ) = ((n * t : ℕ) : ℚ) := by rw [hn]; push_cast; ring
      rw [hnq] at hprod ⊢
      by_cases hbig : n * t ≤ 4294967295
      · rw [rnd_nat (n * t) (by omega)]
        have hb : ((n * t : ℕ) : ℚ) ≤ MAXPF := by
          have : ((n * t : ℕ) : ℚ) ≤ 4294967295 := by exact_mod_cast hbig
          simpa [MAXPF] using this
        rw [toU32_clamp_fin ((n * t : ℕ) : ℚ) (by positivity) hb ((n * t : ℕ) : ℤ) (by push_cast; ring)]
        simp only [Int.toNat_natCast]
        have hm : n * t % t = 0 := Nat.mul_mod_left n t
        rw [hm, Nat.sub_zero]
        exact ⟨hm, hprod⟩
      · have hge : (4294967295 : ℚ) ≤ ((n * t : ℕ) : ℚ) := by
          have : 4294967295 ≤ n * t := by omega
          exact_mod_cast this
        have h1 := rnd_mono hge
        have h2 : rnd (4294967295 : ℚ) = .fin 4294967295 := by
          have := rnd_nat 4294967295 (by norm_num)
          simpa using this
        rw [h2] at h1
        rw [toU32_clamp_top _ (by simpa [MAXPF] using h1)]
        exact top_repair k t ht hk

/-- **Sell quotes in `f64`** (`place_sell_limit_order`, `place_sell_limit_order_market`): for every
non-NaN sample of the price distribution, every tick size and every observed half-integer mid-price
at least one tick below `Price::MAX`, the quoted price is a multiple of the tick and at or above the
mid-price, in correctly rounded binary64 arithmetic. -/
theorem sellPrice_valid (k t : ℕ) (ht : 0 < t) (htm : t ≤ 4294967295) (hk : k + 2 * t ≤ 8589934590)
    (d : F) (hd : d ≠ .nan) :
    sellPrice (.fin ((k : ℚ) / 2)) d t % t = 0 ∧ (k : ℚ) / 2 ≤ (sellPrice (.fin ((k : ℚ) / 2)) d t : ℚ) := by
  unfold sellPrice
  simp only []
  rcases abs_cases d with h | h | ⟨a, ha, h⟩
  · cases d <;> simp_all [F64.abs]
  · rw [h]
    have : F64.add (.fin ((k : ℚ) / 2)) .pinf = .pinf := rfl
    rw [this]
    exact roundUp_valid k t ht htm hk _ (by simp [F64.le])
  · rw [h]
    have hs : F64.add (.fin ((k : ℚ) / 2)) (.fin a) = rnd ((k : ℚ) / 2 + a) := rfl
    rw [hs]
    refine roundUp_valid k t ht htm hk _ ?_
    have := rnd_mono (show (k : ℚ) / 2 ≤ (k : ℚ) / 2 + a by linarith)
    rwa [rnd_half k (by omega)] at this

/-- The sell price is on the grid whatever the sample is (NaN included). -/
theorem sellPrice_grid (mid d : F) (t : ℕ) : sellPrice mid d t % t = 0 := by
  unfold sellPrice
  simp only []
  set p := roundUp (F64.add mid (F64.abs d)) (F64.ofNat t)
  have : p - p % t = t * (p / t) := by
    have := Nat.div_add_mod p t; omega
  rw [this]; exact Nat.mul_mod_right _ _

end FAgents
end Bourse
