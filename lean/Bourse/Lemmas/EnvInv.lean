/-
The book invariant lifted to markets and environments: in every state a multi-asset market or a
simulation environment can reach by valid, fault-free operations — whatever agents submit and
whatever permutation a step processes — EVERY book satisfies `Inv`. So everything proved for a
single book from `Inv` (published views = recomputation, reload identity, …) holds for every asset
of a running simulation.
-/
import Bourse.Lemmas.Reach
import Bourse.Lemmas.ViewsCorrect
import Bourse.Model.Env

namespace Bourse

/-- Every book of the market satisfies the book invariant. -/
def Market.Inv (m : Market) : Prop := ∀ b ∈ m.books, Bourse.Inv b

theorem Market.inv_new (t0 : Nat) (ticks : List Nat) (trading : Bool) (ht : ∀ t ∈ ticks, 0 < t) :
    (Market.new t0 ticks trading).Inv := by
  intro b hb
  simp only [Market.new, List.mem_map] at hb
  obtain ⟨tk, htk, rfl⟩ := hb
  exact Bourse.inv_new t0 tk trading (ht tk htk)

theorem Market.Inv.mapBooks {m : Market} (h : m.Inv) (f : Book → Book) (hf : ∀ b, Bourse.Inv b → Bourse.Inv (f b)) :
    Market.Inv { m with books := m.books.map f } := by
  intro b hb
  simp only [List.mem_map] at hb
  obtain ⟨b0, hb0, rfl⟩ := hb
  exact hf b0 (h b0 hb0)

theorem Market.Inv.setTime {m : Market} (h : m.Inv) (t : Nat) : (m.setTime t).Inv :=
  h.mapBooks _ fun _ hb => hb.congr rfl rfl rfl rfl rfl

theorem Market.Inv.resetTradeVols {m : Market} (h : m.Inv) : m.resetTradeVols.Inv :=
  h.mapBooks _ fun _ hb => hb.congr rfl rfl rfl rfl rfl

theorem Market.Inv.enableTrading {m : Market} (h : m.Inv) : m.enableTrading.Inv :=
  h.mapBooks _ fun _ hb => hb.congr rfl rfl rfl rfl rfl

theorem Market.Inv.disableTrading {m : Market} (h : m.Inv) : m.disableTrading.Inv :=
  h.mapBooks _ fun _ hb => hb.congr rfl rfl rfl rfl rfl

/-- An operation forwarded to one asset preserves the invariant of every book, provided it is valid
and does not fault on the addressed book. -/
theorem Market.Inv.stepOn {m : Market} (h : m.Inv) (a : Nat) (op : Op) (hv : ValidOp op)
    (hnf : ∀ b, m.books[a]? = some b → (b.step op).1.faulted = false) : (m.stepOn a op).1.Inv := by
  unfold Market.stepOn
  cases hb : m.books[a]? with
  | none => exact h
  | some b =>
    intro x hx
    simp only at hx
    have hbm : b ∈ m.books := List.mem_of_getElem? hb
    rcases List.mem_or_eq_of_mem_set hx with h1 | h1
    · exact h x h1
    · rw [h1]; exact inv_step (h b hbm) op hv (hnf b hb)

/-- Creating an order never faults: valid volume and price suffice. -/
theorem Market.Inv.createOrder {m : Market} (h : m.Inv) (a : Nat) (sd : Side) (vol tr : Nat) (p : Option Nat)
    (hvol : 0 < vol) (hp : ∀ q, p = some q → q ≤ MAXP) : (m.createOrder a sd vol tr p).1.Inv := by
  unfold Market.createOrder Market.stepOn
  cases hb : m.books[a]? with
  | none => exact h
  | some b =>
    intro x hx
    simp only at hx
    have hbm : b ∈ m.books := List.mem_of_getElem? hb
    rcases List.mem_or_eq_of_mem_set hx with h1 | h1
    · exact h x h1
    · rw [h1]
      simp only [Book.step]
      exact (h b hbm).create sd vol tr p hvol hp

/-! ### One environment step -/

/-- The batch runs without faulting and carries only valid instructions (modification volumes ≥ 1,
prices within `u32`): stated along the run, like `NoFault` for a single book. -/
def BatchOk : Market → Nat → Nat → List Instr → Prop
  | _, _, _, [] => True
  | m, start, i, (a, ev) :: rest =>
    ValidOp (.ev ev) ∧
    (∀ b, (m.setTime (start + i)).books[a]? = some b → (b.step (.ev ev)).1.faulted = false) ∧
    BatchOk ((m.setTime (start + i)).processEvent a ev) start (i + 1) rest

theorem processBatch_inv {m : Market} (h : m.Inv) (start i : Nat) (batch : List Instr) (hok : BatchOk m start i batch) :
    (MEnv.processBatch m start i batch).Inv := by
  induction batch generalizing m i with
  | nil => exact h
  | cons x rest ih =>
    obtain ⟨a, ev⟩ := x
    simp only [MEnv.processBatch]
    obtain ⟨hv, hnf, hrest⟩ := hok
    exact ih ((h.setTime _).stepOn a (.ev ev) hv hnf) (i + 1) hrest

theorem stepWith_inv {e : MEnv} (h : e.market.Inv) (batch : List Instr)
    (hok : BatchOk e.market.resetTradeVols e.market.time 0 batch) : (e.stepWith batch).market.Inv := by
  simp only [MEnv.stepWith]
  exact (processBatch_inv h.resetTradeVols _ 0 batch hok).setTime _

/-- What an environment operation must satisfy: valid volumes / prices for submissions, and for a
step a batch — whatever permutation the generator produces — that runs without faulting. -/
def EnvOpOk (e : MEnv) (g : Xoro) : MEnv.EOp → Prop
  | .submit _ _ vol _ p => 0 < vol ∧ ∀ q, p = some q → q ≤ MAXP
  | .step =>
    match Xoro.shuffle e.queue g with
    | some (batch, _) => BatchOk e.market.resetTradeVols e.market.time 0 batch
    | none => True
  | _ => True

/-- **One environment operation** preserves the invariant of every book. -/
theorem env_inv_apply {e : MEnv} (h : e.market.Inv) (g : Xoro) (op : MEnv.EOp) (hok : EnvOpOk e g op) :
    (e.apply g op).1.1.market.Inv := by
  cases op with
  | submit a sd vol tr p =>
    simp only [MEnv.apply, MEnv.placeOrder]
    have := h.createOrder a sd vol tr p hok.1 hok.2
    split <;> exact this
  | qcancel a id => exact h
  | qmodify a id p v => exact h
  | step =>
    simp only [MEnv.apply, MEnv.step]
    simp only [EnvOpOk] at hok
    split
    · rename_i batch g' hs
      rw [hs] at hok
      exact stepWith_inv h batch hok
    · exact h
  | trading on =>
    cases on
    · exact h.disableTrading
    · exact h.enableTrading

/-- Run a list of environment operations, threading the generator. -/
def MEnv.runOps : MEnv × Xoro → List MEnv.EOp → MEnv × Xoro
  | s, [] => s
  | s, op :: rest => MEnv.runOps (s.1.apply s.2 op).1 rest

def EnvRunOk : MEnv × Xoro → List MEnv.EOp → Prop
  | _, [] => True
  | s, op :: rest => EnvOpOk s.1 s.2 op ∧ EnvRunOk (s.1.apply s.2 op).1 rest

/-- **Every reachable state of an environment**: after any sequence of submissions, queued
cancellations / modifications, trading switches and steps — with any generator — every book of the
environment satisfies the book invariant. -/
theorem env_inv_run {s : MEnv × Xoro} (h : s.1.market.Inv) (ops : List MEnv.EOp) (hok : EnvRunOk s ops) :
    (MEnv.runOps s ops).1.market.Inv := by
  induction ops generalizing s with
  | nil => exact h
  | cons op rest ih =>
    simp only [MEnv.runOps]
    exact ih (env_inv_apply h s.2 op hok.1) hok.2

theorem env_inv_reachable (t0 : Nat) (ticks : List Nat) (stepSize : Nat) (trading : Bool) (n : Nat) (g : Xoro)
    (ht : ∀ t ∈ ticks, 0 < t) (ops : List MEnv.EOp) (hok : EnvRunOk (MEnv.new t0 ticks stepSize trading n, g) ops) :
    (MEnv.runOps (MEnv.new t0 ticks stepSize trading n, g) ops).1.market.Inv :=
  env_inv_run (Market.inv_new t0 ticks trading ht) ops hok

/-- **Published data of every asset of a running simulation equals its resting orders**: in every
reachable environment state, for every book, every view equals the recomputation from that book's
order list (`views_correct` lifted through `env_inv_run`). -/
theorem env_views_correct {s : MEnv × Xoro} (h : s.1.market.Inv) (ops : List MEnv.EOp) (hok : EnvRunOk s ops)
    (b : Book) (hb : b ∈ (MEnv.runOps s ops).1.market.books) (n : Nat) (hn : ∀ i, i < n → i * b.tick < P32) :
    let os := b.orders.map (·.order)
    b.bidAsk = (Views.bestBid os, Views.bestAsk os) ∧
    b.bidVol = Views.sideVol os .bid ∧ b.askVol = Views.sideVol os .ask ∧
    b.bidBestVolAndOrders = Views.touch os .bid ∧ b.askBestVolAndOrders = Views.touch os .ask ∧
    b.bidLevels n = Views.levels os b.tick .bid n ∧ b.askLevels n = Views.levels os b.tick .ask n ∧
    b.level1 = Views.level1 os ∧ b.level2 n = Views.level2 os b.tick n ∧ b.mid2 = Views.mid2 os :=
  views_correct (env_inv_run h ops hok b hb) n hn

end Bourse
