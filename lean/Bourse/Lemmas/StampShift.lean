/-
Stamp shift: adding `k` to the stamp counter and to every stored stamp changes nothing a client can
see — the invariant is kept, the abstraction (queues read in key order) is the same, and loading the
shifted snapshot (`Book.reloadShift`, the harness's `jump k`) yields exactly the shifted book.

Why this matters: the queue stamp is a `u64` counter that only grows. States whose counter is near
`2^32` (or any other boundary an implementation might mishandle) are reachable only after billions
of insertions; the correspondence check reaches them through a snapshot whose stamps are shifted.
These theorems say that such a snapshot is, for every continuation, the original book.
-/
import Bourse.Lemmas.Reload
import Bourse.Lemmas.RefineStep

namespace Bourse

def shiftKey (k : Nat) (e : (Nat × Nat) × Nat) : (Nat × Nat) × Nat := ((e.1.1, e.1.2 + k), e.2)

theorem SideS.shift_orders (k : Nat) (s : SideS) : (s.shift k).orders = s.orders.map (shiftKey k) := rfl

theorem sorted_shift (k : Nat) (q : SMap (Nat × Nat) Nat) (h : SMap.Sorted q) : SMap.Sorted (q.map (shiftKey k)) := by
  unfold SMap.Sorted at *
  rw [List.pairwise_map]
  refine h.imp ?_
  intro a b hab
  obtain ⟨⟨a1, a2⟩, a3⟩ := a
  obtain ⟨⟨b1, b2⟩, b3⟩ := b
  simp [shiftKey, KeyOrd.lt] at hab ⊢
  rcases hab with h | ⟨h1, h2⟩
  · exact Or.inl (decide_eq_true h)
  · exact Or.inr ⟨decide_eq_true h1, h2⟩

theorem mem_shift {k : Nat} {q : SMap (Nat × Nat) Nat} {key : Nat × Nat} {id : Nat}
    (h : (key, id) ∈ q.map (shiftKey k)) : ∃ st, key = (key.1, st + k) ∧ ((key.1, st), id) ∈ q := by
  obtain ⟨e, he, heq⟩ := List.mem_map.mp h
  simp only [shiftKey, Prod.mk.injEq] at heq
  obtain ⟨h1, h3⟩ := heq
  subst h1 h3
  exact ⟨e.1.2, rfl, he⟩

theorem shift_mem {k : Nat} {q : SMap (Nat × Nat) Nat} {pk st id : Nat} (h : ((pk, st), id) ∈ q) :
    ((pk, st + k), id) ∈ q.map (shiftKey k) :=
  List.mem_map.mpr ⟨((pk, st), id), h, rfl⟩

theorem getElem?_shift (k : Nat) (os : List Entry) (i : Nat) :
    (os.map (Entry.shift k))[i]? = (os[i]?).map (Entry.shift k) := by simp

theorem volOf_shift (k : Nat) (os : List Entry) (id : Nat) : volOf (os.map (Entry.shift k)) id = volOf os id := by
  simp only [volOf, getElem?_shift, Option.map_map]
  rfl

theorem atKey_shift (k : Nat) (q : SMap (Nat × Nat) Nat) (pk : Nat) :
    atKey (q.map (shiftKey k)) pk = (atKey q pk).map (shiftKey k) := by
  simp only [atKey, List.filter_map]
  rfl

theorem aggAt_shift (k : Nat) (os : List Entry) (q : SMap (Nat × Nat) Nat) (pk : Nat) :
    aggAt (os.map (Entry.shift k)) (q.map (shiftKey k)) pk = aggAt os q pk := by
  simp only [aggAt, atKey_shift, List.map_map, List.length_map]
  congr 2
  apply List.map_congr_left
  intro e _
  simp [shiftKey, volOf_shift]

theorem totalVol_shift (k : Nat) (os : List Entry) (q : SMap (Nat × Nat) Nat) :
    totalVol (os.map (Entry.shift k)) (q.map (shiftKey k)) = totalVol os q := by
  simp only [totalVol, List.map_map]
  congr 1
  apply List.map_congr_left
  intro e _
  simp [shiftKey, volOf_shift]

theorem SideInv.shift {os : List Entry} {sd : Side} {s : SideS} {stamp : Nat} (h : SideInv os sd s stamp) (k : Nat) :
    SideInv (os.map (Entry.shift k)) sd (s.shift k) (stamp + k) where
  so := sorted_shift k _ h.so
  sv := h.sv
  ent := by
    intro key id hm
    rw [SideS.shift_orders] at hm
    obtain ⟨st, hk, hm'⟩ := mem_shift hm
    obtain ⟨e, he, ha, hs, hkey, hpk, hv, hst, hp⟩ := h.ent _ _ hm'
    refine ⟨e.shift k, ?_, ha, hs, ?_, hpk, hv, ?_, hp⟩
    · rw [getElem?_shift, he]; rfl
    · rw [hk]; simp only [Entry.shift, hkey]
    · rw [hk]; simp only at hst ⊢; omega
  agg := by
    intro pk
    rw [SideS.shift_orders, aggAt_shift]
    exact h.agg pk
  tot := by
    rw [SideS.shift_orders, totalVol_shift]
    exact h.tot
  bnd := h.bnd
  nofault := h.nofault

theorem Book.shift_side (k : Nat) (b : Book) (sd : Side) : (b.shift k).side sd = (b.side sd).shift k := by
  cases sd <;> rfl

/-- **The shifted book satisfies the invariant.** -/
theorem Inv.shift {b : Book} (h : Inv b) (k : Nat) : Inv (b.shift k) where
  bid := h.bid.shift k
  ask := h.ask.shift k
  act := by
    intro id e he ha
    simp only [Book.shift, getElem?_shift] at he
    obtain ⟨e0, he0, rfl⟩ := Option.map_eq_some_iff.mp he
    have := h.act id e0 he0 ha
    rw [Book.shift_side, SideS.shift_orders]
    exact shift_mem this
  ids := by
    intro id e he
    simp only [Book.shift, getElem?_shift] at he
    obtain ⟨e0, he0, rfl⟩ := Option.map_eq_some_iff.mp he
    exact h.ids id e0 he0
  newok := by
    intro id e he hn
    simp only [Book.shift, getElem?_shift] at he
    obtain ⟨e0, he0, rfl⟩ := Option.map_eq_some_iff.mp he
    exact h.newok id e0 he0 hn
  nofault := h.nofault

/-- **Same abstraction**: the reference engine's state (order records, the two FIFO id lists, log,
clock, counter, flag) does not see the shift. -/
theorem abs_shift (b : Book) (k : Nat) : abs (b.shift k) = abs b := by
  simp only [abs, Book.shift, absq, absOrders, SideS.shift, List.map_map]
  congr 1

/-- **Loading the shifted snapshot is the shifted book** (so the harness's `jump k` is `Book.shift k`
on every state satisfying the invariant). -/
theorem reloadShift_eq {b : Book} (h : Inv b) (k : Nat) : b.reloadShift k = b.shift k := by
  have := reload_eq (h.shift k)
  simpa [Book.reload, Book.reloadShift, Book.save, Book.shift, Snap.shift] using this

/-- **A stamp jump is invisible, now and under every continuation**: the complete observation after
the jump is the one before it, and along every valid fault-free history the results and complete
observations from the shifted book are those from the original. -/
theorem shift_silent {b : Book} (h : Inv b) (k n : Nat) (hn : ∀ i, i < n → i * b.tick < P32) (ops : List Op)
    (hv : ∀ op ∈ ops, ValidOp op) (hnf : NoFault b ops) (hnf' : NoFault (b.shift k) ops) :
    (b.shift k).observe n = b.observe n ∧ Book.trace n (b.shift k) ops = Book.trace n b ops := by
  have ht : (b.shift k).tick = b.tick := rfl
  constructor
  · rw [observe_abs (h.shift k) n (by rw [ht]; exact hn), observe_abs h n hn, abs_shift]
  · rw [trace_refines (h.shift k) n (by rw [ht]; exact hn) ops hv hnf', trace_refines h n hn ops hv hnf, abs_shift]

end Bourse
