/-
`rand 0.8.5` `UniformInt::<u32>::sample_single` (the widening-multiply rejection method behind
`gen_range`, `gen_index`, `choose` and `shuffle`) is *exactly* uniform: over the `2^32` possible
values of one `u32` draw, every result `r < range` is produced by exactly `2^lz` draws
(`lz = range.leading_zeros()`), and at least half of all draws are accepted.
-/
import Bourse.Model.Rng
import Mathlib.Order.Interval.Finset.Nat
import Mathlib.Tactic.Ring
import Mathlib.Tactic.NormNum
import Mathlib.Algebra.BigOperators.Group.Finset.Basic

namespace Bourse
namespace Xoro

theorem lz32_spec (n : Nat) (h0 : 0 < n) (h1 : n < 4294967296) :
    2147483648 ≤ n * 2 ^ lz32 n ∧ n * 2 ^ lz32 n < 4294967296 := by
  have hne : n ≠ 0 := by omega
  have hlog : n.log2 < 32 := (Nat.log2_lt hne).mpr h1
  have hlo := Nat.log2_self_le hne
  have hhi := Nat.lt_log2_self (n := n)
  have hlz : lz32 n = 31 - n.log2 := by unfold lz32; omega
  rw [hlz]
  have hp : 2 ^ n.log2 * 2 ^ (31 - n.log2) = 2 ^ 31 := by rw [← Nat.pow_add]; congr 1; omega
  have hp' : 2 ^ (n.log2 + 1) * 2 ^ (31 - n.log2) = 2 ^ 32 := by rw [← Nat.pow_add]; congr 1; omega
  have hpos : 0 < 2 ^ (31 - n.log2) := Nat.two_pow_pos _
  constructor
  · calc 2147483648 = 2 ^ n.log2 * 2 ^ (31 - n.log2) := by rw [hp]; norm_num
      _ ≤ n * 2 ^ (31 - n.log2) := Nat.mul_le_mul_right _ hlo
  · calc n * 2 ^ (31 - n.log2) < 2 ^ (n.log2 + 1) * 2 ^ (31 - n.log2) := Nat.mul_lt_mul_of_pos_right hhi hpos
      _ = 4294967296 := by rw [hp']; norm_num

theorem zone_spec (n : Nat) (h0 : 0 < n) (h1 : n < 4294967296) : zone n + 1 = n * 2 ^ lz32 n := by
  have := lz32_spec n h0 h1
  unfold zone
  rw [Nat.mod_eq_of_lt this.2]
  omega

/-- `accept range v = some r` says: `v·range` lies in the window `[r·2^32, r·2^32 + range·2^lz)`. -/
theorem accept_iff (range v r : Nat) (h0 : 0 < range) (h1 : range < 4294967296) :
    accept range v = some r ↔ r * 4294967296 ≤ v * range ∧ v * range < r * 4294967296 + range * 2 ^ lz32 range := by
  have hz := zone_spec range h0 h1
  have hb := lz32_spec range h0 h1
  unfold accept
  simp only
  have hdm := Nat.div_add_mod (v * range) 4294967296
  constructor
  · intro h
    split at h
    · injection h with h
      subst h
      constructor <;> [skip; skip] <;> omega
    · cases h
  · intro ⟨hlo, hhi⟩
    have hq : v * range / 4294967296 = r := by
      apply Nat.div_eq_of_lt_le <;> omega
    have : v * range % 4294967296 ≤ zone range := by omega
    rw [if_pos this, hq]

/-- The window contains exactly the draws `c ≤ v < c + 2^lz`, `c = ⌈r·2^32 / range⌉`. -/
theorem accept_iff_interval (range v r : Nat) (h0 : 0 < range) (h1 : range < 4294967296) :
    accept range v = some r ↔
      (r * 4294967296 + range - 1) / range ≤ v ∧ v < (r * 4294967296 + range - 1) / range + 2 ^ lz32 range := by
  rw [accept_iff range v r h0 h1]
  generalize r * 4294967296 = a
  generalize 2 ^ lz32 range = k
  -- c = ⌈a / range⌉
  have hc1 : ∀ w, a ≤ w * range ↔ (a + range - 1) / range ≤ w := by
    intro w
    rw [Nat.div_le_iff_le_mul_add_pred h0]
    constructor <;> intro h <;> [skip; skip]
    · have : range * w = w * range := Nat.mul_comm _ _
      omega
    · have : range * w = w * range := Nat.mul_comm _ _
      omega
  constructor
  · intro ⟨hlo, hhi⟩
    refine ⟨(hc1 v).mp hlo, ?_⟩
    by_cases hvk : v < k
    · have : 0 ≤ (a + range - 1) / range := Nat.zero_le _
      omega
    · -- (v - k)·range < a, so v - k < c
      have hvk' : k ≤ v := by omega
      have h2 : (v - k) * range < a := by
        have : (v - k) * range + k * range = v * range := by rw [← Nat.add_mul]; congr 1; omega
        have : range * k = k * range := Nat.mul_comm _ _
        omega
      have h3 : ¬ ((a + range - 1) / range ≤ v - k) := fun hle => by
        have := (hc1 (v - k)).mpr hle
        omega
      omega
  · intro ⟨hlo, hhi⟩
    refine ⟨(hc1 v).mpr hlo, ?_⟩
    by_cases hvk : v < k
    · have h4 : v * range < k * range := Nat.mul_lt_mul_of_pos_right hvk h0
      have : range * k = k * range := Nat.mul_comm _ _
      omega
    · have hvk' : k ≤ v := by omega
      have h3 : ¬ ((a + range - 1) / range ≤ v - k) := by omega
      have h2 : ¬ (a ≤ (v - k) * range) := fun hle => h3 ((hc1 (v - k)).mp hle)
      have : (v - k) * range + k * range = v * range := by rw [← Nat.add_mul]; congr 1; omega
      have : range * k = k * range := Nat.mul_comm _ _
      omega

/-- Accepted draws below `2^32` only: the window of a result `r < range` ends at or before `2^32`. -/
theorem accept_window_le (range r : Nat) (h0 : 0 < range) (h1 : range < 4294967296) (hr : r < range) :
    (r * 4294967296 + range - 1) / range + 2 ^ lz32 range ≤ 4294967296 := by
  have hb := lz32_spec range h0 h1
  -- c·range < r·M + range, k·range ≤ M, r + 1 ≤ range
  have hc : (r * 4294967296 + range - 1) / range * range ≤ r * 4294967296 + range - 1 := Nat.div_mul_le_self _ _
  have hk : range * 2 ^ lz32 range < 4294967296 := hb.2
  have hsum : ((r * 4294967296 + range - 1) / range + 2 ^ lz32 range) * range < (r + 1) * 4294967296 + range := by
    rw [Nat.add_mul]
    have : 2 ^ lz32 range * range = range * 2 ^ lz32 range := Nat.mul_comm _ _
    have : (r + 1) * 4294967296 = r * 4294967296 + 4294967296 := by ring
    omega
  have hle : (r + 1) * 4294967296 ≤ range * 4294967296 := Nat.mul_le_mul_right _ hr
  have : ((r * 4294967296 + range - 1) / range + 2 ^ lz32 range) * range < (4294967296 + 1) * range := by
    have : (4294967296 + 1) * range = range * 4294967296 + range := by ring
    omega
  have := Nat.lt_of_mul_lt_mul_right this
  omega

/-- **Exact uniformity of one bounded draw.** Among the `2^32` values of a `u32`, exactly
`2^lz` are accepted with result `r`, for every `r < range`: conditional on acceptance, a uniform
`u32` gives a uniform result in `0..range`. -/
theorem accept_count (range r : Nat) (h0 : 0 < range) (h1 : range < 4294967296) (hr : r < range) :
    ((Finset.range 4294967296).filter (fun v => accept range v = some r)).card = 2 ^ lz32 range := by
  have hw := accept_window_le range r h0 h1 hr
  have : (Finset.range 4294967296).filter (fun v => accept range v = some r) =
      Finset.Ico ((r * 4294967296 + range - 1) / range) ((r * 4294967296 + range - 1) / range + 2 ^ lz32 range) := by
    ext v
    simp only [Finset.mem_filter, Finset.mem_range, Finset.mem_Ico]
    rw [accept_iff_interval range v r h0 h1]
    constructor
    · intro h; exact h.2
    · intro h; exact ⟨by omega, h⟩
  rw [this, Nat.card_Ico]
  exact Nat.add_sub_cancel_left ..

/-- Results are always in range. -/
theorem accept_lt (range v r : Nat) (h0 : 0 < range) (h1 : range < 4294967296) (hv : v < 4294967296)
    (h : accept range v = some r) : r < range := by
  rw [accept_iff range v r h0 h1] at h
  have : v * range < 4294967296 * range := Nat.mul_lt_mul_of_pos_right hv h0
  have h2 : r * 4294967296 < range * 4294967296 := by
    have : 4294967296 * range = range * 4294967296 := Nat.mul_comm _ _
    omega
  exact Nat.lt_of_mul_lt_mul_right h2

/-- **At least half of all draws are accepted** (so the rejection loop ends after `k` draws with
probability at least `1 - 2^-k`; the model's fuel of 256 draws is never exhausted in practice). -/
theorem accept_total (range : Nat) (h0 : 0 < range) (h1 : range < 4294967296) :
    ((Finset.range 4294967296).filter (fun v => (accept range v).isSome)).card = range * 2 ^ lz32 range ∧
    2147483648 ≤ range * 2 ^ lz32 range := by
  refine ⟨?_, (lz32_spec range h0 h1).1⟩
  have hdisj : (Finset.range 4294967296).filter (fun v => (accept range v).isSome) =
      (Finset.range range).biUnion (fun r => (Finset.range 4294967296).filter (fun v => accept range v = some r)) := by
    ext v
    simp only [Finset.mem_filter, Finset.mem_range, Finset.mem_biUnion]
    constructor
    · intro ⟨hv, hs⟩
      obtain ⟨r, hr⟩ := Option.isSome_iff_exists.mp hs
      exact ⟨r, accept_lt range v r h0 h1 hv hr, hv, hr⟩
    · intro ⟨r, _, hv, hr⟩
      exact ⟨hv, by rw [hr]; rfl⟩
  rw [hdisj, Finset.card_biUnion]
  · rw [Finset.sum_congr rfl (fun r hr => accept_count range r h0 h1 (Finset.mem_range.mp hr))]
    simp
  · intro r _ r' _ hne
    simp only [Function.onFun]
    rw [Finset.disjoint_left]
    intro v hv hv'
    simp only [Finset.mem_filter] at hv hv'
    rw [hv.2] at hv'
    exact hne (Option.some.inj hv'.2)

end Xoro
end Bourse
