/-
`load (save b) = b` for every book satisfying `Inv` (C07): the rebuild loop of the snapshot loader
re-creates both side indexes exactly.
-/
import Bourse.Lemmas.BookInvOps
import Bourse.Model.Snapshot

namespace Bourse

/-- Each queued order has volume ≥ 1, so the order count at a price key is at most its volume. -/
theorem SideInv.count_le_vol {os : List Entry} {sd : Side} {s : SideS} {stamp : Nat} (h : SideInv os sd s stamp) (pk : Nat) :
    (aggAt os s.orders pk).2 ≤ (aggAt os s.orders pk).1 := by
  have key : ∀ (q : SMap (Nat × Nat) Nat), (∀ e ∈ q, 0 < volOf os e.2) → (aggAt os q pk).2 ≤ (aggAt os q pk).1 := by
    intro q
    induction q with
    | nil => intro _; simp [aggAt, atKey]
    | cons hd tl ih =>
      intro hq
      obtain ⟨k, id⟩ := hd
      rw [aggAt_cons]
      have := ih (fun e he => hq e (List.mem_cons_of_mem _ he))
      have hp := hq (k, id) List.mem_cons_self
      simp only at hp
      split
      · simp only; omega
      · exact this
  apply key
  intro e he
  obtain ⟨e0, he0, _, _, _, _, hv, _, _⟩ := h.ent e.1 e.2 he
  simp [volOf, he0]; exact hv

/-- Re-inserting an entry that was just removed gives the side back, literally. -/
theorem SideInv.insert_remove {os : List Entry} {sd : Side} {s : SideS} {stamp : Nat} (h : SideInv os sd s stamp)
    (pk st id : Nat) (e : Entry) (hm : ((pk, st), id) ∈ s.orders) (he : os[id]? = some e) :
    (s.removeOrder pk st e.order.vol).insertOrder pk st id e.order.vol = s := by
  obtain ⟨vol, volumes, orders, fault⟩ := s
  have hso : SMap.Sorted orders := h.so
  have hsv : SMap.Sorted volumes := h.sv
  have hnf : fault = false := h.nofault
  have hbnd : vol < P32 := h.bnd
  have htotal : vol = totalVol os orders := h.tot
  simp only at hm
  have hfind := SMap.find?_of_mem hso hm
  have hperm := SMap.perm_erase (pk, st) id orders hso hfind
  have hvold : volOf os id = e.order.vol := by simp [volOf, he]
  have hagg : aggAt os orders pk = ((aggAt os (SMap.erase (pk, st) orders) pk).1 + e.order.vol,
      (aggAt os (SMap.erase (pk, st) orders) pk).2 + 1) := by
    rw [aggAt_perm _ hperm, aggAt_cons, hvold]; simp
  have hvolumes : SMap.find? pk volumes = some ((aggAt os (SMap.erase (pk, st) orders) pk).1 + e.order.vol,
      (aggAt os (SMap.erase (pk, st) orders) pk).2 + 1) := by
    have := h.agg pk
    simp only at this
    rw [hagg] at this
    simpa using this
  have htot : vol = e.order.vol + totalVol os (SMap.erase (pk, st) orders) := by
    rw [htotal, totalVol_perm _ hperm, totalVol_cons, hvold]
  have hle : (aggAt os (SMap.erase (pk, st) orders) pk).1 + e.order.vol ≤ vol := by
    have := aggAt_le_total os orders pk
    rw [hagg] at this; simp only at this; rw [htotal]; exact this
  have hcnt : (aggAt os (SMap.erase (pk, st) orders) pk).2 + 1 ≤ (aggAt os (SMap.erase (pk, st) orders) pk).1 + e.order.vol := by
    have := h.count_le_vol pk
    simp only at this
    rw [hagg] at this; exact this
  -- the queue
  have horders : SMap.insert (pk, st) id (SMap.erase (pk, st) orders) = orders := by
    apply SMap.sorted_ext (SMap.sorted_insert _ _ _ (SMap.sorted_erase _ _ hso)) hso
    intro k
    rw [SMap.find?_insert _ _ _ _ (SMap.sorted_erase _ _ hso), SMap.find?_erase _ _ _ hso]
    by_cases hk : k = (pk, st)
    · subst hk; simp [hfind]
    · simp [hk]
  subst hnf
  have h1 : vol - e.order.vol + e.order.vol = vol := by omega
  simp only [SideS.removeOrder, hvolumes, Nat.add_sub_cancel]
  by_cases hz : (aggAt os (SMap.erase (pk, st) orders) pk).2 = 0
  · -- it was the only order at this price
    have hz0 := aggAt_zero_of_count_zero _ _ _ hz
    simp only [hz, if_true, SideS.insertOrder]
    rw [SMap.find?_erase _ _ _ hsv]
    simp only [if_true]
    have hvols : SMap.insert pk (e.order.vol, 1) (SMap.erase pk volumes) = volumes := by
      apply SMap.sorted_ext (SMap.sorted_insert _ _ _ (SMap.sorted_erase _ _ hsv)) hsv
      intro k
      rw [SMap.find?_insert _ _ _ _ (SMap.sorted_erase _ _ hsv), SMap.find?_erase _ _ _ hsv]
      by_cases hk : k = pk
      · subst hk; simp [hvolumes, hz0]
      · simp [hk]
    rw [hvols, horders, h1]
    have h2 : ¬ (P32 ≤ vol) := by omega
    have h5 : e.order.vol ≤ vol := by omega
    simp [h2, h5]
  · simp only [hz, if_false, SideS.insertOrder]
    rw [SMap.find?_insert _ _ _ _ hsv]
    simp only [if_true]
    have hvols : SMap.insert pk ((aggAt os (SMap.erase (pk, st) orders) pk).1 + e.order.vol,
        (aggAt os (SMap.erase (pk, st) orders) pk).2 + 1)
        (SMap.insert pk ((aggAt os (SMap.erase (pk, st) orders) pk).1, (aggAt os (SMap.erase (pk, st) orders) pk).2) volumes) = volumes := by
      apply SMap.sorted_ext (SMap.sorted_insert _ _ _ (SMap.sorted_insert _ _ _ hsv)) hsv
      intro k
      rw [SMap.find?_insert _ _ _ _ (SMap.sorted_insert _ _ _ hsv), SMap.find?_insert _ _ _ _ hsv]
      by_cases hk : k = pk
      · subst hk; simp [hvolumes]
      · simp [hk]
    rw [hvols, horders, h1]
    have h2 : ¬ (P32 ≤ vol) := by omega
    have h3 : ¬ (P32 ≤ (aggAt os (SMap.erase (pk, st) orders) pk).1 + e.order.vol) := by omega
    have h4 : ¬ (P32 ≤ (aggAt os (SMap.erase (pk, st) orders) pk).2 + 1) := by omega
    have h5 : e.order.vol ≤ vol := by omega
    simp [h2, h3, h4, h5]

/-! ### Un-building the side indexes, one table entry at a time -/

/-- The inverse of one iteration of the rebuild loop: take an Active entry out of its side. -/
def unloadStep (e : Entry) (acc : SideS × SideS) : SideS × SideS :=
  if e.order.status = .active then
    match e.order.side with
    | .bid => (acc.1.removeOrder e.key.pk e.key.st e.order.vol, acc.2)
    | .ask => (acc.1, acc.2.removeOrder e.key.pk e.key.st e.order.vol)
  else acc

def pick : Side → SideS × SideS → SideS
  | .bid, p => p.1
  | .ask, p => p.2

/-- The sides holding exactly the Active orders with id below `i`. -/
structure Strip (b : Book) (i : Nat) (T : SideS × SideS) : Prop where
  inv : ∀ sd, SideInv b.orders sd (pick sd T) b.stamp
  mem : ∀ (j : Nat) (e : Entry), j < i → b.orders[j]? = some e → e.order.status = .active →
          ((e.key.pk, e.key.st), j) ∈ (pick e.order.side T).orders
  low : ∀ sd k j, (k, j) ∈ (pick sd T).orders → j < i

theorem strip_full {b : Book} (h : Inv b) : Strip b b.orders.length (b.bid, b.ask) where
  inv := by intro sd; cases sd; exact h.bid; exact h.ask
  mem := by
    intro j e _ he ha
    have := h.act j e he ha
    cases hs : e.order.side <;> simpa [pick, Book.side, hs] using this
  low := by
    intro sd k j hm
    have hside : SideInv b.orders sd (pick sd (b.bid, b.ask)) b.stamp := by cases sd; exact h.bid; exact h.ask
    obtain ⟨e, he, _⟩ := hside.ent k j hm
    exact (List.getElem?_eq_some_iff.mp he).1

theorem pick_unload_same (e : Entry) (T : SideS × SideS) (ha : e.order.status = .active) :
    pick e.order.side (unloadStep e T) = (pick e.order.side T).removeOrder e.key.pk e.key.st e.order.vol := by
  simp only [unloadStep, ha, if_true]
  cases e.order.side <;> rfl

theorem pick_unload_other (e : Entry) (T : SideS × SideS) (sd : Side) (h : sd ≠ e.order.side) :
    pick sd (unloadStep e T) = pick sd T := by
  simp only [unloadStep]
  split
  · cases hs : e.order.side <;> cases sd <;> simp_all [pick]
  · rfl

theorem strip_step {b : Book} {i : Nat} {T : SideS × SideS} (h : Strip b (i + 1) T) {e : Entry}
    (he : b.orders[i]? = some e) : Strip b i (unloadStep e T) := by
  by_cases ha : e.order.status = .active
  · have hm := h.mem i e (Nat.lt_succ_self i) he ha
    have hset : b.orders.set i e = b.orders := set_of_getElem? he
    have hvol : volOf b.orders i = e.order.vol := by simp [volOf, he]
    have hsame : SideInv b.orders e.order.side (pick e.order.side (unloadStep e T)) b.stamp := by
      rw [pick_unload_same e T ha]
      have := (h.inv e.order.side).remove e.key.pk e.key.st i e hm
      rw [hset, hvol] at this; exact this
    refine ⟨?_, ?_, ?_⟩
    · intro sd
      by_cases hs : sd = e.order.side
      · subst hs; exact hsame
      · rw [pick_unload_other e T sd hs]; exact h.inv sd
    · intro j ej hji hej haj
      have hq := h.mem j ej (by omega) hej haj
      by_cases hs : ej.order.side = e.order.side
      · rw [hs] at hq ⊢
        rw [pick_unload_same e T ha, removeOrder_orders]
        refine SMap.mem_erase_of_ne (h.inv _).so hq ?_
        intro hc
        simp only at hc
        rw [hc] at hq
        have h1 := SMap.find?_of_mem (h.inv _).so hq
        have h2 := SMap.find?_of_mem (h.inv _).so hm
        rw [h1] at h2; injection h2 with h2; omega
      · rw [pick_unload_other e T _ hs]; exact hq
    · intro sd k j hk
      by_cases hs : sd = e.order.side
      · subst hs
        rw [pick_unload_same e T ha, removeOrder_orders] at hk
        have hk' := SMap.mem_erase_imp _ _ _ hk
        have hlt := h.low _ k j hk'
        by_cases hji : j = i
        · subst hji
          have := (h.inv _).unique hk' hm
          subst this
          have hf := SMap.find?_of_mem (SMap.sorted_erase _ _ (h.inv _).so) hk
          rw [SMap.find?_erase _ _ _ (h.inv _).so] at hf
          simp at hf
        · omega
      · rw [pick_unload_other e T sd hs] at hk
        have hlt := h.low sd k j hk
        by_cases hji : j = i
        · subst hji
          obtain ⟨e1, he1, _, hs1, _⟩ := (h.inv sd).ent k j hk
          rw [he] at he1; injection he1 with he1; subst he1
          exact absurd hs1.symm hs
        · omega
  · have hun : unloadStep e T = T := by simp [unloadStep, ha]
    rw [hun]
    refine ⟨h.inv, fun j ej hji hej haj => h.mem j ej (by omega) hej haj, ?_⟩
    intro sd k j hk
    have hlt := h.low sd k j hk
    by_cases hji : j = i
    · subst hji
      obtain ⟨e1, he1, ha1, _⟩ := (h.inv sd).ent k j hk
      rw [he] at he1; injection he1 with he1; subst he1
      exact absurd ha1 ha
    · omega

/-- One iteration of the rebuild loop undoes one `unloadStep`. -/
theorem load_unload {b : Book} {i : Nat} {T : SideS × SideS} (h : Strip b (i + 1) T) {e : Entry}
    (he : b.orders[i]? = some e) (hid : e.order.id = i) :
    Book.loadStep ((unloadStep e T).1, (unloadStep e T).2, b.stamp) e = (T.1, T.2, b.stamp) := by
  by_cases ha : e.order.status = .active
  · have hm := h.mem i e (Nat.lt_succ_self i) he ha
    obtain ⟨e1, he1, _, _, hkey, _, _, hst, _⟩ := (h.inv e.order.side).ent _ _ hm
    rw [he] at he1; injection he1 with he1; subst he1
    simp only at hst
    have hir := (h.inv e.order.side).insert_remove e.key.pk e.key.st i e hm he
    have hmax : max b.stamp (e.key.st + 1) = b.stamp := by omega
    simp only [Book.loadStep, ha, if_true, hmax, unloadStep]
    cases hs : e.order.side
    · simp only [hs, pick] at hir
      simp only [hid, hir]
    · simp only [hs, pick] at hir
      simp only [hid, hir]
  · simp [Book.loadStep, unloadStep, ha]

/-- With nothing queued the side is the empty side. -/
theorem strip_zero {b : Book} {T : SideS × SideS} (h : Strip b 0 T) : T = (SideS.empty, SideS.empty) := by
  have key : ∀ sd, pick sd T = SideS.empty := by
    intro sd
    have hi := h.inv sd
    have ho : (pick sd T).orders = [] := by
      cases hq : (pick sd T).orders with
      | nil => rfl
      | cons hd tl =>
        have := h.low sd hd.1 hd.2 (by rw [hq]; exact List.mem_cons_self)
        omega
    have hv : (pick sd T).volumes = [] := by
      cases hq : (pick sd T).volumes with
      | nil => rfl
      | cons hd tl =>
        have h1 := hi.agg hd.1
        rw [ho] at h1
        have h2 : SMap.find? hd.1 (pick sd T).volumes = some hd.2 :=
          SMap.find?_of_mem hi.sv (by rw [hq]; exact List.mem_cons_self)
        rw [h2] at h1
        simp [aggAt, atKey] at h1
    have hvol : (pick sd T).vol = 0 := by rw [hi.tot, ho]; simp [totalVol]
    have hf := hi.nofault
    cases hp : pick sd T with
    | mk vol volumes orders fault =>
      rw [hp] at ho hv hvol hf
      simp only at ho hv hvol hf
      subst ho hv hvol hf
      rfl
  have h1 := key .bid
  have h2 := key .ask
  simp only [pick] at h1 h2
  exact Prod.ext h1 h2

def stripFrom (b : Book) (i : Nat) : SideS × SideS := (b.orders.drop i).foldr unloadStep (b.bid, b.ask)

theorem stripFrom_strip {b : Book} (h : Inv b) (i : Nat) (hi : i ≤ b.orders.length) : Strip b i (stripFrom b i) := by
  have : ∀ k, ∀ i, i + k = b.orders.length → Strip b i (stripFrom b i) := by
    intro k
    induction k with
    | zero =>
      intro i hik
      have : i = b.orders.length := by omega
      subst this
      simp only [stripFrom, List.drop_length, List.foldr_nil]
      exact strip_full h
    | succ k ih =>
      intro i hik
      have hlt : i < b.orders.length := by omega
      have hdrop : b.orders.drop i = b.orders[i] :: b.orders.drop (i + 1) := List.drop_eq_getElem_cons hlt
      have hs : stripFrom b i = unloadStep b.orders[i] (stripFrom b (i + 1)) := by
        simp only [stripFrom, hdrop, List.foldr_cons]
      rw [hs]
      exact strip_step (ih (i + 1) (by omega)) (List.getElem?_eq_getElem hlt)
  exact this (b.orders.length - i) i (by omega)

theorem rebuild_from {b : Book} (h : Inv b) : ∀ k i, i + k = b.orders.length →
    (b.orders.drop i).foldl Book.loadStep ((stripFrom b i).1, (stripFrom b i).2, b.stamp) = (b.bid, b.ask, b.stamp) := by
  intro k
  induction k with
  | zero =>
    intro i hik
    have : i = b.orders.length := by omega
    subst this
    simp [stripFrom]
  | succ k ih =>
    intro i hik
    have hlt : i < b.orders.length := by omega
    have hdrop : b.orders.drop i = b.orders[i] :: b.orders.drop (i + 1) := List.drop_eq_getElem_cons hlt
    have hs : stripFrom b i = unloadStep b.orders[i] (stripFrom b (i + 1)) := by
      simp only [stripFrom, hdrop, List.foldr_cons]
    have hget : b.orders[i]? = some b.orders[i] := List.getElem?_eq_getElem hlt
    rw [hdrop, List.foldl_cons, hs]
    rw [load_unload (stripFrom_strip h (i + 1) (by omega)) hget (h.ids i _ hget)]
    exact ih (i + 1) (by omega)

/-- **`load (save b) = b`**: for every book satisfying the invariant (in particular every state
reachable by valid operations), saving and loading restores the *whole* state, both rebuilt
side indexes and the stamp counter included. -/
theorem reload_eq {b : Book} (h : Inv b) : b.reload = b := by
  have h0 := rebuild_from h b.orders.length 0 (by omega)
  have hz := strip_zero (stripFrom_strip h 0 (Nat.zero_le _))
  rw [hz] at h0
  simp only [List.drop_zero] at h0
  have hf := h.nofault
  cases b with
  | mk t tick tradeVol stamp ask bid orders trades trading fault =>
    simp only at h0 hf
    subst hf
    simp only [Book.reload, Book.load, Book.save, h0]

end Bourse
