/-
C17 — momentum agents trade symmetrically in rising and falling markets.
Property theorems only, over the exact-rational decision skeleton `Model/Momentum.lean`.
The float part is abstracted: `th` is ANY odd function (for `tanh`: an idealisation recorded in
the trusted base); the saturated-regime check and the mirrored-run comparison on the real agent are
the tie to the code.
-/
import Bourse.Model.Momentum
import Bourse.Lemmas.MomentumF64
import Bourse.Lemmas.FloatAgentsValid
import Mathlib.Tactic.Ring
import Mathlib.Tactic.Linarith
import Mathlib.Algebra.Order.Field.Rat

namespace Bourse.Props.C17
open Bourse Bourse.Momentum

/-- The documented update `M = m(1 - decay) + decay(P - p)`. -/
theorem momentum_update (decay m p P : Rat) : nextM decay m p P = m * (1 - decay) + decay * (P - p) := rfl

/-- Mirroring two successive prices about a level `c` negates the update of a negated signal. -/
theorem nextM_mirror (decay m p P c : Rat) :
    nextM decay (-m) (2 * c - p) (2 * c - P) = - nextM decay m p P := by
  simp only [nextM]; ring

theorem signalsFrom_mirror (decay c : Rat) (m p : Rat) (path : List Rat) :
    signalsFrom decay (-m) (2 * c - p) (path.map fun P => 2 * c - P) =
      (signalsFrom decay m p path).map fun x => -x := by
  induction path generalizing m p with
  | nil => rfl
  | cons P rest ih =>
    simp only [List.map_cons, signalsFrom, nextM_mirror]
    rw [ih]

/-- **Mirroring a price history about a fixed level negates every momentum signal**, at every
step, for every decay. -/
theorem momentum_mirror (decay c : Rat) (path : List Rat) :
    signals decay (path.map fun P => 2 * c - P) = (signals decay path).map fun x => -x := by
  cases path with
  | nil => rfl
  | cons P rest =>
    simp only [List.map_cons, signals]
    have := signalsFrom_mirror decay c 0 P rest
    simp only [neg_zero] at this
    rw [this]
    simp

theorem absR_neg (x : Rat) : absR (-x) = absR x := by
  unfold absR
  split <;> split <;> first | rfl | linarith | (simp; linarith) | skip
  all_goals (first | linarith | (have : x = 0 := by linarith); simp [this])

/-- **The propensity to trade depends only on the magnitude of M**: for an odd `th` the
probability at `-M` equals the probability at `M`. -/
theorem pMarket_even (th : Rat → Rat) (hodd : ∀ x, th (-x) = - th x) (demand scale n m : Rat) :
    pMarket th demand scale n (-m) = pMarket th demand scale n m := by
  unfold pMarket
  rw [show scale * -m = -(scale * m) by ring, hodd]
  rw [show demand * -th (scale * m) / n = -(demand * th (scale * m) / n) by ring]
  exact absR_neg _

def flip : Action → Action
  | .buy => .sell
  | .sell => .buy
  | .nothing => .nothing

/-- **Full symmetry of one decision**: with the same probability and the same uniform draw, the
decision at `-M` is the side-mirror of the decision at `M` — buys become sells and vice versa,
inaction stays inaction. -/
theorem decide_mirror (p m u : Rat) : Momentum.decide p (-m) u = flip (Momentum.decide p m u) := by
  unfold Momentum.decide
  split
  · by_cases h1 : m > 0
    · have : ¬ (-m > 0) := by linarith
      have h3 : -m < 0 := by linarith
      simp [h1, this, h3, flip]
    · by_cases h2 : m < 0
      · have : -m > 0 := by linarith
        simp [h1, h2, this, flip]
      · have : m = 0 := by linarith
        simp [this, flip]
  · rfl

/-- Hence the agent buys only when `M > 0`, sells only when `M < 0`, and does nothing when `M = 0`,
whatever the probability and the draw. -/
theorem direction_follows_sign (p m u : Rat) :
    (Momentum.decide p m u = .buy → m > 0) ∧ (Momentum.decide p m u = .sell → m < 0) ∧
    (m = 0 → Momentum.decide p m u = .nothing) := by
  unfold Momentum.decide
  refine ⟨?_, ?_, ?_⟩
  · intro h; split at h
    · split at h
      · assumption
      · split at h <;> simp at h
    · simp at h
  · intro h; split at h
    · split at h
      · simp at h
      · split at h
        · assumption
        · simp at h
    · simp at h
  · intro h; subst h; simp

/-- In the saturated regime (probability at least 1) every draw `u < 1` acts, in the direction of
the sign of `M`. -/
theorem saturated_always_acts (p m u : Rat) (hp : 1 ≤ p) (hu : u < 1) :
    Momentum.decide p m u = (if m > 0 then .buy else if m < 0 then .sell else .nothing) := by
  unfold Momentum.decide
  have : u < p := by linarith
  simp [this]

/-- Non-vacuity: an odd, sign-preserving rational stand-in for `tanh`, a rising path and its mirror. -/
example :
    let th : Rat → Rat := fun x => x / (1 + absR x)
    (th (-3) = - th 3) ∧
    signals (1/2) [100, 101, 103, 103] = [0, 1/2, 5/4, 5/8] ∧
    signals (1/2) ([100, 101, 103, 103].map fun P => 2 * 100 - P) = [0, -1/2, -5/4, -5/8] ∧
    Momentum.decide (pMarket th 5 1 2 (5/4)) (5/4) (1/2) = .buy ∧
    Momentum.decide (pMarket th 5 1 2 (-5/4)) (-5/4) (1/2) = .sell := by
  decide +kernel

/-! ### The same statements in the arithmetic the agent performs: binary64

`Model/FloatAgents.lean` computes the signal with the `f64` model (`M' = fl(fl(M·fl(1 − decay)) +
fl(decay·fl(P − p)))`, `p = |fl(fl(demand·tanh(fl(scale·M'))) / n)|`); the correspondence check requires this
model to predict every decision of the real agents bit for bit. `tanh` is any function `th` with
`th(−x) = −th(x)` (true of libm's implementation, which the tie records as a table). -/

/-- Rounding commutes with negation: the source of every symmetry below. -/
theorem f64_round_odd (x : Rat) : F64.rnd (-x) = F64.neg (F64.rnd x) := F64.rnd_neg x

/-- **The trade probability depends only on the magnitude of `M`**, in `f64`, for every parameterisation. -/
theorem probability_depends_on_magnitude_f64 (c : FAgents.MomP) (th : F → F)
    (hodd : ∀ x, th (F64.neg x) = F64.neg (th x)) (hn : 0 < c.n) (m : F) :
    FAgents.pMarket c th (F64.neg m) = FAgents.pMarket c th m := FAgents.pMarket_neg c th hodd hn m

/-- **Mirroring a price history about a fixed level mirrors the signal**, in `f64`: along every path of
observed mid-prices, from the initial state, the mirrored run's `M` is the negative of the original's at
every update and the market- and limit-order probabilities are the same `f64` values. -/
theorem momentum_mirror_f64 (c : FAgents.MomP) (th : F → F)
    (hodd : ∀ x, th (F64.neg x) = F64.neg (th x)) (hn : 0 < c.n) (L : Rat) (path : List Rat) :
    FAgents.signalsFrom c th FAgents.MomState.init (path.map fun x => 2 * L - x) =
      (FAgents.signalsFrom c th FAgents.MomState.init path).map fun r => (F64.neg r.1, r.2.1, r.2.2) := by
  have h := FAgents.signals_mirror c th hodd hn L path FAgents.MomState.init (by intro p hp; simp [FAgents.MomState.init] at hp)
  simpa [FAgents.mirrorState, FAgents.MomState.init, F64.neg] using h

/-- and the buy test `0 < M` of one run is the sell test `M < 0` of the other, so with the same uniform
draws buys become sells at the same steps. -/
theorem direction_mirror_f64 (m : F) :
    F64.lt (.fin 0) (F64.neg m) = F64.lt m (.fin 0) ∧ F64.lt (F64.neg m) (.fin 0) = F64.lt (.fin 0) m :=
  FAgents.direction_mirror m

/-- Non-vacuity in `f64`: decay 0.3 (not a dyadic number: bits 0x3FD3333333333333), an odd stand-in for
`tanh`, a path with half-tick mids and its mirror about 100: the signals are exact negatives of each
other (e.g. `±1925288840700887 / 2^51` at the third update) and the probabilities coincide. -/
def exC : FAgents.MomP := { asset := 0, tick := 1, vol := 1, traders := [0, 1], pCancel := .fin 0,
                            decay := F64.ofBits 0x3FD3333333333333, demand := .fin 5, scale := .fin (1/2), ratio := .fin 1, n := 2 }
def exTh : F → F := fun x => x
def exA := FAgents.signalsFrom exC exTh FAgents.MomState.init [100, 201/2, 103, 205/2]
def exB := FAgents.signalsFrom exC exTh FAgents.MomState.init [100, 199/2, 97, 195/2]

example : exA.map (·.1) = exB.map (fun r => F64.neg r.1) ∧ exA.map (·.2) = exB.map (·.2) ∧
    (exA.map (·.1))[2]? = some (.fin (1925288840700887 / 2251799813685248)) := by
  decide +kernel

/-- **Direction follows the sign of `M`, and `M = 0` does nothing**, for the whole update of the modelled
agent: whatever a momentum agent's update submits, buys occur only if `0 < M` and sells only if `M < 0`
(`Reach` with these two flags), and the agent's next state carries exactly the signal computed from
the observed mid-prices. -/
theorem update_direction_follows_signal (c : FAgents.MomP) (smp : FAgents.Sampler) (th : F → F) (s : FAgents.MomState)
    (e : MEnv) (g : Xoro) (b : Book) (hb : e.market.books[c.asset]? = some b) (hq : FAgents.QuoteOk b.mid2 c.tick smp)
    {s' e' g'} (h : FAgents.momUpdate c smp th s e g = some (s', e', g')) :
    FAgents.Reach c.asset c.tick c.vol c.traders ((b.mid2 : Rat) / 2) s.orders
      (F64.lt (.fin 0) (FAgents.signal c th s (.fin ((b.mid2 : Rat) / 2))).1)
      (F64.lt (FAgents.signal c th s (.fin ((b.mid2 : Rat) / 2))).1 (.fin 0)) e e' ∧
    s'.m = (FAgents.signal c th s (.fin ((b.mid2 : Rat) / 2))).1 ∧ s'.last = some (.fin ((b.mid2 : Rat) / 2)) :=
  FAgents.momUpdate_reach c smp th s e g b hb hq h

/-- With a zero signal the update leaves every book exactly as it was. -/
theorem zero_signal_does_nothing {a tick vol trs mid own e0 e}
    (h : FAgents.Reach a tick vol trs mid own false false e0 e) : e.market = e0.market :=
  FAgents.reach_no_direction_market h

end Bourse.Props.C17
