/-
C17 — momentum agents trade symmetrically in rising and falling markets.
Property theorems only, over the exact-rational decision skeleton `Model/Momentum.lean`.
The float part is abstracted: `th` is ANY odd function (for `tanh`: an idealisation recorded in
the trusted base); the saturated-regime check and the mirrored-run comparison on the real agent are
the tie to the code.
-/
import Bourse.Model.Momentum
import Mathlib.Tactic.Ring
import Mathlib.Tactic.Linarith
import Mathlib.Algebra.Order.Field.Rat

namespace Bourse.Props.C17
open Bourse Bourse.Momentum

/-- The documented update `M = m(1 - decay) + decay(P - p)`. -/
theorem momentum_update (decay m p P : Rat) : nextM decay m p P = m * (1 - decay) + decay * (P - p) := rfl

/-- Mirroring two successive prices about a level `c` negates the update of a negated signal. -/
theorem nextM_mirror (decay m p P c : Rat) :
    nextM decay (-m) (2 * c - p) (2 * c - P) = - nextM decay m p P := by
  simp only [nextM]; ring

theorem signalsFrom_mirror (decay c : Rat) (m p : Rat) (path : List Rat) :
    signalsFrom decay (-m) (2 * c - p) (path.map fun P => 2 * c - P) =
      (signalsFrom decay m p path).map fun x => -x := by
  induction path generalizing m p with
  | nil => rfl
  | cons P rest ih =>
    simp only [List.map_cons, signalsFrom, nextM_mirror]
    rw [ih]

/-- **Mirroring a price history about a fixed level negates every momentum signal**, at every
step, for every decay. -/
theorem momentum_mirror (decay c : Rat) (path : List Rat) :
    signals decay (path.map fun P => 2 * c - P) = (signals decay path).map fun x => -x := by
  cases path with
  | nil => rfl
  | cons P rest =>
    simp only [List.map_cons, signals]
    have := signalsFrom_mirror decay c 0 P rest
    simp only [neg_zero] at this
    rw [this]
    simp

theorem absR_neg (x : Rat) : absR (-x) = absR x := by
  unfold absR
  split <;> split <;> first | rfl | linarith | (simp; linarith) | skip
  all_goals (first | linarith | (have : x = 0 := by linarith); simp [this])

/-- **The propensity to trade depends only on the magnitude of M**: for an odd `th` the
probability at `-M` equals the probability at `M`. -/
theorem pMarket_even (th : Rat → Rat) (hodd : ∀ x, th (-x) = - th x) (demand scale n m : Rat) :
    pMarket th demand scale n (-m) = pMarket th demand scale n m := by
  unfold pMarket
  rw [show scale * -m = -(scale * m) by ring, hodd]
  rw [show demand * -th (scale * m) / n = -(demand * th (scale * m) / n) by ring]
  exact absR_neg _

def flip : Action → Action
  | .buy => .sell
  | .sell => .buy
  | .nothing => .nothing

/-- **Full symmetry of one decision**: with the same probability and the same uniform draw, the
decision at `-M` is the side-mirror of the decision at `M` — buys become sells and vice versa,
inaction stays inaction. -/
theorem decide_mirror (p m u : Rat) : Momentum.decide p (-m) u = flip (Momentum.decide p m u) := by
  unfold Momentum.decide
  split
  · by_cases h1 : m > 0
    · have : ¬ (-m > 0) := by linarith
      have h3 : -m < 0 := by linarith
      simp [h1, this, h3, flip]
    · by_cases h2 : m < 0
      · have : -m > 0 := by linarith
        simp [h1, h2, this, flip]
      · have : m = 0 := by linarith
        simp [this, flip]
  · rfl

/-- Hence the agent buys only when `M > 0`, sells only when `M < 0`, and does nothing when `M = 0`,
whatever the probability and the draw. -/
theorem direction_follows_sign (p m u : Rat) :
    (Momentum.decide p m u = .buy → m > 0) ∧ (Momentum.decide p m u = .sell → m < 0) ∧
    (m = 0 → Momentum.decide p m u = .nothing) := by
  unfold Momentum.decide
  refine ⟨?_, ?_, ?_⟩
  · intro h; split at h
    · split at h
      · assumption
      · split at h <;> simp at h
    · simp at h
  · intro h; split at h
    · split at h
      · simp at h
      · split at h
        · assumption
        · simp at h
    · simp at h
  · intro h; subst h; simp

/-- In the saturated regime (probability at least 1) every draw `u < 1` acts, in the direction of
the sign of `M`. -/
theorem saturated_always_acts (p m u : Rat) (hp : 1 ≤ p) (hu : u < 1) :
    Momentum.decide p m u = (if m > 0 then .buy else if m < 0 then .sell else .nothing) := by
  unfold Momentum.decide
  have : u < p := by linarith
  simp [this]

/-- Non-vacuity: an odd, sign-preserving rational stand-in for `tanh`, a rising path and its mirror. -/
example :
    let th : Rat → Rat := fun x => x / (1 + absR x)
    (th (-3) = - th 3) ∧
    signals (1/2) [100, 101, 103, 103] = [0, 1/2, 5/4, 5/8] ∧
    signals (1/2) ([100, 101, 103, 103].map fun P => 2 * 100 - P) = [0, -1/2, -5/4, -5/8] ∧
    Momentum.decide (pMarket th 5 1 2 (5/4)) (5/4) (1/2) = .buy ∧
    Momentum.decide (pMarket th 5 1 2 (-5/4)) (-5/4) (1/2) = .sell := by
  decide +kernel

end Bourse.Props.C17
