/-
C13 — while trading is disabled nothing trades and market orders are rejected.
-/
import Bourse.Model.Ops
import Bourse.Lemmas.Frame
import Bourse.Lemmas.RefineStep
import Bourse.Lemmas.NoOverflow

namespace Bourse.Props.C13
open Bourse

/-- Switching the flag changes the flag and nothing else. -/
theorem toggle_only_flag (b : Book) :
    b.enableTrading = { b with trading := true } ∧ b.disableTrading = { b with trading := false } :=
  ⟨rfl, rfl⟩

theorem placeEntry_no_trades (b : Book) (e : Entry) (h : b.trading = false) :
    (b.placeEntry e).1.trades = b.trades ∧ (b.placeEntry e).1.tradeVol = b.tradeVol ∧
    (b.placeEntry e).1.trading = false := by
  unfold Book.placeEntry
  split
  · simp [Book.placeMarket, h]
  · have := Book.restUnlessFilled_trades e.order.side (Book.matchIfTrading e.order.side b e) e.key.pk
    simp only [Book.placeLimit]
    rw [Book.matchIfTrading_off _ _ _ h] at this ⊢
    simp [this, h]

/-- While trading is disabled, placing an order records no trade and leaves the flag off. -/
theorem place_no_trades (b : Book) (id : Nat) (h : b.trading = false) :
    (b.placeOrder id).trades = b.trades ∧ (b.placeOrder id).tradeVol = b.tradeVol ∧
    (b.placeOrder id).trading = false := by
  unfold Book.placeOrder
  split
  · simp [h]
  · split
    · simp [h]
    · simpa using placeEntry_no_trades b _ h

/-- While trading is disabled, a modification (including a re-pricing that crosses) records no trade. -/
theorem modify_no_trades (b : Book) (id : Nat) (p v : Option Nat) (h : b.trading = false) :
    (b.modifyOrder id p v).trades = b.trades ∧ (b.modifyOrder id p v).tradeVol = b.tradeVol ∧
    (b.modifyOrder id p v).trading = false := by
  have hrep : ∀ (e : Entry) (np nv : Nat),
      (b.replaceOrder e np nv).1.trades = b.trades ∧ (b.replaceOrder e np nv).1.tradeVol = b.tradeVol ∧
      (b.replaceOrder e np nv).1.trading = false := by
    intro e np nv
    have := Book.restUnlessFilled_trades e.key.side
      (Book.matchIfTrading e.key.side (b.dequeue e)
        { e with order := { e.order with vol := nv, price := np } }) (priceKey e.key.side np)
    simp only [Book.replaceOrder]
    rw [Book.matchIfTrading_off _ _ _ (by simp [h])] at this ⊢
    simp [this, h]
  unfold Book.modifyOrder
  split
  · simp [h]
  · split
    · simp [h]
    · split
      · simp only [Book.writeBack_trades, Book.writeBack_tradeVol, Book.writeBack_trading]
        unfold Book.modifyEntry
        split
        · simp [h]
        · split
          · simp [Book.reduceOrderVol, h]
          · exact hrep _ _ _
        · exact hrep _ _ _
        · exact hrep _ _ _
      · simp [h]

theorem cancel_no_trades (b : Book) (id : Nat) :
    (b.cancelOrder id).trades = b.trades ∧ (b.cancelOrder id).tradeVol = b.tradeVol ∧
    (b.cancelOrder id).trading = b.trading := by
  unfold Book.cancelOrder
  split
  · simp
  · split <;> simp

theorem create_no_trades (b : Book) (sd : Side) (vol tr : Nat) (p : Option Nat) :
    (b.createOrder sd vol tr p).1.trades = b.trades ∧
    (b.createOrder sd vol tr p).1.tradeVol = b.tradeVol ∧
    (b.createOrder sd vol tr p).1.trading = b.trading := by
  unfold Book.createOrder
  split
  · split <;> simp
  · simp

/-- **No trade is ever recorded while trading is disabled**: every operation other than
re-enabling trading leaves the trade log unchanged and the flag off. -/
theorem no_trading_no_trades (b : Book) (op : Op) (h : b.trading = false)
    (hop : op ≠ .trading true) :
    (b.step op).1.trades = b.trades ∧ (b.step op).1.trading = false := by
  cases op with
  | create sd vol tr p => have := create_no_trades b sd vol tr p; simp [Book.step, this, h]
  | place id => have := place_no_trades b id h; simp [Book.step, this]
  | cap sd vol tr p =>
    have hc := create_no_trades b sd vol tr p
    simp only [Book.step, Book.createAndPlace]
    split
    · rename_i id _
      have := place_no_trades (b.createOrder sd vol tr p).1 id (by simpa [h] using hc.2.2)
      simp [this, hc.1]
    · simp [hc.1, hc.2.2, h]
  | cancel id => have := cancel_no_trades b id; simp [Book.step, this, h]
  | modify id p v => have := modify_no_trades b id p v h; simp [Book.step, this]
  | ev e =>
    cases e with
    | new id => have := place_no_trades b id h; simp [Book.step, Book.processEvent, this]
    | cancel id => have := cancel_no_trades b id; simp [Book.step, Book.processEvent, this, h]
    | modify id p v => have := modify_no_trades b id p v h; simp [Book.step, Book.processEvent, this]
  | time t => simp [Book.step, Book.setTime, h]
  | trading on =>
    cases on with
    | true => exact absurd rfl hop
    | false => simp [Book.step, Book.disableTrading]
  | resetVol => simp [Book.step, Book.resetTradeVol, h]
  | reload =>
    simp only [Book.step]
    split <;> simp [Book.reload, Book.load, Book.save, h]

/-- Lifted over histories: as long as trading is not re-enabled the trade log never grows. -/
theorem no_trading_run (b : Book) (ops : List Op) (h : b.trading = false)
    (hops : ∀ op ∈ ops, op ≠ .trading true) : (b.run ops).trades = b.trades := by
  induction ops generalizing b with
  | nil => rfl
  | cons op ops ih =>
    have h1 := no_trading_no_trades b op h (hops op (by simp))
    have := ih (b.step op).1 h1.2 (fun o ho => hops o (by simp [ho]))
    simp [Book.run, List.foldl] at this ⊢
    rw [← h1.1]; exact this

/-- While trading is disabled a market order is rejected, stamped with the current time,
and neither side of the book, the trade log nor the stamp counter is touched. -/
theorem no_trading_market_rejected (b : Book) (id : Nat) (e : Entry)
    (h : b.trading = false) (he : b.orders[id]? = some e) (hn : e.order.status = .new)
    (hm : Book.isMarket e.order = true) :
    b.placeOrder id = { b with orders := b.orders.set id { e with order := { e.order with status := .rejected, arr := b.t, endt := b.t } } } := by
  simp [Book.placeOrder, he, hn, Book.placeEntry, Book.activate, Book.writeBack]
  have : Book.isMarket { e.order with status := .active, arr := b.t } = true := by
    simpa [Book.isMarket] using hm
  simp [this, Book.placeMarket, h]

/-- While trading is disabled a limit order rests at its own price, whatever the opposite
side looks like (the book may become crossed): it gets the next queue stamp and is inserted
with its full volume. -/
theorem no_trading_limit_rests (b : Book) (id : Nat) (e : Entry)
    (h : b.trading = false) (he : b.orders[id]? = some e) (hn : e.order.status = .new)
    (hm : Book.isMarket e.order = false) :
    let sd := e.order.side
    let b1 : Book := { b with stamp := b.stamp + 1 }
    let b2 : Book := b1.setSide sd ((b.side sd).insertOrder e.key.pk b.stamp e.order.id e.order.vol)
    let e' : Entry := { order := { e.order with status := .active, arr := b.t }, key := ⟨sd, e.key.pk, b.stamp⟩ }
    b.placeOrder id = { b2 with orders := b.orders.set id e' } := by
  simp [Book.placeOrder, he, hn, Book.placeEntry, Book.activate, Book.writeBack]
  have : Book.isMarket { e.order with status := .active, arr := b.t } = false := by
    simpa [Book.isMarket] using hm
  simp [this, Book.placeLimit, Book.matchIfTrading, h, Book.restUnlessFilled, Book.enqueue]
  cases e.order.side <;> simp [Book.setSide, Book.side]

/-- Non-vacuity: trading off, a crossing ask rests (book crossed), a market order is rejected,
no trade; after re-enabling, the next aggressor matches by the usual rules. -/
example :
    let b0 := Book.new 0 1 false
    let b1 := (b0.step (.cap .bid 5 1 (some 10))).1
    let b2 := (b1.step (.cap .ask 5 2 (some 8))).1
    let b3 := (b2.step (.cap .bid 3 3 none)).1
    let b4 := (b3.step (.trading true)).1
    let b5 := (b4.step (.cap .bid 2 4 (some 9))).1
    b3.trades = [] ∧ b3.bidAsk = (10, 8) ∧ (b3.orders.map (·.order.status)) = [.active, .active, .rejected] ∧
      b5.trades = [{ t := 0, side := .ask, price := 8, vol := 2, active := 3, passive := 1 }] := by decide


/-! ### The reference engine under the flag, and the refinement across toggles -/

/-- Reference engine, trading disabled: an arriving or re-priced limit order is queued at its price
behind every order with a better or equal price — no matching, the book may become crossed. -/
theorem ref_disabled_limit_rests (s : Ref.RState) (agg : Order) (ht : s.trading = false)
    (hf : agg.status ≠ .filled) :
    Ref.enter s agg false =
      (s.setQueue agg.side (Ref.enqueue s.orders agg.side (s.queue agg.side) agg.id agg.price), agg) := by
  simp [Ref.enter, ht, hf]

/-- Reference engine, trading disabled: a market order is rejected and the state is untouched. -/
theorem ref_disabled_market_rejected (s : Ref.RState) (agg : Order) (ht : s.trading = false) :
    Ref.enter s agg true = (s, { agg with status := .rejected, endt := s.t }) := by
  simp [Ref.enter, ht]

/-- Reference engine: switching the flag changes the flag and nothing else. -/
theorem ref_toggle_only_flag (s : Ref.RState) (on : Bool) :
    (Ref.step s (.trading on)).1 = { s with trading := on } := rfl

/-- **Across toggles.** `Op` includes the trading switch, so the refinement theorem covers histories
with the flag toggled at arbitrary points: the implementation's results and complete observations
are the reference engine's — which, while the flag is off, rests limit orders and rejects market
orders as above, and as soon as it is on again matches every subsequently arriving or re-priced order
against the whole resting book (possibly crossed) by the usual rules. -/
theorem toggled_histories_are_reference_histories (t0 tick : Nat) (trading : Bool) (ht : 0 < tick) (ops : List Op)
    (hv : ∀ op ∈ ops, ValidOp op) (hnf : NoFault (Book.new t0 tick trading) ops) (n : Nat)
    (hn : ∀ i, i < n → i * tick < P32) :
    Book.trace n (Book.new t0 tick trading) ops = Ref.trace n (Ref.init t0 tick trading) ops := by
  rw [← abs_new]
  exact trace_refines (inv_new t0 tick trading ht) n hn ops hv hnf

/-- Non-vacuity: a history that crosses the book while disabled and trades after re-enabling. -/
example :
    let ops : List Op := [.cap .ask 5 1 (some 10), .trading false, .cap .bid 5 2 (some 12), .cap .bid 1 3 none,
      .trading true, .cap .ask 2 4 (some 11)]
    let b := (Book.new 0 1 true).run ops
    NoFault (Book.new 0 1 true) ops ∧ b.trades.length = 1 ∧
      (b.orders.map (·.order.status)) = [.active, .active, .rejected, .filled] := by
  refine ⟨?_, by decide, by decide⟩
  simp only [NoFault, and_true]
  decide

/-- `toggled_histories_are_reference_histories` for valid histories as the property states them. -/
theorem toggled_histories_are_reference_histories_valid (t0 tick : Nat) (trading : Bool) (ops : List Op)
    (h : ValidHistory t0 tick trading ops) (n : Nat) (hn : ∀ i, i < n → i * tick < P32) :
    Book.trace n (Book.new t0 tick trading) ops = Ref.trace n (Ref.init t0 tick trading) ops :=
  toggled_histories_are_reference_histories t0 tick trading h.tick_pos ops h.ops_valid h.noFault n hn

end Bourse.Props.C13
