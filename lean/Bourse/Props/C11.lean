/-
C11 — recorded market-data histories are complete, aligned and faithful.
Property theorems only.
-/
import Bourse.Model.Env

namespace Bourse.Props.C11
open Bourse

/-- All series of a record structure have `k` entries; there are `n` level series per kind. -/
structure WF (n k : Nat) (r : Records) : Prop where
  bp : r.bidPrices.length = k
  ap : r.askPrices.length = k
  bv : r.bidVols.length = k
  av : r.askVols.length = k
  nbv : r.bidVolAt.length = n
  nbo : r.bidOrdAt.length = n
  nav : r.askVolAt.length = n
  nao : r.askOrdAt.length = n
  lbv : ∀ s ∈ r.bidVolAt, s.length = k
  lbo : ∀ s ∈ r.bidOrdAt, s.length = k
  lav : ∀ s ∈ r.askVolAt, s.length = k
  lao : ∀ s ∈ r.askOrdAt, s.length = k

theorem wf_new (n : Nat) : WF n 0 (Records.new n) := by
  constructor <;> simp [Records.new, List.mem_replicate]

theorem pushAt_length (series : List (List Nat)) (levels : List (Nat × Nat)) (f : Nat × Nat → Nat) :
    (Records.pushAt series levels f).length = series.length := by
  simp [Records.pushAt]

theorem pushAt_getElem (series : List (List Nat)) (levels : List (Nat × Nat)) (f : Nat × Nat → Nat)
    (i : Nat) (h : i < series.length) :
    (Records.pushAt series levels f)[i]'(by simp [pushAt_length, h]) =
      series[i] ++ [f (levels[i]?.getD (0, 0))] := by
  simp [Records.pushAt]

theorem pushAt_mem_length (series : List (List Nat)) (levels : List (Nat × Nat)) (f : Nat × Nat → Nat)
    (k : Nat) (h : ∀ s ∈ series, s.length = k) : ∀ s ∈ Records.pushAt series levels f, s.length = k + 1 := by
  intro s hs
  obtain ⟨i, hi, rfl⟩ := List.mem_iff_getElem.mp hs
  have hi' : i < series.length := by simpa [pushAt_length] using hi
  rw [pushAt_getElem _ _ _ i hi']
  simp [h _ (List.getElem_mem hi')]

/-- **Complete and aligned.** Appending one record adds exactly one entry to every series. -/
theorem append_wf (n k : Nat) (r : Records) (l2 : Level2) (h : WF n k r) : WF n (k + 1) (r.append l2) := by
  constructor
  · simp [Records.append, h.bp]
  · simp [Records.append, h.ap]
  · simp [Records.append, h.bv]
  · simp [Records.append, h.av]
  · simp [Records.append, pushAt_length, h.nbv]
  · simp [Records.append, pushAt_length, h.nbo]
  · simp [Records.append, pushAt_length, h.nav]
  · simp [Records.append, pushAt_length, h.nao]
  · exact pushAt_mem_length _ _ _ _ h.lbv
  · exact pushAt_mem_length _ _ _ _ h.lbo
  · exact pushAt_mem_length _ _ _ _ h.lav
  · exact pushAt_mem_length _ _ _ _ h.lao

/-- **Faithful.** The entry appended to each series is the corresponding field of the level-2
record: bid series hold bid values, ask series ask values, level `i` holds level `i`; all older
entries are untouched. -/
theorem append_entries (r : Records) (l2 : Level2) :
    (r.append l2).bidPrices = r.bidPrices ++ [l2.bidPrice] ∧
    (r.append l2).askPrices = r.askPrices ++ [l2.askPrice] ∧
    (r.append l2).bidVols = r.bidVols ++ [l2.bidVol] ∧
    (r.append l2).askVols = r.askVols ++ [l2.askVol] ∧
    (∀ i (h : i < r.bidVolAt.length), (r.append l2).bidVolAt[i]? = some (r.bidVolAt[i] ++ [(l2.bidLevels[i]?.getD (0, 0)).1])) ∧
    (∀ i (h : i < r.bidOrdAt.length), (r.append l2).bidOrdAt[i]? = some (r.bidOrdAt[i] ++ [(l2.bidLevels[i]?.getD (0, 0)).2])) ∧
    (∀ i (h : i < r.askVolAt.length), (r.append l2).askVolAt[i]? = some (r.askVolAt[i] ++ [(l2.askLevels[i]?.getD (0, 0)).1])) ∧
    (∀ i (h : i < r.askOrdAt.length), (r.append l2).askOrdAt[i]? = some (r.askOrdAt[i] ++ [(l2.askLevels[i]?.getD (0, 0)).2])) := by
  refine ⟨rfl, rfl, rfl, rfl, ?_, ?_, ?_, ?_⟩ <;> intro i h <;>
    simp [Records.append, Records.pushAt, h]

/-- One step appends to asset `a`'s records exactly the level-2 data of its live book as of the end
of the step (the same data that becomes the cached snapshot), and to its traded-volume series the
book's counter. -/
theorem step_records (e : MEnv) (batch : List Instr) (a : Nat) (r : Records) (l : Level2)
    (hr : e.records[a]? = some r) (hl : ((e.stepWith batch).market.level2 e.nLevels)[a]? = some l) :
    (e.stepWith batch).records[a]? = some (r.append l) ∧ (e.stepWith batch).l2[a]? = some l := by
  simp only [MEnv.stepWith] at hl ⊢
  refine ⟨?_, hl⟩
  have hz := (List.getElem?_zip_eq_some (z := (r, l))).mpr ⟨hr, hl⟩
  simp only [List.getElem?_map, hz, Option.map_some]

/-- The invariant over whole runs: after `k` steps every record structure is well-formed with `k`
entries per series. -/
def AllWF (k : Nat) (e : MEnv) : Prop := ∀ r ∈ e.records, WF e.nLevels k r

theorem init_allwf (t0 : Nat) (ticks : List Nat) (step : Nat) (trading : Bool) (n : Nat) :
    AllWF 0 (MEnv.new t0 ticks step trading n) := by
  intro r hr
  simp [MEnv.new] at hr
  obtain ⟨_, _, rfl⟩ := hr
  exact wf_new n

/-- **After k steps every series has exactly k entries** (one step adds one entry everywhere). -/
theorem step_allwf (e : MEnv) (batch : List Instr) (k : Nat) (h : AllWF k e) : AllWF (k + 1) (e.stepWith batch) := by
  intro r hr
  simp only [MEnv.stepWith] at hr
  obtain ⟨⟨r0, l⟩, hz, rfl⟩ := List.mem_map.mp hr
  have hr0 : r0 ∈ e.records := (List.of_mem_zip hz).1
  exact append_wf _ _ _ _ (h r0 hr0)

/-- Submissions and toggles never touch the records. -/
theorem nonstep_records (e : MEnv) (g : Xoro) (op : MEnv.EOp) (h : op ≠ .step) :
    (e.apply g op).1.1.records = e.records ∧ (e.apply g op).1.1.tradeVols = e.tradeVols ∧
    (e.apply g op).1.1.nLevels = e.nLevels := by
  cases op with
  | submit a sd vol tr p => simp only [MEnv.apply, MEnv.placeOrder]; split <;> exact ⟨rfl, rfl, rfl⟩
  | qcancel a id => exact ⟨rfl, rfl, rfl⟩
  | qmodify a id p v => exact ⟨rfl, rfl, rfl⟩
  | step => exact absurd rfl h
  | trading on => cases on <;> exact ⟨rfl, rfl, rfl⟩

/-- Non-vacuity: an asymmetric two-level book; after two steps every series has two entries and
bid series hold bid values. -/
example :
    let e0 := MEnv.new 0 [1] 10 true 2
    let e1 := ((((e0.placeOrder 0 .bid 5 1 (some 10)).1.placeOrder 0 .bid 2 1 (some 9)).1.placeOrder 0 .ask 7 2 (some 12)).1.step (Xoro.seed 3)).1
    let e2 := ((e1.placeOrder 0 .bid 1 3 (some 12)).1.step (Xoro.seed 4)).1
    e2.records.map (·.bidPrices) = [[10, 10]] ∧ e2.records.map (·.askPrices) = [[12, 12]] ∧
    e2.records.map (·.bidVols) = [[7, 7]] ∧ e2.records.map (·.askVols) = [[7, 6]] ∧
    e2.records.map (·.bidVolAt) = [[[5, 5], [2, 2]]] ∧ e2.records.map (·.askVolAt) = [[[7, 6], [0, 0]]] ∧
    e2.records.map (·.bidOrdAt) = [[[1, 1], [1, 1]]] ∧ e2.tradeVols = [[0, 1]] := by decide

end Bourse.Props.C11
