/-
C11 — recorded market-data histories are complete, aligned and faithful.
Property theorems only.
-/
import Bourse.Lemmas.SimHistory
import Bourse.Model.Env
import Bourse.Lemmas.EnvInv
import Bourse.Props.C08

namespace Bourse.Props.C11
open Bourse

/-- All series of a record structure have `k` entries; there are `n` level series per kind. -/
structure WF (n k : Nat) (r : Records) : Prop where
  bp : r.bidPrices.length = k
  ap : r.askPrices.length = k
  bv : r.bidVols.length = k
  av : r.askVols.length = k
  nbv : r.bidVolAt.length = n
  nbo : r.bidOrdAt.length = n
  nav : r.askVolAt.length = n
  nao : r.askOrdAt.length = n
  lbv : ∀ s ∈ r.bidVolAt, s.length = k
  lbo : ∀ s ∈ r.bidOrdAt, s.length = k
  lav : ∀ s ∈ r.askVolAt, s.length = k
  lao : ∀ s ∈ r.askOrdAt, s.length = k

theorem wf_new (n : Nat) : WF n 0 (Records.new n) := by
  constructor <;> simp [Records.new, List.mem_replicate]

theorem pushAt_length (series : List (List Nat)) (levels : List (Nat × Nat)) (f : Nat × Nat → Nat) :
    (Records.pushAt series levels f).length = series.length := by
  simp [Records.pushAt]

theorem pushAt_getElem (series : List (List Nat)) (levels : List (Nat × Nat)) (f : Nat × Nat → Nat)
    (i : Nat) (h : i < series.length) :
    (Records.pushAt series levels f)[i]'(by simp [pushAt_length, h]) =
      series[i] ++ [f (levels[i]?.getD (0, 0))] := by
  simp [Records.pushAt]

theorem pushAt_mem_length (series : List (List Nat)) (levels : List (Nat × Nat)) (f : Nat × Nat → Nat)
    (k : Nat) (h : ∀ s ∈ series, s.length = k) : ∀ s ∈ Records.pushAt series levels f, s.length = k + 1 := by
  intro s hs
  obtain ⟨i, hi, rfl⟩ := List.mem_iff_getElem.mp hs
  have hi' : i < series.length := by simpa [pushAt_length] using hi
  rw [pushAt_getElem _ _ _ i hi']
  simp [h _ (List.getElem_mem hi')]

/-- **Complete and aligned.** Appending one record adds exactly one entry to every series. -/
theorem append_wf (n k : Nat) (r : Records) (l2 : Level2) (h : WF n k r) : WF n (k + 1) (r.append l2) := by
  constructor
  · simp [Records.append, h.bp]
  · simp [Records.append, h.ap]
  · simp [Records.append, h.bv]
  · simp [Records.append, h.av]
  · simp [Records.append, pushAt_length, h.nbv]
  · simp [Records.append, pushAt_length, h.nbo]
  · simp [Records.append, pushAt_length, h.nav]
  · simp [Records.append, pushAt_length, h.nao]
  · exact pushAt_mem_length _ _ _ _ h.lbv
  · exact pushAt_mem_length _ _ _ _ h.lbo
  · exact pushAt_mem_length _ _ _ _ h.lav
  · exact pushAt_mem_length _ _ _ _ h.lao

/-- **Faithful.** The entry appended to each series is the corresponding field of the level-2
record: bid series hold bid values, ask series ask values, level `i` holds level `i`; all older
entries are untouched. -/
theorem append_entries (r : Records) (l2 : Level2) :
    (r.append l2).bidPrices = r.bidPrices ++ [l2.bidPrice] ∧
    (r.append l2).askPrices = r.askPrices ++ [l2.askPrice] ∧
    (r.append l2).bidVols = r.bidVols ++ [l2.bidVol] ∧
    (r.append l2).askVols = r.askVols ++ [l2.askVol] ∧
    (∀ i (h : i < r.bidVolAt.length), (r.append l2).bidVolAt[i]? = some (r.bidVolAt[i] ++ [(l2.bidLevels[i]?.getD (0, 0)).1])) ∧
    (∀ i (h : i < r.bidOrdAt.length), (r.append l2).bidOrdAt[i]? = some (r.bidOrdAt[i] ++ [(l2.bidLevels[i]?.getD (0, 0)).2])) ∧
    (∀ i (h : i < r.askVolAt.length), (r.append l2).askVolAt[i]? = some (r.askVolAt[i] ++ [(l2.askLevels[i]?.getD (0, 0)).1])) ∧
    (∀ i (h : i < r.askOrdAt.length), (r.append l2).askOrdAt[i]? = some (r.askOrdAt[i] ++ [(l2.askLevels[i]?.getD (0, 0)).2])) := by
  refine ⟨rfl, rfl, rfl, rfl, ?_, ?_, ?_, ?_⟩ <;> intro i h <;>
    simp [Records.append, Records.pushAt, h]

/-- One step appends to asset `a`'s records exactly the level-2 data of its live book as of the end
of the step (the same data that becomes the cached snapshot), and to its traded-volume series the
book's counter. -/
theorem step_records (e : MEnv) (batch : List Instr) (a : Nat) (r : Records) (l : Level2)
    (hr : e.records[a]? = some r) (hl : ((e.stepWith batch).market.level2 e.nLevels)[a]? = some l) :
    (e.stepWith batch).records[a]? = some (r.append l) ∧ (e.stepWith batch).l2[a]? = some l := by
  simp only [MEnv.stepWith] at hl ⊢
  refine ⟨?_, hl⟩
  have hz := (List.getElem?_zip_eq_some (z := (r, l))).mpr ⟨hr, hl⟩
  simp only [List.getElem?_map, hz, Option.map_some]

/-- The invariant over whole runs: after `k` steps every record structure is well-formed with `k`
entries per series. -/
def AllWF (k : Nat) (e : MEnv) : Prop := ∀ r ∈ e.records, WF e.nLevels k r

theorem init_allwf (t0 : Nat) (ticks : List Nat) (step : Nat) (trading : Bool) (n : Nat) :
    AllWF 0 (MEnv.new t0 ticks step trading n) := by
  intro r hr
  simp [MEnv.new] at hr
  obtain ⟨_, _, rfl⟩ := hr
  exact wf_new n

/-- **After k steps every series has exactly k entries** (one step adds one entry everywhere). -/
theorem step_allwf (e : MEnv) (batch : List Instr) (k : Nat) (h : AllWF k e) : AllWF (k + 1) (e.stepWith batch) := by
  intro r hr
  simp only [MEnv.stepWith] at hr
  obtain ⟨⟨r0, l⟩, hz, rfl⟩ := List.mem_map.mp hr
  have hr0 : r0 ∈ e.records := (List.of_mem_zip hz).1
  exact append_wf _ _ _ _ (h r0 hr0)

/-- Submissions and toggles never touch the records. -/
theorem nonstep_records (e : MEnv) (g : Xoro) (op : MEnv.EOp) (h : op ≠ .step) :
    (e.apply g op).1.1.records = e.records ∧ (e.apply g op).1.1.tradeVols = e.tradeVols ∧
    (e.apply g op).1.1.nLevels = e.nLevels := by
  cases op with
  | submit a sd vol tr p => simp only [MEnv.apply, MEnv.placeOrder]; split <;> exact ⟨rfl, rfl, rfl⟩
  | qcancel a id => exact ⟨rfl, rfl, rfl⟩
  | qmodify a id p v => exact ⟨rfl, rfl, rfl⟩
  | step => exact absurd rfl h
  | trading on => cases on <;> exact ⟨rfl, rfl, rfl⟩

/-- Non-vacuity: an asymmetric two-level book; after two steps every series has two entries and
bid series hold bid values. -/
example :
    let e0 := MEnv.new 0 [1] 10 true 2
    let e1 := ((((e0.placeOrder 0 .bid 5 1 (some 10)).1.placeOrder 0 .bid 2 1 (some 9)).1.placeOrder 0 .ask 7 2 (some 12)).1.step (Xoro.seed 3)).1
    let e2 := ((e1.placeOrder 0 .bid 1 3 (some 12)).1.step (Xoro.seed 4)).1
    e2.records.map (·.bidPrices) = [[10, 10]] ∧ e2.records.map (·.askPrices) = [[12, 12]] ∧
    e2.records.map (·.bidVols) = [[7, 7]] ∧ e2.records.map (·.askVols) = [[7, 6]] ∧
    e2.records.map (·.bidVolAt) = [[[5, 5], [2, 2]]] ∧ e2.records.map (·.askVolAt) = [[[7, 6], [0, 0]]] ∧
    e2.records.map (·.bidOrdAt) = [[[1, 1], [1, 1]]] ∧ e2.tradeVols = [[0, 1]] := by decide

/-! ### Whole histories: entry `j` is the live book at the end of step `j`

The one-step statements above, lifted over ANY sequence of environment operations (submissions,
queued cancellations / modifications, trading switches, steps, any generator): the recorded series
of an asset are its starting series followed by exactly one entry per step, and the entry of step
`j` is the value the live book published at the end of step `j`. -/

/-- The level-2 data of every asset at the end of each step of a history, in step order. -/
def stepSnaps : MEnv × Xoro → List MEnv.EOp → List (List Level2)
  | _, [] => []
  | s, op :: rest =>
    (match op with
     | .step => [(s.1.apply s.2 .step).1.1.market.level2 s.1.nLevels]
     | _ => []) ++ stepSnaps (s.1.apply s.2 op).1 rest

/-- Append the snapshots of asset `a` one after the other. -/
def appendSnaps (a : Nat) (r : Records) (snaps : List (List Level2)) : Records :=
  snaps.foldl (fun r snap => r.append (snap[a]?.getD default)) r

/-- The environment has one record structure per book. -/
def Shape (e : MEnv) : Prop := e.records.length = e.market.books.length

theorem books_length_apply (e : MEnv) (g : Xoro) (op : MEnv.EOp) :
    (e.apply g op).1.1.market.books.length = e.market.books.length := by
  cases op with
  | submit a sd vol tr p =>
    simp only [MEnv.apply, MEnv.placeOrder, Market.createOrder, Market.stepOn]
    split <;> (split <;> simp)
  | qcancel a id => rfl
  | qmodify a id p v => rfl
  | step =>
    simp only [MEnv.apply, MEnv.step]
    cases hs : Xoro.shuffle e.queue g with
    | none => rfl
    | some r =>
      obtain ⟨batch, g'⟩ := r
      rw [C08.step_is_replay]
      -- a market run never changes the number of books
      have : ∀ (m : Market) (ops : List Market.MOp), (m.run ops).books.length = m.books.length := by
        intro m ops
        induction ops generalizing m with
        | nil => rfl
        | cons o rest ih =>
          simp only [Market.run, List.foldl_cons] at ih ⊢
          rw [ih, C14.n_assets_constant]
      exact this _ _
  | trading on => cases on <;> simp [MEnv.apply, MEnv.enableTrading, MEnv.disableTrading, Market.enableTrading, Market.disableTrading]

theorem records_length_apply (e : MEnv) (g : Xoro) (op : MEnv.EOp) (h : Shape e) :
    Shape (e.apply g op).1.1 := by
  unfold Shape at *
  rw [books_length_apply]
  cases op with
  | submit a sd vol tr p => simp only [MEnv.apply, MEnv.placeOrder]; split <;> exact h
  | qcancel a id => exact h
  | qmodify a id p v => exact h
  | step =>
    simp only [MEnv.apply, MEnv.step]
    cases hs : Xoro.shuffle e.queue g with
    | none => exact h
    | some r =>
      obtain ⟨batch, g'⟩ := r
      have hb := books_length_apply e g .step
      simp only [MEnv.apply, MEnv.step, hs] at hb
      simp only [MEnv.stepWith, List.length_map, List.length_zip, Market.level2] at hb ⊢
      omega
  | trading on => cases on <;> exact h

/-- One operation: the records of asset `a` grow by the snapshot of that step, or stay. -/
theorem records_apply (e : MEnv) (g : Xoro) (op : MEnv.EOp) (h : Shape e) (a : Nat) (r : Records)
    (hr : e.records[a]? = some r) (hfault : Xoro.shuffle e.queue g ≠ none) :
    (e.apply g op).1.1.records[a]? = some (appendSnaps a r (stepSnaps (e, g) [op])) := by
  cases op with
  | submit a' sd vol tr p =>
    simp only [stepSnaps, List.append_nil, appendSnaps, List.foldl_nil]
    rw [(nonstep_records e g _ (by simp)).1]; exact hr
  | qcancel a' id => exact hr
  | qmodify a' id p v => exact hr
  | trading on =>
    simp only [stepSnaps, List.append_nil, appendSnaps, List.foldl_nil]
    rw [(nonstep_records e g _ (by simp)).1]; exact hr
  | step =>
    simp only [stepSnaps, List.append_nil, appendSnaps, List.foldl_cons, List.foldl_nil]
    cases hs : Xoro.shuffle e.queue g with
    | none => exact absurd hs hfault
    | some rr =>
      obtain ⟨batch, g'⟩ := rr
      simp only [MEnv.apply, MEnv.step, hs]
      have hlt : a < e.records.length := (List.getElem?_eq_some_iff.mp hr).1
      have hlen : ((e.stepWith batch).market.level2 e.nLevels).length = e.records.length := by
        have hb := books_length_apply e g .step
        simp only [MEnv.apply, MEnv.step, hs] at hb
        simp only [Market.level2, List.length_map]
        rw [hb]; exact h.symm
      obtain ⟨l, hl⟩ : ∃ l, ((e.stepWith batch).market.level2 e.nLevels)[a]? = some l :=
        ⟨_, List.getElem?_eq_getElem (by rw [hlen]; exact hlt)⟩
      rw [(step_records e batch a r l hr hl).1, hl]
      rfl

/-- The generator's rejection loop never runs out of fuel along the history (it fails with
probability below `2^-256` per draw; a failure is a model fault). -/
def ShuffleOk : MEnv × Xoro → List MEnv.EOp → Prop
  | _, [] => True
  | s, op :: rest => Xoro.shuffle s.1.queue s.2 ≠ none ∧ ShuffleOk (s.1.apply s.2 op).1 rest

theorem appendSnaps_append (a : Nat) (r : Records) (x y : List (List Level2)) :
    appendSnaps a r (x ++ y) = appendSnaps a (appendSnaps a r x) y := by
  simp [appendSnaps, List.foldl_append]

theorem stepSnaps_cons (s : MEnv × Xoro) (op : MEnv.EOp) (rest : List MEnv.EOp) :
    stepSnaps s (op :: rest) = stepSnaps s [op] ++ stepSnaps (s.1.apply s.2 op).1 rest := by
  simp [stepSnaps]

/-- **After any history, the records of every asset are its starting records followed by one
snapshot per step, in step order** — the snapshot being the level-2 data of the live book at the end
of that step. -/
theorem records_are_step_snapshots (s : MEnv × Xoro) (ops : List MEnv.EOp) (h : Shape s.1) (hok : ShuffleOk s ops)
    (a : Nat) (r : Records) (hr : s.1.records[a]? = some r) :
    (MEnv.runOps s ops).1.records[a]? = some (appendSnaps a r (stepSnaps s ops)) := by
  induction ops generalizing s r with
  | nil => simpa [MEnv.runOps, stepSnaps, appendSnaps] using hr
  | cons op rest ih =>
    rw [stepSnaps_cons, appendSnaps_append]
    simp only [MEnv.runOps]
    have h1 := records_apply s.1 s.2 op h a r hr hok.1
    exact ih (s.1.apply s.2 op).1 (records_length_apply s.1 s.2 op h) hok.2 _ h1

/-- Reading the scalar series: the touch-price and side-volume series after the history are the
starting series followed, step by step, by the live book's bid price / ask price / bid volume / ask
volume at the end of each step — bid series from bid values, ask series from ask values, entry `j`
from step `j`. -/
theorem appendSnaps_series (a : Nat) (r : Records) (snaps : List (List Level2)) :
    (appendSnaps a r snaps).bidPrices = r.bidPrices ++ snaps.map (fun sn => (sn[a]?.getD default).bidPrice) ∧
    (appendSnaps a r snaps).askPrices = r.askPrices ++ snaps.map (fun sn => (sn[a]?.getD default).askPrice) ∧
    (appendSnaps a r snaps).bidVols = r.bidVols ++ snaps.map (fun sn => (sn[a]?.getD default).bidVol) ∧
    (appendSnaps a r snaps).askVols = r.askVols ++ snaps.map (fun sn => (sn[a]?.getD default).askVol) := by
  induction snaps generalizing r with
  | nil => simp [appendSnaps]
  | cons sn rest ih =>
    have := ih (r.append (sn[a]?.getD default))
    simp only [appendSnaps, List.foldl_cons] at this ⊢
    refine ⟨?_, ?_, ?_, ?_⟩
    · rw [this.1]; simp [Records.append]
    · rw [this.2.1]; simp [Records.append]
    · rw [this.2.2.1]; simp [Records.append]
    · rw [this.2.2.2]; simp [Records.append]

/-- The number of snapshots is the number of steps. -/
theorem stepSnaps_length (s : MEnv × Xoro) (ops : List MEnv.EOp) :
    (stepSnaps s ops).length = (ops.filter (· == .step)).length := by
  induction ops generalizing s with
  | nil => rfl
  | cons op rest ih =>
    rw [stepSnaps_cons, List.length_append, ih]
    cases op <;> simp [stepSnaps] <;> omega

/-- Non-vacuity: the two-step history of the example above as environment operations. -/
example :
    let s0 := (MEnv.new 0 [1] 10 true 2, Xoro.seed 3)
    let ops : List MEnv.EOp := [.submit 0 .bid 5 1 (some 10), .submit 0 .bid 2 1 (some 9), .submit 0 .ask 7 2 (some 12), .step,
                                .submit 0 .bid 1 3 (some 12), .step]
    ((MEnv.runOps s0 ops).1.records.map (·.bidVols)) = [[7, 7]] ∧ (stepSnaps s0 ops).length = 2 ∧
    ((stepSnaps s0 ops).map fun sn => sn.map (·.askVol)) = [[7], [6]] := by decide

/-! ### Whole simulations of the built-in agents: `k` steps, `k` entries -/

theorem runOps_subs_keeps (ops : List MEnv.EOp) (s : MEnv × Xoro) (hsub : ∀ op ∈ ops, Props.C10.IsSubmission op) :
    (MEnv.runOps s ops).1.fault = s.1.fault ∧ (MEnv.runOps s ops).1.records = s.1.records ∧
    (MEnv.runOps s ops).1.nLevels = s.1.nLevels := by
  induction ops generalizing s with
  | nil => exact ⟨rfl, rfl, rfl⟩
  | cons op rest ih =>
    simp only [MEnv.runOps]
    have h1 : (s.1.apply s.2 op).1.1.fault = s.1.fault ∧ (s.1.apply s.2 op).1.1.records = s.1.records ∧
        (s.1.apply s.2 op).1.1.nLevels = s.1.nLevels := by
      have := hsub op List.mem_cons_self
      cases op with
      | submit a sd vol tr p => simp only [MEnv.apply, MEnv.placeOrder]; split <;> exact ⟨rfl, rfl, rfl⟩
      | qcancel a id => exact ⟨rfl, rfl, rfl⟩
      | qmodify a id p v => exact ⟨rfl, rfl, rfl⟩
      | step => exact absurd this (by simp [Props.C10.IsSubmission])
      | trading on => exact absurd this (by simp [Props.C10.IsSubmission])
    obtain ⟨r1, r2, r3⟩ := ih (s.1.apply s.2 op).1 (fun o ho => hsub o (List.mem_cons_of_mem _ ho))
    exact ⟨r1.trans h1.1, r2.trans h1.2.1, r3.trans h1.2.2⟩

/-- Submissions keep the fault flag, the records and the level count. -/
theorem subs_keeps {e e' : MEnv} (h : Subs e e') :
    e'.fault = e.fault ∧ e'.records = e.records ∧ e'.nLevels = e.nLevels := by
  obtain ⟨ops, hs, hr⟩ := h
  have := runOps_subs_keeps ops (e, Xoro.seed 0) hs
  rw [hr (Xoro.seed 0)] at this
  exact this

theorem step_fault_sticky (e : MEnv) (g : Xoro) (h : e.fault = true) : (e.step g).1.fault = true := by
  unfold MEnv.step
  split
  · simp [MEnv.stepWith, h]
  · rfl

/-- A fault (a failed shuffle, a clock overflow) is never cleared by a simulation. -/
theorem simLoopG_fault_sticky (th : F → F) (n : Nat) (as : SimAgents) (e : MEnv) (g : Xoro) (as' : SimAgents) (e' : MEnv)
    (g' : Xoro) (h : simLoopG th n as e g = some (as', e', g')) (hf : e.fault = true) : e'.fault = true := by
  induction n generalizing as e g with
  | zero =>
    simp only [simLoopG, Option.some.injEq, Prod.mk.injEq] at h
    rw [← h.2.1]; exact hf
  | succ n ih =>
    simp only [simLoopG] at h
    split at h
    · cases h
    · rename_i a1 e1 g1 hu
      have h1 := (subs_keeps (SimAgents.updateAll_subs th as e g a1 e1 g1 hu)).1
      exact ih _ _ _ h (step_fault_sticky e1 g1 (h1.trans hf))

/-- **After `k` steps of ANY simulation of the built-in agents every recorded series has exactly `k`
more entries**: whatever agents are composed (random, noise, momentum, nested derived sets), for every
sampler, `tanh`, generator state and step count — if the run ends without a fault, every series of
every asset that had `k` entries has `k + n` after `n` steps. (Agents only submit: they never touch the
records; each step appends exactly one entry to every series.) -/
theorem simulation_records_have_one_entry_per_step (th : F → F) (n : Nat) (as : SimAgents) (e : MEnv) (g : Xoro)
    (as' : SimAgents) (e' : MEnv) (g' : Xoro) (h : simLoopG th n as e g = some (as', e', g'))
    (hnf : e'.fault = false) (k : Nat) (hwf : AllWF k e) : AllWF (k + n) e' := by
  induction n generalizing as e g k with
  | zero =>
    simp only [simLoopG, Option.some.injEq, Prod.mk.injEq] at h
    rw [← h.2.1]; exact hwf
  | succ n ih =>
    simp only [simLoopG] at h
    split at h
    · cases h
    · rename_i a1 e1 g1 hu
      obtain ⟨_, hrec, hlev⟩ := subs_keeps (SimAgents.updateAll_subs th as e g a1 e1 g1 hu)
      have hwf1 : AllWF k e1 := by
        intro r hr
        rw [hrec] at hr
        rw [hlev]
        exact hwf r hr
      have hstep : AllWF (k + 1) (e1.step g1).1 := by
        unfold MEnv.step
        split
        · exact step_allwf e1 _ k hwf1
        · -- the shuffle failed: the environment is faulted for good, contradicting the fault-free end of the run
          rename_i hs
          have hft : (e1.step g1).1.fault = true := by simp [MEnv.step, hs]
          have := simLoopG_fault_sticky th n _ _ _ _ _ _ h hft
          rw [hnf] at this; cases this
      have := ih _ _ _ h (k + 1) hstep
      rw [show k + (n + 1) = k + 1 + n by omega]
      exact this

end Bourse.Props.C11

