/-
C20 — derived agent sets update every member once, in declaration order, on the shared state.
Property theorems only.
-/
import Bourse.Model.AgentSet
import Bourse.Generated.DeriveTemplate

namespace Bourse.Props.C20
open Bourse
open Bourse.Generated.Derive

/-- The emission loop the model `derive` implements. -/
def modelLoop : List String :=
  ["for", "field", "in", "fields", "{", "let", "field_name", "=", "field", ".", "ident", ".", "clone", "(", ")", ";",
   "if", "field_name", ".", "is_some", "(", ")", "{", "call_tokens", ".", "extend", "(", "quote!", "(",
   "self", ".", "#", "field_name", ".", "update", "(", "env", ",", "rng", ")", ";", ")", ")", ";", "}", "}"]

/-- How both macros obtain the field list: the named fields of the struct, as declared. -/
def modelPre : List String :=
  ["let", "name", "=", "&", "ast", ".", "ident", ";", "let", "fields", "=", "match", "&", "ast", ".", "data", "{",
   "syn", "::", "Data", "::", "Struct", "(", "syn", "::", "DataStruct", "{", "fields", ":", "syn", "::", "Fields", "::",
   "Named", "(", "fields", ")", ",", "..", "}", ")", "=>", "&", "fields", ".", "named", ",", "_", "=>", "panic!", "(",
   "\"expected a struct with named fields\"", ")", ",", "}", ";", "let", "mut", "call_tokens", "=", "quote!", "(", ")", ";"]

/-- **The source (as translated on this run) is the template the model assumes**, for both
macros: fields taken as declared, one `self.<field>.update(env, rng);` per named field in loop
order, spliced as the whole body of `update`, which hands over the same `env` and `rng`. -/
theorem template_is_model :
    agents_loop = modelLoop ∧ market_loop = modelLoop ∧ agents_pre = modelPre ∧ market_pre = modelPre ∧
    agents_post = ["let", "output", "=", "quote!", "{", "impl", "bourse_de", "::", "agents", "::", "AgentSet", "for", "#", "name", "{",
      "fn", "update", "<", "R", ":", "rand", "::", "RngCore", ">", "(", "&", "mut", "self", ",", "env", ":", "&", "mut",
      "bourse_de", "::", "Env", ",", "rng", ":", "&", "mut", "R", ")", "{", "#", "call_tokens", "}", "}", "}", ";",
      "TokenStream", "::", "from", "(", "output", ")"] ∧
    market_post = ["let", "output", "=", "quote!", "{", "impl", "bourse_de", "::", "agents", "::", "MarketAgentSet", "for", "#", "name", "{",
      "fn", "update", "<", "R", ":", "rand", "::", "RngCore", ",", "const", "M", ":", "usize", ",", "const", "N", ":", "usize", ">",
      "(", "&", "mut", "self", ",", "env", ":", "&", "mut", "bourse_de", "::", "MarketEnv", "<", "M", ",", "N", ">", ",",
      "rng", ":", "&", "mut", "R", ")", "{", "#", "call_tokens", "}", "}", "}", ";", "TokenStream", "::", "from", "(", "output", ")"] ∧
    agents_entry = ["let", "ast", "=", "syn", "::", "parse", "(", "input", ")", ".", "unwrap", "(", ")", ";", "impl_agents_macro", "(", "&", "ast", ")"] ∧
    market_entry = ["let", "ast", "=", "syn", "::", "parse", "(", "input", ")", ".", "unwrap", "(", ")", ";", "impl_market_agents_macro", "(", "&", "ast", ")"] := by
  decide

/-- **Every field exactly once, in declaration order**: the calls emitted for named fields
`f₁ … fₙ` are exactly `f₁ … fₙ`. -/
theorem derive_calls (names : List String) : callLog (derive (names.map some)) = names := by
  induction names with
  | nil => rfl
  | cons n ns ih =>
    simp only [derive, List.map_cons, List.filterMap_cons, Option.map_some, callLog] at ih ⊢
    rw [ih]

/-- Folding probe updates over a leaf list. -/
def foldLeaves (ls : List (Nat × Nat)) (s : SetSt) : SetSt :=
  ls.foldl (fun s l => probeUpdate l.1 l.2 s) s

theorem foldLeaves_append (a b : List (Nat × Nat)) (s : SetSt) :
    foldLeaves (a ++ b) s = foldLeaves b (foldLeaves a s) := by
  simp [foldLeaves, List.foldl_append]

mutual
theorem member_update_eq (m : Member) (s : SetSt) : m.update s = foldLeaves m.leaves s := by
  cases m with
  | probe tag draws => simp [Member.update, Member.leaves, foldLeaves]
  | set ms => simp only [Member.update, Member.leaves]; exact members_update_eq ms s
theorem members_update_eq (ms : Members) (s : SetSt) : ms.updateAll s = foldLeaves ms.leaves s := by
  cases ms with
  | nil => simp [Members.updateAll, Members.leaves, foldLeaves]
  | cons m ms =>
    simp only [Members.updateAll, Members.leaves]
    rw [foldLeaves_append, ← member_update_eq m s, members_update_eq ms]
end

/-- **Interchangeable with the hand-written sequence, also when nested**: updating a derived set
is the same as updating its leaf agents one after another in preorder (declaration order with
nested sets expanded in place), all on the one shared environment and generator. -/
theorem derived_eq_handwritten (ms : Members) (s : SetSt) :
    (Member.set ms).update s = foldLeaves ms.leaves s := member_update_eq (.set ms) s

/-- A probe's log entries carry its own tag, one per draw; older entries and the environment are
untouched while it draws. -/
theorem probeDraws_log (tag n : Nat) (s : SetSt) :
    ∃ ext, (probeDraws tag n s).log = s.log ++ ext ∧ ext.map (·.1) = List.replicate n tag ∧
      (probeDraws tag n s).env = s.env := by
  induction n generalizing s with
  | zero => exact ⟨[], by simp [probeDraws]⟩
  | succ n ih =>
    simp only [probeDraws]
    obtain ⟨ext, h1, h2, h3⟩ := ih { s with log := s.log ++ [(tag, s.g.next.1, ((s.env.market.books[0]?).map (·.orders.length)).getD 0)], g := s.g.next.2 }
    refine ⟨(tag, s.g.next.1, ((s.env.market.books[0]?).map (·.orders.length)).getD 0) :: ext, ?_, ?_, h3⟩
    · rw [h1]; simp
    · simp [h2, List.replicate_succ]

/-- Non-vacuity and the concrete reading: the shape `{ k: Probe2, inner: { a: Probe }, z: Probe2, y: Probe }`
(tags 0..3) logs tags `0 0 1 2 2 3` with six successive generator outputs, per update. -/
example :
    let top : Members := .cons (.probe 0 2) (.cons (.set (.cons (.probe 1 1) .nil)) (.cons (.probe 2 2) (.cons (.probe 3 1) .nil)))
    let s0 : SetSt := { log := [], env := MEnv.new 0 [1] 100 true 10, g := Xoro.seed 3 }
    ((runShape top 1 s0).log.map (·.1)) = [0, 0, 1, 2, 2, 3] ∧
    ((runShape top 1 s0).log.map (·.2.2)) = [0, 0, 1, 2, 2, 3] ∧
    ((runShape top 1 s0).log.map (·.2.1)).take 2 = [8743207885743740680, 6859422025971031132] := by
  decide

end Bourse.Props.C20
