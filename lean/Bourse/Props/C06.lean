/-
C06 — a modification keeps queue priority only for pure volume reductions.
Property theorems only.
-/
import Bourse.Model.Ops
import Bourse.Lemmas.MatchFrame
import Bourse.Lemmas.ListAux
import Bourse.Lemmas.RefineStep
import Bourse.Lemmas.NoOverflow

namespace Bourse.Props.C06
open Bourse

/-- **Dispatch table** of a modification of an Active order on `(new_price, new_vol)`:
nothing given → nothing happens; only a smaller volume → reduced in place; anything else
(a price is given, or the volume is not smaller) → taken out and re-entered; omitted fields keep
their current values. -/
theorem modify_dispatch (b : Book) (e : Entry) (p v : Nat) :
    b.modifyEntry e none none = (b, e) ∧
    (v < e.order.vol → b.modifyEntry e none (some v) = b.reduceOrderVol e (e.order.vol - v)) ∧
    (¬ v < e.order.vol → b.modifyEntry e none (some v) = b.replaceOrder e e.order.price v) ∧
    b.modifyEntry e (some p) none = b.replaceOrder e p e.order.vol ∧
    b.modifyEntry e (some p) (some v) = b.replaceOrder e p v := by
  refine ⟨rfl, ?_, ?_, rfl, rfl⟩ <;> intro h <;> simp [Book.modifyEntry, h]

/-- A modification with nothing to change does nothing (whole model state equal). -/
theorem modify_none_none_noop (b : Book) (id : Nat) (e : Entry) (h : b.orders[id]? = some e) :
    b.modifyOrder id none none = b := by
  simp only [Book.modifyOrder, h, Book.offGrid]
  by_cases ha : e.order.status = .active
  · simp [ha, Book.modifyEntry, Book.writeBack, set_of_getElem? h]
  · simp [ha]

/-- **A pure volume reduction keeps its place in the queue**: both priority queues (the maps from
(price key, stamp) to order id) are unchanged, so is the stamp counter, the order's key, the trade
log and every other order; only the order's volume and its side's published volumes change. -/
theorem reduce_keeps_position (b : Book) (e : Entry) (red : Nat) :
    let r := b.reduceOrderVol e red
    r.1.bid.orders = b.bid.orders ∧ r.1.ask.orders = b.ask.orders ∧ r.1.stamp = b.stamp ∧
    r.2.key = e.key ∧ r.1.trades = b.trades ∧ r.1.orders = b.orders ∧
    r.2.order = { e.order with vol := e.order.vol - red } ∧
    r.1.side e.key.side = (b.side e.key.side).removeVol e.key.pk red ∧
    r.1.side e.key.side.opp = b.side e.key.side.opp := by
  simp only [Book.reduceOrderVol]
  refine ⟨?_, ?_, by simp, trivial, by simp, by simp, trivial, by simp, by simp⟩
  · cases h : e.key.side <;> simp [Book.setSide, Book.side, SideS.removeVol] <;> split <;> rfl
  · cases h : e.key.side <;> simp [Book.setSide, Book.side, SideS.removeVol] <;> split <;> rfl

/-- The reduced order ends with exactly the requested volume. -/
theorem reduce_sets_volume (b : Book) (e : Entry) (v : Nat) (h : v < e.order.vol) :
    (b.modifyEntry e none (some v)).2.order.vol = v := by
  simp [Book.modifyEntry, h, Book.reduceOrderVol]; omega

/-- **Any other modification re-enters the order as if newly arrived**: it is removed from its
queue with its current volume, matched against the opposite side with the new price and volume
(when trading), and — unless completely filled — queued under the *new* price key with the *next*
stamp, i.e. behind every order already resting at that price. -/
theorem replace_is_reenter (b : Book) (e : Entry) (np nv : Nat) :
    let e' : Entry := { e with order := { e.order with vol := nv, price := np } }
    let r := Book.matchIfTrading e.key.side (b.dequeue e) e'
    b.replaceOrder e np nv =
      (if r.2.order.status ≠ .filled then Book.enqueue e.key.side r.1 r.2 (priceKey e.key.side np) else r) ∧
    (r.2.order.status ≠ .filled →
      (b.replaceOrder e np nv).2.key = ⟨e.key.side, priceKey e.key.side np, b.stamp⟩ ∧
      (b.replaceOrder e np nv).1.stamp = b.stamp + 1) := by
  refine ⟨rfl, fun h => ?_⟩
  have hf := Book.matchIfTrading_frame e.key.side (b.dequeue e)
    { e with order := { e.order with vol := nv, price := np } }
  simp [Book.replaceOrder, Book.restUnlessFilled, h, Book.enqueue, hf.2.2.2.1]

/-- A re-entered order keeps its id, side, trader, original arrival time and starting volume,
and carries the new price. -/
theorem replace_keeps_identity (b : Book) (e : Entry) (np nv : Nat) :
    let o := (b.replaceOrder e np nv).2.order
    o.id = e.order.id ∧ o.side = e.order.side ∧ o.trader = e.order.trader ∧ o.arr = e.order.arr ∧
    o.svol = e.order.svol ∧ o.price = np := by
  have hi := Book.matchIfTrading_ident e.key.side (b.dequeue e)
    { e with order := { e.order with vol := nv, price := np } }
  have hr := Book.restUnlessFilled_trades e.key.side
    (Book.matchIfTrading e.key.side (b.dequeue e) { e with order := { e.order with vol := nv, price := np } })
    (priceKey e.key.side np)
  simp only [Book.replaceOrder]
  rw [hr.2.2.2.2.2.2]
  exact hi

/-- While trading is disabled (or when nothing crosses) the re-entered order rests with exactly
the new volume. -/
theorem replace_no_trading_rests (b : Book) (e : Entry) (np nv : Nat) (h : b.trading = false)
    (ha : e.order.status = .active) :
    (b.replaceOrder e np nv).2.order = { e.order with vol := nv, price := np } ∧
    (b.replaceOrder e np nv).1.side e.key.side =
      ((b.dequeue e).side e.key.side).insertOrder (priceKey e.key.side np) b.stamp e.order.id nv := by
  simp [Book.replaceOrder, Book.matchIfTrading, h, Book.restUnlessFilled, ha, Book.enqueue]
  cases e.key.side <;> rfl

/-- Non-vacuity and the concrete reading: three asks at one price; reducing the first keeps it
first, "modifying" the first to the same volume sends it to the back, re-pricing across the
spread trades at once. -/
example :
    let b0 := (Book.new 0 1 true).run [.cap .ask 5 1 (some 10), .time 1, .cap .ask 5 2 (some 10), .time 2,
      .cap .ask 5 3 (some 10), .time 3, .cap .bid 4 4 (some 8), .time 4]
    let drain : List Op := [.time 9, .cap .bid 6 9 none]
    ((b0.run ([.modify 0 none (some 3)] ++ drain)).trades.map (·.passive)) = [0, 1] ∧
    ((b0.run ([.modify 0 none (some 5)] ++ drain)).trades.map (·.passive)) = [1, 2] ∧
    ((b0.run [.modify 0 (some 8) none]).trades.map (fun t => (t.active, t.passive, t.price, t.vol))) = [(0, 3, 8, 4)] := by
  decide

/-! ### The same statements for every reachable book, through the refinement -/

/-- In every reachable state (invariant holds) a modify request with an in-range price that does not
fault acts on the abstract state — order table, two FIFO id lists, trade log — exactly as the
reference engine's `modify` does. -/
theorem modify_is_reference_modify {b : Book} (h : Inv b) (id : Nat) (np nv : Option Nat)
    (hp : ∀ p, np = some p → p ≤ MAXP) (hnf : (b.modifyOrder id np nv).faulted = false) :
    abs (b.modifyOrder id np nv) = Ref.modify (abs b) id np nv :=
  modify_refines h id np nv hp hnf

/-- Reference engine, pure volume reduction: both queues, the trade log and every other order are
untouched; the order's record changes in its volume only. -/
theorem ref_reduce_keeps_place (s : Ref.RState) (id : Nat) (o : Order) (v : Nat)
    (ho : s.orders[id]? = some o) (ha : o.status = .active) (hv : v < o.vol) :
    Ref.modify s id none (some v) = { s with orders := s.orders.set id { o with vol := v } } := by
  simp [Ref.modify, ho, ha, hv, Book.offGrid]

/-- Reference engine, any other modification of an Active order (a price is given, or the volume
is not smaller): the order is erased from its queue and handed, with the new price and volume and
nothing else changed, to `enter` — the very function that places a newly arrived limit order. -/
theorem ref_replace_is_arrival (s : Ref.RState) (id : Nat) (o : Order) (p v : Option Nat)
    (ho : s.orders[id]? = some o) (ha : o.status = .active) (hg : Book.offGrid s.tick p = false)
    (hre : p.isSome ∨ ∃ w, v = some w ∧ o.vol ≤ w) :
    Ref.modify s id p v =
      { (Ref.enter (s.setQueue o.side ((s.queue o.side).erase id))
            { o with vol := v.getD o.vol, price := p.getD o.price } false).1 with
        orders := (Ref.enter (s.setQueue o.side ((s.queue o.side).erase id))
            { o with vol := v.getD o.vol, price := p.getD o.price } false).1.orders.set id
          (Ref.enter (s.setQueue o.side ((s.queue o.side).erase id))
            { o with vol := v.getD o.vol, price := p.getD o.price } false).2 } := by
  rcases hre with hp | ⟨w, hw, hle⟩
  · cases p with
    | none => cases hp
    | some q => cases v <;> simp [Ref.modify, ho, ha, hg]
  · subst hw
    cases p with
    | none => simp [Ref.modify, ho, ha, hg, Nat.not_lt.mpr hle]
    | some q => simp [Ref.modify, ho, ha, hg]

/-- A newly placed limit order goes through the same `enter` (so "as if newly arrived" is literal). -/
theorem ref_place_limit_is_enter (s : Ref.RState) (id : Nat) (o : Order)
    (ho : s.orders[id]? = some o) (hn : o.status = .new) (hm : Book.isMarket o = false) :
    Ref.place s id =
      { (Ref.enter s { o with status := .active, arr := s.t } false).1 with
        orders := (Ref.enter s { o with status := .active, arr := s.t } false).1.orders.set id
          (Ref.enter s { o with status := .active, arr := s.t } false).2 } := by
  simp [Ref.place, ho, hn, hm]

/-- The reference loop never touches the aggressor's identity: id, side, trader, arrival time,
starting volume and price are those it came with. -/
theorem ref_match_keeps_identity (t : Nat) (q : List Nat) (st : Ref.MatchSt) :
    (Ref.matchQ t q st).2.agg.id = st.agg.id ∧ (Ref.matchQ t q st).2.agg.side = st.agg.side ∧
    (Ref.matchQ t q st).2.agg.trader = st.agg.trader ∧ (Ref.matchQ t q st).2.agg.arr = st.agg.arr ∧
    (Ref.matchQ t q st).2.agg.svol = st.agg.svol ∧ (Ref.matchQ t q st).2.agg.price = st.agg.price := by
  induction q generalizing st with
  | nil => simp [Ref.matchQ]
  | cons j q ih =>
    unfold Ref.matchQ
    split
    · simp
    · split
      · simp only
        split
        · refine ⟨(ih _).1.trans ?_, (ih _).2.1.trans ?_, (ih _).2.2.1.trans ?_, (ih _).2.2.2.1.trans ?_,
            (ih _).2.2.2.2.1.trans ?_, (ih _).2.2.2.2.2.trans ?_⟩ <;> (simp only; split <;> rfl)
        · simp only
          refine ⟨?_, ?_, ?_, ?_, ?_, ?_⟩ <;> (split <;> rfl)
      · simp

/-- Hence a modified order keeps its id, side, trader, original arrival time and starting volume
through `enter`, whatever happens to it there. -/
theorem ref_enter_keeps_identity (s : Ref.RState) (agg : Order) (market : Bool) :
    (Ref.enter s agg market).2.id = agg.id ∧ (Ref.enter s agg market).2.side = agg.side ∧
    (Ref.enter s agg market).2.trader = agg.trader ∧ (Ref.enter s agg market).2.arr = agg.arr ∧
    (Ref.enter s agg market).2.svol = agg.svol ∧ (Ref.enter s agg market).2.price = agg.price := by
  have hm : (Ref.matchPhase s agg).2.id = agg.id ∧ (Ref.matchPhase s agg).2.side = agg.side ∧
      (Ref.matchPhase s agg).2.trader = agg.trader ∧ (Ref.matchPhase s agg).2.arr = agg.arr ∧
      (Ref.matchPhase s agg).2.svol = agg.svol ∧ (Ref.matchPhase s agg).2.price = agg.price := by
    unfold Ref.matchPhase
    split
    · exact ref_match_keeps_identity _ _ _
    · simp
  rw [Ref.enter_eq]
  split
  · simp
  · split
    · exact hm
    · split
      · exact hm
      · exact hm

/-- `modify_is_reference_modify` at every state reached by a valid history, for every modify request
on a known id whose outcome keeps the totals below `2^32` (the property's validity conditions). -/
theorem modify_is_reference_modify_valid (t0 tick : Nat) (trading : Bool) (ops : List Op)
    (h : ValidHistory t0 tick trading ops) (id : Nat) (np nv : Option Nat)
    (hp : ∀ p, np = some p → p ≤ MAXP) (hvv : ∀ v, nv = some v → 0 < v)
    (hid : id < ((Book.new t0 tick trading).run ops).orders.length)
    (hb : (((Book.new t0 tick trading).run ops).modifyOrder id np nv).Bounded) :
    abs (((Book.new t0 tick trading).run ops).modifyOrder id np nv) =
      Ref.modify (abs ((Book.new t0 tick trading).run ops)) id np nv :=
  modify_is_reference_modify h.inv id np nv hp (h.inv.modify_nofault id np nv hid hvv hb)

end Bourse.Props.C06
