/-
C06 — a modification keeps queue priority only for pure volume reductions.
Property theorems only.
-/
import Bourse.Model.Ops
import Bourse.Lemmas.MatchFrame
import Bourse.Lemmas.ListAux

namespace Bourse.Props.C06
open Bourse

/-- **Dispatch table** of a modification of an Active order on `(new_price, new_vol)`:
nothing given → nothing happens; only a smaller volume → reduced in place; anything else
(a price is given, or the volume is not smaller) → taken out and re-entered; omitted fields keep
their current values. -/
theorem modify_dispatch (b : Book) (e : Entry) (p v : Nat) :
    b.modifyEntry e none none = (b, e) ∧
    (v < e.order.vol → b.modifyEntry e none (some v) = b.reduceOrderVol e (e.order.vol - v)) ∧
    (¬ v < e.order.vol → b.modifyEntry e none (some v) = b.replaceOrder e e.order.price v) ∧
    b.modifyEntry e (some p) none = b.replaceOrder e p e.order.vol ∧
    b.modifyEntry e (some p) (some v) = b.replaceOrder e p v := by
  refine ⟨rfl, ?_, ?_, rfl, rfl⟩ <;> intro h <;> simp [Book.modifyEntry, h]

/-- A modification with nothing to change does nothing (whole model state equal). -/
theorem modify_none_none_noop (b : Book) (id : Nat) (e : Entry) (h : b.orders[id]? = some e) :
    b.modifyOrder id none none = b := by
  simp only [Book.modifyOrder, h, Book.offGrid]
  by_cases ha : e.order.status = .active
  · simp [ha, Book.modifyEntry, Book.writeBack, set_of_getElem? h]
  · simp [ha]

/-- **A pure volume reduction keeps its place in the queue**: both priority queues (the maps from
(price key, stamp) to order id) are unchanged, so is the stamp counter, the order's key, the trade
log and every other order; only the order's volume and its side's published volumes change. -/
theorem reduce_keeps_position (b : Book) (e : Entry) (red : Nat) :
    let r := b.reduceOrderVol e red
    r.1.bid.orders = b.bid.orders ∧ r.1.ask.orders = b.ask.orders ∧ r.1.stamp = b.stamp ∧
    r.2.key = e.key ∧ r.1.trades = b.trades ∧ r.1.orders = b.orders ∧
    r.2.order = { e.order with vol := e.order.vol - red } ∧
    r.1.side e.key.side = (b.side e.key.side).removeVol e.key.pk red ∧
    r.1.side e.key.side.opp = b.side e.key.side.opp := by
  simp only [Book.reduceOrderVol]
  refine ⟨?_, ?_, by simp, trivial, by simp, by simp, trivial, by simp, by simp⟩
  · cases h : e.key.side <;> simp [Book.setSide, Book.side, SideS.removeVol] <;> split <;> rfl
  · cases h : e.key.side <;> simp [Book.setSide, Book.side, SideS.removeVol] <;> split <;> rfl

/-- The reduced order ends with exactly the requested volume. -/
theorem reduce_sets_volume (b : Book) (e : Entry) (v : Nat) (h : v < e.order.vol) :
    (b.modifyEntry e none (some v)).2.order.vol = v := by
  simp [Book.modifyEntry, h, Book.reduceOrderVol]; omega

/-- **Any other modification re-enters the order as if newly arrived**: it is removed from its
queue with its current volume, matched against the opposite side with the new price and volume
(when trading), and — unless completely filled — queued under the *new* price key with the *next*
stamp, i.e. behind every order already resting at that price. -/
theorem replace_is_reenter (b : Book) (e : Entry) (np nv : Nat) :
    let e' : Entry := { e with order := { e.order with vol := nv, price := np } }
    let r := Book.matchIfTrading e.key.side (b.dequeue e) e'
    b.replaceOrder e np nv =
      (if r.2.order.status ≠ .filled then Book.enqueue e.key.side r.1 r.2 (priceKey e.key.side np) else r) ∧
    (r.2.order.status ≠ .filled →
      (b.replaceOrder e np nv).2.key = ⟨e.key.side, priceKey e.key.side np, b.stamp⟩ ∧
      (b.replaceOrder e np nv).1.stamp = b.stamp + 1) := by
  refine ⟨rfl, fun h => ?_⟩
  have hf := Book.matchIfTrading_frame e.key.side (b.dequeue e)
    { e with order := { e.order with vol := nv, price := np } }
  simp [Book.replaceOrder, Book.restUnlessFilled, h, Book.enqueue, hf.2.2.2.1]

/-- A re-entered order keeps its id, side, trader, original arrival time and starting volume,
and carries the new price. -/
theorem replace_keeps_identity (b : Book) (e : Entry) (np nv : Nat) :
    let o := (b.replaceOrder e np nv).2.order
    o.id = e.order.id ∧ o.side = e.order.side ∧ o.trader = e.order.trader ∧ o.arr = e.order.arr ∧
    o.svol = e.order.svol ∧ o.price = np := by
  have hi := Book.matchIfTrading_ident e.key.side (b.dequeue e)
    { e with order := { e.order with vol := nv, price := np } }
  have hr := Book.restUnlessFilled_trades e.key.side
    (Book.matchIfTrading e.key.side (b.dequeue e) { e with order := { e.order with vol := nv, price := np } })
    (priceKey e.key.side np)
  simp only [Book.replaceOrder]
  rw [hr.2.2.2.2.2.2]
  exact hi

/-- While trading is disabled (or when nothing crosses) the re-entered order rests with exactly
the new volume. -/
theorem replace_no_trading_rests (b : Book) (e : Entry) (np nv : Nat) (h : b.trading = false)
    (ha : e.order.status = .active) :
    (b.replaceOrder e np nv).2.order = { e.order with vol := nv, price := np } ∧
    (b.replaceOrder e np nv).1.side e.key.side =
      ((b.dequeue e).side e.key.side).insertOrder (priceKey e.key.side np) b.stamp e.order.id nv := by
  simp [Book.replaceOrder, Book.matchIfTrading, h, Book.restUnlessFilled, ha, Book.enqueue]
  cases e.key.side <;> rfl

/-- Non-vacuity and the concrete reading: three asks at one price; reducing the first keeps it
first, "modifying" the first to the same volume sends it to the back, re-pricing across the
spread trades at once. -/
example :
    let b0 := (Book.new 0 1 true).run [.cap .ask 5 1 (some 10), .time 1, .cap .ask 5 2 (some 10), .time 2,
      .cap .ask 5 3 (some 10), .time 3, .cap .bid 4 4 (some 8), .time 4]
    let drain : List Op := [.time 9, .cap .bid 6 9 none]
    ((b0.run ([.modify 0 none (some 3)] ++ drain)).trades.map (·.passive)) = [0, 1] ∧
    ((b0.run ([.modify 0 none (some 5)] ++ drain)).trades.map (·.passive)) = [1, 2] ∧
    ((b0.run [.modify 0 (some 8) none]).trades.map (fun t => (t.active, t.passive, t.price, t.vol))) = [(0, 3, 8, 4)] := by
  decide

end Bourse.Props.C06
